(* C08, counter independence, part 8: the WRITER under a weaker side condition.

   CounterWrite.write_safe asks (semi_ok) that in keys, string / float leaves, comment texts and include names NO semicolon is
   directly followed by an upper case letter or a digit.  That excludes ordinary files (a comment "// see a;B", a string
   'x;1 y').  What the re-insertion stages of the formatter actually search for is

       PLACEHOLDER ws+ PLACEHOLDER;            PLACEHOLDER = BLOCKCOMMENT / INCLUDE / LINECOMMENT + at least six digits

   and what follows that semicolon is glued to the text put in place of the pattern.  The condition used here (psemi, a
   boolean on a text) only looks at semicolons that directly follow a placeholder-shaped word:

       psemi x :  x has no factor   W d^{>=6} ;^{>=1} [A-Z0-9]      W one of BLOCKCOMMENT / INCLUDE / LINECOMMENT

   (a placeholder-shaped word, one or more semicolons, an upper case letter or a digit).  It is asked of the BODY the
   formatter lays out from the data (before any re-insertion) and of the table texts, not of every key and leaf:

       write_safe' s :  psemi (native_body (sd_data s));
                        block comment texts:  psemi, do not begin with  ;* [A-Z0-9], end with a character not in [A-Z0-9];
                        include names:        id < 10^6, psemi (format_string name);
                        line comment texts:   id < 10^6, psemi, do not begin with  ;* [A-Z0-9].

   write_safe s = true -> write_safe' s = true (write_safe_weaker), and

       write_safe' s = true -> to_string_sd (rename_sd d s) = rename_str d (to_string_sd s)      (writer_equivariant')

   likewise for the Foam formatter (foam_write_safe', foam_writer_equivariant'). *)
From Coq Require Import String.
From Coq Require Import NArith ZArith Bool Lia ZifyBool ZifyN ZifyNat.
From DictIO Require Import Chars Str Value Scalar KeyPath SDict Layout Lexer TokParser Reader MiscSpec CliProofs.
From DictIO Require ScalarProofs LayoutProofs FoamProofs OrderProofs TypeTable EvalProofs.
From DictIO Require Import Expr Eval Cli Parse.
From DictIO Require Import CounterBase CounterLex CounterParse CounterInsert CounterProofs CounterRead CounterWrite.
From Coq Require Import List.
Import ListNotations.
Open Scope N_scope.

(* ================================================================================================ *)
(* 1. the side condition                                                                            *)
(* ================================================================================================ *)
Fixpoint drop_semis (s : str) : str := match s with c :: s' => if c =? c_semi then drop_semis s' else s | [] => [] end.
(* s does not begin with  ;* [A-Z0-9] *)
Definition hd_ok (s : str) : bool := head_ok (drop_semis s).
(* t = W d^{>=6} ; r *)
Definition shape_after (W t : str) : option str :=
  if starts_with W t then
    let (ds, r) := span is_digit (drop_n (length W) t) in
    if (6 <=? length ds)%nat then match r with c :: r' => if c =? c_semi then Some r' else None | [] => None end else None
  else None.
(* the words the formatter searches for *)
Definition wwords : list str := [w_BLOCKCOMMENT; w_INCLUDE; w_LINECOMMENT].
Definition psemi_at (t : str) : bool :=
  forallb (fun W => match shape_after W t with Some r => hd_ok r | None => true end) wwords.
Fixpoint psemi (s : str) : bool := match s with [] => true | _ :: s' => psemi_at s && psemi s' end.

Definition bc_ok' (t : str) : bool := hd_ok t && last_ok t && psemi t.
Definition lc_ok' (t : str) : bool := hd_ok t && psemi t.
Definition write_safe_gen (body : str) (fmt_name : str -> str) (s : sdict) : bool :=
  psemi body && forallb (fun e => bc_ok' (snd e)) (sd_bc s) &&
  forallb (fun e => idb e && psemi (fmt_name (inc_name e))) (sd_inc s) && forallb (fun e => idb e && lc_ok' (snd e)) (sd_lc s).
Definition write_safe' (s : sdict) : bool := write_safe_gen (native_body (sd_data s)) format_string s.
Definition foam_data (s : sdict) : list (key * tree) := match strip_us (Dict (sd_data s)) with Dict k => k | _ => [] end.
Definition foam_write_safe' (s : sdict) : bool := write_safe_gen (foam_body (foam_data s)) foam_format_string s.

(* ---- hd_ok ------------------------------------------------------------------------------------------ *)
Lemma hd_ok_semi r : hd_ok (c_semi :: r) = hd_ok r.
Proof. reflexivity. Qed.
Lemma hd_ok_cons c r : c <> c_semi -> hd_ok (c :: r) = negb (isAN c).
Proof. intros H. unfold hd_ok. cbn [drop_semis]. apply N.eqb_neq in H. rewrite H. reflexivity. Qed.
Lemma hd_ok_head r : hd_ok r = true -> head_ok r = true.
Proof.
  destruct r as [|c r]; [reflexivity|]. destruct (N.eq_dec c c_semi) as [->|H]; [reflexivity|]. rewrite hd_ok_cons by exact H. intros E; exact E.
Qed.
Lemma hd_ok_app l b : hd_ok l = true -> hd_ok b = true -> hd_ok (l ++ b) = true.
Proof.
  induction l as [|c l IH]; intros H1 H2; [exact H2|]. destruct (N.eq_dec c c_semi) as [->|H].
  - cbn [app]. rewrite hd_ok_semi in *. exact (IH H1 H2).
  - cbn [app]. rewrite hd_ok_cons in * by exact H. exact H1.
Qed.
Lemma hd_ok_app_inv l b : hd_ok (l ++ b) = true -> hd_ok l = true.
Proof.
  induction l as [|c l IH]; intros H1; [reflexivity|]. destruct (N.eq_dec c c_semi) as [->|H].
  - cbn [app] in H1. rewrite hd_ok_semi in *. exact (IH H1).
  - cbn [app] in H1. rewrite hd_ok_cons in * by exact H. exact H1.
Qed.
Lemma hd_ok_nAN c r : isAN c = false -> c <> c_semi -> hd_ok (c :: r) = true.
Proof. intros H1 H2. rewrite hd_ok_cons by exact H2. rewrite H1. reflexivity. Qed.
Lemma hd_ok_AN c r : isAN c = true -> hd_ok (c :: r) = false.
Proof. intros H. rewrite hd_ok_cons; [rewrite H; reflexivity|]. intros ->. discriminate H. Qed.
Lemma head_semi_hd r : head_ok r = true -> semi_ok r = true -> hd_ok r = true.
Proof.
  induction r as [|c r IH]; intros H1 H2; [reflexivity|]. cbn [semi_ok] in H2. apply andb_true_iff in H2. destruct H2 as [H2 H3].
  destruct (N.eq_dec c c_semi) as [->|H].
  - rewrite hd_ok_semi. rewrite N.eqb_refl in H2. exact (IH H2 H3).
  - rewrite hd_ok_cons by exact H. exact H1.
Qed.

(* ---- span ------------------------------------------------------------------------------------------- *)
Lemma span_all (p : cp -> bool) (ds : str) c r : forallb p ds = true -> p c = false -> span p (ds ++ c :: r) = (ds, c :: r).
Proof.
  induction ds as [|x ds IH]; intros H Hc; [cbn [app span]; rewrite Hc; reflexivity|].
  cbn [forallb] in H. apply andb_true_iff in H. destruct H as [H1 H2]. cbn [app span]. rewrite H1, (IH H2 Hc). reflexivity.
Qed.
Lemma span_fst_all (p : cp -> bool) (s : str) : forallb p (fst (span p s)) = true.
Proof.
  induction s as [|c s IH]; [reflexivity|]. cbn [span]. destruct (p c) eqn:E; [|reflexivity].
  destruct (span p s) as [a b]. cbn [fst forallb] in *. rewrite E, IH. reflexivity.
Qed.

(* ---- shape_after ------------------------------------------------------------------------------------ *)
Lemma shape_after_intro W (ds r : str) : forallb is_digit ds = true -> (6 <= length ds)%nat ->
  shape_after W (W ++ ds ++ c_semi :: r) = Some r.
Proof.
  intros D L. unfold shape_after. rewrite starts_with_app, drop_n_app. pose proof (span_all is_digit ds c_semi r D eq_refl) as E0.
  unfold cp in *. rewrite E0.
  destruct (6 <=? length ds)%nat eqn:E; [|apply Nat.leb_gt in E; lia]. rewrite N.eqb_refl. reflexivity.
Qed.
Lemma shape_after_elim W t r : shape_after W t = Some r ->
  exists ds, t = W ++ ds ++ c_semi :: r /\ forallb is_digit ds = true /\ (6 <= length ds)%nat.
Proof.
  unfold shape_after. destruct (starts_with W t) eqn:E1; [|discriminate]. apply starts_with_eq in E1.
  pose proof (span_fst_snd is_digit (drop_n (length W) t)) as E2. pose proof (span_fst_all is_digit (drop_n (length W) t)) as E3.
  destruct (span is_digit (drop_n (length W) t)) as [ds r0]. cbn [fst snd] in *.
  destruct (6 <=? length ds)%nat eqn:E4; [|discriminate]. destruct r0 as [|c r0]; [discriminate|].
  destruct (c =? c_semi) eqn:E5; [|discriminate]. intros H. injection H as <-. apply N.eqb_eq in E5. subst c.
  exists ds. split; [rewrite E2; exact E1|]. split; [exact E3|apply Nat.leb_le; exact E4].
Qed.

Lemma wwords_all W : In W wwords -> In W all_words.
Proof. intros [<-|[<-|[<-|[]]]]; [left|right; right; left|right; left]; reflexivity. Qed.
Lemma all_words_AN W : In W wwords -> forallb isAN W = true.
Proof.
  intros H. apply wwords_all in H. destruct (all_words_upper W H) as [U _]. apply forallb_forall. intros c Hc.
  rewrite forallb_forall in U. unfold isAN. rewrite (U c Hc). reflexivity.
Qed.
Lemma digits_AN (ds : str) : forallb is_digit ds = true -> forallb isAN ds = true.
Proof. intros H. apply forallb_forall. intros c Hc. rewrite forallb_forall in H. unfold isAN. rewrite (H c Hc). apply orb_true_r. Qed.

(* ---- psemi ------------------------------------------------------------------------------------------ *)
Lemma psemi_at_use W t r : psemi_at t = true -> In W wwords -> shape_after W t = Some r -> hd_ok r = true.
Proof. unfold psemi_at. intros H Hin E. rewrite forallb_forall in H. specialize (H W Hin). rewrite E in H. exact H. Qed.

Lemma psemi_suffix a b : psemi (a ++ b) = true -> psemi b = true.
Proof. induction a as [|c a IH]; intros H; [exact H|]. cbn [app psemi] in H. apply andb_true_iff in H. exact (IH (proj2 H)). Qed.

Lemma psemi_at_nil : psemi_at [] = true.
Proof. reflexivity. Qed.
Lemma psemi_cons c s : psemi (c :: s) = psemi_at (c :: s) && psemi s.
Proof. reflexivity. Qed.

Lemma psemi_use a W (ds r : str) : psemi (a ++ W ++ ds ++ c_semi :: r) = true -> In W wwords ->
  forallb is_digit ds = true -> (6 <= length ds)%nat -> hd_ok r = true.
Proof.
  intros H Hin D L. apply psemi_suffix in H. destruct (word_head W (wwords_all W Hin)) as (x & w & -> & _). cbn [app] in H.
  rewrite psemi_cons in H. apply andb_true_iff in H. destruct H as [H _].
  apply (psemi_at_use (x :: w) _ r H Hin). exact (shape_after_intro (x :: w) ds r D L).
Qed.

Lemma psemi_at_prefix t b : psemi_at (t ++ b) = true -> psemi_at t = true.
Proof.
  intros H. unfold psemi_at. apply forallb_forall. intros W Hin. destruct (shape_after W t) as [l|] eqn:E; [|reflexivity].
  destruct (shape_after_elim _ _ _ E) as (ds & -> & D & L).
  apply (hd_ok_app_inv l b). apply (psemi_at_use W _ _ H Hin).
  rewrite <- !app_assoc. cbn [app]. apply shape_after_intro; assumption.
Qed.
Lemma psemi_prefix a b : psemi (a ++ b) = true -> psemi a = true.
Proof.
  induction a as [|c a IH]; intros H; [reflexivity|]. cbn [app] in H. rewrite psemi_cons in *. apply andb_true_iff in H. destruct H as [H1 H2].
  rewrite (IH H2), andb_true_r. exact (psemi_at_prefix (c :: a) b H1).
Qed.

(* a non-empty suffix of (upper case letters / digits) ++ [;] that does not begin with one of them is the semicolon *)
Lemma AN_suffix (U t l : str) x : forallb isAN U = true -> U ++ [c_semi] = t ++ x :: l -> isAN x = false -> l = [] /\ U = t.
Proof.
  revert t. induction U as [|u U IH]; intros t HU E Hx.
  - destruct t as [|y t]; [cbn in E; injection E as _ <-; split; reflexivity|]. cbn in E. injection E as _ E. destruct t; discriminate E.
  - cbn [forallb] in HU. apply andb_true_iff in HU. destruct HU as [H1 H2]. destruct t as [|y t].
    + cbn [app] in E. injection E as -> _. congruence.
    + cbn [app] in E. injection E as <- E. destruct (IH t H2 E Hx) as [-> ->]. split; reflexivity.
Qed.

Lemma psemi_at_join t b : t <> [] -> psemi_at t = true -> hd_ok b = true -> psemi_at (t ++ b) = true.
Proof.
  intros Hne Ht Hb. unfold psemi_at. apply forallb_forall. intros W Hin. destruct (shape_after W (t ++ b)) as [r'|] eqn:E; [|reflexivity].
  destruct (shape_after_elim _ _ _ E) as (ds & E2 & D & L).
  assert (HU : forallb isAN (W ++ ds) = true) by (rewrite forallb_app; apply andb_true_iff; split; [exact (all_words_AN W Hin)|exact (digits_AN ds D)]).
  rewrite app_assoc in E2. apply app_eq_app in E2. destruct E2 as [l [[E3 E4]|[E3 E4]]].
  - destruct l as [|x l].
    + cbn [app] in E4. subst b. rewrite hd_ok_semi in Hb. exact Hb.
    + cbn [app] in E4. injection E4 as <- ->. apply hd_ok_app; [|exact Hb].
      apply (psemi_at_use W t l Ht Hin). rewrite E3, <- app_assoc. apply shape_after_intro; assumption.
  - destruct l as [|x l].
    + cbn [app] in E4. subst b. rewrite hd_ok_semi in Hb. exact Hb.
    + exfalso. subst b. cbn [app] in Hb. destruct (isAN x) eqn:Ex; [rewrite (hd_ok_AN x _ Ex) in Hb; discriminate Hb|].
      (* x is a letter or digit of W ++ ds *)
      assert (Hx : In x (W ++ ds)) by (rewrite E3; apply in_or_app; right; left; reflexivity).
      rewrite forallb_forall in HU. rewrite (HU x Hx) in Ex. discriminate Ex.
Qed.

(* junction: the right part does not begin with  ;* [A-Z0-9] *)
Lemma psemi_join a b : psemi a = true -> psemi b = true -> hd_ok b = true -> psemi (a ++ b) = true.
Proof.
  intros Ha Hb Hh. induction a as [|c a IH]; [exact Hb|]. rewrite psemi_cons in Ha. apply andb_true_iff in Ha. destruct Ha as [H1 H2].
  cbn [app]. rewrite psemi_cons, (IH H2), andb_true_r. change (c :: a ++ b) with ((c :: a) ++ b).
  apply psemi_at_join; [discriminate|exact H1|exact Hh].
Qed.

Lemma psemi_at_nupper c s : is_upper c = false -> psemi_at (c :: s) = true.
Proof.
  intros H. unfold psemi_at. apply forallb_forall. intros W Hin. destruct (shape_after W (c :: s)) as [r|] eqn:E; [|reflexivity].
  exfalso. destruct (shape_after_elim _ _ _ E) as (ds & E2 & _). destruct (all_words_upper W (wwords_all W Hin)) as [U Hne].
  destruct W as [|x W]; [congruence|]. cbn [app] in E2. injection E2 as -> _. cbn [forallb] in U. apply andb_true_iff in U.
  rewrite (proj1 U) in H. discriminate H.
Qed.

(* junction: the left part ends with a character that is neither [A-Z0-9] nor a semicolon *)
Lemma psemi_join_E a b : psemi a = true -> psemi b = true -> endc a -> psemi (a ++ b) = true.
Proof.
  intros Ha Hb [->|(a' & c & -> & H1 & H2)]; [exact Hb|]. rewrite <- app_assoc. cbn [app].
  apply psemi_join; [exact (psemi_prefix _ _ Ha)| |apply hd_ok_nAN; assumption].
  rewrite psemi_cons, Hb, andb_true_r. apply psemi_at_nupper. apply nAN_nupper. exact H1.
Qed.

Lemma semi_ok_psemi s : semi_ok s = true -> psemi s = true.
Proof.
  induction s as [|c s IH]; intros H; [reflexivity|]. rewrite psemi_cons. assert (H2 : semi_ok s = true).
  { cbn [semi_ok] in H. apply andb_true_iff in H. exact (proj2 H). }
  rewrite (IH H2), andb_true_r. unfold psemi_at. apply forallb_forall. intros W Hin.
  destruct (shape_after W (c :: s)) as [r|] eqn:E; [|reflexivity]. destruct (shape_after_elim _ _ _ E) as (ds & E2 & _).
  rewrite E2, app_assoc in H. destruct (semi_ok_after _ _ H) as [H3 H4]. apply head_semi_hd; assumption.
Qed.

Lemma psemi_clean_words s : forallb (fun c => negb (is_upper c)) s = true -> psemi s = true.
Proof.
  induction s as [|c s IH]; intros H; [reflexivity|]. cbn [forallb] in H. apply andb_true_iff in H. destruct H as [H1 H2].
  rewrite psemi_cons, (IH H2), andb_true_r. apply psemi_at_nupper. apply negb_true_iff. exact H1.
Qed.

(* ================================================================================================ *)
(* 2. the body: format_dict commutes with the renaming (no side condition)                          *)
(* ================================================================================================ *)
Section Body0.
Variable d : Z.
Local Notation R := (rename_str d).

Definition g0 (x x' : str) : Prop := x' = R x.

Lemma g0_nil : g0 [] [].
Proof. reflexivity. Qed.
Lemma g0_app_B a a' b b' : g0 a a' -> g0 b b' -> head_ok b = true -> g0 (a ++ b) (a' ++ b').
Proof. intros -> -> H. symmetry. apply R_app_B. exact H. Qed.
Lemma g0_app_E a a' b b' : g0 a a' -> g0 b b' -> endc a -> g0 (a ++ b) (a' ++ b').
Proof. intros -> -> H. symmetry. apply R_app_E. exact H. Qed.
Lemma g0_clean x : cleanb x = true -> g0 x x.
Proof. intros H. symmetry. apply rename_clean. exact H. Qed.
Lemma g0_plain x : forallb (fun c => negb (is_upper c) && negb (c =? c_semi)) x = true -> g0 x x.
Proof. intros H. exact (proj1 (good_plain d x H)). Qed.
Lemma g0_length x x' : g0 x x' -> length x' = length x.
Proof. intros ->. apply rename_length. Qed.

Lemma quote_g0 (q : N) x x' : isAN q = false -> g0 x x' -> g0 (q :: x ++ [q]) (q :: x' ++ [q]).
Proof.
  intros Hq ->. unfold g0. rewrite (R_cons d q _ (nAN_nupper q Hq)), (R_snoc d x q Hq). reflexivity.
Qed.

Lemma format_string_g0 (s : list N) : g0 (format_string s) (format_string (R s)).
Proof.
  assert (G : g0 s (R s)) by reflexivity. unfold format_string. rewrite classify_string_R. unfold sq, dq.
  destruct (classify_string s); try exact G; apply quote_g0; try exact G; reflexivity.
Qed.
Lemma format_scalar_g0 v : g0 (format_scalar v) (format_scalar (Rsc d v)).
Proof.
  destruct v as [z|l|b| |s]; cbn [format_scalar Rsc].
  - apply g0_plain. apply Z_to_dec_plain.
  - reflexivity.
  - destruct b; apply g0_plain; reflexivity.
  - apply g0_clean; reflexivity.
  - apply format_string_g0.
Qed.
Lemma format_key_g0 k : g0 (format_key k) (format_key (Rk d k)).
Proof. destruct k as [z|s]; cbn [format_key Rk]; [apply g0_plain; apply Z_to_dec_plain|apply format_string_g0]. Qed.
Lemma key_text_g0 k : g0 (key_text k) (key_text (Rk d k)).
Proof. destruct k as [z|s]; cbn [key_text Rk]; [apply g0_plain; apply Z_to_dec_plain|reflexivity]. Qed.

Lemma spaces_g0 n : g0 (spaces n) (spaces n).
Proof. exact (proj1 (spaces_good d n)). Qed.
Lemma lf_g0 : g0 [c_lf] [c_lf].
Proof. exact (proj1 (lf_good d)). Qed.
Lemma char_g0 c : isAN c = false -> c <> c_semi -> g0 [c] [c].
Proof. intros H1 H2. exact (proj1 (char_good d c H1 H2)). Qed.
Lemma line_g0 level txt txt' nl : g0 txt txt' -> g0 (line level txt nl) (line level txt' nl).
Proof.
  intros H. unfold line, indent_of. apply g0_app_E; [apply spaces_g0| |apply endc_spaces].
  destruct nl; [apply g0_app_B; [exact H|apply lf_g0|reflexivity]|rewrite !app_nil_r; exact H].
Qed.

Section Fmt0.
  Variable fmt : scalar -> str.
  Variable fmtk : key -> str.
  Hypothesis Hfmt : forall v, g0 (fmt v) (fmt (Rsc d v)).
  Hypothesis Hfmtk : forall k, g0 (fmtk k) (fmtk (Rk d k)).
  Local Notation FT := (fmt_tree fmt fmtk).
  Local Notation AE := (FoamProofs.aentries fmt fmtk).
  Local Notation AI := (FoamProofs.aitems fmt fmtk).

  Definition Pfmt0 (t : tree) : Prop := forall level anc,
    g0 (FT level anc t) (FT level anc (Rt d t)) /\
    match t with Leaf _ => True | _ => endc (FT level anc t) end /\
    match t with Lst _ => head_ok (FT level anc t) = true | _ => True end.

  Lemma leaf_line_g0 level k v :
    g0 (line level (fmtk k ++ spaces (Nat.max 8 (30 - length (fmtk k) - 4 * level)) ++ fmt v ++ [c_semi]) true)
       (line level (fmtk (Rk d k) ++ spaces (Nat.max 8 (30 - length (fmtk (Rk d k)) - 4 * level)) ++ fmt (Rsc d v) ++ [c_semi]) true).
  Proof.
    apply line_g0. rewrite (g0_length _ _ (Hfmtk k)).
    assert (Hs : g0 [c_semi] [c_semi]) by reflexivity.
    apply g0_app_B; [exact (Hfmtk k)| |].
    - apply g0_app_E; [apply spaces_g0| |apply endc_spaces]. apply g0_app_B; [exact (Hfmt v)|exact Hs|reflexivity].
    - destruct (Nat.max 8 (30 - length (fmtk k) - 4 * level)) eqn:E; [lia|reflexivity].
  Qed.

  Lemma aentries_g0 level : forall kvs, Forall (fun kt => Pfmt0 (snd kt)) kvs ->
    g0 (AE level kvs) (AE level (Rkv d (Rt d) kvs)) /\ endc (AE level kvs).
  Proof.
    induction 1 as [|[k c] kvs Hc _ IH]; [split; [apply g0_nil|left; reflexivity]|].
    destruct IH as [G E]. rewrite Rkv_cons. cbn [snd] in Hc.
    assert (Hl : forall x x' , g0 x x' -> g0 (line level x true) (line level x' true)) by (intros; apply line_g0; assumption).
    destruct c as [v|sub|ts].
    - cbn [FoamProofs.aentries Rt]. cbv zeta. split.
      + apply g0_app_E; [apply leaf_line_g0|exact G|apply line_endc].
      + apply endc_app'; [apply line_endc|exact E].
    - destruct (Hc (S level) false) as (G1 & E1 & _). rewrite Rt_dict in *. cbn [FoamProofs.aentries].
      assert (E2 : endc (line level (key_text k) true ++ line level [c_lbrace] true ++
                         FT (S level) false (Dict sub) ++ line level [c_rbrace] true)).
      { rewrite !app_assoc. apply endc_app; [apply line_endc|apply line_ne]. }
      split; [|apply endc_app'; assumption].
      apply g0_app_E; [|exact G|exact E2].
      apply g0_app_E; [apply Hl; apply key_text_g0| |apply line_endc].
      apply g0_app_E; [apply Hl; apply char_g0; [reflexivity|discriminate]| |apply line_endc].
      apply g0_app_E; [exact G1|apply Hl; apply char_g0; [reflexivity|discriminate]|exact E1].
    - destruct (Hc level false) as (G1 & E1 & _). rewrite Rt_lst in *. cbn [FoamProofs.aentries].
      assert (E2 : endc (line level (key_text k) true ++ FT level false (Lst ts))) by (apply endc_app'; [apply line_endc|exact E1]).
      split; [|apply endc_app'; assumption].
      apply g0_app_E; [|exact G|exact E2].
      apply g0_app_E; [apply Hl; apply key_text_g0|exact G1|apply line_endc].
  Qed.

  Lemma list_item_g0 level first idx len v :
    g0 (fst (list_item fmt level first idx len v)) (fst (list_item fmt level first idx len (Rsc d v))) /\
    snd (list_item fmt level first idx len (Rsc d v)) = snd (list_item fmt level first idx len v) /\
    head_ok (fst (list_item fmt level first idx len v)) = true.
  Proof.
    unfold list_item. cbv zeta. rewrite (g0_length _ _ (Hfmt v)).
    destruct (Nat.eqb (Nat.modulo (S idx) 10) 0 || Nat.eqb (S idx) len); cbn [fst snd].
    - split; [apply line_g0; exact (Hfmt v)|]. split; [reflexivity|]. destruct first; apply line_head_S.
    - split; [|split; [reflexivity|destruct first; apply line_head_S]].
      apply line_g0. destruct (14 - length (fmt v))%nat as [|n] eqn:E; [cbn [spaces repeat]; rewrite !app_nil_r; exact (Hfmt v)|].
      apply g0_app_B; [exact (Hfmt v)|apply spaces_g0|reflexivity].
  Qed.

  Lemma aitems_g0 level len : forall ts, Forall Pfmt0 ts -> forall idx first,
    g0 (AI level len ts idx first) (AI level len (map (Rt d) ts) idx first) /\ head_ok (AI level len ts idx first) = true.
  Proof.
    induction 1 as [|c ts Hc _ IH]; intros idx first; [split; [apply g0_nil|reflexivity]|]. cbn [map].
    assert (Hl : forall x x' , g0 x x' -> g0 (line (S level) x true) (line (S level) x' true)) by (intros; apply line_g0; assumption).
    destruct c as [v|sub|ts'].
    - cbn [FoamProofs.aitems Rt]. destruct (list_item_g0 level first idx len v) as (G1 & E1 & H1).
      destruct (list_item fmt level first idx len v) as [s1 f1]. destruct (list_item fmt level first idx len (Rsc d v)) as [s2 f2].
      cbn [fst snd] in *. subst f2. destruct (IH (S idx) f1) as [G2 H2]. split.
      + apply g0_app_B; assumption.
      + apply head_ok_app'; assumption.
    - destruct (Hc (S (S level)) false) as (G1 & E1 & _). rewrite Rt_dict in *. cbn [FoamProofs.aitems].
      destruct (IH (S idx) true) as [G2 H2]. split; [|apply line_head_S'].
      apply g0_app_E; [apply Hl; apply g0_nil| |apply line_endc].
      apply g0_app_E; [apply Hl; apply char_g0; [reflexivity|discriminate]| |apply line_endc].
      apply g0_app_E; [exact G1| |exact E1].
      apply g0_app_E; [apply Hl; apply char_g0; [reflexivity|discriminate]|exact G2|apply line_endc].
    - destruct (Hc (S level) true) as (G1 & E1 & H1). rewrite Rt_lst in *. cbn [FoamProofs.aitems].
      destruct (IH (S idx) first) as [G2 H2]. split.
      + apply g0_app_B; assumption.
      + apply head_ok_app'; assumption.
  Qed.

  Lemma fmt_tree_g0 : forall t, Pfmt0 t.
  Proof.
    induction t as [v|kvs IH|ts IH] using tree_ind'; intros level anc.
    - split; [exact (Hfmt v)|split; exact I].
    - rewrite Rt_dict, !FoamProofs.afmt_dict. destruct (aentries_g0 level kvs IH) as [G E]. split; [exact G|split; [exact E|exact I]].
    - rewrite Rt_lst, !FoamProofs.afmt_lst, map_length. destruct (aitems_g0 level (length ts) ts IH 0%nat true) as [G H].
      assert (Gc : g0 (if anc then [c_rpar] else [c_rpar; c_semi]) (if anc then [c_rpar] else [c_rpar; c_semi])).
      { destruct anc; apply g0_clean; reflexivity. }
      split; [|split].
      + apply g0_app_E; [apply line_g0; apply char_g0; [reflexivity|discriminate]| |apply line_endc].
        apply g0_app_B; [exact G|apply line_g0; exact Gc|]. destruct anc; apply line_head_c; reflexivity.
      + rewrite !app_assoc. apply endc_app; [apply line_endc|apply line_ne].
      + apply line_head_c'. reflexivity.
  Qed.

  Lemma body_g0 kvs :
    g0 (fmt_tree fmt fmtk 0 false (Dict (sort_top kvs))) (fmt_tree fmt fmtk 0 false (Dict (sort_top (Rkv d (Rt d) kvs)))).
  Proof. rewrite sort_top_R, <- Rt_dict. exact (proj1 (fmt_tree_g0 _ 0%nat false)). Qed.
End Fmt0.

Lemma native_body_R kvs : native_body (Rkv d (Rt d) kvs) = R (native_body kvs).
Proof. exact (body_g0 format_scalar format_key format_scalar_g0 format_key_g0 kvs). Qed.

(* ---- Foam ------------------------------------------------------------------------------------------- *)
Lemma foam_format_string_g0 (s : list N) : g0 (foam_format_string s) (foam_format_string (R s)).
Proof.
  assert (G : g0 s (R s)) by reflexivity. assert (G2 : g0 (escape_dq s) (escape_dq (R s))) by apply escape_dq_R.
  unfold foam_format_string. rewrite classify_string_R. unfold dq.
  destruct (classify_string s); try exact G; apply quote_g0; try exact G; try exact G2; reflexivity.
Qed.
Lemma foam_format_scalar_g0 v : g0 (foam_format_scalar v) (foam_format_scalar (Rsc d v)).
Proof. destruct v as [z|l|b| |s]; try exact (format_scalar_g0 _). cbn [foam_format_scalar Rsc]. apply foam_format_string_g0. Qed.
Lemma foam_key_g0 k : g0 (foam_key k) (foam_key (Rk d k)).
Proof. destruct k as [z|s]; cbn [foam_key Rk]; [apply g0_plain; apply Z_to_dec_plain|apply foam_format_string_g0]. Qed.
Lemma us_R0 k : starts_with [c_us] (foam_key (Rk d k)) = starts_with [c_us] (foam_key k).
Proof. rewrite (foam_key_g0 k). symmetry. apply starts_with_dsim; [reflexivity|apply dsim_rename]. Qed.

Lemma strip_us_R0 : forall t, strip_us (Rt d t) = Rt d (strip_us t).
Proof.
  induction t as [v|kvs IH|ts IH] using tree_ind'.
  - reflexivity.
  - rewrite Rt_dict, !strip_us_dict, Rt_dict. f_equal.
    induction IH as [|[k c] l Hc _ IHl]; [reflexivity|]. cbn [snd] in Hc.
    rewrite Rkv_cons. cbn [filter fst snd]. rewrite (us_R0 k).
    destruct (starts_with [c_us] (foam_key k)); cbn [negb]; [exact IHl|].
    cbn [map fst snd]. rewrite Rkv_cons, Hc, IHl. reflexivity.
  - rewrite Rt_lst, !strip_us_lst, Rt_lst. f_equal.
    induction IH as [|c l Hc _ IHl]; [reflexivity|]. cbn [map]. rewrite Hc, IHl. reflexivity.
Qed.

Lemma foam_data_R s : foam_data (Rsd d s) = Rkv d (Rt d) (foam_data s).
Proof.
  unfold foam_data, Rsd. cbn [sd_data]. rewrite <- Rt_dict, strip_us_R0. rewrite strip_us_dict, Rt_dict. reflexivity.
Qed.
Lemma foam_body_R kvs : foam_body (Rkv d (Rt d) kvs) = R (foam_body kvs).
Proof. exact (body_g0 foam_format_scalar foam_key foam_format_scalar_g0 foam_key_g0 kvs). Qed.
End Body0.

(* ================================================================================================ *)
(* 3. re-insertion: the substitution of  PLACEHOLDER ws+ PLACEHOLDER;  under psemi                  *)
(* ================================================================================================ *)
(* x' is the renamed x and x has no placeholder-shaped word followed by semicolons and [A-Z0-9] *)
Definition good' (d : Z) (x x' : str) : Prop := x' = rename_str d x /\ psemi x = true.

Lemma good'_length d x x' : good' d x x' -> length x' = length x.
Proof. intros [-> _]. apply rename_length. Qed.

Section Sub'.
Variable d : Z.
Local Notation R := (rename_str d).
Local Notation Ri := (rename_str (- d)).
Variables ph ph' : str.
Variable W0 ds0 : str.
Hypothesis Eph : ph = W0 ++ ds0.
Hypothesis HW0 : In W0 wwords.
Hypothesis Hds0 : forallb is_digit ds0 = true.
Hypothesis Lds0 : (6 <= length ds0)%nat.
Hypothesis Hph : forall x y, R (x ++ ph ++ y) = R x ++ ph' ++ R y.
Hypothesis Hphi : forall x y, Ri (x ++ ph' ++ y) = Ri x ++ ph ++ Ri y.

Lemma ph_head' : exists x0 r0, ph = x0 :: r0 /\ isAN x0 = true.
Proof. destruct (word_head W0 (wwords_all W0 HW0)) as (x & w & E & Hx). exists x, (w ++ ds0). rewrite Eph, E. split; [reflexivity|exact Hx]. Qed.

Lemma match_rest' s rest : match_ph_pair ph s = Some rest -> psemi s = true ->
  hd_ok rest = true /\ psemi rest = true /\ (length rest < length s)%nat.
Proof.
  intros M H. destruct (match_form _ _ _ M) as (c & s1 & E & Hc & El). destruct (lstrip_suffix s1) as [w Ew]. rewrite El in Ew.
  assert (Es : s = (ph ++ c :: w) ++ W0 ++ ds0 ++ c_semi :: rest).
  { rewrite E, Ew, Eph. repeat rewrite <- app_assoc. cbn [app]. repeat rewrite <- app_assoc. reflexivity. }
  split; [|split].
  - rewrite Es in H. exact (psemi_use _ W0 ds0 rest H HW0 Hds0 Lds0).
  - rewrite Es, !app_assoc in H. apply psemi_suffix in H. rewrite psemi_cons in H. apply andb_true_iff in H. exact (proj2 H).
  - rewrite Es. repeat (rewrite app_length; cbn [length]). lia.
Qed.

Lemma match_nK (c : N) (s : list N) : isAN c = false -> match_ph_pair ph (c :: s) = None.
Proof. destruct ph_head' as (x0 & r0 & E & Hx). exact (match_nAN ph x0 r0 E Hx c s). Qed.

Section Repl'.
Variables repl repl' : str.
Hypothesis Erepl : repl' = R repl.
Hypothesis Prepl : psemi repl = true.
Hypothesis Hhd : hd_ok repl = true.

Lemma sub_head' f s : head_ok s = true -> head_ok (fst (sub_ph_pair f ph repl s)) = true.
Proof. destruct ph_head' as (x0 & r0 & E & Hx). exact (sub_head ph x0 r0 E Hx repl f s). Qed.

Lemma sub_hd : forall f s, hd_ok s = true -> hd_ok (fst (sub_ph_pair f ph repl s)) = true.
Proof.
  induction f as [|f IH]; intros s H; [exact H|]. destruct s as [|c s]; [reflexivity|]. rewrite sub_unfold.
  destruct (N.eq_dec c c_semi) as [->|Hc].
  - rewrite (match_nK c_semi s eq_refl). cbn [fst]. rewrite hd_ok_semi in *. exact (IH s H).
  - rewrite hd_ok_cons in H by exact Hc. apply negb_true_iff in H. rewrite (match_nK c s H). cbn [fst].
    rewrite hd_ok_cons by exact Hc. rewrite H. reflexivity.
Qed.

Lemma sub_psemi : forall f s p, psemi (p ++ s) = true -> psemi (p ++ fst (sub_ph_pair f ph repl s)) = true.
Proof.
  induction f as [|f IH]; intros s p H; [exact H|]. destruct s as [|c s]; [exact H|]. rewrite sub_unfold.
  destruct (match_ph_pair ph (c :: s)) as [rest|] eqn:M; cbn [fst].
  - destruct (match_rest' _ _ M (psemi_suffix _ _ H)) as (H1 & H2 & _).
    pose proof (IH rest [] H2) as H3. cbn [app] in H3. pose proof (sub_hd f rest H1) as H4.
    apply psemi_join; [exact (psemi_prefix _ _ H)|apply psemi_join; assumption|apply hd_ok_app; assumption].
  - specialize (IH s (p ++ [c])). rewrite <- !app_assoc in IH. exact (IH H).
Qed.

Lemma sub_R' : forall f s s' p p', (length s < f)%nat -> psemi s = true -> pre d p p' s s' ->
  R (p ++ fst (sub_ph_pair f ph repl s)) = p' ++ fst (sub_ph_pair f ph' repl' s') /\
  snd (sub_ph_pair f ph' repl' s') = snd (sub_ph_pair f ph repl s).
Proof.
  destruct ph_head' as (x0 & r0 & Ex0 & Hx0).
  induction f as [f IH] using lt_wf_ind. intros s s' p p' Hf Hs Hp. destruct f as [|f]; [lia|].
  destruct s as [|c s].
  - pose proof (pre_nil d ph ph' x0 Hx0 Hph Hphi _ _ _ Hp) as E0. subst s'. cbn [sub_ph_pair fst snd]. split; [exact (proj2 Hp)|reflexivity].
  - destruct (pre_cons d ph ph' x0 Hx0 Hph Hphi _ _ _ _ _ Hp) as (c' & t' & -> & Hp2). rewrite !sub_unfold. cbn [length] in Hf.
    destruct (match_ph_pair ph (c :: s)) as [rest|] eqn:M.
    + destruct (pre_start d ph ph' Hph _ _ _ _ Hp (match_starts _ _ _ M)) as [-> E]. rewrite E, (match_R d ph ph' Hph Hphi), M. cbn [option_map fst snd].
      split; [|reflexivity]. destruct (match_rest' _ _ M Hs) as (H1 & H2 & H3). cbn [length] in H3.
      destruct (IH f ltac:(lia) rest (R rest) [] [] ltac:(lia) H2) as [E1 _]; [split; reflexivity|]. cbn [app] in E1.
      rewrite <- E1. rewrite Erepl.
      pose proof (sub_head' f rest (hd_ok_head _ H1)) as H4.
      pose proof (hd_ok_head _ Hhd) as H5.
      rewrite (R_app_B d p) by (apply head_ok_app'; assumption). rewrite (R_app_B d repl) by exact H4. reflexivity.
    + destruct (match_ph_pair ph' (c' :: t')) as [x|] eqn:M2.
      * exfalso. destruct (pre_start' d ph ph' Hphi _ _ _ _ Hp (match_starts _ _ _ M2)) as [_ E].
        rewrite E, (match_R d ph ph' Hph Hphi), M in M2. discriminate M2.
      * cbn [fst snd]. destruct (IH f ltac:(lia) s t' (p ++ [c]) (p' ++ [c']) ltac:(lia)) as [E1 E2]; [|exact Hp2|].
        { rewrite psemi_cons in Hs. apply andb_true_iff in Hs. exact (proj2 Hs). }
        rewrite <- !app_assoc in E1. split; [exact E1|exact E2].
Qed.

(* count = 1 *)
Lemma once_psemi : forall f s p, psemi (p ++ s) = true -> psemi (p ++ fst (sub_ph_pair_once f ph repl s)) = true.
Proof.
  induction f as [|f IH]; intros s p H; [exact H|]. destruct s as [|c s]; [exact H|]. rewrite once_unfold.
  destruct (match_ph_pair ph (c :: s)) as [rest|] eqn:M; cbn [fst].
  - destruct (match_rest' _ _ M (psemi_suffix _ _ H)) as (H1 & H2 & _).
    apply psemi_join; [exact (psemi_prefix _ _ H)|apply psemi_join; assumption|apply hd_ok_app; assumption].
  - specialize (IH s (p ++ [c])). rewrite <- !app_assoc in IH. exact (IH H).
Qed.

Lemma once_R' : forall f s s' p p', (length s < f)%nat -> psemi s = true -> pre d p p' s s' ->
  R (p ++ fst (sub_ph_pair_once f ph repl s)) = p' ++ fst (sub_ph_pair_once f ph' repl' s') /\
  snd (sub_ph_pair_once f ph' repl' s') = snd (sub_ph_pair_once f ph repl s).
Proof.
  destruct ph_head' as (x0 & r0 & Ex0 & Hx0).
  induction f as [|f IH]; intros s s' p p' Hf Hs Hp; [lia|].
  destruct s as [|c s].
  - pose proof (pre_nil d ph ph' x0 Hx0 Hph Hphi _ _ _ Hp) as E0. subst s'. cbn [sub_ph_pair_once fst snd]. split; [exact (proj2 Hp)|reflexivity].
  - destruct (pre_cons d ph ph' x0 Hx0 Hph Hphi _ _ _ _ _ Hp) as (c' & t' & -> & Hp2). rewrite !once_unfold. cbn [length] in Hf.
    destruct (match_ph_pair ph (c :: s)) as [rest|] eqn:M.
    + destruct (pre_start d ph ph' Hph _ _ _ _ Hp (match_starts _ _ _ M)) as [-> E]. rewrite E, (match_R d ph ph' Hph Hphi), M. cbn [option_map fst snd].
      split; [|reflexivity]. destruct (match_rest' _ _ M Hs) as (H1 & H2 & H3). rewrite Erepl.
      pose proof (hd_ok_head _ Hhd) as H5. pose proof (hd_ok_head _ H1) as H4.
      rewrite (R_app_B d p) by (apply head_ok_app'; assumption). rewrite (R_app_B d repl) by exact H4. reflexivity.
    + destruct (match_ph_pair ph' (c' :: t')) as [x|] eqn:M2.
      * exfalso. destruct (pre_start' d ph ph' Hphi _ _ _ _ Hp (match_starts _ _ _ M2)) as [_ E].
        rewrite E, (match_R d ph ph' Hph Hphi), M in M2. discriminate M2.
      * cbn [fst snd]. destruct (IH s t' (p ++ [c]) (p' ++ [c']) ltac:(lia)) as [E1 E2]; [|exact Hp2|].
        { rewrite psemi_cons in Hs. apply andb_true_iff in Hs. exact (proj2 Hs). }
        rewrite <- !app_assoc in E1. split; [exact E1|exact E2].
Qed.


Lemma sub_good' f s s' : (length s < f)%nat -> good' d s s' ->
  good' d (fst (sub_ph_pair f ph repl s)) (fst (sub_ph_pair f ph' repl' s')) /\
  snd (sub_ph_pair f ph' repl' s') = snd (sub_ph_pair f ph repl s).
Proof.
  intros Hf [-> Hs]. destruct (sub_R' f s (R s) [] [] Hf Hs) as [E1 E2]; [split; reflexivity|]. cbn [app] in E1.
  split; [split; [symmetry; exact E1|exact (sub_psemi f s [] Hs)]|exact E2].
Qed.

Lemma once_good' f s s' : (length s < f)%nat -> good' d s s' ->
  good' d (fst (sub_ph_pair_once f ph repl s)) (fst (sub_ph_pair_once f ph' repl' s')) /\
  snd (sub_ph_pair_once f ph' repl' s') = snd (sub_ph_pair_once f ph repl s).
Proof.
  intros Hf [-> Hs]. destruct (once_R' f s (R s) [] [] Hf Hs) as [E1 E2]; [split; reflexivity|]. cbn [app] in E1.
  split; [split; [symmetry; exact E1|exact (once_psemi f s [] Hs)]|exact E2].
Qed.
End Repl'.
End Sub'.

(* ================================================================================================ *)
(* 4. the three re-insertion stages                                                                 *)
(* ================================================================================================ *)
Lemma pad6_len_ge i : (6 <= length (pad6 i))%nat.
Proof. destruct (pad6_split i) as (a & b & -> & L & _). rewrite app_length. lia. Qed.

Section Stages'.
Variable d : Z.
Local Notation R := (rename_str d).

Lemma good'_app_E a a' b b' : good' d a a' -> good' d b b' -> endc a -> good' d (a ++ b) (a' ++ b').
Proof. intros [-> Ha] [-> Hb] H. split; [symmetry; apply R_app_E; exact H|apply psemi_join_E; assumption]. Qed.

Lemma sub_good_shifted' W i repl f s s' : In W shifted_words -> In W wwords -> i < 1000000 ->
  psemi repl = true -> hd_ok repl = true -> (length s < f)%nat -> good' d s s' ->
  good' d (fst (sub_ph_pair f (placeholder W i) repl s)) (fst (sub_ph_pair f (placeholder W (shift d i)) (R repl) s')) /\
  snd (sub_ph_pair f (placeholder W (shift d i)) (R repl) s') = snd (sub_ph_pair f (placeholder W i) repl s).
Proof.
  intros Hin HinW Hi Hr Hh Hf Hs.
  apply (sub_good' d (placeholder W i) (placeholder W (shift d i)) W (pad6 i)); try assumption; try reflexivity.
  - apply pad6_digits_all.
  - apply pad6_len_ge.
  - intros a y. apply rename_insert_shifted; assumption.
  - intros a y. rewrite (rename_insert_shifted (- d) a W (shift d i) y Hin (shift_lt d i Hi)), shift_inv. reflexivity.
Qed.

Lemma sub_good_block' i repl f s s' :
  psemi repl = true -> hd_ok repl = true -> (length s < f)%nat -> good' d s s' ->
  good' d (fst (sub_ph_pair f (placeholder w_BLOCKCOMMENT i) repl s)) (fst (sub_ph_pair f (placeholder w_BLOCKCOMMENT i) (R repl) s')) /\
  snd (sub_ph_pair f (placeholder w_BLOCKCOMMENT i) (R repl) s') = snd (sub_ph_pair f (placeholder w_BLOCKCOMMENT i) repl s).
Proof.
  intros Hr Hh Hf Hs.
  apply (sub_good' d (placeholder w_BLOCKCOMMENT i) (placeholder w_BLOCKCOMMENT i) w_BLOCKCOMMENT (pad6 i)); try assumption; try reflexivity.
  - left; reflexivity.
  - apply pad6_digits_all.
  - apply pad6_len_ge.
  - intros a y. apply rename_insert_block.
  - intros a y. apply rename_insert_block.
Qed.

Lemma once_good_block' i repl f s s' :
  psemi repl = true -> hd_ok repl = true -> (length s < f)%nat -> good' d s s' ->
  good' d (fst (sub_ph_pair_once f (placeholder w_BLOCKCOMMENT i) repl s)) (fst (sub_ph_pair_once f (placeholder w_BLOCKCOMMENT i) (R repl) s')) /\
  snd (sub_ph_pair_once f (placeholder w_BLOCKCOMMENT i) (R repl) s') = snd (sub_ph_pair_once f (placeholder w_BLOCKCOMMENT i) repl s).
Proof.
  intros Hr Hh Hf Hs.
  apply (once_good' d (placeholder w_BLOCKCOMMENT i) (placeholder w_BLOCKCOMMENT i) w_BLOCKCOMMENT (pad6 i)); try assumption; try reflexivity.
  - left; reflexivity.
  - apply pad6_digits_all.
  - apply pad6_len_ge.
  - intros a y. apply rename_insert_block.
  - intros a y. apply rename_insert_block.
Qed.

(* ---- line comments ------------------------------------------------------------------------------------ *)
Lemma insert_line_comments_good' : forall lcs s s', good' d s s' ->
  forallb (fun e : N * str => idb e && lc_ok' (snd e)) lcs = true ->
  good' d (insert_line_comments lcs s) (insert_line_comments (rtab R (shift d) lcs) s').
Proof.
  unfold insert_line_comments. induction lcs as [|[i t] lcs IH]; intros s s' G H; [exact G|].
  cbn [forallb fst snd] in H. apply andb_true_iff in H. destruct H as [H H2]. apply andb_true_iff in H. destruct H as [Hi Ht].
  unfold idb in Hi. cbn [fst] in Hi. apply N.ltb_lt in Hi. unfold lc_ok' in Ht. apply andb_true_iff in Ht. destruct Ht as [Hh Hs].
  rewrite rtab_cons. cbn [fold_left fst snd]. apply IH; [|exact H2]. rewrite (good'_length d _ _ G).
  apply (sub_good_shifted' w_LINECOMMENT i t _ s s' ltac:(left; reflexivity) ltac:(right; right; left; reflexivity) Hi Hs Hh (Nat.lt_succ_diag_r _) G).
Qed.

(* ---- include directives --------------------------------------------------------------------------------- *)
Section Inc'.
  Variable fmt_name : str -> str.
  Hypothesis Hname : forall name, fmt_name (R name) = R (fmt_name name).

  Lemma insert_includes_good' : forall incs s s', good' d s s' ->
    forallb (fun e : N * include_entry => idb e && psemi (fmt_name (inc_name e))) incs = true ->
    good' d (insert_includes fmt_name incs s) (insert_includes fmt_name (rtab (Rinc d) (shift d) incs) s').
  Proof.
    unfold insert_includes. induction incs as [|[i [[dr name] path]] incs IH]; intros s s' G H; [exact G|].
    cbn [forallb fst snd] in H. apply andb_true_iff in H. destruct H as [H H2]. apply andb_true_iff in H. destruct H as [Hi Ht].
    unfold idb in Hi. cbn [fst] in Hi. apply N.ltb_lt in Hi. unfold inc_name in Ht. cbn [fst snd] in Ht.
    rewrite rtab_cons. cbn [fold_left fst snd Rinc]. apply IH; [|exact H2]. rewrite (good'_length d _ _ G).
    assert (He : endc (of_string "#include ")) by (right; exists (of_string "#include"), c_sp; repeat split; discriminate).
    assert (Gd : good' d (of_string "#include " ++ fmt_name name) (of_string "#include " ++ fmt_name (R name))).
    { apply good'_app_E; [split; reflexivity|split; [apply Hname|exact Ht]|exact He]. }
    rewrite (proj1 Gd).
    apply (sub_good_shifted' w_INCLUDE i _ _ s s' ltac:(right; left; reflexivity) ltac:(right; left; reflexivity) Hi (proj2 Gd) eq_refl (Nat.lt_succ_diag_r _) G).
  Qed.
End Inc'.

(* ---- block comments ------------------------------------------------------------------------------------- *)
Lemma bc_ok'_parts t : bc_ok' t = true -> hd_ok t = true /\ last_ok t = true /\ psemi t = true.
Proof. unfold bc_ok'. intros H. apply andb_true_iff in H. destruct H as [H H3]. apply andb_true_iff in H. destruct H as [H1 H2]. repeat split; assumption. Qed.

Section Blocks'.
  Variable mk : str -> str.
  Hypothesis Hmk : forall bc, bc_ok' bc = true -> mk (R bc) = R (mk bc) /\ bc_ok' (mk bc) = true.
  Hypothesis Hmk0 : good' d (mk []) (mk []) /\ endc (mk []).

  Lemma insert_blocks_good' hk : forall bcs inserted s s', good' d s s' ->
    forallb (fun e : N * str => bc_ok' (snd e)) bcs = true ->
    good' d (insert_blocks mk hk bcs inserted s) (insert_blocks mk hk (rtab R (fun j => j) bcs) (R inserted) s').
  Proof.
    induction bcs as [|[i bc] bcs IH]; intros inserted s s' G H; [exact G|].
    cbn [forallb snd] in H. apply andb_true_iff in H. destruct H as [Hbc H2].
    rewrite rtab_cons. cbn [insert_blocks fst snd]. cbv zeta. rewrite (good'_length d _ _ G).
    destruct (bc_ok'_parts _ Hbc) as (B1 & B2 & B3). pose proof (hd_ok_head _ B1) as B0.
    destruct (match hk with Some h => h =? i | None => false end).
    - destruct (Hmk bc Hbc) as [Em Hm]. destruct (bc_ok'_parts _ Hm) as (M1 & M2 & M3). pose proof (hd_ok_head _ M1) as M0.
      rewrite Em, (contains_R_bc _ _ _ M0 M2).
      set (bc2 := if contains (mk bc) inserted then [] else mk bc).
      match goal with |- context [sub_ph_pair_once _ _ ?r s'] => set (bc2' := r) end.
      assert (G2 : bc2' = R bc2 /\ psemi bc2 = true /\ hd_ok bc2 = true).
      { unfold bc2, bc2'. destruct (contains (mk bc) inserted); repeat split; assumption. }
      destruct G2 as (G2 & P2 & Hh2). rewrite G2.
      destruct (once_good_block' i bc2 (S (length s)) s s' P2 Hh2 (Nat.lt_succ_diag_r _) G) as [G3 F3].
      destruct (sub_ph_pair_once (S (length s)) (placeholder w_BLOCKCOMMENT i) bc2 s) as [s1 f1].
      destruct (sub_ph_pair_once (S (length s)) (placeholder w_BLOCKCOMMENT i) (R bc2) s') as [s1' f1'].
      cbn [fst snd] in G3, F3. subst f1'. destruct f1; [|apply IH; assumption].
      rewrite (good'_length d _ _ G3).
      destruct (sub_good_block' i bc (S (length s1)) s1 s1' B3 B1 (Nat.lt_succ_diag_r _) G3) as [G4 _].
      destruct (sub_ph_pair (S (length s1)) (placeholder w_BLOCKCOMMENT i) bc s1) as [s2 f2].
      destruct (sub_ph_pair (S (length s1)) (placeholder w_BLOCKCOMMENT i) (R bc) s1') as [s2' f2'].
      cbn [fst] in G4.
      replace (R inserted ++ R bc2 ++ R bc) with (R (inserted ++ bc2 ++ bc)); [apply IH; assumption|].
      rewrite (R_app_B d inserted) by (apply head_ok_app'; [apply hd_ok_head|]; assumption). rewrite (R_app_B d bc2) by exact B0.
      reflexivity.
    - rewrite (contains_R_bc _ _ _ B0 B2).
      set (bc2 := if contains bc inserted then [] else bc).
      match goal with |- context [sub_ph_pair _ _ ?r s'] => set (bc2' := r) end.
      assert (G2 : bc2' = R bc2 /\ psemi bc2 = true /\ hd_ok bc2 = true).
      { unfold bc2, bc2'. destruct (contains bc inserted); repeat split; assumption. }
      destruct G2 as (G2 & P2 & Hh2). rewrite G2.
      destruct (sub_good_block' i bc2 (S (length s)) s s' P2 Hh2 (Nat.lt_succ_diag_r _) G) as [G3 F3].
      destruct (sub_ph_pair (S (length s)) (placeholder w_BLOCKCOMMENT i) bc2 s) as [s1 f1].
      destruct (sub_ph_pair (S (length s)) (placeholder w_BLOCKCOMMENT i) (R bc2) s') as [s1' f1'].
      cbn [fst snd] in G3, F3. subst f1'. destruct f1; [|apply IH; assumption].
      replace (R inserted ++ R bc2) with (R (inserted ++ bc2)); [apply IH; assumption|].
      rewrite (R_app_B d inserted) by (apply hd_ok_head; exact Hh2). reflexivity.
  Qed.

  Lemma insert_block_comments_good' bcs s s' : good' d s s' -> forallb (fun e : N * str => bc_ok' (snd e)) bcs = true ->
    good' d (insert_block_comments mk bcs s) (insert_block_comments mk (rtab R (fun j => j) bcs) s').
  Proof.
    intros G H. unfold insert_block_comments. cbv zeta. rewrite (proj1 G), header_key_R. rewrite <- (proj1 G).
    pose proof (insert_blocks_good' (header_key bcs s) bcs [] s s' G H) as G1. rewrite rename_nil in G1.
    destruct (header_key bcs s); [exact G1|]. apply good'_app_E; [exact (proj1 Hmk0)|exact G1|exact (proj2 Hmk0)].
  Qed.
End Blocks'.
End Stages'.

(* ================================================================================================ *)
(* 5. the default header; the writer commutes with the renaming                                     *)
(* ================================================================================================ *)
Section Final'.
Variable d : Z.
Local Notation R := (rename_str d).

Lemma header_bc_ok' (h bc : str) : bc_ok' h = true -> endc h -> bc_ok' bc = true -> bc_ok' (h ++ bc) = true.
Proof.
  intros Hh He Hb. destruct (bc_ok'_parts _ Hh) as (H1 & H2 & H3). destruct (bc_ok'_parts _ Hb) as (B1 & B2 & B3).
  assert (Hne : bc <> []) by (intros ->; discriminate B2).
  unfold bc_ok'. rewrite (hd_ok_app h bc H1 B1), (last_ok_app h bc Hne), B2, (psemi_join_E h bc H3 B3 He). reflexivity.
Qed.

Lemma native_mk' bc : bc_ok' bc = true ->
  make_default_block_comment (R bc) = R (make_default_block_comment bc) /\ bc_ok' (make_default_block_comment bc) = true.
Proof.
  intros H. unfold make_default_block_comment. rewrite <- (has_cpp_mark_dsim bc (R bc) (dsim_rename d bc)).
  destruct (has_cpp_mark bc); [split; [reflexivity|exact H]|]. split.
  - rewrite (R_app_E d _ _ endc_native_header), (rename_clean d native_header) by (vm_compute; reflexivity). reflexivity.
  - apply header_bc_ok'; [vm_compute; reflexivity|exact endc_native_header|exact H].
Qed.
Lemma native_mk0' : good' d (make_default_block_comment []) (make_default_block_comment []) /\ endc (make_default_block_comment []).
Proof.
  change (make_default_block_comment []) with (native_header ++ []). rewrite app_nil_r.
  split; [split; [symmetry; apply rename_clean|]; vm_compute; reflexivity|exact endc_native_header].
Qed.

Lemma foam_mk' bc : bc_ok' bc = true ->
  foam_make_default_block_comment (R bc) = R (foam_make_default_block_comment bc) /\ bc_ok' (foam_make_default_block_comment bc) = true.
Proof.
  intros H. unfold foam_make_default_block_comment. rewrite <- (has_cpp_mark_dsim bc (R bc) (dsim_rename d bc)).
  assert (Hf : R foam_header = foam_header) by (apply rename_clean; vm_compute; reflexivity).
  assert (Hb : bc_ok' foam_header = true) by (vm_compute; reflexivity).
  set (X := if has_cpp_mark bc then bc else foam_header ++ bc).
  assert (HX : (if has_cpp_mark bc then R bc else foam_header ++ R bc) = R X /\ bc_ok' X = true).
  { unfold X. destruct (has_cpp_mark bc); [split; [reflexivity|exact H]|]. split.
    - rewrite (R_app_E d _ _ endc_foam_header), Hf. reflexivity.
    - apply header_bc_ok'; [exact Hb|exact endc_foam_header|exact H]. }
  destruct HX as [E1 E2]. rewrite E1. rewrite (contains_R d (of_string "OpenFOAM") X eq_refl).
  destruct (contains (of_string "OpenFOAM") X); [split; [reflexivity|exact E2]|split; [symmetry; exact Hf|exact Hb]].
Qed.
Lemma foam_mk0' : good' d (foam_make_default_block_comment []) (foam_make_default_block_comment []) /\ endc (foam_make_default_block_comment []).
Proof.
  assert (E : foam_make_default_block_comment [] = foam_header) by (vm_compute; reflexivity). rewrite E.
  split; [split; [symmetry; apply rename_clean|]; vm_compute; reflexivity|exact endc_foam_header].
Qed.

Lemma write_safe_gen_parts body fmt_name s : write_safe_gen body fmt_name s = true ->
  psemi body = true /\ forallb (fun e : N * str => bc_ok' (snd e)) (sd_bc s) = true /\
  forallb (fun e : N * include_entry => idb e && psemi (fmt_name (inc_name e))) (sd_inc s) = true /\
  forallb (fun e : N * str => idb e && lc_ok' (snd e)) (sd_lc s) = true.
Proof.
  unfold write_safe_gen. intros H. apply andb_true_iff in H. destruct H as [H H4]. apply andb_true_iff in H. destruct H as [H H3].
  apply andb_true_iff in H. destruct H as [H1 H2]. repeat split; assumption.
Qed.

(* NativeFormatter.to_string commutes with the renaming *)
Theorem writer_equivariant' s : write_safe' s = true -> to_string_sd (rename_sd d s) = R (to_string_sd s).
Proof.
  intros H. destruct (write_safe_gen_parts _ _ s H) as (H1 & H2 & H3 & H4).
  unfold to_string_sd, rename_sd, Rsd. cbn [sd_data sd_lc sd_bc sd_inc sd_expr]. cbv zeta. rewrite <- rts_R. f_equal.
  assert (G0 : good' d (native_body (sd_data s)) (native_body (Rkv d (Rt d) (sd_data s)))) by (split; [apply native_body_R|exact H1]).
  pose proof (insert_block_comments_good' d make_default_block_comment native_mk' native_mk0' (sd_bc s) _ _ G0 H2) as G1.
  pose proof (insert_includes_good' d format_string (fun n => format_string_g0 d n) (sd_inc s) _ _ G1 H3) as G2.
  pose proof (insert_line_comments_good' d (sd_lc s) _ _ G2 H4) as G3. exact (proj1 G3).
Qed.

Theorem writer_invariant' s : write_safe' s = true -> cleanb (to_string_sd s) = true ->
  to_string_sd (rename_sd d s) = to_string_sd s.
Proof. intros H Hc. rewrite (writer_equivariant' s H). apply rename_clean. exact Hc. Qed.

Theorem foam_writer_equivariant' s : foam_write_safe' s = true -> foam_to_string_sd (rename_sd d s) = R (foam_to_string_sd s).
Proof.
  intros H. destruct (write_safe_gen_parts _ _ s H) as (H1 & H2 & H3 & H4).
  unfold foam_to_string_sd. fold (foam_data s). fold (foam_data (rename_sd d s)). unfold rename_sd. rewrite foam_data_R.
  unfold Rsd. cbn [sd_data sd_lc sd_bc sd_inc sd_expr]. cbv zeta. rewrite <- rts_R. f_equal.
  assert (G0 : good' d (foam_body (foam_data s)) (foam_body (Rkv d (Rt d) (foam_data s)))) by (split; [apply foam_body_R|exact H1]).
  pose proof (insert_block_comments_good' d foam_make_default_block_comment foam_mk' foam_mk0' (sd_bc s) _ _ G0 H2) as G1.
  pose proof (insert_includes_good' d foam_format_string (fun n => foam_format_string_g0 d n) (sd_inc s) _ _ G1 H3) as G2.
  pose proof (insert_line_comments_good' d (sd_lc s) _ _ G2 H4) as G3. exact (proj1 G3).
Qed.

Theorem foam_writer_invariant' s : foam_write_safe' s = true -> cleanb (foam_to_string_sd s) = true ->
  foam_to_string_sd (rename_sd d s) = foam_to_string_sd s.
Proof. intros H Hc. rewrite (foam_writer_equivariant' s H). apply rename_clean. exact Hc. Qed.
End Final'.

(* ================================================================================================ *)
(* 6. write_safe' is weaker than write_safe                                                         *)
(* ================================================================================================ *)
Lemma forallb_impl {A} (p q : A -> bool) l : (forall x, p x = true -> q x = true) -> forallb p l = true -> forallb q l = true.
Proof.
  intros Hpq. induction l as [|x l IH]; intros H; [reflexivity|]. cbn [forallb] in *. apply andb_true_iff in H. destruct H as [H1 H2].
  rewrite (Hpq x H1), (IH H2). reflexivity.
Qed.

Lemma bc_ok_weaker t : bc_ok t = true -> bc_ok' t = true.
Proof.
  intros H. destruct (bc_ok_parts _ H) as (H1 & H2 & H3). unfold bc_ok'.
  rewrite (head_semi_hd t H1 H3), H2, (semi_ok_psemi t H3). reflexivity.
Qed.
Lemma lc_ok_weaker t : lc_ok t = true -> lc_ok' t = true.
Proof.
  unfold lc_ok, lc_ok'. intros H. apply andb_true_iff in H. destruct H as [H1 H3]. rewrite (head_semi_hd t H1 H3), (semi_ok_psemi t H3). reflexivity.
Qed.

Lemma write_safe_gen_weaker body fmt_name s : semi_ok body = true -> (forall n, semi_ok n = true -> semi_ok (fmt_name n) = true) ->
  write_safe s = true -> write_safe_gen body fmt_name s = true.
Proof.
  intros Hb Hn H. destruct (write_safe_parts s H) as (_ & H2 & H3 & H4). unfold write_safe_gen.
  rewrite (semi_ok_psemi _ Hb). cbn [andb].
  rewrite (forallb_impl _ (fun e : N * str => bc_ok' (snd e)) _ (fun e => bc_ok_weaker (snd e)) H2). cbn [andb].
  assert (E3 : forallb (fun e : N * include_entry => idb e && psemi (fmt_name (inc_name e))) (sd_inc s) = true).
  { revert H3. apply forallb_impl. intros e He. apply andb_true_iff in He. destruct He as [E1 E2].
    rewrite E1, (semi_ok_psemi _ (Hn _ E2)). reflexivity. }
  rewrite E3. cbn [andb]. revert H4. apply forallb_impl.
  intros e He. apply andb_true_iff in He. destruct He as [E1 E2]. rewrite E1, (lc_ok_weaker _ E2). reflexivity.
Qed.

Theorem write_safe_weaker s : write_safe s = true -> write_safe' s = true.
Proof.
  intros H. apply write_safe_gen_weaker; [| |exact H].
  - destruct (write_safe_parts s H) as (H1 & _).
    exact (proj2 (body_good 0 format_scalar format_key (format_scalar_good 0) (format_key_good 0) (sd_data s) H1)).
  - intros n Hn. exact (proj2 (format_string_good 0 n Hn)).
Qed.

Theorem foam_write_safe_weaker s : write_safe s = true -> foam_write_safe' s = true.
Proof.
  intros H. apply write_safe_gen_weaker; [| |exact H].
  - destruct (write_safe_parts s H) as (H1 & _). destruct (strip_us_R 0 (Dict (sd_data s)) H1) as [_ E2].
    unfold foam_data. rewrite strip_us_dict in *.
    exact (proj2 (body_good 0 foam_format_scalar foam_key (foam_format_scalar_good 0) (foam_key_good 0) _ E2)).
  - intros n Hn. exact (proj2 (foam_format_string_good 0 n Hn)).
Qed.

(* ================================================================================================ *)
(* 7. the text written after a read / by DictWriter.write / DictParser.parse                        *)
(* ================================================================================================ *)
Definition fmt_safe' (foam : bool) : sdict -> bool := if foam then foam_write_safe' else write_safe'.
(* side condition on the FIRST read: the result is write_safe' and the text written from it contains no placeholder name *)
Definition write_side' (foam : bool) (r : res (sdict * Z)) : bool :=
  match r with Ok (s, _) => fmt_safe' foam s && cleanb (fmt_sd foam s) | Raise _ => true end.

Lemma fmt_sd_invariant' d foam s : fmt_safe' foam s = true -> cleanb (fmt_sd foam s) = true -> fmt_sd foam (rename_sd d s) = fmt_sd foam s.
Proof. destruct foam; [apply foam_writer_invariant'|apply writer_invariant']. Qed.

Lemma fmt_safe_weaker foam s : write_safe s = true -> fmt_safe' foam s = true.
Proof. destruct foam; [apply foam_write_safe_weaker|apply write_safe_weaker]. Qed.

Lemma write_side_weaker r : write_side to_string_sd r = true -> write_side' false r = true.
Proof.
  destruct r as [[s c]|e]; [|reflexivity]. cbn [write_side write_side' fmt_sd fmt_safe']. intros H. apply andb_true_iff in H.
  rewrite (write_safe_weaker s (proj1 H)), (proj2 H). reflexivity.
Qed.
Lemma foam_write_side_weaker r : write_side foam_to_string_sd r = true -> write_side' true r = true.
Proof.
  destruct r as [[s c]|e]; [|reflexivity]. cbn [write_side write_side' fmt_sd fmt_safe']. intros H. apply andb_true_iff in H.
  rewrite (foam_write_safe_weaker s (proj1 H)), (proj2 H). reflexivity.
Qed.

Lemma written_after_renamed' d k foam r : write_side' foam r = true ->
  written_after (fmt_sd foam) (map_res (rename_read d k) r) = written_after (fmt_sd foam) r.
Proof.
  destruct r as [[s c]|e]; [|reflexivity]. cbn [write_side' map_res written_after rename_read fst]. intros H.
  apply andb_true_iff in H. destruct H as [H1 H2]. rewrite (fmt_sd_invariant' d foam s H1 H2). reflexivity.
Qed.

Theorem write_after_read_noinc' : forall fs root text foam c1 c2,
  counter_ok c1 -> counter_ok c2 ->
  fs_lookup (norm_path root) fs = Some (FNative text) ->
  cleanb text = true -> cleanb (dir_of root) = true ->
  parse_side (lex true (dir_of root) c1 text) = true ->
  write_side' foam (read_plain fs root false true c1) = true ->
  written_after (fmt_sd foam) (read_plain fs root false true c2) = written_after (fmt_sd foam) (read_plain fs root false true c1).
Proof.
  intros fs root text foam c1 c2 H1 H2 Hf Ht Hd Hs Hw.
  destruct (read_counter_independent_noinc fs root text c1 c2 H1 H2 Hf Ht Hd Hs) as (n & _ & E). rewrite E.
  apply written_after_renamed'. exact Hw.
Qed.

Theorem write_after_read_inc' : forall fs root foam c1 c2,
  counter_ok c1 -> counter_ok c2 -> fs_ok fs = true -> cleanb root = true ->
  write_side' foam (read_plain fs root true true c1) = true ->
  written_after (fmt_sd foam) (read_plain fs root true true c2) = written_after (fmt_sd foam) (read_plain fs root true true c1).
Proof.
  intros fs root foam c1 c2 H1 H2 Hf Hr Hw.
  destruct (read_counter_independent_inc fs root c1 c2 H1 H2 Hf Hr) as (n & E & _). rewrite E.
  apply written_after_renamed'. exact Hw.
Qed.

(* DictWriter.write (mode w, order off): the source as serialised is write_safe' and its text contains no placeholder name *)
Definition write_sd_side' (foam : bool) (s : sdict) : bool :=
  match write_src s with Ok src => fmt_safe' foam src && cleanb (fmt_sd foam src) | Raise _ => true end.

Lemma write_sd_side_weaker foam s : write_sd_side foam s = true -> write_sd_side' foam s = true.
Proof.
  unfold write_sd_side, write_sd_side'. destruct (write_src s) as [src|e]; [|reflexivity]. intros H. apply andb_true_iff in H.
  rewrite (fmt_safe_weaker foam src (proj1 H)), (proj2 H). reflexivity.
Qed.

Theorem write_sd_counter_independent' : forall fs foam target d s c c',
  write_sd_side' foam s = true ->
  text_of (write_sd fs foam target false false (rename_sd d s) c') = text_of (write_sd fs foam target false false s c).
Proof.
  intros fs foam target d s c c' H. rewrite !write_sd_eq, write_src_R. unfold write_sd_side' in H.
  destruct (write_src s) as [src|e]; cbn [map_res text_of option_map fst]; [|reflexivity].
  apply andb_true_iff in H. destruct H as [H1 H2]. rewrite (fmt_sd_invariant' d foam src H1 H2). reflexivity.
Qed.

(* DictParser.parse: side condition on the first run *)
Definition pm_side' (fs : fsys) (src : str) (output : option str) (c : Z) : bool :=
  match read_plain fs src true true c with Ok (s, _) => write_sd_side' (pm_foam src output) s | Raise _ => true end.

Lemma pm_side_weaker fs src output c : pm_side fs src output c = true -> pm_side' fs src output c = true.
Proof. unfold pm_side, pm_side'. destruct (read_plain fs src true true c) as [[s k]|e]; [apply write_sd_side_weaker|reflexivity]. Qed.

Theorem parse_model_counter_independent' : forall fs src output c1 c2,
  counter_ok c1 -> counter_ok c2 -> fs_ok fs = true -> cleanb src = true ->
  pm_side' fs src output c1 = true ->
  pm_out (parse_model fs src true false false true [] output c2) = pm_out (parse_model fs src true false false true [] output c1).
Proof.
  intros fs src output c1 c2 H1 H2 Hfs Hsrc Hside. unfold parse_model, pm_side', pm_foam in *.
  destruct (output_kind output) as [foam0|]; [|reflexivity].
  rewrite !read_opts_plain by assumption.
  destruct (read_counter_independent_inc fs src c1 c2 H1 H2 Hfs Hsrc) as (n & E & _). rewrite E.
  destruct (read_plain fs src true true c1) as [[s k]|e]; cbn [map_res rename_read fst]; [|reflexivity].
  set (name := target_file_name (base_name src) (Some (of_string "parsed")) [] output) in *.
  destruct (ends_with (of_string ".json") name || ends_with (of_string ".xml") name); [reflexivity|].
  pose proof (write_sd_counter_independent' fs (foam0 || ends_with (of_string ".foam") name) (dir_of src ++ [c_slash] ++ name)
                (c2 - c1) s k (counter_iter n c2) Hside) as Hw.
  rewrite !write_sd_eq in *. rewrite write_src_R in *.
  destruct (write_src s) as [x|e]; cbn [map_res text_of option_map fst pm_out] in Hw |- *; [|reflexivity].
  injection Hw as Hw. apply f_equal, f_equal, f_equal. exact Hw.
Qed.

(* ================================================================================================ *)
(* 8. the side conditions can be checked under either counter                                       *)
(* ================================================================================================ *)
Lemma drop_semis_dsim (s t : str) : dsim s t -> dsim (drop_semis s) (drop_semis t).
Proof.
  intros H. induction H as [|a b s t Hab H IH]; [constructor|]. cbn [drop_semis].
  rewrite <- (ds_eqb c_semi eq_refl a b Hab). destruct (a =? c_semi); [exact IH|constructor; assumption].
Qed.
Lemma hd_ok_dsim (s t : str) : dsim s t -> hd_ok s = hd_ok t.
Proof. intros H. unfold hd_ok. apply head_ok_dsim. apply drop_semis_dsim. exact H. Qed.

Lemma shape_after_dsim W (s t : str) : In W wwords -> dsim s t ->
  match shape_after W s, shape_after W t with Some r, Some r' => dsim r r' | None, None => True | _, _ => False end.
Proof.
  intros Hin H. unfold shape_after.
  assert (HW : forallb (fun c => negb (is_digit c)) W = true).
  { apply upper_nodigit. exact (proj1 (all_words_upper W (wwords_all W Hin))). }
  rewrite <- (starts_with_dsim W s t HW H). destruct (starts_with W s); [|exact I].
  destruct (span_dsim2 is_digit _ _ ds_digit (dsim_drop (length W) s t H)) as [H1 H2].
  destruct (span is_digit (drop_n (length W) s)) as [a r]. destruct (span is_digit (drop_n (length W) t)) as [a' r'].
  cbn [fst snd] in H1, H2. rewrite <- (dsim_length _ _ H1). destruct (6 <=? length a)%nat; [|exact I].
  destruct H2 as [|x y r r' Hxy H2]; [exact I|]. rewrite <- (ds_eqb c_semi eq_refl x y Hxy). destruct (x =? c_semi); [exact H2|exact I].
Qed.

Lemma forallb_ext_in' {A} (p q : A -> bool) l : (forall x, In x l -> p x = q x) -> forallb p l = forallb q l.
Proof.
  induction l as [|x l IH]; intros H; [reflexivity|]. cbn [forallb]. rewrite (H x (or_introl eq_refl)), IH; [reflexivity|].
  intros y Hy. apply H. right. exact Hy.
Qed.
Lemma psemi_at_dsim (s t : str) : dsim s t -> psemi_at s = psemi_at t.
Proof.
  intros H. unfold psemi_at. apply forallb_ext_in'. intros W Hin. pose proof (shape_after_dsim W s t Hin H) as HS.
  destruct (shape_after W s), (shape_after W t); try contradiction; [apply hd_ok_dsim; exact HS|reflexivity].
Qed.
Lemma psemi_dsim (s t : str) : dsim s t -> psemi s = psemi t.
Proof.
  intros H. induction H as [|a b s t Hab H IH]; [reflexivity|]. rewrite !psemi_cons. f_equal; [|exact IH].
  apply psemi_at_dsim. constructor; assumption.
Qed.

Section SideR'.
Variable d : Z.
Local Notation R := (rename_str d).
Lemma psemi_R (s : list N) : psemi (R s) = psemi s.
Proof. symmetry. apply psemi_dsim. apply dsim_rename. Qed.
Lemma hd_ok_R (s : list N) : hd_ok (R s) = hd_ok s.
Proof. symmetry. apply hd_ok_dsim. apply dsim_rename. Qed.

Lemma write_safe_gen_R body fmt_name s : (forall n, fmt_name (R n) = R (fmt_name n)) ->
  write_safe_gen (R body) fmt_name (rename_sd d s) = write_safe_gen body fmt_name s.
Proof.
  intros Hn. unfold write_safe_gen, rename_sd, Rsd. cbn [sd_data sd_lc sd_bc sd_inc]. rewrite psemi_R. f_equal; [f_equal; [f_equal|]|].
  - induction (sd_bc s) as [|[i t] l IH]; [reflexivity|]. rewrite rtab_cons. cbn [forallb snd]. rewrite IH. f_equal.
    unfold bc_ok'. rewrite hd_ok_R, last_ok_R, psemi_R. reflexivity.
  - induction (sd_inc s) as [|[i [[a b] c]] l IH]; [reflexivity|]. rewrite rtab_cons. cbn [forallb]. rewrite IH. f_equal.
    unfold inc_name. cbn [fst snd Rinc]. rewrite Hn, psemi_R. f_equal. apply idb_shift.
  - induction (sd_lc s) as [|[i t] l IH]; [reflexivity|]. rewrite rtab_cons. cbn [forallb snd]. rewrite IH. f_equal.
    unfold lc_ok'. rewrite hd_ok_R, psemi_R. f_equal. apply idb_shift.
Qed.

Lemma fmt_safe'_R foam s : fmt_safe' foam (rename_sd d s) = fmt_safe' foam s.
Proof.
  destruct foam; cbn [fmt_safe']; unfold foam_write_safe', write_safe'.
  - unfold rename_sd at 1. rewrite foam_data_R, foam_body_R. apply write_safe_gen_R. intros n. apply foam_format_string_g0.
  - replace (sd_data (rename_sd d s)) with (Rkv d (Rt d) (sd_data s)) by reflexivity. rewrite native_body_R.
    apply write_safe_gen_R. intros n. apply format_string_g0.
Qed.

Lemma write_side'_R foam k r : write_side' foam (map_res (rename_read d k) r) = write_side' foam r.
Proof.
  destruct r as [[s c]|e]; [|reflexivity]. cbn [map_res rename_read write_side' fst]. rewrite fmt_safe'_R.
  destruct (fmt_safe' foam s) eqn:E; [|reflexivity]. cbn [andb]. destruct foam; cbn [fmt_sd fmt_safe'] in *.
  - rewrite (foam_writer_equivariant' d s E). apply cleanb_R.
  - rewrite (writer_equivariant' d s E). apply cleanb_R.
Qed.
End SideR'.

Theorem write_side'_counter_independent : forall fs root foam c1 c2,
  counter_ok c1 -> counter_ok c2 -> fs_ok fs = true -> cleanb root = true ->
  write_side' foam (read_plain fs root true true c2) = write_side' foam (read_plain fs root true true c1).
Proof.
  intros fs root foam c1 c2 H1 H2 Hf Hr. destruct (read_counter_independent_inc fs root c1 c2 H1 H2 Hf Hr) as (n & E & _). rewrite E.
  apply write_side'_R.
Qed.

Theorem write_side'_counter_independent_noinc : forall fs root text foam c1 c2,
  counter_ok c1 -> counter_ok c2 ->
  fs_lookup (norm_path root) fs = Some (FNative text) ->
  cleanb text = true -> cleanb (dir_of root) = true ->
  parse_side (lex true (dir_of root) c1 text) = true ->
  write_side' foam (read_plain fs root false true c2) = write_side' foam (read_plain fs root false true c1).
Proof.
  intros fs root text foam c1 c2 H1 H2 Hf Ht Hd Hs.
  destruct (read_counter_independent_noinc fs root text c1 c2 H1 H2 Hf Ht Hd Hs) as (n & _ & E). rewrite E.
  apply write_side'_R.
Qed.

(* ---- the side condition evaluated once, at the fresh counter: a condition on the files only ------------------------- *)
Lemma counter_ok_fresh : counter_ok (-1)%Z.
Proof. unfold counter_ok. lia. Qed.

Definition source_write_ok (foam : bool) (fs : fsys) (root : str) : bool := write_side' foam (read_plain fs root true true (-1)%Z).

Theorem write_after_read_inc_fresh : forall fs root foam c1 c2,
  counter_ok c1 -> counter_ok c2 -> fs_ok fs = true -> cleanb root = true ->
  source_write_ok foam fs root = true ->
  written_after (fmt_sd foam) (read_plain fs root true true c2) = written_after (fmt_sd foam) (read_plain fs root true true c1).
Proof.
  intros fs root foam c1 c2 H1 H2 Hf Hr Hw. apply write_after_read_inc'; try assumption.
  rewrite (write_side'_counter_independent fs root foam (-1)%Z c1 counter_ok_fresh H1 Hf Hr). exact Hw.
Qed.
