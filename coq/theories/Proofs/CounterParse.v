(* C08, counter independence, part 3: scalar typing and the token parser commute with the renaming. *)
From Coq Require Import String.
From Coq Require Import NArith ZArith Bool Lia ZifyBool ZifyN ZifyNat.
From DictIO Require Import Chars Str Value Scalar KeyPath SDict Lexer TokParser TypeTable MiscSpec CliProofs.
From DictIO Require ScalarProofs TokProofs SDictProofs KeyPathProofs ParserFuelProofs LayoutProofs.
From DictIO Require Import CounterBase CounterLex.
From Coq Require Import List.
Import ListNotations.
Open Scope N_scope.

Definition map_res {A B} (f : A -> B) (r : res A) : res B :=
  match r with Ok a => Ok (f a) | Raise e => Raise e end.

(* ================================================================================================ *)
(* 1. comparisons with digit-free constants                                                          *)
(* ================================================================================================ *)
Definition nodig (k : list N) : bool := forallb (fun c => negb (is_digit c)) k.

Lemma str_eqb_dsim (k s t : list N) : nodig k = true -> dsim s t -> str_eqb s k = str_eqb t k.
Proof.
  intros Hk H. revert k Hk. induction H as [|a b s t Hab _ IH]; intros k Hk; [reflexivity|].
  destruct k as [|x k]; [reflexivity|]. unfold nodig in Hk. cbn [forallb] in Hk. apply andb_true_iff in Hk. destruct Hk as [Hx Hk].
  cbn [str_eqb]. rewrite (dsim1_eqb' x a b) by (try exact Hab; apply negb_true_iff; exact Hx). rewrite (IH k Hk). reflexivity.
Qed.

Lemma contains_dsim (p s t : list N) : nodig p = true -> dsim s t -> contains p s = contains p t.
Proof.
  intros Hp H. induction H as [|a b s t Hab H IH]; [reflexivity|]. cbn [contains].
  rewrite (starts_with_dsim p (a :: s) (b :: t) Hp) by (constructor; assumption). rewrite IH. reflexivity.
Qed.

Lemma lower_dsim (s t : list N) : dsim s t -> dsim (lower s) (lower t).
Proof.
  unfold lower. induction 1 as [|a b s t Hab _ IH]; [constructor|]. cbn [map]. constructor; [|exact IH].
  destruct Hab as [->|[H1 H2]]; [left; reflexivity|]. right.
  assert (Hd : forall c, is_digit c = true -> to_lower c = c).
  { intros c Hc. unfold to_lower. destruct (digit_facts c Hc) as (_ & -> & _). reflexivity. }
  rewrite (Hd a H1), (Hd b H2). split; assumption.
Qed.

Section Parse.
Variable d : Z.
Notation R := (rename_str d).

Lemma str_eqb_R (k s : list N) : nodig k = true -> str_eqb (R s) k = str_eqb s k.
Proof. intros Hk. symmetry. apply str_eqb_dsim; [exact Hk|apply dsim_rename]. Qed.
Lemma contains_R (p s : list N) : nodig p = true -> contains p (R s) = contains p s.
Proof. intros Hp. symmetry. apply contains_dsim; [exact Hp|apply dsim_rename]. Qed.

(* ================================================================================================ *)
(* 2. scalars                                                                                       *)
(* ================================================================================================ *)
Definition Rsc (v : scalar) : scalar :=
  match v with SStr s => SStr (R s) | SFloat l => SFloat (R l) | _ => v end.

Definition c_N : N := 78.
Lemma words_have_N w : In w shifted_words -> In c_N w.
Proof. intros H. unfold shifted_words in H. cbn [In] in H. destruct H as [<-|[<-|[<-|[<-|[]]]]]; vm_compute; tauto. Qed.

Lemma has_char_In k (s : list N) : has_char k s = true <-> In k s.
Proof.
  unfold has_char. rewrite existsb_exists. split.
  - intros (x & Hx & E). apply N.eqb_eq in E. subst x. exact Hx.
  - intros H. exists k. split; [exact H|apply N.eqb_refl].
Qed.

Lemma cleanb_noN (s : list N) : has_char c_N s = false -> cleanb s = true.
Proof.
  induction s as [|c s IH]; intros H; [reflexivity|]. cbn [cleanb].
  destruct (ph_word (c :: s)) as [w|] eqn:E.
  - exfalso. destruct (ph_word_some _ _ E) as (Hin & ds & r & Es & _).
    assert (Hn : has_char c_N (c :: s) = true).
    { apply has_char_In. rewrite Es. apply in_or_app. left. apply words_have_N. exact Hin. }
    congruence.
  - apply IH. unfold has_char in *. cbn [existsb] in H. apply orb_false_iff in H. exact (proj2 H).
Qed.

Lemma noN_sub (a b : list N) : has_char c_N (a ++ b) = false -> has_char c_N a = false /\ has_char c_N b = false.
Proof. unfold has_char. rewrite existsb_app. intros H. apply orb_false_iff in H. exact H. Qed.

Lemma remove_quotes_noN (s : list N) : has_char c_N s = false -> has_char c_N (remove_quotes s) = false.
Proof.
  intros H. destruct (has_char c_N (remove_quotes s)) eqn:E; [|reflexivity]. exfalso.
  apply has_char_In in E.
  assert (Hin : forall x, In x (remove_quotes s) -> In x s).
  { intros x. unfold remove_quotes.
    assert (H1 : forall t, In x (strip_lead_quote t) -> In x t).
    { intros [|c t]; [cbn; tauto|]. cbn [strip_lead_quote]. destruct (is_quote c); [intros Hx; right; exact Hx|tauto]. }
    assert (H2 : forall t, In x (strip_trail_quote t) -> In x t).
    { intros t. unfold strip_trail_quote. destruct (rev t) as [|c r] eqn:Er; [cbn; tauto|].
      assert (Et : t = rev r ++ [c]) by (rewrite <- (rev_involutive t), Er; reflexivity).
      destruct (is_quote c).
      - intros Hx. rewrite Et. apply in_or_app. left. exact Hx.
      - destruct (c =? c_lf); [|tauto]. destruct r as [|q r']; [tauto|]. destruct (is_quote q); [|tauto].
        intros Hx. rewrite Et. cbn [rev] in *. apply in_app_or in Hx. destruct Hx as [Hx|Hx].
        + apply in_or_app. left. apply in_or_app. left. exact Hx.
        + apply in_or_app. right. exact Hx. }
    intros Hx. apply H1, H2. exact Hx. }
  apply Hin in E. apply has_char_In in E. congruence.
Qed.

(* numbers contain no letter N *)
Lemma float_lit_noN (s : list N) : float_lit s -> has_char c_N s = false.
Proof.
  intros (sg & m & x & e & -> & Hsg & Hm & Hx & He).
  destruct (has_char c_N (sg ++ m ++ x ++ e)) eqn:E; [|reflexivity]. exfalso. apply has_char_In in E.
  assert (Hdig : forall ds, digits ds -> In c_N ds -> False).
  { intros ds Hd Hin. unfold digits in Hd. rewrite Forall_forall in Hd. specialize (Hd _ Hin). discriminate Hd. }
  assert (Hs : forall g, sgn g -> In c_N g -> False).
  { intros g [->|[->| ->]] Hin; cbn in Hin; intuition discriminate. }
  apply in_app_or in E. destruct E as [E|E]; [exact (Hs _ Hsg E)|].
  apply in_app_or in E. destruct E as [E|E].
  - destruct Hm as [[Hd _]|(d1 & d2 & -> & H1 & H2 & _)]; [exact (Hdig _ Hd E)|].
    apply in_app_or in E. destruct E as [E|[E|E]]; [exact (Hdig _ H1 E)|discriminate E|exact (Hdig _ H2 E)].
  - apply in_app_or in E. destruct E as [E|E].
    + destruct Hx as [->|(c & g & ds & -> & Hc & Hg & [Hd _])]; [destruct E|].
      destruct E as [E|E]; [destruct Hc as [-> | ->]; discriminate E|].
      apply in_app_or in E. destruct E as [E|E]; [exact (Hs _ Hg E)|exact (Hdig _ Hd E)].
    + destruct He as [-> | ->]; [destruct E|destruct E as [E|[]]; discriminate E].
Qed.

Lemma int_lit_float_lit (s : list N) : int_lit s -> float_lit s.
Proof.
  intros (sg & ds & e & -> & Hsg & Hd & He). exists sg, ds, [], e. repeat split; try assumption; [left; exact Hd|left; reflexivity].
Qed.

Lemma regex_noN (s : list N) : has_char c_N s = true -> re_int s = false /\ re_float2 s = false /\ re_float3 s = false.
Proof.
  intros H. repeat split.
  - destruct (re_int s) eqn:E; [|reflexivity]. apply ScalarProofs.re_int_sound, int_lit_float_lit, float_lit_noN in E. congruence.
  - destruct (re_float2 s) eqn:E; [|reflexivity]. apply ScalarProofs.re_float2_float3, ScalarProofs.re_float3_sound, float_lit_noN in E. congruence.
  - destruct (re_float3 s) eqn:E; [|reflexivity]. apply ScalarProofs.re_float3_sound, float_lit_noN in E. congruence.
Qed.

Lemma nonempty_R (s : list N) : nonempty (R s) = nonempty s.
Proof. pose proof (rename_length d s) as H. destruct (R s) as [|x r]; destruct s as [|y s']; try reflexivity; discriminate H. Qed.

Lemma parse_value_R (arg : list N) : parse_value (R arg) = map_res Rsc (parse_value arg).
Proof.
  destruct (has_char c_N arg) eqn:EN.
  - (* a letter N: not a number *)
    assert (EN' : has_char c_N (R arg) = true).
    { rewrite <- (has_char_dsim c_N arg (R arg) eq_refl (dsim_rename d arg)). exact EN. }
    destruct (regex_noN arg EN) as (I1 & I2 & I3). destruct (regex_noN (R arg) EN') as (J1 & J2 & J3).
    unfold parse_value. rewrite I1, I2, I3, J1, J2, J3.
    rewrite remove_quotes_R, nonempty_R. destruct (negb (nonempty (remove_quotes arg))); [reflexivity|].
    rewrite !str_eqb_R by reflexivity.
    destruct (str_eqb arg [c_minus] || str_eqb arg [c_us] || str_eqb arg [c_dot]); [reflexivity|].
    cbv zeta. rewrite strip_R.
    assert (Hw : forall k, nodig k = true -> str_eqb (lower (R (strip arg))) k = str_eqb (lower (strip arg)) k).
    { intros k Hk. symmetry. apply str_eqb_dsim; [exact Hk|]. apply lower_dsim. apply dsim_rename. }
    rewrite !Hw by reflexivity.
    repeat match goal with |- context [if ?b then _ else _] => destruct b; [reflexivity|] end. reflexivity.
  - (* no letter N: nothing is renamed *)
    pose proof (rename_clean d arg (cleanb_noN arg EN)) as E. rewrite E.
    pose proof (rename_clean d _ (cleanb_noN _ (remove_quotes_noN arg EN))) as E2.
    unfold parse_value. destruct (negb (nonempty (remove_quotes arg))); [reflexivity|].
    destruct (str_eqb arg [c_minus] || str_eqb arg [c_us] || str_eqb arg [c_dot]); [cbn [map_res Rsc]; rewrite E; reflexivity|].
    destruct (re_int arg); [destruct (py_int_ok arg); reflexivity|].
    destruct (re_float2 arg); [destruct (py_float_ok arg); cbn [map_res Rsc]; rewrite ?E; reflexivity|].
    destruct (re_float3 arg); [destruct (py_float_ok arg); cbn [map_res Rsc]; rewrite ?E; reflexivity|].
    cbv zeta.
    repeat match goal with |- context [if ?b then _ else _] => destruct b; [reflexivity|] end.
    cbn [map_res Rsc]. rewrite E2. reflexivity.
Qed.

Lemma py_str_R v : py_str (Rsc v) = R (py_str v).
Proof.
  destruct v as [z|l|b| |s]; cbn [Rsc py_str].
  - symmetry. apply rename_clean. apply cleanb_noupper.
    destruct z as [|p|p]; cbn [Z_to_dec]; [reflexivity| |].
    + pose proof (proj1 (proj1 (ScalarProofs.N_to_dec_spec (Npos p)))) as Hd. unfold digits in Hd.
      rewrite forallb_forall. rewrite Forall_forall in Hd. intros c Hc. specialize (Hd c Hc).
      destruct (digit_facts c Hd) as (_ & -> & _). reflexivity.
    + pose proof (proj1 (proj1 (ScalarProofs.N_to_dec_spec (Npos p)))) as Hd. unfold digits in Hd.
      cbn [forallb]. apply andb_true_iff. split; [reflexivity|].
      rewrite forallb_forall. rewrite Forall_forall in Hd. intros c Hc. specialize (Hd c Hc).
      destruct (digit_facts c Hd) as (_ & -> & _). reflexivity.
  - reflexivity.
  - destruct b; symmetry; apply rename_clean; reflexivity.
  - symmetry. apply rename_clean. reflexivity.
  - reflexivity.
Qed.

(* ================================================================================================ *)
(* 3. keys and trees                                                                                *)
(* ================================================================================================ *)
Definition Rk (k : key) : key := match k with KI z => KI z | KS s => KS (R s) end.
Fixpoint Rt (t : tree) : tree :=
  match t with
  | Leaf v => Leaf (Rsc v)
  | Dict kvs => Dict ((fix go (l : list (key * tree)) : list (key * tree) :=
                         match l with [] => [] | (k, c) :: l' => (Rk k, Rt c) :: go l' end) kvs)
  | Lst ts => Lst ((fix go (l : list tree) : list tree := match l with [] => [] | c :: l' => Rt c :: go l' end) ts)
  end.
Definition Rkv {V} (f : V -> V) (l : list (key * V)) : list (key * V) := map (fun kv => (Rk (fst kv), f (snd kv))) l.
Notation Rkvs := (Rkv Rt).

Lemma Rt_dict kvs : Rt (Dict kvs) = Dict (Rkvs kvs).
Proof. cbn [Rt]. f_equal. induction kvs as [|[k c] kvs IH]; [reflexivity|]. cbn [Rkv map fst snd]. unfold Rkv in IH. rewrite IH. reflexivity. Qed.
Lemma Rt_lst ts : Rt (Lst ts) = Lst (map Rt ts).
Proof. cbn [Rt]. f_equal. Qed.
Lemma Rkv_cons {V} (f : V -> V) k v l : Rkv f ((k, v) :: l) = (Rk k, f v) :: Rkv f l.
Proof. reflexivity. Qed.

Lemma key_eqb_R a b : key_eqb (Rk a) (Rk b) = key_eqb a b.
Proof. destruct a, b; cbn [Rk key_eqb]; try reflexivity. apply rename_eqb. Qed.

Section Assoc.
  Context {V : Type} (f : V -> V).
  Lemma alookup_R k (l : list (key * V)) : alookup (Rk k) (Rkv f l) = option_map f (alookup k l).
  Proof. induction l as [|[k' v] l IH]; [reflexivity|]. rewrite Rkv_cons. cbn [alookup]. rewrite key_eqb_R. destruct (key_eqb k k'); [reflexivity|exact IH]. Qed.
  Lemma aset_R k v (l : list (key * V)) : aset (Rk k) (f v) (Rkv f l) = Rkv f (aset k v l).
  Proof.
    induction l as [|[k' v'] l IH]; [reflexivity|]. rewrite Rkv_cons. cbn [aset]. rewrite key_eqb_R.
    destruct (key_eqb k k'); [reflexivity|]. rewrite Rkv_cons, IH. reflexivity.
  Qed.
  Lemma adel_R k (l : list (key * V)) : adel (Rk k) (Rkv f l) = Rkv f (adel k l).
  Proof.
    induction l as [|[k' v'] l IH]; [reflexivity|]. rewrite Rkv_cons. cbn [adel]. rewrite key_eqb_R.
    destruct (key_eqb k k'); [reflexivity|]. rewrite Rkv_cons, IH. reflexivity.
  Qed.
  Lemma amem_R k (l : list (key * V)) : amem (Rk k) (Rkv f l) = amem k l.
  Proof. unfold amem. rewrite alookup_R. destruct (alookup k l); reflexivity. Qed.
  Lemma aupdate_R (l m : list (key * V)) : aupdate (Rkv f l) (Rkv f m) = Rkv f (aupdate l m).
  Proof.
    unfold aupdate. revert l. induction m as [|[k v] m IH]; intros l; [reflexivity|].
    rewrite Rkv_cons. cbn [fold_left fst snd]. rewrite aset_R. apply IH.
  Qed.
End Assoc.

(* ================================================================================================ *)
(* 4. the token parser                                                                              *)
(* ================================================================================================ *)
Definition Rz (zt : ztok) : ztok := (fst zt, R (snd zt)).

Lemma bind_map {A B A' B'} (fa : A -> A') (fb : B -> B') (r : res A) (r' : res A') (k : A -> res B) (k' : A' -> res B') :
  r' = map_res fa r -> (forall a, k' (fa a) = map_res fb (k a)) -> bind r' k' = map_res fb (bind r k).
Proof. intros -> Hk. destruct r as [a|e]; cbn [map_res bind]; [apply Hk|reflexivity]. Qed.

Lemma is_open_R t : is_open (R t) = is_open t.
Proof. unfold is_open. rewrite !str_eqb_R by reflexivity. reflexivity. Qed.
Lemma is_close_R t : is_close (R t) = is_close t.
Proof. unfold is_close. rewrite !str_eqb_R by reflexivity. reflexivity. Qed.
Lemma companion_R t : companion (R t) = companion t.
Proof. unfold companion. rewrite !str_eqb_R by reflexivity. reflexivity. Qed.
Lemma companion_nodig t : nodig (companion t) = true.
Proof. unfold companion. repeat match goal with |- context [if ?b then _ else _] => destruct b; [reflexivity|] end. reflexivity. Qed.

Lemma levels_go_R : forall ts lvl, levels_go lvl (map R ts) = map Rz (levels_go lvl ts).
Proof.
  induction ts as [|t ts IH]; intros lvl; [reflexivity|]. cbn [map levels_go]. rewrite is_open_R, is_close_R.
  destruct (is_open t); [cbn [map]; rewrite IH; reflexivity|]. destruct (is_close t); cbn [map]; rewrite IH; reflexivity.
Qed.

Lemma py_nth_R {A B} (f : A -> B) (l : list A) i : py_nth (map f l) i = option_map f (py_nth l i).
Proof.
  unfold py_nth. rewrite map_length. destruct (0 <=? i)%Z.
  - destruct (i <? Z.of_nat (length l))%Z; [apply nth_error_map|reflexivity].
  - destruct (0 <=? i + Z.of_nat (length l))%Z; [apply nth_error_map|reflexivity].
Qed.

Lemma is_comment_tok_R t : is_comment_tok (R t) = is_comment_tok t.
Proof. unfold is_comment_tok. apply contains_R. reflexivity. Qed.
Lemma is_include_tok_R t : is_include_tok (R t) = is_include_tok t.
Proof. unfold is_include_tok. apply contains_R. reflexivity. Qed.

Lemma key_index_R : forall f ts ti off, key_index f (map Rz ts) ti off = key_index f ts ti off.
Proof.
  induction f as [|f IH]; intros ts ti off; [reflexivity|]. cbn [key_index]. rewrite py_nth_R.
  destruct (py_nth ts (ti - off)) as [[lv txt]|]; cbn [option_map Rz fst snd]; [|reflexivity].
  rewrite is_comment_tok_R. destruct (is_comment_tok txt); [apply IH|reflexivity].
Qed.

Lemma check_dict_end_R : forall f ds idx, check_dict_end f (map Rz ds) idx = check_dict_end f ds idx.
Proof.
  induction f as [|f IH]; intros ds idx; [reflexivity|]. cbn [check_dict_end]. rewrite py_nth_R.
  destruct (py_nth ds idx) as [[lv txt]|]; cbn [option_map Rz fst snd]; [|reflexivity].
  rewrite is_comment_tok_R. destruct (is_comment_tok txt); [apply IH|reflexivity].
Qed.

Definition Rcs (p : list ztok * Z) : list ztok * Z := (map Rz (fst p), snd p).
Lemma collect_struct_R : forall f ts ti i closing clevel acc, nodig closing = true ->
  collect_struct f (map Rz ts) ti i closing clevel (map Rz acc) = map_res Rcs (collect_struct f ts ti i closing clevel acc).
Proof.
  induction f as [|f IH]; intros ts ti i closing clevel acc Hc; [reflexivity|]. cbn [collect_struct]. rewrite py_nth_R.
  destruct (py_nth ts (ti + i)) as [[lv txt]|]; cbn [option_map Rz fst snd]; [|reflexivity].
  rewrite str_eqb_R by exact Hc. rewrite is_comment_tok_R.
  destruct (negb (str_eqb txt closing) || negb (lv =? clevel)%Z && negb (is_comment_tok txt)).
  - change ((lv, R txt) :: map Rz acc) with (map Rz ((lv, txt) :: acc)). apply IH. exact Hc.
  - cbn [map_res]. unfold Rcs. cbn [fst snd]. rewrite map_rev. reflexivity.
Qed.

Lemma last_text_R ds : last_text (map Rz ds) = R (last_text ds).
Proof. unfold last_text. rewrite <- map_rev. destruct (rev ds) as [|[lv t] r]; reflexivity. Qed.
Lemma first_text_R ds : first_text (map Rz ds) = R (first_text ds).
Proof. destruct ds as [|[lv t] r]; reflexivity. Qed.
Lemma removelast_map {A B} (f : A -> B) (l : list A) : removelast (map f l) = map f (removelast l).
Proof. induction l as [|x l IH]; [reflexivity|]. cbn [map removelast]. destruct l as [|y l]; [reflexivity|]. cbn [map] in *. rewrite IH. reflexivity. Qed.
Lemma inner_R {A B} (f : A -> B) (l : list A) : inner (map f l) = map f (inner l).
Proof. unfold inner. destruct l as [|x l]; [reflexivity|]. cbn [map tl]. apply removelast_map. Qed.
Lemma hd_Rz ds : fst (hd (0%Z, []) (map Rz ds)) = fst (hd (0%Z, []) ds).
Proof. destruct ds as [|[lv t] r]; reflexivity. Qed.

Lemma kv_back_R : forall f ts ti i lvl acc, kv_back f (map Rz ts) ti i lvl (map Rz acc) = map Rz (kv_back f ts ti i lvl acc).
Proof.
  induction f as [|f IH]; intros ts ti i lvl acc; [reflexivity|]. cbn [kv_back]. destruct (ti - i <? 0)%Z; [reflexivity|].
  rewrite py_nth_R. destruct (py_nth ts (ti - i)) as [[lv txt]|]; cbn [option_map Rz fst snd]; [|reflexivity].
  rewrite !str_eqb_R by reflexivity. rewrite is_comment_tok_R, is_include_tok_R.
  destruct ((lv =? lvl)%Z && negb (str_eqb txt t_semi) && negb (str_eqb txt t_rbrace) && negb (is_comment_tok txt) && negb (is_include_tok txt));
    [|reflexivity].
  change ((lv, R txt) :: map Rz acc) with (map Rz ((lv, txt) :: acc)). apply IH.
Qed.

Lemma parse_key_R s : parse_key (R s) = map_res Rk (parse_key s).
Proof. unfold parse_key. rewrite parse_value_R. destruct (parse_value s) as [v|e]; [|reflexivity]. destruct v; reflexivity. Qed.

Lemma parse_go_R : forall f,
  (forall ts ti acc, parse_dict_go f (map Rz ts) ti (Rkvs acc) = map_res Rkvs (parse_dict_go f ts ti acc)) /\
  (forall ts ti base acc, parse_list_go f (map Rz ts) ti base (map Rt acc) = map_res (map Rt) (parse_list_go f ts ti base acc)).
Proof.
  induction f as [|f [IHd IHl]]; [split; reflexivity|]. split.
  - intros ts ti acc. rewrite !TokProofs.parse_dict_go_S. rewrite py_nth_R.
    destruct (py_nth ts ti) as [[lv txt]|]; cbn [option_map Rz fst snd]; [|reflexivity].
    destruct (ti <? 0)%Z; [reflexivity|]. rewrite is_open_R. destruct (is_open txt).
    + apply (bind_map (fun x : Z => x) Rkvs); [rewrite key_index_R; destruct (key_index f ts ti 1); reflexivity|]. intros kidx.
      rewrite py_nth_R. destruct (py_nth ts kidx) as [[klv ktxt]|]; cbn [option_map Rz fst snd]; [|reflexivity].
      apply (bind_map Rk Rkvs); [apply parse_key_R|]. intros k.
      apply (bind_map Rcs Rkvs).
      { rewrite companion_R. exact (collect_struct_R f ts ti 0 (companion txt) lv [] (companion_nodig txt)). }
      intros [ds i]. unfold Rcs at 1. cbn [fst snd].
      apply (bind_map (fun x : unit => x) Rkvs).
      { rewrite last_text_R, str_eqb_R by reflexivity. destruct (str_eqb (last_text ds) t_rpar); [|reflexivity].
        rewrite py_nth_R. destruct (py_nth ts (ti + i + 1)); reflexivity. }
      intros _.
      apply (bind_map (fun x : unit => x) Rkvs).
      { rewrite last_text_R, str_eqb_R by reflexivity. destruct (str_eqb (last_text ds) t_rbrace); [|reflexivity].
        rewrite check_dict_end_R. destruct (check_dict_end f ds (-2)); reflexivity. }
      intros _.
      apply (bind_map Rkvs Rkvs); [|intros acc'; apply IHd].
      rewrite first_text_R, !str_eqb_R by reflexivity. rewrite map_length.
      destruct (str_eqb (first_text ds) t_lpar).
      * destruct (Nat.ltb (length ds) 3).
        -- cbn [map_res]. f_equal. exact (aset_R Rt k (Lst []) acc).
        -- apply (bind_map (map Rt) Rkvs); [rewrite hd_Rz; exact (IHl ds 0%Z _ [])|].
           intros l. cbn [map_res]. f_equal. rewrite <- Rt_lst. apply aset_R.
      * destruct (str_eqb (first_text ds) t_lbrace); [|reflexivity].
        apply (bind_map Rkvs Rkvs); [rewrite inner_R; exact (IHd (inner ds) 0%Z [])|].
        intros dd. cbn [map_res]. f_equal. rewrite <- Rt_dict. apply aset_R.
    + rewrite !str_eqb_R by reflexivity. rewrite py_nth_R.
      destruct (py_nth ts (ti - 1)) as [[plv ptxt]|]; cbn [option_map Rz fst snd].
      * rewrite str_eqb_R by reflexivity.
        destruct (str_eqb txt t_semi && negb (str_eqb ptxt t_rpar)).
        -- cbv zeta. change [(lv, R txt)] with (map Rz [(lv, txt)]). rewrite kv_back_R.
           destruct (kv_back f ts ti 1 lv [(lv, txt)]) as [|[l1 ktxt] [|[l2 vtxt] [|x3 [|x4 rr]]]]; cbn [map Rz fst snd]; try apply IHd.
           apply (bind_map Rk Rkvs); [apply parse_key_R|]. intros k.
           apply (bind_map Rsc Rkvs); [apply parse_value_R|]. intros v.
           rewrite <- IHd. f_equal. exact (aset_R Rt k (Leaf v) acc).
        -- rewrite is_comment_tok_R, is_include_tok_R. destruct (is_comment_tok txt || is_include_tok txt); [|apply IHd].
           rewrite <- IHd. f_equal. exact (aset_R Rt (KS txt) (Leaf (SStr txt)) acc).
      * rewrite is_comment_tok_R, is_include_tok_R.
        destruct (str_eqb txt t_semi && negb false); [reflexivity|].
        destruct (is_comment_tok txt || is_include_tok txt); [|apply IHd].
        rewrite <- IHd. f_equal. exact (aset_R Rt (KS txt) (Leaf (SStr txt)) acc).
  - intros ts ti base acc. rewrite !TokProofs.parse_list_go_S. rewrite py_nth_R.
    destruct (py_nth ts ti) as [[lv txt]|]; cbn [option_map Rz fst snd]; [|cbn [map_res]; rewrite map_rev; reflexivity].
    destruct (ti <? 0)%Z; [cbn [map_res]; rewrite map_rev; reflexivity|]. rewrite is_open_R.
    destruct (is_open txt && (base <? lv)%Z).
    + apply (bind_map Rcs (map Rt)).
      { rewrite companion_R. exact (collect_struct_R f ts ti 0 (companion txt) lv [] (companion_nodig txt)). }
      intros [ds i]. unfold Rcs at 1. cbn [fst snd].
      apply (bind_map (fun x : unit => x) (map Rt)).
      { rewrite last_text_R, str_eqb_R by reflexivity. destruct (str_eqb (last_text ds) t_rbrace); [|reflexivity].
        rewrite check_dict_end_R. destruct (check_dict_end f ds (-2)); reflexivity. }
      intros _.
      apply (bind_map (map Rt) (map Rt)); [|intros acc'; apply IHl].
      rewrite first_text_R, !str_eqb_R by reflexivity. rewrite map_length.
      destruct (str_eqb (first_text ds) t_lpar).
      * destruct (Nat.ltb (length ds) 3); [reflexivity|].
        apply (bind_map (map Rt) (map Rt)); [rewrite hd_Rz; exact (IHl ds 0%Z _ [])|].
        intros l. cbn [map_res map]. rewrite Rt_lst. reflexivity.
      * destruct (str_eqb (first_text ds) t_lbrace); [|reflexivity].
        apply (bind_map Rkvs (map Rt)); [rewrite inner_R; exact (IHd (inner ds) 0%Z [])|].
        intros dd. cbn [map_res map]. rewrite Rt_dict. reflexivity.
    + rewrite !str_eqb_R by reflexivity.
      destruct (negb (str_eqb txt t_lpar) && negb (str_eqb txt t_rpar) && negb (str_eqb txt t_semi)); [|apply IHl].
      apply (bind_map Rsc (map Rt)); [apply parse_value_R|]. intros v. exact (IHl ts (ti + 1)%Z base (Leaf v :: acc)).
Qed.

Lemma parse_tokens_R ts : parse_tokens (map R ts) = map_res Rkvs (parse_tokens ts).
Proof.
  unfold parse_tokens, levels. rewrite levels_go_R, map_length. exact (proj1 (parse_go_R _) (levels_go 0 ts) 0%Z []).
Qed.

(* ================================================================================================ *)
(* 5. the id of a placeholder key                                                                   *)
(* ================================================================================================ *)
(* the first run of six digits of a string, and whether it is the id of a renamed placeholder *)
Fixpoint f6 (s : list N) : option (bool * N) :=
  if all_digits_n 6 s then Some (false, dec_to_N (take_n 6 s))
  else match ph_word s with
       | Some w => Some (true, dec_to_N (take_n 6 (drop_n (length w) s)))
       | None => match s with [] => None | _ :: s' => f6 s' end
       end.
Lemma f6_unfold s : f6 s =
  if all_digits_n 6 s then Some (false, dec_to_N (take_n 6 s))
  else match ph_word s with
       | Some w => Some (true, dec_to_N (take_n 6 (drop_n (length w) s)))
       | None => match s with [] => None | _ :: s' => f6 s' end
       end.
Proof. destruct s; reflexivity. Qed.
Lemma first6_unfold s : first_6digits s =
  if all_digits_n 6 s then Some (dec_to_N (take_n 6 s)) else match s with [] => None | _ :: s' => first_6digits s' end.
Proof. destruct s; reflexivity. Qed.

Lemma first6_skip (u t : list N) : forallb (fun c => negb (is_digit c)) u = true -> first_6digits (u ++ t) = first_6digits t.
Proof.
  induction u as [|c u IH]; intros H; [reflexivity|]. cbn [forallb] in H. apply andb_true_iff in H. destruct H as [H1 H2].
  cbn [app]. rewrite first6_unfold. cbn [all_digits_n]. apply negb_true_iff in H1. rewrite H1. cbn [andb]. exact (IH H2).
Qed.

Lemma f6_first s : first_6digits s = option_map snd (f6 s).
Proof.
  induction s as [|c s IH]; [reflexivity|]. rewrite f6_unfold.
  destruct (all_digits_n 6 (c :: s)) eqn:E; [rewrite first6_unfold, E; reflexivity|].
  destruct (ph_word (c :: s)) as [w|] eqn:Ew; [|rewrite first6_unfold, E; exact IH].
  destruct (ph_word_some _ _ Ew) as (Hin & ds & r & Es & L & D). cbn [option_map snd]. rewrite Es.
  destruct (all_words_upper w (shifted_all w Hin)) as [U _].
  rewrite first6_skip by (apply upper_nodigit; exact U). rewrite drop_n_app.
  rewrite first6_unfold.
  assert (Ha : all_digits_n 6 (ds ++ r) = true) by (rewrite <- L; apply all_digits_n_app; exact D).
  rewrite Ha. reflexivity.
Qed.

Lemma f6_R s : f6 (R s) = option_map (fun p : bool * N => (fst p, if fst p then shift d (snd p) else snd p)) (f6 s).
Proof.
  induction s as [|c s IH]; [reflexivity|]. rewrite (f6_unfold (c :: s)), f6_unfold.
  rewrite <- (all_digits_n_dsim 6 _ _ (dsim_rename d (c :: s))).
  destruct (all_digits_n 6 (c :: s)) eqn:E.
  - destruct (all_digits_n_spec _ _ E) as [L D]. rewrite <- (take_drop 6 (c :: s)) at 1.
    rewrite rename_digits by exact D. cbn [option_map fst snd]. f_equal. f_equal. f_equal.
    rewrite <- L at 1. apply take_n_app.
  - rewrite <- (ph_word_dsim _ _ (dsim_rename d (c :: s))).
    destruct (ph_word (c :: s)) as [w|] eqn:Ew.
    + destruct (ph_word_some _ _ Ew) as (Hin & ds & r & Es & L & D). cbn [option_map fst snd]. rewrite Es.
      rewrite rename_ph by assumption. rewrite !drop_n_app.
      assert (Hb : shift d (dec_to_N ds) < 1000000) by (apply shift_lt; exact (dec6_bound ds L D)).
      assert (T1 : take_n 6 (pad6 (shift d (dec_to_N ds)) ++ R r) = pad6 (shift d (dec_to_N ds)))
        by (rewrite <- (pad6_len _ Hb); apply take_n_app).
      assert (T2 : take_n 6 (ds ++ r) = ds) by (rewrite <- L; apply take_n_app).
      unfold cp in *. rewrite T1, T2, LayoutProofs.dec_to_N_pad6. reflexivity.
    + rewrite rename_char by exact Ew. exact IH.
Qed.

Lemma has_placeholder_dsim (w s t : list N) : nodig w = true -> dsim s t -> has_placeholder w s = has_placeholder w t.
Proof.
  intros Hw H. induction H as [|a b s t Hab H IH]; [reflexivity|]. cbn [has_placeholder].
  assert (Hd : dsim (a :: s) (b :: t)) by (constructor; assumption).
  rewrite (starts_with_dsim w _ _ Hw Hd), (all_digits_n_dsim 6 _ _ (dsim_drop (length w) _ _ Hd)), IH. reflexivity.
Qed.

Lemma ph_kind_of_R k : ph_kind_of (Rk k) = ph_kind_of k.
Proof.
  destruct k as [z|s]; [reflexivity|]. cbn [Rk ph_kind_of].
  rewrite <- !(has_placeholder_dsim _ s (R s)) by (try reflexivity; apply dsim_rename). reflexivity.
Qed.

Definition key_okb (k : key) : bool :=
  match k with
  | KI _ => true
  | KS s => match ph_kind_of k with
            | None => true
            | Some PhBlock => match f6 s with Some (true, _) => false | _ => true end
            | Some _ => match f6 s with Some (false, _) => false | _ => true end
            end
  end.

Definition kind_sh (kd : ph_kind) : N -> N := match kd with PhBlock => fun j => j | _ => shift d end.

Lemma key_id_R k kd : key_okb k = true -> ph_kind_of k = Some kd -> key_id (Rk k) = option_map (kind_sh kd) (key_id k).
Proof.
  destruct k as [z|s]; [discriminate|]. intros Hok Hk. unfold key_okb in Hok. rewrite Hk in Hok.
  cbn [Rk key_id]. rewrite !f6_first, f6_R. destruct (f6 s) as [[b i]|]; [|reflexivity]. cbn [option_map fst snd].
  destruct kd, b; try discriminate Hok; reflexivity.
Qed.

(* ================================================================================================ *)
(* 6. SDict clean-up                                                                                *)
(* ================================================================================================ *)
Definition Rsd (s : sdict) : sdict :=
  mkSD (Rkvs (sd_data s)) (rtab R (shift d) (sd_lc s)) (rtab R (fun j => j) (sd_bc s))
       (rtab (Rinc d) (shift d) (sd_inc s)) (rtab (Rex d) (shift d) (sd_expr s)).

Lemma inc_eqb_R a b : inc_eqb (Rinc d a) (Rinc d b) = inc_eqb a b.
Proof. destruct a as [[a1 a2] a3], b as [[b1 b2] b3]. cbn [Rinc inc_eqb]. rewrite !rename_eqb. reflexivity. Qed.

Lemma existsb_map_eqb {V} (veqb : V -> V -> bool) (fv : V -> V) : (forall a b, veqb (fv a) (fv b) = veqb a b) ->
  forall v seen, existsb (veqb (fv v)) (map fv seen) = existsb (veqb v) seen.
Proof. intros H v seen. induction seen as [|x l IH]; [reflexivity|]. cbn [map existsb]. rewrite H, IH. reflexivity. Qed.

Lemma clean_kind_R {V} (veqb : V -> V -> bool) (fv : V -> V) (sh : N -> N) :
  (forall i j, (sh i =? sh j) = (i =? j)) -> (forall a b, veqb (fv a) (fv b) = veqb a b) ->
  forall keys data tab seen, (forall k, In k keys -> key_id (Rk k) = option_map sh (key_id k)) ->
  clean_kind veqb (map Rk keys) (Rkvs data) (rtab fv sh tab) (map fv seen) =
  (Rkvs (fst (clean_kind veqb keys data tab seen)), rtab fv sh (snd (clean_kind veqb keys data tab seen))).
Proof.
  intros Hsh Hv. induction keys as [|k keys IH]; intros data tab seen Hk; [reflexivity|].
  cbn [map clean_kind]. rewrite (Hk k (or_introl eq_refl)).
  assert (Hk' : forall k0, In k0 keys -> key_id (Rk k0) = option_map sh (key_id k0)) by (intros k0 H0; apply Hk; right; exact H0).
  destruct (key_id k) as [i|]; cbn [option_map]; [|apply IH; exact Hk'].
  rewrite (rtab_tlookup fv sh Hsh). destruct (tlookup i tab) as [v|]; cbn [option_map]; [|apply IH; exact Hk'].
  rewrite (existsb_map_eqb veqb fv Hv). destruct (existsb (veqb v) seen).
  - rewrite (adel_R Rt), (rtab_tdel fv sh Hsh). apply IH. exact Hk'.
  - change (map fv seen ++ [fv v]) with (map fv seen ++ map fv [v]). rewrite <- map_app. apply IH. exact Hk'.
Qed.

Lemma map_fst_Rkvs {V} (f : V -> V) (l : list (key * V)) : map fst (Rkv f l) = map Rk (map fst l).
Proof. unfold Rkv. rewrite !map_map. reflexivity. Qed.

Lemma filter_map_comm {A B} (f : A -> B) (p : B -> bool) (q : A -> bool) (l : list A) : (forall a, p (f a) = q a) ->
  filter p (map f l) = map f (filter q l).
Proof. intros H. induction l as [|x l IH]; [reflexivity|]. cbn [map filter]. rewrite H. destruct (q x); [cbn [map]; rewrite IH|]; auto. Qed.

Lemma keys_of_kind_R kd data : keys_of_kind kd (Rkvs data) = map Rk (keys_of_kind kd data).
Proof.
  unfold keys_of_kind. rewrite map_fst_Rkvs. apply filter_map_comm. intros k. rewrite ph_kind_of_R. reflexivity.
Qed.

Lemma keys_of_kind_kind kd data k : In k (keys_of_kind kd data) -> ph_kind_of k = Some kd /\ In k (map fst data).
Proof.
  unfold keys_of_kind. intros H. apply filter_In in H. destruct H as [H1 H2]. split; [|exact H1].
  destruct (ph_kind_of k) as [[]|]; destruct kd; try discriminate H2; reflexivity.
Qed.

Definition keys_ok1 (data : list (key * tree)) : Prop := forall k, In k (map fst data) -> key_okb k = true.

Lemma clean_level_R data s : keys_ok1 data ->
  clean_level (Rkvs data) (Rsd s) = (Rkvs (fst (clean_level data s)), Rsd (snd (clean_level data s))).
Proof.
  intros Hok. unfold clean_level. rewrite !keys_of_kind_R.
  assert (Hid : forall kd k, In k (keys_of_kind kd data) -> key_id (Rk k) = option_map (kind_sh kd) (key_id k)).
  { intros kd k Hin. destruct (keys_of_kind_kind _ _ _ Hin) as [H1 H2]. apply key_id_R; [apply Hok; exact H2|exact H1]. }
  cbn [Rsd sd_bc sd_inc sd_lc sd_data sd_expr].
  pose proof (clean_kind_R str_eqb R (fun j => j) (fun i j => eq_refl) (rename_eqb d)
                (keys_of_kind PhBlock data) data (sd_bc s) [] (Hid PhBlock)) as E1.
  cbn [map] in E1. rewrite E1. destruct (clean_kind str_eqb (keys_of_kind PhBlock data) data (sd_bc s) []) as [d1 bc]. cbn [fst snd].
  pose proof (clean_kind_R inc_eqb (Rinc d) (shift d) (shift_eqb d) inc_eqb_R
                (keys_of_kind PhInclude data) d1 (sd_inc s) [] (Hid PhInclude)) as E2.
  cbn [map] in E2. rewrite E2. destruct (clean_kind inc_eqb (keys_of_kind PhInclude data) d1 (sd_inc s) []) as [d2 inc]. cbn [fst snd].
  pose proof (clean_kind_R str_eqb R (shift d) (shift_eqb d) (rename_eqb d)
                (keys_of_kind PhLine data) d2 (sd_lc s) [] (Hid PhLine)) as E3.
  cbn [map] in E3. rewrite E3. destruct (clean_kind str_eqb (keys_of_kind PhLine data) d2 (sd_lc s) []) as [d3 lc]. cbn [fst snd].
  reflexivity.
Qed.

(* all keys of a tree, at every level *)
Fixpoint keys_okt (t : tree) : bool :=
  match t with
  | Leaf _ => true
  | Dict kvs => (fix go (l : list (key * tree)) : bool :=
                   match l with [] => true | (k, c) :: l' => key_okb k && keys_okt c && go l' end) kvs
  | Lst ts => (fix go (l : list tree) : bool := match l with [] => true | c :: l' => keys_okt c && go l' end) ts
  end.
Lemma keys_okt_dict kvs : keys_okt (Dict kvs) = forallb (fun kc => key_okb (fst kc) && keys_okt (snd kc)) kvs.
Proof. cbn [keys_okt]. induction kvs as [|[k c] kvs IH]; [reflexivity|]. cbn [forallb fst snd]. rewrite IH. reflexivity. Qed.
Lemma keys_okt_lst ts : keys_okt (Lst ts) = forallb keys_okt ts.
Proof. cbn [keys_okt]. induction ts as [|c ts IH]; [reflexivity|]. cbn [forallb]. rewrite IH. reflexivity. Qed.

Lemma keys_okt_ok1 data : keys_okt (Dict data) = true -> keys_ok1 data.
Proof.
  rewrite keys_okt_dict, forallb_forall. intros H k Hin. apply in_map_iff in Hin. destruct Hin as ([k' c] & <- & Hin).
  specialize (H _ Hin). apply andb_true_iff in H. exact (proj1 H).
Qed.
Lemma keys_okt_child data k c : keys_okt (Dict data) = true -> In (k, c) data -> keys_okt c = true.
Proof. rewrite keys_okt_dict, forallb_forall. intros H Hin. specialize (H _ Hin). apply andb_true_iff in H. exact (proj2 H). Qed.

Lemma clean_tree_R : forall fuel data s, keys_okt (Dict data) = true ->
  clean_tree fuel (Rkvs data) (Rsd s) = (Rkvs (fst (clean_tree fuel data s)), Rsd (snd (clean_tree fuel data s))).
Proof.
  induction fuel as [|f IH]; intros data s Hok; [reflexivity|].
  rewrite !SDictProofs.clean_tree_S. rewrite (clean_level_R data s (keys_okt_ok1 data Hok)). cbn [fst].
  assert (Hsub : forall kv, In kv (fst (clean_level data s)) -> In kv data) by (intros kv; apply ParserFuelProofs.clean_level_incl).
  destruct (clean_level data s) as [d0 s1]. cbn [fst snd] in *.
  assert (Hgen : forall l dacc sacc, (forall kv, In kv l -> In kv data) ->
            fold_left (SDictProofs.cstep f) (Rkvs l) (Rkvs dacc, Rsd sacc) =
            (Rkvs (fst (fold_left (SDictProofs.cstep f) l (dacc, sacc))), Rsd (snd (fold_left (SDictProofs.cstep f) l (dacc, sacc))))).
  { induction l as [|[k v] l IHl]; intros dacc sacc Hl; [reflexivity|].
    rewrite Rkv_cons. cbn [fold_left]. unfold SDictProofs.cstep at 2 4 6. cbn [fst snd].
    assert (Hl' : forall kv, In kv l -> In kv data) by (intros kv H0; apply Hl; right; exact H0).
    destruct v as [x|sub|ts].
    - cbn [Rt]. apply IHl. exact Hl'.
    - rewrite Rt_dict. rewrite (IH sub sacc (keys_okt_child data k (Dict sub) Hok (Hl _ (or_introl eq_refl)))).
      destruct (clean_tree f sub sacc) as [sub' s']. cbn [fst snd].
      rewrite <- Rt_dict. rewrite (aset_R Rt). apply IHl. exact Hl'.
    - rewrite Rt_lst. apply IHl. exact Hl'. }
  apply Hgen. exact Hsub.
Qed.

Lemma depth_R : forall t, depth (Rt t) = depth t.
Proof.
  induction t as [v|kvs IH|ts IH] using tree_ind'; [reflexivity| |].
  - rewrite Rt_dict. cbn [depth]. f_equal. induction IH as [|[k c] kvs Hc _ IHk]; [reflexivity|].
    rewrite Rkv_cons. cbn [fold_right snd] in *. rewrite Hc, IHk. reflexivity.
  - rewrite Rt_lst. cbn [depth]. f_equal. induction IH as [|c l Hc _ IHl]; [reflexivity|].
    cbn [map fold_right]. rewrite Hc, IHl. reflexivity.
Qed.

Lemma sd_clean_R s : keys_okt (Dict (sd_data s)) = true -> sd_clean (Rsd s) = Rsd (sd_clean s).
Proof.
  intros Hok. unfold sd_clean. cbn [Rsd sd_data]. rewrite <- Rt_dict, depth_R.
  change (mkSD (Rkvs (sd_data s)) (rtab R (shift d) (sd_lc s)) (rtab R (fun j => j) (sd_bc s))
               (rtab (Rinc d) (shift d) (sd_inc s)) (rtab (Rex d) (shift d) (sd_expr s))) with (Rsd s).
  rewrite (clean_tree_R _ (sd_data s) s Hok).
  destruct (clean_tree (S (depth (Dict (sd_data s)))) (sd_data s) s) as [dd s']. reflexivity.
Qed.

End Parse.

(* ================================================================================================ *)
(* 7. occurrences of a placeholder                                                                  *)
(* ================================================================================================ *)
Lemma rsuf_inv d s s' : rsuf d s s' -> rsuf (- d) s' s.
Proof. intros (p & p' & L & E). exists p', p. split; [symmetry; exact L|]. rewrite <- E. apply rename_inv. Qed.

Lemma sw_ph_fwd d (W : list N) k (s s' : list N) : In W shifted_words -> k < 1000000 -> rsuf d s s' ->
  starts_with (placeholder W k) s = true -> starts_with (placeholder W (shift d k)) s' = true.
Proof.
  intros Hin Hk (p & p' & L & E) H. apply starts_with_eq in H. rewrite H in E.
  rewrite rename_insert_shifted in E by assumption.
  apply app_eq_len in E; [|rewrite rename_length; exact L]. destruct E as [_ E]. rewrite <- E. apply starts_with_app.
Qed.

Lemma sw_ph d (W : list N) k (s s' : list N) : In W shifted_words -> k < 1000000 -> rsuf d s s' ->
  starts_with (placeholder W (shift d k)) s' = starts_with (placeholder W k) s.
Proof.
  intros Hin Hk H. destruct (starts_with (placeholder W k) s) eqn:E; [apply (sw_ph_fwd d W k s s'); assumption|].
  destruct (starts_with (placeholder W (shift d k)) s') eqn:E2; [|reflexivity].
  apply (sw_ph_fwd (- d) W (shift d k) s' s) in E2; [rewrite shift_inv in E2; congruence|exact Hin|apply shift_lt; exact Hk|apply rsuf_inv; exact H].
Qed.

Lemma contains_ph d (W : list N) k : In W shifted_words -> k < 1000000 ->
  forall s s' : list N, rsuf d s s' -> contains (placeholder W (shift d k)) s' = contains (placeholder W k) s.
Proof.
  intros Hin Hk. induction s as [|c s IH]; intros s' H.
  - rewrite (rsuf_nil d _ H). cbn [contains]. unfold placeholder.
    destruct (all_words_upper W (shifted_all W Hin)) as [_ Hne]. destruct W; [congruence|reflexivity].
  - destruct (rsuf_cons_inv d _ _ _ H) as (c' & t & -> & _ & Ht). cbn [contains].
    rewrite (sw_ph d W k (c :: s) (c' :: t) Hin Hk H), (IH t Ht). reflexivity.
Qed.

Section Insert.
Variable d : Z.
Notation R := (rename_str d).
Notation Rs := (Rsc d).
Notation RT := (Rt d).
Notation RKV := (Rkv d (Rt d)).
Import E2EInsert.

Lemma Pq_R k x : k < 1000000 -> Pq (E2EHoles.PH (shift d k)) (Rs x) = Pq (E2EHoles.PH k) x.
Proof.
  intros Hk. unfold Pq, E2EHoles.PH. rewrite py_str_R. apply contains_ph; [right; right; left; reflexivity|exact Hk|apply rsuf_R].
Qed.

Lemma pv_R s : pv (R s) = Rs (pv s).
Proof. unfold pv. rewrite parse_value_R. destruct (parse_value s); reflexivity. Qed.

Lemma PWs_R x : PWs (Rs x) = PWs x.
Proof. unfold PWs. rewrite py_str_R. apply contains_R. reflexivity. Qed.

Lemma Gfun_R : forall (tab : list (N * str)) x, Forall idok tab -> Rs (Gfun tab x) = Gfun (rtab R (shift d) tab) (Rs x).
Proof.
  unfold Gfun. induction tab as [|[k s] tab IH]; intros x H; [reflexivity|]. inversion H as [|? ? Hk Ht]; subst.
  rewrite rtab_cons. cbn [fold_left]. rewrite (IH _ Ht). f_equal.
  unfold Gstep, Fsub. cbn [fst snd]. rewrite (Pq_R k x Hk), pv_R. destruct (Pq (E2EHoles.PH k) x); reflexivity.
Qed.

Lemma map_leaves_R (g g' : scalar -> scalar) : (forall x, Rs (g x) = g' (Rs x)) ->
  forall t, RT (NativeSpec.map_leaves g t) = NativeSpec.map_leaves g' (RT t).
Proof.
  intros Hg. induction t as [v|kvs IH|ts IH] using tree_ind'.
  - cbn [NativeSpec.map_leaves Rt]. rewrite Hg. reflexivity.
  - rewrite TokProofs.map_leaves_dict. rewrite (Rt_dict d (map (TokProofs.mkv g) kvs)), (Rt_dict d kvs). rewrite TokProofs.map_leaves_dict. f_equal.
    induction IH as [|[k c] kvs Hc _ IHk]; [reflexivity|]. cbn [map].
    change (TokProofs.mkv g (k, c)) with (k, NativeSpec.map_leaves g c). rewrite !Rkv_cons. cbn [map]. rewrite IHk.
    unfold TokProofs.mkv at 1. cbn [fst snd] in *. rewrite Hc. reflexivity.
  - rewrite TokProofs.map_leaves_lst. rewrite (Rt_lst d (map (NativeSpec.map_leaves g) ts)), (Rt_lst d ts). rewrite TokProofs.map_leaves_lst. f_equal.
    induction IH as [|c l Hc _ IHl]; [reflexivity|]. cbn [map]. rewrite IHl, Hc. reflexivity.
Qed.

Lemma lw_R (PW : scalar -> bool) : (forall x, PW (Rs x) = PW x) -> forall t b, lw PW b (RT t) = lw PW b t.
Proof.
  intros HP. induction t as [v|kvs IH|ts IH] using tree_ind'; intros b.
  - cbn [Rt lw]. rewrite HP. reflexivity.
  - rewrite Rt_dict, !lw_dict. induction IH as [|[k c] kvs Hc _ IHk]; [reflexivity|].
    rewrite Rkv_cons. cbn [forallb snd] in *. rewrite Hc, IHk. reflexivity.
  - rewrite Rt_lst, !lw_lst. induction IH as [|c l Hc _ IHl]; [reflexivity|]. cbn [map forallb]. rewrite Hc, IHl. reflexivity.
Qed.

Lemma existsb_key_R k ks : existsb (key_eqb (Rk d k)) (map (Rk d) ks) = existsb (key_eqb k) ks.
Proof. induction ks as [|k2 ks IH]; [reflexivity|]. cbn [map existsb]. rewrite key_eqb_R, IH. reflexivity. Qed.
Lemma keys_nodup_R ks : keys_nodup (map (Rk d) ks) = keys_nodup ks.
Proof. induction ks as [|k ks IH]; [reflexivity|]. cbn [map keys_nodup]. rewrite IH, existsb_key_R. reflexivity. Qed.

Lemma wf_R : forall t, wf (RT t) = wf t.
Proof.
  induction t as [v|kvs IH|ts IH] using tree_ind'; [reflexivity| |].
  - rewrite Rt_dict, !KeyPathProofs.wf_dict. rewrite map_fst_Rkvs, keys_nodup_R. f_equal.
    induction IH as [|[k c] kvs Hc _ IHk]; [reflexivity|]. rewrite Rkv_cons. cbn [forallb snd] in *. rewrite Hc, IHk. reflexivity.
  - rewrite Rt_lst, !KeyPathProofs.wf_lst. induction IH as [|c l Hc _ IHl]; [reflexivity|]. cbn [map forallb]. rewrite Hc, IHl. reflexivity.
Qed.

(* ---- properties of the data that the clean-up keeps ------------------------------------------------ *)
Section Pres.
  Variable Q : nat -> tree -> bool.
  Hypothesis Q_adel : forall b k l, Q b (Dict l) = true -> Q b (Dict (adel k l)) = true.
  Hypothesis Q_aset : forall b k c0 sub' l l0, Q b (Dict l0) = true -> In (k, c0) l0 -> Q b (Dict l) = true ->
    Q (Nat.pred b) (Dict sub') = true -> Q b (Dict (aset k (Dict sub') l)) = true.
  Hypothesis Q_child : forall b k c l, Q b (Dict l) = true -> In (k, c) l -> Q (Nat.pred b) c = true.

  Lemma clean_kind_Q {V} (veqb : V -> V -> bool) b : forall keys data tab seen,
    Q b (Dict data) = true -> Q b (Dict (fst (clean_kind veqb keys data tab seen))) = true.
  Proof.
    induction keys as [|k keys IH]; intros data tab seen H; [exact H|]. cbn [clean_kind].
    destruct (key_id k) as [i|]; [|apply IH; exact H]. destruct (tlookup i tab) as [v|]; [|apply IH; exact H].
    destruct (existsb (veqb v) seen); apply IH; [apply Q_adel|]; exact H.
  Qed.
  Lemma clean_level_Q b data s : Q b (Dict data) = true -> Q b (Dict (fst (clean_level data s))) = true.
  Proof.
    intros H. unfold clean_level.
    pose proof (clean_kind_Q str_eqb b (keys_of_kind PhBlock data) data (sd_bc s) [] H) as H1.
    destruct (clean_kind str_eqb (keys_of_kind PhBlock data) data (sd_bc s) []) as [d1 bc]. cbn [fst] in H1.
    pose proof (clean_kind_Q inc_eqb b (keys_of_kind PhInclude data) d1 (sd_inc s) [] H1) as H2.
    destruct (clean_kind inc_eqb (keys_of_kind PhInclude data) d1 (sd_inc s) []) as [d2 inc]. cbn [fst] in H2.
    pose proof (clean_kind_Q str_eqb b (keys_of_kind PhLine data) d2 (sd_lc s) [] H2) as H3.
    destruct (clean_kind str_eqb (keys_of_kind PhLine data) d2 (sd_lc s) []) as [d3 lc]. exact H3.
  Qed.
  Lemma clean_tree_Q : forall fuel b data s, Q b (Dict data) = true -> Q b (Dict (fst (clean_tree fuel data s))) = true.
  Proof.
    induction fuel as [|f IH]; intros b data s H; [exact H|]. rewrite SDictProofs.clean_tree_S.
    pose proof (clean_level_Q b data s H) as Hd.
    assert (Hsub : forall kv, In kv (fst (clean_level data s)) -> In kv data) by (intros kv; apply ParserFuelProofs.clean_level_incl).
    destruct (clean_level data s) as [d0 s1]. cbn [fst] in *.
    assert (Hgen : forall l dacc sacc, (forall kv, In kv l -> In kv data) -> Q b (Dict dacc) = true ->
              Q b (Dict (fst (fold_left (SDictProofs.cstep f) l (dacc, sacc)))) = true).
    { induction l as [|[k v] l IHl]; intros dacc sacc Hl Hacc; [exact Hacc|].
      cbn [fold_left]. unfold SDictProofs.cstep at 2. cbn [fst snd].
      assert (Hl' : forall kv, In kv l -> In kv data) by (intros kv H0; apply Hl; right; exact H0).
      destruct v as [x|sub|ts]; try (apply IHl; assumption).
      pose proof (IH (Nat.pred b) sub sacc (Q_child b k (Dict sub) data H (Hl _ (or_introl eq_refl)))) as Hs.
      destruct (clean_tree f sub sacc) as [sub' s']. cbn [fst] in Hs. apply IHl; [exact Hl'|].
      exact (Q_aset b k (Dict sub) sub' dacc data H (Hl _ (or_introl eq_refl)) Hacc Hs). }
    apply Hgen; [exact Hsub|exact Hd].
  Qed.
  Lemma sd_clean_Q b s : Q b (Dict (sd_data s)) = true -> Q b (Dict (sd_data (sd_clean s))) = true.
  Proof.
    intros H. unfold sd_clean. pose proof (clean_tree_Q (S (depth (Dict (sd_data s)))) b (sd_data s) s H) as H1.
    destruct (clean_tree (S (depth (Dict (sd_data s)))) (sd_data s) s) as [dd s']. exact H1.
  Qed.
End Pres.

Lemma forallb_adel {V} (p : key * V -> bool) k (l : list (key * V)) : forallb p l = true -> forallb p (adel k l) = true.
Proof.
  induction l as [|[k' v] l IH]; intros H; [reflexivity|]. cbn [forallb] in H. apply andb_true_iff in H. destruct H as [H1 H2].
  cbn [adel]. destruct (key_eqb k k'); [exact H2|]. cbn [forallb]. rewrite H1, (IH H2). reflexivity.
Qed.
Lemma forallb_aset {V} (p : key * V -> bool) k v (l : list (key * V)) : forallb p l = true -> (forall k', p (k', v) = true) ->
  forallb p (aset k v l) = true.
Proof.
  intros H Hp. induction l as [|[k' v'] l IH]; [cbn [aset forallb]; rewrite Hp; reflexivity|].
  cbn [forallb] in H. apply andb_true_iff in H. destruct H as [H1 H2]. cbn [aset]. destruct (key_eqb k k').
  - cbn [forallb]. rewrite Hp, H2. reflexivity.
  - cbn [forallb]. rewrite H1, (IH H2). reflexivity.
Qed.
Lemma aset_key_in {V} k v (l : list (key * V)) k' v' : In (k', v') (aset k v l) -> In (k', v') l \/ (v' = v /\ (k' = k \/ In k' (map fst l))).
Proof.
  induction l as [|[k2 v2] l IH]; cbn [aset]; intros H.
  - destruct H as [H|[]]. injection H as <- <-. right. split; [reflexivity|left; reflexivity].
  - destruct (key_eqb k k2).
    + destruct H as [H|H]; [injection H as <- <-; right; split; [reflexivity|right; left; reflexivity]|left; right; exact H].
    + destruct H as [H|H]; [left; left; exact H|]. destruct (IH H) as [H1|[H1 [H2|H2]]]; [left; right; exact H1|right; split; [exact H1|left; exact H2]|].
      right. split; [exact H1|right; right; exact H2].
Qed.

Lemma keys_okt_sd_clean s : keys_okt (Dict (sd_data s)) = true -> keys_okt (Dict (sd_data (sd_clean s))) = true.
Proof.
  refine (sd_clean_Q (fun _ t => keys_okt t) _ _ _ O s).
  - intros _ k l. rewrite !keys_okt_dict. apply forallb_adel.
  - intros _ k c0 sub' l l0 H0 Hin Hl Hs. cbv beta in *. rewrite keys_okt_dict in H0, Hl. rewrite keys_okt_dict.
    rewrite forallb_forall. intros [k' v'] Hin'.
    apply aset_key_in in Hin'. rewrite forallb_forall in Hl, H0. destruct Hin' as [Hin'|[-> Hk]]; [exact (Hl _ Hin')|].
    cbn [fst snd]. rewrite Hs, andb_true_r.
    destruct Hk as [->|Hk].
    + specialize (H0 _ Hin). cbn [fst] in H0. apply andb_true_iff in H0. exact (proj1 H0).
    + apply in_map_iff in Hk. destruct Hk as ([k2 v2] & <- & Hk). specialize (Hl _ Hk). apply andb_true_iff in Hl. exact (proj1 Hl).
  - intros _ k c l H Hin. exact (keys_okt_child l k c H Hin).
Qed.

Lemma lw_sd_clean (PW : scalar -> bool) b s : lw PW b (Dict (sd_data s)) = true -> lw PW b (Dict (sd_data (sd_clean s))) = true.
Proof.
  refine (sd_clean_Q (fun b t => lw PW b t) _ _ _ b s).
  - intros b0 k l. rewrite !lw_dict. apply forallb_adel.
  - intros b0 k c0 sub' l l0 _ _ Hl Hs. cbv beta in *. rewrite lw_dict in Hl. rewrite lw_dict. apply forallb_aset; [exact Hl|]. intros k'. cbn [snd]. exact Hs.
  - intros b0 k c l H Hin. rewrite lw_dict, forallb_forall in H. exact (H _ Hin).
Qed.

Lemma keys_okt_map_leaves g : forall t, keys_okt (NativeSpec.map_leaves g t) = keys_okt t.
Proof.
  induction t as [v|kvs IH|ts IH] using tree_ind'; [reflexivity| |].
  - rewrite TokProofs.map_leaves_dict, !keys_okt_dict. induction IH as [|[k c] kvs Hc _ IHk]; [reflexivity|].
    cbn [map forallb]. unfold TokProofs.mkv at 1 2. cbn [fst snd] in *. rewrite Hc, IHk. reflexivity.
  - rewrite TokProofs.map_leaves_lst, !keys_okt_lst. induction IH as [|c l Hc _ IHl]; [reflexivity|]. cbn [map forallb]. rewrite Hc, IHl. reflexivity.
Qed.

(* ---- _insert_string_literals ------------------------------------------------------------------------ *)
Definition lits_ok (tab : list (N * str)) : bool := forallb (fun e => negb (PWs (pv (snd e)))) tab.

Lemma lits_ok_Forall tab : lits_ok tab = true -> Forall (fun e => PWs (pv (snd e)) = false) tab.
Proof. unfold lits_ok. rewrite forallb_forall, Forall_forall. intros H e He. apply negb_true_iff. exact (H e He). Qed.

Lemma lits_ok_R tab : lits_ok (rtab R (shift d) tab) = lits_ok tab.
Proof.
  unfold lits_ok. induction tab as [|[k s] tab IH]; [reflexivity|]. rewrite rtab_cons. cbn [forallb snd]. rewrite pv_R, PWs_R, IH. reflexivity.
Qed.

Lemma insert_string_literals_R tab data :
  wf (Dict data) = true -> lw PWs 11 (Dict data) = true -> lits_ok tab = true -> Forall idok tab ->
  insert_string_literals tab data = Ok (TreeSpec.kvs_of (NativeSpec.map_leaves (Gfun tab) (Dict data))) /\
  insert_string_literals (rtab R (shift d) tab) (RKV data) = Ok (RKV (TreeSpec.kvs_of (NativeSpec.map_leaves (Gfun tab) (Dict data)))).
Proof.
  intros Hwf Hlw Hl Hid. split; [apply insert_all; [exact Hwf|exact Hlw|apply lits_ok_Forall; exact Hl]|].
  rewrite insert_all.
  - f_equal. rewrite <- Rt_dict. rewrite <- (map_leaves_R (Gfun tab) (Gfun (rtab R (shift d) tab))) by (intros x; apply Gfun_R; exact Hid).
    rewrite TokProofs.map_leaves_dict, Rt_dict. reflexivity.
  - rewrite <- Rt_dict, wf_R. exact Hwf.
  - rewrite <- Rt_dict, (lw_R PWs PWs_R). exact Hlw.
  - apply lits_ok_Forall. rewrite lits_ok_R. exact Hl.
Qed.

End Insert.
