(* Proofs for C05 (expressions), indexed references: the lemmas of TextProofs.v (references found in the text of an
   expression, textual substitution = update of the environment) for reference names that may carry index brackets,
   e.g. the name  l[1]  of the reference  $l[1] . *)
From Coq Require Import String NArith ZArith List Bool Lia.
From DictIO Require Import Chars Str Value Scalar KeyPath SDict Layout Lexer TokParser Reader Expr Eval MiscSpec EvalSpec FlatSpec
     IndexSpec ScalarProofs SemProofs TextProofs.
From Coq Require Import ZifyBool ZifyN ZifyNat.
Import ListNotations.
Open Scope N_scope.

(* ================================================================================================ *)
(* reference names                                                                                  *)
(* ================================================================================================ *)
Lemma word_not_brackets c : is_word c = true -> (c =? c_lbrk) = false /\ (c =? c_rbrk) = false.
Proof. unfold is_word. intros H. split; chars. Qed.

Lemma brk_words : forall y b, Forall (fun c => is_word c = true) y -> brk b y = negb b.
Proof.
  induction y as [|c y IH]; intros b H; [reflexivity|]. inversion H as [|? ? Hc Hy]; subst.
  cbn [brk]. destruct (word_not_brackets c Hc) as [E1 E2]. rewrite E1, E2. apply IH. exact Hy.
Qed.

Lemma word_rname : forall y, word_name y -> rname y.
Proof.
  intros y [Hne Hw]. split; [|split].
  - destruct y as [|w t]; [contradiction|]. inversion Hw; subst. eauto.
  - eapply Forall_impl; [|exact Hw]. intros c Hc. apply word_ref_char. exact Hc.
  - rewrite (brk_words y false Hw). reflexivity.
Qed.

Lemma brk_app : forall x s b, brk b (x ++ s) = true -> brk b x = true -> brk false s = true.
Proof.
  induction x as [|c x IH]; intros s b H Hx.
  - cbn [brk] in Hx. destruct b; [discriminate|]. exact H.
  - cbn [app brk] in *. destruct (c =? c_lbrk).
    + destruct b; [discriminate|]. apply (IH s true H Hx).
    + destruct (c =? c_rbrk).
      * destruct b; [|discriminate]. apply (IH s false H Hx).
      * apply (IH s b H Hx).
Qed.

(* a name that continues another one does not continue with a closing bracket *)
Lemma rname_next : forall x c m, brk false x = true -> brk false (x ++ c :: m) = true -> c <> c_rbrk.
Proof.
  intros x c m Hx H E. subst c. pose proof (brk_app x (c_rbrk :: m) false H Hx) as H1.
  cbn [brk] in H1. rewrite N.eqb_refl in H1.
  assert (E : (c_rbrk =? c_lbrk) = false) by reflexivity. rewrite E in H1. discriminate.
Qed.

Lemma refch_nodollar c : is_ref_char c = true -> (c_dollar =? c) = false.
Proof. unfold is_ref_char, is_word. intros H. chars. Qed.

Lemma refs_nodollar s : Forall (fun c => is_ref_char c = true) s -> nodollar s.
Proof. intros H. eapply Forall_impl; [|exact H]. intros c Hc. apply refch_nodollar. exact Hc. Qed.

(* ================================================================================================ *)
(* subst_token                                                                                      *)
(* ================================================================================================ *)
Lemma rsub_hit x val post : hd_not is_ref_char post ->
  sub (ref_of x) val (ref_of x ++ post) = val ++ sub (ref_of x) val post.
Proof.
  intros Hp. unfold sub at 1.
  remember (ref_of x) as r eqn:Er.
  assert (Hc : exists c e', r ++ post = c :: e') by (subst r; unfold ref_of; cbn [app]; eauto).
  destruct Hc as [c [e' He]].
  cbn [subst_token]. rewrite He. rewrite <- He.
  rewrite starts_with_app, drop_n_app.
  assert (Hn : negb (match post with d :: _ => is_word d || (d =? c_lbrk) | [] => false end) = true).
  { destruct post as [|d post']; [reflexivity|]. cbn [hd_not] in Hp. apply not_ref_not_word in Hp.
    destruct Hp as [H1 H2]. rewrite H1. apply N.eqb_neq in H2. rewrite H2. reflexivity. }
  rewrite Hn. cbn [andb]. f_equal. apply sub_eq; [subst r; unfold ref_of; discriminate|].
  rewrite app_length. subst r. unfold ref_of. cbn [length]. lia.
Qed.

Lemma starts_with_split' : forall p s : str, starts_with p s = true -> exists post, s = p ++ post.
Proof.
  induction p as [|x p IH]; intros s H; [exists s; reflexivity|].
  destruct s as [|y s]; cbn [starts_with] in H; [discriminate|]. apply andb_true_iff in H. destruct H as [H1 H2].
  apply N.eqb_eq in H1. subst y. destruct (IH s H2) as [post E]. exists post. rewrite E. reflexivity.
Qed.

Lemma app_eq_split : forall (y post x r : str), y ++ post = x ++ r ->
  (exists m, y = x ++ m /\ r = m ++ post) \/ (exists c m, x = y ++ c :: m /\ post = c :: m ++ r).
Proof.
  induction y as [|a y IH]; intros post x r H.
  - cbn [app] in H. destruct x as [|c m].
    + left. exists []. cbn [app] in *. split; [reflexivity | symmetry; exact H].
    + right. exists c, m. split; [reflexivity | exact H].
  - destruct x as [|b x].
    + left. exists (a :: y). split; [reflexivity | symmetry; exact H].
    + cbn [app] in H. inversion H as [[E1 E2]]. subst b.
      destruct (IH post x r E2) as [[m [Hy Hr]]|[c [m [Hx Hp]]]].
      * left. exists m. split; [rewrite Hy; reflexivity | exact Hr].
      * right. exists c, m. split; [rewrite Hx; reflexivity | exact Hp].
Qed.

(* at another reference: either the name does not match, or it goes on with a word character / an opening bracket *)
Lemma rmiss_cond : forall x y post,
  Forall (fun c => is_ref_char c = true) x -> Forall (fun c => is_ref_char c = true) y ->
  brk false x = true -> brk false y = true -> y <> x ->
  hd_not is_ref_char post ->
  starts_with x (y ++ post) &&
  negb (match drop_n (length x) (y ++ post) with d :: _ => is_word d || (d =? c_lbrk) | [] => false end) = false.
Proof.
  intros x y post Hx Hy Bx By Hne Hp.
  destruct (starts_with x (y ++ post)) eqn:Es; [|reflexivity]. cbn [andb].
  destruct (starts_with_split' x (y ++ post) Es) as [r Er].
  destruct (app_eq_split y post x r Er) as [[m [Ey Erm]]|[c [m [Ex Epost]]]].
  - destruct m as [|c m]; [exfalso; apply Hne; rewrite Ey; apply app_nil_r|].
    rewrite Er, drop_n_app, Erm. cbn [app].
    assert (Hc : is_ref_char c = true).
    { rewrite Forall_forall in Hy. apply Hy. rewrite Ey. apply in_or_app. right. left. reflexivity. }
    assert (Hr : c <> c_rbrk) by (apply (rname_next x c m Bx); rewrite <- Ey; exact By).
    unfold is_ref_char in Hc. apply N.eqb_neq in Hr. rewrite Hr, orb_false_r in Hc. rewrite Hc. reflexivity.
  - exfalso. rewrite Epost in Hp. cbn [hd_not] in Hp.
    assert (Hc : is_ref_char c = true).
    { rewrite Forall_forall in Hx. apply Hx. rewrite Ex. apply in_or_app. right. left. reflexivity. }
    congruence.
Qed.

Lemma rsub_miss x y val post : rname x -> rname y -> y <> x -> hd_not is_ref_char post ->
  sub (ref_of x) val (ref_of y ++ post) = ref_of y ++ sub (ref_of x) val post.
Proof.
  intros [_ [Hx Bx]] [_ [Hy By]] Hne Hp. unfold ref_of. cbn [app]. unfold sub at 1. cbn [length].
  rewrite subst_token_S. cbn [starts_with length drop_n]. rewrite N.eqb_refl. cbn [andb].
  match goal with |- (if ?b then _ else _) = _ =>
    assert (Hb : b = false) by (apply rmiss_cond; assumption); rewrite Hb end.
  f_equal. rewrite sub_eq; [|discriminate|lia].
  apply sub_nodollar_app. apply refs_nodollar. exact Hy.
Qed.

(* ================================================================================================ *)
(* substitution = update of the environment                                                         *)
(* ================================================================================================ *)
Lemma rsub_layout g rho x v : blank_fn g -> rname x -> forall ts i,
  adj ts = true -> Forall rname (tvars ts) ->
  sub (ref_of x) (Z_to_dec v) (layout g rho i ts) = layout g (updN rho x v) i ts.
Proof.
  intros Hg Hx. induction ts as [|t ts IH]; intros i Ha Hw.
  - cbn [layout]. unfold ref_of. apply sub_nodollar. apply plain_nodollar. apply plain_blank. exact Hg.
  - cbn [layout]. pose proof (plain_nodollar _ (plain_blank g i Hg)) as Hgi.
    unfold ref_of at 1. rewrite (sub_nodollar_app x (Z_to_dec v) (g i) _ Hgi). f_equal.
    change (c_dollar :: x) with (ref_of x).
    specialize (IH (S i) (adj_tail _ _ Ha) (tvars_cons_Forall _ _ _ Hw)).
    destruct (unres rho t) eqn:Hu.
    + destruct (unres_true rho t Hu) as (y & -> & Hy).
      assert (Hpost : hd_not is_ref_char (layout g rho (S i) ts)).
      { apply tx_layout_hd; [exact Hg|]. apply (adj_atom_next _ _ Ha). reflexivity. }
      assert (Hwy : rname y) by (cbn [tvars] in Hw; inversion Hw; assumption).
      cbn [dtext]. rewrite Hy. change (c_dollar :: y) with (ref_of y).
      destruct (str_eqb y x) eqn:E.
      * apply str_eqb_eq in E. subst y. rewrite (rsub_hit x (Z_to_dec v) _ Hpost). rewrite IH.
        rewrite (updN_same rho x v Hy). reflexivity.
      * assert (Hne : y <> x) by (apply str_eqb_neq; exact E).
        rewrite (rsub_miss x y (Z_to_dec v) _ Hx Hwy Hne Hpost). rewrite IH.
        rewrite (updN_other rho x v y E), Hy. reflexivity.
    + rewrite (dtext_updN rho x v t Hu).
      pose proof (plain_nodollar _ (unres_false_plain rho t Hu)) as Hd.
      unfold ref_of at 1. rewrite (sub_nodollar_app x (Z_to_dec v) _ _ Hd). f_equal. exact IH.
Qed.

Lemma rsubst_render_gen : forall rho g a x v fuel, blank_fn g -> Forall rname (avars a) -> rname x ->
  (length (render_in rho g a) < fuel)%nat ->
  subst_token fuel (ref_of x) (Z_to_dec v) (render_in rho g a) = render_in (updN rho x v) g a.
Proof.
  intros rho g a x v fuel Hg Ha Hx Hl.
  rewrite sub_eq; [|unfold ref_of; discriminate|exact Hl].
  unfold render_in. apply rsub_layout; [exact Hg|exact Hx|apply tx_adj_dtoks|rewrite tvars_dtoks; exact Ha].
Qed.

(* ================================================================================================ *)
(* the references found in the text                                                                 *)
(* ================================================================================================ *)
Lemma rfr_hit y post : rname y -> hd_not is_ref_char post -> fr (ref_of y ++ post) = Some (ref_of y, post).
Proof.
  intros [[w [y' [-> Hw1]]] [Hw _]] Hp. inversion Hw as [|? ? _ Hw2]; subst.
  unfold fr, ref_of. cbn [app]. rewrite find_reference_eq. rewrite N.eqb_refl, Hw1. cbn [andb].
  assert (Hs : span is_ref_char (y' ++ post) = (y', post)) by (apply span_app; assumption).
  rewrite Hs. reflexivity.
Qed.

Lemma rrefs_layout g rho : blank_fn g -> forall ts i fuel,
  adj ts = true -> Forall rname (tvars ts) -> (length (layout g rho i ts) < fuel)%nat ->
  find_refs fuel (layout g rho i ts) = map ref_of (filter (TextProofs.unknown rho) (tvars ts)).
Proof.
  intros Hg. induction ts as [|t ts IH]; intros i fuel Ha Hw Hl.
  - cbn [layout tvars filter map]. apply find_refs_nodollar. apply plain_nodollar. apply plain_blank. exact Hg.
  - cbn [layout] in *. pose proof (plain_nodollar _ (plain_blank g i Hg)) as Hgi.
    rewrite (find_refs_nodollar_app fuel (g i) _ Hgi).
    rewrite !app_length in Hl.
    pose proof (adj_tail _ _ Ha) as Ha'. pose proof (tvars_cons_Forall _ _ _ Hw) as Hw'.
    destruct (unres rho t) eqn:Hu.
    + destruct (unres_true rho t Hu) as (y & -> & Hy).
      assert (Hpost : hd_not is_ref_char (layout g rho (S i) ts)).
      { apply tx_layout_hd; [exact Hg|]. apply (adj_atom_next _ _ Ha). reflexivity. }
      assert (Hwy : rname y) by (cbn [tvars] in Hw; inversion Hw; assumption).
      cbn [dtext] in *. rewrite Hy in *. change (c_dollar :: y) with (ref_of y).
      destruct fuel as [|f]; [lia|]. rewrite find_refs_S. rewrite (rfr_hit y _ Hwy Hpost).
      cbn [tvars filter]. unfold TextProofs.unknown at 1. rewrite Hy. cbn [is_some negb map]. f_equal.
      apply IH; [exact Ha'|exact Hw'|]. cbn [length] in Hl. lia.
    + pose proof (plain_nodollar _ (unres_false_plain rho t Hu)) as Hd.
      rewrite (find_refs_nodollar_app fuel _ _ Hd).
      destruct (unres_false_known rho t ts Hu) as [Hf _]. unfold TextProofs.unknown. rewrite Hf.
      apply IH; [exact Ha'|exact Hw'|lia].
Qed.

Lemma rrefs_render : forall rho g a, blank_fn g -> Forall rname (avars a) ->
  expr_refs_of (render_in rho g a) = map ref_of (filter (fun y => negb (is_some (rho y))) (avars a)).
Proof.
  intros rho g a Hg Ha. unfold expr_refs_of, render_in.
  rewrite (rrefs_layout g rho Hg (dtoks a) 0%nat); [|apply tx_adj_dtoks|rewrite tvars_dtoks; exact Ha|lia].
  rewrite tvars_dtoks. reflexivity.
Qed.

(* ================================================================================================ *)
(* the substitution pass                                                                            *)
(* ================================================================================================ *)
Lemma rsubst_fold res r g a : blank_fn g -> Forall rname (avars a) -> forall l rho,
  Forall rname l ->
  (forall y, In y l -> rlookup (ref_of y) res = option_map (fun v => Leaf (SInt v)) (r y)) ->
  fold_left (fun acc q =>
               match rlookup q res with
               | Some t => subst_token (S (length acc)) q (py_str_tree t) acc
               | None => acc
               end) (map ref_of l) (render_in rho g a)
  = render_in (fold_left (env_step r) l rho) g a.
Proof.
  intros Hg Ha. induction l as [|y l IH]; intros rho Hl Hres; [reflexivity|].
  inversion Hl as [|? ? Hy Hl']; subst.
  cbn [map fold_left]. rewrite (Hres y (or_introl eq_refl)).
  assert (Hres' : forall z, In z l -> rlookup (ref_of z) res = option_map (fun v => Leaf (SInt v)) (r z)).
  { intros z Hz. apply Hres. right. exact Hz. }
  unfold env_step at 2. destruct (r y) as [v|]; cbn [option_map].
  - change (py_str_tree (Leaf (SInt v))) with (Z_to_dec v).
    rewrite (rsubst_render_gen rho g a y v _ Hg Ha Hy); [|lia].
    apply IH; assumption.
  - apply IH; assumption.
Qed.

Lemma rsubstitute_render : forall res rho r g a, blank_fn g -> Forall rname (avars a) ->
  (forall y, In y (avars a) -> rho y = None -> rlookup (ref_of y) res = option_map (fun v => Leaf (SInt v)) (r y)) ->
  substitute res (render_in rho g a) = render_in (join_env rho r) g a.
Proof.
  intros res rho r g a Hg Ha Hres. unfold substitute. rewrite (rrefs_render rho g a Hg Ha).
  set (l := filter (fun y => negb (is_some (rho y))) (avars a)).
  assert (Hin : forall y, In y l -> In y (avars a) /\ rho y = None).
  { intros y Hy. apply filter_In in Hy. destruct Hy as [Hy1 Hy2]. split; [exact Hy1|].
    destruct (rho y); [discriminate|reflexivity]. }
  rewrite (rsubst_fold res r g a Hg Ha l rho).
  - apply render_ext. intros z Hz. rewrite env_fold_val. unfold join_env.
    destruct (rho z) as [w|] eqn:Hr; [reflexivity|].
    assert (Hz' : In z l).
    { apply filter_In. split; [exact Hz|]. rewrite Hr. reflexivity. }
    assert (He : existsb (str_eqb z) l = true).
    { apply existsb_exists. exists z. split; [exact Hz'|apply str_eqb_refl]. }
    rewrite He. reflexivity.
  - apply Forall_forall. intros y Hy. rewrite Forall_forall in Ha. apply Ha. apply (Hin y Hy).
  - intros y Hy. destruct (Hin y Hy) as [H1 H2]. apply Hres; assumption.
Qed.

(* ================================================================================================ *)
(* a bare reference: the text is the reference itself                                               *)
(* ================================================================================================ *)
Lemma render_bare : forall rho y, render_in rho g_tight (AVar y) = match rho y with Some z => Z_to_dec z | None => ref_of y end.
Proof. intros rho y. unfold render_in. cbn [dtoks layout dtext g_tight app]. rewrite app_nil_r. reflexivity. Qed.

Lemma refch_not_space c : is_ref_char c = true -> is_space c = false.
Proof. unfold is_ref_char, is_word, is_space, is_uni_space. intros H. chars. Qed.

Lemma lstrip_hd : forall c s, is_space c = false -> lstrip (c :: s) = c :: s.
Proof. intros c s H. cbn [lstrip]. rewrite H. reflexivity. Qed.

Lemma rstrip_last : forall s c, is_space c = false -> rstrip (s ++ [c]) = s ++ [c].
Proof.
  intros s c H. unfold rstrip. rewrite rev_app_distr. cbn [rev app]. rewrite (lstrip_hd c _ H).
  change (c :: rev s) with ([c] ++ rev s). rewrite rev_app_distr, rev_involutive. reflexivity.
Qed.

Lemma strip_nospace : forall l : str, (forall c, In c l -> is_space c = false) -> strip l = l.
Proof.
  intros l H. unfold strip. destruct l as [|a l]; [reflexivity|].
  cbn [lstrip]. rewrite (H a (or_introl eq_refl)).
  destruct (exists_last (l := a :: l)) as [s [c Es]]; [discriminate|].
  rewrite Es. apply rstrip_last. apply H. rewrite Es. apply in_or_app. right. left. reflexivity.
Qed.

Lemma strip_ref : forall y, rname y -> strip (ref_of y) = ref_of y.
Proof.
  intros y [_ [Hr _]]. apply strip_nospace. intros c [Hc|Hc]; [subst c; reflexivity|].
  apply refch_not_space. rewrite Forall_forall in Hr. apply Hr. exact Hc.
Qed.

Lemma blank_space c : is_blank c = true -> is_space c = true.
Proof. unfold is_blank, is_space, is_uni_space. intros H. chars. Qed.

Lemma lstrip_blanks : forall b s, Forall (fun c => is_blank c = true) b -> lstrip (b ++ s) = lstrip s.
Proof.
  induction b as [|c b IH]; intros s H; [reflexivity|]. inversion H as [|? ? Hc Hb]; subst.
  cbn [app lstrip]. rewrite (blank_space c Hc). apply IH. exact Hb.
Qed.

(* blanks around a text without white space at its ends are stripped *)
Lemma strip_blanks : forall b1 b2 s, Forall (fun c => is_blank c = true) b1 -> Forall (fun c => is_blank c = true) b2 ->
  (forall c, In c s -> is_space c = false) -> strip (b1 ++ s ++ b2) = s.
Proof.
  intros b1 b2 s H1 H2 Hs. destruct s as [|a s].
  - cbn [app]. unfold strip. rewrite (lstrip_blanks b1 b2 H1).
    assert (E : lstrip b2 = []).
    { rewrite <- (app_nil_r b2). rewrite (lstrip_blanks b2 [] H2). reflexivity. }
    rewrite E. reflexivity.
  - pose proof (strip_nospace (a :: s) Hs) as Hst. unfold strip in *. rewrite (lstrip_blanks b1 _ H1).
    cbn [app lstrip] in *. rewrite (Hs a (or_introl eq_refl)) in *.
    unfold rstrip in *. change (a :: s ++ b2) with ((a :: s) ++ b2). rewrite rev_app_distr.
    rewrite (lstrip_blanks (rev b2) _ (Forall_rev H2)). exact Hst.
Qed.

Lemma render_var : forall rho g y,
  render_in rho g (AVar y) = g 0%nat ++ (match rho y with Some z => Z_to_dec z | None => ref_of y end) ++ g 1%nat.
Proof. intros rho g y. unfold render_in. cbn [dtoks layout dtext]. destruct (rho y); reflexivity. Qed.

Lemma strip_bare : forall g y, blank_fn g -> rname y -> strip (g 0%nat ++ ref_of y ++ g 1%nat) = ref_of y.
Proof.
  intros g y Hg [_ [Hr _]]. apply strip_blanks; [apply blank_Forall; exact Hg | apply blank_Forall; exact Hg|].
  intros c [Hc|Hc]; [subst c; reflexivity|]. apply refch_not_space. rewrite Forall_forall in Hr. apply Hr. exact Hc.
Qed.

(* with a blank it is no plain reference *)
Lemma bare_blank_not_plain : forall g y, blank_fn g -> (g 0%nat <> [] \/ g 1%nat <> []) ->
  is_plain_reference (g 0%nat ++ ref_of y ++ g 1%nat) = false.
Proof.
  intros g y Hg Hne. destruct (is_plain_reference (g 0%nat ++ ref_of y ++ g 1%nat)) eqn:E; [|reflexivity]. exfalso.
  assert (Hc : exists c, In c (g 0%nat ++ ref_of y ++ g 1%nat) /\ is_blank c = true).
  { destruct Hne as [H|H].
    - destruct (g 0%nat) as [|c r] eqn:E0; [contradiction H; reflexivity|]. exists c. split; [left; reflexivity|].
      pose proof (blank_Forall g 0%nat Hg) as Hb. rewrite E0 in Hb. inversion Hb; assumption.
    - destruct (g 1%nat) as [|c r] eqn:E1; [contradiction H; reflexivity|]. exists c. split.
      + apply in_or_app. right. apply in_or_app. right. left. reflexivity.
      + pose proof (blank_Forall g 1%nat Hg) as Hb. rewrite E1 in Hb. inversion Hb; assumption. }
  destruct Hc as [c [Hin Hb]]. destruct (plain_ref_chars _ E c Hin) as [H|H].
  - subst c. discriminate Hb.
  - rewrite (blank_not_ref c Hb) in H. discriminate H.
Qed.

Lemma plain_ref_of : forall y, rname y -> is_plain_reference (ref_of y) = true.
Proof.
  intros y [[w [t [-> Hw]]] [Hr _]]. unfold is_plain_reference, ref_of. rewrite find_reference_eq.
  rewrite N.eqb_refl, Hw. cbn [andb]. inversion Hr as [|? ? _ Ht]; subst.
  assert (Hs : span is_ref_char (t ++ []) = (t, [])) by (apply span_app; [exact Ht | exact I]).
  rewrite app_nil_r in Hs. rewrite Hs. reflexivity.
Qed.

Print Assumptions rsubstitute_render.
Print Assumptions rrefs_render.
