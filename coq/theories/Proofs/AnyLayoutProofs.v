(* C02, arbitrary layouts, part 2: from the formatter's text to EVERY rendering of the document's token list.
   A layout of a document is a rendering (LayoutSpec) of its token list: the tokens in order, separated by arbitrary
   white space runs that may be empty next to a delimiter.  Quoted leaves are tokens with blanks and delimiters in
   them, so the token list is kept with one-character HOLE tokens at their places (toks_tree lfa FK) and [fillT]
   puts a spelling of each literal - single or double quotes, chosen per occurrence - into the holes.  A rendering of
   the filled list is a character-level text with holes (E2EHoles.expandL) filled with the same spellings, whose
   abstract text is a rendering of the hole list; AnyLayoutLex.lex_filled_gen then gives the lexer's output, the
   rest of the pipeline is that of E2EFullProofs. *)
From Coq Require Import String.
From Coq Require Import NArith ZArith List Bool Lia ZifyBool ZifyN ZifyNat.
From DictIO Require Import Chars Str Value Scalar KeyPath SDict Layout Lexer TokParser TreeSpec NativeSpec LayoutSpec E2ESpec.
From DictIO Require ScalarProofs SDictProofs TokProofs LayoutProofs SemProofs QuoteProofs KeyPathProofs.
From DictIO Require Import E2EProofs E2EHoles E2EInsert E2EKeyTok E2EFullProofs AnyLayoutLex.
Import ListNotations.
Import LayoutProofs.
Open Scope N_scope.

(* ================================================================================================ *)
(* 1. renderings: characters, visible characters, inversion                                         *)
(* ================================================================================================ *)

Lemma rendering_nil_inv (txt : list N) : rendering [] txt -> txt = [].
Proof. intros H. inversion H. reflexivity. Qed.
Lemma rendering_one_inv x (txt : list N) : rendering [x] txt -> txt = x.
Proof. intros H. inversion H. reflexivity. Qed.
Lemma rendering_cons_inv x y l (txt : list N) : rendering (x :: y :: l) txt ->
  exists w txt', txt = x ++ w ++ txt' /\ rendering (y :: l) txt' /\ ws_run w /\ (w <> [] \/ delim_lexeme x \/ delim_lexeme y).
Proof. intros H. inversion H; subst. eexists. eexists. repeat split; eassumption. Qed.

Lemma ws_forallb (p : N -> bool) (w : list N) : (forall c, is_space c = true -> p c = true) -> ws_run w -> forallb p w = true.
Proof. intros Hp. induction 1 as [|c w Hc _ IH]; [reflexivity|]. cbn [forallb]. rewrite (Hp c Hc), IH. reflexivity. Qed.

Lemma rendering_chars (p : N -> bool) ls (txt : list N) : rendering ls txt ->
  Forall (fun x => forallb p x = true) ls -> (forall c, is_space c = true -> p c = true) -> forallb p txt = true.
Proof.
  intros R. induction R as [|x|x y l w txt R IH Hw Hsep]; intros HL Hp.
  - reflexivity.
  - inversion HL; assumption.
  - inversion HL as [|x' l' Hx HL']; subst. rewrite !forallb_app, Hx, (ws_forallb p w Hp Hw), (IH HL' Hp). reflexivity.
Qed.

Definition nospace (x : list N) : Prop := filter nsp x = x.

Lemma fl_ws (w : list N) : ws_run w -> filter nsp w = [].
Proof. induction 1 as [|c w Hc _ IH]; [reflexivity|]. cbn [filter]. unfold nsp at 1. rewrite Hc. exact IH. Qed.

Lemma lexeme_nospace x : lexeme x -> nospace x.
Proof.
  unfold nospace. intros [(d & -> & Hd)|[_ Hx]].
  - cbn [filter]. unfold nsp. rewrite (delim_not_space d Hd). reflexivity.
  - induction Hx as [|c x [Hc _] _ IH]; [reflexivity|]. cbn [filter]. unfold nsp at 1. rewrite Hc. cbn [negb]. rewrite IH. reflexivity.
Qed.

Lemma rendering_filter ls (txt : list N) : rendering ls txt -> Forall nospace ls -> filter nsp txt = concat ls.
Proof.
  intros R. induction R as [|x|x y l w txt R IH Hw Hsep]; intros HL.
  - reflexivity.
  - inversion HL as [|x' l' Hx _]; subst. cbn [concat]. rewrite app_nil_r. exact Hx.
  - inversion HL as [|x' l' Hx HL']; subst. rewrite !filter_app, Hx, (fl_ws w Hw), (IH HL'). reflexivity.
Qed.

(* ================================================================================================ *)
(* 2. filling the holes of a token list                                                             *)
(* ================================================================================================ *)

Definition fill1 (fs : list str) (x : str) : str * list str :=
  if str_eqb x [HOLE] then match fs with f :: fs' => (f, fs') | [] => (x, []) end else (x, fs).
Fixpoint fillT (fs : list str) (hl : list str) : list str :=
  match hl with [] => [] | x :: hl' => fst (fill1 fs x) :: fillT (snd (fill1 fs x)) hl' end.
(* a token of a hole list: the hole itself or a hole-free string *)
Definition htok (x : str) : Prop := x = [HOLE] \/ has_char HOLE x = false.

Lemma nohole_not_holetok (x : list N) : has_char HOLE x = false -> str_eqb x [HOLE] = false.
Proof.
  destruct x as [|c r]; intros H; [reflexivity|]. rewrite has_char_cons in H. apply orb_false_iff in H.
  destruct H as [H _]. rewrite N.eqb_sym in H. cbn [str_eqb]. rewrite H. reflexivity.
Qed.

Lemma fill1_expand fs x (R : list N) : htok x ->
  expandL fs (x ++ R) = fst (fill1 fs x) ++ expandL (snd (fill1 fs x)) R.
Proof.
  intros [-> | H]; unfold fill1.
  - change (str_eqb [HOLE] [HOLE]) with true. cbv iota. destruct fs as [|f fs]; cbn [fst snd].
    + change ([HOLE] ++ R) with (HOLE :: R). cbn [expandL]. rewrite N.eqb_refl. reflexivity.
    + change ([HOLE] ++ R) with (HOLE :: R). apply expandL_hole.
  - rewrite (nohole_not_holetok x H). cbn [fst snd]. apply expandL_plain. exact H.
Qed.

Lemma fill1_expand0 fs x : htok x -> expandL fs x = fst (fill1 fs x).
Proof.
  intros H. pose proof (fill1_expand fs x [] H) as E. rewrite app_nil_r in E. rewrite E.
  destruct (snd (fill1 fs x)); cbn [expandL]; apply app_nil_r.
Qed.

Lemma fill1_snd_Forall (P : str -> Prop) fs x : Forall P fs -> Forall P (snd (fill1 fs x)).
Proof.
  intros H. unfold fill1. destruct (str_eqb x [HOLE]); [|exact H]. destruct fs as [|f fs]; cbn [snd]; [constructor|].
  inversion H; assumption.
Qed.

Lemma fill1_delim_bwd fs x : Forall (fun f => ~ delim_lexeme f) fs -> delim_lexeme (fst (fill1 fs x)) -> delim_lexeme x.
Proof.
  intros Hf. unfold fill1. destruct (str_eqb x [HOLE]); [|cbn [fst]; auto]. destruct fs as [|f fs]; cbn [fst]; [auto|].
  intros Hd. inversion Hf as [|f' fs' Hnf _]; subst. contradiction.
Qed.

Lemma fill1_delim_fwd fs x : delim_lexeme x -> delim_lexeme (fst (fill1 fs x)).
Proof.
  intros (d & -> & Hd). unfold fill1. cbn [str_eqb]. rewrite (delim_nothole d Hd). cbn [andb fst].
  exists d. split; [reflexivity|exact Hd].
Qed.

(* a rendering of the filled token list is the filled rendering of the hole list ... *)
Lemma render_fill_bwd : forall hl fs (txt : list N),
  Forall htok hl -> Forall (fun f => ~ delim_lexeme f) fs -> rendering (fillT fs hl) txt ->
  exists A, rendering hl A /\ txt = expandL fs A.
Proof.
  induction hl as [|x hl IH]; intros fs txt Hh Hf R.
  - cbn [fillT] in R. apply rendering_nil_inv in R. subst. exists []. split; [constructor|reflexivity].
  - inversion Hh as [|x' hl' Hx Hh']; subst.
    destruct hl as [|y hl'].
    + cbn [fillT] in R. apply rendering_one_inv in R. subst. exists x. split; [constructor|].
      symmetry. apply fill1_expand0. exact Hx.
    + cbn [fillT] in R. apply rendering_cons_inv in R. destruct R as (w & txt' & -> & R' & Hw & Hgap).
      destruct (IH (snd (fill1 fs x)) txt' Hh' (fill1_snd_Forall _ fs x Hf) R') as (A' & RA & ->).
      exists (x ++ w ++ A'). split.
      * apply r_cons; [exact RA|exact Hw|].
        inversion Hh' as [|y' hl'' Hy _]; subst.
        destruct Hgap as [Hg|[Hg|Hg]]; [left; exact Hg|right; left|right; right].
        -- exact (fill1_delim_bwd fs x Hf Hg).
        -- exact (fill1_delim_bwd _ y (fill1_snd_Forall _ fs x Hf) Hg).
      * rewrite (fill1_expand fs x _ Hx). f_equal. symmetry. apply expandL_plain. apply ws_nohole. exact Hw.
Qed.

(* ... and conversely *)
Lemma render_fill_fwd : forall hl (A : list N), rendering hl A -> forall gs, Forall htok hl ->
  rendering (fillT gs hl) (expandL gs A).
Proof.
  intros hl A R. induction R as [|x|x y l w txt R IH Hw Hsep]; intros gs Hh.
  - constructor.
  - inversion Hh as [|x' l' Hx _]; subst. cbn [fillT]. rewrite (fill1_expand0 gs x Hx). constructor.
  - inversion Hh as [|x' l' Hx Hh']; subst.
    rewrite (fill1_expand gs x _ Hx), (expandL_plain _ w txt (ws_nohole w Hw)).
    specialize (IH (snd (fill1 gs x)) Hh'). cbn [fillT] in IH |- *.
    apply r_cons; [exact IH|exact Hw|].
    destruct Hsep as [Hg|[Hg|Hg]]; [left; exact Hg|right; left|right; right]; apply fill1_delim_fwd; exact Hg.
Qed.

Lemma fillT_Forall (P : str -> Prop) : forall hl fs, Forall P hl -> Forall P fs -> Forall P (fillT fs hl).
Proof.
  induction hl as [|x hl IH]; intros fs Hh Hf; [constructor|]. inversion Hh as [|x' hl' Hx Hh']; subst.
  cbn [fillT]. constructor.
  - unfold fill1. destruct (str_eqb x [HOLE]); [|exact Hx]. destruct fs as [|f fs]; cbn [fst]; [exact Hx|].
    inversion Hf; assumption.
  - apply IH; [exact Hh'|apply fill1_snd_Forall; exact Hf].
Qed.

Lemma fillT_nil_nohole : forall hl, Forall (fun x => has_char HOLE x = false) hl -> forall fs, fillT fs hl = hl.
Proof.
  induction hl as [|x hl IH]; intros Hh fs; [reflexivity|]. inversion Hh as [|x' hl' Hx Hh']; subst.
  cbn [fillT]. unfold fill1. rewrite (nohole_not_holetok x Hx). cbn [fst snd]. rewrite (IH Hh' fs). reflexivity.
Qed.

(* ================================================================================================ *)
(* 3. the tokens of a tree                                                                          *)
(* ================================================================================================ *)

Lemma entries_cons' lt kt kc kvs : TokProofs.entries lt kt (kc :: kvs) = TokProofs.entry_toks lt kt kc ++ TokProofs.entries lt kt kvs.
Proof. reflexivity. Qed.
Lemma items_cons' lt kt c l : TokProofs.items lt kt (c :: l) = toks_tree lt kt true c ++ TokProofs.items lt kt l.
Proof. reflexivity. Qed.

Section ToksForall.
  Variable P : str -> Prop.
  Variable lt : scalar -> str.
  Variable kt : key -> str.
  Variable okl : scalar -> bool.
  Hypothesis Hl : forall v, okl v = true -> P (lt v).
  Hypothesis Hk : forall k, simple_key k = true -> P (kt k).
  Hypothesis H1 : P t_lbrace. Hypothesis H2 : P t_rbrace. Hypothesis H3 : P t_lpar. Hypothesis H4 : P t_rpar.
  Hypothesis H5 : P t_semi.

  Lemma toks_Forall : forall t b, ktree okl t = true -> Forall P (toks_tree lt kt b t).
  Proof.
    induction t as [v|kvs IH|ts IH] using tree_ind'; intros b H.
    - cbn [toks_tree]. constructor; [apply Hl; exact H|constructor].
    - rewrite TokProofs.toks_dict. apply Forall_app. split; [destruct b; repeat constructor; assumption|].
      apply Forall_app. split; [|destruct b; repeat constructor; assumption].
      induction IH as [|[k c] kvs Hc _ IHk]; [constructor|].
      rewrite ktree_dict_cons in H. apply andb_true_iff in H. destruct H as [H H'']. apply andb_true_iff in H.
      destruct H as [Hk1 Hc1]. rewrite entries_cons'. apply Forall_app. split; [|exact (IHk H'')].
      cbn [snd] in Hc. unfold TokProofs.entry_toks. cbn [fst snd]. destruct c as [v|d|l].
      + cbn [ktree] in Hc1. repeat constructor; auto.
      + apply Forall_app. split; [repeat constructor; auto|]. apply Forall_app. split; [exact (Hc false Hc1)|repeat constructor; auto].
      + apply Forall_app. split; [repeat constructor; auto|]. apply Forall_app. split; [exact (Hc true Hc1)|repeat constructor; auto].
    - rewrite (TokProofs.toks_lst_b lt kt b), TokProofs.toks_lst. apply Forall_app. split; [repeat constructor; assumption|].
      apply Forall_app. split; [|repeat constructor; assumption].
      induction IH as [|c l Hc _ IHl]; [constructor|].
      rewrite ktree_lst_cons in H. apply andb_true_iff in H. destruct H as [Hc1 Hl1].
      rewrite items_cons'. apply Forall_app. split; [exact (Hc true Hc1)|exact (IHl Hl1)].
  Qed.
End ToksForall.

Lemma entries_head' lt kt k c kvs : exists rest, TokProofs.entries lt kt ((k, c) :: kvs) = kt k :: rest.
Proof. rewrite entries_cons'. unfold TokProofs.entry_toks. cbn [fst snd]. destruct c; cbn [app]; eexists; reflexivity. Qed.

Lemma entries_last' lt kt kvs : kvs <> [] ->
  exists pre d, TokProofs.entries lt kt kvs = pre ++ [[d]] /\ is_delim d = true.
Proof.
  intros Hne. destruct (exists_last Hne) as (l & [k c] & ->).
  unfold TokProofs.entries. rewrite flat_map_app. cbn [flat_map]. rewrite app_nil_r.
  unfold TokProofs.entry_toks. cbn [fst snd]. destruct c as [v|d|ts].
  - exists (flat_map (TokProofs.entry_toks lt kt) l ++ [kt k; lt v]), c_semi. split; [rewrite <- app_assoc; reflexivity|reflexivity].
  - exists (flat_map (TokProofs.entry_toks lt kt) l ++ [kt k; t_lbrace] ++ toks_tree lt kt false (Dict d)), c_rbrace.
    split; [rewrite <- !app_assoc; reflexivity|reflexivity].
  - exists (flat_map (TokProofs.entry_toks lt kt) l ++ [kt k] ++ toks_tree lt kt true (Lst ts)), c_semi.
    split; [rewrite <- !app_assoc; reflexivity|reflexivity].
Qed.

(* ---- the hole list of a writable tree -------------------------------------------------------------- *)
Notation hole_toks := (toks_tree lfa FK).

Lemma simple_tok_nohole s : simple_tok s = true -> has_char HOLE s = false.
Proof. intros H. apply tchars_nohole. apply simple_tok_tchars. exact H. Qed.

Lemma simple_tok_gachars s : simple_tok s = true -> forallb gachar s = true.
Proof.
  intros H. destruct (simple_tok_inv s H) as (_ & Hc & _). apply gchars_gachars. apply forallb_forall. intros c Hin.
  apply simple_gchar. exact (forallb_In _ _ _ Hc Hin).
Qed.

Lemma hole_word : word_lexeme [HOLE].
Proof. split; [discriminate|]. constructor; [split; reflexivity|constructor]. Qed.

Lemma delim_tok_lexeme d : is_delim d = true -> lexeme [d].
Proof. intros H. left. exists d. split; [reflexivity|exact H]. Qed.

Lemma hole_toks_htok t b : ktree writable_leaf t = true -> Forall htok (hole_toks b t).
Proof.
  apply (toks_Forall htok lfa FK writable_leaf); try (right; reflexivity).
  - intros v Hv. unfold lfa. destruct (simple_leaf v) eqn:E; [right; apply simple_tok_nohole; exact E|left; reflexivity].
  - intros k Hk. right. apply simple_tok_nohole. exact (proj1 (simple_key_inv k Hk)).
Qed.

Lemma hole_toks_lexeme t b : ktree writable_leaf t = true -> Forall lexeme (hole_toks b t).
Proof.
  apply (toks_Forall lexeme lfa FK writable_leaf); try (apply delim_tok_lexeme; reflexivity).
  - intros v Hv. right. unfold lfa. destruct (simple_leaf v) eqn:E; [apply simple_tok_word; exact E|exact hole_word].
  - intros k Hk. right. apply simple_tok_word. exact (proj1 (simple_key_inv k Hk)).
Qed.

Lemma hole_toks_gachars t b : ktree writable_leaf t = true -> Forall (fun x => forallb gachar x = true) (hole_toks b t).
Proof.
  apply (toks_Forall (fun x => forallb gachar x = true) lfa FK writable_leaf); try reflexivity.
  - intros v Hv. unfold lfa. destruct (simple_leaf v) eqn:E; [apply simple_tok_gachars; exact E|reflexivity].
  - intros k Hk. apply simple_tok_gachars. exact (proj1 (simple_key_inv k Hk)).
Qed.

(* the number of holes *)
Lemma nh_concat_app (a b : list (list N)) : nh (concat (a ++ b)) = (nh (concat a) + nh (concat b))%nat.
Proof. rewrite concat_app. apply nh_app. Qed.

Lemma nh_simple s : simple_tok s = true -> nh s = 0%nat.
Proof. intros H. apply nh_plain. apply simple_tok_nohole. exact H. Qed.

Lemma hole_toks_count : forall t b, ktree writable_leaf t = true -> nh (concat (hole_toks b t)) = nq t.
Proof.
  induction t as [v|kvs IH|ts IH] using tree_ind'; intros b H.
  - cbn [toks_tree concat ktree] in *. rewrite app_nil_r. unfold nq, lfa. cbn [qstrs]. unfold qstr.
    destruct (writable_leaf_cases v H) as [E|(E & _)]; rewrite E; [apply nh_simple; exact E|reflexivity].
  - rewrite TokProofs.toks_dict, !nh_concat_app.
    assert (G : nh (concat (TokProofs.entries lfa FK kvs)) = nq (Dict kvs));
      [|rewrite G; destruct b; change ((0 + (nq (Dict kvs) + 0))%nat = nq (Dict kvs)); lia].
    clear b.
    induction IH as [|[k c] kvs Hc _ IHk]; [reflexivity|].
    rewrite ktree_dict_cons in H. apply andb_true_iff in H. destruct H as [H H'']. apply andb_true_iff in H.
    destruct H as [Hk1 Hc1]. rewrite entries_cons', nh_concat_app, (IHk H''), nq_dict_cons. f_equal.
    cbn [snd] in Hc. unfold TokProofs.entry_toks. cbn [fst snd].
    pose proof (nh_simple _ (proj1 (simple_key_inv k Hk1))) as Hnk.
    destruct c as [v|d|l].
    + cbn [concat]. rewrite !nh_app, Hnk. specialize (Hc false Hc1). cbn [toks_tree concat] in Hc.
      rewrite app_nil_r in Hc. rewrite Hc. change (nh t_semi) with 0%nat. change (nh []) with 0%nat. lia.
    + rewrite !nh_concat_app, (Hc false Hc1). cbn [concat app]. rewrite nh_app, Hnk.
      change (nh (t_lbrace ++ [])) with 0%nat. change (nh (t_rbrace ++ [])) with 0%nat. lia.
    + rewrite !nh_concat_app, (Hc true Hc1). cbn [concat app]. rewrite app_nil_r, Hnk.
      change (nh (t_semi ++ [])) with 0%nat. lia.
  - rewrite (TokProofs.toks_lst_b lfa FK b), TokProofs.toks_lst, !nh_concat_app.
    assert (G : nh (concat (TokProofs.items lfa FK ts)) = nq (Lst ts));
      [|rewrite G; change ((0 + (nq (Lst ts) + 0))%nat = nq (Lst ts)); lia].
    clear b.
    induction IH as [|c l Hc _ IHl]; [reflexivity|].
    rewrite ktree_lst_cons in H. apply andb_true_iff in H. destruct H as [Hc1 Hl1].
    rewrite items_cons', nh_concat_app, (Hc true Hc1), (IHl Hl1), nq_lst_cons. reflexivity.
Qed.

(* filling the holes with the placeholders gives the token list of the relabelled tree *)
Definition Ft (t : tree) : Prop :=
  forall b ks R, ktree writable_leaf t = true -> (nq t <= length ks)%nat -> small ks ->
  fillT (map PH ks) (hole_toks b t ++ R) = toks_tree ltL ktS b (label ks t) ++ fillT (map PH (skipn (nq t) ks)) R.

Lemma fillT_plain_cons fs x hl : has_char HOLE x = false -> fillT fs (x :: hl) = x :: fillT fs hl.
Proof. intros H. cbn [fillT]. unfold fill1. rewrite (nohole_not_holetok x H). reflexivity. Qed.

Lemma fillT_hole_cons f fs hl : fillT (f :: fs) ([HOLE] :: hl) = f :: fillT fs hl.
Proof. reflexivity. Qed.

Lemma Ft_all : forall t, Ft t.
Proof.
  induction t as [v|kvs IH|ts IH] using tree_ind'; intros b ks R H Hn Hks.
  - cbn [toks_tree ktree label app] in *. unfold nq in *. cbn [qstrs] in *. unfold lfa, lleaf, qstr in *.
    destruct (writable_leaf_cases v H) as [E|(E & s & -> & Hs)]; rewrite E in *.
    + cbn [length skipn]. rewrite (fillT_plain_cons _ _ _ (simple_tok_nohole _ E)). unfold ltL. rewrite E. reflexivity.
    + destruct ks as [|k ks]; [cbn [length] in Hn; lia|]. inversion Hks as [|k' ks' Hk _]; subst.
      cbn [map hd length skipn]. rewrite fillT_hole_cons, (ltL_PH k Hk). reflexivity.
  - rewrite label_dict, !TokProofs.toks_dict, <- !app_assoc.
    assert (Hopen : forall X, fillT (map PH ks) ((if b then [t_lbrace] else []) ++ X) =
                              (if b then [t_lbrace] else []) ++ fillT (map PH ks) X).
    { intros X. destruct b; [apply fillT_plain_cons|]; reflexivity. }
    rewrite Hopen. f_equal.
    assert (G : forall ks R', (nq (Dict kvs) <= length ks)%nat -> small ks ->
                fillT (map PH ks) (TokProofs.entries lfa FK kvs ++ R') =
                TokProofs.entries ltL ktS (labelD ks kvs) ++ fillT (map PH (skipn (nq (Dict kvs)) ks)) R').
    { clear Hopen ks Hn Hks R. induction IH as [|[k c] kvs Hc _ IHk]; intros ks R' Hn Hks; [reflexivity|].
      rewrite ktree_dict_cons in H. apply andb_true_iff in H. destruct H as [H H'']. apply andb_true_iff in H.
      destruct H as [Hk1 Hc1]. cbn [snd] in Hc.
      rewrite nq_dict_cons in Hn.
      assert (Hn2 : (nq (Dict kvs) <= length (skipn (nq c) ks))%nat) by (rewrite skipn_length; lia).
      pose proof (small_skipn (nq c) ks Hks) as Hks2.
      rewrite nq_dict_cons, <- skipn_add. cbn [labelD]. rewrite !entries_cons', <- !app_assoc.
      pose proof (simple_tok_nohole _ (proj1 (simple_key_inv k Hk1))) as Hnk.
      unfold TokProofs.entry_toks. cbn [fst snd]. rewrite (ktS_simple k Hk1).
      destruct c as [v|d|l].
      - cbn [label app]. rewrite (fillT_plain_cons _ _ _ Hnk). f_equal.
        pose proof (Hc false ks (t_semi :: TokProofs.entries lfa FK kvs ++ R') Hc1 ltac:(lia) Hks) as E.
        cbn [toks_tree app label] in E. etransitivity; [exact E|]. f_equal.
        rewrite (fillT_plain_cons _ t_semi _ eq_refl). f_equal. apply (IHk H'' _ R' Hn2 Hks2).
      - rewrite label_dict. cbv iota. rewrite <- label_dict. cbn [app].
        rewrite (fillT_plain_cons _ _ _ Hnk), (fillT_plain_cons _ t_lbrace _ eq_refl). f_equal. f_equal.
        rewrite <- !app_assoc.
        rewrite (Hc false ks _ Hc1 ltac:(lia) Hks). f_equal. cbn [app].
        rewrite (fillT_plain_cons _ t_rbrace _ eq_refl). f_equal. apply (IHk H'' _ R' Hn2 Hks2).
      - rewrite label_lst. cbv iota. rewrite <- label_lst. cbn [app].
        rewrite (fillT_plain_cons _ _ _ Hnk). f_equal. rewrite <- !app_assoc.
        rewrite (Hc true ks _ Hc1 ltac:(lia) Hks). f_equal. cbn [app].
        rewrite (fillT_plain_cons _ t_semi _ eq_refl). f_equal. apply (IHk H'' _ R' Hn2 Hks2). }
    rewrite (G ks _ Hn Hks). f_equal. destruct b; [apply fillT_plain_cons|]; reflexivity.
  - rewrite label_lst, (TokProofs.toks_lst_b lfa FK b), (TokProofs.toks_lst_b ltL ktS b), !TokProofs.toks_lst, <- !app_assoc.
    cbn [app]. rewrite (fillT_plain_cons _ t_lpar _ eq_refl). f_equal.
    assert (G : forall ks R', (nq (Lst ts) <= length ks)%nat -> small ks ->
                fillT (map PH ks) (TokProofs.items lfa FK ts ++ R') =
                TokProofs.items ltL ktS (labelL ks ts) ++ fillT (map PH (skipn (nq (Lst ts)) ks)) R').
    { clear ks Hn Hks R. induction IH as [|c l Hc _ IHl]; intros ks R' Hn Hks; [reflexivity|].
      rewrite ktree_lst_cons in H. apply andb_true_iff in H. destruct H as [Hc1 Hl1].
      rewrite nq_lst_cons in Hn.
      assert (Hn2 : (nq (Lst l) <= length (skipn (nq c) ks))%nat) by (rewrite skipn_length; lia).
      pose proof (small_skipn (nq c) ks Hks) as Hks2.
      rewrite nq_lst_cons, <- skipn_add. cbn [labelL]. rewrite !items_cons', <- !app_assoc.
      rewrite (Hc true ks _ Hc1 ltac:(lia) Hks). f_equal. apply (IHl Hl1 _ R' Hn2 Hks2). }
    rewrite (G ks _ Hn Hks). f_equal; try (apply fillT_plain_cons); reflexivity.
Qed.

Lemma fill_label kvs ks : ktree writable_leaf (Dict kvs) = true -> (nq (Dict kvs) <= length ks)%nat -> small ks ->
  fillT (map PH ks) (hole_toks false (Dict kvs)) = TokProofs.entries ltL ktS (labelD ks kvs).
Proof.
  intros H Hn Hks. pose proof (Ft_all (Dict kvs) false ks [] H Hn Hks) as E. rewrite !app_nil_r in E.
  rewrite E, label_dict, TokProofs.toks_dict. cbn [app]. apply app_nil_r.
Qed.

(* ================================================================================================ *)
(* 4. the unfiltered token list of a layout                                                         *)
(* ================================================================================================ *)

Lemma rle_shape (T : list N) h F F0 d :
  filter nsp T = h :: F -> filter nsp T = F0 ++ [d] -> is_space h = false -> is_delim h = false -> is_delim d = true ->
  exists m, remove_line_endings T = h :: m ++ [d].
Proof.
  intros Efh Ed Hhs Hhd Hd. rewrite remove_line_endings_eq.
  set (b2 := strip (map lf2sp T)).
  assert (Hfl : filter nsp b2 = filter nsp T) by (unfold b2; rewrite fl_strip, fl_map; reflexivity).
  destruct (strip_shape (map lf2sp T)) as [E|(c0 & m & e & Hc0 & He & [[E _]|E])]; fold b2 in E.
  - rewrite E in Hfl. rewrite Efh in Hfl. discriminate Hfl.
  - exfalso. rewrite E in Hfl. cbn [filter] in Hfl. unfold nsp at 1 in Hfl. rewrite Hc0 in Hfl. cbn [negb] in Hfl.
    assert (c0 = h) by (rewrite Efh in Hfl; congruence). subst c0.
    rewrite Ed in Hfl. change [h] with ([] ++ [h]) in Hfl. apply app_inj_tail in Hfl. destruct Hfl as [_ <-].
    congruence.
  - assert (Ef : filter nsp b2 = (c0 :: filter nsp m) ++ [e]).
    { rewrite E. cbn [filter]. unfold nsp at 1. rewrite Hc0. cbn [negb]. rewrite filter_app. cbn [filter].
      unfold nsp at 2. rewrite He. reflexivity. }
    assert (c0 = h) by (rewrite Hfl, Efh in Ef; cbn [app] in Ef; congruence). subst c0.
    rewrite Hfl, Ed in Ef. apply app_inj_tail in Ef. destruct Ef as [_ <-].
    exists m. exact E.
Qed.

Lemma rle_ws_only (w : list N) : ws_run w -> remove_line_endings w = [].
Proof.
  intros Hw. rewrite remove_line_endings_eq. unfold strip.
  assert (Hm : ws_run (map lf2sp w)).
  { induction Hw as [|c w Hc _ IH]; [constructor|]. cbn [map]. constructor; [|exact IH]. unfold lf2sp. destruct (c =? c_lf); [reflexivity|exact Hc]. }
  rewrite <- (app_nil_r (map lf2sp w)), (lstrip_ws _ [] (ws_run_In _ Hm)). reflexivity.
Qed.

(* the token list of a text: the lexemes, then the empty token behind the final delimiter *)
Lemma tokens_layout pl (T0 w1 w2 : list N) :
  Forall lexeme pl -> rendering pl T0 -> ws_run w1 -> ws_run w2 ->
  (pl = [] \/ exists h r rest pre d, pl = (h :: r) :: rest /\ is_space h = false /\ is_delim h = false /\
                                     pl = pre ++ [[d]] /\ is_delim d = true) ->
  tokenize (separate_delimiters (remove_line_endings (w1 ++ T0 ++ w2))) = pl ++ [[]].
Proof.
  intros HL R H1 H2 Hshape.
  destruct Hshape as [->|(h & r & rest & pre & d & E1 & Hhs & Hhd & E2 & Hd)].
  - apply rendering_nil_inv in R. subst T0. cbn [app]. rewrite rle_ws_only; [reflexivity|].
    apply Forall_app. split; assumption.
  - set (T := w1 ++ T0 ++ w2).
    assert (Htok : toks_go [] (remove_line_endings T) = pl).
    { rewrite remove_line_endings_eq, tg_strip, tg_map. unfold T. rewrite (toks_go_ws w1 _ H1).
      exact (layout_scan pl T0 R HL w2 H2). }
    assert (Hfl : filter nsp T = concat pl).
    { unfold T. rewrite !filter_app, (fl_ws w1 H1), (fl_ws w2 H2), app_nil_r. cbn [app].
      apply rendering_filter; [exact R|]. revert HL. apply Forall_impl. exact lexeme_nospace. }
    assert (Ea : filter nsp T = h :: (r ++ concat rest)) by (rewrite Hfl, E1; reflexivity).
    assert (Eb : filter nsp T = concat pre ++ [d]).
    { rewrite Hfl, E2, concat_app. cbn [concat]. rewrite app_nil_r. reflexivity. }
    destruct (rle_shape T h _ _ d Ea Eb Hhs Hhd Hd) as (m & Em).
    rewrite <- Htok, Em. apply tokens_full; assumption.
Qed.

(* ================================================================================================ *)
(* 5. quote-free documents in any layout                                                            *)
(* ================================================================================================ *)

Lemma simple_ktree : forall t, simple_tree t = ktree simple_leaf t.
Proof.
  induction t as [v|kvs IH|ts IH] using tree_ind'; [reflexivity| |].
  - induction IH as [|[k c] kvs Hc _ IHk]; [reflexivity|].
    rewrite simple_dict_cons, ktree_dict_cons. cbn [snd] in Hc. rewrite Hc, IHk. reflexivity.
  - induction IH as [|c l Hc _ IHl]; [reflexivity|].
    rewrite simple_lst_cons, ktree_lst_cons, Hc, IHl. reflexivity.
Qed.

Lemma simple_toks_lexeme t b : ktree simple_leaf t = true -> Forall lexeme (toks_tree FS FK b t).
Proof.
  apply (toks_Forall lexeme FS FK simple_leaf); try (apply delim_tok_lexeme; reflexivity).
  - intros v Hv. right. apply simple_tok_word. exact Hv.
  - intros k Hk. right. apply simple_tok_word. exact (proj1 (simple_key_inv k Hk)).
Qed.

Lemma simple_toks_gchars t b : ktree simple_leaf t = true -> Forall (fun x => forallb gchar x = true) (toks_tree FS FK b t).
Proof.
  assert (Hs : forall s, simple_tok s = true -> forallb gchar s = true).
  { intros s H. destruct (simple_tok_inv s H) as (_ & Hc & _). apply forallb_forall. intros c Hin.
    apply simple_gchar. exact (forallb_In _ _ _ Hc Hin). }
  apply (toks_Forall (fun x => forallb gchar x = true) FS FK simple_leaf); try reflexivity.
  - intros v Hv. apply Hs. exact Hv.
  - intros k Hk. apply Hs. exact (proj1 (simple_key_inv k Hk)).
Qed.

Lemma doc_shape lt kt kvs : (forall k, simple_key k = true -> kt k = FK k) ->
  (forall kc, In kc kvs -> simple_key (fst kc) = true) ->
  TokProofs.entries lt kt kvs = [] \/
  exists h r rest pre d, TokProofs.entries lt kt kvs = (h :: r) :: rest /\ is_space h = false /\ is_delim h = false /\
                         TokProofs.entries lt kt kvs = pre ++ [[d]] /\ is_delim d = true.
Proof.
  intros Hkt Hk. destruct kvs as [|[k c] kvs']; [left; reflexivity|right].
  pose proof (Hk (k, c) (or_introl eq_refl)) as Hk1. cbn [fst] in Hk1.
  destruct (entries_head' lt kt k c kvs') as (rest & E1).
  destruct (entries_last' lt kt ((k, c) :: kvs') ltac:(discriminate)) as (pre & d & E2 & Hd).
  destruct (simple_tok_inv _ (proj1 (simple_key_inv k Hk1))) as (Hne & Hc & _).
  rewrite (Hkt k Hk1) in E1. destruct (FK k) as [|h r] eqn:Ek; [congruence|].
  cbn [forallb] in Hc. apply andb_true_iff in Hc. destruct Hc as [Hh _]. destruct (simple_char_word h Hh) as [Hhs Hhd].
  exists h, r, rest, pre, d. repeat split; assumption.
Qed.

Theorem lex_any_layout : forall kvs (txt w1 w2 : list N) comments dirc count,
  simple_tree (Dict kvs) = true -> rendering (toks_tree FS FK false (Dict kvs)) txt -> ws_run w1 -> ws_run w2 ->
  lex comments dirc count (w1 ++ txt ++ w2) = mkLexed (toks_doc FS FK kvs) count [] [] [] [] [].
Proof.
  intros kvs txt w1 w2 comments dirc count Hs R H1 H2. pose proof Hs as Hk. rewrite simple_ktree in Hk.
  rewrite lex_gplain.
  - rewrite (tokens_layout (toks_tree FS FK false (Dict kvs)) txt w1 w2 (simple_toks_lexeme _ false Hk) R H1 H2); [reflexivity|].
    rewrite TokProofs.toks_dict. cbn [app]. rewrite app_nil_r.
    apply doc_shape; [reflexivity|exact (ktree_dict_keys _ kvs Hk)].
  - rewrite !forallb_app, (ws_gchars w1 H1), (ws_gchars w2 H2), andb_true_r. cbn [andb].
    apply (rendering_chars gchar _ txt R (simple_toks_gchars _ false Hk)). exact space_gchar.
Qed.

Theorem parse_any_layout : forall kvs (txt w1 w2 : list N) dirc count,
  wf (Dict kvs) = true -> simple_tree (Dict kvs) = true ->
  rendering (toks_tree FS FK false (Dict kvs)) txt -> ws_run w1 -> ws_run w2 ->
  parse_string true dirc count (w1 ++ txt ++ w2) =
    Ok (mkParsed (mkSD (kvs_of (map_leaves norm_scalar (Dict kvs))) [] [] [] []) count).
Proof.
  intros kvs txt w1 w2 dirc count Hw Hs R H1 H2.
  rewrite TokProofs.map_leaves_dict. cbn [kvs_of].
  assert (Hw' : wf (Dict (map (TokProofs.mkv norm_scalar) kvs)) = true).
  { rewrite <- TokProofs.map_leaves_dict, wf_map_leaves. exact Hw. }
  unfold parse_string. cbv zeta. rewrite (lex_any_layout kvs txt w1 w2 true dirc count Hs R H1 H2).
  cbn [lxd_tokens lxd_count lxd_lc lxd_bc lxd_inc lxd_expr lxd_lit].
  rewrite (parse_tokens_written kvs Hw Hs). cbn [bind].
  rewrite (sd_clean_bare _ Hw'). cbn [sd_data sd_lc sd_bc sd_inc sd_expr].
  unfold insert_string_literals. cbn [fold_left bind].
  rewrite (parser_clean_simple norm_scalar kvs Hs), (sd_clean_bare _ Hw'). reflexivity.
Qed.

Corollary layout_independent_trees : forall kvs (a b wa1 wa2 wb1 wb2 : list N) dirc count,
  wf (Dict kvs) = true -> simple_tree (Dict kvs) = true ->
  rendering (toks_tree FS FK false (Dict kvs)) a -> rendering (toks_tree FS FK false (Dict kvs)) b ->
  ws_run wa1 -> ws_run wa2 -> ws_run wb1 -> ws_run wb2 ->
  parse_string true dirc count (wa1 ++ a ++ wa2) = parse_string true dirc count (wb1 ++ b ++ wb2).
Proof.
  intros kvs a b wa1 wa2 wb1 wb2 dirc count Hw Hs Ra Rb A1 A2 B1 B2.
  rewrite (parse_any_layout kvs a wa1 wa2 dirc count Hw Hs Ra A1 A2).
  rewrite (parse_any_layout kvs b wb1 wb2 dirc count Hw Hs Rb B1 B2). reflexivity.
Qed.

(* ================================================================================================ *)
(* 6. the full writer domain: quoted leaves in either flavour, any layout                           *)
(* ================================================================================================ *)

Lemma qflav_not_delim f s : qflav f s -> ~ delim_lexeme f.
Proof. intros (_ & [[-> _]|[-> _]]) (d & E & _); unfold sq, dq in E; destruct s; discriminate E. Qed.

Lemma expand_around fs (w1 A0 w2 : list N) : ws_run w1 -> ws_run w2 ->
  expandL fs (w1 ++ A0 ++ w2) = w1 ++ expandL fs A0 ++ w2.
Proof.
  intros H1 H2. rewrite (expandL_plain _ w1 _ (ws_nohole w1 H1)), expandL_app.
  rewrite (expandL_plain0 _ w2 (ws_nohole w2 H2)). reflexivity.
Qed.

Lemma labelD_keys : forall kvs ks, map fst (labelD ks kvs) = map fst kvs.
Proof. induction kvs as [|[k c] kvs IHk]; intros ks; [reflexivity|]. cbn [labelD map fst]. rewrite IHk. reflexivity. Qed.

Theorem lex_any_layout_quoted : forall kvs fs (txt w1 w2 : list N) comments dirc count,
  ktree writable_leaf (Dict kvs) = true -> Forall2 qflav fs (qstrs (Dict kvs)) ->
  rendering (fillT fs (hole_toks false (Dict kvs))) txt -> ws_run w1 -> ws_run w2 ->
  lex comments dirc count (w1 ++ txt ++ w2) =
  mkLexed (toks_doc ltL ktS (labelD (ids count (nq (Dict kvs))) kvs)) (cafter count (nq (Dict kvs))) [] [] [] []
          (tupdate [] (combine (ids count (nq (Dict kvs))) (qstrs (Dict kvs)))).
Proof.
  intros kvs fs txt w1 w2 comments dirc count Hs Hfl R H1 H2.
  set (hl := hole_toks false (Dict kvs)) in *. set (ls := qstrs (Dict kvs)) in *.
  pose proof (hole_toks_htok (Dict kvs) false Hs) as Hh. fold hl in Hh.
  destruct (render_fill_bwd hl fs txt Hh (Forall2_Forall_l _ _ _ _ qflav_not_delim Hfl) R) as (A0 & RA & ->).
  rewrite <- (expand_around fs w1 A0 w2 H1 H2).
  set (A := w1 ++ A0 ++ w2).
  assert (HA : forallb gachar A = true).
  { unfold A. rewrite !forallb_app, (gchars_gachars _ (ws_gchars w1 H1)), (gchars_gachars _ (ws_gchars w2 H2)), andb_true_r.
    cbn [andb]. apply (rendering_chars gachar hl A0 RA (hole_toks_gachars _ false Hs)).
    intros c Hc. unfold gachar. rewrite (space_gchar c Hc). reflexivity. }
  assert (HnA : nh A = length ls).
  { rewrite <- nh_filter. unfold A. rewrite !filter_app, (fl_ws w1 H1), (fl_ws w2 H2), app_nil_r. cbn [app].
    rewrite (rendering_filter hl A0 RA).
    - unfold hl. rewrite (hole_toks_count _ false Hs). reflexivity.
    - pose proof (hole_toks_lexeme (Dict kvs) false Hs) as HL. revert HL. apply Forall_impl. exact lexeme_nospace. }
  rewrite (lex_filled_gen comments dirc count A fs ls HA Hfl HnA). change (length ls) with (nq (Dict kvs)).
  set (ks := ids count (nq (Dict kvs))).
  assert (Hlen : (nq (Dict kvs) <= length ks)%nat) by (unfold ks; rewrite ids_length; apply Nat.le_refl).
  pose proof (ids_small count (nq (Dict kvs))) as Hsm. fold ks in Hsm.
  rewrite <- (rle_expand A (map PH ks) (PHs_solid ks)). unfold A. rewrite (expand_around _ w1 A0 w2 H1 H2).
  pose proof (render_fill_fwd hl A0 RA (map PH ks) Hh) as RP.
  unfold hl in RP. rewrite (fill_label kvs ks Hs Hlen Hsm) in RP.
  assert (HLp : Forall lexeme (TokProofs.entries ltL ktS (labelD ks kvs))).
  { rewrite <- (fill_label kvs ks Hs Hlen Hsm). apply fillT_Forall.
    + exact (hole_toks_lexeme (Dict kvs) false Hs).
    + apply Forall_map_iff. apply Forall_forall. intros k _. right. apply PH_word. }
  rewrite (tokens_layout _ _ w1 w2 HLp RP H1 H2).
  - rewrite toks_doc_entries'. reflexivity.
  - assert (Hkeys : forall kc, In kc (labelD ks kvs) -> simple_key (fst kc) = true).
    { intros kc Hin. assert (Hf : In (fst kc) (map fst kvs)).
      { rewrite <- (labelD_keys kvs ks). apply in_map. exact Hin. }
      apply in_map_iff in Hf. destruct Hf as (kc0 & E0 & Hin0). rewrite <- E0.
      exact (ktree_dict_keys _ kvs Hs kc0 Hin0). }
    apply doc_shape; [exact ktS_simple|exact Hkeys].
Qed.

(* everything behind the lexer, for any text that lexes to the placeholder document *)
Lemma parse_of_lexed : forall kvs ks dirc count c' (txt : list N),
  wf (Dict kvs) = true -> ktree writable_leaf (Dict kvs) = true ->
  NoDup ks -> small ks -> length ks = nq (Dict kvs) -> quoted_within 11 (Dict kvs) = true ->
  lex true dirc count txt = mkLexed (toks_doc ltL ktS (labelD ks kvs)) c' [] [] [] []
                                    (tupdate [] (combine ks (qstrs (Dict kvs)))) ->
  parse_string true dirc count txt =
    Ok (mkParsed (mkSD (kvs_of (map_leaves written_value (Dict kvs))) [] [] [] []) c').
Proof.
  intros kvs ks dirc count c' txt Hw Hwr Hnd Hsm Hlen0 Hdeep Hlex.
  set (ls := qstrs (Dict kvs)) in *.
  assert (Hlen : length ks = length ls) by exact Hlen0.
  destruct (label_facts (Dict kvs) ks) as (L1 & L2 & L3). rewrite label_dict in L1, L2, L3.
  assert (HwL : wf (Dict (labelD ks kvs)) = true) by (rewrite L1; exact Hw).
  assert (HkL : skeys (Dict (labelD ks kvs)) = true) by (rewrite L2; exact (ktree_skeys _ _ Hwr)).
  set (d0 := map (TokProofs.mkv nvL) (labelD ks kvs)).
  assert (Hd0 : Dict d0 = map_leaves nvL (Dict (labelD ks kvs))) by (rewrite TokProofs.map_leaves_dict; reflexivity).
  assert (Hw0 : wf (Dict d0) = true) by (rewrite Hd0, wf_map_leaves; exact HwL).
  assert (Hlits : Forall qlit ls) by (apply qstrs_qlit; exact Hwr).
  assert (Hok : Forall (fun s => PWs (pv s) = false) ls).
  { revert Hlits. apply Forall_impl. intros s Hs. destruct (qlit_content s Hs) as [A B]. apply PWs_pv; assumption. }
  assert (Htab : tupdate [] (combine ks ls) = combine ks ls).
  { apply (tupdate_fresh (combine ks ls) []). cbn [app]. rewrite (combine_fst ks ls Hlen). exact Hnd. }
  assert (Hfin : map_leaves (Gfun (combine ks ls)) (Dict d0) = map_leaves written_value (Dict kvs)).
  { rewrite Hd0, map_leaves_compose, <- label_dict.
    apply (Vt_all (combine ks ls) (Dict kvs) ks []); [|exact Hwr].
    rewrite app_nil_r. apply rel_top; assumption. }
  assert (Hw' : wf (Dict (map (TokProofs.mkv written_value) kvs)) = true).
  { rewrite <- TokProofs.map_leaves_dict, wf_map_leaves. exact Hw. }
  unfold parse_string. cbv zeta. rewrite Hlex.
  cbn [lxd_tokens lxd_count lxd_lc lxd_bc lxd_inc lxd_expr lxd_lit].
  rewrite (TRK.tok_roundtrip_main ltL ktS nvL HltL HktpS HkpkS (labelD ks kvs) HwL HkL).
  rewrite TokProofs.map_leaves_dict. cbn [kvs_of bind]. fold d0.
  rewrite (sd_clean_bare _ Hw0). cbn [sd_data sd_lc sd_bc sd_inc sd_expr].
  rewrite Htab, (insert_all (combine ks ls) d0 Hw0).
  - rewrite Hfin, TokProofs.map_leaves_dict. cbn [kvs_of bind].
    rewrite (parser_clean_keys written_value kvs (ktree_dict_keys _ kvs Hwr)), (sd_clean_bare _ Hw'). reflexivity.
  - rewrite Hd0. apply L3; assumption.
  - apply Forall_forall. intros [k s] Hin. cbn [snd]. rewrite Forall_forall in Hok. apply Hok.
    exact (in_combine_r _ _ _ _ Hin).
Qed.

Theorem parse_any_layout_quoted : forall kvs fs (txt w1 w2 : list N) dirc count,
  wf (Dict kvs) = true -> writable_tree (Dict kvs) = true ->
  Forall2 qflav fs (qstrs (Dict kvs)) ->
  rendering (fillT fs (hole_toks false (Dict kvs))) txt -> ws_run w1 -> ws_run w2 ->
  (-1 <= count)%Z -> (Z.of_nat (nq (Dict kvs)) <= 1000000)%Z -> quoted_within 11 (Dict kvs) = true ->
  parse_string true dirc count (w1 ++ txt ++ w2) =
    Ok (mkParsed (mkSD (kvs_of (map_leaves written_value (Dict kvs))) [] [] [] []) (cafter count (nq (Dict kvs)))).
Proof.
  intros kvs fs txt w1 w2 dirc count Hw Hwr Hfl R H1 H2 Hc Hn Hdeep. rewrite writable_ktree in Hwr.
  apply (parse_of_lexed kvs (ids count (nq (Dict kvs)))); try assumption.
  - apply ids_nodup; assumption.
  - apply ids_small.
  - apply ids_length.
  - apply (lex_any_layout_quoted kvs fs txt w1 w2 true dirc count Hwr Hfl R H1 H2).
Qed.

(* ================================================================================================ *)
(* 7. the statements for C02                                                                        *)
(* ================================================================================================ *)

(* f is an admissible spelling of the quoted string s: single quotes if s contains none, double quotes if s
   contains none (the strings of the writer's quoting domain contain no dollar) *)
Definition spelling (f s : str) : Prop := (f = sq s /\ no_sq s = true) \/ (f = dq s /\ no_dq s = true).

(* the token list of a document in which the quoted leaves are spelled as given by fs, one spelling per quoted leaf in
   document order (the writer's own list is the one with fs = map format_string (qstrs (Dict kvs))) *)
Definition doc_toks (fs : list str) (kvs : list (key * tree)) : list str := fillT fs (hole_toks false (Dict kvs)).

Lemma spellings_qflav t fs : ktree writable_leaf t = true -> Forall2 spelling fs (qstrs t) -> Forall2 qflav fs (qstrs t).
Proof.
  intros Hs H. pose proof (qstrs_qlit t Hs) as Hq. induction H as [|f s fs ls Hf _ IH]; [constructor|].
  inversion Hq as [|s' ls' Hs1 Hq']; subst. constructor; [|exact (IH Hq')]. split; [exact (proj1 Hs1)|exact Hf].
Qed.

Theorem parse_any_layout_spelled : forall kvs fs (txt w1 w2 : list N) dirc count,
  wf (Dict kvs) = true -> writable_tree (Dict kvs) = true ->
  Forall2 spelling fs (qstrs (Dict kvs)) -> rendering (doc_toks fs kvs) txt -> ws_run w1 -> ws_run w2 ->
  (-1 <= count)%Z -> (Z.of_nat (nq (Dict kvs)) <= 1000000)%Z -> quoted_within 11 (Dict kvs) = true ->
  parse_string true dirc count (w1 ++ txt ++ w2) =
    Ok (mkParsed (mkSD (kvs_of (map_leaves written_value (Dict kvs))) [] [] [] []) (cafter count (nq (Dict kvs)))).
Proof.
  intros kvs fs txt w1 w2 dirc count Hw Hwr Hfl R H1 H2 Hc Hn Hdeep.
  apply (parse_any_layout_quoted kvs fs txt w1 w2 dirc count Hw Hwr); try assumption.
  apply spellings_qflav; [rewrite <- writable_ktree; exact Hwr|exact Hfl].
Qed.

Corollary layout_independent_spelled : forall kvs fa fb (a b wa1 wa2 wb1 wb2 : list N) dirc count,
  wf (Dict kvs) = true -> writable_tree (Dict kvs) = true ->
  Forall2 spelling fa (qstrs (Dict kvs)) -> Forall2 spelling fb (qstrs (Dict kvs)) ->
  rendering (doc_toks fa kvs) a -> rendering (doc_toks fb kvs) b ->
  ws_run wa1 -> ws_run wa2 -> ws_run wb1 -> ws_run wb2 ->
  (-1 <= count)%Z -> (Z.of_nat (nq (Dict kvs)) <= 1000000)%Z -> quoted_within 11 (Dict kvs) = true ->
  parse_string true dirc count (wa1 ++ a ++ wa2) = parse_string true dirc count (wb1 ++ b ++ wb2).
Proof.
  intros kvs fa fb a b wa1 wa2 wb1 wb2 dirc count Hw Hwr Fa Fb Ra Rb A1 A2 B1 B2 Hc Hn Hdeep.
  rewrite (parse_any_layout_spelled kvs fa a wa1 wa2 dirc count Hw Hwr Fa Ra A1 A2 Hc Hn Hdeep).
  rewrite (parse_any_layout_spelled kvs fb b wb1 wb2 dirc count Hw Hwr Fb Rb B1 B2 Hc Hn Hdeep). reflexivity.
Qed.

(* the writer's own spellings give the writer's token list *)
Lemma doc_toks_simple kvs fs : simple_tree (Dict kvs) = true -> doc_toks fs kvs = toks_tree FS FK false (Dict kvs).
Proof.
  intros Hs. rewrite simple_ktree in Hs. unfold doc_toks.
  assert (E : hole_toks false (Dict kvs) = toks_tree FS FK false (Dict kvs)).
  { clear fs. revert Hs. generalize false. generalize (Dict kvs). clear kvs.
    induction t as [v|kvs IH|ts IH] using tree_ind'; intros b H.
    - cbn [toks_tree ktree] in *. unfold lfa. rewrite H. reflexivity.
    - rewrite !TokProofs.toks_dict. f_equal. f_equal.
      induction IH as [|[k c] kvs Hc _ IHk]; [reflexivity|].
      rewrite ktree_dict_cons in H. apply andb_true_iff in H. destruct H as [H H'']. apply andb_true_iff in H.
      destruct H as [_ Hc1]. rewrite !entries_cons', (IHk H''). f_equal. cbn [snd] in Hc.
      unfold TokProofs.entry_toks. cbn [fst snd]. destruct c as [v|d|l].
      + specialize (Hc false Hc1). cbn [toks_tree] in Hc. injection Hc as Hc. rewrite Hc. reflexivity.
      + rewrite (Hc false Hc1). reflexivity.
      + rewrite (Hc true Hc1). reflexivity.
    - rewrite (TokProofs.toks_lst_b lfa FK b), (TokProofs.toks_lst_b FS FK b), !TokProofs.toks_lst. f_equal. f_equal.
      induction IH as [|c l Hc _ IHl]; [reflexivity|].
      rewrite ktree_lst_cons in H. apply andb_true_iff in H. destruct H as [Hc1 Hl1].
      rewrite !items_cons', (IHl Hl1), (Hc true Hc1). reflexivity. }
  rewrite E. apply fillT_nil_nohole.
  apply (toks_Forall (fun x => has_char HOLE x = false) FS FK simple_leaf); try reflexivity; try exact Hs.
  - intros v Hv. apply simple_tok_nohole. exact Hv.
  - intros k Hk. apply simple_tok_nohole. exact (proj1 (simple_key_inv k Hk)).
Qed.

(* a rendering of toks_doc (the token list with the empty token that re.split leaves behind the final delimiter) is a
   rendering of the tokens followed by white space *)
Lemma rendering_doc_inv : forall tl (txt : list N), rendering (tl ++ [[]]) txt ->
  exists txt0 w, txt = txt0 ++ w /\ rendering tl txt0 /\ ws_run w.
Proof.
  induction tl as [|x tl IH]; intros txt R.
  - cbn [app] in R. apply rendering_one_inv in R. subst. exists [], []. repeat split; constructor.
  - destruct tl as [|y tl'].
    + cbn [app] in R. apply rendering_cons_inv in R. destruct R as (w & txt' & -> & R' & Hw & _).
      apply rendering_one_inv in R'. subst. exists x, w. rewrite app_nil_r. repeat split; [constructor|exact Hw].
    + cbn [app] in R. apply rendering_cons_inv in R. destruct R as (w & txt' & -> & R' & Hw & Hgap).
      destruct (IH txt' R') as (txt0 & w' & -> & R0 & Hw').
      exists (x ++ w ++ txt0), w'. rewrite <- !app_assoc. repeat split; [|exact Hw'].
      apply r_cons; assumption.
Qed.

Theorem parse_any_layout_doc : forall kvs (txt w1 w2 : list N) dirc count,
  wf (Dict kvs) = true -> simple_tree (Dict kvs) = true ->
  rendering (toks_doc FS FK kvs) txt -> ws_run w1 -> ws_run w2 ->
  parse_string true dirc count (w1 ++ txt ++ w2) =
    Ok (mkParsed (mkSD (kvs_of (map_leaves norm_scalar (Dict kvs))) [] [] [] []) count).
Proof.
  intros kvs txt w1 w2 dirc count Hw Hs R H1 H2. unfold toks_doc in R.
  destruct (rendering_doc_inv _ txt R) as (txt0 & w & -> & R0 & Hw0).
  rewrite <- app_assoc. apply parse_any_layout; try assumption. apply Forall_app. split; assumption.
Qed.

(* ================================================================================================ *)
(* 8. the same without holes in the statement: token lists that differ from the writer's only in    *)
(*    the spelling of quoted strings                                                                *)
(* ================================================================================================ *)

(* b is the token a or, if a is a quoted string, any admissible spelling of its content *)
Definition tok_spelling (a b : str) : Prop := b = a \/ exists s, (a = sq s \/ a = dq s) /\ spelling b s.

(* the writer's own spellings give the token list of the grammar *)
Definition Wt (t : tree) : Prop :=
  forall b rest R, ktree writable_leaf t = true ->
  fillT (map format_string (qstrs t) ++ rest) (hole_toks b t ++ R) = toks_tree FS FK b t ++ fillT rest R.

Lemma Wt_all : forall t, Wt t.
Proof.
  induction t as [v|kvs IH|ts IH] using tree_ind'; intros b rest R H.
  - cbn [toks_tree ktree qstrs app] in *. unfold lfa, qstr.
    destruct (writable_leaf_cases v H) as [E|(E & s & -> & Hs)]; rewrite E.
    + cbn [map app]. rewrite (fillT_plain_cons _ _ _ (simple_tok_nohole _ E)). reflexivity.
    + cbn [map app]. rewrite fillT_hole_cons. reflexivity.
  - rewrite !TokProofs.toks_dict, <- !app_assoc.
    assert (Hopen : forall fs X, fillT fs ((if b then [t_lbrace] else []) ++ X) = (if b then [t_lbrace] else []) ++ fillT fs X).
    { intros fs X. destruct b; [apply fillT_plain_cons|]; reflexivity. }
    rewrite Hopen. f_equal.
    assert (G : forall rest' R', fillT (map format_string (qstrs (Dict kvs)) ++ rest') (TokProofs.entries lfa FK kvs ++ R') =
                                 TokProofs.entries FS FK kvs ++ fillT rest' R').
    { clear Hopen rest R. induction IH as [|[k c] kvs Hc _ IHk]; intros rest' R'; [reflexivity|].
      rewrite ktree_dict_cons in H. apply andb_true_iff in H. destruct H as [H H'']. apply andb_true_iff in H.
      destruct H as [Hk1 Hc1]. cbn [snd] in Hc.
      rewrite qstrs_dict_cons, map_app, <- app_assoc, !entries_cons', <- !app_assoc.
      pose proof (simple_tok_nohole _ (proj1 (simple_key_inv k Hk1))) as Hnk.
      unfold TokProofs.entry_toks. cbn [fst snd].
      destruct c as [v|d|l].
      - cbn [app]. rewrite (fillT_plain_cons _ _ _ Hnk). f_equal.
        pose proof (Hc false (map format_string (qstrs (Dict kvs)) ++ rest') (t_semi :: TokProofs.entries lfa FK kvs ++ R') Hc1) as E.
        cbn [toks_tree app] in E. etransitivity; [exact E|]. f_equal.
        rewrite (fillT_plain_cons _ t_semi _ eq_refl). f_equal. apply (IHk H'').
      - cbn [app]. rewrite (fillT_plain_cons _ _ _ Hnk), (fillT_plain_cons _ t_lbrace _ eq_refl). f_equal. f_equal.
        rewrite <- !app_assoc. rewrite (Hc false _ _ Hc1). f_equal. cbn [app].
        rewrite (fillT_plain_cons _ t_rbrace _ eq_refl). f_equal. apply (IHk H'').
      - cbn [app]. rewrite (fillT_plain_cons _ _ _ Hnk). f_equal. rewrite <- !app_assoc.
        rewrite (Hc true _ _ Hc1). f_equal. cbn [app].
        rewrite (fillT_plain_cons _ t_semi _ eq_refl). f_equal. apply (IHk H''). }
    rewrite G. f_equal. destruct b; [apply fillT_plain_cons|]; reflexivity.
  - rewrite (TokProofs.toks_lst_b lfa FK b), (TokProofs.toks_lst_b FS FK b), !TokProofs.toks_lst, <- !app_assoc.
    cbn [app]. rewrite (fillT_plain_cons _ t_lpar _ eq_refl). f_equal.
    assert (G : forall rest' R', fillT (map format_string (qstrs (Lst ts)) ++ rest') (TokProofs.items lfa FK ts ++ R') =
                                 TokProofs.items FS FK ts ++ fillT rest' R').
    { clear rest R. induction IH as [|c l Hc _ IHl]; intros rest' R'; [reflexivity|].
      rewrite ktree_lst_cons in H. apply andb_true_iff in H. destruct H as [Hc1 Hl1].
      rewrite qstrs_lst_cons, map_app, <- app_assoc, !items_cons', <- !app_assoc.
      rewrite (Hc true _ _ Hc1). f_equal. apply (IHl Hl1). }
    rewrite G. f_equal; try (apply fillT_plain_cons); reflexivity.
Qed.

Lemma doc_toks_writer kvs : ktree writable_leaf (Dict kvs) = true ->
  doc_toks (map format_string (qstrs (Dict kvs))) kvs = toks_tree FS FK false (Dict kvs).
Proof.
  intros H. pose proof (Wt_all (Dict kvs) false [] [] H) as E. rewrite !app_nil_r in E. exact E.
Qed.

(* tokens of a hole list: the hole, or hole-free and not beginning with a quote character *)
Definition hq (x : str) : Prop :=
  x = [HOLE] \/ (has_char HOLE x = false /\ match x with c :: _ => is_quote c = false | [] => True end).

Lemma hole_toks_hq t b : ktree writable_leaf t = true -> Forall hq (hole_toks b t).
Proof.
  assert (Hs : forall s, simple_tok s = true -> hq s).
  { intros s H. right. split; [apply simple_tok_nohole; exact H|]. destruct (simple_tok_inv s H) as (_ & Hc & _).
    destruct s as [|c r]; [exact I|]. cbn [forallb] in Hc. apply andb_true_iff in Hc. destruct Hc as [Hc _]. tch. }
  apply (toks_Forall hq lfa FK writable_leaf); try (right; split; reflexivity).
  - intros v Hv. unfold lfa. destruct (simple_leaf v) eqn:E; [apply Hs; exact E|left; reflexivity].
  - intros k Hk. apply Hs. exact (proj1 (simple_key_inv k Hk)).
Qed.

Lemma qlit_spelling s : qlit s -> spelling (format_string s) s.
Proof. intros H. destruct (qlit_form s H) as (_ & [[E1 E2]|[E1 E2]]); [left|right]; split; assumption. Qed.

Lemma sq_inj s s' : sq s = sq s' -> s = s'.
Proof. unfold sq. intros E. injection E as E. apply app_inj_tail in E. exact (proj1 E). Qed.
Lemma dq_inj s s' : dq s = dq s' -> s = s'.
Proof. unfold dq. intros E. injection E as E. apply app_inj_tail in E. exact (proj1 E). Qed.

Lemma quoted_content a s s' : (a = sq s \/ a = dq s) -> (a = sq s' \/ a = dq s') -> s = s'.
Proof.
  intros [-> | ->] [E|E]; [exact (sq_inj _ _ E)|discriminate E|discriminate E|exact (dq_inj _ _ E)].
Qed.

Lemma fill_variants : forall hl fs0 ss ls, Forall hq hl ->
  Forall2 (fun f s => f = format_string s /\ qlit s) fs0 ss -> Forall2 tok_spelling (fillT fs0 hl) ls ->
  exists fs, Forall2 spelling fs ss /\ ls = fillT fs hl.
Proof.
  induction hl as [|x hl IH]; intros fs0 ss ls Hh H0 H.
  - cbn [fillT] in H. inversion H; subst. exists (map format_string ss). split; [|reflexivity].
    clear -H0. induction H0 as [|f s fs0 ss [_ Hq] _ IH]; cbn [map]; constructor; [exact (qlit_spelling s Hq)|exact IH].
  - inversion Hh as [|x' hl' Hx Hh']; subst. destruct Hx as [-> | [Hnh Hq]].
    + destruct H0 as [|f0 s fs0' ss' [Ef Hqs] H0'].
      * cbn [fillT fill1 str_eqb] in H. change (fst (if HOLE =? HOLE then _ else _)) with [HOLE] in H.
        inversion H as [|a b l1 l2 Hab Hrest E1 E2]; subst.
        destruct (IH [] [] l2 Hh' (Forall2_nil _) Hrest) as (fs & Hfs & ->). inversion Hfs; subst.
        exists []. split; [constructor|]. destruct Hab as [-> | (s & [E|E] & _)]; [reflexivity|discriminate E|discriminate E].
      * rewrite fillT_hole_cons in H. inversion H as [|a b l1 l2 Hab Hrest E1 E2]; subst.
        destruct (IH fs0' ss' l2 Hh' H0' Hrest) as (fs & Hfs & ->).
        assert (Hsp : spelling b s).
        { pose proof (qlit_spelling s Hqs) as Hw. destruct Hab as [-> | (s' & Hs' & Hb)]; [exact Hw|].
          assert (Es : s = s').
          { apply (quoted_content (format_string s)); [|exact Hs']. destruct Hw as [[E _]|[E _]]; [left|right]; exact E. }
          subst s'. exact Hb. }
        exists (b :: fs). split; [constructor; assumption|]. rewrite fillT_hole_cons. reflexivity.
    + rewrite (fillT_plain_cons _ _ _ Hnh) in H. inversion H as [|a b l1 l2 Hab Hrest E1 E2]; subst.
      destruct (IH fs0 ss l2 Hh' H0 Hrest) as (fs & Hfs & ->).
      exists fs. split; [exact Hfs|]. rewrite (fillT_plain_cons _ _ _ Hnh). f_equal.
      destruct Hab as [-> | (s & [E|E] & _)]; [reflexivity| |]; subst x; discriminate Hq.
Qed.

Lemma token_variants kvs ls : ktree writable_leaf (Dict kvs) = true ->
  Forall2 tok_spelling (toks_tree FS FK false (Dict kvs)) ls ->
  exists fs, Forall2 spelling fs (qstrs (Dict kvs)) /\ ls = doc_toks fs kvs.
Proof.
  intros Hs H. rewrite <- (doc_toks_writer kvs Hs) in H. unfold doc_toks in *.
  apply (fill_variants _ (map format_string (qstrs (Dict kvs)))); [exact (hole_toks_hq _ false Hs)| |exact H].
  pose proof (qstrs_qlit (Dict kvs) Hs) as Hq. clear H. generalize dependent (qstrs (Dict kvs)). intros l Hq.
  induction Hq as [|s l Hs1 _ IHq]; cbn [map]; constructor; [split; [reflexivity|exact Hs1]|exact IHq].
Qed.

Theorem parse_any_layout_tokens : forall kvs ls (txt w1 w2 : list N) dirc count,
  wf (Dict kvs) = true -> writable_tree (Dict kvs) = true ->
  Forall2 tok_spelling (toks_tree FS FK false (Dict kvs)) ls -> rendering ls txt -> ws_run w1 -> ws_run w2 ->
  (-1 <= count)%Z -> (Z.of_nat (nq (Dict kvs)) <= 1000000)%Z -> quoted_within 11 (Dict kvs) = true ->
  parse_string true dirc count (w1 ++ txt ++ w2) =
    Ok (mkParsed (mkSD (kvs_of (map_leaves written_value (Dict kvs))) [] [] [] []) (cafter count (nq (Dict kvs)))).
Proof.
  intros kvs ls txt w1 w2 dirc count Hw Hwr Hls R H1 H2 Hc Hn Hdeep.
  pose proof Hwr as Hk. rewrite writable_ktree in Hk.
  destruct (token_variants kvs ls Hk Hls) as (fs & Hfs & ->).
  exact (parse_any_layout_spelled kvs fs txt w1 w2 dirc count Hw Hwr Hfs R H1 H2 Hc Hn Hdeep).
Qed.
