(* C09, part 2: reads over include graphs in which every file may be stored as JSON or as native text.
   Two file systems that agree up to the format of each file (same_content) read to the same ordinary data: the entries
   whose key is no include placeholder are the same, in the same order, with the same values.  The proof follows the
   ordinary part of the data through the include recursion: the ordinary part of a merge is the specification merge
   (SDictProofs.merge_spec) of the ordinary parts, the clean-up only ever deletes placeholder keys, and the recursion is
   driven by the include tables of the freshly parsed units, which list the same paths in both formats (part 1). *)
From Coq Require Import String.
From Coq Require Import NArith ZArith List Bool Lia ZifyBool ZifyN ZifyNat.
From DictIO Require Import Chars Str Value Scalar KeyPath SDict Layout Lexer TokParser Reader TreeSpec NativeSpec LayoutSpec E2ESpec.
From DictIO Require CounterParse ScalarProofs SDictProofs TokProofs LayoutProofs SemProofs KeyPathProofs ParserFuelProofs RereadStr RereadNum FlatDataProofs.
From DictIO Require Import IncludeProofs E2EProofs E2EHoles E2EKeyTok E2EFullProofs FoamProofs JsonNativeProofs.
Import ListNotations.
Open Scope N_scope.

(* ================================================================================================ *)
(* 1. the ordinary part of a dictionary                                                             *)
(* ================================================================================================ *)
Definition opart (d : list (key * tree)) : list (key * tree) := filter (fun kv => negb (is_include_key (fst kv))) d.

Definition phentry (kv : key * tree) : Prop := exists i, i < 1000000 /\ kv = (KS (PHI i), Leaf (SStr (PHI i))).
Definition oentry (kv : key * tree) : Prop := ordinary_key (fst kv) = true /\ ordinary (snd kv) = true /\ wf (snd kv) = true.
Definition gentry (kv : key * tree) : Prop := phentry kv \/ oentry kv.
Definition gdata (d : list (key * tree)) : Prop := NoDup (map fst d) /\ Forall gentry d.

Lemma PHI_is_inc i : i < 1000000 -> is_include_key (KS (PHI i)) = true.
Proof.
  intros Hi. pose proof (PHI_kind i Hi) as H. cbn [ph_kind_of is_include_key] in *.
  destruct (has_placeholder w_BLOCKCOMMENT (PHI i)); [discriminate H|].
  destruct (has_placeholder w_INCLUDE (PHI i)); [reflexivity|]. destruct (has_placeholder w_LINECOMMENT (PHI i)); discriminate H.
Qed.

Lemma ordinary_not_inc k : ordinary_key k = true -> is_include_key k = false.
Proof.
  unfold ordinary_key. intros H. apply andb_true_iff in H. destruct H as [H _]. destruct k as [z|s]; [reflexivity|].
  cbn [ph_kind_of is_include_key] in *. destruct (has_placeholder w_BLOCKCOMMENT s); [discriminate H|].
  destruct (has_placeholder w_INCLUDE s); [discriminate H|reflexivity].
Qed.

Lemma gentry_inc kv : gentry kv -> is_include_key (fst kv) = true -> phentry kv.
Proof. intros [H|[H _]] Hi; [exact H|]. rewrite (ordinary_not_inc _ H) in Hi. discriminate Hi. Qed.
Lemma gentry_ord kv : gentry kv -> is_include_key (fst kv) = false -> oentry kv.
Proof. intros [(i & Hi & ->)|H] Hn; [|exact H]. cbn [fst] in Hn. rewrite (PHI_is_inc i Hi) in Hn. discriminate Hn. Qed.

Lemma opart_aset_inc k v d : is_include_key k = true -> opart (aset k v d) = opart d.
Proof.
  intros Hk. induction d as [|[k0 v0] d IH]; cbn [aset opart filter fst]; [rewrite Hk; reflexivity|].
  destruct (key_eqb k k0) eqn:E.
  - apply SDictProofs.key_eqb_eq in E. subst k0. cbn [opart filter fst]. rewrite Hk. reflexivity.
  - cbn [filter fst]. fold (opart (aset k v d)). fold (opart d). rewrite IH. reflexivity.
Qed.

Lemma opart_aset_ord k v d : is_include_key k = false -> opart (aset k v d) = aset k v (opart d).
Proof.
  intros Hk. induction d as [|[k0 v0] d IH]; cbn [aset opart filter fst]; [rewrite Hk; reflexivity|].
  destruct (key_eqb k k0) eqn:E.
  - apply SDictProofs.key_eqb_eq in E. subst k0. cbn [opart filter fst]. rewrite Hk. cbn [negb aset]. rewrite SDictProofs.key_eqb_refl. reflexivity.
  - cbn [filter fst]. fold (opart (aset k v d)). fold (opart d). rewrite IH. destruct (is_include_key k0); cbn [negb]; [reflexivity|].
    cbn [aset]. rewrite E. reflexivity.
Qed.

Lemma alookup_opart k d : is_include_key k = false -> alookup k (opart d) = alookup k d.
Proof.
  intros Hk. induction d as [|[k0 v0] d IH]; [reflexivity|]. cbn [opart filter fst alookup]. fold (opart d).
  destruct (key_eqb k k0) eqn:E.
  - apply SDictProofs.key_eqb_eq in E. subst k0. rewrite Hk. cbn [negb alookup]. rewrite SDictProofs.key_eqb_refl. reflexivity.
  - destruct (is_include_key k0); cbn [negb]; [exact IH|]. cbn [alookup]. rewrite E. exact IH.
Qed.

Lemma opart_adel_inc k d : is_include_key k = true -> opart (adel k d) = opart d.
Proof.
  intros Hk. induction d as [|[k0 v0] d IH]; [reflexivity|]. cbn [adel].
  destruct (key_eqb k k0) eqn:E.
  - apply SDictProofs.key_eqb_eq in E. subst k0. cbn [opart filter fst]. rewrite Hk. reflexivity.
  - cbn [opart filter fst]. fold (opart (adel k d)). fold (opart d). rewrite IH. reflexivity.
Qed.

Lemma gdata_aset k v d : gdata d -> gentry (k, v) -> gdata (aset k v d).
Proof. intros [H1 H2] Hg. split; [apply SDictProofs.aset_nodup; exact H1|apply SDictProofs.aset_Forall; assumption]. Qed.

Lemma gdata_lookup k v d : gdata d -> alookup k d = Some v -> gentry (k, v).
Proof. intros [_ H] E. rewrite Forall_forall in H. apply H. apply SDictProofs.alookup_Some_In. exact E. Qed.

Lemma opart_gentry d : Forall gentry d -> Forall oentry (opart d).
Proof.
  intros H. apply Forall_forall. intros kv Hin. unfold opart in Hin. apply filter_In in Hin. destruct Hin as [Hin Hn].
  apply negb_true_iff in Hn. rewrite Forall_forall in H. exact (gentry_ord kv (H kv Hin) Hn).
Qed.

(* ================================================================================================ *)
(* 2. the ordinary part of a merge is the specification merge of the ordinary parts                 *)
(* ================================================================================================ *)
Lemma merge_fold_opart f exprs : forall m a, gdata a -> Forall gentry m ->
  Forall (fun kv => (depth (snd kv) <= f)%nat) m ->
  opart (fold_left (mk_step f (Some exprs)) m a) = fold_left SDictProofs.mstep (opart m) (opart a) /\
  gdata (fold_left (mk_step f (Some exprs)) m a).
Proof.
  induction m as [|[k ov] m IH]; intros a Ha Hm Hd; [split; [reflexivity|exact Ha]|].
  inversion Hm as [|? ? Hkv Hm']; subst. inversion Hd as [|? ? Hd1 Hd']; subst. cbn [snd] in Hd1. cbn [fold_left].
  destruct (is_include_key k) eqn:Ek.
  - (* an include placeholder entry: the ordinary part does not move *)
    destruct (gentry_inc _ Hkv Ek) as (i & Hi & E). inversion E; subst k ov. clear E.
    assert (Hstep : opart (mk_step f (Some exprs) a (KS (PHI i), Leaf (SStr (PHI i)))) = opart a /\
                    gdata (mk_step f (Some exprs) a (KS (PHI i), Leaf (SStr (PHI i))))).
    { unfold mk_step. destruct (alookup (KS (PHI i)) a) as [tv|] eqn:El.
      - assert (Htv : tv = Leaf (SStr (PHI i))).
        { destruct (gentry_inc _ (gdata_lookup _ _ _ Ha El) Ek) as (j & _ & E). inversion E as [[E1 E2]].
          apply FlatDataProofs.pad6_inj in E1. subst j. reflexivity. }
        subst tv. destruct (circular (KS (PHI i)) (insert_expression (Leaf (SStr (PHI i))) exprs)).
        + split; [apply opart_aset_inc; exact Ek|apply gdata_aset; assumption].
        + split; [reflexivity|exact Ha].
      - split; [apply opart_aset_inc; exact Ek|apply gdata_aset; assumption]. }
    destruct Hstep as [S1 S2]. cbn [opart filter fst]. rewrite Ek. cbn [negb]. fold (opart m).
    destruct (IH _ S2 Hm' Hd') as [I1 I2]. rewrite I1, S1. split; [reflexivity|exact I2].
  - (* an ordinary entry: the step is the specification step on the ordinary part *)
    destruct (gentry_ord _ Hkv Ek) as (Hk & Hov & Hwv). cbn [fst snd] in Hk, Hov, Hwv.
    assert (Hstep : opart (mk_step f (Some exprs) a (k, ov)) = SDictProofs.mstep (opart a) (k, ov) /\
                    gdata (mk_step f (Some exprs) a (k, ov))).
    { unfold mk_step, SDictProofs.mstep. cbn [fst snd]. rewrite (alookup_opart k a Ek).
      destruct (alookup k a) as [tv|] eqn:El.
      - destruct (gentry_ord _ (gdata_lookup _ _ _ Ha El) Ek) as (_ & Htv & Hwt). cbn [snd] in Htv, Hwt.
        pose proof (SDictProofs.circular_ordinary k tv exprs Hk Htv) as Hc. cbn [SDictProofs.mval].
        assert (Hsame : opart a = aset k tv (opart a)).
        { symmetry. apply SDictProofs.aset_same. rewrite (alookup_opart k a Ek). exact El. }
        destruct tv as [x|tsub|ts]; destruct ov as [y|osub|us]; try (rewrite Hc);
          try (rewrite SDictProofs.merge_spec_tree_nondict_l by (intros ? ?; discriminate));
          try (rewrite SDictProofs.merge_spec_tree_nondict_r by (intros ? ?; discriminate));
          try (split; [exact Hsame|exact Ha]).
        rewrite (SDictProofs.merge_kvs_none f osub tsub Hd1), <- SDictProofs.merge_spec_tree_dict.
        split; [apply opart_aset_ord; exact Ek|]. apply gdata_aset; [exact Ha|]. right. split; [exact Hk|]. cbn [snd].
        split; [apply SDictProofs.merge_tree_ordinary; assumption|apply SDictProofs.merge_tree_wf; assumption].
      - cbn [SDictProofs.mval]. split; [apply opart_aset_ord; exact Ek|apply gdata_aset; [exact Ha|right; repeat split; assumption]]. }
    destruct Hstep as [S1 S2]. cbn [opart filter fst]. rewrite Ek. cbn [negb fold_left]. fold (opart m).
    destruct (IH _ S2 Hm' Hd') as [I1 I2]. rewrite I1, S1. split; [reflexivity|exact I2].
Qed.

(* ================================================================================================ *)
(* 3. the clean-up deletes placeholder keys only                                                    *)
(* ================================================================================================ *)
Lemma gentry_kind kv : gentry kv -> ph_kind_of (fst kv) = Some PhInclude \/ ph_kind_of (fst kv) = None.
Proof.
  intros [(i & Hi & ->)|(Hk & _)]; [left; exact (PHI_kind i Hi)|right].
  unfold ordinary_key in Hk. apply andb_true_iff in Hk. destruct Hk as [Hk _]. destruct (ph_kind_of (fst kv)); [discriminate Hk|reflexivity].
Qed.

Lemma keys_of_kind_good kd d : Forall gentry d -> kd <> PhInclude -> keys_of_kind kd d = [].
Proof.
  intros H Hkd. unfold keys_of_kind. apply filter_none. intros k Hin. apply in_map_iff in Hin. destruct Hin as (kv & <- & Hin).
  rewrite Forall_forall in H. destruct (gentry_kind kv (H kv Hin)) as [E|E]; rewrite E; destruct kd; try reflexivity; congruence.
Qed.

Lemma kind_inc_key k : ph_kind_of k = Some PhInclude -> is_include_key k = true.
Proof.
  destruct k as [z|s]; [discriminate|]. cbn [ph_kind_of is_include_key]. destruct (has_placeholder w_BLOCKCOMMENT s); [discriminate|].
  destruct (has_placeholder w_INCLUDE s); [reflexivity|]. destruct (has_placeholder w_LINECOMMENT s); discriminate.
Qed.

Lemma clean_kind_opart {V} (veqb : V -> V -> bool) : forall keys data tab seen,
  (forall k, In k keys -> is_include_key k = true) ->
  opart (fst (clean_kind veqb keys data tab seen)) = opart data.
Proof.
  induction keys as [|k keys IH]; intros data tab seen Hk; [reflexivity|]. cbn [clean_kind].
  assert (Hk' : forall k0, In k0 keys -> is_include_key k0 = true) by (intros k0 H0; apply Hk; right; exact H0).
  destruct (key_id k) as [i|]; [|exact (IH _ _ _ Hk')]. destruct (tlookup i tab) as [v|]; [|exact (IH _ _ _ Hk')].
  destruct (existsb (veqb v) seen); [|exact (IH _ _ _ Hk')]. rewrite (IH _ _ _ Hk'). apply opart_adel_inc. apply Hk. left. reflexivity.
Qed.

Lemma cstep_fold_id f (s : sdict) : forall d, gdata d ->
  forall l, (forall kv, In kv l -> In kv d) -> fold_left (SDictProofs.cstep f) l (d, s) = (d, s).
Proof.
  intros d [Hnd Hall]. induction l as [|[k v] l IHl]; intros Hsub; [reflexivity|]. cbn [fold_left].
  assert (Hin : In (k, v) d) by (apply Hsub; left; reflexivity).
  assert (Hc : SDictProofs.cstep f (d, s) (k, v) = (d, s)).
  { unfold SDictProofs.cstep. cbn [fst snd]. destruct v as [x|sub|ts]; try reflexivity.
    rewrite Forall_forall in Hall. destruct (Hall _ Hin) as [(i & _ & E)|(_ & Ho & Hw)]; [discriminate E|]. cbn [snd] in Ho, Hw.
    rewrite (SemProofs.clean_tree_id_full f sub s Ho Hw).
    rewrite SDictProofs.aset_same; [reflexivity|]. apply SDictProofs.alookup_In_nodup; assumption. }
  rewrite Hc. apply IHl. intros kv H'. apply Hsub. right. exact H'.
Qed.

Lemma sd_clean_good s : gdata (sd_data s) -> sd_lc s = [] -> sd_bc s = [] ->
  opart (sd_data (sd_clean s)) = opart (sd_data s) /\ gdata (sd_data (sd_clean s)) /\
  sd_lc (sd_clean s) = [] /\ sd_bc (sd_clean s) = [] /\ sd_expr (sd_clean s) = sd_expr s.
Proof.
  intros Hg Hlc Hbc. destruct Hg as [Hnd Hall].
  set (data := sd_data s) in *.
  set (ck := clean_kind inc_eqb (keys_of_kind PhInclude data) data (sd_inc s) []).
  assert (Hlev : clean_level data s = (fst ck, mkSD data [] [] (snd ck) (sd_expr s))).
  { unfold clean_level. rewrite (keys_of_kind_good PhBlock data Hall ltac:(discriminate)),
      (keys_of_kind_good PhLine data Hall ltac:(discriminate)). cbn [clean_kind]. fold ck. destruct ck as [d2 inc2].
    cbn [clean_kind fst snd]. rewrite Hlc, Hbc. reflexivity. }
  assert (Hg3 : gdata (fst ck)).
  { split; [apply SDictProofs.clean_kind_nodup; exact Hnd|]. apply Forall_forall. intros kv Hin.
    rewrite Forall_forall in Hall. apply Hall. exact (ParserFuelProofs.clean_kind_incl inc_eqb _ _ _ _ kv Hin). }
  assert (Ho3 : opart (fst ck) = opart data).
  { apply clean_kind_opart. intros k Hin. apply kind_inc_key. exact (proj1 (CounterParse.keys_of_kind_kind _ _ _ Hin)). }
  unfold sd_clean. fold data. rewrite SDictProofs.clean_tree_S, Hlev. cbn [fst].
  rewrite (cstep_fold_id _ _ (fst ck) Hg3 (fst ck) (fun kv H => H)).
  cbn [sd_data sd_lc sd_bc sd_inc sd_expr]. split; [exact Ho3|]. split; [exact Hg3|]. repeat split.
Qed.

(* ================================================================================================ *)
(* 4. sd_merge on good states                                                                       *)
(* ================================================================================================ *)
Definition good (s : sdict) : Prop := gdata (sd_data s) /\ sd_lc s = [] /\ sd_bc s = [] /\ sd_expr s = [].

Lemma good_empty : good sd_empty.
Proof. split; [split; constructor|repeat split]. Qed.

Lemma sd_merge_good a o : good a -> good o ->
  good (sd_merge a (sd_data o) (Some o)) /\
  opart (sd_data (sd_merge a (sd_data o) (Some o))) = merge_spec (opart (sd_data a)) (opart (sd_data o)).
Proof.
  intros (Ga & La & Ba & Ea) (Go & Lo & Bo & Eo). unfold sd_merge. rewrite merge_kvs_S, La, Ba, Ea, Lo, Bo, Eo.
  change (tmerge (@nil (N * str)) []) with (@nil (N * str)). change (tmerge (@nil (N * expr_entry)) []) with (@nil (N * expr_entry)).
  set (m := sd_data o) in *. set (f := depth (Dict m)).
  assert (Hd : Forall (fun kv => (depth (snd kv) <= f)%nat) m).
  { apply Forall_forall. intros kv Hin. pose proof (SDictProofs.depth_child _ _ Hin) as H. unfold f. cbn [depth]. lia. }
  destruct (merge_fold_opart f [] m (sd_data a) Ga (proj2 Go) Hd) as [M1 M2].
  set (d := fold_left (mk_step f (Some [])) m (sd_data a)) in *.
  destruct (sd_clean_good (mkSD d [] [] (tmerge (sd_inc a) (sd_inc o)) []) M2 eq_refl eq_refl) as (C1 & C2 & C3 & C4 & C5).
  cbn [sd_data sd_expr] in C1, C5. split.
  - split; [exact C2|]. split; [exact C3|]. split; [exact C4|exact C5].
  - rewrite C1, M1, SDictProofs.merge_spec_fold. reflexivity.
Qed.

(* ================================================================================================ *)
(* 5. units: a document with include entries, stored as JSON or as native text                      *)
(* ================================================================================================ *)
(* the side conditions of part 1, plus: every leaf reads back as itself (stable_tree), so that the native reading of
   the ordinary content is the content itself *)
Definition udoc_okb (ins : list (str * str)) (kvs : list (key * tree)) : bool :=
  wf (Dict (json_inc_kvs ins ++ kvs)) && forallb inc_ok ins && strs_nodup (inames ins) &&
  writable_tree (Dict kvs) && stable_tree (Dict kvs) && ordinary_kvs kvs && no_include_keys kvs &&
  (Z.of_nat (length ins) <=? 1000000)%Z && (Z.of_nat (nq (Dict kvs)) <=? 1000000)%Z && quoted_within 11 (Dict kvs).

Definition render_json (ins : list (str * str)) (kvs : list (key * tree)) : funit := FJson (json_inc_kvs ins ++ kvs).
Definition render_native (ins : list (str * str)) (kvs : list (key * tree)) : funit :=
  FNative (inc_text (inames ins) ++ to_string_plain kvs).
Definition renders (ins : list (str * str)) (kvs : list (key * tree)) (u : funit) : Prop :=
  u = render_json ins kvs \/ u = render_native ins kvs.
(* two units that denote the same content *)
Definition same_content (u1 u2 : funit) : Prop :=
  exists ins kvs, udoc_okb ins kvs = true /\ renders ins kvs u1 /\ renders ins kvs u2.

Definition ipath (e : N * include_entry) : str := snd (snd e).

(* what either parser delivers for such a unit *)
Definition presult (dir : str) (ins : list (str * str)) (kvs : list (key * tree)) (pr : parsed) : Prop :=
  exists iks, NoDup iks /\ small iks /\ length iks = length ins /\
    sd_data (pr_sd pr) = inc_phs iks ++ kvs /\ map fst (sd_inc (pr_sd pr)) = iks /\
    map ipath (sd_inc (pr_sd pr)) = map (path_join dir) (inames ins) /\
    sd_lc (pr_sd pr) = [] /\ sd_bc (pr_sd pr) = [] /\ sd_expr (pr_sd pr) = [] /\ (-1 <= pr_count pr)%Z.

Lemma udoc_inv ins kvs : udoc_okb ins kvs = true ->
  wf (Dict (json_inc_kvs ins ++ kvs)) = true /\ forallb inc_ok ins = true /\ strs_nodup (inames ins) = true /\
  writable_tree (Dict kvs) = true /\ stable_tree (Dict kvs) = true /\ ordinary_kvs kvs = true /\ no_include_keys kvs = true /\
  (Z.of_nat (length ins) <= 1000000)%Z /\ (Z.of_nat (nq (Dict kvs)) <= 1000000)%Z /\ quoted_within 11 (Dict kvs) = true.
Proof.
  unfold udoc_okb. intros H.
  apply andb_true_iff in H. destruct H as [H A10]. apply andb_true_iff in H. destruct H as [H A9].
  apply andb_true_iff in H. destruct H as [H A8]. apply andb_true_iff in H. destruct H as [H A7].
  apply andb_true_iff in H. destruct H as [H A6]. apply andb_true_iff in H. destruct H as [H A5].
  apply andb_true_iff in H. destruct H as [H A4]. apply andb_true_iff in H. destruct H as [H A3].
  apply andb_true_iff in H. destruct H as [A1 A2]. apply Z.leb_le in A8, A9.
  repeat split; assumption.
Qed.

Lemma ipath_combine ks (es : list include_entry) : length ks = length es -> map ipath (combine ks es) = map snd es.
Proof.
  revert es. induction ks as [|k ks IH]; intros [|e es] H; try discriminate H; [reflexivity|].
  cbn [combine map ipath snd]. f_equal. apply IH. cbn [length] in H. lia.
Qed.

Lemma parse_renders path c ins kvs u : udoc_okb ins kvs = true -> renders ins kvs u -> (-1 <= c)%Z ->
  exists pr, parse_unit true path c u = Ok pr /\ presult (dir_of path) ins kvs pr.
Proof.
  intros Hu Hr Hc. destruct (udoc_inv ins kvs Hu) as (H1 & H2 & H3 & H4 & H5 & H6 & H7 & H8 & H9 & H10).
  destruct (json_native_includes_b (dir_of path) c c ins kvs H1 H2 H3 H4 H6 H7 Hc Hc H8 H9 H10) as [Ej En]. cbv zeta in Ej, En.
  set (n := length ins) in *. set (iks := ids c n).
  assert (Hnd : NoDup iks) by (apply ids_nodup; assumption).
  assert (Hsm : small iks) by apply ids_small.
  assert (Hl : length iks = length ins) by apply ids_length.
  destruct Hr as [-> | ->].
  - eexists. cbn [parse_unit render_json]. split; [reflexivity|]. rewrite Ej. exists iks. cbn [pr_sd pr_count sd_data sd_inc sd_lc sd_bc sd_expr].
    assert (L : length iks = length (map (json_entry (dir_of path)) (inames ins))) by (rewrite map_length, inames_length; exact Hl).
    refine (conj Hnd (conj Hsm (conj Hl (conj eq_refl (conj _ (conj _ (conj eq_refl (conj eq_refl (conj eq_refl _))))))))).
    + fold iks. apply combine_fst. exact L.
    + fold iks. rewrite (ipath_combine _ _ L), map_map. reflexivity.
    + apply cafter_ge. exact Hc.
  - eexists. cbn [parse_unit render_native]. split; [exact En|]. exists iks. cbn [pr_sd pr_count sd_data sd_inc sd_lc sd_bc sd_expr].
    assert (L : length iks = length (map (nat_entry (dir_of path)) (inames ins))) by (rewrite map_length, inames_length; exact Hl).
    rewrite (stable_map (Dict kvs) H5). cbn [kvs_of].
    refine (conj Hnd (conj Hsm (conj Hl (conj eq_refl (conj _ (conj _ (conj eq_refl (conj eq_refl (conj eq_refl _))))))))).
    + fold iks. apply combine_fst. exact L.
    + fold iks. rewrite (ipath_combine _ _ L), map_map. reflexivity.
    + apply cafter_ge. apply cafter_ge. exact Hc.
Qed.

Lemma kvs_oentries kvs : ordinary_kvs kvs = true -> wf (Dict kvs) = true -> Forall oentry kvs /\ NoDup (map fst kvs).
Proof.
  intros Ho Hw. apply SDictProofs.ordinary_Dict_iff in Ho. apply SDictProofs.wf_Dict_iff in Hw. destruct Hw as [Hnd Hw]. split; [|exact Hnd].
  apply Forall_forall. intros kv Hin. rewrite Forall_forall in Ho, Hw. destruct (Ho kv Hin) as [A B]. split; [exact A|split; [exact B|exact (Hw kv Hin)]].
Qed.

Lemma opart_phs_app iks kvs : small iks -> Forall oentry kvs -> opart (inc_phs iks ++ kvs) = kvs.
Proof.
  intros Hs Hk. unfold opart. rewrite filter_app. rewrite (filter_none _ (inc_phs iks)), (filter_all _ kvs); [reflexivity| |].
  - intros kv Hin. rewrite Forall_forall in Hk. destruct (Hk kv Hin) as [A _]. rewrite (ordinary_not_inc _ A). reflexivity.
  - intros kv Hin. unfold inc_phs in Hin. apply in_map_iff in Hin. destruct Hin as (i & <- & Hi). cbn [fst].
    unfold small in Hs. rewrite Forall_forall in Hs. rewrite (PHI_is_inc i (Hs i Hi)). reflexivity.
Qed.

Lemma presult_good dir ins kvs pr : udoc_okb ins kvs = true -> presult dir ins kvs pr ->
  good (pr_sd pr) /\ opart (sd_data (pr_sd pr)) = kvs.
Proof.
  intros Hu (iks & Hnd & Hsm & Hl & Ed & _ & _ & El & Eb & Ee & _).
  destruct (udoc_inv ins kvs Hu) as (H1 & _ & _ & _ & _ & H6 & _). destruct (wf_app_inv _ _ H1) as (_ & _ & Hw).
  destruct (kvs_oentries kvs H6 Hw) as [Hoe Hndk]. split; [|rewrite Ed; exact (opart_phs_app iks kvs Hsm Hoe)].
  split; [|repeat split; assumption]. rewrite Ed. split.
  - rewrite map_app. apply NoDup_app_intro; [apply inc_phs_nodup; exact Hnd|exact Hndk|].
    intros k H1' H2'. rewrite inc_phs_keys in H1'. apply in_map_iff in H1'. destruct H1' as (i & <- & Hi).
    apply in_map_iff in H2'. destruct H2' as (kv & Ek & Hin). rewrite Forall_forall in Hoe. destruct (Hoe kv Hin) as [A _].
    rewrite Ek in A. pose proof (ordinary_not_inc _ A) as B. unfold small in Hsm. rewrite Forall_forall in Hsm.
    rewrite (PHI_is_inc i (Hsm i Hi)) in B. discriminate B.
  - apply Forall_app. split.
    + apply Forall_forall. intros kv Hin. unfold inc_phs in Hin. apply in_map_iff in Hin. destruct Hin as (i & <- & Hi).
      left. exists i. split; [|reflexivity]. unfold small in Hsm. rewrite Forall_forall in Hsm. exact (Hsm i Hi).
    + revert Hoe. apply Forall_impl. intros kv H. right. exact H.
Qed.

(* ================================================================================================ *)
(* 6. two file systems that agree up to the format of each file                                     *)
(* ================================================================================================ *)
Definition fs_rel (fs1 fs2 : fsys) : Prop :=
  Forall2 (fun a b => fst a = fst b /\ same_content (snd a) (snd b)) fs1 fs2.

Lemma fs_lookup_rel fs1 fs2 p : fs_rel fs1 fs2 ->
  match fs_lookup p fs1, fs_lookup p fs2 with
  | None, None => True
  | Some u1, Some u2 => same_content u1 u2
  | _, _ => False
  end.
Proof.
  induction 1 as [|[q1 u1] [q2 u2] fs1 fs2 [Hq Hu] _ IH]; [exact I|]. cbn [fst snd] in Hq, Hu. subst q2.
  cbn [fs_lookup]. destruct (str_eqb p q1); [exact Hu|exact IH].
Qed.

Lemma fs_rel_length fs1 fs2 : fs_rel fs1 fs2 -> length fs1 = length fs2.
Proof. induction 1 as [|a b l1 l2 _ _ IH]; [reflexivity|]. cbn [length]. rewrite IH. reflexivity. Qed.

Definition prel (p1 p2 : sdict) : Prop :=
  good p1 /\ good p2 /\ opart (sd_data p1) = opart (sd_data p2) /\ map ipath (sd_inc p1) = map ipath (sd_inc p2).
Definition rres (r1 r2 : res (sdict * Z)) : Prop :=
  match r1, r2 with
  | Ok (s1, k1), Ok (s2, k2) => good s1 /\ good s2 /\ opart (sd_data s1) = opart (sd_data s2) /\ (-1 <= k1)%Z /\ (-1 <= k2)%Z
  | Raise e1, Raise e2 => e1 = e2
  | _, _ => False
  end.
Definition rec_rel (rec1 rec2 : list str -> sdict -> Z -> res (sdict * Z)) : Prop :=
  forall chain p1 p2 c1 c2, prel p1 p2 -> (-1 <= c1)%Z -> (-1 <= c2)%Z -> rres (rec1 chain p1 c1) (rec2 chain p2 c2).

Lemma merge_rel t1 t2 i1 i2 : good t1 -> good t2 -> opart (sd_data t1) = opart (sd_data t2) ->
  good i1 -> good i2 -> opart (sd_data i1) = opart (sd_data i2) ->
  good (sd_merge t1 (sd_data i1) (Some i1)) /\ good (sd_merge t2 (sd_data i2) (Some i2)) /\
  opart (sd_data (sd_merge t1 (sd_data i1) (Some i1))) = opart (sd_data (sd_merge t2 (sd_data i2) (Some i2))).
Proof.
  intros G1 G2 E H1 H2 E'. destruct (sd_merge_good t1 i1 G1 H1) as [A1 B1]. destruct (sd_merge_good t2 i2 G2 H2) as [A2 B2].
  split; [exact A1|]. split; [exact A2|]. rewrite B1, B2, E, E'. reflexivity.
Qed.

Lemma presult_inc_nil dir ins kvs pr : presult dir ins kvs pr -> (sd_inc (pr_sd pr) = [] <-> ins = []).
Proof.
  intros (iks & _ & _ & Hl & _ & Hf & _). split.
  - intros E. rewrite E in Hf. cbn [map] in Hf. subst iks. destruct ins; [reflexivity|discriminate Hl].
  - intros ->. cbn [length] in Hl. destruct iks; [|discriminate Hl]. destruct (sd_inc (pr_sd pr)); [reflexivity|discriminate Hf].
Qed.

Lemma step_rel rec1 rec2 fs1 fs2 chain : rec_rel rec1 rec2 -> fs_rel fs1 fs2 ->
  forall acc1 acc2 e1 e2, ipath e1 = ipath e2 -> rres acc1 acc2 ->
  rres (inc_step rec1 fs1 true chain acc1 e1) (inc_step rec2 fs2 true chain acc2 e2).
Proof.
  intros Hrec Hfs acc1 acc2 [i1 [[d1 n1] path]] [i2 [[d2 n2] path2]] Hp Hacc. unfold ipath in Hp. cbn [snd] in Hp. subst path2.
  destruct acc1 as [[t1 k1]|x1], acc2 as [[t2 k2]|x2]; cbn [rres] in Hacc; try contradiction; [|exact Hacc].
  destruct Hacc as (G1 & G2 & Eo & K1 & K2).
  destruct (in_chain (norm_path path) chain) eqn:Hc.
  { match goal with |- rres ?a ?b =>
      rewrite (inc_step_skip rec1 fs1 true chain t1 k1 i1 d1 n1 path (or_introl Hc) : a = _);
      rewrite (inc_step_skip rec2 fs2 true chain t2 k2 i2 d2 n2 path (or_introl Hc) : b = _) end.
    exact (conj G1 (conj G2 (conj Eo (conj K1 K2)))). }
  pose proof (fs_lookup_rel fs1 fs2 (norm_path path) Hfs) as Hl.
  destruct (fs_lookup (norm_path path) fs1) as [u1|] eqn:L1, (fs_lookup (norm_path path) fs2) as [u2|] eqn:L2; try contradiction.
  2:{ match goal with |- rres ?a ?b =>
        rewrite (inc_step_skip rec1 fs1 true chain t1 k1 i1 d1 n1 path (or_intror L1) : a = _);
        rewrite (inc_step_skip rec2 fs2 true chain t2 k2 i2 d2 n2 path (or_intror L2) : b = _) end.
      exact (conj G1 (conj G2 (conj Eo (conj K1 K2)))). }
  destruct Hl as (ins & kvs & Hu & R1 & R2).
  match goal with |- rres ?a ?b =>
    rewrite (inc_step_valid rec1 fs1 true chain t1 k1 i1 d1 n1 path u1 Hc L1 : a = _);
    rewrite (inc_step_valid rec2 fs2 true chain t2 k2 i2 d2 n2 path u2 Hc L2 : b = _) end.
  destruct (parse_renders path k1 ins kvs u1 Hu R1 K1) as (pr1 & P1 & Q1).
  destruct (parse_renders path k2 ins kvs u2 Hu R2 K2) as (pr2 & P2 & Q2).
  rewrite P1, P2. cbn [bind].
  destruct (presult_good _ ins kvs pr1 Hu Q1) as [Gp1 Op1]. destruct (presult_good _ ins kvs pr2 Hu Q2) as [Gp2 Op2].
  pose proof (presult_inc_nil _ _ _ _ Q1) as N1. pose proof (presult_inc_nil _ _ _ _ Q2) as N2.
  assert (Kp1 : (-1 <= pr_count pr1)%Z) by (destruct Q1 as (? & ? & ? & ? & ? & ? & ? & ? & ? & ? & Hq); exact Hq).
  assert (Kp2 : (-1 <= pr_count pr2)%Z) by (destruct Q2 as (? & ? & ? & ? & ? & ? & ? & ? & ? & ? & Hq); exact Hq).
  assert (Hpaths : map ipath (sd_inc (pr_sd pr1)) = map ipath (sd_inc (pr_sd pr2))).
  { destruct Q1 as (? & ? & ? & ? & ? & ? & Hq1 & _). destruct Q2 as (? & ? & ? & ? & ? & ? & Hq2 & _). rewrite Hq1, Hq2. reflexivity. }
  unfold sub_result. destruct ins as [|in0 ins'].
  - rewrite (proj2 N1 eq_refl), (proj2 N2 eq_refl). cbn [bind fst snd].
    destruct (merge_rel t1 t2 (pr_sd pr1) (pr_sd pr2) G1 G2 Eo Gp1 Gp2 ltac:(rewrite Op1, Op2; reflexivity)) as (A & B & C).
    exact (conj A (conj B (conj C (conj Kp1 Kp2)))).
  - assert (Hn1 : sd_inc (pr_sd pr1) <> []) by (intros E; apply N1 in E; discriminate E).
    assert (Hn2 : sd_inc (pr_sd pr2) <> []) by (intros E; apply N2 in E; discriminate E).
    destruct (sd_inc (pr_sd pr1)) as [|x1 l1] eqn:E1; [congruence|]. destruct (sd_inc (pr_sd pr2)) as [|x2 l2] eqn:E2; [congruence|].
    assert (Hprel : prel (pr_sd pr1) (pr_sd pr2)).
    { split; [exact Gp1|]. split; [exact Gp2|]. split; [rewrite Op1, Op2; reflexivity|]. rewrite E1, E2. exact Hpaths. }
    pose proof (Hrec (chain ++ [norm_path path]) (pr_sd pr1) (pr_sd pr2) (pr_count pr1) (pr_count pr2) Hprel Kp1 Kp2) as Hr.
    destruct (rec1 (chain ++ [norm_path path]) (pr_sd pr1) (pr_count pr1)) as [[j1 m1]|y1],
             (rec2 (chain ++ [norm_path path]) (pr_sd pr2) (pr_count pr2)) as [[j2 m2]|y2]; cbn [rres] in Hr; try contradiction; [|exact Hr].
    destruct Hr as (J1 & J2 & Ej & M1 & M2). cbn [bind fst snd].
    destruct (merge_rel t1 t2 j1 j2 G1 G2 Eo J1 J2 Ej) as (A & B & C).
    destruct (merge_rel _ _ j1 j2 A B C J1 J2 Ej) as (A' & B' & C').
    exact (conj A' (conj B' (conj C' (conj M1 M2)))).
Qed.

Lemma fold_rel rec1 rec2 fs1 fs2 chain : rec_rel rec1 rec2 -> fs_rel fs1 fs2 ->
  forall l1 l2 acc1 acc2, map ipath l1 = map ipath l2 -> rres acc1 acc2 ->
  rres (fold_left (inc_step rec1 fs1 true chain) l1 acc1) (fold_left (inc_step rec2 fs2 true chain) l2 acc2).
Proof.
  intros Hrec Hfs. induction l1 as [|e1 l1 IH]; intros [|e2 l2] acc1 acc2 Hm Hacc; try discriminate Hm; [exact Hacc|].
  cbn [map] in Hm. inversion Hm as [[H1 H2]]. cbn [fold_left]. apply IH; [exact H2|]. apply step_rel; assumption.
Qed.

Lemma rec_rel_fuel fs1 fs2 : fs_rel fs1 fs2 -> forall f, rec_rel (merge_includes_rec f fs1 true) (merge_includes_rec f fs2 true).
Proof.
  intros Hfs. induction f as [|f IH]; intros chain p1 p2 c1 c2 (G1 & G2 & Eo & Ep) K1 K2; [reflexivity|].
  rewrite !merge_includes_rec_S.
  pose proof (fold_rel _ _ fs1 fs2 chain IH Hfs (sd_inc p1) (sd_inc p2) (Ok (sd_empty, c1)) (Ok (sd_empty, c2)) Ep) as Hr.
  specialize (Hr (conj good_empty (conj good_empty (conj eq_refl (conj K1 K2))))).
  destruct (fold_left (inc_step (merge_includes_rec f fs1 true) fs1 true chain) (sd_inc p1) (Ok (sd_empty, c1))) as [[t1 k1]|x1],
           (fold_left (inc_step (merge_includes_rec f fs2 true) fs2 true chain) (sd_inc p2) (Ok (sd_empty, c2))) as [[t2 k2]|x2];
    cbn [rres] in Hr; try contradiction; [|exact Hr].
  destruct Hr as (T1 & T2 & Et & M1 & M2). cbn [bind].
  destruct (merge_rel p1 p2 t1 t2 G1 G2 Eo T1 T2 Et) as (A & B & C). exact (conj A (conj B (conj C (conj M1 M2)))).
Qed.

(* ================================================================================================ *)
(* 7. the reads                                                                                     *)
(* ================================================================================================ *)
Theorem merge_includes_mixed fs1 fs2 p1 p2 c1 c2 : fs_rel fs1 fs2 -> prel p1 p2 -> (-1 <= c1)%Z -> (-1 <= c2)%Z ->
  rres (merge_includes fs1 true p1 c1) (merge_includes fs2 true p2 c2).
Proof.
  intros Hfs Hp K1 K2. unfold merge_includes. rewrite <- (fs_rel_length fs1 fs2 Hfs).
  pose proof (rec_rel_fuel fs1 fs2 Hfs (S (length fs1)) [] p1 p2 c1 c2 Hp K1 K2) as Hr.
  destruct (merge_includes_rec (S (length fs1)) fs1 true [] p1 c1) as [[t1 k1]|x1],
           (merge_includes_rec (S (length fs1)) fs2 true [] p2 c2) as [[t2 k2]|x2]; cbn [rres] in Hr; try contradiction; [|exact Hr].
  destruct Hr as (T1 & T2 & Et & M1 & M2). cbn [bind].
  destruct (merge_rel t1 t2 t1 t2 T1 T2 Et T1 T2 Et) as (A & B & C). exact (conj A (conj B (conj C (conj M1 M2)))).
Qed.

(* the result of a read: the ordinary data of the two file systems are the same (or both reads fail alike) *)
Definition same_read (r1 r2 : res (sdict * Z)) : Prop :=
  match r1, r2 with
  | Ok (s1, _), Ok (s2, _) => opart (sd_data s1) = opart (sd_data s2)
  | Raise e1, Raise e2 => e1 = e2
  | _, _ => False
  end.

Theorem read_mixed_formats : forall fs1 fs2 root c1 c2, fs_rel fs1 fs2 -> (-1 <= c1)%Z -> (-1 <= c2)%Z ->
  same_read (read_plain fs1 root true true c1) (read_plain fs2 root true true c2).
Proof.
  intros fs1 fs2 root c1 c2 Hfs K1 K2. unfold read_plain.
  pose proof (fs_lookup_rel fs1 fs2 (norm_path root) Hfs) as Hl.
  destruct (fs_lookup (norm_path root) fs1) as [u1|], (fs_lookup (norm_path root) fs2) as [u2|]; try contradiction; [|reflexivity].
  destruct Hl as (ins & kvs & Hu & R1 & R2).
  destruct (parse_renders root c1 ins kvs u1 Hu R1 K1) as (pr1 & P1 & Q1).
  destruct (parse_renders root c2 ins kvs u2 Hu R2 K2) as (pr2 & P2 & Q2).
  rewrite P1, P2. cbn [bind].
  destruct (presult_good _ ins kvs pr1 Hu Q1) as [Gp1 Op1]. destruct (presult_good _ ins kvs pr2 Hu Q2) as [Gp2 Op2].
  assert (Hprel : prel (pr_sd pr1) (pr_sd pr2)).
  { split; [exact Gp1|]. split; [exact Gp2|]. split; [rewrite Op1, Op2; reflexivity|].
    destruct Q1 as (? & ? & ? & ? & ? & ? & Hq1 & _). destruct Q2 as (? & ? & ? & ? & ? & ? & Hq2 & _). rewrite Hq1, Hq2. reflexivity. }
  assert (Kp1 : (-1 <= pr_count pr1)%Z) by (destruct Q1 as (? & ? & ? & ? & ? & ? & ? & ? & ? & ? & Hq); exact Hq).
  assert (Kp2 : (-1 <= pr_count pr2)%Z) by (destruct Q2 as (? & ? & ? & ? & ? & ? & ? & ? & ? & ? & Hq); exact Hq).
  pose proof (merge_includes_mixed fs1 fs2 _ _ _ _ Hfs Hprel Kp1 Kp2) as Hr.
  destruct (merge_includes fs1 true (pr_sd pr1) (pr_count pr1)) as [[s1 k1]|x1],
           (merge_includes fs2 true (pr_sd pr2) (pr_count pr2)) as [[s2 k2]|x2]; cbn [rres] in Hr; try contradiction; [|exact Hr].
  destruct Hr as (_ & _ & E & _). cbn [bind same_read sd_data]. exact E.
Qed.
Print Assumptions read_mixed_formats.
