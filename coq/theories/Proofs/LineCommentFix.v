(* The repaired _extract_line_comments: the comment is replaced WHERE IT WAS FOUND
   (line[:match.start()] + placeholder + line[match.end():]), not by str.replace of its text over the whole line.
   What stands in front of the comment is kept verbatim: a URL in a value (colon, two slashes) is untouched. *)
From Coq Require Import NArith ZArith List Bool.
From DictIO Require Import Chars Str SDict Lexer LayoutSpec LayoutProofs.
Import ListNotations.
Local Open Scope N_scope.

(* chomp_lf splits a line into its body and its final line feed *)
Lemma lcf_chomp_app (l : str) : fst (chomp_lf l) ++ snd (chomp_lf l) = l.
Proof.
  unfold chomp_lf. destruct (rev l) as [|c r] eqn:E.
  - destruct l as [|x l']; [reflexivity|]. apply (f_equal (@length N)) in E. rewrite rev_length in E. discriminate E.
  - destruct (c =? c_lf) eqn:Ec; cbn [fst snd].
    + apply N.eqb_eq in Ec. subst c. rewrite <- (rev_involutive l), E. reflexivity.
    + apply app_nil_r.
Qed.

Lemma lcf_chomp_nl (l : str) : snd (chomp_lf l) = [] \/ snd (chomp_lf l) = [c_lf].
Proof.
  unfold chomp_lf. destruct (rev l) as [|c r]; [left; reflexivity|].
  destruct (c =? c_lf); [right|left]; reflexivity.
Qed.

(* the scanner: what it returns is a split of the text at the FIRST pair of slashes that no colon precedes *)
Lemma lcf_find_comment_split : forall (s : str) pc acc x y,
  find_comment pc acc s = Some (x, y) ->
  exists b, x = rev acc ++ b /\ s = b ++ y /\ (exists r, y = c_slash :: c_slash :: r) /\
            forall acc', find_comment pc acc' b = None.
Proof.
  induction s as [|a s IH]; intros pc acc x y H; [discriminate H|].
  destruct s as [|b s']; [discriminate H|]. cbn [find_comment] in H.
  destruct ((a =? c_slash) && (b =? c_slash) && negb pc) eqn:E.
  - injection H as <- <-. exists []. rewrite app_nil_r. repeat split.
    apply andb_true_iff in E. destruct E as [E _]. apply andb_true_iff in E. destruct E as [Ea Eb].
    apply N.eqb_eq in Ea. apply N.eqb_eq in Eb. subst a b. exists s'. reflexivity.
  - destruct (IH (a =? c_colon) (a :: acc) x y H) as (b0 & Ex & Es & Hy & Hn).
    exists (a :: b0). cbn [rev] in Ex. rewrite <- app_assoc in Ex. repeat split; [exact Ex|cbn [app]; rewrite <- Es; reflexivity|exact Hy|].
    intros acc'. destruct b0 as [|b1 b0']; [reflexivity|].
    cbn [app] in Es. injection Es as Eb _. subst b1. cbn [find_comment]. rewrite E. apply Hn.
Qed.

Theorem line_comment_replaced_in_place : forall comments c l l' c' i cmt,
  extract_line_comment comments c l = (l', c', Some (i, cmt)) ->
  let body := fst (chomp_lf l) in
  let nl := snd (chomp_lf l) in
  exists before,
    body = before ++ cmt /\
    (exists rest, cmt = c_slash :: c_slash :: rest) /\
    find_comment false [] before = None /\
    l' = before ++ (if comments then placeholder w_LINECOMMENT i else []) ++ nl /\
    l = before ++ cmt ++ nl /\ (nl = [] \/ nl = [c_lf]) /\
    c' = counter_next c /\ i = Z.to_N c'.
Proof.
  intros comments c l l' c' i cmt H body nl. subst body nl.
  pose proof (lcf_chomp_app l) as Happ. pose proof (lcf_chomp_nl l) as Hnl.
  unfold extract_line_comment in H. destruct (chomp_lf l) as [body nl]. cbn [fst snd] in *.
  destruct (find_comment false [] body) as [[before cm]|] eqn:Ef; [|discriminate H].
  injection H as <- <- <- <-.
  destruct (lcf_find_comment_split body false [] before cm Ef) as (b & Ex & Es & Hy & Hn).
  cbn [rev app] in Ex. subst b. exists before. repeat split; try assumption.
  - apply Hn.
  - rewrite <- Happ, Es, <- app_assoc. reflexivity.
Qed.

(* ---- the converse: which lines lose their comment, with slashes allowed in front of it ---------------------- *)
(* [before] may hold slashes (a URL after a colon, a single slash, a path): all that is asked is that the scanner
   finds no pair in before followed by one more slash (the first slash of the comment could pair with a final slash
   of before), and that before does not end with a colon (the comment's own pair would be skipped).  With
   str.replace this was false: the comment text was replaced inside before as well. *)
Lemma lcf_find_comment_after (rest : list N) : forall (before acc : list N) pc,
  find_comment pc acc (before ++ [c_slash]) = None -> colon_ok before pc ->
  find_comment pc acc (before ++ c_slash :: c_slash :: rest) = Some (rev acc ++ before, c_slash :: c_slash :: rest).
Proof.
  induction before as [|x b IH]; intros acc pc Hn Hc.
  - unfold colon_ok in Hc. cbn [rev] in Hc. subst pc. cbn [app]. rewrite find_comment_eq.
    rewrite N.eqb_refl. cbn [andb negb]. rewrite app_nil_r. reflexivity.
  - assert (Hc' : colon_ok b (x =? c_colon)).
    { unfold colon_ok in *. cbn [rev] in Hc. destruct (rev b) as [|c r]; cbn [app] in Hc; exact Hc. }
    assert (E : exists y t t', b ++ [c_slash] = y :: t /\ b ++ c_slash :: c_slash :: rest = y :: t').
    { destruct b as [|y b']; [exists c_slash, [], (c_slash :: rest)|exists y, (b' ++ [c_slash]), (b' ++ c_slash :: c_slash :: rest)];
        split; reflexivity. }
    destruct E as (y & t & t' & E1 & E2).
    cbn [app] in Hn |- *. rewrite E1 in Hn. rewrite E2. rewrite find_comment_eq in Hn |- *.
    destruct ((x =? c_slash) && (y =? c_slash) && negb pc); [discriminate Hn|].
    rewrite <- E1 in Hn. rewrite <- E2. rewrite (IH (x :: acc) (x =? c_colon) Hn Hc').
    cbn [rev]. rewrite <- app_assoc. reflexivity.
Qed.

Theorem line_comment_after_slashes : forall comments (before rest nl : list N) count,
  find_comment false [] (before ++ [c_slash]) = None -> no_colon_end before -> no_lf rest -> no_lf before -> line_end nl ->
  extract_line_comment comments count (before ++ (c_slash :: c_slash :: rest) ++ nl) =
    (before ++ (if comments then placeholder w_LINECOMMENT (Z.to_N (counter_next count)) else []) ++ nl,
     counter_next count, Some (Z.to_N (counter_next count), c_slash :: c_slash :: rest)).
Proof.
  intros comments before rest nl count Hs Hc Hr Hb Hnl. unfold extract_line_comment.
  rewrite app_assoc, (chomp_lf_spec _ nl (comment_body_no_lf before rest Hb Hr) Hnl).
  rewrite (lcf_find_comment_after rest before [] false Hs (no_colon_end_ok _ Hc)). cbn [rev app].
  cbv zeta. reflexivity.
Qed.

(* the old side condition (no slash at all in front of the comment) is a special case *)
Lemma lcf_no_slash_find_gen : forall (before acc : list N) pc,
  has_char c_slash before = false -> find_comment pc acc (before ++ [c_slash]) = None.
Proof.
  induction before as [|x b IH]; intros acc pc H; [reflexivity|].
  rewrite has_char_cons in H. apply orb_false_iff in H. destruct H as [Hx H]. rewrite N.eqb_sym in Hx.
  destruct b as [|y b']; cbn [app]; rewrite find_comment_eq, Hx; cbn [andb]; [reflexivity|].
  exact (IH _ _ H).
Qed.
Lemma lcf_no_slash_find (before : list N) : no_slash before -> find_comment false [] (before ++ [c_slash]) = None.
Proof. intros H. apply lcf_no_slash_find_gen. exact H. Qed.
