(* C18, the chain from SDict.include + dump to the read:
   1. path strings <-> component lists (the reader's norm_path / dir_of / path_join against Paths.norm_join),
   2. the include stage of the lexer on a text with one directive line,
   3. the read of the dumped file merges the included file (with C06),
   4. the text the writer produces for an SDict with one registered include. *)
From Coq Require Export String.
From Coq Require Import NArith ZArith List Bool Lia ZifyBool ZifyN ZifyNat.
From DictIO Require Import Chars Str Value Scalar KeyPath SDict Layout Lexer TokParser Reader Paths
     TreeSpec NativeSpec MiscSpec LayoutSpec E2ESpec.
From DictIO Require Import ScalarProofs QuoteProofs SDictProofs SemProofs PathsProofs IncludeProofs.
From DictIO Require LayoutProofs AnyLayoutLex CounterLex RereadLex RereadPlain RereadWrite FoamSdProofs E2EFullProofs RefTextProofs.
From DictIO Require Import E2EProofs E2EHoles RereadStr.
Import ListNotations.
Import LayoutProofs.
Open Scope N_scope.

(* ================================================================================================ *)
(* 1. path strings and component lists                                                              *)
(* ================================================================================================ *)

(* the string of an absolute path given by its components *)
Definition path_str (c : comps) : str := flat_map (fun x => c_slash :: x) c.
(* the components of a path string, as os.path.normpath sees them *)
Definition comps_of (p : str) : comps := norm_components (split_on c_slash [] p).

(* a component of a normalised path: not empty, not dot, not dot-dot, no slash *)
Definition comp_ok (c : str) : bool :=
  negb (str_eqb c []) && negb (str_eqb c [c_dot]) && negb (str_eqb c dotdot) && negb (has_char c_slash c).
Definition comps_ok (l : comps) : bool := forallb comp_ok l.
(* a component of a relative path as relative_path builds it: dot-dot or an ordinary component *)
Definition rel_comp_ok (c : str) : bool := str_eqb c dotdot || comp_ok c.
Definition rel_ok (l : comps) : bool := forallb rel_comp_ok l.

Lemma has_char_nosep (sep : N) (c : list N) : has_char sep c = false <-> nosep sep c.
Proof.
  unfold nosep, has_char. induction c as [|x c IH]; cbn [existsb].
  - split; [constructor|reflexivity].
  - rewrite orb_false_iff, IH. split.
    + intros [H1 H2]. constructor; [rewrite N.eqb_sym; exact H1|exact H2].
    + intros H. inversion H; subst. split; [rewrite N.eqb_sym; assumption|assumption].
Qed.

Lemma comp_ok_good (c : str) : comp_ok c = true <-> good_comp c.
Proof.
  unfold comp_ok, good_comp, dotdot. rewrite !andb_true_iff, !negb_true_iff, has_char_nosep. tauto.
Qed.

Lemma comps_ok_good (l : comps) : comps_ok l = true <-> Forall good_comp l.
Proof.
  unfold comps_ok. rewrite forallb_forall, Forall_forall. split; intros H x Hx; apply comp_ok_good; apply H; exact Hx.
Qed.

Lemma good_nosep (l : comps) : Forall good_comp l -> Forall (nosep c_slash) l.
Proof. apply Forall_impl. intros c (_ & _ & _ & H). exact H. Qed.

Lemma path_str_app (a b : comps) : path_str (a ++ b) = path_str a ++ path_str b.
Proof. unfold path_str. apply flat_map_app. Qed.

Lemma split_path_str (c : comps) : Forall (nosep c_slash) c -> split_on c_slash [] (path_str c) = [] :: c.
Proof. intros H. unfold path_str. exact (split_on_join c_slash c [] H). Qed.

(* norm_path is path_str of the components; they are good *)
Lemma norm_path_comps (p : str) : norm_path p = path_str (comps_of p).
Proof. reflexivity. Qed.

Lemma comps_of_good (p : str) : Forall good_comp (comps_of p).
Proof.
  unfold comps_of. rewrite norm_components_fold. apply Forall_rev. apply nc_fold_good; [|constructor].
  apply split_on_nosep. constructor.
Qed.

Lemma comps_of_ok (p : str) : comps_ok (comps_of p) = true.
Proof. apply comps_ok_good. apply comps_of_good. Qed.

Lemma comps_of_path_str (c : comps) : comps_ok c = true -> comps_of (path_str c) = c.
Proof.
  intros H. apply comps_ok_good in H. unfold comps_of. rewrite (split_path_str c (good_nosep c H)).
  rewrite norm_components_fold. cbn [fold_left]. unfold nc_step at 2. cbn [str_eqb orb].
  rewrite (nc_fold_id c [] H). rewrite app_nil_r. apply rev_involutive.
Qed.

Lemma norm_path_str (c : comps) : comps_ok c = true -> norm_path (path_str c) = path_str c.
Proof. intros H. rewrite norm_path_comps, (comps_of_path_str c H). reflexivity. Qed.

(* a normalised path string is the string of its components *)
Lemma normalised_path_str (p : str) : norm_path p = p -> p = path_str (comps_of p).
Proof. intros H. rewrite <- norm_path_comps. symmetry. exact H. Qed.

Lemma path_string_components (p : str) : norm_path p = p -> p = path_str (comps_of p) /\ comps_ok (comps_of p) = true.
Proof. intros H. split; [exact (normalised_path_str p H)|exact (comps_of_ok p)]. Qed.

Lemma components_path_string (c : comps) : comps_ok c = true -> norm_path (path_str c) = path_str c /\ comps_of (path_str c) = c.
Proof. intros H. split; [exact (norm_path_str c H)|exact (comps_of_path_str c H)]. Qed.

Lemma path_str_inj : forall a b : comps, comps_ok a = true -> comps_ok b = true -> path_str a = path_str b -> a = b.
Proof.
  intros a b Ha Hb E. rewrite <- (comps_of_path_str a Ha), <- (comps_of_path_str b Hb), E. reflexivity.
Qed.

(* ---- dir_of ------------------------------------------------------------------------------------ *)
Lemma filter_nonempty_good (c : comps) : Forall good_comp c -> filter nonempty c = c.
Proof.
  induction 1 as [|x c Hx _ IH]; [reflexivity|]. cbn [filter]. rewrite IH.
  destruct Hx as (H & _). destruct x; [discriminate H|reflexivity].
Qed.

Lemma dir_of_path_str (c : comps) : comps_ok c = true -> dir_of (path_str c) = path_str (removelast c).
Proof.
  intros H. apply comps_ok_good in H. unfold dir_of. rewrite (split_path_str c (good_nosep c H)).
  cbn [filter nonempty]. rewrite (filter_nonempty_good c H). reflexivity.
Qed.

Lemma Forall_removelast {A} (P : A -> Prop) (l : list A) : Forall P l -> Forall P (removelast l).
Proof.
  induction 1 as [|x l Hx Hl IH]; [constructor|]. cbn [removelast]. destruct l; [constructor|].
  constructor; assumption.
Qed.

Lemma comps_ok_removelast (c : comps) : comps_ok c = true -> comps_ok (removelast c) = true.
Proof. rewrite !comps_ok_good. apply Forall_removelast. Qed.

(* ---- path_join --------------------------------------------------------------------------------- *)
Lemma rel_comp_head (c : str) : rel_comp_ok c = true -> exists x r, c = x :: r /\ (x =? c_slash) = false.
Proof.
  unfold rel_comp_ok. intros H. apply orb_true_iff in H. destruct H as [H|H].
  - apply ScalarProofs.str_eqb_eq in H. subst c. exists c_dot, [c_dot]. split; reflexivity.
  - apply comp_ok_good in H. destruct H as (H1 & _ & _ & H4). destruct c as [|x r]; [discriminate H1|].
    exists x, r. split; [reflexivity|]. inversion H4; assumption.
Qed.

Lemma path_str_join (rel : comps) : rel <> [] -> path_str rel = c_slash :: join_slash rel.
Proof.
  unfold path_str, join_slash. induction rel as [|c rel IH]; intros Hne; [congruence|].
  destruct rel as [|c' rel'].
  - cbn [flat_map join]. rewrite app_nil_r. reflexivity.
  - cbn [flat_map] in *. rewrite IH by discriminate. cbn [join app]. reflexivity.
Qed.

Lemma path_join_rel (d : str) (rel : comps) : rel_ok rel = true -> path_join d (join_slash rel) = d ++ path_str rel.
Proof.
  intros H. destruct rel as [|c rel].
  - cbn. rewrite app_nil_r. reflexivity.
  - rewrite (path_str_join (c :: rel)) by discriminate.
    cbn [rel_ok forallb] in H. apply andb_true_iff in H. destruct H as [Hc _].
    destruct (rel_comp_head c Hc) as (x & r & -> & Hx).
    unfold path_join, join_slash. destruct rel as [|c' rel']; cbn [join app]; rewrite Hx; reflexivity.
Qed.

(* ---- normalisation of a joined path ---------------------------------------------------------------- *)
Lemma tl_rev_removelast {A} (l : list A) : tl (rev l) = rev (removelast l).
Proof.
  induction l as [|x l IH] using rev_ind; [reflexivity|].
  rewrite rev_app_distr, removelast_last. reflexivity.
Qed.

Lemma nc_fold_norm_join : forall (rel d : list (list N)), rel_ok rel = true ->
  fold_left nc_step rel (rev d) = rev (norm_join d rel).
Proof.
  induction rel as [|c rel IH]; intros d H; [reflexivity|].
  cbn [rel_ok forallb] in H. apply andb_true_iff in H. destruct H as [Hc Hr].
  unfold norm_join. cbn [fold_left]. fold (norm_join (if str_eqb c dotdot then removelast d else d ++ [c]) rel).
  unfold nc_step at 2. unfold rel_comp_ok in Hc. destruct (str_eqb c dotdot) eqn:Ed.
  - apply ScalarProofs.str_eqb_eq in Ed. subst c. cbn [str_eqb N.eqb Pos.eqb andb orb].
    change (str_eqb dotdot [c_dot; c_dot]) with true. cbv iota.
    rewrite tl_rev_removelast. apply IH. exact Hr.
  - cbn [orb] in Hc. apply comp_ok_good in Hc. destruct Hc as (E1 & E2 & E3 & _).
    rewrite E1, E2. cbn [orb]. unfold dotdot in Ed. rewrite Ed.
    specialize (IH (d ++ [c]) Hr). rewrite rev_app_distr in IH. exact IH.
Qed.

Lemma norm_path_joined (d rel : comps) : comps_ok d = true -> rel_ok rel = true ->
  norm_path (path_join (path_str d) (join_slash rel)) = path_str (norm_join d rel).
Proof.
  intros Hd Hr. rewrite (path_join_rel _ rel Hr), <- path_str_app.
  unfold norm_path. f_equal.
  assert (Hs : Forall (nosep c_slash) (d ++ rel)).
  { apply Forall_app. split.
    - apply good_nosep. apply comps_ok_good. exact Hd.
    - unfold rel_ok in Hr. rewrite forallb_forall in Hr. apply Forall_forall. intros c Hc. specialize (Hr c Hc).
      unfold rel_comp_ok in Hr. apply orb_true_iff in Hr. destruct Hr as [Hr|Hr].
      + apply ScalarProofs.str_eqb_eq in Hr. subst c. repeat constructor.
      + apply comp_ok_good in Hr. apply Hr. }
  rewrite (split_path_str _ Hs), norm_components_fold. cbn [fold_left]. unfold nc_step at 2. cbn [str_eqb orb].
  rewrite fold_left_app. apply comps_ok_good in Hd. rewrite (nc_fold_id d [] Hd), app_nil_r.
  rewrite (nc_fold_norm_join rel d Hr). rewrite rev_involutive. reflexivity.
Qed.

(* ---- relative_path produces such a relative path ------------------------------------------------- *)
Lemma comps_ok_rel_ok (l : comps) : comps_ok l = true -> rel_ok l = true.
Proof.
  unfold comps_ok, rel_ok. rewrite !forallb_forall. intros H x Hx. unfold rel_comp_ok. rewrite (H x Hx). apply orb_true_r.
Qed.

Lemma comps_ok_app (a b : comps) : comps_ok (a ++ b) = comps_ok a && comps_ok b.
Proof. unfold comps_ok. apply forallb_app. Qed.

Lemma rel_ok_app (a b : comps) : rel_ok (a ++ b) = rel_ok a && rel_ok b.
Proof. unfold rel_ok. apply forallb_app. Qed.

Lemma rel_ok_dotdots n : rel_ok (repeat dotdot n) = true.
Proof. induction n as [|n IH]; [reflexivity|]. cbn [repeat rel_ok forallb]. fold (rel_ok (repeat dotdot n)). rewrite IH. reflexivity. Qed.

Lemma rel_ok_relative_path (from to : comps) : comps_ok to = true -> rel_ok (relative_path from to) = true.
Proof.
  intros Ht. unfold relative_path. destruct (strip_prefix from to) as [rest|] eqn:E.
  - apply strip_prefix_app in E. subst to. rewrite comps_ok_app in Ht. apply andb_true_iff in Ht.
    apply comps_ok_rel_ok. apply Ht.
  - destruct (common_prefix_split from to) as (tf & tt & _ & Hb).
    rewrite rel_ok_app, rel_ok_dotdots. cbn [andb].
    rewrite Hb at 2. rewrite drop_n_app_length. rewrite Hb, comps_ok_app in Ht. apply andb_true_iff in Ht.
    apply comps_ok_rel_ok. apply Ht.
Qed.

Lemma comps_ok_nodots (l : comps) : comps_ok l = true -> nodots l.
Proof.
  intros H. apply comps_ok_good in H. unfold nodots. revert H. apply Forall_impl. intros c (_ & _ & H & _). exact H.
Qed.

(* C18_rel_join on the reader's string functions: component lists *)
Theorem rel_join_str_comps (ca cb : comps) : comps_ok ca = true -> comps_ok cb = true ->
  let name := join_slash (relative_path (removelast ca) cb) in
  norm_path (path_join (dir_of (path_str ca)) name) = path_str cb.
Proof.
  intros Ha Hb name. unfold name. rewrite (dir_of_path_str ca Ha).
  pose proof (comps_ok_removelast ca Ha) as Hd.
  rewrite (norm_path_joined _ _ Hd (rel_ok_relative_path _ _ Hb)).
  rewrite (rel_join _ _ (comps_ok_nodots _ Hd) (comps_ok_nodots _ Hb)). reflexivity.
Qed.

(* the components of the folder of a path *)
Definition dir_comps (p : str) : comps := removelast (comps_of p).
(* the include name SDict.include registers for the dict file pb in the dict file pa (POSIX spelling) *)
Definition include_name (pa pb : str) : str := join_slash (relative_path (dir_comps pa) (comps_of pb)).

(* the same on normalised absolute path STRINGS *)
Theorem rel_join_str (pa pb : str) : norm_path pa = pa -> norm_path pb = pb ->
  norm_path (path_join (dir_of pa) (include_name pa pb)) = pb.
Proof.
  intros Ha Hb. unfold include_name, dir_comps.
  pose proof (rel_join_str_comps (comps_of pa) (comps_of pb) (comps_of_ok pa) (comps_of_ok pb)) as H.
  cbv zeta in H. rewrite <- !norm_path_comps, Ha, Hb in H. exact H.
Qed.

Lemma dir_of_normalised (pa : str) : norm_path pa = pa -> dir_of pa = path_str (dir_comps pa).
Proof.
  intros H. rewrite (normalised_path_str pa H) at 1. apply dir_of_path_str. apply comps_of_ok.
Qed.

(* ================================================================================================ *)
(* 2. the include stage of the lexer on a text with one directive line                              *)
(* ================================================================================================ *)

Lemma lxd_inc_lex com dir c text :
  lxd_inc (lex com dir c text) =
  snd (extract_includes dir (snd (fst (extract_line_comments com c (splitlines text))))
                        (fst (fst (extract_line_comments com c (splitlines text))))).
Proof.
  unfold lex. destruct (extract_line_comments com c (splitlines text)) as [[l1 c1] lc]. cbn [fst snd].
  destruct (extract_includes dir c1 l1) as [[l2 c2] inc]. cbn [snd].
  destruct (extract_block_comments com (List.concat l2)) as [b1 bc].
  destruct (extract_string_literals c2 (remove_line_endings b1)) as [[b3 c3] lit].
  destruct (extract_expressions c3 b3) as [[b4 c4] ex]. reflexivity.
Qed.

(* every line of a text is a piece of the text *)
Lemma splitlines_piece (text l : list N) : In l (splitlines text) -> exists pre post, text = pre ++ l ++ post.
Proof.
  intros H. destruct (In_concat_sub l _ H) as (pre & post & E). exists pre, post. rewrite <- E.
  unfold splitlines. rewrite AnyLayoutLex.concat_splitlines_all. reflexivity.
Qed.

Lemma lines_nopair a b (text : list N) : nopair a b text = true -> Forall (fun l => nopair a b l = true) (splitlines text).
Proof.
  intros H. apply Forall_forall. intros l Hl. destruct (splitlines_piece text l Hl) as (pre & post & ->).
  apply nopair_app_inv in H. destruct H as [_ H]. apply nopair_app_inv in H. apply H.
Qed.

Lemma lines_nochar x (text : list N) : has_char x text = false -> Forall (fun l => has_char x l = false) (splitlines text).
Proof.
  intros H. apply Forall_forall. intros l Hl. destruct (splitlines_piece text l Hl) as (pre & post & ->).
  rewrite !has_char_app' in H. apply orb_false_iff in H. destruct H as [_ H]. apply orb_false_iff in H. apply H.
Qed.

Lemma extract_includes_pre dir (lp : list (list N)) : Forall (fun l => include_line_rest l = None) lp ->
  forall count ls, extract_includes dir count (lp ++ ls) =
    (lp ++ fst (fst (extract_includes dir count ls)), snd (fst (extract_includes dir count ls)), snd (extract_includes dir count ls)).
Proof.
  induction 1 as [|l lp Hl _ IH]; intros count ls.
  - cbn [app]. destruct (extract_includes dir count ls) as [[a b] c]. reflexivity.
  - cbn [app extract_includes]. rewrite Hl, IH. reflexivity.
Qed.

Lemma chomp_line (D : list N) : has_char c_lf D = false -> chomp_lf (D ++ [c_lf]) = (D, [c_lf]).
Proof. intros H. apply chomp_lf_spec; [exact H|right; reflexivity]. Qed.

(* the stage theorem: P (complete lines), the directive line D, T; no other hash, no double slash *)
Lemma lex_inc_directive com dir c (P D T rest : list N) :
  ends_lf P -> has_char c_cr P = false -> has_char c_hash P = false -> has_char c_hash T = false ->
  nopair c_slash c_slash (P ++ D ++ c_lf :: T) = true ->
  forallb (fun x : N => negb (is_linebreak x)) D = true ->
  include_line_rest (D ++ [c_lf]) = Some rest ->
  lxd_inc (lex com dir c (P ++ D ++ c_lf :: T)) =
    [(Z.to_N (counter_next c), (D, include_name_of rest, path_join dir (include_name_of rest)))].
Proof.
  intros HP Hcr HhP HhT Hnp HD Hrest. rewrite lxd_inc_lex.
  pose proof (lines_nopair _ _ _ Hnp) as Hl.
  rewrite (extract_line_comments_nopair com _ Hl c). cbn [fst snd].
  destruct (RereadLex.nolb_nolf D HD) as [Dlf Dcr].
  replace (P ++ D ++ c_lf :: T) with (P ++ (D ++ [c_lf]) ++ T) by (rewrite <- app_assoc; reflexivity).
  rewrite (splitlines_app P _ HP Hcr).
  rewrite (splitlines_app (D ++ [c_lf]) T).
  2:{ right. exists D. reflexivity. }
  2:{ rewrite has_char_app', Dcr. reflexivity. }
  rewrite (RereadLex.splitlines_single D HD).
  rewrite (extract_includes_pre dir (splitlines P)).
  2:{ eapply Forall_impl; [|exact (lines_nochar c_hash P HhP)]. intros l. apply include_line_rest_none. }
  cbn [app extract_includes]. rewrite Hrest.
  rewrite (extract_includes_none dir (splitlines T) (lines_nochar c_hash T HhT)).
  cbn [fst snd]. rewrite (chomp_line D Dlf). reflexivity.
Qed.

(* ---- the directive text of an include name, with its line feed, names that name -------------------- *)
(* the only condition on the name: no line break (the directive is one line) *)
Definition name_ok (n : list N) : bool := forallb (fun x : N => negb (is_linebreak x)) n.

Lemma refch_not_quote c : is_ref_char c = true -> is_quote c = false.
Proof. unfold is_ref_char, is_word, is_quote. intros H. ScalarProofs.chars. Qed.

Definition bare (n : list N) : Prop := n <> [] /\ Forall (fun c => is_space c = false) n /\ noquote n.

(* the written form of a name: wrapped in quotes of one kind, or the name itself, free of blanks and quotes *)
Lemma format_string_shape (n : list N) : name_ok n = true ->
  format_string n = sq n \/ format_string n = dq n \/ (format_string n = n /\ bare n).
Proof.
  intros Hl. unfold format_string, classify_string.
  destruct (has_char c_dollar n) eqn:Hd.
  - destruct (re_reference n) eqn:Hr; [|right; left; reflexivity]. right. right. split; [reflexivity|].
    destruct n as [|d [|w r]]; try discriminate Hr. cbn [re_reference] in Hr.
    apply andb_true_iff in Hr. destruct Hr as [Hr Hend]. apply andb_true_iff in Hr. destruct Hr as [Hdol Hw].
    destruct (span is_ref_char r) as [a b] eqn:Es. destruct (span_spec _ _ _ _ Es) as (-> & Fa & _). cbn [snd] in Hend.
    assert (Eb : b = []).
    { destruct b as [|x [|y b']]; [reflexivity| |discriminate Hend]. cbn [at_end] in Hend. apply N.eqb_eq in Hend. subst x.
      unfold name_ok in Hl. cbn [forallb] in Hl. rewrite forallb_app in Hl. cbn in Hl. rewrite !andb_false_r in Hl. discriminate Hl. }
    subst b. rewrite app_nil_r in *. apply N.eqb_eq in Hdol. subst d.
    assert (Hwr : is_ref_char w = true) by (unfold is_ref_char; rewrite Hw; reflexivity).
    split; [discriminate|]. split.
    + constructor; [reflexivity|]. constructor; [exact (RefTextProofs.refch_not_space w Hwr)|].
      revert Fa. apply Forall_impl. exact RefTextProofs.refch_not_space.
    + constructor; [reflexivity|]. constructor; [exact (refch_not_quote w Hwr)|].
      revert Fa. apply Forall_impl. exact refch_not_quote.
  - destruct (nonempty n) eqn:Hne; cbn [negb]; [|left; reflexivity].
    destruct (has_char c_dq n) eqn:Hq2; [left; reflexivity|].
    destruct (has_char c_sq n) eqn:Hq1; [right; left; reflexivity|].
    destruct (existsb is_struct_char n) eqn:Hm; [left; reflexivity|].
    right. right. split; [reflexivity|]. destruct (bare_nospace n (bare_chars n Hq2 Hq1 Hm)) as [H1 H2].
    split; [destruct n; [discriminate Hne|discriminate]|]. split; assumption.
Qed.

Lemma format_string_head (n : list N) : name_ok n = true -> exists x r, format_string n = x :: r /\ is_space x = false.
Proof.
  intros H. destruct (format_string_shape n H) as [E|[E|[E (Hne & Hs & _)]]]; rewrite E.
  - exists c_sq, (n ++ [c_sq]). split; reflexivity.
  - exists c_dq, (n ++ [c_dq]). split; reflexivity.
  - destruct n as [|x r]; [congruence|]. exists x, r. split; [reflexivity|]. inversion Hs; assumption.
Qed.

Lemma format_string_last (n : list N) : name_ok n = true -> exists r e, format_string n = r ++ [e] /\ is_space e = false.
Proof.
  intros H. destruct (format_string_shape n H) as [E|[E|[E (Hne & Hs & _)]]]; rewrite E.
  - exists (c_sq :: n), c_sq. split; reflexivity.
  - exists (c_dq :: n), c_dq. split; reflexivity.
  - destruct n as [|x n' _] using rev_ind; [congruence|].
    exists n', x. split; [reflexivity|]. apply Forall_app in Hs. destruct Hs as [_ Hs]. inversion Hs; assumption.
Qed.

Lemma directive_line_rest (F : list N) : include_line_rest ((of_string "#include " ++ F) ++ [c_lf]) = Some (c_sp :: F ++ [c_lf]).
Proof. reflexivity. Qed.

Lemma directive_line_name (n : list N) : name_ok n = true -> include_name_of (c_sp :: format_string n ++ [c_lf]) = n.
Proof.
  intros H. unfold include_name_of.
  destruct (format_string_head n H) as (x & r & E & Hx). destruct (format_string_last n H) as (r' & e & E' & He).
  assert (E1 : rstrip (lstrip (c_sp :: format_string n ++ [c_lf])) = format_string n).
  { change (lstrip (c_sp :: format_string n ++ [c_lf])) with (lstrip (format_string n ++ [c_lf])).
    rewrite E. cbn [app lstrip]. rewrite Hx. change (x :: r ++ [c_lf]) with ((x :: r) ++ [c_lf]). rewrite <- E.
    rewrite (CounterLex.rstrip_snoc_space _ c_lf eq_refl). rewrite E'. apply E2EFullProofs.rstrip_nonspace_last. exact He. }
  rewrite E1. destruct (format_string_shape n H) as [E2|[E2|[E2 (_ & _ & Hq)]]]; rewrite E2.
  - apply remove_quotes_wrapped. reflexivity.
  - apply remove_quotes_wrapped. reflexivity.
  - apply remove_quotes_noquote. exact Hq.
Qed.

Lemma format_string_nolb (n : list N) : name_ok n = true -> forallb (fun x : N => negb (is_linebreak x)) (format_string n) = true.
Proof.
  intros H. destruct (format_string_shape n H) as [E|[E|[E _]]]; rewrite E; [| |exact H].
  - unfold sq. cbn [forallb]. rewrite forallb_app. unfold name_ok in H. rewrite H. reflexivity.
  - unfold dq. cbn [forallb]. rewrite forallb_app. unfold name_ok in H. rewrite H. reflexivity.
Qed.

Lemma directive_text_nolb (rel : list (list N)) : name_ok (join_slash rel) = true ->
  forallb (fun x : N => negb (is_linebreak x)) (include_directive_text rel) = true.
Proof.
  intros H. unfold include_directive_text. rewrite forallb_app, (format_string_nolb _ H). reflexivity.
Qed.

(* the lexer registers, for the directive line written for [rel], the name and the path anchored at dir *)
Theorem lex_include_directive com dir c (P T : list N) (rel : list (list N)) :
  name_ok (join_slash rel) = true ->
  ends_lf P -> has_char c_cr P = false -> has_char c_hash P = false -> has_char c_hash T = false ->
  nopair c_slash c_slash (P ++ include_directive_text rel ++ c_lf :: T) = true ->
  lxd_inc (lex com dir c (P ++ include_directive_text rel ++ c_lf :: T)) =
    [(Z.to_N (counter_next c), (include_directive_text rel, join_slash rel, path_join dir (join_slash rel)))].
Proof.
  intros Hn HP Hcr HhP HhT Hnp.
  rewrite (lex_inc_directive com dir c P _ T _ HP Hcr HhP HhT Hnp (directive_text_nolb rel Hn)
             (directive_line_rest (format_string (join_slash rel)))).
  rewrite (directive_line_name _ Hn). reflexivity.
Qed.

(* ---- the clean-up of the parser only deletes table entries ------------------------------------------ *)
Lemma tdel_incl {V} i (l : list (N * V)) : incl (tdel i l) l.
Proof.
  induction l as [|[j v] l IH]; [apply incl_refl|]. cbn [tdel]. destruct (i =? j).
  - apply incl_tl, incl_refl.
  - intros x [<-|Hx]; [left; reflexivity|right; apply IH; exact Hx].
Qed.

Lemma clean_kind_incl {V} (veqb : V -> V -> bool) : forall keys data (tab : list (N * V)) seen,
  incl (snd (clean_kind veqb keys data tab seen)) tab.
Proof.
  induction keys as [|k keys IH]; intros data tab seen; [apply incl_refl|]. cbn [clean_kind].
  destruct (key_id k) as [i|]; [|apply IH]. destruct (tlookup i tab) as [v|]; [|apply IH].
  destruct (existsb (veqb v) seen); [|apply IH].
  eapply incl_tran; [apply IH|apply tdel_incl].
Qed.

Lemma clean_level_inc data s : incl (sd_inc (snd (clean_level data s))) (sd_inc s).
Proof.
  unfold clean_level.
  destruct (clean_kind str_eqb (keys_of_kind PhBlock data) data (sd_bc s) []) as [d1 bc].
  pose proof (clean_kind_incl inc_eqb (keys_of_kind PhInclude data) d1 (sd_inc s) []) as H.
  destruct (clean_kind inc_eqb (keys_of_kind PhInclude data) d1 (sd_inc s) []) as [d2 inc].
  destruct (clean_kind str_eqb (keys_of_kind PhLine data) d2 (sd_lc s) []) as [d3 lc]. exact H.
Qed.

Lemma clean_tree_inc : forall fuel data s, incl (sd_inc (snd (clean_tree fuel data s))) (sd_inc s).
Proof.
  induction fuel as [|f IH]; intros data s; [apply incl_refl|]. cbn [clean_tree].
  pose proof (clean_level_inc data s) as H0. destruct (clean_level data s) as [d s1]. cbn [snd] in H0.
  assert (G : forall l dacc sacc, incl (sd_inc sacc) (sd_inc s) ->
    incl (sd_inc (snd (fold_left (fun (acc : list (key * tree) * sdict) (kv : key * tree) =>
                   let '(dacc, sacc) := acc in
                   match snd kv with
                   | Dict sub => let '(sub', s') := clean_tree f sub sacc in (aset (fst kv) (Dict sub') dacc, s')
                   | _ => acc
                   end) l (dacc, sacc)))) (sd_inc s)).
  { induction l as [|[k v] l IHl]; intros dacc sacc Hs; [exact Hs|]. cbn [fold_left snd fst].
    destruct v as [x|sub|ts]; try (apply IHl; exact Hs).
    pose proof (IH sub sacc) as H1. destruct (clean_tree f sub sacc) as [sub' s']. cbn [snd] in H1.
    apply IHl. eapply incl_tran; [exact H1|exact Hs]. }
  apply G. exact H0.
Qed.

Lemma sd_clean_inc s : incl (sd_inc (sd_clean s)) (sd_inc s).
Proof.
  unfold sd_clean. pose proof (clean_tree_inc (S (depth (Dict (sd_data s)))) (sd_data s) s) as H.
  destruct (clean_tree (S (depth (Dict (sd_data s)))) (sd_data s) s) as [d s']. exact H.
Qed.

Lemma parse_string_inc com dir c text pr : parse_string com dir c text = Ok pr ->
  incl (sd_inc (pr_sd pr)) (lxd_inc (lex com dir c text)).
Proof.
  unfold parse_string. intros H.
  destruct (parse_tokens (lxd_tokens (lex com dir c text))) as [d0|e]; [|discriminate H]. cbn [bind] in H.
  set (s0 := sd_clean _) in H.
  destruct (insert_string_literals (lxd_lit (lex com dir c text)) (sd_data s0)) as [d1|e]; [|discriminate H].
  cbn [bind] in H. injection H as <-. cbn [pr_sd].
  eapply incl_tran; [apply sd_clean_inc|]. cbn [sd_inc].
  exact (sd_clean_inc (mkSD d0 _ _ _ _)).
Qed.

Lemma incl_single_in {A} (l : list A) x : incl l [x] -> l <> [] -> In x l.
Proof.
  intros H Hne. destruct l as [|y l]; [congruence|]. destruct (H y (or_introl eq_refl)) as [<-|[]]. left. reflexivity.
Qed.

(* ================================================================================================ *)
(* 3. the read of the including file merges the included file                                        *)
(* ================================================================================================ *)

(* given the include entry in the table of the parsed file a (what the C12 directive theorems deliver) *)
Theorem include_read_merges : forall fs pa pb com c s c' ua pra i d ub,
  norm_path pa = pa -> norm_path pb = pb ->
  read_plain fs pa true com c = Ok (s, c') ->
  fs_lookup pa fs = Some ua -> parse_unit com pa c ua = Ok pra ->
  In (i, (d, include_name pa pb, path_join (dir_of pa) (include_name pa pb))) (sd_inc (pr_sd pra)) ->
  fs_lookup pb fs = Some ub ->
  (exists c1 prb, parse_unit com (path_join (dir_of pa) (include_name pa pb)) c1 ub = Ok prb /\
     forall k, ordinary_key k = true -> alookup k (sd_data (pr_sd prb)) <> None -> alookup k (sd_data s) <> None) /\
  (forall k v, ordinary_key k = true -> ordinary_leaf v = true ->
     alookup k (sd_data (pr_sd pra)) = Some (Leaf v) -> alookup k (sd_data s) = Some (Leaf v)).
Proof.
  intros fs pa pb com c s c' ua pra i d ub Ha Hb Hread Hfa Hpa Hin Hfb.
  assert (Hfa' : fs_lookup (norm_path pa) fs = Some ua) by (rewrite Ha; exact Hfa).
  split.
  - apply (direct_include_complete fs pa com c s c' ua pra i d (include_name pa pb) _ ub Hread Hfa' Hpa Hin).
    rewrite (rel_join_str pa pb Ha Hb). exact Hfb.
  - intros k v Hk Hv Hl. exact (including_file_wins fs pa com c ua pra s c' k v Hfa' Hpa Hread Hk Hv Hl).
Qed.

(* the dumped text of a: complete lines P (the header), the directive line for b, the text T of a's data *)
Definition dumped_text (P T : str) (pa pb : str) : str :=
  P ++ include_directive_text (relative_path (dir_comps pa) (comps_of pb)) ++ c_lf :: T.

Theorem include_dump_read_partial : forall fs pa pb P T c s c' pra ub,
  norm_path pa = pa -> norm_path pb = pb -> name_ok (include_name pa pb) = true ->
  ends_lf P -> has_char c_cr P = false -> has_char c_hash P = false -> has_char c_hash T = false ->
  nopair c_slash c_slash (dumped_text P T pa pb) = true ->
  fs_lookup pa fs = Some (FNative (dumped_text P T pa pb)) -> fs_lookup pb fs = Some ub ->
  parse_unit true pa c (FNative (dumped_text P T pa pb)) = Ok pra -> sd_inc (pr_sd pra) <> [] ->
  read_plain fs pa true true c = Ok (s, c') ->
  (exists c1 prb, parse_unit true (path_join (dir_of pa) (include_name pa pb)) c1 ub = Ok prb /\
     forall k, ordinary_key k = true -> alookup k (sd_data (pr_sd prb)) <> None -> alookup k (sd_data s) <> None) /\
  (forall k v, ordinary_key k = true -> ordinary_leaf v = true ->
     alookup k (sd_data (pr_sd pra)) = Some (Leaf v) -> alookup k (sd_data s) = Some (Leaf v)).
Proof.
  intros fs pa pb P T c s c' pra ub Ha Hb Hn HP Hcr HhP HhT Hnp Hfa Hfb Hpa Hne Hread.
  apply (include_read_merges fs pa pb true c s c' _ pra (Z.to_N (counter_next c))
           (include_directive_text (relative_path (dir_comps pa) (comps_of pb))) ub Ha Hb Hread Hfa Hpa); [|exact Hfb].
  cbn [parse_unit] in Hpa. pose proof (parse_string_inc _ _ _ _ _ Hpa) as Hi.
  unfold dumped_text in Hi. rewrite (lex_include_directive true (dir_of pa) c P T _ Hn HP Hcr HhP HhT Hnp) in Hi.
  exact (incl_single_in _ _ Hi Hne).
Qed.

(* ================================================================================================ *)
(* 4. the text the writer produces for an SDict with one registered include                          *)
(* ================================================================================================ *)
Definition iph (i : N) : str := placeholder w_INCLUDE i.
Definition inc_kv (i : N) : key * tree := (KS (iph i), Leaf (SStr (iph i))).
(* what SDict.include leaves behind in a dict built in memory: the placeholder entry appended to the data, the
   entry (directive, name, path of the included file) in the include table *)
Definition sd_with_include (da : list (key * tree)) (i : N) (name path : str) : sdict :=
  mkSD (da ++ [inc_kv i]) [] [] [(i, (of_string "#include " ++ format_string name, name, path))] [].
(* top-level keys that the writer does not move to the front *)
Definition plain_top (da : list (key * tree)) : bool :=
  forallb (fun kc => negb (is_block_key (fst kc)) && negb (is_include_key (fst kc))) da.

Lemma plain_top_inv da : plain_top da = true ->
  forall kc, In kc da -> is_block_key (fst kc) = false /\ is_include_key (fst kc) = false.
Proof.
  unfold plain_top. rewrite forallb_forall. intros H kc Hin. specialize (H kc Hin).
  apply andb_true_iff in H. rewrite !negb_true_iff in H. exact H.
Qed.

Lemma iph_simple i : forallb simple_char (iph i) = true.
Proof.
  unfold iph, placeholder. rewrite forallb_app. apply andb_true_iff. split; [reflexivity|].
  apply forallb_forall. intros c Hc. pose proof (forallb_In _ _ _ (pad6_digits i) Hc) as Hd.
  unfold simple_char, is_word. rewrite Hd. reflexivity.
Qed.

Lemma iph_ne i : iph i <> [].
Proof. destruct (FoamSdProofs.iph_head i) as [r E]. unfold iph. rewrite E. discriminate. Qed.

Lemma iph_format i : format_string (iph i) = iph i.
Proof. exact (RereadPlain.format_string_simple _ (iph_simple i) (iph_ne i)). Qed.

Lemma iph_nospace i c : In c (iph i) -> is_space c = false.
Proof. intros H. exact (proj1 (simple_char_word c (forallb_In _ _ _ (iph_simple i) H))). Qed.

Lemma iph_In i c : In c (iph i) -> In c w_INCLUDE \/ is_digit c = true.
Proof.
  intros H. unfold iph, placeholder in H. apply in_app_or in H. destruct H as [H|H]; [left; exact H|right].
  exact (forallb_In _ _ _ (pad6_digits i) H).
Qed.

Lemma iph_include_key i : i < 1000000 -> is_include_key (KS (iph i)) = true.
Proof.
  intros Hi. cbn [is_include_key]. unfold iph, placeholder.
  assert (E : forall d : list N, all_digits_n 6 d = true -> has_placeholder w_INCLUDE (w_INCLUDE ++ d) = true).
  { intros d Hd. change (w_INCLUDE ++ d) with (73 :: (skipn 1 w_INCLUDE ++ d)). cbn [has_placeholder].
    change (73 :: skipn 1 w_INCLUDE ++ d) with (w_INCLUDE ++ d). rewrite starts_with_app, drop_n_app, Hd. reflexivity. }
  apply E. pose proof (RereadWrite.all_digits_app (pad6 i) [] (pad6_digits i)) as H.
  rewrite (pad6_length i Hi), app_nil_r in H. exact H.
Qed.

Lemma iph_not_block i : is_block_key (KS (iph i)) = false.
Proof.
  cbn [is_block_key]. destruct (has_placeholder w_BLOCKCOMMENT (iph i)) eqn:E; [|reflexivity]. exfalso.
  apply has_placeholder_contains in E. apply E2EFullProofs.contains_head_In in E.
  destruct (iph_In i 66 E) as [H|H]; [|discriminate H].
  cbn in H. repeat (destruct H as [H|H]; [discriminate H|]). exact H.
Qed.

Lemma filter_all {A} (f : A -> bool) l : (forall x, In x l -> f x = true) -> filter f l = l.
Proof.
  induction l as [|x l IH]; intros H; [reflexivity|]. cbn [filter]. rewrite (H x (or_introl eq_refl)).
  f_equal. apply IH. intros y Hy. apply H. right. exact Hy.
Qed.

Lemma sort_top_plain da : plain_top da = true -> sort_top da = da.
Proof.
  intros H. pose proof (plain_top_inv da H) as Hk. unfold sort_top.
  rewrite (filter_none (fun kv => is_block_key (fst kv)) da) by (intros x Hx; exact (proj1 (Hk x Hx))).
  rewrite (filter_none (fun kv => is_include_key (fst kv)) da) by (intros x Hx; exact (proj2 (Hk x Hx))).
  cbn [aupdate fold_left app]. apply filter_all. intros x _. reflexivity.
Qed.

Lemma sort_top_include da i : plain_top da = true -> i < 1000000 -> sort_top (da ++ [inc_kv i]) = inc_kv i :: da.
Proof.
  intros H Hi. pose proof (plain_top_inv da H) as Hk. unfold sort_top. rewrite !filter_app.
  rewrite (filter_none (fun kv => is_block_key (fst kv)) da) by (intros x Hx; exact (proj1 (Hk x Hx))).
  rewrite (filter_none (fun kv => is_include_key (fst kv)) da) by (intros x Hx; exact (proj2 (Hk x Hx))).
  cbn [filter inc_kv fst app]. rewrite (iph_not_block i), (iph_include_key i Hi).
  cbn [aupdate fold_left fst snd aset app]. f_equal.
  unfold amem. cbn [alookup]. rewrite SDictProofs.key_eqb_refl. cbn [negb app]. rewrite app_nil_r.
  apply filter_all. intros [k v] Hx. unfold inc_kv. cbn [fst snd]. destruct (key_eqb k (KS (iph i))) eqn:E; [|reflexivity].
  apply SDictProofs.key_eqb_eq in E. subst k. destruct (Hk _ Hx) as [_ Hn]. cbn [fst] in Hn.
  rewrite (iph_include_key i Hi) in Hn. discriminate Hn.
Qed.

Lemma native_body_plain da : plain_top da = true -> native_body da = fentries 0 da.
Proof. intros H. unfold native_body. rewrite (sort_top_plain da H). apply fmt_dict. Qed.

(* the body of the dict with the include entry: the placeholder line, then the body of the data *)
Lemma native_body_include da i : plain_top da = true -> i < 1000000 ->
  native_body (da ++ [inc_kv i]) =
  (iph i ++ spaces (Nat.max 8 (30 - List.length (iph i) - 4 * 0)) ++ iph i ++ c_semi :: c_lf :: native_body da).
Proof.
  intros H Hi. rewrite (native_body_plain da H). unfold native_body. rewrite (sort_top_include da i H Hi), fmt_dict.
  unfold inc_kv. cbn [fentries format_key format_scalar]. rewrite (iph_format i).
  unfold line, indent_of. cbn [Nat.mul spaces repeat app]. rewrite <- !app_assoc. cbn [app]. reflexivity.
Qed.

Lemma subst_absent_contains (ph repl : list N) : forall s : list N, contains ph s = false -> subst ph repl s = (s, false).
Proof.
  induction s as [|c s IH]; intros H; [reflexivity|].
  cbn [contains] in H. apply orb_false_iff in H. destruct H as [H1 H2].
  rewrite (subst_miss ph repl c s (match_needs_start ph _ H1)), (IH H2). reflexivity.
Qed.

Lemma subst_include_line i (repl Z : list N) : contains (iph i) Z = false ->
  subst (iph i) repl (iph i ++ spaces (Nat.max 8 (30 - List.length (iph i) - 4 * 0)) ++ iph i ++ c_semi :: c_lf :: Z) =
  (repl ++ c_lf :: Z, true).
Proof.
  intros HZ. rewrite (subst_hit (iph i) repl _ (c_lf :: Z)).
  - rewrite subst_miss.
    + rewrite (subst_absent_contains _ repl Z HZ). reflexivity.
    + apply match_needs_start. destruct (FoamSdProofs.iph_head i) as [r E]. unfold iph. rewrite E. reflexivity.
  - apply match_pair_line; [apply iph_ne|apply iph_nospace|lia].
Qed.

Lemma native_header_facts :
  FoamSdProofs.phless native_header /\ ends_lf native_header /\ has_char c_cr native_header = false /\
  has_char c_hash native_header = false /\ nopair c_slash c_slash native_header = true /\
  remove_trailing_spaces native_header = native_header /\ has_cpp_mark [] = false.
Proof.
  split; [repeat split; vm_compute; reflexivity|]. split; [right; exists (removelast native_header); vm_compute; reflexivity|].
  repeat split; vm_compute; reflexivity.
Qed.

(* (2) the dumped text: default header, the directive line, the text of the data *)
Theorem sd_include_text da i name path :
  name_ok name = true -> i < 1000000 -> plain_top da = true -> contains (iph i) (native_body da) = false ->
  to_string_sd (sd_with_include da i name path) =
  native_header ++ (of_string "#include " ++ format_string name) ++ c_lf :: to_string_plain da.
Proof.
  intros Hn Hi Hp Hc.
  destruct native_header_facts as (Hph & Hel & _ & _ & _ & Hrts & Hcpp).
  unfold to_string_sd, sd_with_include. cbn [sd_data sd_bc sd_inc sd_lc].
  rewrite (native_body_include da i Hp Hi).
  set (body := iph i ++ _).
  assert (Hhk : header_key [] body = None).
  { unfold header_key, body. destruct (FoamSdProofs.iph_head i) as [r E]. unfold iph. rewrite E. reflexivity. }
  unfold insert_block_comments. rewrite Hhk. cbn [insert_blocks]. unfold make_default_block_comment. rewrite Hcpp, app_nil_r.
  unfold insert_includes. cbn [fold_left]. fold (subst (placeholder w_INCLUDE i) (of_string "#include " ++ format_string name) (native_header ++ body)).
  rewrite (FoamSdProofs.subst_pre_i native_header i _ body Hph). fold (iph i). unfold body.
  rewrite (subst_include_line i _ _ Hc). cbn [fst]. unfold insert_line_comments. cbn [fold_left].
  rewrite (rts_app _ _ Hel), Hrts. f_equal.
  set (D := of_string "#include " ++ format_string name).
  assert (Dlf : has_char c_lf D = false).
  { assert (HD : forallb (fun x : N => negb (is_linebreak x)) D = true).
    { unfold D. rewrite forallb_app. rewrite (format_string_nolb _ Hn). reflexivity. }
    exact (proj1 (RereadLex.nolb_nolf D HD)). }
  rewrite (rts_line D _ Dlf). unfold to_string_plain. f_equal.
  destruct (format_string_last name Hn) as (r & e & E & He). unfold D. rewrite E, app_assoc.
  apply E2EFullProofs.rstrip_nonspace_last. exact He.
Qed.

(* ---- no double slash in the directive line ----------------------------------------------------------- *)
Lemma nopair_cons2 a b u v (s : list N) : nopair a b (u :: v :: s) = negb ((u =? a) && (v =? b)) && nopair a b (v :: s).
Proof. reflexivity. Qed.

Lemma nopair_join_slash : forall rel : list (list N), rel_ok rel = true -> nopair c_slash c_slash (join_slash rel) = true.
Proof.
  unfold join_slash. induction rel as [|c rel IH]; intros H; [reflexivity|].
  cbn [rel_ok forallb] in H. apply andb_true_iff in H. destruct H as [Hc Hr]. specialize (IH Hr).
  assert (Hcs : has_char c_slash c = false).
  { unfold rel_comp_ok in Hc. apply orb_true_iff in Hc. destruct Hc as [Hc|Hc].
    - apply ScalarProofs.str_eqb_eq in Hc. subst c. reflexivity.
    - unfold comp_ok in Hc. rewrite !andb_true_iff, !negb_true_iff in Hc. apply Hc. }
  destruct rel as [|c' rel']; [cbn [join]; apply nopair_nochar; exact Hcs|].
  change (join [c_slash] (c :: c' :: rel')) with (c ++ [c_slash] ++ join [c_slash] (c' :: rel')).
  apply nopair_app_l.
  - apply nopair_nochar. exact Hcs.
  - cbn [app]. cbn [rel_ok forallb] in Hr. apply andb_true_iff in Hr. destruct Hr as [Hc' _].
    destruct (rel_comp_head c' Hc') as (x & r & E & Hx).
    assert (Ej : exists t, join [c_slash] (c' :: rel') = x :: t).
    { rewrite E. destruct rel'; cbn [join app]; eexists; reflexivity. }
    destruct Ej as [t Ej]. rewrite Ej in IH |- *. rewrite nopair_cons2, Hx, andb_false_r. exact IH.
  - intros r Er. rewrite Er, has_char_app' in Hcs. cbn in Hcs. rewrite orb_true_r in Hcs. discriminate Hcs.
Qed.

Lemma nopair_wrapped (q : N) (n : list N) : (q =? c_slash) = false -> nopair c_slash c_slash n = true ->
  nopair c_slash c_slash (q :: n ++ [q]) = true.
Proof.
  intros Hq Hn. rewrite (nopair_cons_ne _ _ q _ Hq). apply nopair_app_r; [exact Hn|reflexivity|cbn; exact Hq].
Qed.

Lemma nopair_directive (rel : list (list N)) : rel_ok rel = true -> name_ok (join_slash rel) = true ->
  nopair c_slash c_slash (include_directive_text rel) = true.
Proof.
  intros Hr Hn. pose proof (nopair_join_slash rel Hr) as Hj.
  unfold include_directive_text. destruct (format_string_head _ Hn) as (x & r & E & Hx).
  assert (HF : nopair c_slash c_slash (format_string (join_slash rel)) = true).
  { destruct (format_string_shape _ Hn) as [E'|[E'|[E' _]]]; rewrite E'; [| |exact Hj].
    - apply nopair_wrapped; [reflexivity|exact Hj].
    - apply nopair_wrapped; [reflexivity|exact Hj]. }
  apply nopair_app_l; [reflexivity|exact HF|].
  intros t Et. apply (f_equal (fun l => last l 0)) in Et. rewrite last_last in Et. vm_compute in Et. discriminate Et.
Qed.

Lemma nopair_dumped (P T : list N) (rel : list (list N)) : rel_ok rel = true -> name_ok (join_slash rel) = true ->
  ends_lf P -> nopair c_slash c_slash P = true -> nopair c_slash c_slash T = true ->
  nopair c_slash c_slash (P ++ include_directive_text rel ++ c_lf :: T) = true.
Proof.
  intros Hr Hn HP HnP HnT. apply nopair_app_r; [exact HnP| |reflexivity].
  apply nopair_app_r; [exact (nopair_directive rel Hr Hn)| |reflexivity].
  rewrite nopair_cons_ne by reflexivity. exact HnT.
Qed.

(* (3) with the text of (2): the dict file a, built in memory with ordinary data da and the include of b, dumped, read *)
Theorem include_dump_read_sd_partial : forall fs pa pb da i c s c' pra ub,
  norm_path pa = pa -> norm_path pb = pb -> name_ok (include_name pa pb) = true ->
  i < 1000000 -> plain_top da = true -> contains (iph i) (native_body da) = false ->
  has_char c_hash (to_string_plain da) = false -> nopair c_slash c_slash (to_string_plain da) = true ->
  let ta := to_string_sd (sd_with_include da i (include_name pa pb) pb) in
  fs_lookup pa fs = Some (FNative ta) -> fs_lookup pb fs = Some ub ->
  parse_unit true pa c (FNative ta) = Ok pra -> sd_inc (pr_sd pra) <> [] ->
  read_plain fs pa true true c = Ok (s, c') ->
  (exists c1 prb, parse_unit true (path_join (dir_of pa) (include_name pa pb)) c1 ub = Ok prb /\
     forall k, ordinary_key k = true -> alookup k (sd_data (pr_sd prb)) <> None -> alookup k (sd_data s) <> None) /\
  (forall k v, ordinary_key k = true -> ordinary_leaf v = true ->
     alookup k (sd_data (pr_sd pra)) = Some (Leaf v) -> alookup k (sd_data s) = Some (Leaf v)).
Proof.
  intros fs pa pb da i c s c' pra ub Ha Hb Hn Hi Hp Hc Hh Hnp ta. unfold ta. clear ta.
  rewrite (sd_include_text da i _ pb Hn Hi Hp Hc).
  destruct native_header_facts as (_ & Hel & Hcr & Hhash & HnpH & _ & _).
  intros Hfa Hfb Hpa Hne Hread.
  apply (include_dump_read_partial fs pa pb native_header (to_string_plain da) c s c' pra ub Ha Hb Hn Hel Hcr Hhash Hh); try assumption.
  unfold dumped_text. apply nopair_dumped; try assumption.
  apply rel_ok_relative_path. apply comps_of_ok.
Qed.
