(* C16 for the OpenFOAM format: any number of writes of DictWriter.write (FoamFormatter) to one target.
   The first write (or an overwrite) leaves the Foam body of the source dict WITHOUT any header: underscore keys dropped
   at every level, strings in double quotes.  Every append onto an existing file formats an SDict: banner, FoamFile
   block, rule, body.  The reader takes the banner for a block comment, the FoamFile block for DATA (an ordinary nested
   dict) and the rule for a line comment; the next append finds all three in the state it reads, writes them back in
   place (the banner is recognised as the file's header, so no second one is added) and the text has the same shape
   again: nothing is duplicated.  The underscore keys of an appended dict are dropped AFTER the merge; as a file never
   holds an underscore key, this is the same as dropping them before. *)
From Coq Require Import String.
From Coq Require Import NArith ZArith List Bool Lia.
From DictIO Require Import Chars Str Value Scalar KeyPath SDict Layout Lexer TokParser Reader TreeSpec NativeSpec LayoutSpec E2ESpec MiscSpec.
From DictIO Require ScalarProofs TokProofs KeyPathProofs QuoteProofs LayoutProofs.
From DictIO Require Import SDictProofs WriteProofs.
From DictIO Require Import E2EProofs E2EHoles E2EInsert E2EKeyTok E2EFullProofs.
From DictIO Require Import RereadPlain RereadStr RereadTree RereadWrite RereadLex RereadNum RereadProofs RereadFix RereadOff.
From DictIO Require Import FoamProofs FoamSdProofs AppendSeq.
Import ListNotations.
Open Scope N_scope.

(* ================================================================================================ *)
(* 1. the Foam source domain; what the reader makes of a written dict                               *)
(* ================================================================================================ *)
(* the source dict after parse_values, without its underscore keys, every leaf as the reader classifies its written form *)
Definition fclassified (d : list (key * tree)) : list (key * tree) := reread_plain (stripped (typed d)).

Lemma stripped_dom kvs : wf (Dict kvs) = true -> foam_writable_tree (Dict kvs) = true -> quoted_within 11 (Dict kvs) = true ->
  wdom (stripped kvs) = true /\ ktree foam_leaf (Dict (stripped kvs)) = true.
Proof.
  intros Hw Hf Hq. pose proof (foam_strip_ktree (Dict kvs) Hf) as Hs. rewrite strip_dict in Hs. split; [|exact Hs].
  unfold wdom. rewrite <- strip_dict, (wf_strip_us _ Hw), (quoted_within_strip_us _ _ Hq), strip_dict, writable_ktree,
    (foam_leaf_ktree_writable _ Hs). reflexivity.
Qed.

(* the text of a first write / an overwrite (FoamFormatter.to_string on the plain dict), read back *)
Lemma read_back_foam_plain path kvs : wf (Dict kvs) = true -> foam_writable_tree (Dict kvs) = true ->
  quoted_within 11 (Dict kvs) = true -> (Z.of_nat (nq (Dict kvs)) <= 1000000)%Z ->
  exists c, read_back path (foam_to_string_plain kvs) = Ok (st_plain (reread_plain (stripped kvs)), c).
Proof.
  intros Hw Hf Hq Hn. destruct (roundtrip_foam kvs (dir_of path) (-1)%Z Hw Hf ltac:(lia) Hn Hq) as [c E].
  rewrite (foam_values_as_native kvs Hf), strip_dict in E. fold (reread_plain (stripped kvs)) in E.
  destruct (stripped_dom kvs Hw Hf Hq) as [Hd _]. destruct (reread_dom _ Hd) as (R1 & _). destruct (wdom_inv _ R1) as (W1 & W2 & _).
  exists c. exact (read_plain_single path _ (-1)%Z false _ c W2 W1 E).
Qed.

(* (1) overwrite mode, and append mode when the target does not exist: the file then holds exactly the new dict without
   its underscore keys, and no header at all *)
Theorem foam_overwrite_reads_back : forall path existing d,
  pv_ok d = true -> wf (Dict (typed d)) = true -> foam_writable_tree (Dict (typed d)) = true ->
  quoted_within 11 (Dict (typed d)) = true -> (Z.of_nat (nq (Dict (typed d))) <= 1000000)%Z ->
  exists txt c,
    write_text true path existing false d = Ok txt /\ write_text true path None true d = Ok txt /\
    txt = foam_to_string_plain (typed d) /\
    read_back path txt = Ok (mkSD (fclassified d) [] [] [] [], c).
Proof.
  intros path existing d Hp Hw Hf Hq Hn. pose proof (pv_ok_inv d Hp) as Ep.
  destruct (proj1 (write_text_overwrite true path existing d) _ Ep) as [W1 W2]. cbv iota in W1, W2.
  destruct (read_back_foam_plain path (typed d) Hw Hf Hq Hn) as [c Er].
  exists (foam_to_string_plain (typed d)), c. split; [exact W1|]. split; [exact W2|]. split; [reflexivity|exact Er].
Qed.
Print Assumptions foam_overwrite_reads_back.

(* ================================================================================================ *)
(* 2. dropping the underscore keys commutes with re-classifying the leaves and with the merge       *)
(* ================================================================================================ *)
Lemma strip_map_leaves f : forall t, strip_us (map_leaves f t) = map_leaves f (strip_us t).
Proof.
  induction t as [v|kvs IH|ts IH] using tree_ind'.
  - reflexivity.
  - rewrite TokProofs.map_leaves_dict, !QuoteProofs.strip_us_dict, TokProofs.map_leaves_dict. f_equal.
    induction IH as [|[k c] l Hc _ IHl]; [reflexivity|]. cbn [map TokProofs.mkv fst snd] in *.
    unfold TokProofs.mkv at 1. cbn [fst snd]. rewrite !strip_kvs_cons. destruct (us_key k); [exact IHl|].
    cbn [map]. unfold TokProofs.mkv at 2. cbn [fst snd]. rewrite Hc, IHl. reflexivity.
  - rewrite TokProofs.map_leaves_lst, !QuoteProofs.strip_us_lst, TokProofs.map_leaves_lst. f_equal.
    induction IH as [|c l Hc _ IHl]; [reflexivity|]. cbn [map]. rewrite Hc, IHl. reflexivity.
Qed.

Lemma stripped_reread d : stripped (reread_plain d) = reread_plain (stripped d).
Proof.
  unfold stripped. rewrite reread_plain_dict, strip_map_leaves, strip_dict. fold (stripped d).
  unfold reread_plain. reflexivity.
Qed.

(* the Foam view of a source dict: the native view (classified) without the underscore keys *)
Lemma fclassified_stripped d : fclassified d = stripped (classified d).
Proof. unfold fclassified, classified. symmetry. apply stripped_reread. Qed.

Lemma alookup_strip_kvs k l : us_key k = false -> alookup k (QuoteProofs.strip_kvs l) = option_map strip_us (alookup k l).
Proof.
  intros Hk. induction l as [|[k0 c] l IH]; [reflexivity|]. rewrite strip_kvs_cons. cbn [alookup].
  destruct (key_eqb k k0) eqn:E.
  - apply key_eqb_eq in E. subst k0. rewrite Hk. cbn [alookup]. rewrite key_eqb_refl. reflexivity.
  - destruct (us_key k0); [exact IH|]. cbn [alookup]. rewrite E. exact IH.
Qed.

Lemma strip_kvs_aset k v l : QuoteProofs.strip_kvs (aset k v l) =
  if us_key k then QuoteProofs.strip_kvs l else aset k (strip_us v) (QuoteProofs.strip_kvs l).
Proof.
  induction l as [|[k0 c] l IH]; cbn [aset].
  - rewrite strip_kvs_cons. destruct (us_key k); reflexivity.
  - destruct (key_eqb k k0) eqn:E.
    + apply key_eqb_eq in E. subst k0. rewrite !strip_kvs_cons. destruct (us_key k); [reflexivity|].
      cbn [aset]. rewrite key_eqb_refl. reflexivity.
    + rewrite !strip_kvs_cons, IH. destruct (us_key k0) eqn:E0; [reflexivity|].
      destruct (us_key k); [reflexivity|]. cbn [aset]. rewrite E. reflexivity.
Qed.

Lemma strip_merge_tree : forall ov tv, strip_us (merge_spec_tree tv ov) = merge_spec_tree (strip_us tv) (strip_us ov).
Proof.
  induction ov as [v0|osub IH|ts _] using tree_ind'; intros tv.
  - rewrite !merge_spec_tree_nondict_r; [reflexivity | intros a; discriminate | intros a; discriminate].
  - destruct tv as [v1|tsub|ts1].
    + rewrite !merge_spec_tree_nondict_l; [reflexivity | intros a; discriminate | intros a; discriminate].
    + rewrite !QuoteProofs.strip_us_dict, !merge_spec_tree_dict, QuoteProofs.strip_us_dict. f_equal.
      revert tsub. induction IH as [|[k c] o Hc _ IHo]; intros tsub; [reflexivity|]. cbn [fold_left].
      rewrite IHo, strip_kvs_cons. unfold mstep at 2. cbn [fst snd]. rewrite strip_kvs_aset.
      destruct (us_key k) eqn:Ek; [reflexivity|]. cbn [fold_left]. f_equal. unfold mstep. cbn [fst snd].
      rewrite (alookup_strip_kvs k tsub Ek). f_equal.
      destruct (alookup k tsub) as [tv'|]; cbn [option_map mval]; [|reflexivity]. cbn [snd] in Hc. apply Hc.
    + rewrite QuoteProofs.strip_us_lst, QuoteProofs.strip_us_dict. reflexivity.
  - rewrite QuoteProofs.strip_us_lst. rewrite !merge_spec_tree_nondict_r; [reflexivity | intros a; discriminate | intros a; discriminate].
Qed.

Lemma stripped_merge t o : stripped (merge_spec t o) = merge_spec (stripped t) (stripped o).
Proof.
  pose proof (strip_merge_tree (Dict o) (Dict t)) as H. rewrite merge_spec_tree_dict, !strip_dict, merge_spec_tree_dict in H.
  injection H as H. rewrite !merge_spec_fold. exact H.
Qed.

(* a dict without underscore keys (what a Foam file holds) *)
Definition us_free (d : list (key * tree)) : bool := negb (has_us_key (Dict d)).

Lemma us_free_stripped d : us_free d = true -> stripped d = d.
Proof. unfold us_free. intros H. apply negb_true_iff in H. unfold stripped. rewrite (QuoteProofs.strip_us_identity _ H). reflexivity. Qed.
Lemma stripped_us_free d : us_free (stripped d) = true.
Proof. unfold us_free. rewrite <- strip_dict, QuoteProofs.strip_us_removes_all. reflexivity. Qed.
Lemma us_free_reread d : us_free d = true -> us_free (reread_plain d) = true.
Proof. intros H. rewrite <- (us_free_stripped d H), <- stripped_reread. apply stripped_us_free. Qed.
Lemma us_free_merge t o : us_free t = true -> us_free o = true -> us_free (merge_spec t o) = true.
Proof. intros Ht Ho. rewrite <- (us_free_stripped t Ht), <- (us_free_stripped o Ho), <- stripped_merge. apply stripped_us_free. Qed.

(* ================================================================================================ *)
(* 3. the two shapes of a read-back state of a Foam file                                            *)
(* ================================================================================================ *)
(* what the reader makes of the Foam header: the banner is block comment 0, the FoamFile block is DATA, the rule is
   line comment 0 (DictWriter reads the target with a fresh counter) *)
Definition fpre : list (key * tree) :=
  [(KS (bph 0), Leaf (SStr (bph 0))); (k_FoamFile, foam_file_dict); (KS (lph 0), Leaf (SStr (lph 0)))].
Definition st_foam (d : list (key * tree)) : sdict := mkSD (fpre ++ d) [(0, foam_rule)] [(0, foam_banner)] [] [].
Definition fst_of (hd : bool) (d : list (key * tree)) : sdict := if hd then st_foam d else st_plain d.

Lemma st_foam_eq d : st_foam d = mkSD (sd_reread_data 0 d) [(0, foam_rule)] [(0, foam_banner)] [] [].
Proof. reflexivity. Qed.

(* the data part of a Foam file: simple keys, writable leaves, unique keys, no top-level key FoamFile *)
Lemma fpre_fresh d k : ktree writable_leaf (Dict d) = true -> no_FoamFile_key d = true -> In k (map fst fpre) -> ~ In k (map fst d).
Proof.
  intros Hk Hn Hin Hd. cbn [map fst fpre In] in Hin. destruct Hin as [<- |[<- |[<- |[]]]].
  - exact (plain_key_not_ph d w_BLOCKCOMMENT 0 Hk (or_intror eq_refl) Hd).
  - unfold no_FoamFile_key in Hn. apply negb_true_iff in Hn.
    assert (E : existsb (key_eqb k_FoamFile) (map fst d) = true) by (apply existsb_exists; exists k_FoamFile; split; [exact Hd|apply key_eqb_refl]).
    rewrite E in Hn. discriminate Hn.
  - exact (plain_key_not_ph d w_LINECOMMENT 0 Hk (or_introl eq_refl) Hd).
Qed.

Lemma NoDup_app_disj {A} (a b : list A) : NoDup a -> NoDup b -> (forall x, In x a -> ~ In x b) -> NoDup (a ++ b).
Proof.
  induction a as [|x a IH]; intros Ha Hb Hd; [exact Hb|]. inversion Ha as [|? ? Hx Ha']; subst. cbn [app]. constructor.
  - intros Hin. apply in_app_or in Hin. destruct Hin as [Hin|Hin]; [exact (Hx Hin)|exact (Hd x (or_introl eq_refl) Hin)].
  - apply IH; [exact Ha'|exact Hb|]. intros y Hy. apply Hd. right. exact Hy.
Qed.

Lemma fpre_keys_nodup : NoDup (map fst fpre).
Proof. apply keys_nodup_iff. vm_compute. reflexivity. Qed.

Lemma wf_fpre d : ktree writable_leaf (Dict d) = true -> no_FoamFile_key d = true -> wf (Dict d) = true -> wf (Dict (fpre ++ d)) = true.
Proof.
  intros Hk Hn Hw. apply wf_Dict_iff in Hw. destruct Hw as [Hnd Hall]. apply wf_Dict_iff. split.
  - rewrite map_app. apply NoDup_app_disj; [exact fpre_keys_nodup|exact Hnd|].
    intros k H1. exact (fpre_fresh d k Hk Hn H1).
  - apply Forall_app. split; [|exact Hall]. repeat constructor.
Qed.

Lemma keys_of_kind_plain kd d : ktree writable_leaf (Dict d) = true -> keys_of_kind kd d = [].
Proof.
  intros H. unfold keys_of_kind. apply filter_none. intros k Hin. apply in_map_iff in Hin. destruct Hin as (kc & <- & Hin).
  rewrite (simple_kind _ (ktree_dict_keys _ d H kc Hin)). reflexivity.
Qed.

Lemma ctabs_foam d : ktree writable_leaf (Dict d) = true ->
  ctabs [(0, foam_rule)] [(0, foam_banner)] (Dict (fpre ++ d)).
Proof.
  intros H. pose proof (ktree_skeys _ _ H) as Hs.
  pose proof (ctabs_plain [(0, foam_rule)] [(0, foam_banner)] (Dict d) Hs) as Hc. cbn [ctabs] in Hc |- *. destruct Hc as (_ & _ & Hgo).
  assert (E : forall kd, keys_of_kind kd (fpre ++ d) = keys_of_kind kd fpre).
  { intros kd. unfold keys_of_kind. rewrite map_app, filter_app. fold (keys_of_kind kd d). rewrite (keys_of_kind_plain kd d H). apply app_nil_r. }
  rewrite !E. split; [vm_compute; repeat constructor; intros []|]. split; [vm_compute; repeat constructor; intros []|].
  cbn [fpre app]. split; [exact I|]. split; [|split; [exact I|exact Hgo]].
  destruct hdr_doc_facts as (_ & _ & _ & _ & _ & _ & _ & F8 & _).
  exact (ctabs_plain _ _ foam_file_dict (ktree_skeys _ _ F8)).
Qed.

Lemma sd_clean_foam d : ktree writable_leaf (Dict d) = true -> no_FoamFile_key d = true -> wf (Dict d) = true ->
  sd_clean (st_foam d) = st_foam d.
Proof. intros Hk Hn Hw. apply sd_clean_keep; [exact (ctabs_foam d Hk)|exact (wf_fpre d Hk Hn Hw)]. Qed.

Lemma sd_clean_fst hd d : ktree writable_leaf (Dict d) = true -> no_FoamFile_key d = true -> wf (Dict d) = true ->
  sd_clean (fst_of hd d) = fst_of hd d.
Proof. intros Hk Hn Hw. destruct hd; [exact (sd_clean_foam d Hk Hn Hw)|exact (sd_clean_st false d Hk Hw)]. Qed.

Lemma wf_fst hd d : ktree writable_leaf (Dict d) = true -> no_FoamFile_key d = true -> wf (Dict d) = true ->
  wf (Dict (sd_data (fst_of hd d))) = true.
Proof. intros Hk Hn Hw. destruct hd; [exact (wf_fpre d Hk Hn Hw)|exact Hw]. Qed.

(* DictReader.read (includes and comments on) of a single file whose parse has one of the two shapes *)
Lemma read_plain_fsingle p text count hd d c' : ktree writable_leaf (Dict d) = true -> no_FoamFile_key d = true -> wf (Dict d) = true ->
  parse_string true (dir_of p) count text = Ok (mkParsed (fst_of hd d) c') ->
  read_plain [(norm_path p, FNative text)] p true true count = Ok (fst_of hd d, c').
Proof.
  intros Hk Hn Hw Hp. unfold read_plain. cbn [fs_lookup]. rewrite str_eqb_refl'. cbn [parse_unit]. rewrite Hp. cbn [bind pr_sd pr_count].
  assert (Hi : sd_inc (fst_of hd d) = []) by (destruct hd; reflexivity).
  assert (E1 : sd_merge (fst_of hd d) [] (Some sd_empty) = fst_of hd d) by exact (sd_clean_fst hd d Hk Hn Hw).
  assert (E2 : sd_merge (fst_of hd d) (sd_data (fst_of hd d)) (Some (fst_of hd d)) = fst_of hd d).
  { unfold sd_merge. rewrite (merge_kvs_self _ _ _ (wf_fst hd d Hk Hn Hw)).
    destruct hd; [exact (sd_clean_foam d Hk Hn Hw)|exact (sd_clean_st false d Hk Hw)]. }
  unfold merge_includes. cbn [length]. cbn [merge_includes_rec]. rewrite Hi. cbn [fold_left bind sd_data sd_empty]. rewrite E1. cbn [bind]. rewrite E2.
  destruct hd; reflexivity.
Qed.

(* ================================================================================================ *)
(* 4. SDict.merge on a read-back state                                                              *)
(* ================================================================================================ *)
(* the domain of the data part: the native writer domain, every string free of double quotes, no top-level FoamFile *)
Definition fdom (d : list (key * tree)) : bool := wdom d && ktree foam_leaf (Dict d) && no_FoamFile_key d.

Lemma fdom_inv d : fdom d = true -> wdom d = true /\ ktree foam_leaf (Dict d) = true /\ no_FoamFile_key d = true.
Proof.
  unfold fdom. intros H. apply andb_true_iff in H. destruct H as [H H3]. apply andb_true_iff in H. destruct H as [H1 H2].
  repeat split; assumption.
Qed.

(* the entries in front stay in front *)
Lemma mstep_pre pre t k c : ~ In k (map fst pre) -> mstep (pre ++ t) (k, c) = pre ++ mstep t (k, c).
Proof.
  intros Hn. unfold mstep. cbn [fst snd]. induction pre as [|[k0 c0] pre IH]; [reflexivity|].
  cbn [map fst In] in Hn. assert (Hk : key_eqb k k0 = false) by (apply key_eqb_neq; intros ->; apply Hn; left; reflexivity).
  cbn [app alookup aset]. rewrite Hk. f_equal. apply IH. intros Hin. apply Hn. right. exact Hin.
Qed.

Lemma fold_mstep_pre pre : forall m t, (forall k, In k (map fst m) -> ~ In k (map fst pre)) ->
  fold_left mstep m (pre ++ t) = pre ++ fold_left mstep m t.
Proof.
  induction m as [|[k c] m IH]; intros t Hn; [reflexivity|]. cbn [fold_left].
  rewrite (mstep_pre pre t k c (Hn k (or_introl eq_refl))). apply IH. intros k' Hin. apply Hn. right. exact Hin.
Qed.

Lemma alookup_pre (pre t : list (key * tree)) k : ~ In k (map fst pre) -> alookup k (pre ++ t) = alookup k t.
Proof.
  intros Hn. induction pre as [|[k0 c0] pre IH]; [reflexivity|]. cbn [map fst In] in Hn.
  assert (Hk : key_eqb k k0 = false) by (apply key_eqb_neq; intros ->; apply Hn; left; reflexivity).
  cbn [app alookup]. rewrite Hk. apply IH. intros Hin. apply Hn. right. exact Hin.
Qed.

Lemma no_FoamFile_merge t o : no_FoamFile_key t = true -> no_FoamFile_key o = true -> no_FoamFile_key (merge_spec t o) = true.
Proof.
  intros Ht Ho. unfold no_FoamFile_key in *. apply negb_true_iff. apply negb_true_iff in Ht, Ho.
  destruct (existsb (key_eqb k_FoamFile) (map fst (merge_spec t o))) eqn:E; [|reflexivity]. exfalso.
  apply existsb_exists in E. destruct E as (k & Hin & Ek). apply key_eqb_eq in Ek. subst k.
  rewrite merge_spec_fold in Hin.
  assert (G : forall o t, In k_FoamFile (map fst (fold_left mstep o t)) -> In k_FoamFile (map fst t) \/ In k_FoamFile (map fst o)).
  { clear. induction o as [|[k c] o IH]; intros t H; [left; exact H|]. cbn [fold_left] in H. destruct (IH _ H) as [H1|H1].
    - unfold mstep in H1. cbn [fst snd] in H1. rewrite map_fst_aset in H1. destruct (alookup k t); [left; exact H1|].
      apply in_app_or in H1. destruct H1 as [H1|[<- |[]]]; [left; exact H1|right; left; reflexivity].
    - right. right. exact H1. }
  destruct (G o t Hin) as [H|H].
  - assert (E : existsb (key_eqb k_FoamFile) (map fst t) = true) by (apply existsb_exists; exists k_FoamFile; split; [exact H|apply key_eqb_refl]).
    rewrite E in Ht. discriminate Ht.
  - assert (E : existsb (key_eqb k_FoamFile) (map fst o) = true) by (apply existsb_exists; exists k_FoamFile; split; [exact H|apply key_eqb_refl]).
    rewrite E in Ho. discriminate Ho.
Qed.

Lemma sd_merge_fst hd F m : wdom F = true -> no_FoamFile_key F = true -> wdom m = true -> no_FoamFile_key m = true ->
  no_self_named F = true ->
  sd_merge (fst_of hd F) m None = fst_of hd (merge_spec F m).
Proof.
  intros HF HnF Hm Hnm Hns. destruct hd; [|exact (sd_merge_st false F m HF Hm Hns)].
  destruct (wdom_inv F HF) as (F1 & F2 & F3). destruct (wdom_inv m Hm) as (M1 & M2 & M3).
  pose proof (merge_wdom F m HF Hm) as HM. destruct (wdom_inv _ HM) as (W1 & W2 & W3).
  assert (Hnd : NoDup (map fst m)) by (apply wf_Dict_iff in M1; tauto).
  assert (Hdep : Forall (fun kv => (depth (snd kv) <= depth (Dict m))%nat) m).
  { apply Forall_forall. intros kv Hin. pose proof (depth_child _ _ Hin) as H. cbn [depth]. apply le_S. exact H. }
  assert (Hfr : forall k, In k (map fst m) -> ~ In k (map fst fpre)).
  { intros k H1 H2. exact (fpre_fresh m k M2 Hnm H2 H1). }
  assert (Ed : merge_kvs (S (depth (Dict m))) (Some []) (fpre ++ F) m = fpre ++ merge_spec F m).
  { rewrite merge_kvs_top_nocirc; [| exact Hnd | | exact Hdep].
    - rewrite merge_spec_fold. exact (fold_mstep_pre fpre m F Hfr).
    - intros k tv Hin E. rewrite insert_expression_nil. apply (no_self_named_lookup F k tv Hns).
      rewrite (alookup_pre fpre F k (Hfr k Hin)) in E. exact E. }
  unfold sd_merge, fst_of, st_foam. cbn [sd_data sd_lc sd_bc sd_inc sd_expr]. rewrite Ed.
  exact (sd_clean_foam (merge_spec F m) W2 (no_FoamFile_merge F m HnF Hnm) W1).
Qed.

(* ================================================================================================ *)
(* 5. no comment placeholder starts inside the Foam body of ordinary data                           *)
(* ================================================================================================ *)
(* RereadWrite.Fr_all for any leaf rendering that keeps the word COMMENT out *)
Section ClosedG.
  Variable p : list N.
  Hypothesis Hpc : forallb phc p = true.
  Hypothesis Hpne : p <> [].
  Hypothesis Hpw : forall Y : list N, contains w_COMMENT Y = false -> contains p Y = false.
  Variable lf : scalar -> str.
  Variable ll : scalar -> nat.
  Variable ok : scalar -> bool.
  Hypothesis Hlf : forall v, ok v = true -> contains p (lf v) = false.

  Definition FrG (t : tree) : Prop :=
    ktree ok t = true -> forall lvl anc, match t with Leaf _ => True | _ => Gc p (gfmt lf ll lvl anc t) end.

  Lemma FrG_entries kvs : Forall (fun kc => FrG (snd kc)) kvs -> ktree ok (Dict kvs) = true ->
    forall lvl, Gc p (gentries lf ll lvl kvs).
  Proof.
    induction 1 as [|[k c] kvs Hc _ IH]; intros Hs lvl; [apply Gc_nil|].
    rewrite ktree_dict_cons in Hs. apply andb_true_iff in Hs. destruct Hs as [Hs Hs3].
    apply andb_true_iff in Hs. destruct Hs as [Hs1 Hs2]. cbn [snd] in Hc. specialize (Hc Hs2).
    destruct (simple_key_inv k Hs1) as (Hkt & Hkx & _).
    cbn [gentries]. apply Gc_app; [|exact (IH Hs3 lvl)]. destruct c as [v|d|l].
    - cbv zeta. apply (Gc_line p Hpc Hpne).
      destruct (Nat.max 8 (30 - length (FK k) - 4 * lvl)) as [|n] eqn:En; [lia|].
      apply (free_kv p Hpc Hpne); [exact (free_tok p Hpw _ Hkt)|exact (Hlf v Hs2)].
    - rewrite Hkx. apply Gc_app; [apply (Gc_line p Hpc Hpne), (free_tok p Hpw); exact Hkt|].
      apply Gc_app; [apply (Gc_line p Hpc Hpne), (free_one p Hpc Hpne); reflexivity|].
      apply Gc_app; [exact (Hc (S lvl) false)|apply (Gc_line p Hpc Hpne), (free_one p Hpc Hpne); reflexivity].
    - rewrite Hkx. apply Gc_app; [apply (Gc_line p Hpc Hpne), (free_tok p Hpw); exact Hkt|exact (Hc lvl false)].
  Qed.

  Lemma FrG_items ts : Forall FrG ts -> ktree ok (Lst ts) = true ->
    forall lvl len idx first, Gg p (gitems lf ll lvl len ts idx first) /\ hd_sp (gitems lf ll lvl len ts idx first).
  Proof.
    induction 1 as [|c l Hc _ IH]; intros Hs lvl len idx first; [split; [apply Gc_Gg, Gc_nil|exact I]|].
    rewrite ktree_lst_cons in Hs. apply andb_true_iff in Hs. destruct Hs as [Hs1 Hs2]. specialize (Hc Hs1).
    cbn [gitems]. destruct c as [v|d|l'].
    - destruct (glist_item_cases ll lvl first idx len v) as (lv & pad & nl & f' & E). rewrite E.
      destruct (IH Hs2 lvl len (S idx) f') as [I1 I2]. split; [|apply (hd_sp_line_S p Hpc Hpw)].
      assert (Hfree : contains p (lf v ++ spaces pad) = false).
      { destruct pad as [|pad]; [cbn [spaces repeat]; rewrite app_nil_r; exact (Hlf v Hs1)|].
        cbn [spaces repeat]. fold (spaces pad). rewrite (contains_sep p c_sp _ _ Hpne (p_nosp p Hpc)), (Hlf v Hs1). cbn [orb].
        rewrite <- (app_nil_r (spaces pad)), (contains_spaces p _ _ Hpne (p_nosp p Hpc)). apply contains_nil_r. exact Hpne. }
      destruct nl.
      + apply Gg_app_c; [apply (Gc_line p Hpc Hpne); exact Hfree|exact I1].
      + apply Gg_app; [apply (Gg_line_open p Hpc Hpne); exact Hfree|exact I1|exact I2].
    - destruct (IH Hs2 lvl len (S idx) true) as [I1 I2]. split; [|apply (hd_sp_line_S p Hpc Hpw)].
      apply Gg_app_c; [apply (Gc_line p Hpc Hpne); apply contains_nil_r; exact Hpne|].
      apply Gg_app_c; [apply (Gc_line p Hpc Hpne), (free_one p Hpc Hpne); reflexivity|].
      apply Gg_app_c; [exact (Hc (S (S lvl)) false)|]. apply Gg_app_c; [apply (Gc_line p Hpc Hpne), (free_one p Hpc Hpne); reflexivity|exact I1].
    - destruct (IH Hs2 lvl len (S idx) first) as [I1 I2]. split.
      + apply Gg_app_c; [exact (Hc (S lvl) true)|exact I1].
      + rewrite gfmt_lst. rewrite <- !app_assoc. apply (hd_sp_line_S p Hpc Hpw).
  Qed.

  Lemma FrG_all : forall t, FrG t.
  Proof.
    induction t as [v|kvs IH|ts IH] using tree_ind'; intros Hs lvl anc; [exact I| |].
    - rewrite gfmt_dict. apply FrG_entries; assumption.
    - rewrite gfmt_lst. apply Gc_app; [apply (Gc_line p Hpc Hpne), (free_one p Hpc Hpne); reflexivity|].
      destruct (FrG_items ts IH Hs lvl (length ts) 0%nat true) as [I1 _].
      apply Gc_app_g; [exact I1| |].
      + apply (Gc_line p Hpc Hpne). destruct anc; [apply (free_one p Hpc Hpne); reflexivity|].
        change [c_rpar; c_semi] with ([c_rpar] ++ [c_semi]). rewrite (contains_snoc_sep p _ _ Hpne (p_nosemi p Hpc)). apply (free_one p Hpc Hpne). reflexivity.
      + unfold line, indent_of. destruct (4 * lvl)%nat; destruct anc; reflexivity.
  Qed.
End ClosedG.

Lemma foam_leaf_free p : phname p -> forall v, foam_leaf v = true -> contains p (foam_format_scalar v) = false.
Proof.
  intros Hp v Hv. destruct (phname_facts p Hp) as (Hpc & Hpne & Hpw & _).
  destruct (foam_leaf_cases v Hv) as [(_ & ->)|(_ & s & -> & Hq & _ & ->)].
  - exact (free_leaf p Hpc Hpne Hpw v (foam_leaf_writable v Hv)).
  - destruct Hq as [Hqa _]. destruct (quotable_inv s Hqa) as (_ & Hr & _).
    pose proof (Hpw s (nores_nocomment s Hr)) as Hs. unfold dq.
    rewrite (contains_cons_sep p _ _ Hpne) by (apply phc_not_in; [reflexivity|exact Hpc]).
    rewrite (contains_snoc_sep p _ _ Hpne) by (apply phc_not_in; [reflexivity|exact Hpc]). exact Hs.
Qed.

Lemma foam_body_gfmt kvs : ktree foam_leaf (Dict kvs) = true -> foam_body kvs = gfmt foam_format_scalar llw 0 false (Dict kvs).
Proof.
  intros Hs. unfold foam_body. rewrite (sort_top_keys kvs (ktree_dict_keys _ kvs Hs)).
  change (fun k : key => match k with KI z => Z_to_dec z | KS s => foam_format_string s end) with foam_key_text.
  exact (afmt_gfmt foam_format_scalar foam_key_text foam_leaf foam_leaf_width foam_key_simple (Dict kvs) Hs 0%nat false).
Qed.

Lemma foam_body_closed kvs p : phname p -> ktree foam_leaf (Dict kvs) = true -> Gc p (foam_body kvs).
Proof.
  intros Hp Hs. destruct (phname_facts p Hp) as (Hpc & Hpne & Hpw & _). rewrite (foam_body_gfmt kvs Hs).
  exact (FrG_all p Hpc Hpne Hpw foam_format_scalar llw foam_leaf (foam_leaf_free p Hp) (Dict kvs) Hs 0%nat false).
Qed.

(* ================================================================================================ *)
(* 6. FoamFormatter.to_string on a state read back from a Foam file with header                     *)
(* ================================================================================================ *)
(* the three entries in front as the Foam formatter lays them out: placeholder line, FoamFile block, placeholder line *)
Definition fpre_text : str := fmt_tree foam_format_scalar foam_key_text 0 false (Dict fpre).
Definition fpre_mid : str := c_lf :: foam_file_block.

Lemma fpre_text_eq : fpre_text = bph 0 ++ spaces 12 ++ bph 0 ++ c_semi :: fpre_mid ++ lph 0 ++ spaces 13 ++ lph 0 ++ c_semi :: [c_lf].
Proof. vm_compute. reflexivity. Qed.

Lemma strip_kvs_app a b : QuoteProofs.strip_kvs (a ++ b) = QuoteProofs.strip_kvs a ++ QuoteProofs.strip_kvs b.
Proof.
  induction a as [|[k c] a IH]; [reflexivity|]. cbn [app]. rewrite !strip_kvs_cons, IH. destruct (us_key k); reflexivity.
Qed.

Lemma stripped_fpre d : stripped (fpre ++ d) = fpre ++ stripped d.
Proof.
  unfold stripped. rewrite !QuoteProofs.strip_us_dict. cbn [kvs_of]. rewrite strip_kvs_app. f_equal.
Qed.

Lemma aentries_app fmt fmtk lvl a b : aentries fmt fmtk lvl (a ++ b) = aentries fmt fmtk lvl a ++ aentries fmt fmtk lvl b.
Proof.
  induction a as [|[k c] a IH]; [reflexivity|]. cbn [app aentries]. rewrite IH, <- app_assoc. reflexivity.
Qed.

Lemma sort_top_fpre d : ktree writable_leaf (Dict d) = true -> sort_top (fpre ++ d) = fpre ++ d.
Proof.
  intros H. pose proof (ktree_dict_keys _ d H) as Hk.
  assert (Hb : filter bk d = []) by (apply filter_none; intros kc Hin; exact (proj1 (simple_key_unsorted _ (Hk kc Hin)))).
  assert (Hnb : filter (fun kc => negb (bk kc)) d = d).
  { clear Hb H. induction d as [|kc d IH]; [reflexivity|]. cbn [filter]. unfold bk at 1.
    rewrite (proj1 (simple_key_unsorted _ (Hk kc (or_introl eq_refl)))). cbn [negb]. f_equal. apply IH.
    intros x Hx. apply Hk. right. exact Hx. }
  rewrite sort_top_eq.
  - rewrite !filter_app, Hb, Hnb. reflexivity.
  - intros kc Hin. apply in_app_or in Hin. destruct Hin as [Hin|Hin]; [|exact (proj2 (simple_key_unsorted _ (Hk kc Hin)))].
    cbn [fpre In] in Hin. destruct Hin as [<- |[<- |[<- |[]]]]; reflexivity.
Qed.

Lemma foam_body_fpre d : ktree writable_leaf (Dict d) = true -> foam_body (fpre ++ d) = fpre_text ++ foam_body d.
Proof.
  intros H. unfold foam_body. rewrite (sort_top_fpre d H), (sort_top_keys d (ktree_dict_keys _ d H)).
  change (fun k : key => match k with KI z => Z_to_dec z | KS s => foam_format_string s end) with foam_key_text.
  rewrite !afmt_dict, aentries_app. reflexivity.
Qed.

Lemma bph0_facts : bph 0 <> [] /\ (forall c, In c (bph 0) -> is_space c = false) /\ exists r, bph 0 = 66 :: r.
Proof. split; [discriminate|]. split; [|eexists; reflexivity]. intros c Hc. vm_compute in Hc. repeat (destruct Hc as [<- |Hc]; [reflexivity|]). destruct Hc. Qed.
Lemma lph0_facts : lph 0 <> [] /\ (forall c, In c (lph 0) -> is_space c = false) /\ exists r, lph 0 = 76 :: r.
Proof. split; [discriminate|]. split; [|eexists; reflexivity]. intros c Hc. vm_compute in Hc. repeat (destruct Hc as [<- |Hc]; [reflexivity|]). destruct Hc. Qed.

Lemma subst_none ph repl (X : list N) : ns ph X [] -> subst ph repl X = (X, false).
Proof. intros H. pose proof (subst_skip ph repl X [] H) as E. rewrite app_nil_r, subst_nil in E. cbn [fst snd] in E. rewrite app_nil_r in E. exact E. Qed.

Lemma subst_eq ph repl (s : list N) : sub_ph_pair (S (length s)) ph repl s = subst ph repl s.
Proof. reflexivity. Qed.

(* the text of the state: the default header, then the Foam body of the data -- the same text as for the data alone *)
Theorem st_foam_text M : ktree foam_leaf (Dict (stripped M)) = true ->
  foam_to_string_sd (st_foam M) = foam_header ++ remove_trailing_spaces (foam_body (stripped M)).
Proof.
  intros Hs. pose proof (foam_leaf_ktree_writable _ Hs) as Hw.
  rewrite foam_to_string_sd_eq. unfold sd_foam_body, st_foam. cbn [sd_data sd_lc sd_bc sd_inc].
  rewrite stripped_fpre, (foam_body_fpre _ Hw). set (B := foam_body (stripped M)).
  assert (HB : forall p, phname p -> Gc p B) by (intros p Hp; exact (foam_body_closed _ p Hp Hs)).
  destruct bph0_facts as (Bne & Bsp & rb & Erb). destruct lph0_facts as (Lne & Lsp & rl & Erl).
  set (R1 := fpre_mid ++ lph 0 ++ spaces 13 ++ lph 0 ++ c_semi :: [c_lf]).
  assert (Etxt : fpre_text ++ B = bph 0 ++ spaces 12 ++ bph 0 ++ c_semi :: (R1 ++ B)).
  { rewrite fpre_text_eq. unfold R1. rewrite <- !app_assoc. cbn [app]. rewrite <- !app_assoc. reflexivity. }
  assert (Ehk : header_key [(0, foam_banner)] (fpre_text ++ B) = Some 0) by (rewrite fpre_text_eq; vm_compute; reflexivity).
  assert (Eblocks : insert_block_comments foam_make_default_block_comment [(0, foam_banner)] (fpre_text ++ B) = foam_banner ++ R1 ++ B).
  { unfold insert_block_comments. rewrite Ehk, insert_blocks_cons. cbv zeta. rewrite N.eqb_refl.
    change (foam_make_default_block_comment foam_banner) with foam_banner.
    change (contains foam_banner []) with false. cbv iota.
    rewrite Etxt. fold (bph 0). rewrite (subst1_hit _ foam_banner _ (R1 ++ B) (match_pair_line (bph 0) 12 (R1 ++ B) Bne Bsp ltac:(lia))).
    assert (Hns : ns (bph 0) (foam_banner ++ R1 ++ B) []).
    { apply ns_app; [|apply ns_app; [|apply (HB (bph 0) (bph_name 0 ltac:(lia)))]]; rewrite Erb; apply ns_nochar; vm_compute; reflexivity. }
    rewrite (subst_none _ _ _ Hns). reflexivity. }
  rewrite Eblocks. cbn [insert_includes fold_left insert_line_comments fst snd].
  fold (lph 0). rewrite subst_eq.
  assert (Eline : fst (subst (lph 0) foam_rule (foam_banner ++ R1 ++ B)) = foam_header ++ B).
  { replace (foam_banner ++ R1 ++ B)
      with ((foam_banner ++ fpre_mid) ++ (lph 0 ++ spaces 13 ++ lph 0 ++ c_semi :: (c_lf :: B))) by (unfold R1; rewrite <- !app_assoc; cbn [app]; reflexivity).
    rewrite subst_skip by (rewrite Erl; apply ns_nochar; vm_compute; reflexivity). cbn [fst].
    rewrite (subst_hit _ foam_rule _ (c_lf :: B) (match_pair_line (lph 0) 13 (c_lf :: B) Lne Lsp ltac:(lia))). cbn [fst].
    assert (Hns : ns (lph 0) (c_lf :: B) []).
    { change (c_lf :: B) with ([c_lf] ++ B). apply ns_app; [rewrite Erl; apply ns_nochar; reflexivity|apply (HB (lph 0) (lph_name 0 ltac:(lia)))]. }
    rewrite (subst_none _ _ _ Hns). cbn [fst]. rewrite foam_header_split. unfold fpre_mid. rewrite <- !app_assoc. cbn [app]. reflexivity. }
  transitivity (remove_trailing_spaces (foam_header ++ B)); [f_equal; exact Eline|]. rewrite (rts_app _ _ foam_header_ends_lf). destruct foam_header_chars as (_ & _ & _ & _ & _ & _ & ->). reflexivity.
Qed.
Print Assumptions st_foam_text.

(* ================================================================================================ *)
(* 7. the domain is closed under reading back and under the merge                                   *)
(* ================================================================================================ *)
Lemma simple_str_no_dq s : simple_leaf (SStr s) = true -> no_dq s = true.
Proof.
  unfold simple_leaf. cbn [format_scalar]. intros H. destruct (simple_string_bare s H) as [E _]. rewrite E in H.
  destruct (simple_tok_inv s H) as (_ & Hc & _). unfold no_dq. apply negb_true_iff. apply forallb_nochar.
  apply forallb_forall. intros c Hin. pose proof (forallb_In _ _ _ Hc Hin) as Hs. cbn beta.
  destruct (c =? c_dq) eqn:E2; [|reflexivity]. apply N.eqb_eq in E2. subst c. discriminate Hs.
Qed.

Lemma foam_leaf_written v : foam_leaf v = true -> foam_leaf (written_value v) = true.
Proof.
  intros H. pose proof (foam_leaf_writable v H) as Hw. destruct (written_value_cases v Hw) as [[Hs He]|[_ ->]]; [|exact H].
  unfold foam_leaf. rewrite (written_value_closed v Hw). cbn [andb].
  destruct (written_value v) as [z|l|b| |s]; try reflexivity. exact (simple_str_no_dq s Hs).
Qed.

Lemma ktree_map_leaves (ok : scalar -> bool) f : (forall v, ok v = true -> ok (f v) = true) ->
  forall t, ktree ok t = true -> ktree ok (map_leaves f t) = true.
Proof.
  intros Hf. induction t as [v|kvs IH|ts IH] using tree_ind'; intros H.
  - exact (Hf v H).
  - rewrite TokProofs.map_leaves_dict. induction IH as [|[k c] kvs Hc _ IHk]; [reflexivity|].
    rewrite ktree_dict_cons in H. apply andb_true_iff in H. destruct H as [H H3].
    apply andb_true_iff in H. destruct H as [H1 H2]. cbn [snd] in Hc. cbn [map]. unfold TokProofs.mkv at 1. cbn [fst snd].
    rewrite ktree_dict_cons, H1, (Hc H2), (IHk H3). reflexivity.
  - rewrite TokProofs.map_leaves_lst. induction IH as [|c l Hc _ IHl]; [reflexivity|].
    rewrite ktree_lst_cons in H. apply andb_true_iff in H. destruct H as [H1 H2].
    cbn [map]. rewrite ktree_lst_cons, (Hc H1), (IHl H2). reflexivity.
Qed.

Lemma ktree_foam_writable : forall t, ktree foam_leaf t = true -> foam_writable_tree t = true.
Proof.
  induction t as [v|kvs IH|ts IH] using tree_ind'; intros H.
  - exact H.
  - induction IH as [|[k c] kvs Hc _ IHk]; [reflexivity|].
    rewrite ktree_dict_cons in H. apply andb_true_iff in H. destruct H as [H H3].
    apply andb_true_iff in H. destruct H as [H1 H2]. cbn [snd] in Hc.
    rewrite fw_dict_cons, H1, (Hc H2), (IHk H3). cbn [andb]. rewrite orb_true_r. reflexivity.
  - induction IH as [|c l Hc _ IHl]; [reflexivity|].
    rewrite ktree_lst_cons in H. apply andb_true_iff in H. destruct H as [H1 H2].
    rewrite fw_lst_cons, (Hc H1), (IHl H2). reflexivity.
Qed.

Lemma keys_reread d : map fst (reread_plain d) = map fst d.
Proof.
  unfold reread_plain. rewrite TokProofs.map_leaves_dict. cbn [kvs_of]. rewrite map_map. apply map_ext. intros [k c]. reflexivity.
Qed.

Lemma fdom_reread d : fdom d = true ->
  fdom (reread_plain d) = true /\ reread_plain (reread_plain d) = reread_plain d /\ (nq (Dict (reread_plain d)) <= nq (Dict d))%nat.
Proof.
  intros H. destruct (fdom_inv d H) as (H1 & H2 & H3). destruct (reread_dom d H1) as (R1 & R2 & R3).
  split; [|split; assumption]. unfold fdom. rewrite R1. cbn [andb].
  rewrite reread_plain_dict, (ktree_map_leaves foam_leaf written_value foam_leaf_written _ H2). cbn [andb].
  unfold no_FoamFile_key in *. rewrite keys_reread. exact H3.
Qed.

Lemma fdom_merge t o : fdom t = true -> fdom o = true -> fdom (merge_spec t o) = true.
Proof.
  intros Ht Ho. destruct (fdom_inv t Ht) as (T1 & T2 & T3). destruct (fdom_inv o Ho) as (O1 & O2 & O3).
  unfold fdom. rewrite (merge_wdom t o T1 O1), (merge_ktree _ t o T2 O2), (no_FoamFile_merge t o T3 O3). reflexivity.
Qed.

Lemma no_FoamFile_stripped d : no_FoamFile_key d = true -> no_FoamFile_key (stripped d) = true.
Proof.
  unfold no_FoamFile_key. intros Hnf. apply negb_true_iff. apply negb_true_iff in Hnf.
  destruct (existsb (key_eqb k_FoamFile) (map fst (stripped d))) eqn:E; [|reflexivity].
  unfold stripped in E. rewrite QuoteProofs.strip_us_dict in E. cbn [kvs_of] in E.
  rewrite (strip_keys_sub k_FoamFile d E) in Hnf. discriminate Hnf.
Qed.

(* a source dict of the Foam writer domain: parse_values succeeds; unique keys, simple keys, writable leaves, quoted
   literals at most ten keys deep (as for the native format); no double quote in a string; no top-level key FoamFile;
   no self-named top-level entry *)
Definition foam_src (d : list (key * tree)) : bool :=
  pv_ok d && wdom (typed d) && foam_writable_tree (Dict (typed d)) && no_FoamFile_key (typed d) && no_self_named (fclassified d).

Lemma foam_src_inv d : foam_src d = true ->
  parse_values_tree (Dict d) = Ok (Dict (typed d)) /\ wdom (typed d) = true /\ foam_writable_tree (Dict (typed d)) = true /\
  no_FoamFile_key (typed d) = true /\ no_self_named (fclassified d) = true.
Proof.
  unfold foam_src. intros H. apply andb_true_iff in H. destruct H as [H H5]. apply andb_true_iff in H. destruct H as [H H4].
  apply andb_true_iff in H. destruct H as [H H3]. apply andb_true_iff in H. destruct H as [H1 H2].
  split; [exact (pv_ok_inv d H1)|]. repeat split; assumption.
Qed.

Lemma fstripped_facts d : foam_src d = true -> fdom (stripped (typed d)) = true /\ us_free (stripped (typed d)) = true.
Proof.
  intros Hs. destruct (foam_src_inv d Hs) as (_ & Hd & Hf & Hn & _). destruct (wdom_inv _ Hd) as (W1 & _ & W3).
  destruct (stripped_dom (typed d) W1 Hf W3) as [S1 S2]. split; [|apply stripped_us_free].
  unfold fdom. rewrite S1, S2, (no_FoamFile_stripped _ Hn). reflexivity.
Qed.

Lemma fclassified_facts d : foam_src d = true ->
  fdom (fclassified d) = true /\ us_free (fclassified d) = true /\ reread_plain (fclassified d) = fclassified d /\
  no_self_named (fclassified d) = true /\ (nq (Dict (fclassified d)) <= nq (Dict (typed d)))%nat.
Proof.
  intros Hs. destruct (fstripped_facts d Hs) as [S1 S2]. destruct (foam_src_inv d Hs) as (_ & _ & _ & _ & Hns).
  destruct (fdom_reread _ S1) as (R1 & R2 & R3). pose proof (nq_strip_us (Dict (typed d))) as Hq. rewrite strip_dict in Hq.
  unfold fclassified in *. split; [exact R1|]. split; [exact (us_free_reread _ S2)|]. split; [exact R2|]. split; [exact Hns|lia].
Qed.

(* ================================================================================================ *)
(* 8. one write, then read                                                                          *)
(* ================================================================================================ *)
(* the text of an append step: header, then the Foam body of the (underscore-free) data; read back *)
Lemma read_back_foam_text path d : fdom d = true -> us_free d = true -> (Z.of_nat (nq (Dict d)) <= 1000000)%Z ->
  exists c, read_back path (foam_header ++ remove_trailing_spaces (foam_body d)) = Ok (st_foam (reread_plain d), c).
Proof.
  intros Hd Hu Hn. destruct (fdom_inv d Hd) as (H1 & H2 & H3). destruct (wdom_inv d H1) as (W1 & W2 & W3).
  destruct (roundtrip_foam_sd (st_plain d) (dir_of path) (-1)%Z eq_refl eq_refl eq_refl W1 (ktree_foam_writable _ H2) H3 ltac:(lia) Hn W3) as [c E].
  cbn [st_plain sd_data] in E. rewrite (foam_values_as_native d (ktree_foam_writable _ H2)), strip_dict, (us_free_stripped d Hu) in E.
  fold (reread_plain d) in E.
  rewrite (sd_text_plain (st_plain d) eq_refl eq_refl eq_refl) in E. cbn [st_plain sd_data] in E.
  rewrite foam_text_stripped, (us_free_stripped d Hu) in E.
  destruct (fdom_reread d Hd) as (R1 & _). destruct (fdom_inv _ R1) as (Q1 & _ & Q3). destruct (wdom_inv _ Q1) as (V1 & V2 & _).
  exists c. apply (read_plain_fsingle path _ (-1)%Z true (reread_plain d) c V2 Q3 V1). exact E.
Qed.

(* what FoamFormatter.to_string makes of a state of either shape *)
Lemma fst_text hd M : ktree foam_leaf (Dict (stripped M)) = true ->
  foam_to_string_sd (fst_of hd M) = foam_header ++ remove_trailing_spaces (foam_body (stripped M)).
Proof.
  intros Hs. destruct hd; [exact (st_foam_text M Hs)|]. unfold fst_of.
  rewrite (sd_text_plain (st_plain M) eq_refl eq_refl eq_refl). reflexivity.
Qed.

(* ---- the invariant of a write sequence ----------------------------------------------------------------- *)
Definition ffile_state (path : str) (file : option str) (st : option (list (key * tree))) (n : nat) (hd : bool) : Prop :=
  match file, st with
  | None, None => True
  | Some txt, Some F =>
      fdom F = true /\ us_free F = true /\ reread_plain F = F /\ no_self_named F = true /\ (nq (Dict F) <= n)%nat /\
      exists c, read_back path txt = Ok (fst_of hd F, c)
  | _, _ => False
  end.

Lemma fwrite_step path file st n hd ap d : ffile_state path file st n hd -> foam_src d = true ->
  (Z.of_nat (n + nq (Dict (typed d))) <= 1000000)%Z ->
  exists txt, write_text true path file ap d = Ok txt /\
              ffile_state path (Some txt) (spec_write st (fclassified d, ap)) (n + nq (Dict (typed d))) (hdr_after file ap).
Proof.
  intros Hfs Hs Hn. destruct (foam_src_inv d Hs) as (Ep & Hd & Hf & Hnf & Hns).
  destruct (fclassified_facts d Hs) as (C1 & C2 & C3 & C4 & C5). destruct (wdom_inv _ Hd) as (D1 & D2 & D3).
  assert (Hplain : forall ex, (ex = None \/ ap = false) ->
            exists txt, write_text true path ex ap d = Ok txt /\ ffile_state path (Some txt) (Some (fclassified d)) (n + nq (Dict (typed d))) false).
  { intros ex Hex. destruct (proj1 (write_text_overwrite true path ex d) _ Ep) as [W1 W2]. cbv iota in W1, W2.
    assert (Hb : (Z.of_nat (nq (Dict (typed d))) <= 1000000)%Z) by (clear - Hn; lia).
    destruct (read_back_foam_plain path (typed d) D1 Hf D3 Hb) as [c Er].
    exists (foam_to_string_plain (typed d)). split.
    - destruct Hex as [-> | ->]; [|exact W1]. destruct ap; [exact W2|exact W1].
    - cbn [ffile_state]. split; [exact C1|]. split; [exact C2|]. split; [exact C3|]. split; [exact C4|]. split; [clear - C5; lia|]. exists c. exact Er. }
  destruct file as [txt0|], st as [F|]; cbn [ffile_state] in Hfs; try contradiction.
  - destruct ap.
    + (* append onto the existing file *)
      destruct Hfs as (F1 & F2 & F3 & F4 & F5 & c & Er). cbn [spec_write hdr_after].
      destruct (fdom_inv F F1) as (G1 & G2 & G3). destruct (fstripped_facts d Hs) as [S1 S2].
      rewrite write_text_unfold, Ep. cbn [bind kvs_of_tree]. cbv zeta. unfold read_back in Er. rewrite Er. cbn [bind fst].
      rewrite (sd_merge_fst hd F (typed d) G1 G3 Hd Hnf F4).
      (* the underscore keys go after the merge: the same as before it *)
      assert (Est : stripped (merge_spec F (typed d)) = merge_spec F (stripped (typed d))) by (rewrite stripped_merge, (us_free_stripped F F2); reflexivity).
      pose proof (fdom_merge F _ F1 S1) as HM. destruct (fdom_inv _ HM) as (M1 & M2 & M3).
      rewrite (fst_text hd (merge_spec F (typed d))) by (rewrite Est; exact M2). rewrite Est.
      pose proof (nq_merge F (stripped (typed d))) as HnM. pose proof (nq_strip_us (Dict (typed d))) as Hq. rewrite strip_dict in Hq.
      assert (Hb : (Z.of_nat (nq (Dict (merge_spec F (stripped (typed d))))) <= 1000000)%Z) by (clear - HnM Hq F5 Hn; lia).
      destruct (read_back_foam_text path (merge_spec F (stripped (typed d))) HM (us_free_merge _ _ F2 S2) Hb) as [c' Er'].
      eexists. split; [reflexivity|]. cbn [ffile_state].
      assert (Erm : reread_plain (merge_spec F (stripped (typed d))) = merge_spec F (fclassified d)) by (rewrite reread_merge, F3; reflexivity).
      rewrite <- Erm. destruct (fdom_reread _ HM) as (R1 & R2 & R3).
      split; [exact R1|]. split; [exact (us_free_reread _ (us_free_merge _ _ F2 S2))|]. split; [exact R2|].
      split; [rewrite Erm; exact (merge_no_self_named F _ F4 C4)|]. split; [clear - R3 HnM Hq F5; lia|].
      exists c'. exact Er'.
    + destruct (Hplain (Some txt0) (or_intror eq_refl)) as [txt [W Hf']]. exists txt. split; [exact W|exact Hf'].
  - destruct (Hplain None (or_introl eq_refl)) as [txt [W Hf']]. exists txt. split; [exact W|]. destruct ap; exact Hf'.
Qed.

(* ================================================================================================ *)
(* 9. any number of writes to one target                                                            *)
(* ================================================================================================ *)
Definition fspec_ops (ops : list (bool * list (key * tree))) : list (list (key * tree) * bool) :=
  map (fun op => (fclassified (snd op), fst op)) ops.

Lemma frun_state : forall ops path w st n hd,
  ffile_state path (w_get path w) st n hd ->
  forallb (fun op => foam_src (snd op)) ops = true ->
  (Z.of_nat (n + nq_total (map snd ops)) <= 1000000)%Z ->
  ffile_state path (w_get path (writer_run true w path ops)) (spec_writes (fspec_ops ops) st)
              (n + nq_total (map snd ops)) (hdr_run ops (w_get path w) hd).
Proof.
  induction ops as [|[ap d] ops IH]; intros path w st n hd Hfs Hall Hn.
  - cbn [map nq_total fold_right writer_run fold_left fspec_ops spec_writes hdr_run snd]. rewrite Nat.add_0_r. exact Hfs.
  - cbn [forallb snd] in Hall. apply andb_true_iff in Hall. destruct Hall as [Hd Hall].
    cbn [map snd nq_total fold_right] in Hn |- *. fold (nq_total (map snd ops)) in Hn |- *.
    assert (Hb1 : (Z.of_nat (n + nq (Dict (typed d))) <= 1000000)%Z) by (clear - Hn; lia).
    assert (Hb2 : (Z.of_nat (n + nq (Dict (typed d)) + nq_total (map snd ops)) <= 1000000)%Z) by (clear - Hn; lia).
    destruct (fwrite_step path (w_get path w) st n hd ap d Hfs Hd Hb1) as (txt & W & Hfs').
    pose proof (writer_write_ok true w path ap d txt W) as Hg.
    unfold writer_run. cbn [fold_left fst snd]. fold (writer_run true (fst (writer_write true w path ap d)) path ops).
    cbn [fspec_ops map spec_writes fold_left fst snd]. fold (fspec_ops ops). fold (spec_writes (fspec_ops ops) (spec_write st (fclassified d, ap))).
    rewrite <- Hg in Hfs'.
    pose proof (IH path (fst (writer_write true w path ap d)) _ _ _ Hfs' Hall Hb2) as R.
    rewrite Nat.add_assoc.
    assert (Eh : hdr_run ((ap, d) :: ops) (w_get path w) hd = hdr_run ops (w_get path (fst (writer_write true w path ap d))) (hdr_after (w_get path w) ap)).
    { unfold hdr_run. cbn [fold_left fst snd]. rewrite Hg. unfold hdr_after. destruct (w_get path w); reflexivity. }
    rewrite Eh. exact R.
Qed.

(* (2), mixed sequences: onto a target that does not exist, any non-empty sequence of Foam writes (append or overwrite)
   of dicts of the Foam writer domain succeeds, and the file read back after the last write holds exactly the state of
   the specification fold spec_writes over the dicts without underscore keys, leaves classified: bare (st_plain) when
   the last write was an overwrite or the first write, behind banner entry / FoamFile dict / rule entry (st_foam)
   otherwise *)
Theorem foam_write_sequence_reads_back : forall path w ops,
  w_get path w = None -> ops <> [] ->
  forallb (fun op => foam_src (snd op)) ops = true ->
  (Z.of_nat (nq_total (map snd ops)) <= 1000000)%Z ->
  exists txt F c,
    w_get path (writer_run true w path ops) = Some txt /\
    spec_writes (fspec_ops ops) None = Some F /\
    read_back path txt = Ok (fst_of (hdr_run ops None false) F, c) /\
    fdom F = true /\ us_free F = true /\ reread_plain F = F.
Proof.
  intros path w ops Hw Hne Hall Hn.
  assert (Hfs : ffile_state path (w_get path w) None 0 false) by (rewrite Hw; exact I).
  pose proof (frun_state ops path w None 0%nat false Hfs Hall Hn) as R. rewrite Hw in R.
  destruct ops as [|[ap d] ops]; [contradiction|].
  destruct (spec_writes_some (fspec_ops ops) (fclassified d)) as [F EF].
  assert (E : spec_writes (fspec_ops ((ap, d) :: ops)) None = Some F).
  { cbn [fspec_ops map spec_writes fold_left fst snd]. destruct ap; exact EF. }
  rewrite E in R. unfold ffile_state in R.
  destruct (w_get path (writer_run true w path ((ap, d) :: ops))) as [txt|]; [|contradiction].
  destruct R as (F1 & F2 & F3 & _ & _ & c & Er). exists txt, F, c. repeat split; assumption.
Qed.

Lemma fspec_appends : forall ds x,
  spec_writes (map (fun d => (fclassified d, true)) ds) (Some x) = Some (fold_left merge_spec (map fclassified ds) x).
Proof. induction ds as [|d ds IH]; intros x; [reflexivity|]. cbn [map spec_writes fold_left spec_write]. apply IH. Qed.

(* (2), append only *)
Theorem foam_append_sequence_reads_back : forall path w ds,
  w_get path w = None -> ds <> [] ->
  forallb foam_src ds = true ->
  (Z.of_nat (nq_total ds) <= 1000000)%Z ->
  let F := fold_left merge_spec (map fclassified ds) [] in
  exists txt c,
    w_get path (writer_run true w path (appends ds)) = Some txt /\
    read_back path txt = Ok (fst_of (Nat.ltb 1 (length ds)) F, c) /\
    fdom F = true /\ us_free F = true /\ reread_plain F = F.
Proof.
  intros path w ds Hw Hne Hall Hn F.
  assert (Hall' : forallb (fun op => foam_src (snd op)) (appends ds) = true).
  { unfold appends. rewrite forallb_forall in *. intros op Hin. apply in_map_iff in Hin. destruct Hin as (d & <- & Hin). exact (Hall d Hin). }
  assert (Hm : map snd (appends ds) = ds) by (unfold appends; rewrite map_map; apply map_id).
  assert (Hne' : appends ds <> []) by (destruct ds; [contradiction|discriminate]).
  destruct (foam_write_sequence_reads_back path w (appends ds) Hw Hne' Hall' ltac:(rewrite Hm; exact Hn)) as (txt & F' & c & E1 & E2 & E3 & E4 & E5 & E6).
  assert (EF : F' = F).
  { destruct ds as [|d ds]; [contradiction|]. unfold fspec_ops, appends in E2. rewrite map_map in E2.
    cbn [map spec_writes fold_left fst snd spec_write] in E2. fold (spec_writes (map (fun x => (fclassified (snd (true, x)), fst (true, x))) ds) (Some (fclassified d))) in E2.
    change (map (fun x => (fclassified (snd (true, x)), fst (true, x))) ds) with (map (fun x => (fclassified x, true)) ds) in E2.
    rewrite fspec_appends in E2. injection E2 as <-. unfold F. cbn [map fold_left].
    assert (Hd : foam_src d = true) by (cbn [forallb] in Hall; apply andb_true_iff in Hall; exact (proj1 Hall)).
    destruct (fclassified_facts d Hd) as (C1 & _). destruct (fdom_inv _ C1) as (C1' & _). destruct (wdom_inv _ C1') as (Wc & _). apply wf_Dict_iff in Wc.
    assert (Hnil : merge_spec [] (fclassified d) = fclassified d) by (unfold merge_spec; rewrite (merge_nil_l (fclassified d) (proj1 Wc)); reflexivity).
    rewrite Hnil. reflexivity. }
  subst F'. rewrite hdr_run_appends in E3. destruct ds as [|d ds]; [contradiction|].
  exists txt, c. repeat split; assumption.
Qed.
Print Assumptions foam_write_sequence_reads_back.
Print Assumptions foam_append_sequence_reads_back.

(* ================================================================================================ *)
(* 10. in the words of the property: what is there stays, what is new and absent is added           *)
(* ================================================================================================ *)
Lemma alookup_app_cases (k : key) (a b : list (key * tree)) :
  alookup k (a ++ b) = match alookup k a with Some v => Some v | None => alookup k b end.
Proof. induction a as [|[k0 v0] a IH]; [reflexivity|]. cbn [app alookup]. destruct (key_eqb k k0); [reflexivity|exact IH]. Qed.

Lemma fdom_fresh F k : fdom F = true -> In k (map fst fpre) -> alookup k F = None.
Proof.
  intros HF Hin. destruct (fdom_inv F HF) as (H1 & _ & H3). destruct (wdom_inv F H1) as (_ & H2 & _).
  apply alookup_None_notin. exact (fpre_fresh F k H2 H3 Hin).
Qed.

(* a path into the data part of a state of either shape is a path of the state with the header entries in front *)
Lemma st_foam_path F p x : fdom F = true -> get_dpath (Dict F) p = Some x -> p <> [] -> get_dpath (Dict (sd_data (st_foam F))) p = Some x.
Proof.
  intros HF H Hne. destruct p as [|k p']; [congruence|]. cbn [st_foam sd_data]. rewrite get_dpath_cons in *. rewrite alookup_app_cases.
  destruct (alookup k fpre) as [c|] eqn:E; [|exact H]. exfalso.
  assert (Hin : In k (map fst fpre)) by (apply in_map_iff; exists (k, c); split; [reflexivity|exact (alookup_Some_In _ _ _ E)]).
  rewrite (fdom_fresh F k HF Hin) in H. discriminate H.
Qed.

Lemma fst_leaf_keep hd F F' : fdom F = true -> fdom F' = true ->
  (forall p v, get_dpath (Dict F) p = Some (Leaf v) -> get_dpath (Dict F') p = Some (Leaf v)) ->
  forall p v, get_dpath (Dict (sd_data (fst_of hd F))) p = Some (Leaf v) -> get_dpath (Dict (sd_data (st_foam F'))) p = Some (Leaf v).
Proof.
  intros HF HF' Hk p v H. assert (Hne : p <> []) by (intros ->; discriminate H). destruct hd.
  - destruct p as [|k p']; [congruence|]. cbn [fst_of st_foam sd_data] in *. rewrite get_dpath_cons in *. rewrite alookup_app_cases in *.
    destruct (alookup k fpre) as [c|] eqn:E; [exact H|].
    pose proof (Hk (k :: p') v) as Hk'. rewrite !get_dpath_cons in Hk'. specialize (Hk' H).
    destruct (alookup k F') as [c'|]; [exact Hk'|discriminate Hk'].
  - cbn [fst_of st_plain sd_data] in H. exact (st_foam_path F' p _ HF' (Hk p v H) Hne).
Qed.

Lemma fst_addable hd F p : addable (Dict (sd_data (fst_of hd F))) p = true -> addable (Dict F) p = true \/
  (exists k p', p = k :: p' /\ In k (map fst fpre)).
Proof.
  destruct hd; [|intros H; left; exact H]. cbn [fst_of st_foam sd_data]. destruct p as [|k p']; [intros H; left; exact H|].
  cbn [addable]. rewrite alookup_app_cases. destruct (alookup k fpre) as [c|] eqn:E; [|intros H; left; exact H].
  intros _. right. exists k, p'. split; [reflexivity|]. apply in_map_iff. exists (k, c). split; [reflexivity|exact (alookup_Some_In _ _ _ E)].
Qed.

(* (3): appends ds1 (at least one), then d, then ds2, onto a target that does not exist.  With s1 / s3 the states read
   back after ds1 and after the whole sequence:
   - every leaf path of s1 is in s3 with the same value (so are the header entries and the leaves of the FoamFile dict);
   - every key path of d (underscore keys dropped, leaves classified) that is absent from s1 is in s3 with the value it
     has in d when that value is a leaf. *)
Theorem foam_append_sequence_monotone : forall path w ds1 d ds2,
  w_get path w = None -> ds1 <> [] ->
  forallb foam_src (ds1 ++ d :: ds2) = true ->
  (Z.of_nat (nq_total (ds1 ++ d :: ds2)) <= 1000000)%Z ->
  exists txt1 txt3 s1 s3 c1 c3,
    w_get path (writer_run true w path (appends ds1)) = Some txt1 /\
    w_get path (writer_run true (writer_run true w path (appends ds1)) path (appends (d :: ds2))) = Some txt3 /\
    read_back path txt1 = Ok (s1, c1) /\ read_back path txt3 = Ok (s3, c3) /\
    (forall p v, get_dpath (Dict (sd_data s1)) p = Some (Leaf v) -> get_dpath (Dict (sd_data s3)) p = Some (Leaf v)) /\
    (forall p v, get_dpath (Dict (fclassified d)) p = Some (Leaf v) -> addable (Dict (sd_data s1)) p = true ->
                 get_dpath (Dict (sd_data s3)) p = Some (Leaf v)).
Proof.
  intros path w ds1 d ds2 Hw Hne Hall Hn.
  assert (Hall1 : forallb foam_src ds1 = true) by (rewrite forallb_app in Hall; apply andb_true_iff in Hall; exact (proj1 Hall)).
  assert (Hd : foam_src d = true).
  { rewrite forallb_app in Hall. apply andb_true_iff in Hall. destruct Hall as [_ H]. cbn [forallb] in H. apply andb_true_iff in H. exact (proj1 H). }
  assert (Hn1 : (Z.of_nat (nq_total ds1) <= 1000000)%Z) by (rewrite nq_total_app in Hn; clear - Hn; lia).
  destruct (foam_append_sequence_reads_back path w ds1 Hw Hne Hall1 Hn1) as (txt1 & c1 & A1 & A2 & A3 & _).
  assert (Hne3 : ds1 ++ d :: ds2 <> []) by (destruct ds1; discriminate).
  destruct (foam_append_sequence_reads_back path w (ds1 ++ d :: ds2) Hw Hne3 Hall Hn) as (txt3 & c3 & B1 & B2 & B3 & _).
  unfold appends in B1. rewrite map_app, writer_run_app in B1. fold (appends ds1) in B1. fold (appends (d :: ds2)) in B1.
  set (F1 := fold_left merge_spec (map fclassified ds1) []) in *.
  set (F3 := fold_left merge_spec (map fclassified (ds1 ++ d :: ds2)) []) in *.
  assert (EF : F3 = fold_left merge_spec (map fclassified ds2) (merge_spec F1 (fclassified d))).
  { unfold F3, F1. rewrite map_app, fold_left_app. reflexivity. }
  assert (Hlen : Nat.ltb 1 (length (ds1 ++ d :: ds2)) = true).
  { rewrite app_length. cbn [length]. apply Nat.ltb_lt. destruct ds1; [contradiction|cbn [length]; lia]. }
  rewrite Hlen in B2. cbn [fst_of] in B2.
  exists txt1, txt3, (fst_of (Nat.ltb 1 (length ds1)) F1), (st_foam F3), c1, c3. split; [exact A1|]. split; [exact B1|]. split; [exact A2|]. split; [exact B2|]. split.
  - apply (fst_leaf_keep _ F1 F3 A3 B3). intros p v H. rewrite EF. apply fold_merge_keeps. apply merge_keeps_leaves. exact H.
  - intros p v Hg Ha. assert (Hpne : p <> []) by (intros ->; discriminate Hg).
    destruct (fclassified_facts d Hd) as (C1 & _). destruct (fdom_inv _ C1) as (C1' & _).
    destruct (fst_addable _ _ _ Ha) as [Ha'|(k & p' & -> & Hin)].
    + apply (st_foam_path F3 p _ B3); [|exact Hpne]. rewrite EF. apply fold_merge_keeps.
      apply merge_adds_exact; [exact (proj1 (wdom_inv _ C1'))|exact Ha'|exact Hg].
    + exfalso. rewrite get_dpath_cons, (fdom_fresh _ k C1 Hin) in Hg. discriminate Hg.
Qed.
Print Assumptions foam_append_sequence_monotone.

(* ---- a sequence that begins with an overwrite: whatever the target held ----------------------------- *)
Theorem foam_write_sequence_after_overwrite : forall path w d ops,
  forallb (fun op => foam_src (snd op)) ((false, d) :: ops) = true ->
  (Z.of_nat (nq_total (map snd ((false, d) :: ops))) <= 1000000)%Z ->
  exists txt F c,
    w_get path (writer_run true w path ((false, d) :: ops)) = Some txt /\
    spec_writes (fspec_ops ops) (Some (fclassified d)) = Some F /\
    read_back path txt = Ok (fst_of (hdr_run ops (Some []) false) F, c) /\
    fdom F = true /\ us_free F = true /\ reread_plain F = F.
Proof.
  intros path w d ops Hall Hn. cbn [forallb snd] in Hall. apply andb_true_iff in Hall. destruct Hall as [Hd Hall].
  cbn [map snd nq_total fold_right] in Hn. fold (nq_total (map snd ops)) in Hn.
  destruct (foam_src_inv d Hd) as (Ep & Hdd & Hf & _ & _). destruct (wdom_inv _ Hdd) as (D1 & _ & D3).
  destruct (fclassified_facts d Hd) as (C1 & C2 & C3 & C4 & C5).
  assert (Hb : (Z.of_nat (nq (Dict (typed d))) <= 1000000)%Z) by (clear - Hn; lia).
  destruct (proj1 (write_text_overwrite true path (w_get path w) d) _ Ep) as [W _]. cbv iota in W.
  destruct (read_back_foam_plain path (typed d) D1 Hf D3 Hb) as [c0 Er0].
  assert (Hfs : ffile_state path (Some (foam_to_string_plain (typed d))) (Some (fclassified d)) (nq (Dict (typed d))) false).
  { cbn [ffile_state]. split; [exact C1|]. split; [exact C2|]. split; [exact C3|]. split; [exact C4|]. split; [exact C5|]. exists c0. exact Er0. }
  pose proof (writer_write_ok true w path false d _ W) as Hg. rewrite <- Hg in Hfs.
  pose proof (frun_state ops path (fst (writer_write true w path false d)) _ _ _ Hfs Hall Hn) as R.
  unfold writer_run. cbn [fold_left fst snd]. fold (writer_run true (fst (writer_write true w path false d)) path ops).
  destruct (spec_writes_some (fspec_ops ops) (fclassified d)) as [F EF]. rewrite EF in R. unfold ffile_state in R.
  destruct (w_get path (writer_run true (fst (writer_write true w path false d)) path ops)) as [txt|]; [|contradiction].
  destruct R as (F1 & F2 & F3 & _ & _ & c & Er). rewrite Hg in Er. exists txt, F, c.
  split; [reflexivity|]. split; [exact EF|]. split; [exact Er|]. repeat split; assumption.
Qed.
Print Assumptions foam_write_sequence_after_overwrite.

(* ================================================================================================ *)
(* 11. DictWriter.write for an SDict source and DictReader.read with all options (Model/Parse.v)    *)
(* ================================================================================================ *)
From DictIO Require Expr Eval Cli Parse.

Lemma merge_includes_fst fs hd d c : ktree writable_leaf (Dict d) = true -> no_FoamFile_key d = true -> wf (Dict d) = true ->
  merge_includes fs true (fst_of hd d) c = Ok (fst_of hd d, c).
Proof.
  intros Hk Hn Hw.
  assert (Hi : sd_inc (fst_of hd d) = []) by (destruct hd; reflexivity).
  assert (E1 : sd_merge (fst_of hd d) [] (Some sd_empty) = fst_of hd d) by exact (sd_clean_fst hd d Hk Hn Hw).
  assert (E2 : sd_merge (fst_of hd d) (sd_data (fst_of hd d)) (Some (fst_of hd d)) = fst_of hd d).
  { unfold sd_merge. rewrite (merge_kvs_self _ _ _ (wf_fst hd d Hk Hn Hw)).
    destruct hd; [exact (sd_clean_foam d Hk Hn Hw)|exact (sd_clean_st false d Hk Hw)]. }
  unfold merge_includes. cbn [merge_includes_rec]. rewrite Hi. cbn [fold_left bind sd_data sd_empty]. rewrite E1. cbn [bind]. rewrite E2. reflexivity.
Qed.

Lemma read_opts_fsingle p text count hd d c' : ktree writable_leaf (Dict d) = true -> no_FoamFile_key d = true -> wf (Dict d) = true ->
  parse_string true (dir_of p) count text = Ok (mkParsed (fst_of hd d) c') ->
  Parse.read_opts [(norm_path p, FNative text)] p true false true [] count = Some (Ok (fst_of hd d, c')).
Proof.
  intros Hk Hn Hw Hp. unfold Parse.read_opts. cbn [Parse.scope_keys fs_lookup]. rewrite str_eqb_refl'.
  cbn [parse_unit]. rewrite Hp. cbn [pr_sd pr_count]. rewrite (merge_includes_fst _ hd d c' Hk Hn Hw).
  cbv beta iota. destruct hd; unfold fst_of, st_foam, st_plain; rewrite eval_expressions_noexpr; reflexivity.
Qed.

(* DictWriter.write (FoamFormatter) of an SDict source without comments, in overwrite mode or onto a target that does
   not exist, then DictReader.read (fresh counter): an SDict source is always formatted with the default header, so the
   state read back has the header entries in front already after the FIRST write *)
Theorem foam_overwrite_reads_back_sd : forall fs target ap d,
  pv_ok d = true -> wf (Dict (typed d)) = true -> foam_writable_tree (Dict (typed d)) = true -> no_FoamFile_key (typed d) = true ->
  quoted_within 11 (Dict (typed d)) = true -> (Z.of_nat (nq (Dict (typed d))) <= 1000000)%Z ->
  (ap = false \/ fs_lookup (norm_path target) fs = None) ->
  exists txt c',
    Parse.write_sd fs true target ap false (st_plain d) (-1)%Z = Some (Ok (txt, (-1)%Z)) /\
    txt = foam_header ++ foam_to_string_plain (typed d) /\
    Parse.read_opts [(norm_path target, FNative txt)] target true false true [] (-1)%Z = Some (Ok (st_foam (fclassified d), c')).
Proof.
  intros fs target ap d Hp Hw Hf Hnf Hq Hn Hap. pose proof (pv_ok_inv d Hp) as Ep.
  destruct (roundtrip_foam_sd (st_plain (typed d)) (dir_of target) (-1)%Z eq_refl eq_refl eq_refl Hw Hf Hnf ltac:(clear; lia) Hn Hq) as [c' E].
  cbn [st_plain sd_data] in E. rewrite (foam_values_as_native _ Hf), strip_dict in E. fold (reread_plain (stripped (typed d))) in E.
  fold (fclassified d) in E. change (Z.to_N (counter_next (-1))) with 0%N in E. rewrite <- st_foam_eq in E.
  destruct (stripped_dom (typed d) Hw Hf Hq) as [Hd _]. destruct (reread_dom _ Hd) as (R1 & _). destruct (wdom_inv _ R1) as (W1 & W2 & _).
  assert (Hnf' : no_FoamFile_key (fclassified d) = true).
  { unfold fclassified, no_FoamFile_key. rewrite keys_reread. exact (no_FoamFile_stripped _ Hnf). }
  exists (foam_to_string_sd (st_plain (typed d))), c'. split; [|split].
  - unfold Parse.write_sd. cbn [st_plain sd_data sd_lc sd_bc sd_inc sd_expr]. rewrite Ep. cbn [kvs_of_tree].
    assert (El : (if ap then fs_lookup (norm_path target) fs else None) = None) by (destruct Hap as [-> | ->]; [reflexivity|destruct ap; reflexivity]).
    rewrite El. reflexivity.
  - exact (sd_text_plain (st_plain (typed d)) eq_refl eq_refl eq_refl).
  - exact (read_opts_fsingle target _ (-1)%Z true (fclassified d) c' W2 Hnf' W1 E).
Qed.
Print Assumptions foam_overwrite_reads_back_sd.

Lemma sd_merge_plain_src s m : sd_merge s m (Some (mkSD m [] [] [] [])) = sd_merge s m None.
Proof. destruct s as [dd lc bc inc ex]. unfold sd_merge. cbn [sd_data sd_lc sd_bc sd_inc sd_expr]. unfold tmerge. cbn [fold_left]. reflexivity. Qed.

(* one append of an SDict source (no comments) onto a target whose read gives a state of either shape: the text is the
   header and the Foam body of the merged data; read back (fresh counter), the data is the first-wins merge *)
Theorem foam_append_sd_step : forall fs target u hd F c0 d,
  fs_lookup (norm_path target) fs = Some u ->
  Parse.read_opts fs target true false true [] (-1)%Z = Some (Ok (fst_of hd F, c0)) ->
  fdom F = true -> us_free F = true -> reread_plain F = F -> no_self_named F = true ->
  foam_src d = true -> (Z.of_nat (nq (Dict F) + nq (Dict (typed d))) <= 1000000)%Z ->
  exists txt c',
    Parse.write_sd fs true target true false (st_plain d) (-1)%Z = Some (Ok (txt, c0)) /\
    txt = foam_header ++ remove_trailing_spaces (foam_body (merge_spec F (stripped (typed d)))) /\
    Parse.read_opts [(norm_path target, FNative txt)] target true false true [] (-1)%Z =
      Some (Ok (st_foam (merge_spec F (fclassified d)), c')) /\
    fdom (merge_spec F (fclassified d)) = true /\ us_free (merge_spec F (fclassified d)) = true /\
    reread_plain (merge_spec F (fclassified d)) = merge_spec F (fclassified d) /\ no_self_named (merge_spec F (fclassified d)) = true.
Proof.
  intros fs target u hd F c0 d Hl Hr F1 F2 F3 F4 Hs Hn.
  destruct (foam_src_inv d Hs) as (Ep & Hd & Hf & Hnf & Hns). destruct (fclassified_facts d Hs) as (C1 & C2 & C3 & C4 & C5).
  destruct (fdom_inv F F1) as (G1 & G2 & G3). destruct (fstripped_facts d Hs) as [S1 S2].
  assert (Est : stripped (merge_spec F (typed d)) = merge_spec F (stripped (typed d))) by (rewrite stripped_merge, (us_free_stripped F F2); reflexivity).
  pose proof (fdom_merge F _ F1 S1) as HM. destruct (fdom_inv _ HM) as (M1 & M2 & M3).
  pose proof (nq_merge F (stripped (typed d))) as HnM. pose proof (nq_strip_us (Dict (typed d))) as Hq. rewrite strip_dict in Hq.
  assert (Hb : (Z.of_nat (nq (Dict (merge_spec F (stripped (typed d))))) <= 1000000)%Z) by (clear - HnM Hq Hn; lia).
  pose proof (us_free_merge _ _ F2 S2) as HU.
  assert (Erm : reread_plain (merge_spec F (stripped (typed d))) = merge_spec F (fclassified d)) by (rewrite reread_merge, F3; reflexivity).
  destruct (fdom_reread _ HM) as (R1 & R2 & R3). rewrite Erm in R1, R2.
  destruct (wdom_inv _ M1) as (W1 & _ & W3).
  destruct (roundtrip_foam_sd (st_plain (merge_spec F (stripped (typed d)))) (dir_of target) (-1)%Z eq_refl eq_refl eq_refl W1
              (ktree_foam_writable _ M2) M3 ltac:(clear; lia) Hb W3) as [c' E].
  cbn [st_plain sd_data] in E. rewrite (foam_values_as_native _ (ktree_foam_writable _ M2)), strip_dict, (us_free_stripped _ HU) in E.
  fold (reread_plain (merge_spec F (stripped (typed d)))) in E. rewrite Erm in E.
  change (Z.to_N (counter_next (-1))) with 0%N in E. rewrite <- st_foam_eq in E.
  rewrite (sd_text_plain (st_plain (merge_spec F (stripped (typed d)))) eq_refl eq_refl eq_refl) in E. cbn [st_plain sd_data] in E.
  rewrite foam_text_stripped, (us_free_stripped _ HU) in E.
  destruct (fdom_inv _ R1) as (Q1 & _ & Q3). destruct (wdom_inv _ Q1) as (V1 & V2 & _).
  exists (foam_header ++ remove_trailing_spaces (foam_body (merge_spec F (stripped (typed d))))), c'.
  split; [|split; [reflexivity|split; [exact (read_opts_fsingle target _ (-1)%Z true _ c' V2 Q3 V1 E)|]]].
  - unfold Parse.write_sd. cbn [st_plain sd_data sd_lc sd_bc sd_inc sd_expr]. rewrite Ep. cbn [kvs_of_tree]. rewrite Hl, Hr.
    rewrite sd_merge_plain_src, (sd_merge_fst hd F (typed d) G1 G3 Hd Hnf F4).
    rewrite (fst_text hd (merge_spec F (typed d))) by (rewrite Est; exact M2). rewrite Est. reflexivity.
  - split; [exact R1|]. split; [rewrite <- Erm; exact (us_free_reread _ HU)|]. split; [exact R2|]. exact (merge_no_self_named F _ F4 C4).
Qed.
Print Assumptions foam_append_sd_step.
