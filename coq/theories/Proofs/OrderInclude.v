(* C15: "ordering when the file is written = ordering when the file is read", with include processing ON
   (DictReader.read with its default includes=True).  OrderFile.order_at_write_or_at_read is the includes=False
   version; the include pass is the identity on the plain read-back states (AppendSeq.merge_includes_st). *)
From Coq Require Import String.
From Coq Require Import NArith ZArith List Bool Permutation Lia.
From DictIO Require Import Chars Str Value Scalar KeyPath SDict Layout Lexer TokParser Reader Expr Eval Cli Parse.
From DictIO Require Import TreeSpec NativeSpec E2ESpec E2EProofs E2EKeyTok E2EFullProofs OrderProofs OrderFile WriteProofs RereadPlain AppendSeq.
Import ListNotations.

(* read of a file whose parse leaves no side table and whose data is plain (simple keys, unique keys), include
   processing on: the include pass and the expression pass change nothing *)
Lemma read_opts_plain_file_includes : forall fs root text order count D c',
  ktree writable_leaf (Dict D) = true -> wf (Dict D) = true ->
  fs_lookup (norm_path root) fs = Some (FNative text) ->
  parse_string true (dir_of root) count text = Ok (mkParsed (mkSD D [] [] [] []) c') ->
  read_opts fs root true order true [] count =
  Some (Ok (mkSD (if order then ordered_kvs D else D) [] [] [] [], c')).
Proof.
  intros fs root text order count D c' Hk Hw Hf Hp. unfold read_opts. cbn [scope_keys]. rewrite Hf.
  cbn [parse_unit]. rewrite Hp. cbn [pr_sd pr_count].
  pose proof (merge_includes_st fs false D c' Hk Hw) as Hm. cbn [st_of] in Hm. unfold st_plain in Hm. rewrite Hm.
  cbv beta iota. rewrite eval_expressions_noexpr. cbv iota beta zeta.
  destruct order; [rewrite sd_order_plain|]; reflexivity.
Qed.

Theorem order_at_write_or_at_read_includes : forall kvs root count fsU fsO,
  wf (Dict kvs) = true -> writable_tree (Dict kvs) = true ->
  (-1 <= count)%Z -> (Z.of_nat (nq (Dict kvs)) <= 1000000)%Z -> quoted_within 11 (Dict kvs) = true ->
  fs_lookup (norm_path root) fsU = Some (FNative (to_string_plain kvs)) ->
  fs_lookup (norm_path root) fsO = Some (FNative (to_string_plain (kvs_of (order_tree (Dict kvs))))) ->
  exists s c',
    read_opts fsU root true false true [] count = Some (Ok (s, c')) /\
    read_opts fsU root true true true [] count = Some (Ok (sd_order s, c')) /\
    read_opts fsO root true false true [] count = Some (Ok (sd_order s, c')) /\
    read_opts fsO root true true true [] count = Some (Ok (sd_order s, c')) /\
    sd_data s = kvs_of (map_leaves written_value (Dict kvs)).
Proof.
  intros kvs root count fsU fsO Hw Hwr Hc Hn Hdeep HU HO.
  destruct (ordered_file_reads_back kvs (dir_of root) count Hw Hwr Hc Hn Hdeep) as [_ (s & c' & E1 & E2 & E3 & E4 & _)].
  assert (Es : s = mkSD (sd_data s) [] [] [] []).
  { pose proof (roundtrip_native_nodup kvs (dir_of root) count Hw Hwr (ids_nodup count _ Hc Hn) Hdeep) as R.
    rewrite E1 in R. injection R as R _. rewrite R. reflexivity. }
  pose proof Hwr as Hkt. rewrite writable_ktree in Hkt.
  destruct (wvt_facts (Dict kvs) Hkt) as (F1 & _).
  assert (Ed : Dict (sd_data s) = map_leaves written_value (Dict kvs)).
  { rewrite E3, TokProofs.map_leaves_dict. reflexivity. }
  assert (Hk : ktree writable_leaf (Dict (sd_data s)) = true) by (rewrite Ed; exact F1).
  assert (Hws : wf (Dict (sd_data s)) = true) by (rewrite Ed, wf_map_leaves; exact Hw).
  assert (Hko : ktree writable_leaf (Dict (ordered_kvs (sd_data s))) = true).
  { rewrite <- writable_ktree, ordered_kvs_dict, order_writable, writable_ktree. exact Hk. }
  assert (Hwo : wf (Dict (ordered_kvs (sd_data s))) = true) by (rewrite ordered_kvs_dict, order_wf; exact Hws).
  assert (Eo : sd_order s = mkSD (ordered_kvs (sd_data s)) [] [] [] []) by (rewrite Es at 1; apply sd_order_plain).
  assert (Eoo : ordered_kvs (ordered_kvs (sd_data s)) = ordered_kvs (sd_data s)).
  { unfold ordered_kvs at 1. rewrite ordered_kvs_dict, order_idem. reflexivity. }
  exists s, c'. rewrite Es in E1. rewrite Eo in E2.
  rewrite (read_opts_plain_file_includes fsU root _ false count _ c' Hk Hws HU E1).
  rewrite (read_opts_plain_file_includes fsU root _ true count _ c' Hk Hws HU E1).
  rewrite (read_opts_plain_file_includes fsO root _ false count _ c' Hko Hwo HO E2).
  rewrite (read_opts_plain_file_includes fsO root _ true count _ c' Hko Hwo HO E2).
  rewrite Eoo, Eo, <- Es.
  repeat split; try reflexivity. exact E3.
Qed.
