(* C06 on files, bridge to C08: what the own parse of a NATIVE file holds along a key path of placeholder-free keys
   does not depend on the counter the parse starts at, so the conditions of IncludeFiles.v (clear_above, clear_upto,
   falls_off on the parses of the visit list) can be evaluated on the file parsed on its own at any counter. *)
From Coq Require Import String.
From Coq Require Import NArith ZArith List Bool Lia.
From DictIO Require Import Chars Str Value Scalar KeyPath SDict Layout Lexer TokParser Reader TreeSpec MiscSpec.
From DictIO Require Import CounterBase CounterLex CounterParse CounterProofs IncludeNested IncludeFiles.
Import ListNotations.

Lemma shape_R d : forall p t, shape (Rt d t) (map (Rk d) p) = shape t p.
Proof.
  induction p as [|k p' IH]; intro t.
  - destruct t as [v|kvs|ts]; [reflexivity | rewrite Rt_dict; reflexivity | rewrite Rt_lst; reflexivity].
  - destruct t as [v|kvs|ts]; [reflexivity | | rewrite Rt_lst; reflexivity].
    rewrite Rt_dict. cbn [map]. rewrite !shape_cons, (alookup_R d (Rt d)).
    destruct (alookup k kvs) as [c|]; cbn [option_map]; [apply IH | reflexivity].
Qed.

Lemma plain_path_R d : forall p, forallb plain_key p = true -> map (Rk d) p = p.
Proof.
  induction p as [|k p' IH]; intro H; [reflexivity|]. cbn [forallb] in H. apply andb_true_iff in H. destruct H as [Hk Hp].
  cbn [map]. rewrite (IH Hp). f_equal. destruct k as [z|s]; [reflexivity|]. cbn [Rk]. f_equal. apply rename_clean. exact Hk.
Qed.

Theorem native_shape_counter_free : forall c1 c2 dir text pr1 pr2 p,
  counter_ok c1 -> counter_ok c2 -> cleanb text = true -> cleanb dir = true ->
  parse_side (lex true dir c1 text) = true ->
  parse_string true dir c1 text = Ok pr1 -> parse_string true dir c2 text = Ok pr2 ->
  forallb plain_key p = true ->
  shape (Dict (sd_data (pr_sd pr2))) p = shape (Dict (sd_data (pr_sd pr1))) p.
Proof.
  intros c1 c2 dir text pr1 pr2 p H1 H2 Ht Hd Hs E1 E2 Hp.
  destruct (parse_counter_independent c1 c2 dir text H1 H2 Ht Hd Hs) as (n & _ & E).
  rewrite E1, E2 in E. cbn [map_res] in E. injection E as E. subst pr2.
  cbn [rename_parsed pr_sd]. unfold rename_sd. cbn [Rsd sd_data].
  rewrite <- (Rt_dict (c2 - c1)). rewrite <- (plain_path_R (c2 - c1) p Hp) at 1. apply shape_R.
Qed.

(* the three conditions are functions of the shape *)
Corollary native_conditions_counter_free : forall c1 c2 dir text pr1 pr2 p,
  counter_ok c1 -> counter_ok c2 -> cleanb text = true -> cleanb dir = true ->
  parse_side (lex true dir c1 text) = true ->
  parse_string true dir c1 text = Ok pr1 -> parse_string true dir c2 text = Ok pr2 ->
  forallb plain_key p = true ->
  clear_above (Dict (sd_data (pr_sd pr2))) p = clear_above (Dict (sd_data (pr_sd pr1))) p /\
  clear_upto (Dict (sd_data (pr_sd pr2))) p = clear_upto (Dict (sd_data (pr_sd pr1))) p /\
  falls_off (Dict (sd_data (pr_sd pr2))) p = falls_off (Dict (sd_data (pr_sd pr1))) p.
Proof.
  intros c1 c2 dir text pr1 pr2 p H1 H2 Ht Hd Hs E1 E2 Hp.
  rewrite !clear_above_shape, !clear_upto_shape, !falls_off_shape.
  rewrite (native_shape_counter_free c1 c2 dir text pr1 pr2 p H1 H2 Ht Hd Hs E1 E2 Hp). repeat split; reflexivity.
Qed.
