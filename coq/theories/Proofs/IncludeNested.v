(* Proofs for C06 on KEY PATHS: the include theorems of IncludeProofs.v (top level keys) composed with the path
   algebra of merge / clean-up of WriteProofs.v (C07), so that precedence, completeness and include order are
   stated for ordinary key paths at every depth of nesting. *)
From Coq Require Import String.
From Coq Require Import NArith ZArith List Bool Lia.
From DictIO Require Import Chars Str Value Scalar KeyPath SDict Layout Lexer TokParser Reader TreeSpec
     SDictProofs TokProofs SemProofs WriteProofs IncludeProofs.
Import ListNotations.

(* ================================================================================================ *)
(* 0. vocabulary                                                                                     *)
(* ================================================================================================ *)
Definition D (s : sdict) : tree := Dict (sd_data s).
Definition wfs (s : sdict) : Prop := wf (Dict (sd_data s)) = true.
Definition opath (p : list key) : bool := forallb ordinary_key p.

(* walking [p] through dicts never meets a leaf or a list before its end (it may fall off a dict) *)
Fixpoint clear_above (t : tree) (p : list key) : bool :=
  match p with
  | [] => true
  | k :: p' =>
      match t with
      | Dict kvs => match alookup k kvs with
                    | Some c => match p' with [] => true | _ => clear_above c p' end
                    | None => true
                    end
      | _ => false
      end
  end.
(* [t] holds nothing at [p], or a dict *)
Definition nodict_at (t : tree) (p : list key) : bool :=
  match get_dpath t p with Some (Dict _) | None => true | Some _ => false end.
(* ... no leaf or list at [p] or above it *)
Definition clear_upto (t : tree) (p : list key) : bool := clear_above t p && nodict_at t p.
(* the walk falls off a dict: nothing at [p], and no leaf or list above it *)
Definition falls_off (t : tree) (p : list key) : bool :=
  clear_above t p && match get_dpath t p with None => true | Some _ => false end.

(* the only leaf the merge replaces is a top level one that refers to its own key: a top level leaf must be
   ordinary (IncludeProofs / C06 use the same condition), a nested one is arbitrary *)
Definition leaf_ok (p : list key) (v : scalar) : bool :=
  match p with [_] => ordinary_leaf v | _ => true end.

(* what happens to the thing found at the end of a path: a leaf or list is unchanged, a dict stays a dict *)
Definition kind_kept (x x' : tree) : Prop :=
  ((forall kvs, x <> Dict kvs) -> x' = x) /\ (forall kvs, x = Dict kvs -> exists kvs', x' = Dict kvs').

Lemma kind_kept_refl : forall x, kind_kept x x.
Proof. intro x. split; [reflexivity | intros kvs E; exists kvs; exact E]. Qed.

Lemma kind_kept_trans : forall x y z, kind_kept x y -> kind_kept y z -> kind_kept x z.
Proof.
  intros x y z [A1 A2] [B1 B2]. split.
  - intro Hx. pose proof (A1 Hx) as E. subst y. apply B1. exact Hx.
  - intros kvs E. destruct (A2 kvs E) as [kvs' E']. exact (B2 kvs' E').
Qed.

Lemma clear_above_cons : forall kvs k p',
  clear_above (Dict kvs) (k :: p') =
  match alookup k kvs with
  | Some c => match p' with [] => true | _ => clear_above c p' end
  | None => true
  end.
Proof. reflexivity. Qed.

Lemma top_self_ref_ok : forall exprs p v, opath p = true -> leaf_ok p v = true -> top_self_ref exprs p v = false.
Proof.
  intros exprs p v Hp Hv. destruct p as [|k [|k2 p']]; try reflexivity.
  cbn [top_self_ref]. cbn [opath forallb] in Hp. rewrite andb_true_r in Hp.
  apply circular_ordinary_leaf; assumption.
Qed.

(* ================================================================================================ *)
(* 1. clean-up along an ordinary path: leaves and lists untouched, dicts stay dicts                  *)
(* ================================================================================================ *)
Lemma clean_tree_path : forall fuel data s p x,
  opath p = true -> nodup_path (Dict data) p = true -> get_dpath (Dict data) p = Some x ->
  exists x', get_dpath (Dict (fst (clean_tree fuel data s))) p = Some x' /\ kind_kept x x'.
Proof.
  induction fuel as [|f IH]; intros data s p x Hord Hnd Hget; [exists x; split; [exact Hget | apply kind_kept_refl]|].
  destruct p as [|k p'].
  - cbn [get_dpath] in Hget. injection Hget as Hget. subst x. eexists. split; [reflexivity|].
    split; [intro H; exfalso; exact (H data eq_refl) | intros kvs _; eexists; reflexivity].
  - unfold opath in Hord. cbn [forallb] in Hord. apply andb_true_iff in Hord. destruct Hord as [Hk Hord].
    rewrite nodup_path_cons in Hnd. apply andb_true_iff in Hnd. destruct Hnd as [Hnd Hndc].
    apply keys_nodup_iff in Hnd. rewrite get_dpath_cons in Hget.
    destruct (alookup k data) as [c|] eqn:Ek; [|discriminate Hget].
    rewrite clean_tree_S.
    pose proof (clean_level_lookup data s k Hk) as Hl.
    pose proof (clean_level_nodup data s Hnd) as Hn.
    destruct (clean_level data s) as [d s1]. cbn [fst] in Hl, Hn |- *.
    rewrite Ek in Hl. rewrite get_dpath_cons.
    destruct c as [v|sub|ts].
    + pose proof (fold_cstep_lookup f d d s1 k Hn) as H. rewrite Hl in H. rewrite H.
      exists x. split; [exact Hget | apply kind_kept_refl].
    + destruct (fold_cstep_lookup_dict f d d s1 k sub Hn Hl) as [sacc' H]. rewrite H.
      destruct p' as [|k' p''].
      * cbn [get_dpath] in Hget |- *. injection Hget as Hget. subst x. eexists. split; [reflexivity|].
        split; [intro Hx; exfalso; exact (Hx sub eq_refl) | intros kvs _; eexists; reflexivity].
      * exact (IH sub sacc' (k' :: p'') x Hord Hndc Hget).
    + pose proof (fold_cstep_lookup f d d s1 k Hn) as H. rewrite Hl in H. rewrite H.
      exists x. split; [exact Hget | apply kind_kept_refl].
Qed.

Lemma sd_clean_path : forall s p x,
  opath p = true -> wfs s -> get_dpath (D s) p = Some x ->
  exists x', get_dpath (D (sd_clean s)) p = Some x' /\ kind_kept x x'.
Proof.
  intros s p x Hord Hw Hget. unfold D. rewrite sd_clean_data_fst.
  apply clean_tree_path; [exact Hord | apply wf_nodup_path; exact Hw | exact Hget].
Qed.

(* ================================================================================================ *)
(* 2. merge, target side: whatever the target holds at a path stays there (a dict stays a dict)      *)
(* ================================================================================================ *)
Definition is_dict (x : tree) : Prop := exists kvs, x = Dict kvs.

Definition keeps_some (f : nat) : Prop := forall top tgt other p x,
  p <> [] -> get_dpath (Dict tgt) p = Some x ->
  exists x', get_dpath (Dict (merge_kvs f top tgt other)) p = Some x' /\ (is_dict x -> is_dict x').

(* the entry [k] of the target on the way to the thing at [k :: p'] *)
Definition entry_inv (p' : list key) (x c : tree) : Prop :=
  exists x', get_dpath c p' = Some x' /\ (is_dict x -> is_dict x').

Lemma kstep_entry_inv : forall f top k p' x, keeps_some f -> forall tgt kv c,
  alookup k tgt = Some c -> entry_inv p' x c ->
  exists c', alookup k (kstep f top tgt kv) = Some c' /\ entry_inv p' x c'.
Proof.
  intros f top k p' x Hkeeps tgt [k0 ov] c Hk Hinv.
  destruct (key_eqb k k0) eqn:E.
  - apply key_eqb_eq in E. subst k0. destruct Hinv as [x1 [Hg Hd]]. unfold kstep. rewrite Hk.
    destruct c as [v|tsub|ts].
    + (* a leaf: the path ends here; only the circular test can replace it *)
      destruct p' as [|k1 p1]; [|discriminate Hg]. cbn [get_dpath] in Hg. injection Hg as Hg. subst x1.
      assert (Hnd : ~ is_dict x) by (intro H; destruct (Hd H) as [kvs E]; discriminate E).
      assert (Hany : forall c', entry_inv [] x c').
      { intro c'. exists c'. split; [reflexivity | intro H; contradiction]. }
      destruct top as [exprs|].
      * destruct (circular k (insert_expression (Leaf v) exprs)).
        -- exists ov. split; [|apply Hany]. destruct ov; rewrite alookup_aset, key_eqb_refl; reflexivity.
        -- exists (Leaf v). split; [destruct ov; exact Hk | apply Hany].
      * exists (Leaf v). split; [destruct ov; exact Hk | apply Hany].
    + destruct ov as [v'|osub|ts'].
      * exists (Dict tsub). split; [|exists x1; split; assumption].
        destruct top as [exprs|]; [|exact Hk].
        rewrite circular_container by (intros v0; discriminate). exact Hk.
      * exists (Dict (merge_kvs f None tsub osub)). rewrite alookup_aset, key_eqb_refl. split; [reflexivity|].
        destruct p' as [|k1 p1].
        -- cbn [get_dpath] in Hg |- *. eexists. split; [reflexivity|]. intros _. eexists. reflexivity.
        -- destruct (Hkeeps None tsub osub (k1 :: p1) x1 ltac:(discriminate) Hg) as [x2 [Hg2 Hd2]].
           exists x2. split; [exact Hg2|]. intro H. apply Hd2. apply Hd. exact H.
      * exists (Dict tsub). split; [|exists x1; split; assumption].
        destruct top as [exprs|]; [|exact Hk].
        rewrite circular_container by (intros v0; discriminate). exact Hk.
    + (* a list: the path ends here and the list stays *)
      exists (Lst ts). split; [|exists x1; split; assumption].
      destruct top as [exprs|]; [|destruct ov; exact Hk].
      rewrite circular_container by (intros v0; discriminate). destruct ov; exact Hk.
  - apply key_eqb_neq in E. exists c. rewrite kstep_lookup_other by exact E. split; [exact Hk | exact Hinv].
Qed.

Lemma fold_kstep_entry_inv : forall f top k p' x, keeps_some f -> forall other tgt c,
  alookup k tgt = Some c -> entry_inv p' x c ->
  exists c', alookup k (fold_left (kstep f top) other tgt) = Some c' /\ entry_inv p' x c'.
Proof.
  intros f top k p' x Hkeeps. induction other as [|kv other IH]; intros tgt c Hk Hinv.
  - exists c. split; [exact Hk | exact Hinv].
  - cbn [fold_left]. destruct (kstep_entry_inv f top k p' x Hkeeps tgt kv c Hk Hinv) as [c1 [Hk1 Hinv1]].
    exact (IH (kstep f top tgt kv) c1 Hk1 Hinv1).
Qed.

Lemma keeps_some_all : forall f, keeps_some f.
Proof.
  induction f as [|f IH]; intros top tgt other p x Hp Hget.
  - exists x. split; [exact Hget | auto].
  - destruct p as [|k p']; [congruence|]. rewrite get_dpath_cons in Hget.
    destruct (alookup k tgt) as [c|] eqn:Ek; [|discriminate Hget].
    rewrite WriteProofs.merge_kvs_S.
    destruct (fold_kstep_entry_inv f top k p' x IH other tgt c Ek) as [c' [Hk' [x' [Hg' Hd']]]].
    { exists x. split; [exact Hget | auto]. }
    exists x'. rewrite get_dpath_cons, Hk'. split; assumption.
Qed.

Lemma sd_merge_keeps_path : forall s m o p x,
  opath p = true -> wfs s -> wf (Dict m) = true -> get_dpath (D s) p = Some x ->
  exists x', get_dpath (D (sd_merge s m o)) p = Some x' /\ (is_dict x -> is_dict x').
Proof.
  intros s m o p x Hord Hw Hm Hget.
  destruct (sd_merge_clean s m o) as [s1 [E1 E2]]. rewrite E1.
  assert (Hw1 : wfs s1) by (unfold wfs; rewrite E2; apply merge_kvs_wf; assumption).
  assert (H1 : exists x1, get_dpath (D s1) p = Some x1 /\ (is_dict x -> is_dict x1)).
  { destruct p as [|k p'].
    - eexists. split; [reflexivity|]. intros _. eexists. reflexivity.
    - unfold D. rewrite E2. apply keeps_some_all; [discriminate | exact Hget]. }
  destruct H1 as [x1 [Hg1 Hd1]].
  destruct (sd_clean_path s1 p x1 Hord Hw1 Hg1) as [x2 [Hg2 [_ Hk2]]].
  exists x2. split; [exact Hg2|]. intro H. destruct (Hd1 H) as [kvs E]. exact (Hk2 kvs E).
Qed.

(* the existing leaf statement (WriteProofs.sd_merge_keeps_any_state) with the stable side condition *)
Lemma sd_merge_keeps_leaf_path : forall s m o p v,
  opath p = true -> leaf_ok p v = true -> wfs s ->
  get_dpath (D s) p = Some (Leaf v) -> get_dpath (D (sd_merge s m o)) p = Some (Leaf v).
Proof.
  intros s m o p v Hord Hv Hw Hget. apply sd_merge_keeps_any_state; try assumption.
  apply top_self_ref_ok; assumption.
Qed.

(* ================================================================================================ *)
(* 3. merge, merged-in side: what the other dict holds at a path arrives, unless the target holds a   *)
(*    leaf or a list above it                                                                         *)
(* ================================================================================================ *)
(* the entry of the target for a key of the merged-in dict is decided by the one step for that key *)
Lemma fold_kstep_at : forall f top other tgt k co, NoDup (map fst other) -> alookup k other = Some co ->
  exists tgt', alookup k tgt' = alookup k tgt /\
    alookup k (fold_left (kstep f top) other tgt) = alookup k (kstep f top tgt' (k, co)).
Proof.
  intros f top. induction other as [|[k0 ov] other IH]; intros tgt k co Hnd Hk; [discriminate Hk|].
  cbn [map fst] in Hnd. inversion Hnd as [|? ? Hn Hd]; subst.
  cbn [alookup] in Hk. cbn [fold_left]. destruct (key_eqb k k0) eqn:E.
  - apply key_eqb_eq in E. subst k0. injection Hk as Hk. subst ov.
    exists tgt. split; [reflexivity|]. apply fold_kstep_lookup_notin. exact Hn.
  - apply key_eqb_neq in E. destruct (IH (kstep f top tgt (k0, ov)) k co Hd Hk) as [tgt' [H1 H2]].
    exists tgt'. split; [|exact H2]. rewrite H1. apply kstep_lookup_other. exact E.
Qed.

Lemma nodict_at_cons : forall kvs k p',
  nodict_at (Dict kvs) (k :: p') = match alookup k kvs with Some c => nodict_at c p' | None => true end.
Proof. intros kvs k p'. unfold nodict_at. rewrite get_dpath_cons. destruct (alookup k kvs); reflexivity. Qed.

Lemma get_dpath_nondict : forall c p x, (forall kvs, c <> Dict kvs) -> get_dpath c p = Some x -> p = [] /\ x = c.
Proof.
  intros c p x Hc H. destruct p as [|k p'].
  - cbn [get_dpath] in H. injection H as H. split; [reflexivity | congruence].
  - destruct c as [v|kvs|ts]; try discriminate H. exfalso. exact (Hc kvs eq_refl).
Qed.

Lemma mk_adds : forall f top tgt other p x,
  (depth (Dict other) <= f)%nat -> wf (Dict other) = true -> p <> [] ->
  get_dpath (Dict other) p = Some x -> clear_above (Dict tgt) p = true ->
  exists x', get_dpath (Dict (merge_kvs f top tgt other)) p = Some x' /\
    (get_dpath (Dict tgt) p = None -> x' = x) /\
    (is_dict x -> nodict_at (Dict tgt) p = true -> is_dict x').
Proof.
  induction f as [|f IH]; intros top tgt other p x Hdep Hwo Hp Hget Hclear; [cbn [depth] in Hdep; lia|].
  destruct p as [|k p']; [congruence|]. clear Hp.
  rewrite get_dpath_cons in Hget. destruct (alookup k other) as [co|] eqn:Eo; [|discriminate Hget].
  apply wf_Dict_iff in Hwo. destruct Hwo as [Hndo Hallo].
  assert (Hwco : wf co = true) by exact (Forall_alookup wfkv other k co Hallo Eo).
  assert (Hdco : (depth co <= f)%nat).
  { assert (HF : Forall (fun kv => (depth (snd kv) <= f)%nat) other).
    { apply Forall_forall. intros kv Hin. pose proof (depth_child _ _ Hin) as Hc. cbn [depth] in Hdep. lia. }
    exact (Forall_alookup _ other k co HF Eo). }
  rewrite WriteProofs.merge_kvs_S.
  destruct (fold_kstep_at f top other tgt k co Hndo Eo) as [tgt' [H1 H2]].
  rewrite get_dpath_cons, H2. rewrite get_dpath_cons, nodict_at_cons. rewrite clear_above_cons in Hclear.
  rewrite <- H1 in *. clear H1 H2.
  destruct (alookup k tgt') as [c|] eqn:Ea; unfold kstep; rewrite Ea.
  - destruct c as [v|tsub|ts].
    + (* the target holds a leaf at k *)
      destruct p' as [|k1 p1]; [|discriminate Hclear]. cbn [get_dpath] in Hget. injection Hget as Hget. subst x.
      assert (G : forall y, exists x', Some y = Some x' /\ (Some (Leaf v) = None -> x' = co) /\
                  (is_dict co -> nodict_at (Leaf v) [] = true -> is_dict x')).
      { intro y. exists y. split; [reflexivity|]. split; [discriminate | intros _ H; discriminate H]. }
      cbn [get_dpath].
      destruct top as [exprs|].
      * destruct (circular k (insert_expression (Leaf v) exprs)).
        -- destruct co; rewrite alookup_aset, key_eqb_refl; apply G.
        -- destruct co; rewrite Ea; apply G.
      * destruct co; rewrite Ea; apply G.
    + destruct co as [v'|osub|ts'].
      * destruct (get_dpath_nondict (Leaf v') p' x ltac:(intros; discriminate) Hget) as [Hp' Hx]. subst p' x.
        assert (E : alookup k match top with
                              | Some exprs => if circular k (insert_expression (Dict tsub) exprs)
                                              then aset k (Leaf v') tgt' else tgt'
                              | None => tgt' end = Some (Dict tsub)).
        { destruct top as [exprs|]; [|exact Ea].
          rewrite circular_container by (intros v0; discriminate). exact Ea. }
        rewrite E. cbn [get_dpath]. eexists. split; [reflexivity|].
        split; [discriminate | intros [kvs H]; discriminate H].
      * rewrite alookup_aset, key_eqb_refl. destruct p' as [|k1 p1].
        -- cbn [get_dpath] in Hget |- *. injection Hget as Hget. subst x. eexists. split; [reflexivity|].
           split; [discriminate | intros _ _; eexists; reflexivity].
        -- apply IH; [exact Hdco | exact Hwco | discriminate | exact Hget | exact Hclear].
      * destruct (get_dpath_nondict (Lst ts') p' x ltac:(intros; discriminate) Hget) as [Hp' Hx]. subst p' x.
        assert (E : alookup k match top with
                              | Some exprs => if circular k (insert_expression (Dict tsub) exprs)
                                              then aset k (Lst ts') tgt' else tgt'
                              | None => tgt' end = Some (Dict tsub)).
        { destruct top as [exprs|]; [|exact Ea].
          rewrite circular_container by (intros v0; discriminate). exact Ea. }
        rewrite E. cbn [get_dpath]. eexists. split; [reflexivity|].
        split; [discriminate | intros [kvs H]; discriminate H].
    + (* the target holds a list at k *)
      destruct p' as [|k1 p1]; [|discriminate Hclear]. cbn [get_dpath] in Hget. injection Hget as Hget. subst x.
      assert (E : alookup k match top with
                            | Some exprs => if circular k (insert_expression (Lst ts) exprs)
                                            then aset k co tgt' else tgt'
                            | None => tgt' end = Some (Lst ts)).
      { destruct top as [exprs|]; [|exact Ea].
        rewrite circular_container by (intros v0; discriminate). exact Ea. }
      destruct co; rewrite E; cbn [get_dpath]; eexists; (split; [reflexivity|]);
        (split; [discriminate | intros _ H; discriminate H]).
  - (* the key is new: the whole entry of the merged-in dict is taken *)
    assert (E : alookup k (aset k co tgt') = Some co) by (rewrite alookup_aset, key_eqb_refl; reflexivity).
    destruct co; rewrite E; exists x; (split; [exact Hget|]); (split; [reflexivity | intros H _; exact H]).
Qed.

Lemma sd_merge_adds_path : forall s m o p x,
  opath p = true -> wfs s -> wf (Dict m) = true -> p <> [] ->
  get_dpath (Dict m) p = Some x -> clear_above (D s) p = true ->
  exists x', get_dpath (D (sd_merge s m o)) p = Some x' /\
    (get_dpath (D s) p = None -> kind_kept x x') /\
    (is_dict x -> nodict_at (D s) p = true -> is_dict x').
Proof.
  intros s m o p x Hord Hw Hm Hp Hget Hclear.
  destruct (sd_merge_clean s m o) as [s1 [E1 E2]]. rewrite E1.
  assert (Hw1 : wfs s1) by (unfold wfs; rewrite E2; apply merge_kvs_wf; assumption).
  destruct (mk_adds (S (depth (Dict m))) (Some (sd_expr s)) (sd_data s) m p x ltac:(lia) Hm Hp Hget Hclear)
    as [x1 [Hg1 [Hex1 Hd1]]].
  rewrite <- E2 in Hg1.
  destruct (sd_clean_path s1 p x1 Hord Hw1 Hg1) as [x2 [Hg2 Hk2]].
  exists x2. split; [exact Hg2|]. split.
  - intro Hn. rewrite <- (Hex1 Hn). exact Hk2.
  - intros Hx Hnd. destruct (Hd1 Hx Hnd) as [kvs E]. exact (proj2 Hk2 kvs E).
Qed.

(* ================================================================================================ *)
(* 4. every parsed unit is well formed (unique keys at every level)                                  *)
(*    native units: WriteProofs.parse_string_wf.  JSON units arrive as trees (what json.loads gave):  *)
(*    a Python dict has unique keys, so the tree of a JSON unit is asked to be well formed (unit_wf).  *)
(* ================================================================================================ *)
Lemma je_kvs_wf : forall kvs,
  Forall (fun kt => forall c tab, wf (snd kt) = true -> wf (fst (fst (json_expressions (snd kt) c tab))) = true) kvs ->
  Forall wfkv kvs -> forall c tab, Forall wfkv (fst (fst (je_kvs kvs c tab))).
Proof.
  induction kvs as [|[k v] kvs IHk]; intros HF Hw c tab; [constructor|].
  inversion HF as [|? ? F1 F2]; subst. inversion Hw as [|? ? W1 W2]; subst. unfold wfkv in W1. cbn [snd] in F1, W1.
  cbn [je_kvs]. pose proof (F1 c tab W1) as Hv. destruct (json_expressions v c tab) as [[v' c1] tb1]. fold je_kvs.
  specialize (IHk F2 W2 c1 tb1). destruct (je_kvs kvs c1 tb1) as [[r c2] tb2]. cbn [fst] in *.
  constructor; [exact Hv | exact IHk].
Qed.

Lemma je_ts_wf : forall ts,
  Forall (fun t => forall c tab, wf t = true -> wf (fst (fst (json_expressions t c tab))) = true) ts ->
  forallb wf ts = true -> forall c tab, forallb wf (fst (fst (je_ts ts c tab))) = true.
Proof.
  induction ts as [|v ts IHk]; intros HF Hw c tab; [reflexivity|].
  inversion HF as [|? ? F1 F2]; subst. cbn [forallb] in Hw. apply andb_true_iff in Hw. destruct Hw as [W1 W2].
  cbn [je_ts]. pose proof (F1 c tab W1) as Hv. destruct (json_expressions v c tab) as [[v' c1] tb1]. fold je_ts.
  specialize (IHk F2 W2 c1 tb1). destruct (je_ts ts c1 tb1) as [[r c2] tb2]. cbn [fst forallb] in *.
  rewrite Hv, IHk. reflexivity.
Qed.

Lemma json_expressions_wf : forall t c tab, wf t = true -> wf (fst (fst (json_expressions t c tab))) = true.
Proof.
  induction t as [v|kvs IH|ts IH] using tree_ind'; intros c tab Hw.
  - destruct v as [z|l|b| |s]; try reflexivity. cbn [json_expressions].
    destruct (parse_value s) as [[z|l|b| |s0]|e]; try reflexivity.
    destruct (json_extract_expression c s) as [[s' c'] ex]. reflexivity.
  - rewrite json_expressions_dict. apply wf_Dict_iff in Hw. destruct Hw as [Hnd Hall].
    pose proof (je_kvs_keys kvs c tab) as Hk. pose proof (je_kvs_wf kvs IH Hall c tab) as Hf.
    destruct (je_kvs kvs c tab) as [[kvs' c'] tb]. cbn [fst] in *. apply wf_Dict_iff. rewrite Hk. split; assumption.
  - rewrite json_expressions_lst. rewrite wf_Lst_forallb in Hw. pose proof (je_ts_wf ts IH Hw c tab) as Hf.
    destruct (je_ts ts c tab) as [[ts' c'] tb]. cbn [fst] in *. rewrite wf_Lst_forallb. exact Hf.
Qed.

Lemma json_includes_Forall : forall dir kvs c, Forall wfkv kvs ->
  Forall wfkv (fst (fst (fst (json_includes dir c kvs)))) /\ Forall wfkv (snd (fst (fst (json_includes dir c kvs)))).
Proof.
  intros dir. induction kvs as [|[k v] kvs IH]; intros c H; [split; constructor|].
  inversion H as [|? ? H1 H2]; subst. cbn [json_includes]. destruct (is_include_key_json k).
  - cbv zeta. specialize (IH (counter_next c) H2).
    destruct (json_includes dir (counter_next c) kvs) as [[[phs rest] c2] tab]. cbn [fst snd] in *.
    destruct IH as [I1 I2]. split; [constructor; [reflexivity | exact I1] | exact I2].
  - specialize (IH c H2). destruct (json_includes dir c kvs) as [[[phs rest] c2] tab]. cbn [fst snd] in *.
    destruct IH as [I1 I2]. split; [exact I1 | constructor; assumption].
Qed.

Lemma sd_update_wf : forall s m o, wfs s -> Forall wfkv m -> wfs (sd_update s m o).
Proof.
  intros s m o Hs Hm. unfold wfs, sd_update. apply sd_clean_wf. rewrite sd_data_post_update. cbn [sd_data].
  apply wf_Dict_iff in Hs. destruct Hs as [Hnd Hall]. apply wf_Dict_iff.
  split; [apply aupdate_nodup; exact Hnd | apply aupdate_Forall; assumption].
Qed.

Lemma json_parse_wf : forall dir c t, wf (Dict t) = true -> wfs (pr_sd (json_parse dir c t)).
Proof.
  intros dir c t Hw. unfold json_parse.
  assert (H0 : wfs (sd_update sd_empty t None)).
  { apply sd_update_wf; [reflexivity|]. apply wf_Dict_iff in Hw. tauto. }
  assert (H0' : Forall wfkv (sd_data (sd_update sd_empty t None))) by (apply wf_Dict_iff in H0; tauto).
  pose proof (json_includes_Forall dir (sd_data (sd_update sd_empty t None)) c H0') as [Hphs Hrest].
  destruct (json_includes dir c (sd_data (sd_update sd_empty t None))) as [[[phs rest] c1] inc]. cbn [fst snd] in *.
  match goal with
  | |- context [json_expressions (Dict (sd_data ?s2)) c1 []] =>
      assert (H2 : wfs s2);
      [apply sd_update_wf; [apply sd_update_wf; [reflexivity | exact Hphs] | exact Hrest]|];
      remember s2 as s2' eqn:Es2
  end.
  pose proof (json_expressions_wf (Dict (sd_data s2')) c1 [] H2) as He.
  rewrite json_expressions_dict in He |- *.
  destruct (je_kvs (sd_data s2') c1 []) as [[kvs' c2] tb]. cbn [fst] in He. cbn [pr_sd].
  unfold wfs. apply sd_clean_wf. cbn [sd_data kvs_of_tree]. exact He.
Qed.

Definition unit_wf (u : funit) : bool := match u with FJson t => wf (Dict t) | FNative _ => true end.
Definition fs_wf (fs : fsys) : bool := forallb (fun pu => unit_wf (snd pu)) fs.

Lemma parse_unit_wf : forall com path c u pr, unit_wf u = true -> parse_unit com path c u = Ok pr -> wfs (pr_sd pr).
Proof.
  intros com path c u pr Hu H. destruct u as [text|t]; cbn [parse_unit] in H.
  - exact (parse_string_wf _ _ _ _ _ H).
  - inversion H; subst. apply json_parse_wf. exact Hu.
Qed.

Lemma fs_lookup_wf : forall fs p u, fs_wf fs = true -> fs_lookup p fs = Some u -> unit_wf u = true.
Proof.
  intros fs p u Hfs Hl. apply fs_lookup_In_pair in Hl. apply in_map_iff in Hl. destruct Hl as [[q w] [Hw Hin]].
  cbn [snd] in Hw. subst w. unfold fs_wf in Hfs. rewrite forallb_forall in Hfs. exact (Hfs _ Hin).
Qed.

Lemma wfs_empty : wfs sd_empty.
Proof. reflexivity. Qed.

(* ================================================================================================ *)
(* 5. the include recursion with the target states exposed                                           *)
(* ================================================================================================ *)
(* IncludeProofs.direct_include with the state [temp] that the loop has built from the earlier entries *)
Definition direct_include_t (fs : fsys) (com : bool) (f : nat) (chain : list str) (parent : sdict) (count : Z)
           (path : str) (pr : parsed) (temp : sdict) : Prop :=
  exists pre i d n suf c1 u,
    sd_inc parent = pre ++ (i, (d, n, path)) :: suf /\
    fold_left (inc_step (merge_includes_rec f fs com) fs com chain) pre (Ok (sd_empty, count)) = Ok (temp, c1) /\
    in_chain (norm_path path) chain = false /\
    fs_lookup (norm_path path) fs = Some u /\
    parse_unit com path c1 u = Ok pr.

Lemma direct_include_t_direct : forall fs com f chain parent count path pr temp,
  direct_include_t fs com f chain parent count path pr temp -> direct_include fs com f chain parent count path pr.
Proof.
  intros fs com f chain parent count path pr temp [pre [i [d [n [suf [c1 [u H]]]]]]].
  exists pre, i, d, n, suf, temp, c1, u. exact H.
Qed.

Lemma direct_include_direct_t : forall fs com f chain parent count path pr,
  direct_include fs com f chain parent count path pr -> exists temp, direct_include_t fs com f chain parent count path pr temp.
Proof.
  intros fs com f chain parent count path pr [pre [i [d [n [suf [temp [c1 [u H]]]]]]]].
  exists temp, pre, i, d, n, suf, c1, u. exact H.
Qed.

(* IncludeProofs.run_reach where, at every level walked, the including file and the state built from the
   earlier includes of that level (the two targets the content of the reached file is merged into on its way
   to the result) satisfy [N] *)
Inductive reach_where (fs : fsys) (com : bool) (N : list (key * tree) -> Prop)
  : nat -> list str -> sdict -> Z -> nat -> list str -> str -> parsed -> Prop :=
  | RW_direct : forall f chain parent count path pr temp,
      direct_include_t fs com f chain parent count path pr temp ->
      N (sd_data parent) -> N (sd_data temp) ->
      reach_where fs com N (S f) chain parent count f (chain ++ [norm_path path]) path pr
  | RW_trans : forall f chain parent count path pr temp f' chain' path' pr',
      direct_include_t fs com f chain parent count path pr temp ->
      N (sd_data parent) -> N (sd_data temp) ->
      reach_where fs com N f (chain ++ [norm_path path]) (pr_sd pr) (pr_count pr) f' chain' path' pr' ->
      reach_where fs com N (S f) chain parent count f' chain' path' pr'.

Lemma reach_where_run_reach : forall fs com N f chain parent count f' chain' path pr,
  reach_where fs com N f chain parent count f' chain' path pr ->
  run_reach fs com f chain parent count f' chain' path pr.
Proof.
  intros fs com N f chain parent count f' chain' path pr H.
  induction H as [f chain parent count path pr temp Hd _ _
                 | f chain parent count path pr temp f' chain' path' pr' Hd _ _ _ IH].
  - apply RR_direct. eapply direct_include_t_direct. exact Hd.
  - eapply RR_trans; [eapply direct_include_t_direct; exact Hd | exact IH].
Qed.

(* with no condition it is run_reach *)
Lemma run_reach_reach_where : forall fs com f chain parent count f' chain' path pr,
  run_reach fs com f chain parent count f' chain' path pr ->
  reach_where fs com (fun _ => True) f chain parent count f' chain' path pr.
Proof.
  intros fs com f chain parent count f' chain' path pr H.
  induction H as [f chain parent count path pr Hd | f chain parent count path pr f' chain' path' pr' Hd _ IH].
  - destruct (direct_include_direct_t _ _ _ _ _ _ _ _ Hd) as [temp Ht]. eapply RW_direct; [exact Ht | exact I | exact I].
  - destruct (direct_include_direct_t _ _ _ _ _ _ _ _ Hd) as [temp Ht]. eapply RW_trans; [exact Ht | exact I | exact I | exact IH].
Qed.

Section Nested.
  Variable fs : fsys.
  Variable com : bool.
  Hypothesis Hfs : fs_wf fs = true.

  (* ---- every state of the recursion is well formed ---- *)
  Lemma sub_result_wf : forall rec chain path pr inc' c2,
    (forall chain' parent c s c', rec chain' parent c = Ok (s, c') -> wfs parent -> wfs s) ->
    sub_result rec chain path pr = Ok (inc', c2) -> wfs (pr_sd pr) -> wfs inc'.
  Proof.
    intros rec chain path pr inc' c2 Hrec H Hw. unfold sub_result in H.
    destruct (sd_inc (pr_sd pr)) as [|e l]; [inversion H; subst; exact Hw | exact (Hrec _ _ _ _ _ H Hw)].
  Qed.

  Lemma inc_step_wf : forall rec chain temp c e temp' c',
    (forall chain' parent c s c', rec chain' parent c = Ok (s, c') -> wfs parent -> wfs s) ->
    inc_step rec fs com chain (Ok (temp, c)) e = Ok (temp', c') -> wfs temp -> wfs temp'.
  Proof.
    intros rec chain temp c [i [[d n] path]] temp' c' Hrec H Hw.
    apply inc_step_inv in H.
    destruct H as [temp0 [c0 [Eacc [[_ [Et Ec]] | [u [pr [inc' [temp1 [Hc [Hl [Hp [Hs [Ht1 Et]]]]]]]]]]]]];
      inversion Eacc; subst temp0 c0; clear Eacc.
    - subst. exact Hw.
    - assert (Hwi : wfs inc').
      { eapply sub_result_wf; [exact Hrec | exact Hs|]. eapply parse_unit_wf; [|exact Hp]. eapply fs_lookup_wf; eassumption. }
      subst temp'. apply sd_merge_wf; [|exact Hwi].
      destruct Ht1 as [Ht1|Ht1]; subst temp1; [exact Hw | apply sd_merge_wf; assumption].
  Qed.

  Lemma fold_inc_wf : forall rec chain l temp c temp' c',
    (forall chain' parent c s c', rec chain' parent c = Ok (s, c') -> wfs parent -> wfs s) ->
    fold_left (inc_step rec fs com chain) l (Ok (temp, c)) = Ok (temp', c') -> wfs temp -> wfs temp'.
  Proof.
    intros rec chain l. induction l as [|e l IH]; intros temp c temp' c' Hrec H Hw; cbn [fold_left] in H.
    - inversion H; subst. exact Hw.
    - destruct (inc_step rec fs com chain (Ok (temp, c)) e) as [[t1 c1]|x] eqn:E;
        [|rewrite fold_inc_raise in H; discriminate H].
      eapply IH; [exact Hrec | exact H|]. eapply inc_step_wf; eassumption.
  Qed.

  Lemma rec_wf : forall f chain parent count s c',
    merge_includes_rec f fs com chain parent count = Ok (s, c') -> wfs parent -> wfs s.
  Proof.
    induction f as [|f IH]; intros chain parent count s c' H Hw; [discriminate H|].
    apply rec_S_inv in H. destruct H as [temp [Hfold Es]]. subst s.
    apply sd_merge_wf; [exact Hw|]. eapply fold_inc_wf; [exact IH | exact Hfold | exact wfs_empty].
  Qed.

  Lemma direct_t_wf : forall f chain parent count path pr temp,
    direct_include_t fs com f chain parent count path pr temp -> wfs (pr_sd pr) /\ wfs temp.
  Proof.
    intros f chain parent count path pr temp [pre [i [d [n [suf [c1 [u [_ [Hpre [_ [Hl Hp]]]]]]]]]]]. split.
    - eapply parse_unit_wf; [|exact Hp]. eapply fs_lookup_wf; eassumption.
    - eapply fold_inc_wf; [exact (rec_wf f) | exact Hpre | exact wfs_empty].
  Qed.

  (* ---- a fact [Q] about the data of a state that every merge keeps on the target side, and that a merge
          brings over from the merged-in side when the target satisfies [N] ---- *)
  Section Chain.
    Variable Q : list (key * tree) -> Prop.
    Variable N : list (key * tree) -> Prop.
    Hypothesis Qkeep : forall s m o, wfs s -> wf (Dict m) = true -> Q (sd_data s) -> Q (sd_data (sd_merge s m o)).
    Hypothesis Qadd : forall s m o, wfs s -> wf (Dict m) = true -> N (sd_data s) -> Q m -> Q (sd_data (sd_merge s m o)).

    Lemma inc_step_keepQ : forall f chain temp c e temp' c',
      inc_step (merge_includes_rec f fs com) fs com chain (Ok (temp, c)) e = Ok (temp', c') -> wfs temp ->
      Q (sd_data temp) -> Q (sd_data temp').
    Proof.
      intros f chain temp c [i [[d n] path]] temp' c' H Hw HQ.
      apply inc_step_inv in H.
      destruct H as [temp0 [c0 [Eacc [[_ [Et Ec]] | [u [pr [inc' [temp1 [Hc [Hl [Hp [Hs [Ht1 Et]]]]]]]]]]]]];
        inversion Eacc; subst temp0 c0; clear Eacc.
      - subst. exact HQ.
      - assert (Hwi : wfs inc').
        { eapply sub_result_wf; [exact (rec_wf f) | exact Hs|].
          eapply parse_unit_wf; [|exact Hp]. eapply fs_lookup_wf; eassumption. }
        subst temp'. destruct Ht1 as [Ht1|Ht1]; subst temp1.
        + apply Qkeep; assumption.
        + apply Qkeep; [apply sd_merge_wf; assumption | exact Hwi|]. apply Qkeep; assumption.
    Qed.

    Lemma fold_inc_keepQ : forall f chain l temp c temp' c',
      fold_left (inc_step (merge_includes_rec f fs com) fs com chain) l (Ok (temp, c)) = Ok (temp', c') -> wfs temp ->
      Q (sd_data temp) -> Q (sd_data temp').
    Proof.
      intros f chain. induction l as [|e l IH]; intros temp c temp' c' H Hw HQ; cbn [fold_left] in H.
      - inversion H; subst. exact HQ.
      - destruct (inc_step (merge_includes_rec f fs com) fs com chain (Ok (temp, c)) e) as [[t1 c1]|x] eqn:E;
          [|rewrite fold_inc_raise in H; discriminate H].
        eapply IH; [exact H | eapply inc_step_wf; [exact (rec_wf f) | exact E | exact Hw]|].
        eapply inc_step_keepQ; eassumption.
    Qed.

    Lemma rec_keepQ : forall f chain parent count s c',
      merge_includes_rec f fs com chain parent count = Ok (s, c') -> wfs parent ->
      Q (sd_data parent) -> Q (sd_data s).
    Proof.
      intros f chain parent count s c' H Hw HQ. destruct f as [|f]; [discriminate H|].
      apply rec_S_inv in H. destruct H as [temp [Hfold Es]]. subst s.
      apply Qkeep; [exact Hw | | exact HQ]. eapply fold_inc_wf; [exact (rec_wf f) | exact Hfold | exact wfs_empty].
    Qed.

    Lemma sub_result_keepQ : forall f chain path pr inc' c2,
      sub_result (merge_includes_rec f fs com) chain path pr = Ok (inc', c2) -> wfs (pr_sd pr) ->
      Q (sd_data (pr_sd pr)) -> Q (sd_data inc').
    Proof.
      intros f chain path pr inc' c2 H Hw HQ. unfold sub_result in H.
      destruct (sd_inc (pr_sd pr)) as [|e l]; [inversion H; subst; exact HQ | eapply rec_keepQ; eassumption].
    Qed.

    (* a file that exists and is not on the chain: what its merged content satisfies arrives in the loop state *)
    Lemma inc_step_addQ : forall f chain temp c i d n path u temp' c',
      inc_step (merge_includes_rec f fs com) fs com chain (Ok (temp, c)) (i, (d, n, path)) = Ok (temp', c') ->
      wfs temp -> in_chain (norm_path path) chain = false -> fs_lookup (norm_path path) fs = Some u ->
      exists pr inc',
        parse_unit com path c u = Ok pr /\ sub_result (merge_includes_rec f fs com) chain path pr = Ok (inc', c') /\
        (N (sd_data temp) -> Q (sd_data inc') -> Q (sd_data temp')).
    Proof.
      intros f chain temp c i d n path u temp' c' H Hw Hc Hl.
      apply inc_step_inv in H.
      destruct H as [temp0 [c0 [Eacc [[[Hx|Hx] _] | [u' [pr [inc' [temp1 [_ [Hl' [Hp [Hs [Ht1 Et]]]]]]]]]]]]];
        [congruence | congruence |].
      inversion Eacc; subst temp0 c0; clear Eacc.
      assert (u' = u) by congruence. subst u'. exists pr, inc'. split; [exact Hp|]. split; [exact Hs|].
      intros HN HQ.
      assert (Hwi : wfs inc').
      { eapply sub_result_wf; [exact (rec_wf f) | exact Hs|].
        eapply parse_unit_wf; [|exact Hp]. eapply fs_lookup_wf; eassumption. }
      subst temp'. destruct Ht1 as [Ht1|Ht1]; subst temp1.
      - apply Qadd; assumption.
      - apply Qkeep; [apply sd_merge_wf; assumption | exact Hwi|]. apply Qadd; assumption.
    Qed.

    (* one level: the content of a direct include arrives in the result of the run *)
    Lemma rec_direct_Q : forall f chain parent count s c' path pr temp,
      merge_includes_rec (S f) fs com chain parent count = Ok (s, c') -> wfs parent ->
      direct_include_t fs com f chain parent count path pr temp ->
      N (sd_data parent) -> N (sd_data temp) ->
      exists inc' c2,
        sub_result (merge_includes_rec f fs com) chain path pr = Ok (inc', c2) /\
        (Q (sd_data inc') -> Q (sd_data s)).
    Proof.
      intros f chain parent count s c' path pr temp H Hw Hd HNp HNt.
      pose proof (direct_t_wf _ _ _ _ _ _ _ Hd) as [Hwpr Hwt].
      destruct Hd as [pre [i [d [n [suf [c1 [u [Hinc [Hpre [Hc [Hl Hp]]]]]]]]]]].
      apply rec_S_inv in H. destruct H as [tfin [Hfold Es]]. rewrite Hinc in Hfold.
      apply fold_inc_split in Hfold.
      destruct Hfold as [temp0 [c0 [temp1 [c1' [Hpre' [Hstep Hsuf]]]]]].
      assert (temp0 = temp /\ c0 = c1) by (split; congruence). destruct H as [E1 E2]. subst temp0 c0.
      destruct (inc_step_addQ _ _ _ _ _ _ _ _ _ _ _ Hstep Hwt Hc Hl) as [pr' [inc' [Hp' [Hs Hadd]]]].
      assert (pr' = pr) by congruence. subst pr'.
      exists inc', c1'. split; [exact Hs|]. intro HQ. subst s.
      assert (Hw1 : wfs temp1) by (eapply inc_step_wf; [exact (rec_wf f) | exact Hstep | exact Hwt]).
      apply Qadd; [exact Hw | eapply fold_inc_wf; [exact (rec_wf f) | exact Hsuf | exact Hw1] | exact HNp |].
      eapply fold_inc_keepQ; [exact Hsuf | exact Hw1|]. apply Hadd; assumption.
    Qed.

    Lemma reach_Q : forall f chain parent count f' chain' path pr,
      reach_where fs com N f chain parent count f' chain' path pr ->
      forall s c', merge_includes_rec f fs com chain parent count = Ok (s, c') -> wfs parent ->
      Q (sd_data (pr_sd pr)) -> Q (sd_data s).
    Proof.
      intros f chain parent count f' chain' path pr H.
      induction H as [f chain parent count path pr temp Hd HNp HNt
                     | f chain parent count path pr temp f' chain' path' pr' Hd HNp HNt Hr IH];
        intros s c' Hrun Hw HQ.
      - pose proof (direct_t_wf _ _ _ _ _ _ _ Hd) as [Hwpr _].
        destruct (rec_direct_Q _ _ _ _ _ _ _ _ _ Hrun Hw Hd HNp HNt) as [inc' [c2 [Hs Harr]]].
        apply Harr. eapply sub_result_keepQ; eassumption.
      - pose proof (direct_t_wf _ _ _ _ _ _ _ Hd) as [Hwpr _].
        destruct (rec_direct_Q _ _ _ _ _ _ _ _ _ Hrun Hw Hd HNp HNt) as [inc' [c2 [Hs Harr]]].
        apply Harr. unfold sub_result in Hs.
        pose proof (run_reach_nonempty _ _ _ _ _ _ _ _ _ _ (reach_where_run_reach _ _ _ _ _ _ _ _ _ _ _ Hr)) as Hne.
        destruct (sd_inc (pr_sd pr)) as [|e l]; [congruence|].
        eapply IH; eassumption.
    Qed.

    (* ---- read_plain level ---- *)
    Lemma read_keepQ : forall root c s c' u pr,
      read_plain fs root true com c = Ok (s, c') ->
      fs_lookup (norm_path root) fs = Some u -> parse_unit com root c u = Ok pr ->
      exists p, merge_includes_rec (S (length fs)) fs com [] (pr_sd pr) (pr_count pr) = Ok (p, c') /\
                wfs (pr_sd pr) /\ (Q (sd_data p) -> Q (sd_data s)).
    Proof.
      intros root c s c' u pr H Hl Hp.
      apply read_plain_inv in H. destruct H as [u' [pr' [m [Hl' [Hp' [Hm Hd]]]]]].
      assert (u' = u) by congruence. subst u'. assert (pr' = pr) by congruence. subst pr'.
      unfold merge_includes in Hm.
      destruct (merge_includes_rec (S (length fs)) fs com [] (pr_sd pr) (pr_count pr)) as [[p c1]|x] eqn:E;
        [|discriminate Hm].
      cbn [bind] in Hm. inversion Hm; subst. exists p. split; [reflexivity|].
      assert (Hw : wfs (pr_sd pr)) by (eapply parse_unit_wf; [|exact Hp]; eapply fs_lookup_wf; eassumption).
      split; [exact Hw|]. intro HQ. rewrite Hd.
      pose proof (rec_wf _ _ _ _ _ _ E Hw) as Hwp. apply Qkeep; assumption.
    Qed.

    Theorem read_root_Q : forall root c s c' u pr,
      read_plain fs root true com c = Ok (s, c') ->
      fs_lookup (norm_path root) fs = Some u -> parse_unit com root c u = Ok pr ->
      Q (sd_data (pr_sd pr)) -> Q (sd_data s).
    Proof.
      intros root c s c' u pr H Hl Hp HQ.
      destruct (read_keepQ _ _ _ _ _ _ H Hl Hp) as [p [Hrun [Hw Hfin]]].
      apply Hfin. eapply rec_keepQ; eassumption.
    Qed.

    Theorem read_reach_Q : forall root c s c' u0 pr0 f' chain' path pr,
      read_plain fs root true com c = Ok (s, c') ->
      fs_lookup (norm_path root) fs = Some u0 -> parse_unit com root c u0 = Ok pr0 ->
      reach_where fs com N (S (length fs)) [] (pr_sd pr0) (pr_count pr0) f' chain' path pr ->
      Q (sd_data (pr_sd pr)) -> Q (sd_data s).
    Proof.
      intros root c s c' u0 pr0 f' chain' path pr H Hl Hp Hr HQ.
      destruct (read_keepQ _ _ _ _ _ _ H Hl Hp) as [p [Hrun [Hw Hfin]]].
      apply Hfin. eapply reach_Q; eassumption.
    Qed.
  End Chain.
End Nested.

(* ================================================================================================ *)
(* 6. the three facts about a path: a leaf, anything, a dict                                         *)
(* ================================================================================================ *)
Definition Q_leaf (p : list key) (v : scalar) (d : list (key * tree)) : Prop := get_dpath (Dict d) p = Some (Leaf v).
Definition Q_some (p : list key) (d : list (key * tree)) : Prop := get_dpath (Dict d) p <> None.
Definition Q_dict (p : list key) (d : list (key * tree)) : Prop := exists kvs, get_dpath (Dict d) p = Some (Dict kvs).

Lemma Q_leaf_keep : forall p v, opath p = true -> leaf_ok p v = true ->
  forall s m o, wfs s -> wf (Dict m) = true -> Q_leaf p v (sd_data s) -> Q_leaf p v (sd_data (sd_merge s m o)).
Proof. intros p v Hp Hv s m o Hw _ HQ. apply sd_merge_keeps_leaf_path; assumption. Qed.

Lemma Q_leaf_add : forall p v, opath p = true ->
  forall s m o, wfs s -> wf (Dict m) = true -> falls_off (Dict (sd_data s)) p = true -> Q_leaf p v m ->
  Q_leaf p v (sd_data (sd_merge s m o)).
Proof.
  intros p v Hp s m o Hw Hm HN HQ. unfold Q_leaf in *.
  unfold falls_off in HN. apply andb_true_iff in HN. destruct HN as [Hclear Hnone].
  assert (Hne : p <> []) by (intro E; subst p; discriminate HQ).
  destruct (sd_merge_adds_path s m o p (Leaf v) Hp Hw Hm Hne HQ Hclear) as [x' [Hg [Hex _]]].
  fold (D (sd_merge s m o)). rewrite Hg. f_equal. apply Hex; [|intros kvs; discriminate].
  fold (D s) in Hnone. destruct (get_dpath (D s) p); [discriminate Hnone | reflexivity].
Qed.

Lemma Q_some_keep : forall p, opath p = true ->
  forall s m o, wfs s -> wf (Dict m) = true -> Q_some p (sd_data s) -> Q_some p (sd_data (sd_merge s m o)).
Proof.
  intros p Hp s m o Hw Hm HQ. unfold Q_some in *. fold (D s) in HQ. fold (D (sd_merge s m o)).
  destruct (get_dpath (D s) p) as [x|] eqn:E; [|congruence].
  destruct (sd_merge_keeps_path s m o p x Hp Hw Hm E) as [x' [Hg _]]. rewrite Hg. discriminate.
Qed.

Lemma Q_some_add : forall p, opath p = true ->
  forall s m o, wfs s -> wf (Dict m) = true -> clear_above (Dict (sd_data s)) p = true -> Q_some p m ->
  Q_some p (sd_data (sd_merge s m o)).
Proof.
  intros p Hp s m o Hw Hm HN HQ. unfold Q_some in *. fold (D (sd_merge s m o)).
  destruct p as [|k p']; [discriminate|].
  destruct (get_dpath (Dict m) (k :: p')) as [x|] eqn:E; [|congruence].
  destruct (sd_merge_adds_path s m o (k :: p') x Hp Hw Hm ltac:(discriminate) E HN) as [x' [Hg _]].
  rewrite Hg. discriminate.
Qed.

Lemma Q_dict_keep : forall p, opath p = true ->
  forall s m o, wfs s -> wf (Dict m) = true -> Q_dict p (sd_data s) -> Q_dict p (sd_data (sd_merge s m o)).
Proof.
  intros p Hp s m o Hw Hm [kvs HQ]. unfold Q_dict. fold (D (sd_merge s m o)).
  destruct (sd_merge_keeps_path s m o p (Dict kvs) Hp Hw Hm HQ) as [x' [Hg Hd]].
  destruct (Hd (ex_intro _ kvs eq_refl)) as [kvs' E]. exists kvs'. rewrite Hg, E. reflexivity.
Qed.

Lemma Q_dict_add : forall p, opath p = true ->
  forall s m o, wfs s -> wf (Dict m) = true -> clear_upto (Dict (sd_data s)) p = true -> Q_dict p m ->
  Q_dict p (sd_data (sd_merge s m o)).
Proof.
  intros p Hp s m o Hw Hm HN [kvs HQ]. unfold Q_dict. fold (D (sd_merge s m o)).
  unfold clear_upto in HN. apply andb_true_iff in HN. destruct HN as [Hclear Hnd].
  destruct p as [|k p']; [eexists; reflexivity|].
  destruct (sd_merge_adds_path s m o (k :: p') (Dict kvs) Hp Hw Hm ltac:(discriminate) HQ Hclear) as [x' [Hg [_ Hd]]].
  destruct (Hd (ex_intro _ kvs eq_refl) Hnd) as [kvs' E]. exists kvs'. rewrite Hg, E. reflexivity.
Qed.

(* ================================================================================================ *)
(* 7. PRECEDENCE on key paths: the including file wins, at every depth of nesting                    *)
(* ================================================================================================ *)
Theorem including_file_wins_deep : forall fs root com c u pr s c' p v,
  fs_wf fs = true ->
  fs_lookup (norm_path root) fs = Some u -> parse_unit com root c u = Ok pr ->
  read_plain fs root true com c = Ok (s, c') ->
  forallb ordinary_key p = true -> leaf_ok p v = true ->
  get_dpath (Dict (sd_data (pr_sd pr))) p = Some (Leaf v) ->
  get_dpath (Dict (sd_data s)) p = Some (Leaf v).
Proof.
  intros fs root com c u pr s c' p v Hfs Hl Hp H Hord Hv Hget.
  exact (read_root_Q fs com Hfs (Q_leaf p v) (Q_leaf_keep p v Hord Hv) root c s c' u pr H Hl Hp Hget).
Qed.

(* at every level of the recursion; only the parent has to be well formed *)
Theorem including_file_wins_rec_deep : forall f fs com chain parent count s c' p v,
  merge_includes_rec f fs com chain parent count = Ok (s, c') ->
  wf (Dict (sd_data parent)) = true ->
  forallb ordinary_key p = true -> leaf_ok p v = true ->
  get_dpath (Dict (sd_data parent)) p = Some (Leaf v) ->
  get_dpath (Dict (sd_data s)) p = Some (Leaf v).
Proof.
  intros f fs com chain parent count s c' p v H Hw Hord Hv Hget. destruct f as [|f]; [discriminate H|].
  apply rec_S_inv in H. destruct H as [temp [_ Es]]. subst s.
  apply (sd_merge_keeps_leaf_path parent); assumption.
Qed.

(* whatever the including file holds at a path is still there, and a dict is still a dict (its keys are
   merged with those of the includes: the two completeness theorems below) *)
Theorem including_file_paths_kept : forall fs root com c u pr s c' p x,
  fs_wf fs = true ->
  fs_lookup (norm_path root) fs = Some u -> parse_unit com root c u = Ok pr ->
  read_plain fs root true com c = Ok (s, c') ->
  forallb ordinary_key p = true ->
  get_dpath (Dict (sd_data (pr_sd pr))) p = Some x ->
  exists x', get_dpath (Dict (sd_data s)) p = Some x' /\ (forall kvs, x = Dict kvs -> exists kvs', x' = Dict kvs').
Proof.
  intros fs root com c u pr s c' p x Hfs Hl Hp H Hord Hget.
  assert (H1 : Q_some p (sd_data s)).
  { apply (read_root_Q fs com Hfs (Q_some p) (Q_some_keep p Hord) root c s c' u pr H Hl Hp).
    unfold Q_some. rewrite Hget. discriminate. }
  unfold Q_some in H1. destruct (get_dpath (Dict (sd_data s)) p) as [x'|] eqn:E; [|congruence].
  exists x'. split; [reflexivity|]. intros kvs Ex. subst x.
  destruct (read_root_Q fs com Hfs (Q_dict p) (Q_dict_keep p Hord) root c s c' u pr H Hl Hp (ex_intro _ kvs Hget))
    as [kvs' E']. exists kvs'. congruence.
Qed.

(* ================================================================================================ *)
(* 8. COMPLETENESS on key paths                                                                      *)
(* ================================================================================================ *)
(* every ordinary key path of a reached file leads to something in the result, provided no target on the way
   (the including files and the states built from their earlier includes) holds a leaf or a list above it *)
Theorem reachable_file_complete_deep : forall fs root com c s c' u0 pr0 f' chain' path pr p,
  fs_wf fs = true ->
  read_plain fs root true com c = Ok (s, c') ->
  fs_lookup (norm_path root) fs = Some u0 -> parse_unit com root c u0 = Ok pr0 ->
  forallb ordinary_key p = true ->
  reach_where fs com (fun d => clear_above (Dict d) p = true)
              (S (length fs)) [] (pr_sd pr0) (pr_count pr0) f' chain' path pr ->
  get_dpath (Dict (sd_data (pr_sd pr))) p <> None ->
  get_dpath (Dict (sd_data s)) p <> None.
Proof.
  intros fs root com c s c' u0 pr0 f' chain' path pr p Hfs H Hl Hp Hord Hr Hget.
  exact (read_reach_Q fs com Hfs (Q_some p) _ (Q_some_keep p Hord) (Q_some_add p Hord)
                      root c s c' u0 pr0 f' chain' path pr H Hl Hp Hr Hget).
Qed.

(* ... and to a dict where the reached file has a dict, provided no target holds a leaf or a list at the path
   itself either *)
Theorem reachable_file_dict_deep : forall fs root com c s c' u0 pr0 f' chain' path pr p kvs,
  fs_wf fs = true ->
  read_plain fs root true com c = Ok (s, c') ->
  fs_lookup (norm_path root) fs = Some u0 -> parse_unit com root c u0 = Ok pr0 ->
  forallb ordinary_key p = true ->
  reach_where fs com (fun d => clear_upto (Dict d) p = true)
              (S (length fs)) [] (pr_sd pr0) (pr_count pr0) f' chain' path pr ->
  get_dpath (Dict (sd_data (pr_sd pr))) p = Some (Dict kvs) ->
  exists kvs', get_dpath (Dict (sd_data s)) p = Some (Dict kvs').
Proof.
  intros fs root com c s c' u0 pr0 f' chain' path pr p kvs Hfs H Hl Hp Hord Hr Hget.
  exact (read_reach_Q fs com Hfs (Q_dict p) _ (Q_dict_keep p Hord) (Q_dict_add p Hord)
                      root c s c' u0 pr0 f' chain' path pr H Hl Hp Hr (ex_intro _ kvs Hget)).
Qed.

(* ================================================================================================ *)
(* 9. INCLUDE ORDER on key paths: the first file in precedence order that holds a leaf at the path    *)
(* ================================================================================================ *)
(* a leaf of a reached file is the leaf of the result when every target on the way falls off at the path
   (holds nothing there and no leaf or list above it) *)
Theorem first_holder_wins_deep : forall fs root com c s c' u0 pr0 f' chain' path pr p v,
  fs_wf fs = true ->
  read_plain fs root true com c = Ok (s, c') ->
  fs_lookup (norm_path root) fs = Some u0 -> parse_unit com root c u0 = Ok pr0 ->
  forallb ordinary_key p = true -> leaf_ok p v = true ->
  reach_where fs com (fun d => falls_off (Dict d) p = true)
              (S (length fs)) [] (pr_sd pr0) (pr_count pr0) f' chain' path pr ->
  get_dpath (Dict (sd_data (pr_sd pr))) p = Some (Leaf v) ->
  get_dpath (Dict (sd_data s)) p = Some (Leaf v).
Proof.
  intros fs root com c s c' u0 pr0 f' chain' path pr p v Hfs H Hl Hp Hord Hv Hr Hget.
  exact (read_reach_Q fs com Hfs (Q_leaf p v) _ (Q_leaf_keep p v Hord Hv) (Q_leaf_add p v Hord)
                      root c s c' u0 pr0 f' chain' path pr H Hl Hp Hr Hget).
Qed.

(* the form of IncludeProofs.earlier_include_wins: a direct include of the root *)
Theorem earlier_include_wins_deep : forall fs root com c s c' u0 pr0 pre i d n path suf temp c1 u pr p v,
  fs_wf fs = true ->
  read_plain fs root true com c = Ok (s, c') ->
  fs_lookup (norm_path root) fs = Some u0 -> parse_unit com root c u0 = Ok pr0 ->
  sd_inc (pr_sd pr0) = pre ++ (i, (d, n, path)) :: suf ->
  fold_left (inc_step (merge_includes_rec (length fs) fs com) fs com []) pre (Ok (sd_empty, pr_count pr0)) = Ok (temp, c1) ->
  fs_lookup (norm_path path) fs = Some u -> parse_unit com path c1 u = Ok pr ->
  forallb ordinary_key p = true -> leaf_ok p v = true ->
  falls_off (Dict (sd_data (pr_sd pr0))) p = true -> falls_off (Dict (sd_data temp)) p = true ->
  get_dpath (Dict (sd_data (pr_sd pr))) p = Some (Leaf v) ->
  get_dpath (Dict (sd_data s)) p = Some (Leaf v).
Proof.
  intros fs root com c s c' u0 pr0 pre i d n path suf temp c1 u pr p v
         Hfs H Hl0 Hp0 Hinc Hpre Hl Hp Hord Hv Hn0 Hnt Hget.
  eapply (first_holder_wins_deep fs root com c s c' u0 pr0 (length fs) ([] ++ [norm_path path]) path pr p v);
    try eassumption.
  eapply (RW_direct fs com _ (length fs) [] (pr_sd pr0) (pr_count pr0) path pr temp); [|exact Hn0 | exact Hnt].
  exists pre, i, d, n, suf, c1, u. repeat split; assumption.
Qed.

Theorem first_include_wins_deep : forall fs root com c s c' u0 pr0 i d n path suf u pr p v,
  fs_wf fs = true ->
  read_plain fs root true com c = Ok (s, c') ->
  fs_lookup (norm_path root) fs = Some u0 -> parse_unit com root c u0 = Ok pr0 ->
  sd_inc (pr_sd pr0) = (i, (d, n, path)) :: suf ->
  fs_lookup (norm_path path) fs = Some u -> parse_unit com path (pr_count pr0) u = Ok pr ->
  forallb ordinary_key p = true -> leaf_ok p v = true ->
  falls_off (Dict (sd_data (pr_sd pr0))) p = true ->
  get_dpath (Dict (sd_data (pr_sd pr))) p = Some (Leaf v) ->
  get_dpath (Dict (sd_data s)) p = Some (Leaf v).
Proof.
  intros fs root com c s c' u0 pr0 i d n path suf u pr p v Hfs H Hl0 Hp0 Hinc Hl Hp Hord Hv Hn0 Hget.
  destruct p as [|k p']; [discriminate Hget|].
  eapply (earlier_include_wins_deep fs root com c s c' u0 pr0 [] i d n path suf sd_empty (pr_count pr0));
    try eassumption; reflexivity.
Qed.

(* fs_wf asks nothing of native units *)
Lemma fs_wf_native : forall fs, native_fs fs = true -> fs_wf fs = true.
Proof.
  intros fs H. unfold native_fs in H. unfold fs_wf. rewrite forallb_forall in *. intros pu Hin.
  specialize (H pu Hin). destruct (snd pu); [reflexivity | discriminate H].
Qed.
