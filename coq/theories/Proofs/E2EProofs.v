(* C01 layer (c), quote-free sub-domain: NativeParser.parse_string inverts NativeFormatter.to_string on simple trees.
   Composition: the written text scans to the token grammar (sections 3-4), white space surgery (remove_trailing_spaces,
   line-ending removal, strip) keeps tokens (5-7), the extraction stages of the lexer are no-ops (8-9), the token parser
   inverts the grammar (10-11), the clean-up passes are the identity (12). *)
From Coq Require Import String.
From Coq Require Import NArith ZArith List Bool Lia ZifyBool ZifyN ZifyNat.
From DictIO Require Import Chars Str Value Scalar KeyPath SDict Layout Lexer TokParser TreeSpec NativeSpec LayoutSpec E2ESpec.
From DictIO Require ScalarProofs SDictProofs TokProofs LayoutProofs SemProofs.
Import ListNotations.
Open Scope N_scope.


(* ================================================================================================ *)
(* 1. characters                                                                                    *)
(* ================================================================================================ *)

Ltac uc := ScalarProofs.unfold_chars.

(* the characters the writer emits for a simple tree *)
Definition tchar (c : N) : bool :=
  simple_char c || (c =? c_sp) || (c =? c_lf) || (c =? c_lbrace) || (c =? c_rbrace) || (c =? c_lpar) || (c =? c_rpar)
  || (c =? c_semi).

Ltac tch := unfold tchar, simple_char, is_word, is_delim, is_linebreak in *; uc; lia.

Lemma simple_char_word c : simple_char c = true -> is_space c = false /\ is_delim c = false.
Proof. intros H. split; tch. Qed.

Lemma simple_tchar c : simple_char c = true -> tchar c = true.
Proof. intros H. unfold tchar. rewrite H. reflexivity. Qed.

Lemma tchar_excl c : tchar c = true ->
  (c =? c_slash) = false /\ (c =? c_hash) = false /\ (c =? c_sq) = false /\ (c =? c_dq) = false /\
  (c =? c_dollar) = false /\ (c =? c_cr) = false /\ (is_linebreak c = true -> c = c_lf).
Proof. intros H. repeat split; tch. Qed.

Lemma forallb_In (p : N -> bool) (s : list N) c : forallb p s = true -> In c s -> p c = true.
Proof. intros H Hc. rewrite forallb_forall in H. apply H. exact Hc. Qed.

Lemma tchars_no c (s : list N) : forallb tchar s = true -> tchar c = false -> has_char c s = false.
Proof.
  intros H Hc. unfold has_char. destruct (existsb (N.eqb c) s) eqn:E; [|reflexivity].
  apply existsb_exists in E. destruct E as (x & Hx & Ex). apply N.eqb_eq in Ex. subst x.
  rewrite (forallb_In _ _ _ H Hx) in Hc. discriminate Hc.
Qed.

Lemma simple_tok_inv (s : list N) : simple_tok s = true ->
  s <> [] /\ forallb simple_char s = true /\ no_reserved_word s = true.
Proof.
  unfold simple_tok. intros H. apply andb_true_iff in H. destruct H as [H H3].
  apply andb_true_iff in H. destruct H as [H1 H2]. split; [|split; assumption].
  intros ->. discriminate H1.
Qed.

Lemma simple_tok_word (s : list N) : simple_tok s = true -> word_lexeme s.
Proof.
  intros H. destruct (simple_tok_inv s H) as (Hne & Hc & _). split; [exact Hne|].
  apply Forall_forall. intros c Hin. apply simple_char_word. exact (forallb_In _ _ _ Hc Hin).
Qed.

Lemma simple_tok_tchars (s : list N) : simple_tok s = true -> forallb tchar s = true.
Proof.
  intros H. destruct (simple_tok_inv s H) as (_ & Hc & _). apply forallb_forall. intros c Hin.
  apply simple_tchar. exact (forallb_In _ _ _ Hc Hin).
Qed.

(* ================================================================================================ *)
(* 2. simple trees                                                                                  *)
(* ================================================================================================ *)

Lemma simple_dict_cons k c kvs :
  simple_tree (Dict ((k, c) :: kvs)) = simple_key k && simple_tree c && simple_tree (Dict kvs).
Proof. reflexivity. Qed.
Lemma simple_lst_cons c l : simple_tree (Lst (c :: l)) = simple_tree c && simple_tree (Lst l).
Proof. reflexivity. Qed.

Lemma simple_key_inv k : simple_key k = true ->
  simple_tok (format_key k) = true /\ key_text k = format_key k /\ parse_key (format_key k) = Ok k /\
  k <> KS (of_string "_variables") /\ k <> KS (of_string "_includes").
Proof.
  unfold simple_key. intros H.
  apply andb_true_iff in H. destruct H as [H H5]. apply andb_true_iff in H. destruct H as [H H4].
  apply andb_true_iff in H. destruct H as [H H3]. apply andb_true_iff in H. destruct H as [H1 H2].
  split; [exact H1|]. split; [symmetry; apply SDictProofs.str_eqb_eq; exact H2|]. split.
  - destruct (parse_key (format_key k)) as [k'|e]; [|discriminate H3].
    apply SDictProofs.key_eqb_eq in H3. subst k'. reflexivity.
  - split; intros ->; [discriminate H4|discriminate H5].
Qed.

(* ================================================================================================ *)
(* 3. the writer's loops as top-level functions                                                     *)
(* ================================================================================================ *)

Notation FS := format_scalar.
Notation FK := format_key.

Section Loops.
  Variable level : nat.
  Fixpoint fentries (l : list (key * tree)) : str :=
    match l with
    | [] => []
    | (k, c) :: l' =>
        match c with
        | Dict _ =>
            line level (key_text k) true ++ line level [c_lbrace] true ++
            fmt_tree FS FK (S level) false c ++ line level [c_rbrace] true
        | Lst _ => line level (key_text k) true ++ fmt_tree FS FK level false c
        | Leaf v =>
            let skey := FK k in
            let value := FS v in
            line level (skey ++ spaces (Nat.max 8 (30 - length skey - 4 * level)) ++ value ++ [c_semi]) true
        end ++ fentries l'
    end.
  Variable len : nat.
  Fixpoint fitems (l : list tree) (idx : nat) (first : bool) : str :=
    match l with
    | [] => []
    | c :: l' =>
        match c with
        | Lst _ => fmt_tree FS FK (S level) true c ++ fitems l' (S idx) first
        | Dict _ =>
            line (S level) [] true ++ line (S level) [c_lbrace] true ++
            fmt_tree FS FK (S (S level)) false c ++ line (S level) [c_rbrace] true ++
            fitems l' (S idx) true
        | Leaf v =>
            let (s, first') := list_item FS level first idx len v in
            s ++ fitems l' (S idx) first'
        end
    end.
End Loops.

Lemma fmt_dict level anc kvs : fmt_tree FS FK level anc (Dict kvs) = fentries level kvs.
Proof. reflexivity. Qed.
Lemma fmt_lst level anc ts :
  fmt_tree FS FK level anc (Lst ts) =
  line level [c_lpar] true ++ fitems level (length ts) ts 0%nat true ++
  line level (if anc then [c_rpar] else [c_rpar; c_semi]) true.
Proof. reflexivity. Qed.

Notation entries := (TokProofs.entries FS FK).
Notation items := (TokProofs.items FS FK).

(* ================================================================================================ *)
(* 4. scanning the written text                                                                     *)
(* ================================================================================================ *)
Import LayoutProofs.

Lemma ws_spaces n : ws_run (spaces n).
Proof. unfold spaces. induction n as [|n IH]; cbn [repeat]; constructor; [reflexivity|exact IH]. Qed.

Lemma line_nl level (txt rest : list N) : line level txt true ++ rest = spaces (4 * level) ++ txt ++ c_lf :: rest.
Proof. unfold line, indent_of. rewrite <- !app_assoc. reflexivity. Qed.
Lemma line_nonl level (txt rest : list N) : line level txt false ++ rest = spaces (4 * level) ++ txt ++ rest.
Proof. unfold line, indent_of. rewrite <- !app_assoc. reflexivity. Qed.

Lemma tg_lf (t : list N) : toks_go [] (c_lf :: t) = toks_go [] t.
Proof. reflexivity. Qed.

Lemma brk_lf (t : list N) : brk (c_lf :: t).
Proof. left. reflexivity. Qed.

Lemma tk_line_word level (x rest : list N) : word_lexeme x ->
  toks_go [] (line level x true ++ rest) = x :: toks_go [] rest.
Proof.
  intros Hx. rewrite line_nl, (toks_go_ws _ _ (ws_spaces _)), (word_then_brk x _ Hx (brk_lf rest)). reflexivity.
Qed.

Lemma tk_line_delim level d (rest : list N) : is_delim d = true ->
  toks_go [] (line level [d] true ++ rest) = [d] :: toks_go [] rest.
Proof.
  intros Hd. rewrite line_nl, (toks_go_ws _ _ (ws_spaces _)). cbn [app]. rewrite (toks_go_delim d _ Hd). reflexivity.
Qed.

Lemma tk_line_empty level (rest : list N) : toks_go [] (line level [] true ++ rest) = toks_go [] rest.
Proof. rewrite line_nl, (toks_go_ws _ _ (ws_spaces _)). reflexivity. Qed.

Lemma tk_line_close level (anc : bool) (rest : list N) :
  toks_go [] (line level (if anc then [c_rpar] else [c_rpar; c_semi]) true ++ rest) =
  t_rpar :: (if anc then [] else [t_semi]) ++ toks_go [] rest.
Proof.
  destruct anc.
  - apply tk_line_delim. reflexivity.
  - rewrite line_nl, (toks_go_ws _ _ (ws_spaces _)). cbn [app].
    rewrite (toks_go_delim c_rpar _ eq_refl), (toks_go_delim c_semi _ eq_refl). reflexivity.
Qed.

Lemma brk_spaces_S n (t : list N) : brk (spaces (S n) ++ t).
Proof. left. reflexivity. Qed.

Lemma tk_line_kv level (skey value rest : list N) n : word_lexeme skey -> word_lexeme value -> (0 < n)%nat ->
  toks_go [] (line level (skey ++ spaces n ++ value ++ [c_semi]) true ++ rest) =
  skey :: value :: t_semi :: toks_go [] rest.
Proof.
  intros Hk Hv Hn. rewrite line_nl, (toks_go_ws _ _ (ws_spaces _)). rewrite <- !app_assoc.
  destruct n as [|n]; [lia|].
  rewrite (word_then_brk skey _ Hk (brk_spaces_S n _)), (toks_go_ws _ _ (ws_spaces _)).
  rewrite (word_then_brk value _ Hv); [|right; reflexivity].
  cbn [app]. rewrite (toks_go_delim c_semi _ eq_refl). reflexivity.
Qed.

Lemma brk_indent_S level (t : list N) : brk (spaces (4 * S level) ++ t).
Proof. replace (4 * S level)%nat with (S (3 + 4 * level)) by lia. apply brk_spaces_S. Qed.

Lemma brk_line_S level txt nl (t : list N) : brk (line (S level) txt nl ++ t).
Proof. unfold line, indent_of. rewrite <- app_assoc. apply brk_indent_S. Qed.

Lemma brk_close level (anc : bool) (t : list N) :
  brk (line level (if anc then [c_rpar] else [c_rpar; c_semi]) true ++ t).
Proof.
  rewrite line_nl. destruct (4 * level)%nat as [|n]; [|apply brk_spaces_S].
  destruct anc; right; reflexivity.
Qed.

Lemma list_item_cases level first idx len v :
  exists lv pad nl first', list_item FS level first idx len v = (line (S lv) (FS v ++ spaces pad) nl, first').
Proof.
  unfold list_item.
  destruct (Nat.eqb (Nat.modulo (S idx) 10) 0 || Nat.eqb (S idx) len).
  - exists (if first then level else 0%nat), 0%nat, true, true. cbn [spaces repeat]. rewrite app_nil_r.
    destruct first; reflexivity.
  - exists (if first then level else 0%nat), (14 - length (FS v))%nat, false, false. destruct first; reflexivity.
Qed.

Lemma fitems_brk level len l idx first (rest : list N) : brk rest -> brk (fitems level len l idx first ++ rest).
Proof.
  intros Hr. destruct l as [|c l]; [exact Hr|]. cbn [fitems]. destruct c as [v|d|ts].
  - destruct (list_item_cases level first idx len v) as (lv & pad & nl & f' & E). rewrite E.
    rewrite <- app_assoc. apply brk_line_S.
  - rewrite <- app_assoc. apply brk_line_S.
  - rewrite fmt_lst. rewrite <- !app_assoc. apply brk_line_S.
Qed.

Definition P (t : tree) : Prop :=
  simple_tree t = true -> forall level anc rest,
  match t with
  | Leaf _ => True
  | Dict kvs => toks_go [] (fmt_tree FS FK level anc t ++ rest) = entries kvs ++ toks_go [] rest
  | Lst ts => toks_go [] (fmt_tree FS FK level anc t ++ rest) =
              t_lpar :: items ts ++ t_rpar :: (if anc then [] else [t_semi]) ++ toks_go [] rest
  end.

Lemma entries_cons kc kvs : entries (kc :: kvs) = TokProofs.entry_toks FS FK kc ++ entries kvs.
Proof. reflexivity. Qed.
Lemma items_cons c l : items (c :: l) = toks_tree FS FK true c ++ items l.
Proof. reflexivity. Qed.

Lemma scan_entries kvs : Forall (fun kc => P (snd kc)) kvs -> simple_tree (Dict kvs) = true ->
  forall level rest, toks_go [] (fentries level kvs ++ rest) = entries kvs ++ toks_go [] rest.
Proof.
  induction 1 as [|[k c] kvs Hc _ IH]; intros Hs level rest; [reflexivity|].
  rewrite simple_dict_cons in Hs. apply andb_true_iff in Hs. destruct Hs as [Hs Hs3].
  apply andb_true_iff in Hs. destruct Hs as [Hs1 Hs2].
  destruct (simple_key_inv k Hs1) as (Hkt & Hkx & _).
  pose proof (simple_tok_word _ Hkt) as Hkw.
  cbn [snd] in Hc. specialize (Hc Hs2).
  rewrite entries_cons. cbn [fentries]. unfold TokProofs.entry_toks. cbn [fst snd].
  destruct c as [v|d|ts].
  - cbn zeta. rewrite <- app_assoc.
    rewrite (tk_line_kv level (FK k) (FS v)); [|exact Hkw|apply simple_tok_word; exact Hs2|lia].
    cbn [app]. rewrite (IH Hs3). reflexivity.
  - rewrite Hkx. rewrite <- !app_assoc. rewrite (tk_line_word level _ _ Hkw).
    rewrite (tk_line_delim level c_lbrace _ eq_refl).
    rewrite (Hc (S level) false). rewrite (tk_line_delim level c_rbrace _ eq_refl).
    rewrite (IH Hs3). rewrite TokProofs.toks_dict. cbn [app]. rewrite app_nil_r.
    repeat rewrite <- app_assoc. reflexivity.
  - rewrite Hkx. rewrite <- !app_assoc. rewrite (tk_line_word level _ _ Hkw).
    rewrite (Hc level false). rewrite (IH Hs3). rewrite TokProofs.toks_lst. cbn [app].
    rewrite <- !app_assoc. reflexivity.
Qed.

Lemma scan_items ts : Forall P ts -> simple_tree (Lst ts) = true ->
  forall level len idx first rest, brk rest ->
  toks_go [] (fitems level len ts idx first ++ rest) = items ts ++ toks_go [] rest.
Proof.
  induction 1 as [|c l Hc _ IH]; intros Hs level len idx first rest Hr; [reflexivity|].
  rewrite simple_lst_cons in Hs. apply andb_true_iff in Hs. destruct Hs as [Hs1 Hs2].
  specialize (Hc Hs1). rewrite items_cons. cbn [fitems].
  destruct c as [v|d|ts'].
  - destruct (list_item_cases level first idx len v) as (lv & pad & nl & f' & E). rewrite E.
    rewrite <- app_assoc. cbn [toks_tree app].
    pose proof (simple_tok_word _ Hs1) as Hw.
    pose proof (fitems_brk level len l (S idx) f' rest Hr) as Hb.
    rewrite <- (IH Hs2 level len (S idx) f' rest Hr).
    unfold line, indent_of. rewrite <- !app_assoc. rewrite (toks_go_ws _ _ (ws_spaces _)).
    rewrite (word_then_brk _ _ Hw).
    + rewrite (toks_go_ws _ _ (ws_spaces _)). destruct nl; reflexivity.
    + destruct pad as [|pad]; [|apply brk_spaces_S]. cbn [spaces repeat app].
      destruct nl; [apply brk_lf|exact Hb].
  - rewrite <- !app_assoc. rewrite tk_line_empty, (tk_line_delim _ c_lbrace _ eq_refl).
    rewrite (Hc (S (S level)) false), (tk_line_delim _ c_rbrace _ eq_refl).
    rewrite (IH Hs2 level len (S idx) true rest Hr).
    rewrite TokProofs.toks_dict. cbn [app]. rewrite <- !app_assoc. reflexivity.
  - rewrite <- !app_assoc. rewrite (Hc (S level) true).
    rewrite (IH Hs2 level len (S idx) first rest Hr).
    rewrite TokProofs.toks_lst. cbn [app]. rewrite <- !app_assoc. reflexivity.
Qed.

Lemma P_all : forall t, P t.
Proof.
  induction t as [v|kvs IH|ts IH] using tree_ind'; intros Hs level anc rest.
  - exact I.
  - rewrite fmt_dict. apply scan_entries; assumption.
  - rewrite fmt_lst. rewrite <- !app_assoc. rewrite (tk_line_delim level c_lpar _ eq_refl).
    rewrite (scan_items ts IH Hs level (length ts) 0%nat true _ (brk_close level anc rest)).
    rewrite tk_line_close. reflexivity.
Qed.

Lemma scan_body kvs : simple_tree (Dict kvs) = true -> toks_go [] (fentries 0 kvs) = entries kvs.
Proof.
  intros Hs. pose proof (P_all (Dict kvs) Hs 0%nat false []) as H. cbn beta iota in H.
  rewrite fmt_dict, !app_nil_r in H. exact H.
Qed.


(* ================================================================================================ *)
(* 5. the characters of the written text                                                            *)
(* ================================================================================================ *)

Lemma tc_app (a b : list N) : forallb tchar a = true -> forallb tchar b = true -> forallb tchar (a ++ b) = true.
Proof. intros Ha Hb. rewrite forallb_app, Ha, Hb. reflexivity. Qed.

Lemma tc_spaces n : forallb tchar (spaces n) = true.
Proof. unfold spaces. induction n as [|n IH]; [reflexivity|]. cbn [repeat forallb]. rewrite IH. reflexivity. Qed.

Lemma tc_line level (txt : list N) nl : forallb tchar txt = true -> forallb tchar (line level txt nl) = true.
Proof.
  intros H. unfold line, indent_of. apply tc_app; [apply tc_spaces|]. apply tc_app; [exact H|].
  destruct nl; reflexivity.
Qed.

Definition Q (t : tree) : Prop :=
  simple_tree t = true -> forall level anc, forallb tchar (fmt_tree FS FK level anc t) = true.

Lemma tc_entries kvs : Forall (fun kc => Q (snd kc)) kvs -> simple_tree (Dict kvs) = true ->
  forall level, forallb tchar (fentries level kvs) = true.
Proof.
  induction 1 as [|[k c] kvs Hc _ IH]; intros Hs level; [reflexivity|].
  rewrite simple_dict_cons in Hs. apply andb_true_iff in Hs. destruct Hs as [Hs Hs3].
  apply andb_true_iff in Hs. destruct Hs as [Hs1 Hs2].
  destruct (simple_key_inv k Hs1) as (Hkt & Hkx & _).
  pose proof (simple_tok_tchars _ Hkt) as Hkc.
  cbn [snd] in Hc. specialize (Hc Hs2).
  cbn [fentries]. apply tc_app; [|exact (IH Hs3 level)].
  destruct c as [v|d|ts].
  - cbn zeta. apply tc_line. apply tc_app; [exact Hkc|]. apply tc_app; [apply tc_spaces|].
    apply tc_app; [|reflexivity]. apply simple_tok_tchars. exact Hs2.
  - rewrite Hkx. apply tc_app; [apply tc_line; exact Hkc|]. apply tc_app; [apply tc_line; reflexivity|].
    apply tc_app; [apply Hc|apply tc_line; reflexivity].
  - rewrite Hkx. apply tc_app; [apply tc_line; exact Hkc|apply Hc].
Qed.

Lemma tc_items ts : Forall Q ts -> simple_tree (Lst ts) = true ->
  forall level len idx first, forallb tchar (fitems level len ts idx first) = true.
Proof.
  induction 1 as [|c l Hc _ IH]; intros Hs level len idx first; [reflexivity|].
  rewrite simple_lst_cons in Hs. apply andb_true_iff in Hs. destruct Hs as [Hs1 Hs2].
  specialize (Hc Hs1). cbn [fitems].
  destruct c as [v|d|ts'].
  - destruct (list_item_cases level first idx len v) as (lv & pad & nl & f' & E). rewrite E.
    apply tc_app; [|apply IH; exact Hs2]. apply tc_line. apply tc_app; [|apply tc_spaces].
    apply simple_tok_tchars. exact Hs1.
  - apply tc_app; [apply tc_line; reflexivity|]. apply tc_app; [apply tc_line; reflexivity|].
    apply tc_app; [apply Hc|]. apply tc_app; [apply tc_line; reflexivity|apply IH; exact Hs2].
  - apply tc_app; [apply Hc|apply IH; exact Hs2].
Qed.

Lemma Q_all : forall t, Q t.
Proof.
  induction t as [v|kvs IH|ts IH] using tree_ind'; intros Hs level anc.
  - cbn [fmt_tree]. apply simple_tok_tchars. exact Hs.
  - rewrite fmt_dict. apply tc_entries; assumption.
  - rewrite fmt_lst. apply tc_app; [apply tc_line; reflexivity|]. apply tc_app; [apply tc_items; assumption|].
    apply tc_line. destruct anc; reflexivity.
Qed.

Lemma tc_body kvs : simple_tree (Dict kvs) = true -> forallb tchar (fentries 0 kvs) = true.
Proof. intros Hs. exact (Q_all (Dict kvs) Hs 0%nat false). Qed.

(* ---- first and last visible character ----------------------------------------------------------- *)
Definition nsp (c : N) : bool := negb (is_space c).
Definition ends_delim (s : list N) : Prop := exists F0 d, is_delim d = true /\ filter nsp s = F0 ++ [d].

Lemma fl_spaces n : filter nsp (spaces n) = [].
Proof. unfold spaces. induction n as [|n IH]; [reflexivity|exact IH]. Qed.

Lemma fl_line level (txt : list N) : filter nsp (line level txt true) = filter nsp txt.
Proof.
  unfold line, indent_of. rewrite !filter_app, fl_spaces. cbn [app filter nsp]. apply app_nil_r.
Qed.

Lemma ends_delim_app (a b : list N) : ends_delim b -> ends_delim (a ++ b).
Proof.
  intros (F0 & d & Hd & E). exists (filter nsp a ++ F0), d. split; [exact Hd|].
  rewrite filter_app, E, app_assoc. reflexivity.
Qed.

Lemma ends_delim_line level (txt : list N) d : is_delim d = true -> ends_delim (line level (txt ++ [d]) true).
Proof.
  intros Hd. exists (filter nsp txt), d. split; [exact Hd|]. rewrite fl_line, filter_app. cbn [filter].
  unfold nsp. rewrite (delim_not_space d Hd). reflexivity.
Qed.

Lemma entries_end level kvs : kvs <> [] -> ends_delim (fentries level kvs).
Proof.
  induction kvs as [|[k c] kvs IH]; intros Hne; [congruence|]. cbn [fentries].
  destruct kvs as [|kc kvs'].
  - cbn [fentries]. rewrite app_nil_r. destruct c as [v|d|ts].
    + cbn zeta. rewrite !app_assoc. apply ends_delim_line. reflexivity.
    + apply ends_delim_app. apply ends_delim_app. apply ends_delim_app.
      apply (ends_delim_line level [] c_rbrace). reflexivity.
    + apply ends_delim_app. rewrite fmt_lst. apply ends_delim_app. apply ends_delim_app.
      apply (ends_delim_line level [c_rpar] c_semi). reflexivity.
  - apply ends_delim_app. apply IH. discriminate.
Qed.

Lemma entries_head k c kvs : simple_key k = true ->
  exists h r, fentries 0 ((k, c) :: kvs) = h :: r /\ simple_char h = true.
Proof.
  intros Hk. destruct (simple_key_inv k Hk) as (Hkt & Hkx & _).
  destruct (simple_tok_inv _ Hkt) as (Hne & Hc & _).
  destruct (FK k) as [|h x] eqn:E; [congruence|].
  cbn [forallb] in Hc. apply andb_true_iff in Hc. destruct Hc as [Hh _].
  cbn [fentries]. destruct c as [v|d|ts].
  - cbn zeta. rewrite E. unfold line, indent_of. cbn [Nat.mul spaces repeat app]. eexists. eexists. split; [reflexivity|exact Hh].
  - rewrite Hkx. unfold line at 1, indent_of. cbn [Nat.mul spaces repeat app]. eexists. eexists. split; [reflexivity|exact Hh].
  - rewrite Hkx. unfold line at 1, indent_of. cbn [Nat.mul spaces repeat app]. eexists. eexists. split; [reflexivity|exact Hh].
Qed.

(* ---- to_string's top-level key sorting is the identity ------------------------------------------ *)
Lemma has_placeholder_contains (w s : list N) : has_placeholder w s = true -> contains w s = true.
Proof.
  induction s as [|x s IH]; intros H.
  - cbn [has_placeholder] in H. rewrite orb_false_r in H. apply andb_true_iff in H. destruct H as [H1 H2].
    destruct w as [|y w]; [reflexivity|discriminate H1].
  - cbn [has_placeholder] in H. cbn [contains]. apply orb_true_iff in H. destruct H as [H|H].
    + apply andb_true_iff in H. rewrite (proj1 H). reflexivity.
    + rewrite (IH H). apply orb_true_r.
Qed.

Lemma starts_with_split (p s : list N) : starts_with p s = true -> exists t, s = p ++ t.
Proof.
  revert s. induction p as [|x p IH]; intros s H; [exists s; reflexivity|].
  destruct s as [|y s]; [discriminate H|]. cbn [starts_with] in H. apply andb_true_iff in H. destruct H as [H1 H2].
  apply N.eqb_eq in H1. subst y. destruct (IH s H2) as [t ->]. exists t. reflexivity.
Qed.

Lemma block_contains_comment (s : list N) : contains w_BLOCKCOMMENT s = true -> contains w_COMMENT s = true.
Proof.
  induction s as [|x s IH]; intros H; [discriminate H|].
  cbn [contains] in H. apply orb_true_iff in H. destruct H as [H|H].
  - destruct (starts_with_split _ _ H) as [t E]. rewrite E. reflexivity.
  - cbn [contains]. rewrite (IH H). apply orb_true_r.
Qed.

Lemma simple_key_unsorted k : simple_key k = true -> is_block_key k = false /\ is_include_key k = false.
Proof.
  intros Hk. destruct (simple_key_inv k Hk) as (Hkt & Hkx & _).
  destruct (simple_tok_inv _ Hkt) as (_ & _ & Hr).
  destruct k as [z|s]; [split; reflexivity|].
  cbn [key_text] in Hkx. rewrite <- Hkx in Hr. unfold no_reserved_word in Hr.
  apply andb_true_iff in Hr. destruct Hr as [Hr _]. apply andb_true_iff in Hr. destruct Hr as [Hr _].
  apply andb_true_iff in Hr. destruct Hr as [H1 H2].
  apply negb_true_iff in H1. apply negb_true_iff in H2.
  unfold is_block_key, is_include_key. split.
  - destruct (has_placeholder w_BLOCKCOMMENT s) eqn:E; [|reflexivity].
    apply has_placeholder_contains, block_contains_comment in E. congruence.
  - destruct (has_placeholder w_INCLUDE s) eqn:E; [|reflexivity].
    apply has_placeholder_contains in E. congruence.
Qed.

Lemma filter_none {A} (f : A -> bool) l : (forall x, In x l -> f x = false) -> filter f l = [].
Proof.
  induction l as [|x l IH]; intros H; [reflexivity|]. cbn [filter]. rewrite (H x (or_introl eq_refl)).
  apply IH. intros y Hy. apply H. right. exact Hy.
Qed.
Lemma filter_all {A} (f : A -> bool) l : (forall x, In x l -> f x = true) -> filter f l = l.
Proof.
  induction l as [|x l IH]; intros H; [reflexivity|]. cbn [filter]. rewrite (H x (or_introl eq_refl)).
  f_equal. apply IH. intros y Hy. apply H. right. exact Hy.
Qed.

Lemma simple_dict_keys kvs : simple_tree (Dict kvs) = true -> forall kc, In kc kvs -> simple_key (fst kc) = true.
Proof.
  induction kvs as [|[k c] kvs IH]; intros Hs kc Hin; [destruct Hin|].
  rewrite simple_dict_cons in Hs. apply andb_true_iff in Hs. destruct Hs as [Hs Hs3].
  apply andb_true_iff in Hs. destruct Hs as [Hs1 _].
  destruct Hin as [<-|Hin]; [exact Hs1|exact (IH Hs3 kc Hin)].
Qed.

Lemma sort_top_simple kvs : simple_tree (Dict kvs) = true -> sort_top kvs = kvs.
Proof.
  intros Hs. unfold sort_top.
  rewrite (filter_none (fun kv => is_block_key (fst kv))).
  2:{ intros kc Hin. exact (proj1 (simple_key_unsorted _ (simple_dict_keys kvs Hs kc Hin))). }
  rewrite (filter_none (fun kv => is_include_key (fst kv))).
  2:{ intros kc Hin. exact (proj2 (simple_key_unsorted _ (simple_dict_keys kvs Hs kc Hin))). }
  cbn [aupdate fold_left app]. apply filter_all. intros kc _. reflexivity.
Qed.

Lemma native_body_simple kvs : simple_tree (Dict kvs) = true -> native_body kvs = fentries 0 kvs.
Proof. intros Hs. unfold native_body. rewrite (sort_top_simple kvs Hs). apply fmt_dict. Qed.

(* ================================================================================================ *)
(* 6. white space surgery keeps the tokens and the visible characters                               *)
(* ================================================================================================ *)

Definition lf2sp (c : N) : N := if c =? c_lf then c_sp else c.

Lemma filter_rev' {A} (f : A -> bool) l : filter f (rev l) = rev (filter f l).
Proof.
  induction l as [|x l IH]; [reflexivity|]. cbn [rev filter]. rewrite filter_app, IH. cbn [filter].
  destruct (f x); [reflexivity|apply app_nil_r].
Qed.

Lemma fl_lstrip (s : list N) : filter nsp (lstrip s) = filter nsp s.
Proof.
  induction s as [|c s IH]; [reflexivity|]. cbn [lstrip]. destruct (is_space c) eqn:E.
  - cbn [filter]. unfold nsp at 2. rewrite E. exact IH.
  - reflexivity.
Qed.

Lemma fl_rstrip (s : list N) : filter nsp (rstrip s) = filter nsp s.
Proof. unfold rstrip. rewrite filter_rev', fl_lstrip, filter_rev', rev_involutive. reflexivity. Qed.

Lemma fl_strip (s : list N) : filter nsp (strip s) = filter nsp s.
Proof. unfold strip. rewrite fl_rstrip. apply fl_lstrip. Qed.

Lemma fl_map (s : list N) : filter nsp (map lf2sp s) = filter nsp s.
Proof.
  induction s as [|c s IH]; [reflexivity|]. cbn [map filter]. rewrite IH. unfold lf2sp.
  destruct (c =? c_lf) eqn:E; [|reflexivity]. apply N.eqb_eq in E. subst c. reflexivity.
Qed.

Lemma fl_rts (s : list N) : filter nsp (remove_trailing_spaces s) = filter nsp s.
Proof.
  pattern s. apply lines_ind; clear s.
  - intros b Hb. rewrite (rts_last b Hb). apply fl_rstrip.
  - intros b t Hb IH. rewrite (rts_line b t Hb). rewrite !filter_app. cbn [filter nsp].
    rewrite fl_rstrip, IH. reflexivity.
Qed.

(* tokens *)
Lemma tg_prefix (u X Y : list N) : (forall cur, toks_go cur X = toks_go cur Y) ->
  forall cur, toks_go cur (u ++ X) = toks_go cur (u ++ Y).
Proof.
  intros H. induction u as [|c u IH]; intros cur; [apply H|]. cbn [app toks_go].
  destruct (is_space c); [rewrite IH; reflexivity|]. destruct (is_delim c); [rewrite IH; reflexivity|apply IH].
Qed.

Lemma tg_ws_nil (w : list N) cur : ws_run w -> toks_go cur w = toks_go cur [].
Proof.
  intros Hw. destruct w as [|c w]; [reflexivity|]. inversion Hw as [|c' w' Hc Hw']; subst.
  cbn [toks_go]. rewrite Hc, (toks_go_ws_only w Hw'). reflexivity.
Qed.

Lemma tg_ws_end cur (u w : list N) : ws_run w -> toks_go cur (u ++ w) = toks_go cur u.
Proof.
  intros Hw. rewrite <- (app_nil_r u) at 2. apply tg_prefix. intros c. apply tg_ws_nil. exact Hw.
Qed.

Lemma tg_ws_lf cur (w t : list N) : ws_run w -> toks_go cur (w ++ c_lf :: t) = toks_go cur (c_lf :: t).
Proof.
  intros Hw. destruct w as [|c w]; [reflexivity|]. inversion Hw as [|c' w' Hc Hw']; subst.
  cbn [app toks_go]. rewrite Hc, (toks_go_ws w _ Hw'). reflexivity.
Qed.

Lemma lstrip_split (s : list N) : exists p, s = p ++ lstrip s /\ ws_run p.
Proof.
  induction s as [|c s (p & E & Hp)]; [exists []; split; [reflexivity|constructor]|].
  cbn [lstrip]. destruct (is_space c) eqn:Ec.
  - exists (c :: p). split; [cbn [app]; f_equal; exact E|constructor; assumption].
  - exists []. split; [reflexivity|constructor].
Qed.

Lemma rstrip_split (s : list N) : exists q, s = rstrip s ++ q /\ ws_run q.
Proof.
  unfold rstrip. destruct (lstrip_split (rev s)) as (p & E & Hp). exists (rev p). split.
  - rewrite <- rev_app_distr, <- E, rev_involutive. reflexivity.
  - apply Forall_rev. exact Hp.
Qed.

Lemma tg_rstrip cur (b : list N) : toks_go cur (rstrip b) = toks_go cur b.
Proof.
  destruct (rstrip_split b) as (q & E & Hq). rewrite E at 2. symmetry. apply tg_ws_end. exact Hq.
Qed.

Lemma tg_rts (s : list N) : forall cur, toks_go cur (remove_trailing_spaces s) = toks_go cur s.
Proof.
  pattern s. apply lines_ind; clear s.
  - intros b Hb cur. rewrite (rts_last b Hb). apply tg_rstrip.
  - intros b t Hb IH cur. rewrite (rts_line b t Hb).
    destruct (rstrip_split b) as (q & E & Hq). rewrite E at 2. rewrite <- app_assoc.
    apply tg_prefix. intros c. rewrite (tg_ws_lf c q t Hq). cbn [toks_go]. cbn. rewrite IH. reflexivity.
Qed.

Lemma tg_map (s : list N) : forall cur, toks_go cur (map lf2sp s) = toks_go cur s.
Proof.
  induction s as [|c s IH]; intros cur; [reflexivity|]. cbn [map]. unfold lf2sp at 1.
  destruct (c =? c_lf) eqn:E.
  - apply N.eqb_eq in E. subst c. cbn [toks_go]. cbn. rewrite IH. reflexivity.
  - cbn [toks_go]. destruct (is_space c); [rewrite IH; reflexivity|].
    destruct (is_delim c); [rewrite IH; reflexivity|apply IH].
Qed.

Lemma tg_lstrip (s : list N) : toks_go [] (lstrip s) = toks_go [] s.
Proof. destruct (lstrip_split s) as (p & E & Hp). rewrite E at 2. symmetry. apply toks_go_ws. exact Hp. Qed.

Lemma tg_strip (s : list N) : toks_go [] (strip s) = toks_go [] s.
Proof. unfold strip. rewrite tg_rstrip. apply tg_lstrip. Qed.

(* characters *)
Lemma tc_lstrip (s : list N) : forallb tchar s = true -> forallb tchar (lstrip s) = true.
Proof.
  intros H. destruct (lstrip_split s) as (p & E & _). rewrite E, forallb_app in H.
  apply andb_true_iff in H. exact (proj2 H).
Qed.
Lemma tc_rstrip (s : list N) : forallb tchar s = true -> forallb tchar (rstrip s) = true.
Proof.
  intros H. destruct (rstrip_split s) as (p & E & _). rewrite E, forallb_app in H.
  apply andb_true_iff in H. exact (proj1 H).
Qed.
Lemma tc_map (s : list N) : forallb tchar s = true -> forallb tchar (map lf2sp s) = true.
Proof.
  induction s as [|c s IH]; intros H; [reflexivity|]. cbn [forallb] in H. apply andb_true_iff in H.
  destruct H as [Hc Hs]. cbn [map forallb]. rewrite (IH Hs), andb_true_r. unfold lf2sp.
  destruct (c =? c_lf); [reflexivity|exact Hc].
Qed.
Lemma tc_rts (s : list N) : forallb tchar s = true -> forallb tchar (remove_trailing_spaces s) = true.
Proof.
  pattern s. apply lines_ind; clear s.
  - intros b Hb H. rewrite (rts_last b Hb). apply tc_rstrip. exact H.
  - intros b t Hb IH H. rewrite (rts_line b t Hb). rewrite forallb_app in H. apply andb_true_iff in H.
    destruct H as [H1 H2]. cbn [forallb] in H2. apply andb_true_iff in H2. destruct H2 as [_ H2].
    apply tc_app; [apply tc_rstrip; exact H1|]. cbn [forallb]. rewrite (IH H2). reflexivity.
Qed.

(* ================================================================================================ *)
(* 7. the unfiltered token list                                                                     *)
(* ================================================================================================ *)

Fixpoint trail (b : bool) (u : list N) : bool :=
  match u with [] => b | c :: u' => trail (is_space c) u' end.

Lemma trail_snoc b (u : list N) z : trail b (u ++ [z]) = is_space z.
Proof. revert b. induction u as [|c u IH]; intros b; [reflexivity|]. cbn [app trail]. apply IH. Qed.

Lemma emit_ne (cur : list N) L : cur <> [] -> emit cur L = rev cur :: L.
Proof. destruct cur; [congruence|reflexivity]. Qed.

Lemma unfiltered (u : list N) :
  (forall cur, cur <> [] ->
     split_ws_go cur (collapse_ws false u) = words_go cur u ++ (if trail false u then [[]] else [])) /\
  split_ws_go [] (collapse_ws true u) = words_go [] u ++ (if trail true u then [[]] else []).
Proof.
  induction u as [|c u [IH1 IH2]].
  - split.
    + intros cur Hc. cbn [collapse_ws split_ws_go trail]. rewrite words_go_nil, (emit_ne cur [] Hc). reflexivity.
    + reflexivity.
  - cbn [collapse_ws trail]. destruct (is_space c) eqn:E.
    + split.
      * intros cur Hc. cbn [split_ws_go]. replace (is_space c_sp) with true by reflexivity.
        rewrite IH2, (words_go_space cur c u E), (emit_ne cur _ Hc). reflexivity.
      * rewrite IH2, (words_go_space [] c u E). reflexivity.
    + split.
      * intros cur Hc. cbn [split_ws_go]. rewrite E, (words_go_char cur c u E). apply IH1. discriminate.
      * cbn [split_ws_go]. rewrite E, (words_go_char [] c u E). apply IH1. discriminate.
Qed.

Lemma pad_delims_app (a b : list N) : pad_delims (a ++ b) = pad_delims a ++ pad_delims b.
Proof. unfold pad_delims. apply flat_map_app. Qed.

(* a text that starts with a word character and ends with a delimiter *)
Lemma tokens_full (c : N) (m : list N) (d : N) :
  is_space c = false -> is_delim c = false -> is_delim d = true ->
  tokenize (separate_delimiters (c :: m ++ [d])) = toks_go [] (c :: m ++ [d]) ++ [[]].
Proof.
  intros Hs Hd Hdd. unfold tokenize, separate_delimiters, split_ws.
  change (c :: m ++ [d]) with ([c] ++ (m ++ [d])). rewrite pad_delims_app.
  unfold pad_delims at 1. cbn [flat_map]. rewrite Hd. cbn [app collapse_ws]. rewrite Hs.
  cbn [split_ws_go]. rewrite Hs.
  rewrite (proj1 (unfiltered (pad_delims (m ++ [d]))) [c]) by discriminate.
  rewrite pad_words. cbn [toks_go]. rewrite Hs, Hd. f_equal.
  rewrite pad_delims_app. unfold pad_delims at 2. cbn [flat_map]. rewrite Hdd. cbn [app].
  change [c_sp; d; c_sp] with ([c_sp; d] ++ [c_sp]). rewrite app_assoc, trail_snoc. reflexivity.
Qed.

(* shape of a stripped string *)
Lemma lstrip_snoc (a : list N) c : is_space c = false -> lstrip (a ++ [c]) = lstrip a ++ [c].
Proof.
  intros Hc. induction a as [|x a IH]; cbn [app lstrip]; [rewrite Hc; reflexivity|].
  destruct (is_space x); [exact IH|reflexivity].
Qed.

Lemma lstrip_head (s : list N) : lstrip s = [] \/ exists c r, lstrip s = c :: r /\ is_space c = false.
Proof.
  induction s as [|x s IH]; [left; reflexivity|]. cbn [lstrip]. destruct (is_space x) eqn:E; [exact IH|].
  right. exists x, s. split; [reflexivity|exact E].
Qed.

Lemma rstrip_last (s : list N) : rstrip s = [] \/ exists r e, rstrip s = r ++ [e] /\ is_space e = false.
Proof.
  unfold rstrip. destruct (lstrip_head (rev s)) as [->|(c & r & -> & Hc)]; [left; reflexivity|].
  right. exists (rev r), c. split; [reflexivity|exact Hc].
Qed.

Lemma strip_shape (s : list N) :
  strip s = [] \/
  exists c m e, is_space c = false /\ is_space e = false /\ (strip s = [c] /\ e = c \/ strip s = c :: m ++ [e]).
Proof.
  unfold strip. destruct (lstrip_head s) as [->|(c & r & -> & Hc)]; [left; reflexivity|]. right.
  assert (E : rstrip (c :: r) = c :: rstrip r).
  { unfold rstrip. cbn [rev]. rewrite (lstrip_snoc _ c Hc), rev_app_distr. reflexivity. }
  rewrite E. destruct (rstrip_last r) as [->|(m & e & -> & He)].
  - exists c, [], c. split; [exact Hc|]. split; [exact Hc|]. left. split; reflexivity.
  - exists c, m, e. split; [exact Hc|]. split; [exact He|]. right. reflexivity.
Qed.


(* ================================================================================================ *)
(* 8. the extraction stages of the lexer do nothing                                                 *)
(* ================================================================================================ *)

Lemma has_char_In c (s : list N) : has_char c s = false -> forall x, In x s -> (x =? c) = false.
Proof. exact (has_char_false_In c s). Qed.

(* splitlines / concat *)
Lemma concat_splitlines (s : list N) : has_char c_cr s = false ->
  forall cur, concat (splitlines_go cur s) = rev cur ++ s.
Proof.
  induction s as [|c s IH]; intros H cur.
  - cbn [splitlines_go]. destruct cur; [reflexivity|]. cbn [concat]. reflexivity.
  - rewrite has_char_cons in H. apply orb_false_iff in H. destruct H as [Hc Hs]. rewrite N.eqb_sym in Hc.
    cbn [splitlines_go]. rewrite Hc. destruct (is_linebreak c).
    + cbn [concat]. rewrite (IH Hs []). cbn [rev app]. rewrite <- app_assoc. reflexivity.
    + rewrite (IH Hs (c :: cur)). cbn [rev]. rewrite <- app_assoc. reflexivity.
Qed.

Lemma forallb_concat (p : N -> bool) (ls : list (list N)) :
  forallb p (concat ls) = true -> Forall (fun l => forallb p l = true) ls.
Proof.
  induction ls as [|l ls IH]; intros H; [constructor|]. cbn [concat] in H. rewrite forallb_app in H.
  apply andb_true_iff in H. destruct H as [H1 H2]. constructor; [exact H1|exact (IH H2)].
Qed.

(* line comments *)
Lemma find_comment_none (s : list N) : has_char c_slash s = false -> forall pc acc, find_comment pc acc s = None.
Proof.
  induction s as [|a s IH]; intros H pc acc; [reflexivity|].
  rewrite has_char_cons in H. apply orb_false_iff in H. destruct H as [Ha Hs]. rewrite N.eqb_sym in Ha.
  destruct s as [|b s']; [reflexivity|]. cbn [find_comment]. rewrite Ha. cbn [andb]. apply IH. exact Hs.
Qed.

Lemma chomp_no x (l : list N) : has_char x l = false -> has_char x (fst (chomp_lf l)) = false.
Proof.
  intros H. unfold chomp_lf. destruct (rev l) as [|c r] eqn:E; [reflexivity|].
  destruct (c =? c_lf); [|exact H]. cbn [fst].
  assert (El : l = rev r ++ [c]). { rewrite <- (rev_involutive l), E. reflexivity. }
  rewrite El, has_char_app' in H. apply orb_false_iff in H. exact (proj1 H).
Qed.

Lemma extract_line_comment_none comments count (l : list N) : has_char c_slash l = false ->
  extract_line_comment comments count l = (l, count, None).
Proof.
  intros H. unfold extract_line_comment. pose proof (chomp_no c_slash l H) as Hb.
  destruct (chomp_lf l) as [body nl]. cbn [fst] in Hb. rewrite (find_comment_none body Hb). reflexivity.
Qed.

Lemma extract_line_comments_none comments (ls : list (list N)) : Forall (fun l => has_char c_slash l = false) ls ->
  forall count, extract_line_comments comments count ls = (ls, count, []).
Proof.
  induction 1 as [|l ls Hl _ IH]; intros count; [reflexivity|].
  cbn [extract_line_comments]. rewrite (extract_line_comment_none comments count l Hl), IH. reflexivity.
Qed.

(* includes *)
Lemma include_line_rest_none (l : list N) : has_char c_hash l = false -> include_line_rest l = None.
Proof.
  intros H. unfold include_line_rest. destruct (lstrip l) as [|c r] eqn:E; [reflexivity|].
  destruct (lstrip_suffix l) as [p Ep].
  assert (Hin : In c l). { rewrite Ep, E. apply in_or_app. right. left. reflexivity. }
  rewrite (has_char_In _ _ H c Hin). reflexivity.
Qed.

Lemma extract_includes_none dir (ls : list (list N)) : Forall (fun l => has_char c_hash l = false) ls ->
  forall count, extract_includes dir count ls = (ls, count, []).
Proof.
  induction 1 as [|l ls Hl _ IH]; intros count; [reflexivity|].
  cbn [extract_includes]. rewrite (include_line_rest_none l Hl), IH. reflexivity.
Qed.

(* block comments *)
Lemma find_block_comments_none fuel : forall (s : list N), has_char c_slash s = false -> find_block_comments fuel s = [].
Proof.
  induction fuel as [|f IH]; intros s H; [reflexivity|].
  destruct s as [|a s]; [reflexivity|]. destruct s as [|b r]; [reflexivity|].
  rewrite has_char_cons in H. apply orb_false_iff in H. destruct H as [Ha Hs]. rewrite N.eqb_sym in Ha.
  cbn [find_block_comments]. rewrite Ha. cbn [andb]. apply IH. exact Hs.
Qed.

Lemma extract_block_comments_none comments (s : list N) : has_char c_slash s = false ->
  extract_block_comments comments s = (s, []).
Proof. intros H. unfold extract_block_comments. rewrite (find_block_comments_none _ s H). reflexivity. Qed.

(* string literals *)
Lemma In_drop_n {A} n (l : list A) x : In x (drop_n n l) -> In x l.
Proof.
  revert l. induction n as [|n IH]; intros l H; [exact H|]. destruct l as [|y l]; [exact H|].
  right. apply IH. exact H.
Qed.

Lemma opener_at_none q pb (s : list N) : has_char q s = false -> opener_at q pb s = None.
Proof.
  intros H. unfold opener_at. destruct pb; [reflexivity|].
  destruct (drop_n (count_bsl s) s) as [|c r] eqn:E; [reflexivity|].
  assert (Hin : In c s). { apply (In_drop_n (count_bsl s)). rewrite E. left. reflexivity. }
  rewrite (has_char_In _ _ H c Hin). reflexivity.
Qed.

Lemma quoted_at_none q pb (s : list N) : has_char q s = false -> quoted_at q pb s = None.
Proof. intros H. unfold quoted_at. rewrite (opener_at_none q pb s H). reflexivity. Qed.

Lemma scan_literals_none fuel : forall pb count out tab (s : list N),
  has_char c_sq s = false -> has_char c_dq s = false ->
  scan_literals fuel pb count out tab s = (rev out ++ s, count, tab).
Proof.
  induction fuel as [|f IH]; intros pb count out tab s H1 H2; [reflexivity|].
  destruct s as [|c s]; [cbn [scan_literals]; rewrite app_nil_r; reflexivity|].
  cbn [scan_literals]. rewrite (quoted_at_none c_sq pb (c :: s) H1), (quoted_at_none c_dq pb (c :: s) H2).
  rewrite has_char_cons in H1, H2. apply orb_false_iff in H1. apply orb_false_iff in H2.
  rewrite (IH _ count (c :: out) tab s (proj2 H1) (proj2 H2)). cbn [rev]. rewrite <- app_assoc. reflexivity.
Qed.

Lemma extract_string_literals_none count (s : list N) : has_char c_sq s = false -> has_char c_dq s = false ->
  extract_string_literals count s = (s, count, []).
Proof.
  intros H1 H2. unfold extract_string_literals. rewrite (scan_literals_none _ false count [] [] s H1 H2). reflexivity.
Qed.

(* expressions *)
Lemma find_expressions_none fuel : forall (s : list N), has_char c_dq s = false -> find_expressions fuel s = [].
Proof.
  induction fuel as [|f IH]; intros s H; [reflexivity|]. destruct s as [|c s]; [reflexivity|].
  rewrite has_char_cons in H. apply orb_false_iff in H. destruct H as [Hc Hs]. rewrite N.eqb_sym in Hc.
  cbn [find_expressions]. rewrite Hc. apply IH. exact Hs.
Qed.

Lemma extract_expressions_none count (s : list N) : has_char c_dq s = false -> has_char c_dollar s = false ->
  extract_expressions count s = (s, count, []).
Proof.
  intros H1 H2. unfold extract_expressions. rewrite (find_expressions_none _ s H1). cbn [fold_left].
  cbn [extract_references length]. rewrite (SemProofs.find_reference_none s [] H2). reflexivity.
Qed.

Lemma remove_line_endings_eq (s : list N) : remove_line_endings s = strip (map lf2sp s).
Proof. reflexivity. Qed.

Lemma lex_plain comments dir count (text : list N) : forallb tchar text = true ->
  lex comments dir count text =
  mkLexed (tokenize (separate_delimiters (remove_line_endings text))) count [] [] [] [] [].
Proof.
  intros Ht.
  assert (Hcr : has_char c_cr text = false) by (apply (tchars_no _ _ Ht); reflexivity).
  assert (Hcat : concat (splitlines text) = text) by (exact (concat_splitlines text Hcr [])).
  assert (Hl : Forall (fun l => forallb tchar l = true) (splitlines text)).
  { apply forallb_concat. rewrite Hcat. exact Ht. }
  assert (Hl1 : Forall (fun l => has_char c_slash l = false) (splitlines text)).
  { revert Hl. apply Forall_impl. intros l H. apply (tchars_no _ _ H). reflexivity. }
  assert (Hl2 : Forall (fun l => has_char c_hash l = false) (splitlines text)).
  { revert Hl. apply Forall_impl. intros l H. apply (tchars_no _ _ H). reflexivity. }
  assert (Hb : forallb tchar (remove_line_endings text) = true).
  { rewrite remove_line_endings_eq. unfold strip. apply tc_rstrip, tc_lstrip, tc_map. exact Ht. }
  unfold lex. cbv zeta.
  rewrite (extract_line_comments_none comments _ Hl1 count).
  rewrite (extract_includes_none dir _ Hl2 count).
  rewrite Hcat.
  rewrite (extract_block_comments_none comments text) by (apply (tchars_no _ _ Ht); reflexivity).
  rewrite (extract_string_literals_none count (remove_line_endings text))
    by (apply (tchars_no _ _ Hb); reflexivity).
  rewrite (extract_expressions_none count (remove_line_endings text))
    by (apply (tchars_no _ _ Hb); reflexivity).
  reflexivity.
Qed.

(* ================================================================================================ *)
(* 9. the tokens of the written text                                                                *)
(* ================================================================================================ *)

Lemma toks_doc_entries kvs : toks_doc FS FK kvs = entries kvs ++ [[]].
Proof. unfold toks_doc. rewrite TokProofs.toks_dict. cbn [app]. rewrite app_nil_r. reflexivity. Qed.

Lemma tokens_written kvs : simple_tree (Dict kvs) = true ->
  tokenize (separate_delimiters (remove_line_endings (to_string_plain kvs))) = toks_doc FS FK kvs.
Proof.
  intros Hs. rewrite toks_doc_entries. unfold to_string_plain. rewrite (native_body_simple kvs Hs).
  rewrite remove_line_endings_eq.
  set (T := fentries 0 kvs). set (b2 := strip (map lf2sp (remove_trailing_spaces T))).
  assert (Htok : toks_go [] b2 = entries kvs).
  { unfold b2. rewrite tg_strip, tg_map, tg_rts. apply scan_body. exact Hs. }
  assert (Hfl : filter nsp b2 = filter nsp T).
  { unfold b2. rewrite fl_strip, fl_map, fl_rts. reflexivity. }
  destruct kvs as [|[k c] kvs'].
  - reflexivity.
  - rewrite simple_dict_cons in Hs. apply andb_true_iff in Hs. destruct Hs as [Hs _].
    apply andb_true_iff in Hs. destruct Hs as [Hk _].
    destruct (entries_head k c kvs' Hk) as (h & r & Eh & Hh).
    destruct (entries_end 0 ((k, c) :: kvs') ltac:(discriminate)) as (F0 & d & Hd & Ed).
    fold T in Eh, Ed.
    destruct (simple_char_word h Hh) as [Hhs Hhd].
    assert (Efh : filter nsp T = h :: filter nsp r).
    { rewrite Eh. cbn [filter]. unfold nsp at 1. rewrite Hhs. reflexivity. }
    destruct (strip_shape (map lf2sp (remove_trailing_spaces T))) as [E|(c0 & m & e & Hc0 & He & [[E _]|E])];
      fold b2 in E.
    + rewrite E in Hfl. rewrite Efh in Hfl. discriminate Hfl.
    + exfalso. rewrite E in Hfl. cbn [filter] in Hfl. unfold nsp at 1 in Hfl. rewrite Hc0 in Hfl. cbn [negb] in Hfl.
      assert (c0 = h) by (rewrite Efh in Hfl; congruence). subst c0.
      rewrite Ed in Hfl. change [h] with ([] ++ [h]) in Hfl. apply app_inj_tail in Hfl. destruct Hfl as [_ <-].
      congruence.
    + assert (Ef : filter nsp b2 = (c0 :: filter nsp m) ++ [e]).
      { rewrite E. cbn [filter]. unfold nsp at 1. rewrite Hc0. cbn [negb]. rewrite filter_app. cbn [filter].
        unfold nsp at 2. rewrite He. reflexivity. }
      assert (c0 = h) by (rewrite Hfl, Efh in Ef; cbn [app] in Ef; congruence). subst c0.
      rewrite Hfl, Ed in Ef. apply app_inj_tail in Ef. destruct Ef as [_ <-].
      rewrite E. etransitivity; [exact (tokens_full h m d Hhs Hhd Hd)|]. rewrite <- Htok, E. reflexivity.
Qed.

Lemma lex_written kvs comments dir count : simple_tree (Dict kvs) = true ->
  lex comments dir count (to_string_plain kvs) = mkLexed (toks_doc FS FK kvs) count [] [] [] [] [].
Proof.
  intros Hs. rewrite lex_plain.
  - rewrite (tokens_written kvs Hs). reflexivity.
  - unfold to_string_plain. rewrite (native_body_simple kvs Hs). apply tc_rts, tc_body. exact Hs.
Qed.


(* ================================================================================================ *)
(* 10. the token parser inverts the token grammar on simple trees                                   *)
(*     (TokProofs.tok_roundtrip asks for parse_key (kt k) = Ok k for EVERY key, which no token       *)
(*     function can provide - e.g. no plain token reads back as the key "COMMENT" - so its main      *)
(*     induction is replayed here with the key hypothesis restricted to simple keys)                 *)
(* ================================================================================================ *)
Module TR.
Import TokProofs.
Local Open Scope Z_scope.
Section Main.
  Variable lt : scalar -> str.
  Variable kt : key -> str.
  Variable nv : scalar -> scalar.
  Hypothesis Hlt : forall v, plain_token (lt v) = true /\ parse_value (lt v) = Ok (nv v).
  Hypothesis Hktp : forall k, plain_token (kt k) = true.
  Hypothesis Hkpk : forall k, simple_key k = true -> parse_key (kt k) = Ok k.

  Local Notation entry_toks := (TokProofs.entry_toks lt kt).
  Local Notation entries := (TokProofs.entries lt kt).
  Local Notation items := (TokProofs.items lt kt).
  Local Notation mkv := (TokProofs.mkv nv).
  Local Notation toks_dict := (TokProofs.toks_dict lt kt).
  Local Notation toks_lst := (TokProofs.toks_lst lt kt).
  Local Notation toks_lst_b := (TokProofs.toks_lst_b lt kt).
  Local Notation toks_leaf := (TokProofs.toks_leaf lt kt).
  Local Notation map_leaves_dict := (TokProofs.map_leaves_dict nv).
  Local Notation map_leaves_lst := (TokProofs.map_leaves_lst nv).

  Lemma plain_lt v : plain (lt v). Proof. exact (proj1 (Hlt v)). Qed.
  Lemma plain_kt k : plain (kt k). Proof. exact (Hktp k). Qed.

  Lemma good_plain t : plain t -> good [t].
  Proof.
    intros Hp. destruct (plain_inv t Hp) as (A1 & A2 & _ & A4 & _). apply good_single; assumption.
  Qed.
  Lemma good_semi : good [t_semi].
  Proof. apply good_single; vm_compute; reflexivity. Qed.
  Lemma good_cons t a : good [t] -> good a -> good (t :: a).
  Proof. intros H1 H2. change (t :: a) with ([t] ++ a). apply good_app; assumption. Qed.
  Lemma good_braces a : good a -> good (t_lbrace :: a ++ [t_rbrace]).
  Proof. intros H. apply good_wrap; try (vm_compute; reflexivity). exact H. Qed.
  Lemma good_pars a : good a -> good (t_lpar :: a ++ [t_rpar]).
  Proof. intros H. apply good_wrap; try (vm_compute; reflexivity). exact H. Qed.

  Lemma good_entry kc : (forall b, good (toks_tree lt kt b (snd kc))) -> good (entry_toks kc).
  Proof.
    destruct kc as [k c]. cbn [snd]. intros Hc. unfold TokProofs.entry_toks. cbn [fst snd].
    destruct c as [v|d|l].
    - apply good_cons; [apply good_plain, plain_kt|].
      apply good_cons; [apply good_plain, plain_lt|]. apply good_semi.
    - cbn [app]. apply good_cons; [apply good_plain, plain_kt|]. apply good_braces. apply Hc.
    - cbn [app]. apply good_cons; [apply good_plain, plain_kt|]. apply good_app; [apply Hc|apply good_semi].
  Qed.

  Lemma good_tree : forall t b, good (toks_tree lt kt b t).
  Proof.
    induction t as [v|kvs IH|l IH] using tree_ind'; intros b.
    - apply good_plain, plain_lt.
    - rewrite toks_dict.
      assert (He : good (entries kvs)).
      { induction IH as [|kc kvs Hc _ IHk]; [apply good_nil|].
        unfold TokProofs.entries. cbn [flat_map]. apply good_app; [apply good_entry; exact Hc|exact IHk]. }
      destruct b; cbn [app]; [apply good_braces; exact He|rewrite app_nil_r; exact He].
    - rewrite toks_lst_b, toks_lst. cbn [app]. apply good_pars.
      induction IH as [|c l Hc _ IHl]; [apply good_nil|].
      unfold TokProofs.items. cbn [flat_map]. apply good_app; [apply Hc|exact IHl].
  Qed.

  Lemma good_entries kvs : good (entries kvs).
  Proof.
    induction kvs as [|kc kvs IH]; [apply good_nil|].
    unfold TokProofs.entries. cbn [flat_map]. apply good_app; [|exact IH].
    apply good_entry. intros b. apply good_tree.
  Qed.
  Lemma good_items l : good (items l).
  Proof.
    induction l as [|c l IH]; [apply good_nil|].
    unfold TokProofs.items. cbn [flat_map]. apply good_app; [apply good_tree|exact IH].
  Qed.

  Lemma items_nil l : items l = [] -> l = [].
  Proof.
    destruct l as [|c l]; [reflexivity|]. unfold TokProofs.items. cbn [flat_map]. intros H.
    apply app_eq_nil in H. destruct H as [H _]. destruct c; cbn in H; discriminate.
  Qed.

  (* levels of the statements and items *)
  Lemma lev_item_dict L d rest :
    levels_go L (toks_tree lt kt true (Dict d) ++ rest)
    = (L, t_lbrace) :: levels_go (L + 1) (entries d) ++ (L, t_rbrace) :: levels_go L rest.
  Proof.
    rewrite toks_dict. cbn [app]. rewrite <- app_assoc. cbn [app].
    rewrite lev_lbrace, levels_go_app, (g_net _ (good_entries d)), Z.add_0_r, lev_rbrace. reflexivity.
  Qed.
  Lemma lev_item_lst L l rest :
    levels_go L (toks_tree lt kt true (Lst l) ++ rest)
    = (L, t_lpar) :: levels_go (L + 1) (items l) ++ (L, t_rpar) :: levels_go L rest.
  Proof.
    rewrite toks_lst. cbn [app]. rewrite <- app_assoc. cbn [app].
    rewrite lev_lpar, levels_go_app, (g_net _ (good_items l)), Z.add_0_r, lev_rpar. reflexivity.
  Qed.
  Lemma lev_entry_leaf L k v rest :
    levels_go L (entry_toks (k, Leaf v) ++ rest)
    = (L, kt k) :: (L, lt v) :: (L, t_semi) :: levels_go L rest.
  Proof.
    unfold TokProofs.entry_toks. cbn [fst snd app].
    rewrite (lev_plain _ _ _ (plain_kt k)), (lev_plain _ _ _ (plain_lt v)), lev_semi. reflexivity.
  Qed.
  Lemma lev_entry_dict L k d rest :
    levels_go L (entry_toks (k, Dict d) ++ rest)
    = (L, kt k) :: (L, t_lbrace) :: levels_go (L + 1) (entries d) ++ (L, t_rbrace) :: levels_go L rest.
  Proof.
    replace (entry_toks (k, Dict d)) with (kt k :: toks_tree lt kt true (Dict d)).
    - cbn [app]. rewrite (lev_plain _ _ _ (plain_kt k)), lev_item_dict. reflexivity.
    - unfold TokProofs.entry_toks. cbn [fst snd]. rewrite !toks_dict. cbn [app]. rewrite app_nil_r. reflexivity.
  Qed.
  Lemma lev_entry_lst L k l rest :
    levels_go L (entry_toks (k, Lst l) ++ rest)
    = (L, kt k) :: (L, t_lpar) :: levels_go (L + 1) (items l) ++ (L, t_rpar) :: (L, t_semi) :: levels_go L rest.
  Proof.
    unfold TokProofs.entry_toks. cbn [fst snd]. cbn [app]. rewrite <- app_assoc.
    rewrite (lev_plain _ _ _ (plain_kt k)), lev_item_lst. cbn [app]. rewrite lev_semi. reflexivity.
  Qed.

  Lemma nc_kt k : nc (kt k).
  Proof. destruct (plain_inv _ (plain_kt k)) as (_ & _ & _ & A & _). exact A. Qed.

  Definition dict_spec (kvs : list (key * tree)) : Prop :=
    forall L (pre tail : list ztok) acc f (ts : list ztok) ti,
    ts = pre ++ levels_go L (entries kvs) ++ tail -> ti = Z.of_nat (length pre) ->
    pre_ok pre -> tail_ok tail ->
    (length (entries kvs) + length tail + 4 <= f)%nat ->
    keys_nodup (map fst acc ++ map fst kvs) = true ->
    forallb (fun kc => wf (snd kc)) kvs = true ->
    simple_tree (Dict kvs) = true ->
    parse_dict_go f ts ti acc = Ok (acc ++ map mkv kvs).

  Definition list_spec (l : list tree) : Prop :=
    forall L f (ts : list ztok),
    ts = (L, t_lpar) :: levels_go (L + 1) (items l) ++ [(L, t_rpar)] ->
    (length (items l) + 2 + 4 <= f)%nat -> forallb wf l = true ->
    simple_tree (Lst l) = true ->
    parse_list_go f ts 0 L [] = Ok (map (map_leaves nv) l).

  Definition items_spec (l : list tree) : Prop :=
    forall L (pre : list ztok) acc f (ts : list ztok) ti,
    ts = pre ++ levels_go (L + 1) (items l) ++ [(L, t_rpar)] -> ti = Z.of_nat (length pre) ->
    (length (items l) + 1 + 4 <= f)%nat -> forallb wf l = true ->
    simple_tree (Lst l) = true ->
    parse_list_go f ts ti L acc = Ok (rev acc ++ map (map_leaves nv) l).

  Definition P (t : tree) : Prop :=
    match t with Leaf _ => True | Dict kvs => dict_spec kvs | Lst l => list_spec l end.

  Ltac norm_in H := repeat (first [rewrite <- app_assoc in H | progress cbn [app] in H]).
  Ltac fuel f Hf := destruct f as [|f]; [exfalso; cbn [length] in Hf; lia|].

  Lemma dict_loop kvs : Forall (fun kc => P (snd kc)) kvs -> dict_spec kvs.
  Proof.
    induction 1 as [|[k c] kvs Hc Hall IH]; intros L pre tail acc f ts ti Hts Hti Hpre Htail Hf Hnd Hwf Hsim.
    - cbn [TokProofs.entries flat_map levels_go app] in Hts. cbn [map]. rewrite app_nil_r.
      destruct Htail as [->|[l ->]].
      + fuel f Hf. apply pd_end. apply py_nth_end. len_eq.
      + fuel f Hf. fuel f Hf.
        rewrite (pd_skip (S f) ts ti acc l []); [| |lia|reflexivity..].
        * apply pd_end. apply py_nth_end. len_eq.
        * apply py_nth_split with (a := pre) (b := []); [exact Hts|exact Hti].
    - assert (Hlen : length (entries ((k, c) :: kvs)) = (length (entry_toks (k, c)) + length (entries kvs))%nat).
      { unfold TokProofs.entries. cbn [flat_map]. apply app_length. }
      change (entries ((k, c) :: kvs)) with (entry_toks (k, c) ++ entries kvs) in Hts.
      cbn [map fst] in Hnd. cbn [forallb snd] in Hwf. apply andb_true_iff in Hwf. destruct Hwf as [Hwc Hwf].
      cbn [map]. unfold TokProofs.mkv at 1. cbn [fst snd].
      rewrite simple_dict_cons in Hsim. apply andb_true_iff in Hsim. destruct Hsim as [Hsim Hs3].
      apply andb_true_iff in Hsim. destruct Hsim as [Hs1 Hs2].
      pose proof (Hkpk k Hs1) as Hpk.
      cbn [snd] in Hc.
      destruct c as [v|d|l].
      + (* k v ; *)
        rewrite lev_entry_leaf in Hts. norm_in Hts.
        assert (Hel : length (entry_toks (k, Leaf v)) = 3%nat) by reflexivity.
        rewrite Hlen, Hel in Hf. clear Hlen Hel.
        do 6 (fuel f Hf).
        rewrite (pd_plain _ ts ti acc L (kt k)); [| |lia|apply plain_kt].
        2:{ rewrite Hts. apply (py_nth_off pre []). len_eq. }
        rewrite (pd_plain _ ts (ti + 1) acc L (lt v)); [| |lia|apply plain_lt].
        2:{ rewrite Hts. apply (py_nth_off pre [(L, kt k)]). len_eq. }
        rewrite (pd_kv f ts (ti + 1 + 1) acc L (kt k) (lt v) k (nv v)).
        * destruct (aset_step k (Leaf (nv v)) acc (map fst kvs) Hnd) as [Has Hnd'].
          rewrite Has.
          rewrite (IH L (pre ++ [(L, kt k); (L, lt v); (L, t_semi)]) tail (acc ++ [(k, Leaf (nv v))]) _ ts (ti + 1 + 1 + 1)).
          -- cbn [map_leaves]. rewrite <- app_assoc. reflexivity.
          -- list_eq.
          -- len_eq.
          -- right. exists (pre ++ [(L, kt k); (L, lt v)]), L, t_semi. split; [list_eq|left; reflexivity].
          -- exact Htail.
          -- lia.
          -- exact Hnd'.
          -- exact Hwf.
          -- exact Hs3.
        * rewrite Hts. apply (py_nth_off pre [(L, kt k); (L, lt v)]). len_eq.
        * rewrite Hts. apply (py_nth_off pre [(L, kt k)]). len_eq.
        * rewrite Hts. apply (py_nth_off pre []). len_eq.
        * apply plain_kt.
        * apply plain_lt.
        * lia.
        * eapply stop3_of_pre; [exact Hpre|exact Hts|lia].
        * exact Hpk.
        * exact (proj2 (Hlt v)).
      + (* k { ... } *)
        rewrite lev_entry_dict in Hts. norm_in Hts.
        assert (Hel : length (entry_toks (k, Dict d)) = (length (entries d) + 3)%nat).
        { unfold TokProofs.entry_toks. cbn [fst snd]. rewrite toks_dict. cbn [app]. rewrite app_nil_r. len_eq. }
        rewrite Hlen, Hel in Hf. clear Hlen Hel.
        destruct (good_ge_nc (entries d) (L + 1) (good_entries d)) as [Hge Hncc].
        rewrite wf_dict in Hwc. apply andb_true_iff in Hwc. destruct Hwc as [Hnd_d Hwf_d].
        do 3 (fuel f Hf).
        rewrite (pd_plain _ ts ti acc L (kt k)); [| |lia|apply plain_kt].
        2:{ rewrite Hts. apply (py_nth_off pre []). len_eq. }
        assert (Hd : parse_dict_go (S f) (levels_go (L + 1) (entries d)) 0 [] = Ok (map mkv d)).
        { apply (Hc (L + 1) [] [] [] (S f)).
          - rewrite app_nil_r. reflexivity.
          - reflexivity.
          - left. reflexivity.
          - left. reflexivity.
          - cbn [length]. lia.
          - exact Hnd_d.
          - exact Hwf_d.
          - exact Hs2. }
        rewrite (pd_open_dict f ts pre (levels_go (L + 1) (entries d)) (levels_go L (entries kvs) ++ tail)
                   (ti + 1) acc L (kt k) k (map mkv d));
          [|exact Hts|lia|apply nc_kt|exact Hpk|exact Hge|exact Hncc|len_eq|exact Hd].
        destruct (aset_step k (Dict (map mkv d)) acc (map fst kvs) Hnd) as [Has Hnd'].
        rewrite Has. rewrite map_leaves_dict.
        rewrite (IH L (pre ++ (L, kt k) :: (L, t_lbrace) :: levels_go (L + 1) (entries d) ++ [(L, t_rbrace)])
                   tail (acc ++ [(k, Dict (map mkv d))]) _ ts
                   (ti + 1 + Z.of_nat (length (levels_go (L + 1) (entries d))) + 2)).
        * rewrite <- app_assoc. reflexivity.
        * list_eq.
        * len_eq.
        * right. exists (pre ++ (L, kt k) :: (L, t_lbrace) :: levels_go (L + 1) (entries d)), L, t_rbrace.
          split; [list_eq|right; reflexivity].
        * exact Htail.
        * lia.
        * exact Hnd'.
        * exact Hwf.
        * exact Hs3.
      + (* k ( ... ) ; *)
        rewrite lev_entry_lst in Hts. norm_in Hts.
        assert (Hel : length (entry_toks (k, Lst l)) = (length (items l) + 4)%nat).
        { unfold TokProofs.entry_toks. cbn [fst snd]. rewrite toks_lst. len_eq. }
        rewrite Hlen, Hel in Hf. clear Hlen Hel.
        destruct (good_ge_nc (items l) (L + 1) (good_items l)) as [Hge Hncc].
        rewrite wf_lst in Hwc.
        do 4 (fuel f Hf).
        rewrite (pd_plain _ ts ti acc L (kt k)); [| |lia|apply plain_kt].
        2:{ rewrite Hts. apply (py_nth_off pre []). len_eq. }
        rewrite (pd_open_list (S f) ts pre (levels_go (L + 1) (items l)) (levels_go L (entries kvs) ++ tail)
                   (ti + 1) acc L (kt k) k (map (map_leaves nv) l));
          [|exact Hts|lia|apply nc_kt|exact Hpk|exact Hge|len_eq| |].
        2:{ intros He. apply (f_equal (@length _)) in He. rewrite levels_go_length in He. cbn [length] in He.
            apply length_zero_iff_nil in He. apply items_nil in He. subst l. reflexivity. }
        2:{ intros _. apply (Hc L (S (S f))); [reflexivity|lia|exact Hwc|exact Hs2]. }
        rewrite (pd_semi_rpar (S f) ts (ti + 1 + Z.of_nat (length (levels_go (L + 1) (items l))) + 2) _ L L).
        * destruct (aset_step k (Lst (map (map_leaves nv) l)) acc (map fst kvs) Hnd) as [Has Hnd'].
          rewrite Has. rewrite map_leaves_lst.
          rewrite (IH L (pre ++ (L, kt k) :: (L, t_lpar) :: levels_go (L + 1) (items l) ++ [(L, t_rpar); (L, t_semi)])
                     tail (acc ++ [(k, Lst (map (map_leaves nv) l))]) _ ts
                     (ti + 1 + Z.of_nat (length (levels_go (L + 1) (items l))) + 2 + 1)).
          -- rewrite <- app_assoc. reflexivity.
          -- list_eq.
          -- len_eq.
          -- right. exists (pre ++ (L, kt k) :: (L, t_lpar) :: levels_go (L + 1) (items l) ++ [(L, t_rpar)]), L, t_semi.
             split; [list_eq|left; reflexivity].
          -- exact Htail.
          -- lia.
          -- exact Hnd'.
          -- exact Hwf.
          -- exact Hs3.
        * apply py_nth_split with (a := pre ++ (L, kt k) :: (L, t_lpar) :: levels_go (L + 1) (items l) ++ [(L, t_rpar)])
                                  (b := levels_go L (entries kvs) ++ tail); [list_eq|len_eq].
        * lia.
        * apply py_nth_split with (a := pre ++ (L, kt k) :: (L, t_lpar) :: levels_go (L + 1) (items l))
                                  (b := (L, t_semi) :: levels_go L (entries kvs) ++ tail); [list_eq|len_eq].
  Qed.

  Lemma list_loop l : Forall P l -> items_spec l.
  Proof.
    induction 1 as [|c l Hc Hall IH]; intros L pre acc f ts ti Hts Hti Hf Hwf Hsim.
    - cbn [TokProofs.items flat_map levels_go app] in Hts. cbn [map]. rewrite app_nil_r.
      fuel f Hf. fuel f Hf.
      rewrite (pl_rpar (S f) ts ti L acc L); [| |lia].
      + apply pl_end. apply py_nth_end. len_eq.
      + apply py_nth_split with (a := pre) (b := []); [exact Hts|exact Hti].
    - assert (Hlen : length (items (c :: l)) = (length (toks_tree lt kt true c) + length (items l))%nat).
      { unfold TokProofs.items. cbn [flat_map]. apply app_length. }
      change (items (c :: l)) with (toks_tree lt kt true c ++ items l) in Hts.
      cbn [forallb] in Hwf. apply andb_true_iff in Hwf. destruct Hwf as [Hwc Hwf].
      rewrite simple_lst_cons in Hsim. apply andb_true_iff in Hsim. destruct Hsim as [Hs2 Hs3].
      cbn [map].
      destruct c as [v|d|l'].
      + (* scalar item *)
        rewrite toks_leaf in Hts. cbn [app] in Hts. rewrite (lev_plain _ _ _ (plain_lt v)) in Hts. norm_in Hts.
        fuel f Hf.
        rewrite (pl_leaf f ts ti L acc (L + 1) (lt v) (nv v)); [| |lia|apply plain_lt|exact (proj2 (Hlt v))].
        2:{ rewrite Hts. apply (py_nth_off pre []). len_eq. }
        rewrite (IH L (pre ++ [(L + 1, lt v)]) (Leaf (nv v) :: acc) f ts (ti + 1)).
        * cbn [rev map_leaves]. rewrite <- app_assoc. reflexivity.
        * list_eq.
        * len_eq.
        * rewrite Hlen in Hf. cbn [toks_tree length] in Hf. lia.
        * exact Hwf.
        * exact Hs3.
      + (* dict item *)
        rewrite lev_item_dict in Hts. norm_in Hts.
        assert (Hel : length (toks_tree lt kt true (Dict d)) = (length (entries d) + 2)%nat).
        { rewrite toks_dict. len_eq. }
        rewrite Hlen, Hel in Hf. clear Hlen Hel.
        destruct (good_ge_nc (entries d) (L + 1 + 1) (good_entries d)) as [Hge Hncc].
        rewrite wf_dict in Hwc. apply andb_true_iff in Hwc. destruct Hwc as [Hnd_d Hwf_d].
        cbn [P] in Hc.
        do 2 (fuel f Hf).
        assert (Hd : parse_dict_go (S f) (levels_go (L + 1 + 1) (entries d)) 0 [] = Ok (map mkv d)).
        { apply (Hc (L + 1 + 1) [] [] [] (S f)).
          - rewrite app_nil_r. reflexivity.
          - reflexivity.
          - left. reflexivity.
          - left. reflexivity.
          - cbn [length]. lia.
          - exact Hnd_d.
          - exact Hwf_d.
          - exact Hs2. }
        rewrite (pl_open_dict f ts pre (levels_go (L + 1 + 1) (entries d)) (levels_go (L + 1) (items l) ++ [(L, t_rpar)])
                   ti L acc (L + 1) (map mkv d));
          [|exact Hts|exact Hti|lia|exact Hge|exact Hncc|len_eq|exact Hd].
        rewrite map_leaves_dict.
        rewrite (IH L (pre ++ (L + 1, t_lbrace) :: levels_go (L + 1 + 1) (entries d) ++ [(L + 1, t_rbrace)])
                   (Dict (map mkv d) :: acc) _ ts
                   (ti + Z.of_nat (length (levels_go (L + 1 + 1) (entries d))) + 2)).
        * cbn [rev]. rewrite <- app_assoc. reflexivity.
        * list_eq.
        * len_eq.
        * lia.
        * exact Hwf.
        * exact Hs3.
      + (* list item *)
        rewrite lev_item_lst in Hts. norm_in Hts.
        assert (Hel : length (toks_tree lt kt true (Lst l')) = (length (items l') + 2)%nat).
        { rewrite toks_lst. len_eq. }
        rewrite Hlen, Hel in Hf. clear Hlen Hel.
        destruct (good_ge_nc (items l') (L + 1 + 1) (good_items l')) as [Hge Hncc].
        rewrite wf_lst in Hwc.
        cbn [P] in Hc.
        do 2 (fuel f Hf).
        rewrite (pl_open_list f ts pre (levels_go (L + 1 + 1) (items l')) (levels_go (L + 1) (items l) ++ [(L, t_rpar)])
                   ti L acc (L + 1) (map (map_leaves nv) l'));
          [|exact Hts|exact Hti|lia|exact Hge|len_eq| |].
        2:{ intros He. apply (f_equal (@length _)) in He. rewrite levels_go_length in He. cbn [length] in He.
            apply length_zero_iff_nil in He. apply items_nil in He. subst l'. reflexivity. }
        2:{ intros _. apply (Hc (L + 1) (S f)); [reflexivity|lia|exact Hwc|exact Hs2]. }
        rewrite map_leaves_lst.
        rewrite (IH L (pre ++ (L + 1, t_lpar) :: levels_go (L + 1 + 1) (items l') ++ [(L + 1, t_rpar)])
                   (Lst (map (map_leaves nv) l') :: acc) _ ts
                   (ti + Z.of_nat (length (levels_go (L + 1 + 1) (items l'))) + 2)).
        * cbn [rev]. rewrite <- app_assoc. reflexivity.
        * list_eq.
        * len_eq.
        * lia.
        * exact Hwf.
        * exact Hs3.
  Qed.

  Lemma P_all : forall t, P t.
  Proof.
    induction t as [v|kvs IH|l IH] using tree_ind'.
    - exact I.
    - cbn [P]. apply dict_loop. exact IH.
    - cbn [P]. intros L f ts Hts Hf Hwf Hsim.
      fuel f Hf.
      rewrite (pl_lpar f ts 0 L []); [| |lia].
      + rewrite (list_loop l IH L [(L, t_lpar)] [] f ts (0 + 1)).
        * reflexivity.
        * exact Hts.
        * reflexivity.
        * lia.
        * exact Hwf.
        * exact Hsim.
      + rewrite Hts. reflexivity.
  Qed.

  Theorem tok_roundtrip_main kvs :
    wf (Dict kvs) = true -> simple_tree (Dict kvs) = true ->
    parse_tokens (toks_doc lt kt kvs) = Ok (kvs_of (map_leaves nv (Dict kvs))).
  Proof.
    intros Hwf Hsim. rewrite wf_dict in Hwf. apply andb_true_iff in Hwf. destruct Hwf as [Hnd Hwf].
    rewrite map_leaves_dict. cbn [kvs_of].
    unfold parse_tokens, toks_doc, levels. rewrite toks_dict. cbn [app]. rewrite app_nil_r.
    rewrite levels_go_app, (g_net _ (good_entries kvs)).
    change (levels_go (0 + 0) [[]]) with [(0, @nil N)].
    apply (P_all (Dict kvs) 0 [] [(0, [])] []).
    - reflexivity.
    - reflexivity.
    - left. reflexivity.
    - right. exists 0. reflexivity.
    - rewrite app_length, levels_go_length. cbn [length]. lia.
    - exact Hnd.
    - exact Hwf.
    - exact Hsim.
  Qed.
End Main.

End TR.


(* ================================================================================================ *)
(* 11. total token functions that agree with the formatter on simple trees                          *)
(* ================================================================================================ *)

Definition ltS (v : scalar) : str := if simple_leaf v then FS v else [120].
Definition ktS (k : key) : str := if simple_key k then FK k else [120].
Definition nvS (v : scalar) : scalar := if simple_leaf v then norm_scalar v else SStr [120].

Lemma simple_not_struct c (r : list N) : simple_char c = true ->
  is_open (c :: r) = false /\ is_close (c :: r) = false /\ str_eqb (c :: r) t_semi = false.
Proof.
  intros H.
  assert (E1 : (c =? c_lbrace) = false) by tch. assert (E2 : (c =? c_rbrace) = false) by tch.
  assert (E3 : (c =? c_lpar) = false) by tch. assert (E4 : (c =? c_rpar) = false) by tch.
  assert (E5 : (c =? c_lbrk) = false) by tch. assert (E6 : (c =? c_rbrk) = false) by tch.
  assert (E7 : (c =? c_semi) = false) by tch.
  unfold is_open, is_close, t_lbrace, t_rbrace, t_lpar, t_rpar, t_lbrk, t_rbrk, t_semi. cbn [str_eqb].
  rewrite E1, E2, E3, E4, E5, E6, E7. repeat split; reflexivity.
Qed.

Lemma plain_simple (s : list N) : simple_tok s = true -> plain_token s = true.
Proof.
  intros H. destruct (simple_tok_inv s H) as (Hne & Hc & Hr).
  destruct s as [|c r]; [congruence|]. cbn [forallb] in Hc. apply andb_true_iff in Hc. destruct Hc as [Hc _].
  destruct (simple_not_struct c r Hc) as (A1 & A2 & A3).
  unfold no_reserved_word in Hr. apply andb_true_iff in Hr. destruct Hr as [Hr _].
  apply andb_true_iff in Hr. destruct Hr as [Hr _]. apply andb_true_iff in Hr. destruct Hr as [B1 B2].
  unfold plain_token. repeat (apply andb_true_iff; split); try reflexivity.
  - apply negb_true_iff. exact A1.
  - apply negb_true_iff. exact A2.
  - apply negb_true_iff. exact A3.
  - exact B1.
  - exact B2.
Qed.

Lemma parse_norm v : parse_value (FS v) = Ok (norm_scalar v).
Proof.
  unfold norm_scalar. destruct (parse_value (FS v)) as [x|e] eqn:E; [reflexivity|].
  exfalso. exact (ScalarProofs.parse_value_total _ _ E).
Qed.

Lemma HltS : forall v, plain_token (ltS v) = true /\ parse_value (ltS v) = Ok (nvS v).
Proof.
  intros v. unfold ltS, nvS. destruct (simple_leaf v) eqn:E.
  - split; [apply plain_simple; exact E|apply parse_norm].
  - split; reflexivity.
Qed.

Lemma HktpS : forall k, plain_token (ktS k) = true.
Proof.
  intros k. unfold ktS. destruct (simple_key k) eqn:E; [|reflexivity].
  apply plain_simple. exact (proj1 (simple_key_inv k E)).
Qed.

Lemma HkpkS : forall k, simple_key k = true -> parse_key (ktS k) = Ok k.
Proof.
  intros k E. unfold ktS. rewrite E. destruct (simple_key_inv k E) as (_ & _ & H & _). exact H.
Qed.

Lemma toks_agree : forall t, simple_tree t = true -> forall b, toks_tree ltS ktS b t = toks_tree FS FK b t.
Proof.
  induction t as [v|kvs IH|ts IH] using tree_ind'; intros Hs b.
  - cbn [toks_tree]. unfold ltS. cbn [simple_tree] in Hs. rewrite Hs. reflexivity.
  - rewrite !TokProofs.toks_dict. f_equal. f_equal.
    induction IH as [|[k c] kvs Hc _ IHk]; [reflexivity|].
    rewrite simple_dict_cons in Hs. apply andb_true_iff in Hs. destruct Hs as [Hs Hs3].
    apply andb_true_iff in Hs. destruct Hs as [Hs1 Hs2].
    unfold TokProofs.entries. cbn [flat_map]. fold (TokProofs.entries ltS ktS kvs). fold (TokProofs.entries FS FK kvs).
    rewrite (IHk Hs3). f_equal. cbn [snd] in Hc. unfold TokProofs.entry_toks. cbn [fst snd].
    assert (Ek : ktS k = FK k) by (unfold ktS; rewrite Hs1; reflexivity).
    destruct c as [v|d|l].
    + rewrite Ek. unfold ltS. cbn [simple_tree] in Hs2. rewrite Hs2. reflexivity.
    + rewrite Ek, (Hc Hs2 false). reflexivity.
    + rewrite Ek, (Hc Hs2 true). reflexivity.
  - rewrite (TokProofs.toks_lst_b ltS ktS b), (TokProofs.toks_lst_b FS FK b), !TokProofs.toks_lst. f_equal. f_equal.
    induction IH as [|c l Hc _ IHl]; [reflexivity|].
    rewrite simple_lst_cons in Hs. apply andb_true_iff in Hs. destruct Hs as [Hs1 Hs2].
    unfold TokProofs.items. cbn [flat_map]. fold (TokProofs.items ltS ktS l). fold (TokProofs.items FS FK l).
    rewrite (IHl Hs2), (Hc Hs1 true). reflexivity.
Qed.

Lemma leaves_agree : forall t, simple_tree t = true -> map_leaves nvS t = map_leaves norm_scalar t.
Proof.
  induction t as [v|kvs IH|ts IH] using tree_ind'; intros Hs.
  - cbn [map_leaves]. unfold nvS. cbn [simple_tree] in Hs. rewrite Hs. reflexivity.
  - rewrite !TokProofs.map_leaves_dict. f_equal.
    induction IH as [|[k c] kvs Hc _ IHk]; [reflexivity|].
    rewrite simple_dict_cons in Hs. apply andb_true_iff in Hs. destruct Hs as [Hs Hs3].
    apply andb_true_iff in Hs. destruct Hs as [Hs1 Hs2].
    cbn [map]. rewrite (IHk Hs3). unfold TokProofs.mkv at 1 3. cbn [fst snd] in *. rewrite (Hc Hs2). reflexivity.
  - rewrite !TokProofs.map_leaves_lst. f_equal.
    induction IH as [|c l Hc _ IHl]; [reflexivity|].
    rewrite simple_lst_cons in Hs. apply andb_true_iff in Hs. destruct Hs as [Hs1 Hs2].
    cbn [map]. rewrite (IHl Hs2), (Hc Hs1). reflexivity.
Qed.

Lemma parse_tokens_written kvs : wf (Dict kvs) = true -> simple_tree (Dict kvs) = true ->
  parse_tokens (toks_doc FS FK kvs) = Ok (map (TokProofs.mkv norm_scalar) kvs).
Proof.
  intros Hw Hs.
  assert (E : toks_doc FS FK kvs = toks_doc ltS ktS kvs).
  { unfold toks_doc. rewrite (toks_agree (Dict kvs) Hs false). reflexivity. }
  rewrite E, (TR.tok_roundtrip_main ltS ktS nvS HltS HktpS HkpkS kvs Hw Hs).
  rewrite (leaves_agree (Dict kvs) Hs), TokProofs.map_leaves_dict. reflexivity.
Qed.

(* ================================================================================================ *)
(* 12. the clean-up passes                                                                          *)
(* ================================================================================================ *)

Lemma wf_map_leaves f : forall t, wf (map_leaves f t) = wf t.
Proof.
  induction t as [v|kvs IH|ts IH] using tree_ind'.
  - reflexivity.
  - rewrite TokProofs.map_leaves_dict, !TokProofs.wf_dict.
    assert (E : map fst (map (TokProofs.mkv f) kvs) = map fst kvs /\
                forallb (fun kc => wf (snd kc)) (map (TokProofs.mkv f) kvs) = forallb (fun kc => wf (snd kc)) kvs).
    { induction IH as [|[k c] kvs Hc _ [E1 E2]]; [split; reflexivity|].
      cbn [map forallb fst snd TokProofs.mkv]. cbn [snd] in Hc. rewrite E1, E2, Hc. split; reflexivity. }
    destruct E as [E1 E2]. rewrite E1, E2. reflexivity.
  - rewrite TokProofs.map_leaves_lst, !TokProofs.wf_lst.
    induction IH as [|c l Hc _ IHl]; [reflexivity|]. cbn [map forallb]. rewrite Hc, IHl. reflexivity.
Qed.

Lemma clean_kind_nil {V} (veqb : V -> V -> bool) keys : forall data seen,
  clean_kind veqb keys data [] seen = (data, []).
Proof.
  induction keys as [|k keys IH]; intros data seen; [reflexivity|].
  cbn [clean_kind]. destruct (key_id k); cbn [tlookup]; apply IH.
Qed.

Definition bare (s : sdict) : Prop := sd_lc s = [] /\ sd_bc s = [] /\ sd_inc s = [].

Lemma clean_level_bare data s : bare s -> clean_level data s = (data, s).
Proof.
  intros (H1 & H2 & H3). unfold clean_level. rewrite H1, H2, H3, !clean_kind_nil.
  destruct s as [d lc bc inc ex]. cbn [sd_lc sd_bc sd_inc sd_data sd_expr] in *. subst. reflexivity.
Qed.

Lemma clean_tree_bare : forall fuel data s, bare s -> wf (Dict data) = true -> clean_tree fuel data s = (data, s).
Proof.
  induction fuel as [|f IH]; intros data s Hb Hw; [reflexivity|].
  rewrite SDictProofs.clean_tree_S. apply SDictProofs.wf_Dict_iff in Hw. destruct Hw as [Hnd Hw].
  rewrite (clean_level_bare data s Hb). cbn [fst].
  assert (Hgen : forall l, (forall kv, In kv l -> In kv data) ->
                           fold_left (SDictProofs.cstep f) l (data, s) = (data, s)).
  { induction l as [|[k v] l IHl]; intros Hsub; [reflexivity|]. cbn [fold_left].
    assert (Hin : In (k, v) data) by (apply Hsub; left; reflexivity).
    assert (Hc : SDictProofs.cstep f (data, s) (k, v) = (data, s)).
    { unfold SDictProofs.cstep. cbn [fst snd]. destruct v as [x|sub|ts]; try reflexivity.
      rewrite Forall_forall in Hw. pose proof (Hw _ Hin) as Hws. unfold SDictProofs.wfkv in Hws. cbn [snd] in Hws.
      rewrite (IH sub s Hb Hws).
      rewrite SDictProofs.aset_same; [reflexivity|]. apply SDictProofs.alookup_In_nodup; assumption. }
    rewrite Hc. apply IHl. intros kv H'. apply Hsub. right. exact H'. }
  apply Hgen. auto.
Qed.

Lemma sd_clean_bare d : wf (Dict d) = true -> sd_clean (mkSD d [] [] [] []) = mkSD d [] [] [] [].
Proof.
  intros Hw. unfold sd_clean. cbn [sd_data].
  rewrite (clean_tree_bare _ d (mkSD d [] [] [] [])); [reflexivity| |exact Hw].
  repeat split; reflexivity.
Qed.

Lemma adel_absent {V} k (d : list (key * V)) : (forall kc, In kc d -> key_eqb k (fst kc) = false) -> adel k d = d.
Proof.
  induction d as [|[k' v] d IH]; intros H; [reflexivity|]. cbn [adel].
  pose proof (H (k', v) (or_introl eq_refl)) as E. cbn [fst] in E. rewrite E. f_equal.
  apply IH. intros kc Hin. apply H. right. exact Hin.
Qed.

Lemma parser_clean_simple f kvs : simple_tree (Dict kvs) = true ->
  parser_clean (map (TokProofs.mkv f) kvs) = map (TokProofs.mkv f) kvs.
Proof.
  intros Hs. unfold parser_clean.
  assert (G : forall k0, (k0 = KS (of_string "_variables") \/ k0 = KS (of_string "_includes")) ->
              adel k0 (map (TokProofs.mkv f) kvs) = map (TokProofs.mkv f) kvs).
  { intros k0 Hk0. apply adel_absent. intros kc Hin. apply in_map_iff in Hin. destruct Hin as (kc0 & <- & Hin0).
    cbn [TokProofs.mkv fst]. pose proof (simple_dict_keys kvs Hs kc0 Hin0) as Hk.
    destruct (simple_key_inv _ Hk) as (_ & _ & _ & N1 & N2).
    apply SDictProofs.key_eqb_neq. destruct Hk0 as [-> | ->]; intros Heq; [apply N1|apply N2]; symmetry; exact Heq. }
  rewrite (G _ (or_introl eq_refl)). apply G. right. reflexivity.
Qed.

(* ================================================================================================ *)
(* 13. the end-to-end round trip                                                                    *)
(* ================================================================================================ *)

Theorem roundtrip_quote_free : forall kvs dirc count,
  wf (Dict kvs) = true -> simple_tree (Dict kvs) = true ->
  parse_string true dirc count (to_string_plain kvs) =
    Ok (mkParsed (mkSD (kvs_of (map_leaves norm_scalar (Dict kvs))) [] [] [] []) count).
Proof.
  intros kvs dirc count Hw Hs.
  rewrite TokProofs.map_leaves_dict. cbn [kvs_of].
  assert (Hw' : wf (Dict (map (TokProofs.mkv norm_scalar) kvs)) = true).
  { rewrite <- TokProofs.map_leaves_dict, wf_map_leaves. exact Hw. }
  unfold parse_string. cbv zeta. rewrite (lex_written kvs true dirc count Hs).
  cbn [lxd_tokens lxd_count lxd_lc lxd_bc lxd_inc lxd_expr lxd_lit].
  rewrite (parse_tokens_written kvs Hw Hs). cbn [bind].
  rewrite (sd_clean_bare _ Hw'). cbn [sd_data sd_lc sd_bc sd_inc sd_expr].
  unfold insert_string_literals. cbn [fold_left bind].
  rewrite (parser_clean_simple norm_scalar kvs Hs), (sd_clean_bare _ Hw'). reflexivity.
Qed.
Print Assumptions roundtrip_quote_free.
