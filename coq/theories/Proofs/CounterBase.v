(* C08, counter independence, part 1: the renaming of placeholder ids and its algebra.
   The ids of LINECOMMENT / INCLUDE / STRINGLITERAL / EXPRESSION placeholders come from the process-global counter;
   starting the counter at c2 instead of c1 turns the n-th id drawn into (id + (c2 - c1)) mod 10^6: a cyclic shift,
   a bijection of the six-digit ids.  BLOCKCOMMENT ids are numbered from 0 in every parse and do not move. *)
From Coq Require Import String.
From Coq Require Import NArith ZArith Bool Lia ZifyBool ZifyN ZifyNat.
From DictIO Require Import Chars Str Value Scalar KeyPath SDict Lexer MiscSpec CliProofs.
From DictIO Require ScalarProofs SemProofs LayoutProofs.
From Coq Require Import List.
Import ListNotations.
Open Scope N_scope.

(* ================================================================================================ *)
(* 1. the shift of ids                                                                              *)
(* ================================================================================================ *)
Definition shift (d : Z) (i : N) : N :=
  if i <? 1000000 then Z.to_N ((Z.of_N i + d) mod 1000000)%Z else i.

Lemma shift_lt d i : i < 1000000 -> shift d i < 1000000.
Proof.
  intros H. unfold shift. destruct (i <? 1000000) eqn:E; [|lia].
  pose proof (Z.mod_pos_bound (Z.of_N i + d) 1000000 ltac:(lia)). lia.
Qed.

Lemma shift_inv d i : shift (- d) (shift d i) = i.
Proof.
  unfold shift at 2. destruct (i <? 1000000) eqn:E.
  - pose proof (Z.mod_pos_bound (Z.of_N i + d) 1000000 ltac:(lia)) as Hb.
    unfold shift. destruct (Z.to_N ((Z.of_N i + d) mod 1000000) <? 1000000) eqn:E2; [|lia].
    rewrite Z2N.id by lia. rewrite Zplus_mod_idemp_l.
    replace (Z.of_N i + d + - d)%Z with (Z.of_N i) by lia. rewrite Z.mod_small by lia. lia.
  - unfold shift. rewrite E. reflexivity.
Qed.

Lemma shift_inv' d i : shift d (shift (- d) i) = i.
Proof. rewrite <- (Z.opp_involutive d) at 1. apply shift_inv. Qed.

Lemma shift_inj d i j : shift d i = shift d j -> i = j.
Proof. intros H. rewrite <- (shift_inv d i), <- (shift_inv d j), H. reflexivity. Qed.

Lemma shift_eqb d i j : (shift d i =? shift d j) = (i =? j).
Proof.
  destruct (i =? j) eqn:E.
  - apply N.eqb_eq in E. subst j. apply N.eqb_refl.
  - apply N.eqb_neq. intros H. apply shift_inj in H. apply N.eqb_neq in E. contradiction.
Qed.

(* the counter of the second run follows the counter of the first one, shifted *)
Section Counters.
  Variables c1 c2 : Z.
  Hypothesis Hc1 : counter_ok c1.
  Hypothesis Hc2 : counter_ok c2.
  Definition crel (c c' : Z) : Prop := exists n, c = counter_iter n c1 /\ c' = counter_iter n c2.
  Lemma crel_start : crel c1 c2.
  Proof. exists O. split; reflexivity. Qed.
  Lemma crel_next c c' : crel c c' ->
    crel (counter_next c) (counter_next c') /\
    Z.to_N (counter_next c') = shift (c2 - c1) (Z.to_N (counter_next c)).
  Proof.
    intros (n & -> & ->). split; [exists (S n); split; reflexivity|].
    change (counter_next (counter_iter n c2)) with (counter_iter (S n) c2).
    change (counter_next (counter_iter n c1)) with (counter_iter (S n) c1).
    rewrite !counter_closed_form by assumption.
    pose proof (Z.mod_pos_bound (c1 + 1 + Z.of_nat n) 1000000 ltac:(lia)) as Hb.
    unfold shift. destruct (Z.to_N ((c1 + 1 + Z.of_nat n) mod 1000000) <? 1000000) eqn:E; [|lia].
    rewrite Z2N.id by lia. rewrite Zplus_mod_idemp_l. f_equal. f_equal. lia.
  Qed.
End Counters.

(* ================================================================================================ *)
(* 2. small list / string facts                                                                     *)
(* ================================================================================================ *)
Lemma starts_with_app (p s : str) : starts_with p (p ++ s) = true.
Proof. induction p as [|x p IH]; [reflexivity|]. cbn [app starts_with]. rewrite N.eqb_refl. exact IH. Qed.

Lemma starts_with_eq (p s : str) : starts_with p s = true -> s = p ++ drop_n (length p) s.
Proof.
  revert s. induction p as [|x p IH]; intros s H; [reflexivity|].
  destruct s as [|y s]; [discriminate H|]. cbn [starts_with] in H. apply andb_true_iff in H. destruct H as [H1 H2].
  apply N.eqb_eq in H1. subst y. cbn [length drop_n app]. f_equal. exact (IH s H2).
Qed.

Lemma starts_with_mono (p s t : str) : starts_with p s = true -> starts_with p (s ++ t) = true.
Proof.
  revert s. induction p as [|x p IH]; intros s H; [reflexivity|].
  destruct s as [|y s]; [discriminate H|]. cbn [app starts_with] in *. apply andb_true_iff in H. destruct H as [H1 H2].
  rewrite H1. exact (IH s H2).
Qed.

Lemma drop_n_app {A} (p s : list A) : drop_n (length p) (p ++ s) = s.
Proof. induction p as [|x p IH]; [reflexivity|]. exact IH. Qed.

Lemma drop_n_plus {A} n m (s : list A) : drop_n (n + m) s = drop_n m (drop_n n s).
Proof.
  revert s. induction n as [|n IH]; intros s; [reflexivity|].
  destruct s as [|x s]; [destruct m; reflexivity|]. exact (IH s).
Qed.

Lemma drop_n_length {A} n (s : list A) : length (drop_n n s) = (length s - n)%nat.
Proof. revert s. induction n as [|n IH]; intros [|x s]; cbn [drop_n length]; try lia. rewrite IH. lia. Qed.

Lemma take_drop {A} n (s : list A) : take_n n s ++ drop_n n s = s.
Proof. revert s. induction n as [|n IH]; intros [|x s]; cbn [take_n drop_n app]; try reflexivity. rewrite IH. reflexivity. Qed.

Lemma take_n_app {A} (p s : list A) : take_n (length p) (p ++ s) = p.
Proof. induction p as [|x p IH]; [destruct s; reflexivity|]. cbn [length app take_n]. rewrite IH. reflexivity. Qed.

Lemma all_digits_n_spec n (s : str) : all_digits_n n s = true ->
  length (take_n n s) = n /\ forallb is_digit (take_n n s) = true.
Proof.
  revert s. induction n as [|n IH]; intros s H; [destruct s; split; reflexivity|].
  destruct s as [|c s]; [discriminate H|]. cbn [all_digits_n] in H. apply andb_true_iff in H. destruct H as [H1 H2].
  destruct (IH s H2) as [I1 I2]. cbn [take_n length forallb]. rewrite I1, H1, I2. split; reflexivity.
Qed.

Lemma all_digits_n_app (ds r : str) : forallb is_digit ds = true -> all_digits_n (length ds) (ds ++ r) = true.
Proof.
  induction ds as [|c ds IH]; intros H; [reflexivity|]. cbn [forallb] in H. apply andb_true_iff in H.
  cbn [length app all_digits_n]. rewrite (proj1 H). exact (IH (proj2 H)).
Qed.

Lemma all_digits_n_mono n (s t : str) : all_digits_n n s = true -> all_digits_n n (s ++ t) = true.
Proof.
  revert s. induction n as [|n IH]; intros s H; [reflexivity|].
  destruct s as [|c s]; [discriminate H|]. cbn [app all_digits_n] in *. apply andb_true_iff in H.
  rewrite (proj1 H). exact (IH s (proj2 H)).
Qed.

Lemma forallb_digit_Forall (ds : str) : forallb is_digit ds = true <-> Forall (fun c => is_digit c = true) ds.
Proof. rewrite forallb_forall, Forall_forall. reflexivity. Qed.

(* six digit strings and their numbers *)
Lemma dec_to_N_bound (ds : str) : forallb is_digit ds = true -> dec_to_N ds < 10 ^ N.of_nat (length ds).
Proof.
  induction ds as [|x ds IH] using rev_ind; intros H; [cbn; lia|].
  rewrite forallb_app in H. apply andb_true_iff in H. destruct H as [H1 H2]. cbn [forallb] in H2.
  rewrite ScalarProofs.dec_to_N_snoc, app_length. cbn [length]. rewrite Nat.add_1_r, Nat2N.inj_succ, N.pow_succ_r'.
  pose proof (IH H1). unfold is_digit, digit_val in *. lia.
Qed.

Lemma dec_to_N_inj (a b : str) : length a = length b -> forallb is_digit a = true -> forallb is_digit b = true ->
  dec_to_N a = dec_to_N b -> a = b.
Proof.
  revert b. induction a as [|x a IH] using rev_ind; intros b Hl Ha Hb He.
  - destruct b; [reflexivity|discriminate Hl].
  - destruct b as [|y b _] using rev_ind; [rewrite app_length in Hl; cbn in Hl; lia|].
    rewrite !app_length in Hl. cbn [length] in Hl.
    rewrite forallb_app in Ha, Hb. apply andb_true_iff in Ha, Hb. destruct Ha as [Ha1 Ha2], Hb as [Hb1 Hb2].
    cbn [forallb] in Ha2, Hb2. rewrite !ScalarProofs.dec_to_N_snoc in He.
    assert (dec_to_N a = dec_to_N b /\ x = y) as [E1 E2] by (unfold is_digit, digit_val in *; lia).
    subst y. f_equal. apply IH; [lia|assumption|assumption|exact E1].
Qed.

Lemma dec6_bound (ds : str) : length ds = 6%nat -> forallb is_digit ds = true -> dec_to_N ds < 1000000.
Proof.
  intros Hl Hd. pose proof (dec_to_N_bound ds Hd) as Hb.
  replace (N.of_nat (length ds)) with 6 in Hb by lia. exact Hb.
Qed.

Lemma pad6_dec (ds : str) : length ds = 6%nat -> forallb is_digit ds = true -> pad6 (dec_to_N ds) = ds.
Proof.
  intros Hl Hd. pose proof (dec6_bound ds Hl Hd) as Hb.
  destruct (SemProofs.pad6_props _ Hb) as [P1 P2].
  apply dec_to_N_inj; [lia|apply forallb_digit_Forall; exact P1|exact Hd|apply LayoutProofs.dec_to_N_pad6].
Qed.

Lemma pad6_len i : i < 1000000 -> length (pad6 i) = 6%nat.
Proof. intros H. exact (proj2 (SemProofs.pad6_props i H)). Qed.
Lemma pad6_dig i : i < 1000000 -> forallb is_digit (pad6 i) = true.
Proof. intros H. apply forallb_digit_Forall. exact (proj1 (SemProofs.pad6_props i H)). Qed.

(* ================================================================================================ *)
(* 3. the renamed placeholder words and the pattern test                                            *)
(* ================================================================================================ *)
Definition shifted_words : list str := [w_LINECOMMENT; w_INCLUDE; w_STRINGLITERAL; w_EXPRESSION].
Definition all_words : list str := w_BLOCKCOMMENT :: shifted_words.
Definition isAN (c : cp) : bool := is_upper c || is_digit c.

Definition ph_test (s w : str) : bool := starts_with w s && all_digits_n 6 (drop_n (length w) s).
Definition ph_word (s : str) : option str := find (ph_test s) shifted_words.

Lemma all_words_upper w : In w all_words -> forallb is_upper w = true /\ w <> [].
Proof. intros H. repeat (destruct H as [<-|H]; [split; [reflexivity|discriminate]|]). destruct H. Qed.
Lemma shifted_all w : In w shifted_words -> In w all_words.
Proof. intros H. right. exact H. Qed.

Lemma ph_test_form s w : ph_test s w = true ->
  exists ds r, s = w ++ ds ++ r /\ length ds = 6%nat /\ forallb is_digit ds = true.
Proof.
  unfold ph_test. intros H. apply andb_true_iff in H. destruct H as [H1 H2].
  apply starts_with_eq in H1. destruct (all_digits_n_spec _ _ H2) as [L D].
  exists (take_n 6 (drop_n (length w) s)), (drop_n 6 (drop_n (length w) s)).
  rewrite take_drop. repeat split; assumption.
Qed.

Lemma ph_test_intro (w ds r : list N) : length ds = 6%nat -> forallb is_digit ds = true -> ph_test (w ++ ds ++ r) w = true.
Proof.
  intros L D. unfold ph_test. rewrite starts_with_app, drop_n_app. assert (H : all_digits_n 6 (ds ++ r) = true) by (rewrite <- L; exact (all_digits_n_app ds r D)). rewrite H. reflexivity.
Qed.

Lemma ph_test_mono s t w : ph_test s w = true -> ph_test (s ++ t) w = true.
Proof.
  intros H. destruct (ph_test_form s w H) as (ds & r & -> & L & D). rewrite <- !app_assoc. apply ph_test_intro; assumption.
Qed.

Lemma ph_word_some s w : ph_word s = Some w ->
  In w shifted_words /\ exists ds r, s = w ++ ds ++ r /\ length ds = 6%nat /\ forallb is_digit ds = true.
Proof. unfold ph_word. intros H. apply find_some in H. destruct H as [H1 H2]. split; [exact H1|exact (ph_test_form s w H2)]. Qed.

Lemma ph_test_head c s x w : ph_test (c :: s) (x :: w) = true -> c = x.
Proof. unfold ph_test. cbn [starts_with]. intros H. apply andb_true_iff in H. destruct H as [H _]. apply andb_true_iff in H. destruct H as [H _]. apply N.eqb_eq in H. symmetry. exact H. Qed.

Lemma ph_word_intro (w ds r : list N) : In w shifted_words -> length ds = 6%nat -> forallb is_digit ds = true ->
  ph_word (w ++ ds ++ r) = Some w.
Proof.
  intros Hin L D. pose proof (ph_test_intro w ds r L D) as Ht. unfold ph_word.
  destruct (find (ph_test (w ++ ds ++ r)) shifted_words) as [w'|] eqn:E.
  - apply find_some in E. destruct E as [E1 E2]. f_equal.
    (* the four words start with different letters *)
    unfold shifted_words in Hin, E1. cbn [In] in Hin, E1.
    repeat (destruct Hin as [<-|Hin]; [
      repeat (destruct E1 as [<-|E1]; [first [reflexivity | (apply ph_test_head in E2; discriminate E2)]|]); destruct E1 |]).
    destruct Hin.
  - exfalso. pose proof (find_none _ _ E w Hin) as Hn. exact (eq_true_false_abs _ Ht Hn).
Qed.

Lemma ph_word_none_test s w : ph_word s = None -> In w shifted_words -> ph_test s w = false.
Proof. unfold ph_word. intros H Hin. exact (find_none _ _ H w Hin). Qed.

Lemma ph_word_ext s t : (forall w, In w shifted_words -> ph_test s w = ph_test t w) -> ph_word s = ph_word t.
Proof.
  intros H. unfold ph_word. induction shifted_words as [|w l IH]; [reflexivity|]. cbn [find].
  rewrite (H w (or_introl eq_refl)). rewrite IH; [reflexivity|]. intros w' Hin. apply H. right. exact Hin.
Qed.

Lemma ph_word_not_upper c s : is_upper c = false -> ph_word (c :: s) = None.
Proof.
  intros H. unfold ph_word. destruct (find (ph_test (c :: s)) shifted_words) as [w|] eqn:E; [|reflexivity].
  apply find_some in E. destruct E as [E1 E2]. destruct (ph_test_form _ _ E2) as (ds & r & Es & _).
  destruct (all_words_upper w (shifted_all w E1)) as [U Hne]. destruct w as [|x w]; [congruence|].
  cbn [app] in Es. injection Es as -> _. cbn [forallb] in U. apply andb_true_iff in U. rewrite (proj1 U) in H. discriminate H.
Qed.

(* ================================================================================================ *)
(* 4. rename_str                                                                                    *)
(* ================================================================================================ *)
Fixpoint rn (fuel : nat) (d : Z) (s : str) : str :=
  match fuel with
  | O => s
  | S f =>
      match s with
      | [] => []
      | c :: s' =>
          match ph_word s with
          | Some w => w ++ pad6 (shift d (dec_to_N (take_n 6 (drop_n (length w) s))))
                        ++ rn f d (drop_n (length w + 6) s)
          | None => c :: rn f d s'
          end
      end
  end.
(* every occurrence of LINECOMMENT / INCLUDE / STRINGLITERAL / EXPRESSION + six digits gets its id shifted by d *)
Definition rename_str (d : Z) (s : str) : str := rn (length s) d s.

Lemma rn_fuel d : forall f1 f2 s, (length s <= f1)%nat -> (length s <= f2)%nat -> rn f1 d s = rn f2 d s.
Proof.
  induction f1 as [|f1 IH]; intros f2 s H1 H2.
  - destruct s; [|cbn in H1; lia]. destruct f2; reflexivity.
  - destruct f2 as [|f2]; [destruct s; [reflexivity|cbn in H2; lia]|].
    destruct s as [|c s]; [reflexivity|]. cbn [rn]. cbn [length] in H1, H2.
    destruct (ph_word (c :: s)) as [w|] eqn:E.
    + f_equal. f_equal. apply IH; rewrite drop_n_length; cbn [length]; lia.
    + f_equal. apply IH; lia.
Qed.

Lemma rename_nil d : rename_str d [] = [].
Proof. reflexivity. Qed.

Lemma rename_char d (c : N) (s : list N) : ph_word (c :: s) = None -> rename_str d (c :: s) = c :: rename_str d s.
Proof. intros H. unfold rename_str. cbn [length rn]. rewrite H. reflexivity. Qed.

Lemma rename_ph d (w ds r : list N) : In w shifted_words -> length ds = 6%nat -> forallb is_digit ds = true ->
  rename_str d (w ++ ds ++ r) = w ++ pad6 (shift d (dec_to_N ds)) ++ rename_str d r.
Proof.
  intros Hin L D. unfold rename_str.
  destruct (all_words_upper w (shifted_all w Hin)) as [_ Hne].
  assert (T : take_n 6 (ds ++ r) = ds) by (rewrite <- L; apply take_n_app).
  assert (Dr : drop_n 6 (ds ++ r) = r) by (rewrite <- L; apply drop_n_app).
  pose proof (ph_word_intro w ds r Hin L D) as Hw.
  assert (Hlen : length (w ++ ds ++ r) = (length w + 6 + length r)%nat) by (rewrite !app_length; lia).
  destruct (w ++ ds ++ r) as [|c s0] eqn:Es.
  { destruct w; [congruence|discriminate Es]. }
  cbn [length rn]. rewrite Hw. rewrite <- Es. rewrite drop_n_plus, !drop_n_app. unfold cp in *. rewrite T, Dr.
  f_equal. f_equal. apply rn_fuel; [cbn [length] in Hlen; lia|lia].
Qed.

(* induction along the renaming *)
Lemma str_ph_ind (P : list N -> Prop) :
  P [] ->
  (forall (c : N) (s : list N), ph_word (c :: s) = None -> P s -> P (c :: s)) ->
  (forall (w ds r : list N), In w shifted_words -> length ds = 6%nat -> forallb is_digit ds = true -> P r -> P (w ++ ds ++ r)) ->
  forall s, P s.
Proof.
  intros H0 Hc Hp s. remember (length s) as n eqn:En. revert s En.
  induction n as [n IH] using lt_wf_ind. intros s En.
  destruct s as [|c s]; [exact H0|].
  destruct (ph_word (c :: s)) as [w|] eqn:E.
  - destruct (ph_word_some _ _ E) as (Hin & ds & r & Es & L & D). rewrite Es. apply Hp; try assumption.
    apply (IH (length r)); [|reflexivity]. rewrite En, Es, !app_length. destruct (all_words_upper w (shifted_all w Hin)) as [_ Hne].
    destruct w; [congruence|cbn [length]; lia].
  - apply Hc; [exact E|]. apply (IH (length s)); [rewrite En; cbn [length]; lia|reflexivity].
Qed.

(* ---- digit-for-digit similarity ------------------------------------------------------------------ *)
Definition dsim1 (a b : cp) : Prop := a = b \/ (is_digit a = true /\ is_digit b = true).
Definition dsim (s t : str) : Prop := Forall2 dsim1 s t.

Lemma dsim_refl s : dsim s s.
Proof. induction s; constructor; [left; reflexivity|assumption]. Qed.
Lemma dsim_sym s t : dsim s t -> dsim t s.
Proof. induction 1 as [|a b s t [->|[H1 H2]] _ IH]; constructor; try assumption; [left; reflexivity|right; split; assumption]. Qed.
Lemma dsim_length s t : dsim s t -> length s = length t.
Proof. induction 1; [reflexivity|cbn [length]; congruence]. Qed.
Lemma dsim_digits (a b : str) : length a = length b -> forallb is_digit a = true -> forallb is_digit b = true -> dsim a b.
Proof.
  revert b. induction a as [|x a IH]; intros [|y b] L Ha Hb; try discriminate L; [constructor|].
  cbn [forallb] in Ha, Hb. apply andb_true_iff in Ha, Hb. constructor; [right; split; tauto|]. apply IH; [cbn in L; lia|tauto|tauto].
Qed.
Lemma dsim_app a b a' b' : dsim a a' -> dsim b b' -> dsim (a ++ b) (a' ++ b').
Proof. apply Forall2_app. Qed.

Lemma dsim_rename d s : dsim s (rename_str d s).
Proof.
  induction s as [|c s Hn IH|w ds r Hin L D IH] using str_ph_ind.
  - constructor.
  - rewrite rename_char by exact Hn. constructor; [left; reflexivity|exact IH].
  - rewrite rename_ph by assumption. apply dsim_app; [apply dsim_refl|]. apply dsim_app; [|exact IH].
    assert (Hb : shift d (dec_to_N ds) < 1000000).
    { apply shift_lt. exact (dec6_bound ds L D). }
    apply dsim_digits; [rewrite pad6_len by exact Hb; exact L|exact D|apply pad6_dig; exact Hb].
Qed.

Lemma rename_length d s : length (rename_str d s) = length s.
Proof. symmetry. apply dsim_length. apply dsim_rename. Qed.

(* class-based tests do not see the renaming *)
Lemma dsim1_class (p : cp -> bool) : (forall a b, is_digit a = true -> is_digit b = true -> p a = p b) ->
  forall a b, dsim1 a b -> p a = p b.
Proof. intros H a b [->|[H1 H2]]; [reflexivity|apply H; assumption]. Qed.

Lemma dsim1_eqb k a b : is_digit k = false -> dsim1 a b -> (k =? a) = (k =? b).
Proof.
  intros Hk [->|[H1 H2]]; [reflexivity|].
  destruct (k =? a) eqn:E1; [apply N.eqb_eq in E1; subst a; congruence|].
  destruct (k =? b) eqn:E2; [apply N.eqb_eq in E2; subst b; congruence|reflexivity].
Qed.
Lemma dsim1_eqb' k a b : is_digit k = false -> dsim1 a b -> (a =? k) = (b =? k).
Proof. intros Hk H. rewrite (N.eqb_sym a), (N.eqb_sym b). apply dsim1_eqb; assumption. Qed.
Lemma dsim1_digit a b : dsim1 a b -> is_digit a = is_digit b.
Proof. intros [->|[H1 H2]]; congruence. Qed.

Lemma starts_with_dsim (p s t : str) : forallb (fun c => negb (is_digit c)) p = true -> dsim s t ->
  starts_with p s = starts_with p t.
Proof.
  intros Hp H. revert p Hp. induction H as [|a b s t Hab _ IH]; intros p Hp; [reflexivity|].
  destruct p as [|x p]; [reflexivity|]. cbn [forallb] in Hp. apply andb_true_iff in Hp. destruct Hp as [Hx Hp].
  cbn [starts_with]. rewrite (dsim1_eqb x a b) by (try exact Hab; apply negb_true_iff; exact Hx). rewrite (IH p Hp). reflexivity.
Qed.

Lemma dsim_drop n s t : dsim s t -> dsim (drop_n n s) (drop_n n t).
Proof. intros H. revert n. induction H as [|a b s t Hab H IH]; intros [|n]; cbn [drop_n]; try constructor; try assumption. apply IH. Qed.

Lemma all_digits_n_dsim n s t : dsim s t -> all_digits_n n s = all_digits_n n t.
Proof.
  intros H. revert n. induction H as [|a b s t Hab _ IH]; intros [|n]; try reflexivity.
  cbn [all_digits_n]. rewrite (dsim1_digit a b Hab), (IH n). reflexivity.
Qed.

Lemma upper_nodigit (w : str) : forallb is_upper w = true -> forallb (fun c => negb (is_digit c)) w = true.
Proof.
  intros H. rewrite forallb_forall in *. intros c Hc. specialize (H c Hc). unfold is_upper, is_digit in *. lia.
Qed.

Lemma ph_word_dsim s t : dsim s t -> ph_word s = ph_word t.
Proof.
  intros H. apply ph_word_ext. intros w Hin. unfold ph_test.
  destruct (all_words_upper w (shifted_all w Hin)) as [U _].
  rewrite (starts_with_dsim w s t (upper_nodigit w U) H).
  rewrite (all_digits_n_dsim 6 _ _ (dsim_drop (length w) s t H)). reflexivity.
Qed.

(* ---- the renaming is a bijection ------------------------------------------------------------------ *)
Lemma rename_inv d s : rename_str (- d) (rename_str d s) = s.
Proof.
  induction s as [|c s Hn IH|w ds r Hin L D IH] using str_ph_ind.
  - reflexivity.
  - rewrite (rename_char d) by exact Hn. rewrite rename_char; [rewrite IH; reflexivity|].
    rewrite <- Hn. symmetry. apply ph_word_dsim. constructor; [left; reflexivity|apply dsim_rename].
  - rewrite (rename_ph d) by assumption.
    assert (Hb : shift d (dec_to_N ds) < 1000000).
    { apply shift_lt. exact (dec6_bound ds L D). }
    rewrite rename_ph; [|exact Hin|apply pad6_len; exact Hb|apply pad6_dig; exact Hb].
    rewrite LayoutProofs.dec_to_N_pad6, shift_inv, IH, pad6_dec by assumption. reflexivity.
Qed.

Lemma rename_inj d s t : rename_str d s = rename_str d t -> s = t.
Proof. intros H. rewrite <- (rename_inv d s), <- (rename_inv d t), H. reflexivity. Qed.

Lemma str_eqb_refl (s : str) : str_eqb s s = true.
Proof. induction s as [|c s IH]; [reflexivity|]. cbn [str_eqb]. rewrite N.eqb_refl. exact IH. Qed.
Lemma str_eqb_true (s t : str) : str_eqb s t = true -> s = t.
Proof.
  revert t. induction s as [|c s IH]; intros [|x t] H; try discriminate H; [reflexivity|].
  cbn [str_eqb] in H. apply andb_true_iff in H. destruct H as [H1 H2]. apply N.eqb_eq in H1. subst x. f_equal. exact (IH t H2).
Qed.
Lemma rename_eqb d s t : str_eqb (rename_str d s) (rename_str d t) = str_eqb s t.
Proof.
  destruct (str_eqb s t) eqn:E.
  - apply str_eqb_true in E. subst t. apply str_eqb_refl.
  - destruct (str_eqb (rename_str d s) (rename_str d t)) eqn:E2; [|reflexivity].
    apply str_eqb_true in E2. apply rename_inj in E2. subst t. rewrite str_eqb_refl in E. discriminate E.
Qed.

(* ================================================================================================ *)
(* 5. cutting a string where no pattern straddles the cut                                           *)
(* ================================================================================================ *)
Definition nostr (a b : str) : Prop := forall a1 a2, a = a1 ++ a2 -> a2 <> [] -> ph_word (a2 ++ b) = ph_word a2.

Lemma rename_app d (a b : list N) : nostr a b -> rename_str d (a ++ b) = rename_str d a ++ rename_str d b.
Proof.
  induction a as [|c s Hn IH|w ds r Hin L D IH] using str_ph_ind; intros H.
  - reflexivity.
  - assert (Hn' : ph_word (c :: s ++ b) = None).
    { rewrite <- Hn. apply (H [] (c :: s) eq_refl). discriminate. }
    cbn [app]. rewrite rename_char by exact Hn'. rewrite rename_char by exact Hn. cbn [app]. f_equal. apply IH.
    intros a1 a2 E Hne. apply (H (c :: a1) a2); [rewrite E; reflexivity|exact Hne].
  - rewrite <- !app_assoc. rewrite !rename_ph by assumption. rewrite <- !app_assoc. f_equal. f_equal. apply IH.
    intros a1 a2 E Hne. apply (H (w ++ ds ++ a1) a2); [rewrite E, <- !app_assoc; reflexivity|exact Hne].
Qed.

Lemma ph_word_mono s t w : ph_word s = Some w -> ph_word (s ++ t) = Some w.
Proof.
  intros H. destruct (ph_word_some _ _ H) as (Hin & ds & r & -> & L & D). rewrite <- !app_assoc. apply ph_word_intro; assumption.
Qed.

Lemma ph_test_split a2 b w : ph_test (a2 ++ b) w = true ->
  ph_test a2 w = true \/
  exists ds r e, length ds = 6%nat /\ forallb is_digit ds = true /\ e <> [] /\ w ++ ds = a2 ++ e /\ b = e ++ r.
Proof.
  intros H. destruct (ph_test_form _ _ H) as (ds & r & E & L & D).
  rewrite app_assoc in E. apply app_eq_app in E. destruct E as [l [[E1 E2]|[E1 E2]]].
  - left. rewrite E1, <- app_assoc. apply ph_test_intro; assumption.
  - destruct l as [|x l].
    + left. rewrite app_nil_r in E1. rewrite <- E1. rewrite <- (app_nil_r ds). apply ph_test_intro; assumption.
    + right. exists ds, r, (x :: l). repeat split; try assumption. discriminate.
Qed.

Lemma nostr_from a b :
  (forall a1 a2 w ds e r, a = a1 ++ a2 -> a2 <> [] -> In w shifted_words -> length ds = 6%nat -> forallb is_digit ds = true ->
     e <> [] -> w ++ ds = a2 ++ e -> b = e ++ r -> False) -> nostr a b.
Proof.
  intros H a1 a2 E Hne. apply ph_word_ext. intros w Hin.
  destruct (ph_test a2 w) eqn:E2; [apply ph_test_mono; exact E2|].
  destruct (ph_test (a2 ++ b) w) eqn:E3; [|reflexivity].
  destruct (ph_test_split _ _ _ E3) as [E4|(ds & r & e & L & D & He & E5 & E6)]; [congruence|].
  exfalso. exact (H a1 a2 w ds e r E Hne Hin L D He E5 E6).
Qed.

Lemma nostr_nil a : nostr a [].
Proof. intros a1 a2 _ _. rewrite app_nil_r. reflexivity. Qed.

Lemma word_digits_AN (w ds : list N) : In w shifted_words -> forallb is_digit ds = true -> forallb isAN (w ++ ds) = true.
Proof.
  intros Hin D. destruct (all_words_upper w (shifted_all w Hin)) as [U _]. rewrite forallb_app. apply andb_true_iff. split.
  - rewrite forallb_forall in *. intros c Hc. unfold isAN. rewrite (U c Hc). reflexivity.
  - rewrite forallb_forall in *. intros c Hc. unfold isAN. rewrite (D c Hc). apply orb_true_r.
Qed.

(* the second part starts with a character that is neither an upper case letter nor a digit *)
Lemma nostr_r a c b : isAN c = false -> nostr a (c :: b).
Proof.
  intros Hc. apply nostr_from. intros a1 a2 w ds e r _ _ Hin L D He E1 E2.
  destruct e as [|x e]; [congruence|]. cbn [app] in E2. injection E2 as <- _.
  pose proof (word_digits_AN w ds Hin D) as HA. rewrite E1, forallb_app in HA. apply andb_true_iff in HA.
  destruct HA as [_ HA]. cbn [forallb] in HA. rewrite Hc in HA. discriminate HA.
Qed.

(* the first part ends with such a character *)
Lemma nostr_l a c b : isAN c = false -> nostr (a ++ [c]) b.
Proof.
  intros Hc. apply nostr_from. intros a1 a2 w ds e r E Hne Hin L D He E1 E2.
  destruct a2 as [|y a2 _] using rev_ind; [congruence|]. rewrite app_assoc in E. apply app_inj_tail in E. destruct E as [_ <-].
  pose proof (word_digits_AN w ds Hin D) as HA. rewrite E1, <- app_assoc, !forallb_app in HA.
  apply andb_true_iff in HA. destruct HA as [_ HA]. apply andb_true_iff in HA. destruct HA as [HA _].
  cbn [forallb] in HA. rewrite Hc in HA. discriminate HA.
Qed.

(* no placeholder word is a proper suffix of a renamed one *)
Lemma word_suffix_check :
  forallb (fun w => forallb (fun W => negb (str_eqb (drop_n (length w - length W) w) W) || Nat.leb (length w) (length W))
                            all_words) shifted_words = true.
Proof. vm_compute. reflexivity. Qed.

Lemma word_not_suffix w W (a2 : str) : In w shifted_words -> In W all_words -> a2 <> [] -> w = a2 ++ W -> False.
Proof.
  intros Hw HW Hne E. pose proof word_suffix_check as H. rewrite forallb_forall in H. specialize (H w Hw).
  rewrite forallb_forall in H. specialize (H W HW). apply orb_true_iff in H.
  assert (Hl : length w = (length a2 + length W)%nat) by (rewrite E, app_length; reflexivity).
  destruct H as [H|H].
  - replace (length w - length W)%nat with (length a2) in H by lia. rewrite E, drop_n_app, str_eqb_refl in H. discriminate H.
  - apply Nat.leb_le in H. destruct a2; [congruence|cbn [length] in Hl; lia].
Qed.

Lemma upper_not_digit c : is_upper c = true -> is_digit c = true -> False.
Proof. unfold is_upper, is_digit. lia. Qed.

(* the second part starts with a placeholder (any of the five words) *)
Lemma nostr_ph a W (ds0 : str) y : In W all_words -> length ds0 = 6%nat -> forallb is_digit ds0 = true -> nostr a (W ++ ds0 ++ y).
Proof.
  intros HW L0 D0. apply nostr_from. intros a1 a2 w ds e r _ Hne Hin L D He E1 E2.
  destruct (all_words_upper w (shifted_all w Hin)) as [Uw _]. destruct (all_words_upper W HW) as [UW HWne].
  rewrite forallb_forall in Uw, UW, D, D0.
  apply app_eq_app in E1. destruct E1 as [l [[E1 E3]|[E1 E3]]].
  - (* w = a2 ++ l, e = l ++ ds *)
    rewrite E3, <- app_assoc in E2. apply app_eq_app in E2. destruct E2 as [m [[E4 E5]|[E4 E5]]].
    + (* W = l ++ m, ds ++ r = m ++ ds0 ++ y *)
      destruct m as [|x m].
      * rewrite app_nil_r in E4. subst l. exact (word_not_suffix w W a2 Hin HW Hne E1).
      * destruct ds as [|x' ds]; [discriminate L|]. cbn [app] in E5. injection E5 as -> _.
        apply (upper_not_digit x); [apply UW; rewrite E4; apply in_or_app; right; left; reflexivity|apply D; left; reflexivity].
    + (* l = W ++ m, ds0 ++ y = m ++ ds ++ r *)
      destruct m as [|x m].
      * rewrite app_nil_r in E4. subst l. exact (word_not_suffix w W a2 Hin HW Hne E1).
      * destruct ds0 as [|x' ds0]; [discriminate L0|]. cbn [app] in E5. injection E5 as -> _.
        apply (upper_not_digit x); [apply Uw; rewrite E1, E4; apply in_or_app; right; apply in_or_app; right; left; reflexivity
                                   |apply D0; left; reflexivity].
  - (* a2 = w ++ l, ds = l ++ e *)
    destruct e as [|x e]; [congruence|]. destruct W as [|x' W]; [congruence|]. cbn [app] in E2. injection E2 as -> _.
    apply (upper_not_digit x); [apply UW; left; reflexivity|apply D; rewrite E3; apply in_or_app; right; left; reflexivity].
Qed.

(* ---- strings the renaming leaves alone ------------------------------------------------------------ *)
Fixpoint cleanb (s : str) : bool :=
  match s with
  | [] => true
  | _ :: s' => match ph_word s with None => cleanb s' | Some _ => false end
  end.

Lemma rename_clean d s : cleanb s = true -> rename_str d s = s.
Proof.
  induction s as [|c s IH]; intros H; [reflexivity|]. cbn [cleanb] in H.
  destruct (ph_word (c :: s)) eqn:E; [discriminate H|]. rewrite rename_char by exact E. rewrite IH by exact H. reflexivity.
Qed.

Lemma cleanb_app_inv a b : cleanb (a ++ b) = true -> cleanb a = true /\ cleanb b = true.
Proof.
  induction a as [|c a IH]; intros H; [split; [reflexivity|exact H]|].
  cbn [app cleanb] in *. destruct (ph_word (c :: a ++ b)) eqn:E; [discriminate H|].
  destruct (ph_word (c :: a)) eqn:E2.
  - apply (ph_word_mono _ b) in E2. cbn [app] in E2. congruence.
  - exact (IH H).
Qed.

Lemma cleanb_concat ls : cleanb (concat ls) = true -> Forall (fun l => cleanb l = true) ls.
Proof.
  induction ls as [|l ls IH]; intros H; [constructor|]. cbn [concat] in H. apply cleanb_app_inv in H. destruct H as [H1 H2].
  constructor; [exact H1|exact (IH H2)].
Qed.

Lemma cleanb_noupper s : forallb (fun c => negb (is_upper c)) s = true -> cleanb s = true.
Proof.
  induction s as [|c s IH]; intros H; [reflexivity|]. cbn [forallb] in H. apply andb_true_iff in H. destruct H as [H1 H2].
  cbn [cleanb]. rewrite ph_word_not_upper by (apply negb_true_iff; exact H1). exact (IH H2).
Qed.

Lemma cleanb_nodigit s : forallb (fun c => negb (is_digit c)) s = true -> cleanb s = true.
Proof.
  induction s as [|c s IH]; intros H; [reflexivity|]. cbn [cleanb]. pose proof H as H0. cbn [forallb] in H. apply andb_true_iff in H.
  destruct (ph_word (c :: s)) as [w|] eqn:E; [|exact (IH (proj2 H))].
  exfalso. destruct (ph_word_some _ _ E) as (_ & ds & r & Es & L & D). rewrite Es, !forallb_app in H0.
  apply andb_true_iff in H0. destruct H0 as [_ H0]. apply andb_true_iff in H0. destruct H0 as [H0 _].
  destruct ds as [|x ds]; [discriminate L|]. cbn [forallb] in H0, D. apply andb_true_iff in H0, D.
  destruct (is_digit x); [destruct H0 as [H0 _]; discriminate H0|destruct D as [D _]; discriminate D].
Qed.

(* digits in front are skipped *)
Lemma rename_digits d (u t : list N) : forallb is_digit u = true -> rename_str d (u ++ t) = u ++ rename_str d t.
Proof.
  induction u as [|c u IH]; intros H; [reflexivity|]. cbn [forallb] in H. apply andb_true_iff in H. destruct H as [H1 H2].
  cbn [app]. rewrite rename_char; [rewrite IH by exact H2; reflexivity|].
  apply ph_word_not_upper. unfold is_upper, is_digit in *. lia.
Qed.

(* ---- placeholders ------------------------------------------------------------------------------- *)
Lemma rename_placeholder d (w : list N) i (y : list N) : In w shifted_words -> i < 1000000 ->
  rename_str d (placeholder w i ++ y) = placeholder w (shift d i) ++ rename_str d y.
Proof.
  intros Hin Hi. unfold placeholder. rewrite <- !app_assoc.
  rewrite rename_ph; [|exact Hin|apply pad6_len; exact Hi|apply pad6_dig; exact Hi].
  rewrite LayoutProofs.dec_to_N_pad6. reflexivity.
Qed.

Lemma ph_word_heads c c2 s w : ph_word (c :: c2 :: s) = Some w ->
  (c = 76 /\ c2 = 73) \/ (c = 73 /\ c2 = 78) \/ (c = 83 /\ c2 = 84) \/ (c = 69 /\ c2 = 88).
Proof.
  intros H. destruct (ph_word_some _ _ H) as (Hin & ds & r & E & _).
  unfold shifted_words in Hin. cbn [In] in Hin.
  destruct Hin as [<-|[<-|[<-|[<-|[]]]]]; cbn in E; injection E as -> -> _; tauto.
Qed.

Lemma rename_block d i y : i < 1000000 ->
  rename_str d (placeholder w_BLOCKCOMMENT i ++ y) = placeholder w_BLOCKCOMMENT i ++ rename_str d y.
Proof.
  intros Hi. unfold placeholder. rewrite <- app_assoc.
  change w_BLOCKCOMMENT with [66; 76; 79; 67; 75; 67; 79; 77; 77; 69; 78; 84]. cbn [app].
  assert (Hp : forall c c2 s, ((c =? 76) && (c2 =? 73)) || ((c =? 73) && (c2 =? 78)) || ((c =? 83) && (c2 =? 84))
                              || ((c =? 69) && (c2 =? 88)) = false -> ph_word (c :: c2 :: s) = None).
  { intros c c2 s H. destruct (ph_word (c :: c2 :: s)) as [w|] eqn:E; [|reflexivity].
    apply ph_word_heads in E. lia. }
  do 11 (rewrite rename_char by (apply Hp; reflexivity); f_equal).
  destruct (pad6 i) as [|x p] eqn:Ep; [pose proof (pad6_len i Hi) as Hl; rewrite Ep in Hl; discriminate Hl|].
  cbn [app]. rewrite rename_char by (apply Hp; reflexivity). f_equal.
  change (x :: p ++ rename_str d y) with ((x :: p) ++ rename_str d y). change (x :: p ++ y) with ((x :: p) ++ y).
  apply rename_digits. rewrite <- Ep. apply pad6_dig. exact Hi.
Qed.

(* inserting a placeholder never creates a pattern with what precedes it *)
Lemma rename_insert d (x W : list N) i (y : list N) : In W all_words -> i < 1000000 ->
  rename_str d (x ++ placeholder W i ++ y) = rename_str d x ++ rename_str d (placeholder W i ++ y).
Proof.
  intros HW Hi. apply rename_app. unfold placeholder. rewrite <- app_assoc.
  apply nostr_ph; [exact HW|apply pad6_len; exact Hi|apply pad6_dig; exact Hi].
Qed.

Lemma placeholder_clean_word d W i : In W all_words -> i < 1000000 ->
  rename_str d (placeholder W i) = placeholder W (if str_eqb W w_BLOCKCOMMENT then i else shift d i).
Proof.
  intros HW Hi. rewrite <- (app_nil_r (placeholder W i)). destruct HW as [<-|HW].
  - rewrite rename_block by exact Hi. rewrite str_eqb_refl, rename_nil, !app_nil_r. reflexivity.
  - rewrite rename_placeholder by assumption. rewrite rename_nil, !app_nil_r.
    replace (str_eqb W w_BLOCKCOMMENT) with false; [reflexivity|].
    unfold shifted_words in HW. cbn [In] in HW. destruct HW as [<-|[<-|[<-|[<-|[]]]]]; reflexivity.
Qed.

(* ---- placeholders with any id (BLOCKCOMMENT ids are not bounded by the counter) ------------------- *)
Lemma pad6_digits_all i : forallb is_digit (pad6 i) = true.
Proof.
  unfold pad6. rewrite forallb_app. apply andb_true_iff. split.
  - apply forallb_forall. intros x Hx. apply repeat_spec in Hx. subst x. reflexivity.
  - apply forallb_digit_Forall. exact (proj1 (proj1 (ScalarProofs.N_to_dec_spec i))).
Qed.

Lemma forallb_take_drop {A} (p : A -> bool) n (l : list A) : forallb p l = true ->
  forallb p (take_n n l) = true /\ forallb p (drop_n n l) = true.
Proof. intros H. rewrite <- (take_drop n l), forallb_app in H. apply andb_true_iff in H. exact H. Qed.

Lemma pad6_split i : exists ds0 t, pad6 i = ds0 ++ t /\ length ds0 = 6%nat /\ forallb is_digit ds0 = true /\ forallb is_digit t = true.
Proof.
  exists (take_n 6 (pad6 i)), (drop_n 6 (pad6 i)). rewrite take_drop.
  destruct (forallb_take_drop is_digit 6 _ (pad6_digits_all i)) as [H1 H2]. repeat split; try assumption.
  assert (Hl : (6 <= length (pad6 i))%nat) by (unfold pad6; rewrite app_length, repeat_length; lia).
  revert Hl. generalize (pad6 i). intros l. generalize 6%nat. intros n. revert l.
  induction n as [|n IH]; intros [|x l] H; cbn [take_n length] in *; try lia. rewrite IH by lia. reflexivity.
Qed.

Lemma rename_block_any d i (y : list N) :
  rename_str d (placeholder w_BLOCKCOMMENT i ++ y) = placeholder w_BLOCKCOMMENT i ++ rename_str d y.
Proof.
  unfold placeholder. rewrite <- app_assoc.
  change w_BLOCKCOMMENT with [66; 76; 79; 67; 75; 67; 79; 77; 77; 69; 78; 84]. cbn [app].
  assert (Hp : forall c c2 s, ((c =? 76) && (c2 =? 73)) || ((c =? 73) && (c2 =? 78)) || ((c =? 83) && (c2 =? 84))
                              || ((c =? 69) && (c2 =? 88)) = false -> ph_word (c :: c2 :: s) = None).
  { intros c c2 s H. destruct (ph_word (c :: c2 :: s)) as [w|] eqn:E; [|reflexivity].
    apply ph_word_heads in E. lia. }
  do 11 (rewrite rename_char by (apply Hp; reflexivity); f_equal).
  destruct (pad6_split i) as (ds0 & t & Ep & L & D0 & Dt).
  destruct (pad6 i) as [|x p] eqn:Ep'; [destruct ds0; [discriminate L|discriminate Ep]|].
  cbn [app]. rewrite rename_char by (apply Hp; reflexivity). f_equal.
  change (x :: p ++ rename_str d y) with ((x :: p) ++ rename_str d y). change (x :: p ++ y) with ((x :: p) ++ y).
  apply rename_digits. rewrite <- Ep'. apply pad6_digits_all.
Qed.

Lemma rename_insert_block d (x : list N) i (y : list N) :
  rename_str d (x ++ placeholder w_BLOCKCOMMENT i ++ y) = rename_str d x ++ placeholder w_BLOCKCOMMENT i ++ rename_str d y.
Proof.
  rewrite <- rename_block_any. apply rename_app. unfold placeholder. rewrite <- app_assoc.
  destruct (pad6_split i) as (ds0 & t & Ep & L & D0 & Dt). rewrite Ep, <- app_assoc.
  apply nostr_ph; [left; reflexivity|exact L|exact D0].
Qed.

Lemma rename_insert_shifted d (x w : list N) i (y : list N) : In w shifted_words -> i < 1000000 ->
  rename_str d (x ++ placeholder w i ++ y) = rename_str d x ++ placeholder w (shift d i) ++ rename_str d y.
Proof. intros Hin Hi. rewrite rename_insert by (try apply shifted_all; assumption). rewrite rename_placeholder by assumption. reflexivity. Qed.

(* ---- the pattern test only looks at the leading run of upper case letters and digits -------------- *)
Definition anp (s : str) : str := fst (span isAN s).

Lemma span_fst_snd (p : cp -> bool) (s : str) : fst (span p s) ++ snd (span p s) = s.
Proof. induction s as [|c s IH]; [reflexivity|]. cbn [span]. destruct (p c); [|reflexivity]. destruct (span p s). cbn [fst snd app] in *. rewrite IH. reflexivity. Qed.

Lemma anp_app (u r : str) : forallb isAN u = true -> anp (u ++ r) = u ++ anp r.
Proof.
  unfold anp. induction u as [|c u IH]; intros H; [reflexivity|]. cbn [forallb] in H. apply andb_true_iff in H. destruct H as [H1 H2].
  cbn [app span]. rewrite H1. specialize (IH H2). destruct (span isAN (u ++ r)). cbn [fst] in *. rewrite IH. reflexivity.
Qed.

Lemma ph_test_anp s w : In w shifted_words -> ph_test s w = ph_test (anp s) w.
Proof.
  intros Hin. destruct (ph_test (anp s) w) eqn:E.
  - rewrite <- (span_fst_snd isAN s). apply ph_test_mono. exact E.
  - destruct (ph_test s w) eqn:E2; [|reflexivity].
    destruct (ph_test_form _ _ E2) as (ds & r & Es & L & D). rewrite Es, app_assoc in E.
    rewrite anp_app in E by (apply word_digits_AN; assumption). rewrite <- app_assoc, ph_test_intro in E by assumption. discriminate E.
Qed.

Lemma ph_word_anp s t : anp s = anp t -> ph_word s = ph_word t.
Proof. intros H. apply ph_word_ext. intros w Hin. rewrite (ph_test_anp s), (ph_test_anp t), H by assumption. reflexivity. Qed.

Lemma anp_cons_AN c s : isAN c = true -> anp (c :: s) = c :: anp s.
Proof. intros H. unfold anp. cbn [span]. rewrite H. destruct (span isAN s). reflexivity. Qed.
Lemma anp_cons_nAN c s : isAN c = false -> anp (c :: s) = [].
Proof. intros H. unfold anp. cbn [span]. rewrite H. reflexivity. Qed.
