(* C12 on include directives, part 5: the writer on an SDict with comments and top-level include directives.
   RereadWrite.writer_canon replayed with the directive lines as one more piece of text between the leading block comments
   and the rest of the document. *)
From Coq Require Import String.
From Coq Require Import NArith ZArith List Bool Lia ZifyBool ZifyN ZifyNat.
From DictIO Require Import Chars Str Value Scalar KeyPath SDict Layout Lexer TokParser TreeSpec NativeSpec LayoutSpec E2ESpec.
From DictIO Require ScalarProofs SDictProofs TokProofs LayoutProofs SemProofs QuoteProofs KeyPathProofs.
From DictIO Require RereadPlain.
From DictIO Require Import E2EProofs E2EHoles E2EInsert E2EKeyTok E2EFullProofs RereadStr RereadTree RereadWrite RereadLex RereadParse RereadNum RereadProofs RereadFix.
From DictIO Require Import RereadIncStage RereadIncLex RereadIncParse RereadIncRead.
Import ListNotations.
Import LayoutProofs.
Open Scope N_scope.

(* ================================================================================================ *)
(* 1. no include placeholder starts inside the text of an ordinary statement                        *)
(* ================================================================================================ *)
(* RereadWrite.Closed for the reserved word INCLUDE instead of COMMENT *)

Section ClosedI.
  Variable p : list N.          (* an include placeholder *)
  Hypothesis Hpc : forallb phc p = true.
  Hypothesis Hpne : p <> [].
  (* texts without the word INCLUDE do not contain p *)
  Hypothesis Hpw : forall Y : list N, contains w_INCLUDE Y = false -> contains p Y = false.

  Lemma p_nospI : has_char c_sp p = false. Proof. apply phc_not_in; [reflexivity|exact Hpc]. Qed.
  Lemma p_nosemiI : has_char c_semi p = false. Proof. apply phc_not_in; [reflexivity|exact Hpc]. Qed.
  Lemma p_nolfI : has_char c_lf p = false. Proof. apply phc_not_in; [reflexivity|exact Hpc]. Qed.

  Lemma nores_noinclude (a : list N) : no_reserved_word a = true -> contains w_INCLUDE a = false.
  Proof.
    unfold no_reserved_word. intros H. apply andb_true_iff in H. destruct H as [H _]. apply andb_true_iff in H. destruct H as [H _].
    apply andb_true_iff in H. destruct H as [_ H]. apply negb_true_iff in H. exact H.
  Qed.

  Lemma free_tokI (a : list N) : simple_tok a = true -> contains p a = false.
  Proof. intros H. apply Hpw, nores_noinclude. exact (proj2 (proj2 (simple_tok_inv a H))). Qed.

  Lemma free_leafI v : writable_leaf v = true -> contains p (FS v) = false.
  Proof.
    intros Hv. destruct (writable_leaf_cases v Hv) as [E|(E & s & -> & Hq)]; [exact (free_tokI _ E)|].
    destruct (qlit_form s Hq) as (_ & Hc). destruct Hq as [Hqa _]. destruct (quotable_inv s Hqa) as (_ & Hr & _).
    pose proof (Hpw s (nores_noinclude s Hr)) as Hs. cbn [format_scalar].
    destruct Hc as [[-> _]|[-> _]]; unfold sq, dq;
      rewrite (contains_cons_sep p _ _ Hpne) by (apply phc_not_in; [reflexivity|exact Hpc]);
      rewrite (contains_snoc_sep p _ _ Hpne) by (apply phc_not_in; [reflexivity|exact Hpc]); exact Hs.
  Qed.

  (* a line: closed by its line feed *)
  Lemma Gc_lineI lvl (txt : list N) : contains p txt = false -> Gc p (line lvl txt true).
  Proof.
    intros H. unfold line, indent_of. rewrite app_assoc. apply (Gc_term p _ c_lf Hpc Hpne); [|reflexivity].
    rewrite (contains_spaces p _ _ Hpne p_nospI). exact H.
  Qed.

  Lemma Gg_line_openI lvl (txt : list N) : contains p txt = false -> Gg p (line lvl txt false).
  Proof.
    intros H. unfold line, indent_of. rewrite app_nil_r. apply (Gg_free p _ Hpc Hpne).
    rewrite (contains_spaces p _ _ Hpne p_nospI). exact H.
  Qed.

  Lemma free_kvI (a b : list N) n : contains p a = false -> contains p b = false ->
    contains p (a ++ spaces (S n) ++ b ++ [c_semi]) = false.
  Proof.
    intros Ha Hb. cbn [spaces repeat app]. fold (spaces n). rewrite (contains_sep p c_sp a _ Hpne p_nospI), Ha. cbn [orb].
    rewrite (contains_spaces p _ _ Hpne p_nospI), (contains_snoc_sep p _ _ Hpne p_nosemiI). exact Hb.
  Qed.

  Lemma Gc_leaf_lineI lvl k v : simple_key k = true -> writable_leaf v = true -> Gc p (leaf_line lvl k v).
  Proof.
    intros Hk Hv. unfold leaf_line. apply Gc_lineI. destruct (simple_key_inv k Hk) as (Hkt & _).
    destruct (Nat.max 8 (30 - length (FK k) - 4 * lvl)) as [|n] eqn:En; [lia|].
    apply free_kvI; [exact (free_tokI _ Hkt)|exact (free_leafI v Hv)].
  Qed.

  Lemma free_oneI c : phc c = false -> contains p [c] = false.
  Proof.
    intros Hc. pose proof (contains_cons_sep p c [] Hpne (phc_not_in c p Hc Hpc)) as H.
    rewrite (contains_nil_r p Hpne) in H. exact H.
  Qed.

  (* the text of a list (and of the dicts and lists inside it) *)
  Definition FrI (t : tree) : Prop :=
    ktree writable_leaf t = true -> forall lvl anc, match t with Leaf _ => True | _ => Gc p (fmt_tree FS FK lvl anc t) end.

  Lemma Fr_entriesI kvs : Forall (fun kc => FrI (snd kc)) kvs -> ktree writable_leaf (Dict kvs) = true ->
    forall lvl, Gc p (fentries lvl kvs).
  Proof.
    induction 1 as [|[k c] kvs Hc _ IH]; intros Hs lvl; [apply Gc_nil|].
    rewrite ktree_dict_cons in Hs. apply andb_true_iff in Hs. destruct Hs as [Hs Hs3].
    apply andb_true_iff in Hs. destruct Hs as [Hs1 Hs2]. cbn [snd] in Hc. specialize (Hc Hs2).
    destruct (simple_key_inv k Hs1) as (Hkt & Hkx & _).
    cbn [fentries]. apply Gc_app; [|exact (IH Hs3 lvl)]. destruct c as [v|d|l].
    - exact (Gc_leaf_lineI lvl k v Hs1 Hs2).
    - rewrite Hkx. apply Gc_app; [apply Gc_lineI, free_tokI; exact Hkt|]. apply Gc_app; [apply Gc_lineI, free_oneI; reflexivity|].
      apply Gc_app; [exact (Hc (S lvl) false)|apply Gc_lineI, free_oneI; reflexivity].
    - rewrite Hkx. apply Gc_app; [apply Gc_lineI, free_tokI; exact Hkt|exact (Hc lvl false)].
  Qed.

  Definition hd_spI (X : list N) : Prop := match X with [] => True | c :: _ => phc c = false end.

  Lemma hd_sp_line_SI lvl txt nl (X : list N) : hd_spI (line (S lvl) txt nl ++ X).
  Proof. unfold line, indent_of. replace (4 * S lvl)%nat with (S (3 + 4 * lvl)) by lia. reflexivity. Qed.

  Lemma Fr_itemsI ts : Forall FrI ts -> ktree writable_leaf (Lst ts) = true ->
    forall lvl len idx first, Gg p (fitems lvl len ts idx first) /\ hd_spI (fitems lvl len ts idx first).
  Proof.
    induction 1 as [|c l Hc _ IH]; intros Hs lvl len idx first; [split; [apply Gc_Gg, Gc_nil|exact I]|].
    rewrite ktree_lst_cons in Hs. apply andb_true_iff in Hs. destruct Hs as [Hs1 Hs2]. specialize (Hc Hs1).
    cbn [fitems]. destruct c as [v|d|l'].
    - destruct (list_item_cases lvl first idx len v) as (lv & pad & nl & f' & E). rewrite E.
      destruct (IH Hs2 lvl len (S idx) f') as [I1 I2]. split; [|apply hd_sp_line_SI].
      assert (Hfree : contains p (FS v ++ spaces pad) = false).
      { destruct pad as [|pad]; [cbn [spaces repeat]; rewrite app_nil_r; exact (free_leafI v Hs1)|].
        cbn [spaces repeat]. fold (spaces pad). rewrite (contains_sep p c_sp _ _ Hpne p_nospI), (free_leafI v Hs1). cbn [orb].
        rewrite <- (app_nil_r (spaces pad)), (contains_spaces p _ _ Hpne p_nospI). apply contains_nil_r. exact Hpne. }
      destruct nl.
      + apply Gg_app_c; [apply Gc_lineI; exact Hfree|exact I1].
      + apply Gg_app; [apply Gg_line_openI; exact Hfree|exact I1|exact I2].
    - destruct (IH Hs2 lvl len (S idx) true) as [I1 I2]. split; [|apply hd_sp_line_SI].
      apply Gg_app_c; [apply Gc_lineI; apply contains_nil_r; exact Hpne|].
      apply Gg_app_c; [apply Gc_lineI, free_oneI; reflexivity|].
      apply Gg_app_c; [exact (Hc (S (S lvl)) false)|]. apply Gg_app_c; [apply Gc_lineI, free_oneI; reflexivity|exact I1].
    - destruct (IH Hs2 lvl len (S idx) first) as [I1 I2]. split.
      + apply Gg_app_c; [exact (Hc (S lvl) true)|exact I1].
      + rewrite fmt_lst. rewrite <- !app_assoc. apply hd_sp_line_SI.
  Qed.

  Lemma Fr_allI : forall t, FrI t.
  Proof.
    induction t as [v|kvs IH|ts IH] using tree_ind'; intros Hs lvl anc; [exact I| |].
    - rewrite fmt_dict. apply Fr_entriesI; assumption.
    - rewrite fmt_lst. apply Gc_app; [apply Gc_lineI, free_oneI; reflexivity|].
      destruct (Fr_itemsI ts IH Hs lvl (length ts) 0%nat true) as [I1 _].
      apply Gc_app_g; [exact I1| |].
      + apply Gc_lineI. destruct anc; [apply free_oneI; reflexivity|].
        change [c_rpar; c_semi] with ([c_rpar] ++ [c_semi]). rewrite (contains_snoc_sep p _ _ Hpne p_nosemiI). apply free_oneI. reflexivity.
      + unfold line, indent_of. destruct (4 * lvl)%nat; destruct anc; reflexivity.
  Qed.

  (* ordinary events are closed *)
  Lemma Gc_eventI cm e : ev_ok e -> (match e with ECm _ _ _ => False | _ => True end) -> Gc p (ev_text cm e).
  Proof.
    intros Hok Hne. destruct e as [lvl k v|lvl k l|lvl k|lvl|lvl n x]; cbn [ev_text ev_ok] in *; [| | | |contradiction].
    - destruct Hok as [Hk Hv]. exact (Gc_leaf_lineI lvl k v Hk Hv).
    - destruct Hok as [Hk Hl]. destruct (simple_key_inv k Hk) as (Hkt & Hkx & _). rewrite Hkx.
      apply Gc_app; [apply Gc_lineI, free_tokI; exact Hkt|exact (Fr_allI (Lst l) Hl lvl false)].
    - destruct (simple_key_inv k Hok) as (Hkt & Hkx & _). rewrite Hkx.
      apply Gc_app; [apply Gc_lineI, free_tokI; exact Hkt|apply Gc_lineI, free_oneI; reflexivity].
    - apply Gc_lineI, free_oneI. reflexivity.
  Qed.
End ClosedI.
Lemma iph_Hpw i : forall Y : list N, contains w_INCLUDE Y = false -> contains (iph i) Y = false.
Proof.
  intros Y H. destruct (contains (iph i) Y) eqn:E; [|reflexivity]. unfold iph, placeholder in E. apply contains_prefix in E.
  rewrite E in H. discriminate H.
Qed.

(* a comment placeholder contains no include placeholder *)
Lemma ph_no_iph n i : phname n -> contains (iph i) n = false.
Proof.
  intros (w & j & Hw & Hj & ->). destruct (contains (iph i) (placeholder w j)) eqn:E; [|reflexivity]. exfalso.
  assert (E' : contains w_INCLUDE (placeholder w j) = true) by (unfold iph in E; unfold placeholder at 1 in E; exact (contains_prefix _ _ _ E)).
  pose proof (contains_In w_INCLUDE _ ltac:(discriminate) E' 85) as H.
  assert (Hu : In 85 w_INCLUDE) by (cbn; tauto). specialize (H Hu). destruct (cph_In w j 85 Hw H) as [H1|H1]; [|discriminate H1].
  destruct Hw as [-> | ->]; cbn in H1; repeat (destruct H1 as [H1|H1]; [discriminate H1|]); exact H1.
Qed.

Definition incfree (t : str) : bool := negb (has_placeholder w_INCLUDE t).

Lemma incfree_contains (Y : list N) i : incfree Y = true -> i < 1000000 -> contains (iph i) Y = false.
Proof.
  intros H Hi. unfold incfree in H. apply negb_true_iff in H. destruct (contains (iph i) Y) eqn:E; [|reflexivity]. exfalso.
  destruct (contains_start (iph i) Y (iph_ne i) E) as (j & _ & Hj). unfold iph in Hj. rewrite (hp_no_start w_INCLUDE Y H i j Hi) in Hj. discriminate Hj.
Qed.

Lemma Gc_line_free (p : list N) lvl (t : list N) : forallb phc p = true -> p <> [] -> contains p t = false -> Gc p (line lvl t true).
Proof. intros Hpc Hpne H. exact (Gc_lineI p Hpc Hpne lvl t H). Qed.

(* texts of replaced comment lines are closed for every include placeholder *)
Definition st_freeI (st : stt) : Prop := forall n t, slook n st = Some t -> forall i lvl, i < 1000000 -> Gc (iph i) (line lvl t true).

Lemma Gc_catI i st es : i < 1000000 -> Forall ev_ok es -> ph_events es -> st_freeI st -> Gc (iph i) (cat (cmS st) es).
Proof.
  intros Hi Hok Hph Hst. induction es as [|e es IH]; [apply Gc_nil|]. rewrite cat_cons. inversion Hok as [|e' es' He Hes]; subst.
  apply Gc_app.
  - destruct e as [lvl k v|lvl k l|lvl k|lvl|lvl n x]; try (apply (Gc_eventI (iph i) (iph_chars i) (iph_ne i) (iph_Hpw i)); [exact He|exact I]).
    cbn [ev_text]. unfold cmS. destruct (Hph lvl n x (or_introl eq_refl)) as [-> Hn].
    destruct (slook n st) as [t|] eqn:El; [exact (Hst n t El i lvl Hi)|].
    rewrite (cm_pair_ph lvl n Hn). apply (Gc_line_free _ _ _ (iph_chars i) (iph_ne i)).
    destruct (Nat.max 8 (30 - length n - 4 * lvl)) as [|m] eqn:En; [lia|].
    apply (free_kvI (iph i) (iph_chars i) (iph_ne i)); exact (ph_no_iph n i Hn).
  - apply IH; [exact Hes|]. intros lvl n x Hin. apply (Hph lvl n x). right. exact Hin.
Qed.

(* ================================================================================================ *)
(* 2. the class                                                                                     *)
(* ================================================================================================ *)

Definition is_inc_entry (kc : key * tree) : bool := is_include_key (fst kc).
(* the SDict without its include entries *)
Definition strip_inc (s : sdict) : sdict :=
  mkSD (filter (fun kc => negb (is_inc_entry kc)) (sd_data s)) (sd_lc s) (sd_bc s) [] [].
(* an include entry of an SDict: key and value spell the same include placeholder, whose id is in the table *)
Definition inc_entry_ok (inc : list (N * include_entry)) (kc : key * tree) : bool :=
  match kc with
  | (KS n, Leaf (SStr x)) => str_eqb x n && is_ph w_INCLUDE n && is_some (tlookup (ph_id w_INCLUDE n) inc)
  | _ => false
  end.
(* ids and names of the include entries of the data, in data order *)
Definition inc_id_of (kc : key * tree) : list N :=
  if is_inc_entry kc then match fst kc with KS n => [ph_id w_INCLUDE n] | KI _ => [] end else [].
Definition inc_ids (s : sdict) : list N := flat_map inc_id_of (sd_data s).
Definition inc_name (inc : list (N * include_entry)) (i : N) : str :=
  match tlookup i inc with Some (_, nm, _) => nm | None => [] end.
Definition inc_names (s : sdict) : list str := map (inc_name (sd_inc s)) (inc_ids s).
(* a name the whole cycle keeps: no line break, no double slash the line comment pass would take (inc_name_ok), and no
   comment or include placeholder inside (the later insertion passes of the writer would replace it) *)
Definition name_cond (nm : str) : bool := inc_name_ok nm && phfree nm && incfree nm.

(* The class: without its include entries the SDict is re-readable (RereadTree.rereadable: comments at any dict level);
   the include entries sit at top level, are placeholder entries whose ids are in the include table, with pairwise
   distinct keys; table ids pairwise distinct and below one million; the names of the entries satisfy name_cond and are
   pairwise distinct (the reader keeps one of two equal directives); no block comment text contains an include
   placeholder; no expressions. *)
Definition rereadable_inc (s : sdict) : bool :=
  rereadable (strip_inc s) && wf (Dict (sd_data s)) &&
  forallb (fun kc => negb (is_inc_entry kc) || inc_entry_ok (sd_inc s) kc) (sd_data s) &&
  tab_ok (sd_inc s) && forallb name_cond (inc_names s) && nodupb (inc_names s) &&
  forallb (fun e => incfree (snd e)) (sd_bc s) && is_nil (sd_expr s).

Record ifacts (s : sdict) : Prop := mkIF {
  if_strip : rereadable (strip_inc s) = true;
  if_wf : wf (Dict (sd_data s)) = true;
  if_entries : forall kc, In kc (sd_data s) -> is_inc_entry kc = true -> inc_entry_ok (sd_inc s) kc = true;
  if_nd : NoDup (map fst (sd_inc s));
  if_lt : forall i e, In (i, e) (sd_inc s) -> i < 1000000;
  if_names : forall nm, In nm (inc_names s) -> name_cond nm = true;
  if_names_nd : NoDup (inc_names s);
  if_bc : forall i b, In (i, b) (sd_bc s) -> incfree b = true;
  if_expr : sd_expr s = [] }.

Lemma rereadable_inc_facts s : rereadable_inc s = true -> ifacts s.
Proof.
  unfold rereadable_inc. intros H.
  repeat match goal with H : _ && _ = true |- _ => apply andb_true_iff in H; destruct H as [H ?] end.
  match goal with H : tab_ok (sd_inc s) = true |- _ => destruct (tab_ok_inv _ H) as [T1 T2] end.
  constructor; try assumption.
  - intros kc Hin Hi. match goal with H : forallb (fun kc => negb (is_inc_entry kc) || _) _ = true |- _ => rewrite forallb_forall in H; specialize (H kc Hin) end.
    rewrite Hi in *. cbn [negb orb] in *. assumption.
  - intros nm Hin. match goal with H : forallb name_cond _ = true |- _ => rewrite forallb_forall in H; exact (H nm Hin) end.
  - apply nodupb_NoDup. assumption.
  - intros i b Hin. match goal with H : forallb (fun e => incfree (snd e)) _ = true |- _ => rewrite forallb_forall in H; exact (H _ Hin) end.
  - destruct (sd_expr s); [reflexivity|discriminate].
Qed.

(* ================================================================================================ *)
(* 3. the data of the class: block comments, include entries, the rest                              *)
(* ================================================================================================ *)

Lemma fentries_app lvl a b : fentries lvl (a ++ b) = fentries lvl a ++ fentries lvl b.
Proof. induction a as [|[k c] a IH]; [reflexivity|]. cbn [app fentries]. rewrite IH, <- app_assoc. reflexivity. Qed.

Lemma iph_simple i : forallb simple_char (iph i) = true.
Proof. apply forallb_forall. intros c Hc. exact (proj2 (phc_facts c (forallb_In _ _ _ (iph_chars i) Hc))). Qed.

Lemma iph_format i : format_string (iph i) = iph i.
Proof. apply RereadPlain.format_string_simple; [apply iph_simple|apply iph_ne]. Qed.

Lemma fentries_inc ks : fentries 0 (map inc_ph_entry ks) = flat_map (inc_pair 0) ks.
Proof.
  induction ks as [|k ks IH]; [reflexivity|]. cbn [map inc_ph_entry fentries flat_map]. rewrite IH. f_equal.
  unfold inc_pair, ikey. cbn [format_key format_scalar]. rewrite iph_format. reflexivity.
Qed.

Lemma map_fst_filter_nodup {A B} (f : A * B -> bool) (l : list (A * B)) : NoDup (map fst l) -> NoDup (map fst (filter f l)).
Proof.
  induction l as [|x l IH]; intros H; [constructor|]. cbn [map] in H. inversion H as [|y ys Hy Hnd]; subst. cbn [filter].
  destruct (f x); [|exact (IH Hnd)]. cbn [map]. constructor; [|exact (IH Hnd)].
  intros Hin. apply Hy. apply in_map_iff in Hin. destruct Hin as (z & Ez & Hz). apply filter_In in Hz. apply in_map_iff. exists z. split; [exact Ez|exact (proj1 Hz)].
Qed.

Lemma nodup_two_filters {A B} (f g : A * B -> bool) (l : list (A * B)) : NoDup (map fst l) -> (forall x, In x l -> f x = true -> g x = false) ->
  NoDup (map fst (filter f l ++ filter g l)).
Proof.
  intros Hnd Hfg. rewrite map_app. apply NoDup_app_intro; [exact (map_fst_filter_nodup f l Hnd)|exact (map_fst_filter_nodup g l Hnd)|].
  intros k Hk1 Hk2. apply in_map_iff in Hk1. destruct Hk1 as (x & Ex & Hx). apply in_map_iff in Hk2. destruct Hk2 as (y & Ey & Hy).
  apply filter_In in Hx. apply filter_In in Hy. destruct Hx as [Hx1 Hx2]. destruct Hy as [Hy1 Hy2].
  assert (x = y).
  { destruct x as [a b], y as [a' b']. cbn [fst] in *. subst a a'.
    clear -Hnd Hx1 Hy1. induction l as [|[a0 b0] l IH]; [destruct Hx1|]. cbn [map fst] in Hnd. inversion Hnd as [|z zs Hz Hnd']; subst.
    destruct Hx1 as [E1|Hx1]; destruct Hy1 as [E2|Hy1].
    - congruence.
    - inversion E1; subst. exfalso. apply Hz. apply in_map_iff. exists (k, b'). split; [reflexivity|exact Hy1].
    - inversion E2; subst. exfalso. apply Hz. apply in_map_iff. exists (k, b). split; [reflexivity|exact Hx1].
    - exact (IH Hnd' Hx1 Hy1). }
  subst y. rewrite (Hfg x Hx1 Hx2) in Hy2. discriminate Hy2.
Qed.

Section Data.
  Variable s : sdict.
  Hypothesis HI : ifacts s.
  Let data := sd_data s.
  Let s0 := strip_inc s.
  Let HW : wfacts s0 := rereadable_facts s0 (if_strip s HI).
  Let Bk := filter bk data.
  Let Ik := filter is_inc_entry data.
  Let Rk := filter (fun kc => negb (bk kc) && negb (is_inc_entry kc)) data.

  Lemma data_nd : NoDup (map fst data).
  Proof. pose proof (if_wf s HI) as H. apply SDictProofs.wf_Dict_iff in H. exact (proj1 H). Qed.

  Lemma inc_entry_inv kc : In kc data -> is_inc_entry kc = true ->
    exists i, kc = inc_ph_entry i /\ i < 1000000 /\ exists e, tlookup i (sd_inc s) = Some e.
  Proof.
    intros Hin Hi. pose proof (if_entries s HI kc Hin Hi) as H. destruct kc as [[z|n] [[z'|f|b| |x]|d|l]]; try discriminate H.
    cbn [inc_entry_ok] in H. apply andb_true_iff in H. destruct H as [H H3]. apply andb_true_iff in H. destruct H as [H1 H2].
    apply SDictProofs.str_eqb_eq in H1. subst x. destruct (is_ph_inv _ _ H2) as [En Hlt]. exists (ph_id w_INCLUDE n).
    split; [unfold inc_ph_entry, ikey, iph; rewrite <- En; reflexivity|]. split; [exact Hlt|].
    destruct (tlookup (ph_id w_INCLUDE n) (sd_inc s)) as [e|]; [exists e; reflexivity|discriminate H3].
  Qed.

  Lemma inc_id_entry i : i < 1000000 -> inc_id_of (inc_ph_entry i) = [i].
  Proof.
    intros Hi. unfold inc_id_of, is_inc_entry, inc_ph_entry. cbn [fst]. rewrite (ikey_is_include i Hi). unfold ikey, iph. rewrite ph_id_ph. reflexivity.
  Qed.

  Lemma Ik_eq : Ik = map inc_ph_entry (inc_ids s).
  Proof.
    unfold Ik, inc_ids. fold data.
    assert (G : forall l, (forall kc, In kc l -> In kc data) -> filter is_inc_entry l = map inc_ph_entry (flat_map inc_id_of l)).
    { induction l as [|kc l IH]; intros Hsub; [reflexivity|]. cbn [filter flat_map]. rewrite map_app, <- IH by (intros x Hx; apply Hsub; right; exact Hx).
      destruct (is_inc_entry kc) eqn:Ei.
      - destruct (inc_entry_inv kc (Hsub kc (or_introl eq_refl)) Ei) as (i & -> & Hi & _). rewrite (inc_id_entry i Hi). reflexivity.
      - unfold inc_id_of. rewrite Ei. reflexivity. }
    apply G. auto.
  Qed.

  Lemma inc_ids_facts : NoDup (inc_ids s) /\ small (inc_ids s) /\ forall i, In i (inc_ids s) -> exists e, tlookup i (sd_inc s) = Some e.
  Proof.
    assert (Hin : forall i, In i (inc_ids s) -> In (inc_ph_entry i) data /\ i < 1000000 /\ exists e, tlookup i (sd_inc s) = Some e).
    { intros i Hi. unfold inc_ids in Hi. apply in_flat_map in Hi. destruct Hi as (kc & Hkc & Hi). unfold inc_id_of in Hi.
      destruct (is_inc_entry kc) eqn:Ei; [|destruct Hi]. destruct (inc_entry_inv kc Hkc Ei) as (j & -> & Hj & He).
      cbn [inc_ph_entry fst ikey] in Hi. unfold iph in Hi. rewrite ph_id_ph in Hi. destruct Hi as [<-|[]]. split; [exact Hkc|]. split; assumption. }
    split; [|split].
    - pose proof (map_fst_filter_nodup is_inc_entry data data_nd) as H. fold Ik in H. rewrite Ik_eq, map_map in H. exact (NoDup_map_inv _ _ H).
    - apply Forall_forall. intros i Hi. exact (proj1 (proj2 (Hin i Hi))).
    - intros i Hi. exact (proj2 (proj2 (Hin i Hi))).
  Qed.

  Lemma inc_not_block kc : In kc data -> is_inc_entry kc = true -> bk kc = false.
  Proof. intros Hin Hi. destruct (inc_entry_inv kc Hin Hi) as (i & -> & _). unfold bk, inc_ph_entry, ikey. cbn [fst is_block_key]. apply iph_not_block. Qed.

  (* the data without its include entries *)
  Lemma data0_eq : sd_data s0 = filter (fun kc => negb (is_inc_entry kc)) data.
  Proof. reflexivity. Qed.

  Lemma filter_filter {A} (f g : A -> bool) (l : list A) : filter f (filter g l) = filter (fun x => g x && f x) l.
  Proof. induction l as [|x l IH]; [reflexivity|]. cbn [filter]. destruct (g x); cbn [andb filter]; rewrite IH; reflexivity. Qed.

  Lemma Bk_eq : filter bk (sd_data s0) = Bk.
  Proof.
    rewrite data0_eq, filter_filter. unfold Bk. apply filter_ext_in. intros kc Hin. destruct (is_inc_entry kc) eqn:Ei; [|reflexivity].
    rewrite (inc_not_block kc Hin Ei). reflexivity.
  Qed.

  Lemma Rk_eq : filter (fun kc => negb (bk kc)) (sd_data s0) = Rk.
  Proof. rewrite data0_eq, filter_filter. unfold Rk. apply filter_ext. intros kc. apply andb_comm. Qed.

  (* the sorted data of the SDict without include entries, and with them *)
  Lemma D0_eq : sort_top (sd_data s0) = Bk ++ Rk.
  Proof. rewrite (D_eq s0 HW), Bk_eq, Rk_eq. reflexivity. Qed.

  Lemma sort_top_inc : sort_top data = Bk ++ Ik ++ Rk.
  Proof.
    unfold sort_top. change (filter (fun kv => is_block_key (fst kv)) data) with Bk. change (filter (fun kv => is_include_key (fst kv)) data) with Ik.
    assert (Hnd : NoDup (map fst (Bk ++ Ik))).
    { apply nodup_two_filters; [exact data_nd|]. intros x Hin Hx. destruct (is_inc_entry x) eqn:Ei; [|reflexivity].
      rewrite (inc_not_block x Hin Ei) in Hx. discriminate Hx. }
    rewrite (KeyPathProofs.aupdate_app Ik Bk Hnd), <- app_assoc. f_equal. f_equal. unfold Rk. apply filter_ext_in. intros kv Hin.
    assert (Ea : amem (fst kv) (Bk ++ Ik) = bk kv || is_inc_entry kv).
    { destruct (amem (fst kv) (Bk ++ Ik)) eqn:Ea.
      - apply amem_In in Ea. destruct Ea as [v Hv]. apply in_app_or in Hv. destruct Hv as [Hv|Hv]; apply filter_In in Hv; destruct Hv as [_ Hv].
        + unfold bk in *. cbn [fst] in Hv. rewrite Hv. reflexivity.
        + unfold is_inc_entry in *. cbn [fst] in Hv. rewrite Hv. symmetry. apply orb_true_r.
      - destruct (bk kv) eqn:Eb.
        + exfalso. assert (E : amem (fst kv) (Bk ++ Ik) = true) by (apply amem_In; exists (snd kv); apply in_or_app; left; apply filter_In; split; [destruct kv; exact Hin|exact Eb]).
          rewrite E in Ea. discriminate Ea.
        + destruct (is_inc_entry kv) eqn:Ei; [|reflexivity].
          exfalso. assert (E : amem (fst kv) (Bk ++ Ik) = true) by (apply amem_In; exists (snd kv); apply in_or_app; right; apply filter_In; split; [destruct kv; exact Hin|exact Ei]).
          rewrite E in Ea. discriminate Ea. }
    rewrite Ea, negb_orb. reflexivity.
  Qed.
End Data.

(* ================================================================================================ *)
(* 4. insert_includes on a block of placeholder lines                                               *)
(* ================================================================================================ *)

(* the content of the placeholder line of include id i at top level *)
Definition pc (i : N) : str := iph i ++ spaces (Nat.max 8 (30 - length (iph i) - 4 * 0)) ++ iph i ++ [c_semi].
Lemma inc_pair_pc i : inc_pair 0 i = pc i ++ [c_lf].
Proof. reflexivity. Qed.

(* the block of lines: one per include id, with its current content *)
Definition gap (ids : list N) (txt : N -> str) : str := flat_map (fun i => txt i ++ [c_lf]) ids.

Lemma gap_app a b txt : gap (a ++ b) txt = gap a txt ++ gap b txt.
Proof. unfold gap. apply flat_map_app. Qed.

Lemma gap_ext ids txt txt' : (forall i, In i ids -> txt i = txt' i) -> gap ids txt = gap ids txt'.
Proof.
  induction ids as [|i ids IH]; intros H; [reflexivity|]. unfold gap in *. cbn [flat_map]. rewrite (H i (or_introl eq_refl)), IH; [reflexivity|].
  intros k Hk. apply H. right. exact Hk.
Qed.

Lemma Gc_gap p ids txt : forallb phc p = true -> p <> [] -> (forall i, In i ids -> contains p (txt i) = false) -> Gc p (gap ids txt).
Proof.
  intros Hpc Hpne. induction ids as [|i ids IH]; intros H; [apply Gc_nil|]. unfold gap in *. cbn [flat_map]. apply Gc_app.
  - apply (Gc_term p _ c_lf Hpc Hpne); [exact (H i (or_introl eq_refl))|reflexivity].
  - apply IH. intros k Hk. apply H. right. exact Hk.
Qed.

Lemma iph_iph i k : i < 1000000 -> k < 1000000 -> i <> k -> contains (iph i) (iph k) = false.
Proof.
  intros Hi Hk Hne. destruct (contains (iph i) (iph k)) eqn:E; [|reflexivity]. exfalso. apply Hne.
  assert (El : length (iph i) = length (iph k)) by (unfold iph, placeholder; rewrite !app_length, (pad6_length i Hi), (pad6_length k Hk); reflexivity).
  pose proof (contains_same_length (iph i) (iph k) El E) as Eq. exact (placeholder_injective _ _ _ Hi Hk Eq).
Qed.

Lemma pc_no_iph i k : i < 1000000 -> k < 1000000 -> i <> k -> contains (iph i) (pc k) = false.
Proof.
  intros Hi Hk Hne. unfold pc. destruct (Nat.max 8 (30 - length (iph k) - 4 * 0)) as [|m] eqn:Em; [lia|].
  apply (free_kvI (iph i) (iph_chars i) (iph_ne i)); exact (iph_iph i k Hi Hk Hne).
Qed.

Lemma iph_has c i : phc c = false -> has_char c (iph i) = false.
Proof. intros H. exact (phc_not_in c (iph i) H (iph_chars i)). Qed.

(* a directive whose name carries no include placeholder carries none *)
Lemma dir_no_iph i nm : i < 1000000 -> incfree nm = true -> contains (iph i) (inc_directive nm) = false.
Proof.
  intros Hi Hf. pose proof (incfree_contains nm i Hf Hi) as Hn. unfold inc_directive.
  change (of_string "#include " ++ format_string nm) with (w_hash_include ++ c_sp :: format_string nm).
  rewrite (contains_sep (iph i) c_sp _ _ (iph_ne i) (iph_has c_sp i eq_refl)).
  assert (E1 : contains (iph i) w_hash_include = false).
  { destruct (contains (iph i) w_hash_include) eqn:E; [|reflexivity]. exfalso. apply contains_head_In in E.
    cbn in E. repeat (destruct E as [E|E]; [discriminate E|]). exact E. }
  rewrite E1. cbn [orb]. unfold format_string. destruct (classify_string nm); unfold sq, dq; try exact Hn;
    rewrite (contains_cons_sep (iph i) _ _ (iph_ne i)) by (apply iph_has; reflexivity);
    rewrite (contains_snoc_sep (iph i) _ _ (iph_ne i)) by (apply iph_has; reflexivity); exact Hn.
Qed.

Lemma insert_includes_cons fmt e tab (X : str) : insert_includes fmt (e :: tab) X = insert_includes fmt tab (insert_includes fmt [e] X).
Proof. reflexivity. Qed.

Lemma insert_include_absent i e (X : str) : Gc (iph i) X -> insert_includes format_string [(i, e)] X = X.
Proof.
  intros HX. destruct e as [[d nm] p]. unfold insert_includes. cbn [fold_left]. fold (iph i).
  change (fst (sub_ph_pair (S (length X)) (iph i) (of_string "#include " ++ format_string nm) X)) with (fst (subst (iph i) (inc_directive nm) X)).
  pose proof (subst_skip (iph i) (inc_directive nm) X [] (HX [])) as H. rewrite app_nil_r in H. rewrite H, subst_nil. cbn [fst]. apply app_nil_r.
Qed.

Section IncPass.
  Variable inc : list (N * include_entry).
  Variable ids : list N.           (* the include ids of the data, in data order *)
  Hypothesis Hids_nd : NoDup ids.
  Hypothesis Hids_sm : forall i, In i ids -> i < 1000000.
  Hypothesis Hnames : forall i, In i ids -> incfree (inc_name inc i) = true.
  Variable X Z : str.
  Hypothesis HX : forall i, i < 1000000 -> Gc (iph i) X.
  Hypothesis HZ : forall i, i < 1000000 -> Gc (iph i) Z.

  Definition tstep (txt : N -> str) (e : N * include_entry) : N -> str :=
    fun k => if k =? fst e then inc_directive (snd (fst (snd e))) else txt k.
  Definition tupd (tab : list (N * include_entry)) (txt : N -> str) : N -> str := fold_left tstep tab txt.

  (* every line is the placeholder line of its id or the directive of its name *)
  Definition ginv (txt : N -> str) : Prop := forall k, In k ids -> txt k = pc k \/ txt k = inc_directive (inc_name inc k).

  Lemma ginv_closed txt i : ginv txt -> i < 1000000 -> forall k, In k ids -> k <> i -> contains (iph i) (txt k) = false.
  Proof.
    intros Hg Hi k Hk Hne. destruct (Hg k Hk) as [-> | ->].
    - apply pc_no_iph; [exact Hi|exact (Hids_sm k Hk)|congruence].
    - apply dir_no_iph; [exact Hi|exact (Hnames k Hk)].
  Qed.

  Lemma inc_step txt i e : ginv txt -> i < 1000000 -> (In i ids -> txt i = pc i) ->
    insert_includes format_string [(i, e)] (X ++ gap ids txt ++ Z) = X ++ gap ids (tstep txt (i, e)) ++ Z.
  Proof.
    intros Hg Hi Hpc. destruct (in_dec N.eq_dec i ids) as [Hin|Hnin].
    - destruct (in_split _ _ Hin) as (a & b & Eab). pose proof Hids_nd as Hnd. rewrite Eab in Hnd.
      pose proof (NoDup_remove_2 _ _ _ Hnd) as Hnot.
      assert (Ha : forall k, In k a -> In k ids /\ k <> i).
      { intros k Hk. split; [rewrite Eab; apply in_or_app; left; exact Hk|]. intros ->. apply Hnot. apply in_or_app. left. exact Hk. }
      assert (Hb : forall k, In k b -> In k ids /\ k <> i).
      { intros k Hk. split; [rewrite Eab; apply in_or_app; right; right; exact Hk|]. intros ->. apply Hnot. apply in_or_app. right. exact Hk. }
      destruct e as [[d nm] p].
      assert (G1 : gap ids txt = gap a txt ++ inc_pair 0 i ++ gap b txt).
      { rewrite Eab, gap_app. f_equal. change (gap (i :: b) txt) with ((txt i ++ [c_lf]) ++ gap b txt). rewrite (Hpc Hin), <- inc_pair_pc. reflexivity. }
      assert (G2 : gap ids (tstep txt (i, (d, nm, p))) = gap a txt ++ (inc_directive nm ++ [c_lf]) ++ gap b txt).
      { rewrite Eab, gap_app. change (gap (i :: b) (tstep txt (i, (d, nm, p)))) with ((tstep txt (i, (d, nm, p)) i ++ [c_lf]) ++ gap b (tstep txt (i, (d, nm, p)))).
        rewrite (gap_ext a (tstep txt (i, (d, nm, p))) txt), (gap_ext b (tstep txt (i, (d, nm, p))) txt).
        - unfold tstep at 1. cbn [fst snd]. rewrite N.eqb_refl. reflexivity.
        - intros k Hk. unfold tstep. cbn [fst]. destruct (k =? i) eqn:E; [apply N.eqb_eq in E; exfalso; exact (proj2 (Hb k Hk) E)|reflexivity].
        - intros k Hk. unfold tstep. cbn [fst]. destruct (k =? i) eqn:E; [apply N.eqb_eq in E; exfalso; exact (proj2 (Ha k Hk) E)|reflexivity]. }
      rewrite G1. transitivity (X ++ (gap a txt ++ (inc_directive nm ++ [c_lf]) ++ gap b txt) ++ Z); [|f_equal; f_equal; symmetry; exact G2].
      pose proof (insert_include_one 0 i d nm p (X ++ gap a txt) (gap b txt ++ Z)) as H.
      rewrite <- !app_assoc in H. rewrite <- !app_assoc. change (line 0 (inc_directive nm) true) with (inc_directive nm ++ [c_lf]) in H.
      rewrite <- !app_assoc in H. apply H.
      + apply Gc_app; [exact (HX i Hi)|]. apply (Gc_gap _ _ _ (iph_chars i) (iph_ne i)). intros k Hk. exact (ginv_closed txt i Hg Hi k (proj1 (Ha k Hk)) (proj2 (Ha k Hk))).
      + apply Gc_app; [|exact (HZ i Hi)]. apply (Gc_gap _ _ _ (iph_chars i) (iph_ne i)). intros k Hk. exact (ginv_closed txt i Hg Hi k (proj1 (Hb k Hk)) (proj2 (Hb k Hk))).
    - rewrite (gap_ext ids (tstep txt (i, e)) txt).
      2:{ intros k Hk. unfold tstep. cbn [fst]. destruct (k =? i) eqn:E; [apply N.eqb_eq in E; subst k; contradiction|reflexivity]. }
      apply insert_include_absent. apply Gc_app; [exact (HX i Hi)|]. apply Gc_app; [|exact (HZ i Hi)].
      apply (Gc_gap _ _ _ (iph_chars i) (iph_ne i)). intros k Hk. apply (ginv_closed txt i Hg Hi k Hk). intros ->. contradiction.
  Qed.

  Lemma tupd_lookup : forall tab txt k, NoDup (map fst tab) ->
    tupd tab txt k = match tlookup k tab with Some (_, nm, _) => inc_directive nm | None => txt k end.
  Proof.
    induction tab as [|[i [[d nm] p]] tab IH]; intros txt k Hnd; [reflexivity|]. cbn [map fst] in Hnd. inversion Hnd as [|x xs Hx Hnd']; subst.
    unfold tupd. cbn [fold_left]. fold (tupd tab (tstep txt (i, (d, nm, p)))). rewrite (IH _ k Hnd'). cbn [tlookup].
    destruct (k =? i) eqn:E.
    - apply N.eqb_eq in E. subst k. destruct (tlookup i tab) as [e|] eqn:El.
      + exfalso. apply Hx. apply in_map_iff. exists (i, e). split; [reflexivity|exact (tlookup_In _ _ _ El)].
      + unfold tstep. cbn [fst snd]. rewrite N.eqb_refl. reflexivity.
    - destruct (tlookup k tab) as [[[d' nm'] p']|]; [reflexivity|]. unfold tstep. cbn [fst]. rewrite E. reflexivity.
  Qed.

  (* the pass over a part of the table: tab0 = done ++ tab, the lines of the ids in done are directives already *)
  Lemma inc_pass : forall tab done txt, inc = done ++ tab -> NoDup (map fst inc) -> (forall i e, In (i, e) inc -> i < 1000000) ->
    ginv txt -> (forall i, In i ids -> tlookup i done = None -> txt i = pc i) ->
    insert_includes format_string tab (X ++ gap ids txt ++ Z) = X ++ gap ids (tupd tab txt) ++ Z.
  Proof.
    induction tab as [|[i e] tab IH]; intros done txt Einc Hnd Hlt Hg Hpc; [reflexivity|].
    assert (Hin0 : In (i, e) inc) by (rewrite Einc; apply in_or_app; right; left; reflexivity).
    pose proof (Hlt i e Hin0) as Hi.
    assert (Hnone : tlookup i done = None).
    { destruct (tlookup i done) as [e'|] eqn:El; [|reflexivity]. exfalso. apply tlookup_In in El.
      rewrite Einc in Hnd. exact (fst_inj_nodup done tab i e e' Hnd El). }
    rewrite insert_includes_cons, (inc_step txt i e Hg Hi (fun Hin => Hpc i Hin Hnone)).
    unfold tupd. cbn [fold_left]. fold (tupd tab (tstep txt (i, e))).
    apply (IH (done ++ [(i, e)])); [rewrite <- app_assoc; exact Einc|exact Hnd|exact Hlt| |].
    - intros k Hk. unfold tstep. cbn [fst]. destruct (k =? i) eqn:E; [|exact (Hg k Hk)]. apply N.eqb_eq in E. subst k. right.
      unfold inc_name. rewrite (In_tlookup i e inc Hnd Hin0). destruct e as [[d nm] p]. reflexivity.
    - intros k Hk Hl. unfold tstep. cbn [fst]. destruct (k =? i) eqn:E.
      + apply N.eqb_eq in E. subst k. exfalso. clear -Hl. induction done as [|[a b] done IHd]; cbn [app tlookup] in Hl.
        * rewrite N.eqb_refl in Hl. discriminate Hl.
        * destruct (i =? a); [discriminate Hl|exact (IHd Hl)].
      + apply Hpc; [exact Hk|]. clear -Hl E. induction done as [|[a b] done IHd]; [reflexivity|]. cbn [app tlookup] in *.
        destruct (k =? a); [discriminate Hl|exact (IHd Hl)].
  Qed.
End IncPass.

(* ================================================================================================ *)
(* 5. the block of lines as the text of one comment event                                           *)
(* ================================================================================================ *)

Lemma gap_ends_lf ids txt : ids <> [] -> exists Y, gap ids txt = Y ++ [c_lf].
Proof.
  induction ids as [|i ids IH]; intros H; [congruence|]. unfold gap in *. cbn [flat_map]. destruct ids as [|k ids'].
  - cbn [flat_map]. rewrite app_nil_r. exists (txt i). reflexivity.
  - destruct (IH ltac:(discriminate)) as [Y EY]. rewrite EY. exists ((txt i ++ [c_lf]) ++ Y). rewrite app_assoc. reflexivity.
Qed.

Lemma gap_line ids txt : ids <> [] -> line 0 (removelast (gap ids txt)) true = gap ids txt.
Proof. intros H. destruct (gap_ends_lf ids txt H) as [Y EY]. rewrite EY, removelast_last. reflexivity. Qed.

Lemma Gc_gap_line p lvl ids txt : forallb phc p = true -> p <> [] -> ids <> [] -> (forall i, In i ids -> contains p (txt i) = false) ->
  Gc p (line lvl (removelast (gap ids txt)) true).
Proof.
  intros Hpc Hpne Hne H. destruct (gap_ends_lf ids txt Hne) as [Y EY].
  assert (E : line lvl (removelast (gap ids txt)) true = indent_of lvl ++ gap ids txt) by (rewrite EY, removelast_last; unfold line; reflexivity).
  rewrite E. destruct ids as [|i r]; [congruence|]. change (gap (i :: r) txt) with ((txt i ++ [c_lf]) ++ gap r txt).
  rewrite app_assoc. apply Gc_app.
  - change (indent_of lvl ++ txt i ++ [c_lf]) with (line lvl (txt i) true). apply (Gc_line_free p lvl _ Hpc Hpne). exact (H i (or_introl eq_refl)).
  - apply (Gc_gap p r txt Hpc Hpne). intros k Hk. apply H. right. exact Hk.
Qed.

(* a comment placeholder does not occur in an include placeholder line or in a directive with a placeholder-free name *)
Lemma ph_in_iph p i : phname p -> i < 1000000 -> contains p (iph i) = false.
Proof.
  intros (w & k & Hw & Hk & ->) Hi. destruct (contains (placeholder w k) (iph i)) eqn:E; [|reflexivity]. exfalso.
  apply contains_length in E. rewrite (cph_length w k Hw Hk) in E. unfold iph, placeholder in E. rewrite app_length, (pad6_length i Hi) in E.
  destruct Hw as [-> | ->]; cbn in E; lia.
Qed.

Lemma pc_no_ph p i : phname p -> i < 1000000 -> contains p (pc i) = false.
Proof.
  intros Hp Hi. destruct (phname_facts p Hp) as (Hpc & Hpne & _). unfold pc.
  destruct (Nat.max 8 (30 - length (iph i) - 4 * 0)) as [|m] eqn:Em; [lia|].
  apply (free_kv p Hpc Hpne); exact (ph_in_iph p i Hp Hi).
Qed.

Lemma dir_no_ph p nm : phname p -> phfree nm = true -> contains p (inc_directive nm) = false.
Proof.
  intros Hp Hf. destruct (phname_facts p Hp) as (Hpc & Hpne & _ & Hsp & _).
  assert (Hn : contains p nm = false) by (destruct Hp as (w & k & Hw & Hk & ->); exact (phfree_contains nm w k Hf Hw Hk)).
  assert (Hh : forall c, phc c = false -> has_char c p = false) by (intros c Hc; exact (phc_not_in c p Hc Hpc)).
  unfold inc_directive. change (of_string "#include " ++ format_string nm) with (w_hash_include ++ c_sp :: format_string nm).
  rewrite (contains_sep p c_sp _ _ Hpne (Hh c_sp eq_refl)).
  assert (E1 : contains p w_hash_include = false).
  { destruct (contains p w_hash_include) eqn:E; [|reflexivity]. exfalso. destruct p as [|x p']; [congruence|]. apply contains_head_In in E.
    cbn [forallb] in Hpc. apply andb_true_iff in Hpc. destruct Hpc as [Hx _]. cbn in E.
    repeat (destruct E as [E|E]; [subst x; discriminate Hx|]). exact E. }
  rewrite E1. cbn [orb]. unfold format_string. destruct (classify_string nm); unfold sq, dq; try exact Hn;
    rewrite (contains_cons_sep p _ _ Hpne) by (apply Hh; reflexivity);
    rewrite (contains_snoc_sep p _ _ Hpne) by (apply Hh; reflexivity); exact Hn.
Qed.

(* header_key looks at the first statement only *)
Lemma header_key_first (e : ev) (B : list (N * str)) (Z : str) : ev_ok e -> (forall lvl n x, e = ECm lvl n x -> x = n /\ phname n) ->
  ev_lvl e = 0%nat -> header_key B (ev_text cm_pair e ++ Z) = hk_of [e] B.
Proof.
  intros He Hph Hl.
  assert (Hsp : has_char c_sp w_BLOCKCOMMENT = false) by reflexivity.
  assert (Hlf : has_char c_lf w_BLOCKCOMMENT = false) by reflexivity.
  destruct e as [lvl k v|lvl k l|lvl k|lvl|lvl n x]; cbn [ev_lvl] in Hl; subst lvl; cbn [ev_text hk_of ev_ok] in *.
  - destruct He as [Hk _]. destruct (simple_key_inv k Hk) as (Hkt & _). unfold leaf_line. rewrite line0.
    destruct (Nat.max 8 (30 - length (FK k) - 4 * 0)) as [|m] eqn:Em; [lia|].
    cbn [spaces repeat]. rewrite <- !app_assoc. cbn [app]. unfold header_key. rewrite (key_not_block (FK k) c_sp _ Hkt Hsp). reflexivity.
  - destruct He as [Hk _]. destruct (simple_key_inv k Hk) as (Hkt & Hkx & _). rewrite Hkx, line0.
    rewrite <- !app_assoc. cbn [app]. unfold header_key. rewrite (key_not_block (FK k) c_lf _ Hkt Hlf). reflexivity.
  - destruct (simple_key_inv k He) as (Hkt & Hkx & _). rewrite Hkx, line0.
    rewrite <- !app_assoc. cbn [app]. unfold header_key. rewrite (key_not_block (FK k) c_lf _ Hkt Hlf). reflexivity.
  - reflexivity.
  - destruct (Hph 0%nat n x eq_refl) as [-> (w & i & Hw & Hi & ->)].
    rewrite (cm_pair_ph 0 _ (ex_intro _ w (ex_intro _ i (conj Hw (conj Hi eq_refl))))). rewrite line0.
    rewrite <- !app_assoc.
    destruct Hw as [-> | ->].
    + unfold header_key. assert (E1 : forall r : list N, starts_with w_BLOCKCOMMENT (placeholder w_LINECOMMENT i ++ r) = false) by (intros r; reflexivity).
      rewrite E1. assert (E2 : starts_with w_BLOCKCOMMENT (placeholder w_LINECOMMENT i) = false) by reflexivity. rewrite E2. reflexivity.
    + fold (bph i). assert (E2 : starts_with w_BLOCKCOMMENT (bph i) = true) by reflexivity. rewrite E2, ph_id_bph.
      unfold header_key. set (rest := spaces _ ++ _).
      assert (E1 : starts_with w_BLOCKCOMMENT (bph i ++ rest) = true) by reflexivity. rewrite E1.
      assert (E3 : drop_n (length w_BLOCKCOMMENT) (bph i ++ rest) = pad6 i ++ rest).
      { unfold bph, placeholder. rewrite <- app_assoc. apply drop_n_app. }
      rewrite E3. pose proof (all_digits_app (pad6 i) rest (pad6_digits i)) as E4. rewrite (pad6_length i Hi) in E4. rewrite E4.
      cbn [andb]. pose proof (take_n_app (pad6 i) rest) as E5. rewrite (pad6_length i Hi) in E5. rewrite E5, dec_to_N_pad6.
      fold (bph i). unfold rest. destruct (Nat.max 8 (30 - length (bph i) - 4 * 0)) as [|m] eqn:Em; [lia|].
      destruct (phname_facts (bph i) (bph_name i Hi)) as (_ & Hne & _ & Hns & _).
      cbn [app]. rewrite (match_pair_line (bph i) (S m) _ Hne Hns ltac:(lia)). reflexivity.
Qed.

Lemma hk_of_head e E' B : hk_of (e :: E') B = hk_of [e] B.
Proof. destruct e; reflexivity. Qed.

(* ================================================================================================ *)
(* 6. the insertion passes on the body of an SDict with include entries                             *)
(* ================================================================================================ *)

Lemma slook_app_other n (a : stt) qn t b : n <> qn -> slook n (a ++ (qn, t) :: b) = slook n (a ++ b).
Proof.
  intros Hne. induction a as [|[m u] a IH]; cbn [app slook].
  - destruct (str_eqb n qn) eqn:E; [apply SDictProofs.str_eqb_eq in E; contradiction|reflexivity].
  - destruct (str_eqb n m); [reflexivity|exact IH].
Qed.

Lemma gfold_base nm keep tx : forall C st, gfold nm keep tx C st = gfold nm keep tx C [] ++ st.
Proof.
  induction C as [|e C IH]; intros st; [reflexivity|]. change (gfold nm keep tx (e :: C) st) with (gfold nm keep tx C (gstep nm keep tx e ++ st)).
  change (gfold nm keep tx (e :: C) []) with (gfold nm keep tx C (gstep nm keep tx e ++ [])). rewrite (IH (gstep nm keep tx e ++ st)), (IH (gstep nm keep tx e ++ [])).
  rewrite app_nil_r, app_assoc. reflexivity.
Qed.

Lemma gfold_ext nm keep keep' tx : forall C st, (forall e, In e C -> keep (fst e) = keep' (fst e)) -> gfold nm keep tx C st = gfold nm keep' tx C st.
Proof.
  induction C as [|e C IH]; intros st H; [reflexivity|]. change (gfold nm keep tx (e :: C) st) with (gfold nm keep tx C (gstep nm keep tx e ++ st)).
  change (gfold nm keep' tx (e :: C) st) with (gfold nm keep' tx C (gstep nm keep' tx e ++ st)).
  assert (Eg : gstep nm keep tx e = gstep nm keep' tx e) by (unfold gstep; rewrite (H e (or_introl eq_refl)); reflexivity).
  rewrite Eg. apply IH. intros e' He'. apply H. right. exact He'.
Qed.

Lemma cat_cmS_ext st st' es : (forall lvl n x, In (ECm lvl n x) es -> slook n st = slook n st') -> cat (cmS st) es = cat (cmS st') es.
Proof.
  induction es as [|e es IH]; intros H; [reflexivity|]. rewrite !cat_cons, IH by (intros l n x Hin; apply (H l n x); right; exact Hin). f_equal.
  destruct e as [lvl k v|lvl k l|lvl k|lvl|lvl n x]; try reflexivity. cbn [ev_text]. unfold cmS. rewrite (H lvl n x (or_introl eq_refl)). reflexivity.
Qed.

Lemma incfree_closed' (t : str) : incfree t = true -> forall i lvl, i < 1000000 -> Gc (iph i) (line lvl t true).
Proof. intros Ht i lvl Hi. apply (Gc_line_free _ _ _ (iph_chars i) (iph_ne i)). exact (incfree_contains t i Ht Hi). Qed.

Lemma nh_incfree' : incfree nh_txt = true.
Proof. vm_compute. reflexivity. Qed.

(* the block comment texts put in place of their placeholder lines are closed for include placeholders *)
Lemma st_freeI_gfold keep hk : forall C st, (forall e : N * str, In e C -> incfree (snd e) = true) -> st_freeI st ->
  st_freeI (gfold bph keep (btext hk) C st).
Proof.
  induction C as [|e C IH]; intros st H Hst; [exact Hst|].
  change (gfold bph keep (btext hk) (e :: C) st) with (gfold bph keep (btext hk) C (gstep bph keep (btext hk) e ++ st)).
  apply IH; [intros e' He'; apply H; right; exact He'|]. unfold gstep. destruct (keep (fst e)); [|exact Hst].
  intros n t Hn. cbn [app slook] in Hn. destruct (str_eqb n (bph (fst e))); [|exact (Hst n t Hn)].
  assert (Et : btext hk (fst e) (snd e) = t) by exact (f_equal (fun o => match o with Some y => y | None => t end) Hn). rewrite <- Et.
  intros i lvl Hi. pose proof (H e (or_introl eq_refl)) as Hf. unfold btext. destruct (is_hdr hk (fst e)); [|exact (incfree_closed' _ Hf i lvl Hi)].
  unfold make_default_block_comment. destruct (has_cpp_mark (snd e)); [exact (incfree_closed' _ Hf i lvl Hi)|]. rewrite line_header_split.
  apply Gc_app; [exact (incfree_closed' _ nh_incfree' i lvl Hi)|exact (incfree_closed' _ Hf i 0%nat Hi)].
Qed.

Lemma insert_includes_closed inc (X : str) : (forall i e, In (i, e) inc -> i < 1000000) -> (forall i, i < 1000000 -> Gc (iph i) X) ->
  insert_includes format_string inc X = X.
Proof.
  induction inc as [|[i e] inc IH]; intros Hlt HX; [reflexivity|].
  rewrite insert_includes_cons, (insert_include_absent i e X (HX i (Hlt i e (or_introl eq_refl)))).
  apply IH; [intros k e' Hin; apply (Hlt k e'); right; exact Hin|exact HX].
Qed.


Section WriterInc.
  Variable s : sdict.
  Hypothesis HI : ifacts s.
  Variable j : N.
  Hypothesis Hj : j < 1000000.
  Hypothesis Hjf : ~ In j (map fst (sd_lc s)).
  Let s0 := strip_inc s.
  Let HW : wfacts s0 := rereadable_facts s0 (if_strip s HI).
  Let data := sd_data s.
  Let lc := sd_lc s.
  Let bc := sd_bc s.
  Let inc := sd_inc s.
  Let Bk := filter bk data.
  Let Rk := filter (fun kc => negb (bk kc) && negb (is_inc_entry kc)) data.
  Let E0B := events 0 (Dict Bk).
  Let E0R := events 0 (Dict Rk).
  Let E0 := events 0 (Dict (sort_top (sd_data s0))).
  Let q := lph j.
  Let ids := inc_ids s.
  Let hk := hk_s s0.
  Hypothesis Hids : ids <> [].
  Let E := E0B ++ ECm 0 q q :: E0R.
  Let txtF : N -> str := fun i => inc_directive (inc_name inc i).

  Lemma E0_split : E0 = E0B ++ E0R.
  Proof. unfold E0, s0. rewrite (D0_eq s HI). apply events_app. Qed.

  Lemma Hq : phname q.
  Proof. exact (lph_name j Hj). Qed.

  Lemma q_fresh : ~ In q (cnames E0).
  Proof.
    intros Hin. destruct (cnames_In E0 q Hin) as (es1 & lvl & x & es2 & EE).
    assert (Hev : In (ECm lvl q x) E0) by (rewrite EE; apply in_or_app; right; left; reflexivity).
    destruct (ph_entry_inv _ _ _ _ _ (E0_entry s0 HW lvl q x Hev)) as (_ & _ & [[Hp (t & Ht)]|[Hp _]]).
    - unfold q in Ht. rewrite ph_id_lph in Ht. apply Hjf. apply in_map_iff. exists (j, t). split; [reflexivity|exact (tlookup_In _ _ _ Ht)].
    - unfold q in Hp. rewrite is_ph_cross_bl in Hp. discriminate Hp.
  Qed.

  Lemma q_fresh_B : ~ In q (cnames E0B).
  Proof. intros H. apply q_fresh. rewrite E0_split, cnames_app. apply in_or_app. left. exact H. Qed.
  Lemma q_fresh_R : ~ In q (cnames E0R).
  Proof. intros H. apply q_fresh. rewrite E0_split, cnames_app. apply in_or_app. right. exact H. Qed.

  Lemma E_ok : Forall ev_ok E.
  Proof.
    pose proof (E0_ok s0 HW) as H. fold E0 in H. rewrite E0_split in H. apply Forall_app in H. destruct H as [H1 H2].
    unfold E. apply Forall_app. split; [exact H1|]. constructor; [exact I|exact H2].
  Qed.

  Lemma E_ph : ph_events E.
  Proof.
    intros lvl n x Hin. unfold E in Hin. apply in_app_or in Hin. destruct Hin as [Hin|[Hin|Hin]].
    - apply (E0_ph s0 HW lvl n x). fold E0. rewrite E0_split. apply in_or_app. left. exact Hin.
    - inversion Hin; subst. split; [reflexivity|exact Hq].
    - apply (E0_ph s0 HW lvl n x). fold E0. rewrite E0_split. apply in_or_app. right. exact Hin.
  Qed.

  Lemma E_nd : NoDup (cnames E).
  Proof.
    unfold E. rewrite cnames_app, cnames_cm. pose proof (E0_nd s0 HW) as H. fold E0 in H. rewrite E0_split, cnames_app in H.
    change (cnames E0B ++ q :: cnames E0R) with (cnames E0B ++ [q] ++ cnames E0R). apply NoDup_splice; [exact H|constructor; [intros []|constructor]|].
    intros x [<-|[]] Hin. apply q_fresh. rewrite E0_split, cnames_app. exact Hin.
  Qed.

  Lemma memb_E n : n <> q -> memb E n = memb E0 n.
  Proof.
    intros Hne. unfold memb, E. rewrite E0_split, !cnames_app, cnames_cm, !existsb_app. cbn [existsb].
    destruct (str_eqb n q) eqn:Eq; [apply SDictProofs.str_eqb_eq in Eq; contradiction|reflexivity].
  Qed.

  Lemma ids_nd : NoDup ids. Proof. exact (proj1 (inc_ids_facts s HI)). Qed.
  Lemma ids_sm : forall i, In i ids -> i < 1000000.
  Proof. intros i Hi. pose proof (proj1 (proj2 (inc_ids_facts s HI))) as H. unfold small in H. rewrite Forall_forall in H. exact (H i Hi). Qed.
  Lemma ids_names i : In i ids -> name_cond (inc_name inc i) = true.
  Proof. intros Hi. apply (if_names s HI). unfold inc_names. apply in_map. exact Hi. Qed.

  Lemma name_cond_inv nm : name_cond nm = true -> inc_name_ok nm = true /\ phfree nm = true /\ incfree nm = true.
  Proof. unfold name_cond. intros H. apply andb_true_iff in H. destruct H as [H H3]. apply andb_true_iff in H. destruct H as [H1 H2]. repeat split; assumption. Qed.

  (* the texts of the block of lines, before and after the include pass, are closed for comment placeholders *)
  Definition T0 : str := removelast (gap ids pc).
  Definition TF : str := removelast (gap ids txtF).

  Lemma T0_free p lvl : phname p -> Gc p (line lvl T0 true).
  Proof.
    intros Hp. destruct (phname_facts p Hp) as (Hpc & Hpne & _). apply (Gc_gap_line p lvl ids pc Hpc Hpne Hids).
    intros i Hi. exact (pc_no_ph p i Hp (ids_sm i Hi)).
  Qed.
  Lemma TF_free p lvl : phname p -> Gc p (line lvl TF true).
  Proof.
    intros Hp. destruct (phname_facts p Hp) as (Hpc & Hpne & _). apply (Gc_gap_line p lvl ids txtF Hpc Hpne Hids).
    intros i Hi. apply dir_no_ph; [exact Hp|]. exact (proj1 (proj2 (name_cond_inv _ (ids_names i Hi)))).
  Qed.

  (* the formatted body *)
  Lemma body_eq : native_body data = cat (cmS [(q, T0)]) E.
  Proof.
    unfold native_body, data. rewrite (sort_top_inc s HI), fmt_dict, !fentries_app. rewrite (Ik_eq s HI), fentries_inc. fold data. fold Bk Rk.
    unfold E. rewrite cat_app, cat_cons. cbn [ev_text]. unfold cmS at 2. cbn [slook]. rewrite ScalarProofs.str_eqb_refl.
    rewrite (cat_cmS_other [] q T0 E0B q_fresh_B), (cat_cmS_other [] q T0 E0R q_fresh_R), !cat_cmS_nil.
    unfold T0. rewrite (gap_line ids pc Hids). unfold E0B, E0R. rewrite <- !fmt_events_dict with (anc := false), !fmt_dict.
    reflexivity.
  Qed.

  (* ---- the header key ---- *)
  Lemma hk_eq : header_key bc (cat (cmS [(q, T0)]) E) = hk.
  Proof.
    unfold hk, hk_s. fold E0. rewrite E0_split. unfold E. destruct E0B as [|e E'] eqn:EB.
    - (* no top-level block comment: the body begins with an include placeholder line *)
      cbn [app]. rewrite cat_cons. cbn [ev_text]. unfold cmS at 1. cbn [slook]. rewrite ScalarProofs.str_eqb_refl.
      unfold T0. rewrite (gap_line ids pc Hids). destruct ids as [|i1 r]; [congruence|].
      change (gap (i1 :: r) pc) with ((pc i1 ++ [c_lf]) ++ gap r pc). unfold pc at 1. rewrite <- !app_assoc.
      assert (E1 : forall Z : str, header_key bc (iph i1 ++ Z) = None) by (intros Z; reflexivity). rewrite E1.
      destruct (hk_of E0R (sd_bc s0)) as [h|] eqn:Eh; [|reflexivity]. exfalso.
      assert (Hk : hk_s s0 = Some h) by (unfold hk_s; fold E0; rewrite E0_split, EB; exact Eh).
      destruct (hk_some s0 HW h Hk) as (E'' & b & EE & Hh & _). fold E0 in EE. rewrite E0_split, EB in EE. cbn [app] in EE.
      unfold E0R in EE. destruct Rk as [|kc Rk'] eqn:ER; [discriminate EE|].
      destruct (first_event_entry (kc :: Rk') kc Rk' 0%nat (bph h) (bph h) E'' eq_refl EE) as [Hc _].
      destruct (cm_entry_inv _ _ _ Hc) as [Ekc _].
      assert (Hin : In kc Rk) by (rewrite ER; left; reflexivity). unfold Rk in Hin. apply filter_In in Hin. destruct Hin as [_ Hb].
      rewrite Ekc in Hb. unfold bk in Hb. cbn [fst] in Hb. rewrite (bph_block h Hh) in Hb. discriminate Hb.
    - cbn [app]. rewrite cat_cons. rewrite (hk_of_head e (E' ++ E0R)).
      assert (Hin : In e E0B) by (rewrite EB; left; reflexivity).
      assert (Hin0 : In e E0) by (rewrite E0_split, EB; left; reflexivity).
      assert (Et : ev_text (cmS [(q, T0)]) e = ev_text cm_pair e).
      { destruct e as [lvl k v|lvl k l|lvl k|lvl|lvl n x]; try reflexivity. cbn [ev_text]. unfold cmS. cbn [slook].
        destruct (str_eqb n q) eqn:En; [|reflexivity]. apply SDictProofs.str_eqb_eq in En. subst n. exfalso. apply q_fresh.
        exact (In_cnames _ _ _ _ Hin0). }
      rewrite Et. apply header_key_first.
      + pose proof (E0_ok s0 HW) as H. fold E0 in H. rewrite Forall_forall in H. exact (H e Hin0).
      + intros lvl n x ->. exact (E0_ph s0 HW lvl n x Hin0).
      + pose proof (E0_hd s0) as H. fold E0 in H. rewrite E0_split, EB in H. exact H.
  Qed.

  (* ---- block comments ---- *)
  Definition stB : stt := bfold E hk bc [(q, T0)].
  Definition stBp : stt := bfold E hk bc [].

  Lemma st0_free : st_free [(q, T0)].
  Proof. intros n t Hn p lvl Hp. cbn [slook] in Hn. destruct (str_eqb n q); [|discriminate Hn]. inversion Hn; subst. exact (T0_free p lvl Hp). Qed.

  Lemma blocks_done_inc : insert_blocks make_default_block_comment hk bc [] (cat (cmS [(q, T0)]) E) = cat (cmS stB) E.
  Proof.
    change (@nil N) with (@concat N []). unfold stB.
    apply (insert_blocks_spec E E_ok E_ph E_nd hk bc (wf_bc_nd s0 HW) (wf_bc_lt s0 HW)) with (Bd := []).
    - intros i b Hin _. exact (wf_bc_good s0 HW i b Hin).
    - intros i b i' b' H1 H2 _ _ Eb. subst b'.
      pose proof (NoDup_map_inj_on snd bc (wf_bc_dist s0 HW) (i, b) (i', b) H1 H2 eq_refl) as E'. inversion E'. reflexivity.
    - intros h b0 Hin0 _ Hh Hc i' b' Hin' _ Eb. destruct (wf_nh s0 HW) as [Hm|Hn].
      + unfold hdr_marked in Hm. fold hk in Hm. unfold is_hdr in Hh. destruct hk as [h0|]; [|discriminate Hh].
        apply N.eqb_eq in Hh. subst h0. unfold tget in Hm. change (sd_bc s0) with bc in Hm. rewrite (In_tlookup h b0 bc (wf_bc_nd s0 HW) Hin0) in Hm.
        rewrite Hm in Hc. discriminate Hc.
      + apply Hn. subst b'. apply in_map_iff. exists (i', nh_txt). split; [reflexivity|exact Hin'].
    - reflexivity.
    - split; [constructor|intros x []].
    - exact st0_free.
    - intros e _. cbn [slook]. destruct (str_eqb (bph (fst e)) q) eqn:Eq; [|reflexivity]. apply SDictProofs.str_eqb_eq in Eq. exfalso. exact (bph_lph_ne _ _ Eq).
  Qed.

  Definition preI : str := match hk with None => native_header | Some _ => [] end.

  Lemma stB_split : stB = stBp ++ [(q, T0)].
  Proof. unfold stB, stBp, bfold. fold (bstep E hk). exact (gfold_base bph (fun i => memb E (bph i)) (btext hk) bc [(q, T0)]). Qed.

  Lemma slook_q_stB : slook q stB = Some T0.
  Proof.
    unfold stB. change (bfold E hk bc [(q, T0)]) with (gfold bph (fun i => memb E (bph i)) (btext hk) bc [(q, T0)]).
    rewrite slook_gfold_other by (intros e _ Heq; exact (bph_lph_ne _ _ Heq)). cbn [slook]. rewrite ScalarProofs.str_eqb_refl. reflexivity.
  Qed.

  (* ---- the include pass ---- *)
  Lemma E0B_ok : Forall ev_ok E0B /\ ph_events E0B /\ Forall ev_ok E0R /\ ph_events E0R.
  Proof.
    pose proof (E0_ok s0 HW) as H. fold E0 in H. rewrite E0_split in H. apply Forall_app in H. destruct H as [H1 H2].
    split; [exact H1|]. split; [|split; [exact H2|]].
    - intros lvl n x Hin. apply (E0_ph s0 HW lvl n x). fold E0. rewrite E0_split. apply in_or_app. left. exact Hin.
    - intros lvl n x Hin. apply (E0_ph s0 HW lvl n x). fold E0. rewrite E0_split. apply in_or_app. right. exact Hin.
  Qed.

  Lemma cat_stB_pure es : ~ In q (cnames es) -> forall t, cat (cmS (stBp ++ [(q, t)])) es = cat (cmS stBp) es.
  Proof.
    intros Hq' t. apply cat_cmS_ext. intros lvl n x Hin. assert (Hne : n <> q) by (intros ->; apply Hq'; exact (In_cnames _ _ _ _ Hin)).
    rewrite (slook_app_other n stBp q t [] Hne), app_nil_r. reflexivity.
  Qed.

  Lemma nh_incfree : incfree nh_txt = true.
  Proof. vm_compute. reflexivity. Qed.

  Lemma incfree_closed (t : str) : incfree t = true -> forall i lvl, i < 1000000 -> Gc (iph i) (line lvl t true).
  Proof. intros Ht i lvl Hi. apply (Gc_line_free _ _ _ (iph_chars i) (iph_ne i)). exact (incfree_contains t i Ht Hi). Qed.

  Lemma stBp_freeI : st_freeI stBp.
  Proof.
    unfold stBp, bfold. fold (bstep E hk). change (fold_left (fun st e => bstep E hk e ++ st) bc []) with (gfold bph (fun i => memb E (bph i)) (btext hk) bc []).
    assert (G : forall C st, (forall e, In e C -> incfree (snd e) = true) -> st_freeI st -> st_freeI (gfold bph (fun i => memb E (bph i)) (btext hk) C st)).
    { induction C as [|e C IH]; intros st H Hst; [exact Hst|].
      change (gfold bph (fun i => memb E (bph i)) (btext hk) (e :: C) st) with (gfold bph (fun i => memb E (bph i)) (btext hk) C (gstep bph (fun i => memb E (bph i)) (btext hk) e ++ st)).
      apply IH; [intros e' He'; apply H; right; exact He'|]. unfold gstep. destruct (memb E (bph (fst e))); [|exact Hst].
      intros n t Hn. cbn [app slook] in Hn. destruct (str_eqb n (bph (fst e))); [|exact (Hst n t Hn)].
      assert (Et : btext hk (fst e) (snd e) = t) by exact (f_equal (fun o => match o with Some y => y | None => t end) Hn). rewrite <- Et.
      intros i lvl Hi. pose proof (H e (or_introl eq_refl)) as Hf. unfold btext. destruct (is_hdr hk (fst e)); [|exact (incfree_closed _ Hf i lvl Hi)].
      unfold make_default_block_comment. destruct (has_cpp_mark (snd e)); [exact (incfree_closed _ Hf i lvl Hi)|]. rewrite line_header_split.
      apply Gc_app; [exact (incfree_closed _ nh_incfree i lvl Hi)|exact (incfree_closed _ Hf i 0%nat Hi)]. }
    apply G; [|intros n t Hn; discriminate Hn]. intros [i b] Hin. exact (if_bc s HI i b Hin).
  Qed.

  Lemma preI_closedI i : i < 1000000 -> Gc (iph i) preI.
  Proof. intros Hi. unfold preI. destruct hk; [apply Gc_nil|]. change native_header with (line 0 nh_txt true). exact (incfree_closed _ nh_incfree i 0%nat Hi). Qed.

  Lemma includes_done : insert_includes format_string inc (preI ++ cat (cmS stB) E) = preI ++ cat (cmS ((q, TF) :: stB)) E.
  Proof.
    destruct E0B_ok as (OkB & PhB & OkR & PhR).
    assert (EL : cat (cmS stB) E = cat (cmS stBp) E0B ++ gap ids pc ++ cat (cmS stBp) E0R).
    { unfold E. rewrite cat_app, cat_cons. cbn [ev_text]. unfold cmS at 2. rewrite slook_q_stB. unfold T0. rewrite (gap_line ids pc Hids).
      rewrite stB_split, (cat_stB_pure E0B q_fresh_B), (cat_stB_pure E0R q_fresh_R). reflexivity. }
    assert (ER : cat (cmS ((q, TF) :: stB)) E = cat (cmS stBp) E0B ++ gap ids txtF ++ cat (cmS stBp) E0R).
    { unfold E. rewrite cat_app, cat_cons. rewrite (cat_cmS_other stB q TF E0B q_fresh_B), (cat_cmS_other stB q TF E0R q_fresh_R).
      rewrite stB_split, (cat_stB_pure E0B q_fresh_B), (cat_stB_pure E0R q_fresh_R).
      cbn [ev_text]. unfold cmS at 2. cbn [slook]. rewrite ScalarProofs.str_eqb_refl. unfold TF. rewrite (gap_line ids txtF Hids). reflexivity. }
    rewrite EL, ER, !app_assoc. rewrite <- (app_assoc (preI ++ cat (cmS stBp) E0B) (gap ids pc)), <- (app_assoc (preI ++ cat (cmS stBp) E0B) (gap ids txtF)).
    rewrite (inc_pass inc ids ids_nd ids_sm (fun i Hi => proj2 (proj2 (name_cond_inv _ (ids_names i Hi)))) (preI ++ cat (cmS stBp) E0B) (cat (cmS stBp) E0R)
               (fun i Hi => Gc_app _ _ _ (preI_closedI i Hi) (Gc_catI i stBp E0B Hi OkB PhB stBp_freeI))
               (fun i Hi => Gc_catI i stBp E0R Hi OkR PhR stBp_freeI) inc [] pc eq_refl (if_nd s HI) (if_lt s HI)).
    - f_equal. f_equal. apply gap_ext. intros k Hk. rewrite (tupd_lookup inc pc k (if_nd s HI)). unfold txtF, inc_name.
      destruct (proj2 (proj2 (inc_ids_facts s HI)) k Hk) as [e He]. fold inc in He. rewrite He. destruct e as [[d nm] p']. reflexivity.
    - intros k Hk. left. reflexivity.
    - intros k Hk _. reflexivity.
  Qed.

  (* ---- line comments ---- *)
  Definition stI : stt := (q, TF) :: stB.
  Definition stF : stt := lfold E lc stI.

  Lemma preI_closed p : phname p -> Gc p preI.
  Proof. intros Hp. unfold preI. destruct hk; [apply Gc_nil|exact (native_header_closed p Hp)]. Qed.

  Lemma stB_free : st_free stB.
  Proof.
    unfold stB, bfold. fold (bstep E hk). change (fold_left (fun st e => bstep E hk e ++ st) bc [(q, T0)]) with (gfold bph (fun i => memb E (bph i)) (btext hk) bc [(q, T0)]).
    apply st_free_gfold; [|exact st0_free].
    intros [i b] Hin _ p lvl Hp. cbn [fst snd]. destruct (wf_bc_good s0 HW i b Hin) as [_ Hf]. unfold btext.
    destruct (is_hdr hk i); [|exact (closed_of_phfree b Hf p lvl Hp)]. unfold make_default_block_comment.
    destruct (has_cpp_mark b); [exact (closed_of_phfree b Hf p lvl Hp)|]. rewrite line_header_split.
    apply Gc_app; [exact (closed_of_phfree nh_txt (proj1 (proj2 nh_good)) p lvl Hp)|exact (closed_of_phfree b Hf p 0%nat Hp)].
  Qed.

  Lemma lines_done : insert_line_comments lc (preI ++ cat (cmS stI) E) = preI ++ cat (cmS stF) E.
  Proof.
    unfold stF.
    apply (insert_lines_spec E E_ok E_ph E_nd preI preI_closed lc (wf_lc_nd s0 HW) (wf_lc_lt s0 HW)) with (Cd := []).
    - intros i t Hin _. exact (wf_lc_free s0 HW i t Hin).
    - reflexivity.
    - intros n t Hn. unfold stI in Hn. cbn [slook] in Hn. destruct (str_eqb n q); [|exact (stB_free n t Hn)].
      inversion Hn; subst. intros p lvl Hp. exact (TF_free p lvl Hp).
    - intros [i t] Hin. cbn [fst]. unfold stI. cbn [slook].
      assert (Hne : lph i <> q).
      { unfold q. intros Eq. apply (placeholder_injective _ _ _ (wf_lc_lt s0 HW i t Hin) Hj) in Eq. subst i. apply Hjf. apply in_map_iff. exists (j, t). split; [reflexivity|exact Hin]. }
      destruct (str_eqb (lph i) q) eqn:Eq; [apply SDictProofs.str_eqb_eq in Eq; contradiction|].
      unfold stB. change (bfold E hk bc [(q, T0)]) with (gfold bph (fun i => memb E (bph i)) (btext hk) bc [(q, T0)]).
      rewrite slook_gfold_other by (intros e' _ Heq; exact (bph_lph_ne _ _ Heq)). cbn [slook]. rewrite Eq. reflexivity.
  Qed.

  (* ---- the written text ---- *)
  Theorem writer_text_inc : to_string_sd s = remove_trailing_spaces (preI ++ cat (cmS stF) E).
  Proof.
    unfold to_string_sd. f_equal. fold data bc inc lc. rewrite body_eq. unfold insert_block_comments. rewrite hk_eq. cbv zeta.
    rewrite blocks_done_inc.
    assert (E1 : match hk with None => make_default_block_comment [] ++ cat (cmS stB) E | Some _ => cat (cmS stB) E end = preI ++ cat (cmS stB) E).
    { unfold preI. destruct hk; reflexivity. }
    rewrite E1, includes_done. exact lines_done.
  Qed.

  (* ---- the final state: as for the SDict without include entries ---- *)
  Lemma keepL_eq e : In e lc -> memb E (lph (fst e)) = keepL s0 (fst e).
  Proof.
    intros Hin. unfold keepL. fold E0. apply memb_E. destruct e as [i t]. cbn [fst]. unfold q. intros Eq.
    apply (placeholder_injective _ _ _ (wf_lc_lt s0 HW i t Hin) Hj) in Eq. subst i. apply Hjf. apply in_map_iff. exists (j, t). split; [reflexivity|exact Hin].
  Qed.
  Lemma keepB_eq (e : N * str) : memb E (bph (fst e)) = keepB s0 (fst e).
  Proof. unfold keepB. fold E0. apply memb_E. intros Eq. exact (bph_lph_ne _ _ Eq). Qed.

  Lemma slook_final n : n <> q -> slook n stF = slook n (stL s0).
  Proof.
    intros Hne. unfold stF, stI, stL, RereadWrite.stB, lfold. fold (lstep E).
    change (fold_left (fun st e => lstep E e ++ st) lc ((q, TF) :: stB)) with (gfold lph (fun i => memb E (lph i)) (fun _ t => t) lc ((q, TF) :: stB)).
    rewrite (gfold_ext lph (fun i => memb E (lph i)) (keepL s0) (fun _ t => t) lc _ keepL_eq).
    rewrite (gfold_base lph (keepL s0) (fun _ t => t) lc ((q, TF) :: stB)), (gfold_base lph (keepL s0) (fun _ t => t) (sd_lc s0) (gfold bph (keepB s0) (btext (hk_s s0)) (sd_bc s0) [])).
    change (sd_lc s0) with lc. change (sd_bc s0) with bc. fold hk.
    rewrite (slook_app_other n _ q TF stB Hne). rewrite stB_split. unfold stBp, bfold. fold (bstep E hk).
    change (fold_left (fun st e => bstep E hk e ++ st) bc []) with (gfold bph (fun i => memb E (bph i)) (btext hk) bc []).
    rewrite (gfold_ext bph (fun i => memb E (bph i)) (keepB s0) (btext hk) bc [] (fun e _ => keepB_eq e)).
    rewrite app_assoc, (slook_app_other n _ q T0 [] Hne), app_nil_r. reflexivity.
  Qed.

  Lemma cat_final es : ~ In q (cnames es) -> cat (cmS stF) es = cat (cmS (stL s0)) es.
  Proof.
    intros Hq'. apply cat_cmS_ext. intros lvl n x Hin. apply slook_final. intros ->. apply Hq'. exact (In_cnames _ _ _ _ Hin).
  Qed.

  Lemma slook_q_final : slook q stF = Some TF.
  Proof.
    unfold stF, stI, lfold. fold (lstep E).
    change (fold_left (fun st e => lstep E e ++ st) lc ((q, TF) :: stB)) with (gfold lph (fun i => memb E (lph i)) (fun _ t => t) lc ((q, TF) :: stB)).
    rewrite slook_gfold_other; [cbn [slook]; rewrite ScalarProofs.str_eqb_refl; reflexivity|].
    intros [i t] Hin Eq. cbn [fst] in Eq. unfold q in Eq. apply (placeholder_injective _ _ _ (wf_lc_lt s0 HW i t Hin) Hj) in Eq. subst i.
    apply Hjf. apply in_map_iff. exists (j, t). split; [reflexivity|exact Hin].
  Qed.

  (* ---- the canonical document ---- *)
  Let GN : str -> str -> str := fun n _ => res_name n.
  Let G : str -> str -> str := res_text lc bc.
  Let ce : key * tree -> key * tree := cmap_entry (gkv GN G) idf.
  Let c := written_doc s0.

  Lemma is_bc_hdr_entry : is_bc_entry hdr_entry = true.
  Proof. reflexivity. Qed.

  Lemma bpart_csort x : bpart (csort x) = bpart x.
  Proof.
    unfold bpart, csort. rewrite filter_app, !filter_filter.
    rewrite (filter_none (fun kc => negb (is_bc_entry kc) && is_bc_entry kc)) by (intros kc _; destruct (is_bc_entry kc); reflexivity).
    rewrite app_nil_r. apply filter_ext. intros kc. destruct (is_bc_entry kc); reflexivity.
  Qed.
  Lemma rpart_csort x : rpart (csort x) = rpart x.
  Proof.
    unfold rpart, csort. rewrite filter_app, !filter_filter.
    rewrite (filter_none (fun kc => is_bc_entry kc && negb (is_bc_entry kc))) by (intros kc _; destruct (is_bc_entry kc); reflexivity).
    apply filter_ext. intros kc. destruct (is_bc_entry kc); reflexivity.
  Qed.

  Lemma canon_parts : bpart (canon s0) = map ce Bk /\ rpart (canon s0) = map ce Rk.
  Proof.
    rewrite (canon_eq s0). fold lc bc GN G ce. unfold bpart, rpart. rewrite !filter_map_comm. split.
    - unfold Bk, data. rewrite <- (Bk_eq s HI). f_equal. apply filter_ext_in. intros kc Hin. exact (ce_bk s0 HW kc Hin).
    - unfold Rk, data. rewrite <- (Rk_eq s). f_equal. apply filter_ext_in. intros kc Hin. f_equal. exact (ce_bk s0 HW kc Hin).
  Qed.

  Lemma shape_parts : cshape (Dict Bk) = true /\ cshape (Dict Rk) = true.
  Proof.
    pose proof (D_shape s0 HW) as H. unfold s0 in H. rewrite (D0_eq s HI), cshape_app in H. apply andb_true_iff in H. exact H.
  Qed.

  Lemma GN_cm' n x : is_cm n = true -> is_cm (GN n x) = true.
  Proof. exact (GN_cm n x). Qed.

  Lemma events_parts : events 0 (Dict (map ce Bk)) = map (ev_map GN G idf) E0B /\ events 0 (Dict (map ce Rk)) = map (ev_map GN G idf) E0R.
  Proof.
    destruct shape_parts as [HB HR]. unfold ce. rewrite <- !cmapg_dict. split; apply cmapg_events; try exact GN_cm'; assumption.
  Qed.

  Lemma E0B_head h : hk = Some h -> exists E', E0B = ECm 0 (bph h) (bph h) :: E'.
  Proof.
    intros Hk. destruct (hk_some s0 HW h Hk) as (E'' & b & EE & Hh & _). fold E0 in EE. rewrite E0_split in EE.
    destruct E0B as [|e E'] eqn:EB.
    - exfalso. cbn [app] in EE. unfold E0R in EE. destruct Rk as [|kc Rk'] eqn:ER; [discriminate EE|].
      destruct (first_event_entry (kc :: Rk') kc Rk' 0%nat (bph h) (bph h) E'' eq_refl EE) as [Hc _].
      destruct (cm_entry_inv _ _ _ Hc) as [Ekc _].
      assert (Hin : In kc Rk) by (rewrite ER; left; reflexivity). unfold Rk in Hin. apply filter_In in Hin. destruct Hin as [_ Hb].
      rewrite Ekc in Hb. unfold bk in Hb. cbn [fst] in Hb. rewrite (bph_block h Hh) in Hb. discriminate Hb.
    - cbn [app] in EE. inversion EE; subst. exists E'. reflexivity.
  Qed.

  (* the texts of the comment events in the final state *)
  Lemma rest_texts h : hk = Some h -> forall lvl n x, In (ECm lvl n x) E0 -> n <> bph h -> slook n (stL s0) = Some (G n x).
  Proof.
    intros Hk lvl n x Hin Hne. destruct (final_text s0 HW lvl n x Hin) as [(i & t & En & _ & HG & Hs)|(i & b' & En & Hi & Hb' & HG & Hs)].
    - change (res_text (sd_lc s0) (sd_bc s0) n x) with (G n x) in HG. rewrite HG. exact Hs.
    - change (res_text (sd_lc s0) (sd_bc s0) n x) with (G n x) in HG. rewrite HG, Hs. f_equal. unfold btext, is_hdr. fold hk. rewrite Hk.
      destruct (h =? i) eqn:Ehi; [|reflexivity]. apply N.eqb_eq in Ehi. subst i. contradiction.
  Qed.

  Lemma none_texts : hk = None -> forall lvl n x, In (ECm lvl n x) E0 -> slook n (stL s0) = Some (G n x).
  Proof.
    intros Hk lvl n x Hin. destruct (final_text s0 HW lvl n x Hin) as [(i & t & En & _ & HG & Hs)|(i & b' & En & Hi & Hb' & HG & Hs)].
    - change (res_text (sd_lc s0) (sd_bc s0) n x) with (G n x) in HG. rewrite HG. exact Hs.
    - change (res_text (sd_lc s0) (sd_bc s0) n x) with (G n x) in HG. rewrite HG, Hs. unfold btext, is_hdr. fold hk. rewrite Hk. reflexivity.
  Qed.

  Lemma inc_lines_eq : cat cm_line (map inc_ev (inc_names s)) = gap ids txtF.
  Proof.
    unfold inc_names. fold ids inc. unfold txtF.
    assert (Gl : forall l : list N, cat cm_line (map inc_ev (map (inc_name inc) l)) = gap l (fun i => inc_directive (inc_name inc i))).
    { induction l as [|i r IH]; [reflexivity|]. unfold gap in *. cbn [map flat_map]. rewrite cat_cons, IH. reflexivity. }
    apply Gl.
  Qed.

  Theorem writer_inner_inc : preI ++ cat (cmS stF) E = cat cm_line (inc_events c (inc_names s)).
  Proof.
    unfold inc_events. rewrite !cat_app, inc_lines_eq.
    unfold E. rewrite cat_app, cat_cons. cbn [ev_text]. unfold cmS at 2. rewrite slook_q_final. unfold TF. rewrite (gap_line ids txtF Hids).
    rewrite (cat_final E0B q_fresh_B), (cat_final E0R q_fresh_R).
    destruct canon_parts as [CB CR]. destruct events_parts as [EvB EvR].
    assert (Hnd : NoDup (cnames E0)) by exact (E0_nd s0 HW).
    unfold c, written_doc, hdr, preI. destruct hk as [h|] eqn:Ehk.
    - destruct (hk_some s0 HW h Ehk) as (E'' & b & EE & Hh & Hb & Hhd & HGb). fold E0 in EE. change (res_text (sd_lc s0) (sd_bc s0) (bph h) (bph h)) with (G (bph h) (bph h)) in HGb. rewrite Hhd.
      destruct (E0B_head h Ehk) as [E' EB]. rewrite E0_split, EB in Hnd. cbn [app] in Hnd. rewrite cnames_cm in Hnd. apply NoDup_cons_iff in Hnd. destruct Hnd as [Hnot _].
      assert (Hfirst : slook (bph h) (stL s0) = Some (make_default_block_comment b)).
      { assert (Hin0 : In (ECm 0 (bph h) (bph h)) E0) by (rewrite E0_split, EB; left; reflexivity).
        destruct (final_text s0 HW _ _ _ Hin0) as [(i & t & En & _)|(i & b' & En & Hi & Hb' & _ & Hs)]; [exfalso; exact (bph_lph_ne _ _ En)|].
        apply (placeholder_injective _ _ _ Hh Hi) in En. subst i. rewrite Hb in Hb'. inversion Hb'; subst b'.
        rewrite Hs. unfold btext, is_hdr. fold hk. rewrite Ehk, N.eqb_refl. reflexivity. }
      assert (HrB : forall lvl n x, In (ECm lvl n x) E' -> slook n (stL s0) = Some (G n x)).
      { intros lvl n x Hin. apply (rest_texts h Ehk lvl n x); [rewrite E0_split, EB; right; apply in_or_app; left; exact Hin|].
        intros ->. apply Hnot. rewrite cnames_app. apply in_or_app. left. exact (In_cnames _ _ _ _ Hin). }
      assert (HrR : forall lvl n x, In (ECm lvl n x) E0R -> slook n (stL s0) = Some (G n x)).
      { intros lvl n x Hin. apply (rest_texts h Ehk lvl n x); [rewrite E0_split; apply in_or_app; right; exact Hin|].
        intros ->. apply Hnot. rewrite cnames_app. apply in_or_app. right. exact (In_cnames _ _ _ _ Hin). }
      cbn [app]. rewrite EB, cat_cons. cbn [ev_text]. unfold cmS at 1. rewrite Hfirst.
      rewrite (cat_cmS_final GN G (stL s0) E' HrB), (cat_cmS_final GN G (stL s0) E0R HrR).
      unfold make_default_block_comment. destruct (has_cpp_mark b) eqn:Ec.
      + rewrite bpart_csort, rpart_csort, CB, CR, EvB, EvR, EB. cbn [map]. rewrite cat_cons. cbn [ev_map ev_text]. unfold cm_line. rewrite HGb.
        rewrite <- !app_assoc. reflexivity.
      + assert (Ebp : bpart (hdr_entry :: csort (canon s0)) = hdr_entry :: bpart (csort (canon s0))) by reflexivity.
        assert (Erp : rpart (hdr_entry :: csort (canon s0)) = rpart (csort (canon s0))) by reflexivity.
        rewrite Ebp, Erp, bpart_csort, rpart_csort, CB, CR, hdr_entry_events, cat_cons, EvB, EvR, EB. cbn [map]. rewrite cat_cons. cbn [ev_map ev_text]. unfold cm_line. rewrite HGb.
        rewrite line_header_split, <- !app_assoc. reflexivity.
    - rewrite (hk_none s0 HW Ehk).
      assert (Ebp : bpart (hdr_entry :: csort (canon s0)) = hdr_entry :: bpart (csort (canon s0))) by reflexivity.
      assert (Erp : rpart (hdr_entry :: csort (canon s0)) = rpart (csort (canon s0))) by reflexivity.
      rewrite Ebp, Erp, bpart_csort, rpart_csort, CB, CR, hdr_entry_events, cat_cons, EvB, EvR. cbn [ev_text]. change (cm_line 0 w_BLOCKCOMMENT nh_txt) with native_header.
      rewrite <- !app_assoc. f_equal.
      rewrite (cat_cmS_final GN G (stL s0) E0B), (cat_cmS_final GN G (stL s0) E0R); [reflexivity| |].
      + intros lvl n x Hin. apply (none_texts Ehk lvl n x). rewrite E0_split. apply in_or_app. right. exact Hin.
      + intros lvl n x Hin. apply (none_texts Ehk lvl n x). rewrite E0_split. apply in_or_app. left. exact Hin.
  Qed.
End WriterInc.

(* ================================================================================================ *)
(* 7. the written text in terms of the canonical document                                           *)
(* ================================================================================================ *)

(* an id below n that a list shorter than n does not contain *)
Lemma fresh_below : forall (n : nat) (l : list N), (length l < n)%nat -> exists j, j < N.of_nat n /\ ~ In j l.
Proof.
  induction n as [|m IH]; intros l Hl; [lia|]. destruct (in_dec N.eq_dec (N.of_nat m) l) as [Hin|Hnin].
  - pose proof (remove_length_lt N.eq_dec l (N.of_nat m) Hin) as Hr.
    destruct (IH (remove N.eq_dec (N.of_nat m) l) ltac:(lia)) as (j & Hj & Hnot). exists j. split; [lia|].
    intros Hjl. apply Hnot. apply in_in_remove; [lia|exact Hjl].
  - exists (N.of_nat m). split; [lia|exact Hnin].
Qed.

Lemma fresh_id (l : list N) : (Z.of_nat (length l) < 1000000)%Z -> exists j, j < 1000000 /\ ~ In j l.
Proof.
  intros H. destruct (fresh_below (Z.to_nat 1000000) l ltac:(lia)) as (j & Hj & Hn). exists j. split; [lia|exact Hn].
Qed.

(* NativeFormatter.to_string on an SDict of the class with at least one include entry: the canonical document of the
   SDict without its include entries, the directive lines behind the top-level block comments *)
Theorem writer_canon_inc s : rereadable_inc s = true -> (Z.of_nat (length (sd_lc s)) < 1000000)%Z -> inc_ids s <> [] ->
  to_string_sd s = remove_trailing_spaces (cat cm_line (inc_events (written_doc (strip_inc s)) (inc_names s))).
Proof.
  intros Hr Hl Hids. pose proof (rereadable_inc_facts s Hr) as HI.
  destruct (fresh_id (map fst (sd_lc s))) as (j & Hj & Hjf); [rewrite map_length; exact Hl|].
  rewrite (writer_text_inc s HI j Hj Hjf Hids). f_equal. exact (writer_inner_inc s HI j Hj Hjf Hids).
Qed.

Print Assumptions writer_canon_inc.

(* ---- no include entry in the data: the include table is not used ------------------------------------- *)
Lemma no_inc_entries s : ifacts s -> inc_ids s = [] -> forall kc, In kc (sd_data s) -> is_inc_entry kc = false.
Proof.
  intros HI Hn kc Hin. destruct (is_inc_entry kc) eqn:Ei; [|reflexivity]. exfalso.
  destruct (inc_entry_inv s HI kc Hin Ei) as (i & Ekc & Hi & _).
  assert (Hi' : In i (inc_ids s)).
  { unfold inc_ids. apply in_flat_map. exists kc. split; [exact Hin|]. rewrite Ekc, (inc_id_entry i Hi). left. reflexivity. }
  rewrite Hn in Hi'. destruct Hi'.
Qed.

Theorem writer_canon_inc0 s : rereadable_inc s = true -> inc_ids s = [] ->
  to_string_sd s = remove_trailing_spaces (cat cm_line (inc_events (written_doc (strip_inc s)) (inc_names s))).
Proof.
  intros Hr Hn. pose proof (rereadable_inc_facts s Hr) as HI. pose proof (rereadable_facts _ (if_strip s HI)) as HW.
  assert (Hd : sd_data (strip_inc s) = sd_data s).
  { cbn [strip_inc sd_data]. apply filter_all. intros kc Hin. rewrite (no_inc_entries s HI Hn kc Hin). reflexivity. }
  assert (Hnames : inc_names s = []) by (unfold inc_names; rewrite Hn; reflexivity).
  rewrite Hnames. unfold inc_events. cbn [map app].
  assert (Ecs : written_doc (strip_inc s) = bpart (written_doc (strip_inc s)) ++ rpart (written_doc (strip_inc s))).
  { apply csort_parts. unfold written_doc. exact (proj1 (hdr_sorted _)). }
  rewrite <- events_app, <- Ecs. unfold written_doc. rewrite <- (writer_canon (strip_inc s) (if_strip s HI)).
  (* both writers produce the same text: the include pass finds nothing *)
  unfold to_string_sd. f_equal. change (sd_lc (strip_inc s)) with (sd_lc s). change (sd_bc (strip_inc s)) with (sd_bc s).
  change (sd_inc (strip_inc s)) with (@nil (N * include_entry)). rewrite Hd. f_equal.
  change (insert_includes format_string [] ?x) with x.
  set (S1 := insert_block_comments make_default_block_comment (sd_bc s) (native_body (sd_data s))).
  apply insert_includes_closed; [exact (if_lt s HI)|]. intros i Hi.
  set (E0 := events 0 (Dict (sort_top (sd_data (strip_inc s))))).
  assert (ES1 : S1 = pre (strip_inc s) ++ cat (cmS (RereadWrite.stB (strip_inc s))) E0).
  { unfold S1. rewrite <- Hd.
    assert (Ebody : native_body (sd_data (strip_inc s)) = cat cm_pair E0) by (unfold native_body; apply fmt_events_dict).
    rewrite Ebody. unfold insert_block_comments. change (sd_bc s) with (sd_bc (strip_inc s)).
    rewrite (header_key_events E0 (sd_bc (strip_inc s)) (E0_ok _ HW) (E0_ph _ HW) (E0_hd _)).
    change (hk_of E0 (sd_bc (strip_inc s))) with (hk_s (strip_inc s)). cbv zeta. unfold E0. rewrite (blocks_done _ HW).
    unfold pre. destruct (hk_s (strip_inc s)); reflexivity. }
  rewrite ES1. apply Gc_app.
  - unfold pre. destruct (hk_s (strip_inc s)); [apply Gc_nil|]. change native_header with (line 0 nh_txt true). exact (incfree_closed' _ nh_incfree' i 0%nat Hi).
  - apply (Gc_catI i _ E0 Hi (E0_ok _ HW) (E0_ph _ HW)). unfold RereadWrite.stB. apply st_freeI_gfold; [|intros n t Hn'; discriminate Hn'].
    intros [k b] Hin. exact (if_bc s HI k b Hin).
Qed.

Theorem writer_canon_inc_all s : rereadable_inc s = true -> (Z.of_nat (length (sd_lc s)) < 1000000)%Z ->
  to_string_sd s = remove_trailing_spaces (cat cm_line (inc_events (written_doc (strip_inc s)) (inc_names s))).
Proof.
  intros Hr Hl. destruct (inc_ids s) as [|i r] eqn:E.
  - exact (writer_canon_inc0 s Hr E).
  - apply (writer_canon_inc s Hr Hl). rewrite E. discriminate.
Qed.

Print Assumptions writer_canon_inc_all.
