(* C03 / C12 on documents with comments inside dicts that are LIST ITEMS: the interface.
   RereadListTree .. RereadListOff replay RereadTree .. RereadOff with an event stream that enters lists (the event
   type of RereadTree is closed, so its definitions are restated there under the same names).  This file gives the
   extended vocabulary names of its own (suffix _l), so that it can be used next to the original one, and restates the
   end-to-end theorems with them. *)
From Coq Require Import String.
From Coq Require Import NArith ZArith List Bool Lia.
From DictIO Require Import Chars Str Value Scalar KeyPath SDict Layout Lexer TokParser TreeSpec NativeSpec LayoutSpec E2ESpec.
From DictIO Require Import E2EProofs E2EHoles E2EInsert E2EKeyTok E2EFullProofs RereadPlain RereadStr.
From DictIO Require RereadListTree RereadListWrite RereadListLex RereadListParse RereadListNum RereadListProofs RereadListFix RereadListOff.
Import ListNotations.
Open Scope N_scope.

(* ---- vocabulary ------------------------------------------------------------------------------------------ *)
(* cm_entry_l kc      = Some (name, text) when kc is a comment entry (string entry whose key carries the word COMMENT);
   cshape_l t         ordinary entries with simple keys and leaves of the writer domain, comment entries at EVERY dict
                      level -- also in dicts that are list items, at any nesting (dict in list in dict, in list in list);
   cstrip_l t         t without its comment entries (every dict level, lists entered);
   events_l lvl t, cat_l cm_line_l    the statements of a document in text order and their text; a list contributes the
                      lines of its skeleton (parentheses, runs of scalar items, blank line and brace of a dict item)
                      and the events of its dict items;
   cms_l t            the comment entries (level, name, text) in text order, lists entered;
   canon_l s          the data of s with every comment placeholder entry (lists entered) replaced by the id-free entry
                      (KS LINECOMMENT / KS BLOCKCOMMENT, Leaf (SStr text));
   written_doc_l s    = hdr (canon_l s): top-level block comments first, default header in front unless marked;
   cwv_l c            c with every ordinary leaf read back by the classifier (lists entered), comments untouched;
   lc_list_l / bc_list_l / lit_list_l c   the line comment texts / block comment texts / quoted literals in text order;
   number_l count c   the SDict with the placeholders numbered in text order (line comments by the counter, block
                      comments from zero), lists entered, tables filled accordingly;
   rereadable_l s     the class: RereadTree.rereadable word for word, with cshape_l / cms_l / canon_l in the place of
                      cshape / cms / canon. *)
Definition cm_entry_l := RereadListTree.cm_entry.
Definition cshape_l := RereadListTree.cshape.
Definition cstrip_l := RereadListTree.cstrip.
Definition events_l := RereadListTree.events.
Definition cat_l := RereadListTree.cat.
Definition cm_line_l := RereadListTree.cm_line.
Definition cms_l := RereadListTree.cms.
Definition canon_l := RereadListTree.canon.
Definition csort_l := RereadListTree.csort.
Definition has_header_l := RereadListTree.has_header.
Definition nh_txt_l := RereadListTree.nh_txt.
Definition cdoc_ok_l := RereadListTree.cdoc_ok.
Definition rereadable_l := RereadListTree.rereadable.
Definition written_doc_l := RereadListProofs.written_doc.
Definition cwv_l := RereadListProofs.cwv.
Definition lc_list_l := RereadListProofs.lc_list.
Definition bc_list_l := RereadListProofs.bc_list.
Definition lit_list_l := RereadListProofs.lit_list.
Definition number_l := RereadListProofs.number.
Definition count_after_l := RereadListProofs.count_after.
Definition number_off_l := RereadListOff.number_off.

(* ---- the writer ------------------------------------------------------------------------------------------ *)
Theorem written_text_l : forall s, rereadable_l s = true ->
  to_string_sd s = remove_trailing_spaces (cat_l cm_line_l (events_l 0 (Dict (written_doc_l s)))).
Proof. exact RereadListWrite.writer_canon. Qed.

Theorem header_first_l : forall s,
  has_header_l (written_doc_l s) = true /\
  (has_header_l (csort_l (canon_l s)) = true -> written_doc_l s = csort_l (canon_l s)) /\
  (has_header_l (csort_l (canon_l s)) = false -> written_doc_l s = (KS w_BLOCKCOMMENT, Leaf (SStr nh_txt_l)) :: csort_l (canon_l s)) /\
  nh_txt_l ++ [c_lf] = native_header.
Proof. exact RereadListOff.header_first. Qed.

(* ---- write, then read ------------------------------------------------------------------------------------ *)
Theorem reread_l : forall s dir count, rereadable_l s = true -> (-1 <= count)%Z ->
  (Z.of_nat (length (lc_list_l (written_doc_l s))) <= 1000000)%Z -> (Z.of_nat (length (bc_list_l (written_doc_l s))) <= 1000000)%Z ->
  (Z.of_nat (length (lit_list_l (written_doc_l s))) <= 1000000)%Z ->
  parse_string true dir count (to_string_sd s) =
  Ok (mkParsed (number_l count (written_doc_l s)) (count_after_l count (written_doc_l s))).
Proof. exact RereadListProofs.reread_sd. Qed.

Theorem comments_survive_l : forall s dir count, rereadable_l s = true -> (-1 <= count)%Z ->
  (Z.of_nat (length (lc_list_l (written_doc_l s))) <= 1000000)%Z -> (Z.of_nat (length (bc_list_l (written_doc_l s))) <= 1000000)%Z ->
  (Z.of_nat (length (lit_list_l (written_doc_l s))) <= 1000000)%Z ->
  exists s' count',
    parse_string true dir count (to_string_sd s) = Ok (mkParsed s' count') /\
    cstrip_l (Dict (sd_data s')) = map_leaves written_value (cstrip_l (Dict (sd_data s))) /\
    canon_l s' = cwv_l (written_doc_l s) /\
    sd_lc s' = combine (ids count (length (lc_list_l (written_doc_l s)))) (lc_list_l (written_doc_l s)) /\
    sd_bc s' = number_from 0 (bc_list_l (written_doc_l s)) /\
    sd_inc s' = [] /\ sd_expr s' = [].
Proof. exact RereadListOff.comments_survive. Qed.

Theorem comments_off_l : forall s dir count, rereadable_l s = true -> (-1 <= count)%Z ->
  (Z.of_nat (length (lc_list_l (written_doc_l s))) <= 1000000)%Z -> (Z.of_nat (length (bc_list_l (written_doc_l s))) <= 1000000)%Z ->
  (Z.of_nat (length (lit_list_l (written_doc_l s))) <= 1000000)%Z ->
  let s_on := number_l count (written_doc_l s) in let s_off := number_off_l count (written_doc_l s) in
  parse_string true dir count (to_string_sd s) = Ok (mkParsed s_on (count_after_l count (written_doc_l s))) /\
  parse_string false dir count (to_string_sd s) = Ok (mkParsed s_off (count_after_l count (written_doc_l s))) /\
  cms_l (Dict (sd_data s_off)) = [] /\
  Dict (sd_data s_off) = cstrip_l (Dict (sd_data s_on)) /\
  Dict (sd_data s_off) = map_leaves written_value (cstrip_l (Dict (sd_data s))) /\
  sd_lc s_off = sd_lc s_on /\ sd_bc s_off = sd_bc s_on.
Proof. exact RereadListOff.comments_off_doc. Qed.

(* ---- the fixed point --------------------------------------------------------------------------------------- *)
Theorem reread_closed_l : forall c count, cdoc_ok_l c = true -> csort_l c = c -> has_header_l c = true -> (-1 <= count)%Z ->
  (Z.of_nat (length (lc_list_l c)) <= 1000000)%Z -> (Z.of_nat (length (bc_list_l c)) <= 1000000)%Z ->
  rereadable_l (number_l count c) = true /\ written_doc_l (number_l count c) = cwv_l c.
Proof. exact RereadListFix.number_rereadable. Qed.

Theorem reread_fixed_point_l : forall s dir count dir' count', rereadable_l s = true -> (-1 <= count)%Z -> (-1 <= count')%Z ->
  (Z.of_nat (length (lc_list_l (written_doc_l s))) <= 1000000)%Z -> (Z.of_nat (length (bc_list_l (written_doc_l s))) <= 1000000)%Z ->
  (Z.of_nat (length (lit_list_l (written_doc_l s))) <= 1000000)%Z ->
  let c := written_doc_l s in let s1 := number_l count c in let c1 := cwv_l c in let s2 := number_l count' c1 in
  parse_string true dir count (to_string_sd s) = Ok (mkParsed s1 (count_after_l count c)) /\
  rereadable_l s1 = true /\
  parse_string true dir' count' (to_string_sd s1) = Ok (mkParsed s2 (count_after_l count' c1)) /\
  canon_l s1 = c1 /\ canon_l s2 = c1 /\
  to_string_sd s2 = to_string_sd s1.
Proof. exact RereadListFix.reread_fixed_point. Qed.

(* ---- the token parser on a document with comment tokens inside list dicts ---------------------------------------- *)
Theorem tok_roundtrip_l : forall (lt : scalar -> str) (kt : key -> str) (nv : scalar -> scalar),
  (forall v, plain_token (lt v) = true /\ parse_value (lt v) = Ok (nv v)) ->
  (forall k, plain_token (kt k) = true) -> (forall k, simple_key k = true -> parse_key (kt k) = Ok k) ->
  forall kvs tl, (tl = [] \/ tl = [[]]) ->
  wf (RereadListParse.TRC.cres nv (Dict kvs)) = true -> RereadListParse.TRC.cskeys (Dict kvs) = true ->
  RereadListParse.TRC.call RereadListParse.TRC.ctokb (Dict kvs) = true ->
  parse_tokens (RereadListParse.TRC.ctoks lt kt (events_l 0 (Dict kvs)) ++ tl) = Ok (kvs_of (RereadListParse.TRC.cres nv (Dict kvs))).
Proof. exact RereadListParse.TRC.tok_roundtrip. Qed.

Print Assumptions reread_l.
Print Assumptions comments_survive_l.
Print Assumptions reread_fixed_point_l.
Print Assumptions comments_off_l.
