(* C03 / C12 on documents with comments, part 6: numbering.
   Literal labels through a document with comments, the comment passes of the lexer as maps keyed by the comment text,
   the numbered document and its clean-up. *)
From Coq Require Import String.
From Coq Require Import NArith ZArith List Bool Lia ZifyBool ZifyN ZifyNat.
From DictIO Require Import Chars Str Value Scalar KeyPath SDict Layout Lexer TokParser TreeSpec NativeSpec LayoutSpec E2ESpec.
From DictIO Require ScalarProofs SDictProofs TokProofs LayoutProofs SemProofs QuoteProofs KeyPathProofs.
From DictIO Require Import E2EProofs E2EHoles E2EInsert E2EKeyTok E2EFullProofs RereadStr RereadTree RereadWrite RereadLex RereadParse.
Import ListNotations.
Import LayoutProofs.
Open Scope N_scope.

(* ================================================================================================ *)
(* 1. literal labels through a document with comments                                               *)
(* ================================================================================================ *)

Fixpoint cnqT (t : tree) {struct t} : nat :=
  match t with
  | Dict kvs =>
      (fix go (l : list (key * tree)) : nat :=
         match l with
         | [] => O
         | (k, c) :: l' =>
             ((match cm_entry (k, c) with
               | Some _ => O
               | None => match c with Dict _ => cnqT c | _ => nq c end
               end) + go l')%nat
         end) kvs
  | _ => nq t
  end.
Definition cnq_entry (kc : key * tree) : nat :=
  match cm_entry kc with
  | Some _ => O
  | None => match snd kc with Dict d => cnqT (Dict d) | c => nq c end
  end.
Lemma cnqT_cons kc l : cnqT (Dict (kc :: l)) = (cnq_entry kc + cnqT (Dict l))%nat.
Proof. destruct kc as [k c]. unfold cnq_entry. cbn [cnqT fst snd]. destruct (cm_entry (k, c)); [reflexivity|]. destruct c; reflexivity. Qed.

Fixpoint clabel (ks : list N) (t : tree) {struct t} : tree :=
  match t with
  | Dict kvs =>
      Dict ((fix go (ks : list N) (l : list (key * tree)) {struct l} : list (key * tree) :=
               match l with
               | [] => []
               | (k, c) :: l' =>
                   (match cm_entry (k, c) with
                    | Some _ => (k, c)
                    | None => (k, match c with Dict _ => clabel ks c | _ => label ks c end)
                    end) :: go (skipn (cnq_entry (k, c)) ks) l'
               end) ks kvs)
  | _ => label ks t
  end.
Definition clabel_entry (ks : list N) (kc : key * tree) : key * tree :=
  match cm_entry kc with
  | Some _ => kc
  | None => (fst kc, match snd kc with Dict d => clabel ks (Dict d) | c => label ks c end)
  end.
Lemma clabel_cons ks kc l :
  clabel ks (Dict (kc :: l)) = Dict (clabel_entry ks kc :: kvs_of (clabel (skipn (cnq_entry kc) ks) (Dict l))).
Proof.
  destruct kc as [k c]. unfold clabel_entry. cbn [clabel kvs_of fst snd]. f_equal. f_equal.
  destruct (cm_entry (k, c)); [reflexivity|]. destruct c; reflexivity.
Qed.
Lemma clabel_dict ks kvs : exists kvs', clabel ks (Dict kvs) = Dict kvs'.
Proof. eexists. reflexivity. Qed.

Definition ev_lab (ks : list N) (e : ev) : ev :=
  match e with
  | ELeaf lvl k v => ELeaf lvl k (lleaf ks v)
  | EList lvl k l => EList lvl k (labelL ks l)
  | _ => e
  end.
Fixpoint evs_lab (ks : list N) (es : list ev) : list ev :=
  match es with [] => [] | e :: es' => ev_lab ks e :: evs_lab (skipn (length (ev_lits e)) ks) es' end.

Lemma lits_app a b : lits (a ++ b) = lits a ++ lits b.
Proof. unfold lits. apply flat_map_app. Qed.

Lemma evs_lab_app a : forall ks b, evs_lab ks (a ++ b) = evs_lab ks a ++ evs_lab (skipn (length (lits a)) ks) b.
Proof.
  induction a as [|e a IH]; intros ks b; [reflexivity|]. cbn [app evs_lab]. rewrite IH. f_equal. f_equal. f_equal.
  change (lits (e :: a)) with (ev_lits e ++ lits a). rewrite app_length, skipn_add. reflexivity.
Qed.

Lemma events_clabel : forall t lvl ks, cshape t = true ->
  events lvl (clabel ks t) = evs_lab ks (events lvl t) /\ length (lits (events lvl t)) = cnqT t.
Proof.
  induction t as [v|kvs IH|ts IH] using tree_ind'; intros lvl ks Hs; try discriminate Hs.
  revert lvl ks Hs. induction IH as [|[k c] kvs Hc _ IHk]; intros lvl ks Hs; [split; reflexivity|].
  rewrite cshape_cons in Hs. apply andb_true_iff in Hs. destruct Hs as [Hs1 Hs2].
  rewrite clabel_cons, cnqT_cons. destruct (clabel_dict (skipn (cnq_entry (k, c)) ks) kvs) as [kvs' Ek].
  destruct (IHk lvl (skipn (cnq_entry (k, c)) ks) Hs2) as [I1 I2]. rewrite Ek in I1 |- *. cbn [kvs_of].
  rewrite !events_cons, evs_lab_app, lits_app, app_length, I1, I2. cbn [snd] in Hc.
  unfold entry_events, clabel_entry, cnq_entry, cshape_entry in *. destruct (cm_entry (k, c)) as [[n x]|] eqn:Ecm.
  - rewrite Ecm. split; reflexivity.
  - cbn [fst snd] in *. apply andb_true_iff in Hs1. destruct Hs1 as [Hk Hc1]. rewrite (cm_entry_simple k _ Hk).
    destruct c as [v|d|l].
    + cbn [label lits flat_map ev_lits evs_lab ev_lab app length]. rewrite app_nil_r. split; reflexivity.
    + destruct (Hc (S lvl) ks Hc1) as [C1 C2]. destruct (clabel_dict ks d) as [d' Ed]. rewrite Ed in C1 |- *.
      cbn [snd fst]. rewrite C1. set (X := events (S lvl) (Dict d)) in *.
      assert (E1 : evs_lab ks (EOpen lvl k :: X ++ [EClose lvl]) = EOpen lvl k :: evs_lab ks X ++ [EClose lvl]).
      { cbn [evs_lab ev_lab ev_lits length skipn]. rewrite evs_lab_app. reflexivity. }
      assert (E2 : length (lits (EOpen lvl k :: X ++ [EClose lvl])) = length (lits X)).
      { change (EOpen lvl k :: X ++ [EClose lvl]) with ([EOpen lvl k] ++ X ++ [EClose lvl]). rewrite !lits_app, !app_length.
        cbn [lits flat_map ev_lits app length]. lia. }
      rewrite E1, E2, C2. split; reflexivity.
    + rewrite label_lst. cbn [lits flat_map ev_lits evs_lab ev_lab app length]. rewrite app_nil_r. split; reflexivity.
Qed.

(* the tokens of the labelled events *)
Lemma evs_tokL_lab : forall es ks, Forall ev_fin es -> (forall lvl n, ~ In (ECm lvl n []) es) ->
  evs_tokL ks es = TRC.ctoks ltL ktS (evs_lab ks es).
Proof.
  induction es as [|e es IH]; intros ks Hf Hne; [reflexivity|]. inversion Hf as [|e' es' He Hes]; subst.
  cbn [evs_tokL evs_lab]. unfold TRC.ctoks. cbn [flat_map]. fold (TRC.ctoks ltL ktS (evs_lab (skipn (length (ev_lits e)) ks) es)).
  rewrite <- IH by (try exact Hes; intros lvl n Hin; apply (Hne lvl n); right; exact Hin). f_equal.
  destruct e as [lvl k v|lvl k l|lvl k|lvl|lvl n x]; cbn [ev_fin ev_ok ev_tokL ev_lab TRC.ev_tokP] in *.
  - rewrite (ktS_simple k (proj1 He)). reflexivity.
  - rewrite (ktS_simple k (proj1 He)), TokProofs.toks_lst. cbn [app]. rewrite <- app_assoc. reflexivity.
  - rewrite (ktS_simple k He). reflexivity.
  - reflexivity.
  - destruct x as [|c x]; [exfalso; apply (Hne lvl n); left; reflexivity|reflexivity].
Qed.

(* ================================================================================================ *)
(* 2. the comment passes as maps keyed by the comment text                                          *)
(* ================================================================================================ *)

Definition relL (cm : bool) (tab : list (N * str)) (e : ev) : ev :=
  match e with
  | ECm lvl n x => if str_eqb n w_LINECOMMENT then ECm lvl n (if cm then lph (rlookup x tab) else []) else e
  | _ => e
  end.

Lemma rlookup_cons_eq k x tab : rlookup x ((k, x) :: tab) = k.
Proof. unfold rlookup. cbn [find snd fst]. rewrite ScalarProofs.str_eqb_refl. reflexivity. Qed.
Lemma rlookup_cons_ne k (y x : str) tab : y <> x -> rlookup x ((k, y) :: tab) = rlookup x tab.
Proof.
  intros H. unfold rlookup. cbn [find snd]. destruct (str_eqb y x) eqn:E; [|reflexivity].
  apply SDictProofs.str_eqb_eq in E. contradiction.
Qed.

Lemma relL_ext cm tab tab' es : (forall x, In x (lcx es) -> rlookup x tab = rlookup x tab') ->
  map (relL cm tab) es = map (relL cm tab') es.
Proof.
  induction es as [|e es IH]; intros H; [reflexivity|]. cbn [map].
  destruct e as [lvl k v|lvl k l|lvl k|lvl|lvl n x]; cbn [lcx relL] in *; try (rewrite IH by exact H; reflexivity).
  destruct (str_eqb n w_LINECOMMENT).
  - rewrite (H x (or_introl eq_refl)), IH by (intros y Hy; apply H; right; exact Hy). reflexivity.
  - rewrite IH by exact H. reflexivity.
Qed.

Lemma relab_keyed cm : forall es ks, NoDup (lcx es) -> length ks = length (lcx es) ->
  relab cm ks es = map (relL cm (combine ks (lcx es))) es.
Proof.
  induction es as [|e es IH]; intros ks Hnd Hl; [reflexivity|].
  destruct e as [lvl k v|lvl k l|lvl k|lvl|lvl n x]; cbn [relab lcx map relL] in *; try (rewrite (IH ks Hnd Hl); reflexivity).
  destruct (str_eqb n w_LINECOMMENT) eqn:En.
  - destruct ks as [|k ks]; [discriminate Hl|]. cbn [length] in Hl. inversion Hnd as [|y ys Hx Hnd']; subst.
    cbn [combine map relL]. rewrite rlookup_cons_eq. f_equal. rewrite (IH ks Hnd' ltac:(lia)).
    apply relL_ext. intros y Hy. symmetry. apply rlookup_cons_ne. intros ->. exact (Hx Hy).
  - rewrite (IH ks Hnd Hl). reflexivity.
Qed.

(* the final value of a comment entry: the placeholder of the id its text got *)
Definition numx (ltab btab : list (N * str)) (n x : str) : str :=
  if str_eqb n w_LINECOMMENT then lph (rlookup x ltab) else bph (rlookup x btab).
Definition keepn (n _ : str) : str := n.

Lemma passes_keyed ltab btab : forall es, Forall ev_src es -> (forall x, In x (bcx es) -> inb x btab = true) ->
  map (numB true btab) (map (relL true ltab) es) = map (ev_map keepn (numx ltab btab) idf) es.
Proof.
  induction es as [|e es IH]; intros H Hin; [reflexivity|]. inversion H as [|e' es' He Hes]; subst. cbn [map].
  destruct e as [lvl k v|lvl k l|lvl k|lvl|lvl n x]; cbn [relL numB ev_map bcx] in *;
    try (rewrite (IH Hes Hin); try rewrite map_leaves_idf_list; reflexivity).
  cbn [ev_src] in He. unfold numx, keepn. destruct He as [[-> Hx]|[-> Hx]].
  - replace (str_eqb w_LINECOMMENT w_LINECOMMENT) with true by reflexivity. cbn [numB].
    replace (str_eqb w_LINECOMMENT w_BLOCKCOMMENT) with false in * by reflexivity. cbn [andb]. rewrite (IH Hes Hin). reflexivity.
  - replace (str_eqb w_BLOCKCOMMENT w_LINECOMMENT) with false by reflexivity. cbn [numB].
    replace (str_eqb w_BLOCKCOMMENT w_BLOCKCOMMENT) with true in * by reflexivity. rewrite (Hin x (or_introl eq_refl)). cbn [andb].
    rewrite (IH Hes (fun y Hy => Hin y (or_intror Hy))). reflexivity.
Qed.

(* ---- events of a canonical document ------------------------------------------------------------------ *)
Lemma cms_of_events_src : forall es, Forall ev_ok es -> forallb cm_ok (cms_of es) = true -> Forall ev_src es.
Proof.
  induction es as [|e es IH]; intros Hok Hc; [constructor|]. inversion Hok as [|e' es' He Hes]; subst.
  destruct e as [lvl k v|lvl k l|lvl k|lvl|lvl n x]; cbn [cms_of ev_cm] in Hc; try (constructor; [exact He|exact (IH Hes Hc)]).
  cbn [forallb] in Hc. apply andb_true_iff in Hc. destruct Hc as [Hc1 Hc2]. constructor; [|exact (IH Hes Hc2)].
  cbn [cm_ok ev_src] in *. apply orb_true_iff in Hc1. destruct Hc1 as [H|H]; apply andb_true_iff in H; destruct H as [H1 H2];
    apply SDictProofs.str_eqb_eq in H1; [left|right]; split; assumption.
Qed.

Lemma lcx_texts es : lcx es = map cm_text (filter (fun c => str_eqb (cm_name c) w_LINECOMMENT) (cms_of es)).
Proof.
  induction es as [|e es IH]; [reflexivity|]. destruct e as [lvl k v|lvl k l|lvl k|lvl|lvl n x]; cbn [lcx cms_of ev_cm]; try exact IH.
  cbn [filter cm_name fst snd]. destruct (str_eqb n w_LINECOMMENT); cbn [map cm_text snd]; rewrite IH; reflexivity.
Qed.
Lemma bcx_texts es : bcx es = map cm_text (filter (fun c => str_eqb (cm_name c) w_BLOCKCOMMENT) (cms_of es)).
Proof.
  induction es as [|e es IH]; [reflexivity|]. destruct e as [lvl k v|lvl k l|lvl k|lvl|lvl n x]; cbn [bcx cms_of ev_cm]; try exact IH.
  cbn [filter cm_name fst snd]. destruct (str_eqb n w_BLOCKCOMMENT); cbn [map cm_text snd]; rewrite IH; reflexivity.
Qed.

Lemma events_first_nc : forall t lvl, first_nc (events lvl t).
Proof.
  destruct t as [v|kvs|ts]; intros lvl; try exact I. induction kvs as [|[k c] kvs IH]; [exact I|].
  rewrite events_cons. unfold entry_events. destruct (cm_entry (k, c)) as [[n x]|]; [exact IH|]. cbn [snd fst]. destruct c; exact I.
Qed.

(* ================================================================================================ *)
(* 3. _clean keeps a numbered document                                                              *)
(* ================================================================================================ *)

Section CleanKeep.
  Context {V : Type} (veqb : V -> V -> bool).
  Hypothesis veqb_eq : forall a b, veqb a b = true -> a = b.

  (* the table values of the placeholder keys, in key order *)
  Definition kvals (keys : list key) (tab : list (N * V)) : list V :=
    flat_map (fun k => match key_id k with
                       | Some i => match tlookup i tab with Some v => [v] | None => [] end
                       | None => []
                       end) keys.

  Lemma clean_kind_keep : forall keys data (tab : list (N * V)) seen, NoDup (seen ++ kvals keys tab) ->
    clean_kind veqb keys data tab seen = (data, tab).
  Proof.
    induction keys as [|k keys IH]; intros data tab seen Hnd; [reflexivity|]. cbn [clean_kind].
    unfold kvals in Hnd. cbn [flat_map] in Hnd. fold (kvals keys tab) in Hnd.
    destruct (key_id k) as [i|]; [|apply IH; exact Hnd]. destruct (tlookup i tab) as [v|]; [|apply IH; exact Hnd].
    cbn [app] in Hnd. assert (Hex : existsb (veqb v) seen = false).
    { destruct (existsb (veqb v) seen) eqn:E; [|reflexivity]. exfalso. apply existsb_exists in E. destruct E as (y & Hy & Ey).
      apply veqb_eq in Ey. subst y. apply NoDup_remove_2 in Hnd. apply Hnd. apply in_or_app. left. exact Hy. }
    rewrite Hex. apply IH. rewrite <- app_assoc. exact Hnd.
  Qed.
End CleanKeep.

Lemma str_eqb_eq' a b : str_eqb a b = true -> a = b.
Proof. apply SDictProofs.str_eqb_eq. Qed.

(* at every dict level the block comment texts, and the line comment texts, looked up for the placeholder keys are
   pairwise distinct *)
Fixpoint ctabs (lc bc : list (N * str)) (t : tree) {struct t} : Prop :=
  match t with
  | Dict kvs =>
      NoDup (kvals (keys_of_kind PhBlock kvs) bc) /\ NoDup (kvals (keys_of_kind PhLine kvs) lc) /\
      (fix go (l : list (key * tree)) : Prop :=
         match l with [] => True | (_, c) :: l' => (match c with Dict _ => ctabs lc bc c | _ => True end) /\ go l' end) kvs
  | _ => True
  end.

Lemma ctabs_child lc bc kvs k sub : ctabs lc bc (Dict kvs) -> In (k, Dict sub) kvs -> ctabs lc bc (Dict sub).
Proof.
  intros (_ & _ & H) Hin. induction kvs as [|[k' c'] kvs IH]; [destruct Hin|]. destruct H as [H1 H2].
  destruct Hin as [Heq|Hin]; [inversion Heq; subst; exact H1|exact (IH H2 Hin)].
Qed.

Lemma clean_level_keep data s : sd_inc s = [] ->
  NoDup (kvals (keys_of_kind PhBlock data) (sd_bc s)) -> NoDup (kvals (keys_of_kind PhLine data) (sd_lc s)) ->
  clean_level data s = (data, s).
Proof.
  intros Hi Hb Hl. unfold clean_level. rewrite (clean_kind_keep str_eqb str_eqb_eq' _ data (sd_bc s) [] Hb).
  rewrite Hi, clean_kind_nil. rewrite (clean_kind_keep str_eqb str_eqb_eq' _ data (sd_lc s) [] Hl).
  destruct s as [d lc bc inc ex]. cbn [sd_lc sd_bc sd_inc sd_data sd_expr] in *. subst inc. reflexivity.
Qed.

Lemma clean_tree_keep : forall fuel data s, sd_inc s = [] -> ctabs (sd_lc s) (sd_bc s) (Dict data) -> wf (Dict data) = true ->
  clean_tree fuel data s = (data, s).
Proof.
  induction fuel as [|f IH]; intros data s Hi Hc Hw; [reflexivity|].
  rewrite SDictProofs.clean_tree_S. apply SDictProofs.wf_Dict_iff in Hw. destruct Hw as [Hnd Hw].
  pose proof Hc as (Hb & Hl & _). rewrite (clean_level_keep data s Hi Hb Hl). cbn [fst].
  assert (Hgen : forall l, (forall kv, In kv l -> In kv data) -> fold_left (SDictProofs.cstep f) l (data, s) = (data, s)).
  { induction l as [|[k v] l IHl]; intros Hsub; [reflexivity|]. cbn [fold_left].
    assert (Hin : In (k, v) data) by (apply Hsub; left; reflexivity).
    assert (Hcs : SDictProofs.cstep f (data, s) (k, v) = (data, s)).
    { unfold SDictProofs.cstep. cbn [fst snd]. destruct v as [x|sub|ts]; try reflexivity.
      rewrite Forall_forall in Hw. pose proof (Hw _ Hin) as Hws. unfold SDictProofs.wfkv in Hws. cbn [snd] in Hws.
      rewrite (IH sub s Hi (ctabs_child _ _ _ _ _ Hc Hin) Hws).
      rewrite SDictProofs.aset_same; [reflexivity|]. apply SDictProofs.alookup_In_nodup; assumption. }
    rewrite Hcs. apply IHl. intros kv H'. apply Hsub. right. exact H'. }
  apply Hgen. auto.
Qed.

Lemma sd_clean_keep d lc bc ex : ctabs lc bc (Dict d) -> wf (Dict d) = true -> sd_clean (mkSD d lc bc [] ex) = mkSD d lc bc [] ex.
Proof.
  intros Hc Hw. unfold sd_clean. cbn [sd_data]. rewrite (clean_tree_keep _ d (mkSD d lc bc [] ex)); [reflexivity|reflexivity|exact Hc|exact Hw].
Qed.

(* ================================================================================================ *)
(* 4. the numbered document                                                                         *)
(* ================================================================================================ *)

Lemma rlookup_In x tab : inb x tab = true -> In (rlookup x tab, x) tab.
Proof.
  unfold inb, rlookup. induction tab as [|[i y] tab IH]; intros H; [discriminate H|]. cbn [existsb find snd fst] in *.
  destruct (str_eqb y x) eqn:E; [apply SDictProofs.str_eqb_eq in E; subst y; left; reflexivity|]. right. apply IH. exact H.
Qed.

Lemma tlookup_rlookup x tab : NoDup (map fst tab) -> inb x tab = true -> tlookup (rlookup x tab) tab = Some x.
Proof. intros Hnd H. apply In_tlookup; [exact Hnd|apply rlookup_In; exact H]. Qed.

Lemma rlookup_inj x y tab : NoDup (map fst tab) -> inb x tab = true -> inb y tab = true -> rlookup x tab = rlookup y tab -> x = y.
Proof.
  intros Hnd Hx Hy E. pose proof (tlookup_rlookup x tab Hnd Hx) as A. pose proof (tlookup_rlookup y tab Hnd Hy) as B.
  rewrite E in A. rewrite A in B. inversion B. reflexivity.
Qed.

Lemma first_6digits_ph w i : cw w -> i < 1000000 -> first_6digits (placeholder w i) = Some i.
Proof.
  intros Hw Hi. destruct (cw_facts w Hw) as (_ & Hu & _). unfold placeholder.
  assert (G : forall u : list N, forallb is_upper u = true -> first_6digits (u ++ pad6 i) = Some i).
  { induction u as [|c u IH]; intros H.
    - cbn [app]. pose proof (all_digits_app (pad6 i) [] (pad6_digits i)) as Hd. rewrite (pad6_length i Hi), app_nil_r in Hd.
      destruct (pad6 i) as [|d0 d] eqn:Ed; [rewrite <- Ed in Hd; pose proof (pad6_length i Hi) as Hl; rewrite Ed in Hl; discriminate Hl|].
      cbn [first_6digits]. rewrite Hd. pose proof (take_n_app (d0 :: d) []) as Ht. rewrite app_nil_r in Ht.
      rewrite <- Ed, (pad6_length i Hi) in Ht. rewrite <- Ed, Ht, dec_to_N_pad6. reflexivity.
    - cbn [forallb] in H. apply andb_true_iff in H. destruct H as [Hc Hu']. cbn [app first_6digits all_digits_n].
      assert (Hd : is_digit c = false) by (unfold is_upper, is_digit in *; lia). rewrite Hd. cbn [andb]. exact (IH Hu'). }
  exact (G w Hu).
Qed.

Lemma bph_kind i : i < 1000000 -> ph_kind_of (KS (bph i)) = Some PhBlock.
Proof. intros Hi. cbn [ph_kind_of]. pose proof (bph_block i Hi) as H. cbn [is_block_key] in H. rewrite H. reflexivity. Qed.

Lemma lph_line i : i < 1000000 -> has_placeholder w_LINECOMMENT (lph i) = true.
Proof.
  intros Hi. unfold lph, placeholder.
  assert (E : forall d : list N, all_digits_n 6 d = true -> has_placeholder w_LINECOMMENT (w_LINECOMMENT ++ d) = true).
  { intros d Hd. change (w_LINECOMMENT ++ d) with (76 :: (skipn 1 w_LINECOMMENT ++ d)). cbn [has_placeholder].
    change (76 :: skipn 1 w_LINECOMMENT ++ d) with (w_LINECOMMENT ++ d). rewrite starts_with_app, drop_n_app, Hd. reflexivity. }
  apply E. pose proof (all_digits_app (pad6 i) [] (pad6_digits i)) as H. rewrite (pad6_length i Hi), app_nil_r in H. exact H.
Qed.

Lemma lph_kind i : i < 1000000 -> ph_kind_of (KS (lph i)) = Some PhLine.
Proof.
  intros Hi. cbn [ph_kind_of]. pose proof (lph_not_block i) as H1. cbn [is_block_key] in H1. rewrite H1.
  pose proof (ph_not_include (lph i) (lph_name i Hi)) as H2. cbn [is_include_key] in H2. rewrite H2, (lph_line i Hi). reflexivity.
Qed.

Lemma simple_kind k : simple_key k = true -> ph_kind_of k = None.
Proof.
  intros Hk. destruct k as [z|s]; [reflexivity|]. cbn [ph_kind_of].
  destruct (simple_key_unsorted _ Hk) as [H1 H2]. cbn [is_block_key is_include_key] in H1, H2. rewrite H1, H2.
  destruct (has_placeholder w_LINECOMMENT s) eqn:E; [|reflexivity]. exfalso.
  apply has_placeholder_contains in E. apply (contains_suffix (of_string "LINE") w_COMMENT s ltac:(discriminate)) in E.
  destruct (simple_key_inv _ Hk) as (Hkt & _). destruct (simple_tok_inv _ Hkt) as (_ & _ & Hr).
  cbn [format_key] in Hr. apply nores_nocomment in Hr. rewrite (format_string_has _ _ E) in Hr. discriminate Hr.
Qed.

Lemma simple_not_ph k w i : simple_key k = true -> cw w -> k <> KS (placeholder w i).
Proof.
  intros Hk Hw ->. pose proof (cm_entry_simple _ (Leaf (SStr [])) Hk) as H. cbn [cm_entry] in H.
  destruct (cw_facts w Hw) as (Hne & _ & Hc). unfold is_cm in H.
  assert (E : contains w_COMMENT (placeholder w i) = true) by (unfold placeholder; apply contains_app_l; exact Hc).
  rewrite E in H. discriminate H.
Qed.

(* the texts of the comment entries of one name, in text order *)
Fixpoint wxe (w : str) (es : list ev) : list str :=
  match es with
  | [] => []
  | ECm _ n x :: es' => if str_eqb n w then x :: wxe w es' else wxe w es'
  | _ :: es' => wxe w es'
  end.
Lemma lcx_wxe es : lcx es = wxe w_LINECOMMENT es.
Proof. induction es as [|e es IH]; [reflexivity|]. destruct e; cbn [lcx wxe]; rewrite ?IH; reflexivity. Qed.
Lemma bcx_wxe es : bcx es = wxe w_BLOCKCOMMENT es.
Proof. induction es as [|e es IH]; [reflexivity|]. destruct e; cbn [bcx wxe]; rewrite ?IH; reflexivity. Qed.
Lemma wxe_app w a b : wxe w (a ++ b) = wxe w a ++ wxe w b.
Proof. induction a as [|e a IH]; [reflexivity|]. destruct e; cbn [app wxe]; try exact IH. destruct (str_eqb n w); cbn [app]; rewrite IH; reflexivity. Qed.

(* the texts of the comment entries of one dict level *)
Definition level_texts (w : str) (kvs : list (key * tree)) : list str :=
  flat_map (fun kc => match cm_entry kc with Some (n, x) => if str_eqb n w then [x] else [] | None => [] end) kvs.

Lemma level_texts_sub w kvs lvl : (forall x, In x (level_texts w kvs) -> In x (wxe w (events lvl (Dict kvs)))) /\
  (NoDup (wxe w (events lvl (Dict kvs))) -> NoDup (level_texts w kvs)).
Proof.
  induction kvs as [|kc kvs [IH1 IH2]]; [split; [intros x []|intros _; constructor]|].
  rewrite events_cons, wxe_app. unfold level_texts in *. cbn [flat_map]. unfold entry_events.
  destruct (cm_entry kc) as [[n x]|].
  - cbn [wxe]. destruct (str_eqb n w); cbn [app].
    + split.
      * intros y [<-|Hy]; [left; reflexivity|right; exact (IH1 y Hy)].
      * intros H. inversion H as [|z zs Hz Hnd]; subst. constructor; [intros Hin; exact (Hz (IH1 x Hin))|exact (IH2 Hnd)].
    + split; [exact IH1|exact IH2].
  - cbn [app]. split.
    + intros y Hy. apply in_or_app. right. exact (IH1 y Hy).
    + intros H. apply NoDup_app_r in H. exact (IH2 H).
Qed.

Section NumDoc.
  Variable ltab btab : list (N * str).
  Hypothesis HLnd : NoDup (map fst ltab).
  Hypothesis HBnd : NoDup (map fst btab).
  Hypothesis HLlt : forall i x, In (i, x) ltab -> i < 1000000.
  Hypothesis HBlt : forall i x, In (i, x) btab -> i < 1000000.
  Variable f : scalar -> scalar.
  Notation gx := (numx ltab btab).
  Notation ce := (cmap_entry (gkv gx gx) f).
  Definition numT (t : tree) : tree := cmapg (gkv gx gx) f t.

  (* the comment entries of one level are line or block comments whose texts are in the tables *)
  Definition lvl_cm (kvs : list (key * tree)) : Prop :=
    forall kc n x, In kc kvs -> cm_entry kc = Some (n, x) ->
    (n = w_LINECOMMENT /\ inb x ltab = true) \/ (n = w_BLOCKCOMMENT /\ inb x btab = true).
  Definition lvl_simple (kvs : list (key * tree)) : Prop :=
    forall kc, In kc kvs -> cm_entry kc = None -> simple_key (fst kc) = true.

  Lemma gx_lc x : gx w_LINECOMMENT x = lph (rlookup x ltab).
  Proof. reflexivity. Qed.
  Lemma gx_bc x : gx w_BLOCKCOMMENT x = bph (rlookup x btab).
  Proof. reflexivity. Qed.

  Lemma rl_lt x : inb x ltab = true -> rlookup x ltab < 1000000.
  Proof. intros H. exact (HLlt _ _ (rlookup_In x ltab H)). Qed.
  Lemma rb_lt x : inb x btab = true -> rlookup x btab < 1000000.
  Proof. intros H. exact (HBlt _ _ (rlookup_In x btab H)). Qed.

  Lemma fst_ce kc : fst (ce kc) = match cm_entry kc with Some (n, x) => KS (gx n x) | None => fst kc end.
  Proof. unfold cmap_entry. destruct (cm_entry kc) as [[n x]|]; reflexivity. Qed.

  Lemma In_level w kc n x kvs : In kc kvs -> cm_entry kc = Some (n, x) -> n = w -> In x (level_texts w kvs).
  Proof.
    intros Hin Hc ->. unfold level_texts. apply in_flat_map. exists kc. split; [exact Hin|]. rewrite Hc, ScalarProofs.str_eqb_refl. left. reflexivity.
  Qed.

  Lemma In_ordinary kc kvs : In kc kvs -> cm_entry kc = None -> In (fst kc) (map fst (flat_map cstrip_entry kvs)).
  Proof.
    intros Hin Hc. apply in_map_iff. exists (fst kc, match snd kc with Dict d => cstrip (Dict d) | c => c end). split; [reflexivity|].
    apply in_flat_map. exists kc. split; [exact Hin|]. unfold cstrip_entry. rewrite Hc. left. reflexivity.
  Qed.

  Lemma rkey_nodup kvs : lvl_cm kvs -> lvl_simple kvs -> NoDup (level_texts w_LINECOMMENT kvs) -> NoDup (level_texts w_BLOCKCOMMENT kvs) ->
    NoDup (map fst (flat_map cstrip_entry kvs)) -> NoDup (map fst (map ce kvs)).
  Proof.
    induction kvs as [|kc kvs IH]; intros Hcm Hsi Hl Hb Ho; [constructor|]. cbn [map]. constructor.
    - intros Hin. apply in_map_iff in Hin. destruct Hin as (e' & Ee & Hin'). apply in_map_iff in Hin'. destruct Hin' as (kc' & <- & Hin').
      rewrite !fst_ce in Ee.
      destruct (cm_entry kc) as [[n x]|] eqn:Ec; destruct (cm_entry kc') as [[n' x']|] eqn:Ec'.
      + destruct (Hcm kc n x (or_introl eq_refl) Ec) as [[-> Hx]|[-> Hx]]; destruct (Hcm kc' n' x' (or_intror Hin') Ec') as [[-> Hx']|[-> Hx']].
        * rewrite !gx_lc in Ee. apply (f_equal (fun k => match k with KS s => ph_id w_LINECOMMENT s | KI _ => 0 end)) in Ee.
          cbn beta iota in Ee. rewrite !ph_id_lph in Ee. apply (rlookup_inj _ _ _ HLnd Hx' Hx) in Ee. subst x'.
          unfold level_texts in Hl. cbn [flat_map] in Hl. rewrite Ec in Hl. replace (str_eqb w_LINECOMMENT w_LINECOMMENT) with true in Hl by reflexivity.
          cbn [app] in Hl. inversion Hl as [|y ys Hy _]; subst. apply Hy. exact (In_level _ kc' _ x kvs Hin' Ec' eq_refl).
        * rewrite gx_lc, gx_bc in Ee. exact (bph_lph_ne _ _ (f_equal (fun k => match k with KS s => s | KI _ => [] end) Ee)).
        * rewrite gx_lc, gx_bc in Ee. exact (bph_lph_ne _ _ (eq_sym (f_equal (fun k => match k with KS s => s | KI _ => [] end) Ee))).
        * rewrite !gx_bc in Ee. apply (f_equal (fun k => match k with KS s => ph_id w_BLOCKCOMMENT s | KI _ => 0 end)) in Ee.
          cbn beta iota in Ee. rewrite !ph_id_bph in Ee. apply (rlookup_inj _ _ _ HBnd Hx' Hx) in Ee. subst x'.
          unfold level_texts in Hb. cbn [flat_map] in Hb. rewrite Ec in Hb. replace (str_eqb w_BLOCKCOMMENT w_BLOCKCOMMENT) with true in Hb by reflexivity.
          cbn [app] in Hb. inversion Hb as [|y ys Hy _]; subst. apply Hy. exact (In_level _ kc' _ x kvs Hin' Ec' eq_refl).
      + pose proof (Hsi kc' (or_intror Hin') Ec') as Hk'. destruct (Hcm kc n x (or_introl eq_refl) Ec) as [[-> _]|[-> _]].
        * exact (simple_not_ph _ w_LINECOMMENT _ Hk' (or_introl eq_refl) Ee).
        * exact (simple_not_ph _ w_BLOCKCOMMENT _ Hk' (or_intror eq_refl) Ee).
      + pose proof (Hsi kc (or_introl eq_refl) Ec) as Hk. destruct (Hcm kc' n' x' (or_intror Hin') Ec') as [[-> _]|[-> _]].
        * exact (simple_not_ph _ w_LINECOMMENT _ Hk (or_introl eq_refl) (eq_sym Ee)).
        * exact (simple_not_ph _ w_BLOCKCOMMENT _ Hk (or_intror eq_refl) (eq_sym Ee)).
      + cbn [flat_map] in Ho. unfold cstrip_entry at 1 in Ho. rewrite Ec in Ho. cbn [app map fst] in Ho.
        inversion Ho as [|y ys Hy _]; subst. apply Hy. rewrite <- Ee. exact (In_ordinary kc' kvs Hin' Ec').
    - apply IH.
      + intros kc' n x Hin' Hc'. exact (Hcm kc' n x (or_intror Hin') Hc').
      + intros kc' Hin' Hc'. exact (Hsi kc' (or_intror Hin') Hc').
      + unfold level_texts in Hl. cbn [flat_map] in Hl. exact (NoDup_app_r _ _ Hl).
      + unfold level_texts in Hb. cbn [flat_map] in Hb. exact (NoDup_app_r _ _ Hb).
      + cbn [flat_map] in Ho. rewrite map_app in Ho. exact (NoDup_app_r _ _ Ho).
  Qed.

  Lemma keys_of_kind_cons kd (kc : key * tree) l :
    keys_of_kind kd (kc :: l) = (if match ph_kind_of (fst kc), kd with
                                    | Some PhBlock, PhBlock | Some PhInclude, PhInclude | Some PhLine, PhLine => true
                                    | _, _ => false end then [fst kc] else []) ++ keys_of_kind kd l.
  Proof. unfold keys_of_kind. cbn [map filter]. destruct (ph_kind_of (fst kc)) as [[| |]|]; destruct kd; reflexivity. Qed.

  Lemma kvals_app {V} (a b : list key) (tab : list (N * V)) : kvals (a ++ b) tab = kvals a tab ++ kvals b tab.
  Proof. unfold kvals. apply flat_map_app. Qed.

  Lemma kvals_level kvs : lvl_cm kvs -> lvl_simple kvs ->
    kvals (keys_of_kind PhBlock (map ce kvs)) btab = level_texts w_BLOCKCOMMENT kvs /\
    kvals (keys_of_kind PhLine (map ce kvs)) ltab = level_texts w_LINECOMMENT kvs.
  Proof.
    induction kvs as [|kc kvs IH]; intros Hcm Hsi; [split; reflexivity|].
    destruct IH as [I1 I2]; [intros kc' n x Hin' Hc'; exact (Hcm kc' n x (or_intror Hin') Hc')|intros kc' Hin' Hc'; exact (Hsi kc' (or_intror Hin') Hc')|].
    cbn [map]. rewrite !keys_of_kind_cons, !kvals_app, I1, I2, fst_ce. unfold level_texts. cbn [flat_map].
    destruct (cm_entry kc) as [[n x]|] eqn:Ec.
    - destruct (Hcm kc n x (or_introl eq_refl) Ec) as [[-> Hx]|[-> Hx]].
      + rewrite gx_lc, (lph_kind _ (rl_lt _ Hx)).
        replace (str_eqb w_LINECOMMENT w_BLOCKCOMMENT) with false by reflexivity. replace (str_eqb w_LINECOMMENT w_LINECOMMENT) with true by reflexivity.
        unfold kvals. cbn [flat_map key_id app]. unfold lph. rewrite (first_6digits_ph _ _ (or_introl eq_refl) (rl_lt _ Hx)), (tlookup_rlookup x ltab HLnd Hx).
        split; reflexivity.
      + rewrite gx_bc, (bph_kind _ (rb_lt _ Hx)).
        replace (str_eqb w_BLOCKCOMMENT w_LINECOMMENT) with false by reflexivity. replace (str_eqb w_BLOCKCOMMENT w_BLOCKCOMMENT) with true by reflexivity.
        unfold kvals. cbn [flat_map key_id app]. unfold bph. rewrite (first_6digits_ph _ _ (or_intror eq_refl) (rb_lt _ Hx)), (tlookup_rlookup x btab HBnd Hx).
        split; reflexivity.
    - rewrite (simple_kind _ (Hsi kc (or_introl eq_refl) Ec)). split; reflexivity.
  Qed.

  (* the source document *)
  Definition src_tree (t : tree) (lvl : nat) : Prop :=
    cshape t = true /\ wf (cstrip t) = true /\ Forall ev_src (events lvl t) /\
    NoDup (wxe w_LINECOMMENT (events lvl t)) /\ NoDup (wxe w_BLOCKCOMMENT (events lvl t)) /\
    (forall x, In x (wxe w_LINECOMMENT (events lvl t)) -> inb x ltab = true) /\
    (forall x, In x (wxe w_BLOCKCOMMENT (events lvl t)) -> inb x btab = true).

  Lemma wxe_In w lvl n x es : In (ECm lvl n x) es -> n = w -> In x (wxe w es).
  Proof.
    intros Hin ->. induction es as [|e es IH]; [destruct Hin|]. destruct Hin as [-> |Hin].
    - cbn [wxe]. rewrite ScalarProofs.str_eqb_refl. left. reflexivity.
    - destruct e as [l k v|l k ts|l k|l|l m y]; cbn [wxe]; try exact (IH Hin). destruct (str_eqb m w); [right|]; exact (IH Hin).
  Qed.

  Lemma src_child kvs lvl k d : src_tree (Dict kvs) lvl -> In (k, Dict d) kvs -> cm_entry (k, Dict d) = None ->
    src_tree (Dict d) (S lvl).
  Proof.
    intros (Hs & Hw & He & Hl & Hb & Hil & Hib) Hin Hc.
    destruct (in_split _ _ Hin) as (l1 & l2 & ->).
    assert (EE : events lvl (Dict (l1 ++ (k, Dict d) :: l2)) =
                 events lvl (Dict l1) ++ (EOpen lvl k :: events (S lvl) (Dict d) ++ [EClose lvl]) ++ events lvl (Dict l2)).
    { rewrite events_app, events_cons. unfold entry_events. rewrite Hc. cbn [fst snd]. reflexivity. }
    rewrite EE in He, Hl, Hb, Hil, Hib.
    assert (Ew : forall w, wxe w (events lvl (Dict l1) ++ (EOpen lvl k :: events (S lvl) (Dict d) ++ [EClose lvl]) ++ events lvl (Dict l2)) =
                           wxe w (events lvl (Dict l1)) ++ wxe w (events (S lvl) (Dict d)) ++ wxe w (events lvl (Dict l2))).
    { intros w. rewrite !wxe_app. cbn [wxe]. rewrite wxe_app. cbn [wxe]. rewrite app_nil_r. reflexivity. }
    rewrite Ew in Hl, Hb, Hil, Hib.
    rewrite cshape_forallb, forallb_forall in Hs. pose proof (Hs _ Hin) as Hse. unfold cshape_entry in Hse. rewrite Hc in Hse. cbn [fst snd] in Hse.
    apply andb_true_iff in Hse. destruct Hse as [_ Hsd].
    rewrite cstrip_dict in Hw. apply SDictProofs.wf_Dict_iff in Hw. destruct Hw as [_ Hw]. rewrite Forall_forall in Hw.
    assert (Hwd : wf (cstrip (Dict d)) = true).
    { apply (Hw (k, cstrip (Dict d))). apply in_flat_map. exists (k, Dict d). split; [apply in_or_app; right; left; reflexivity|].
      unfold cstrip_entry. rewrite Hc. left. reflexivity. }
    split; [exact Hsd|]. split; [exact Hwd|]. split.
    - apply Forall_app in He. destruct He as [_ He]. apply Forall_app in He. destruct He as [He _]. inversion He as [|e es _ He']; subst.
      apply Forall_app in He'. exact (proj1 He').
    - split; [exact (NoDup_app_l _ _ (NoDup_app_r _ _ Hl))|]. split; [exact (NoDup_app_l _ _ (NoDup_app_r _ _ Hb))|]. split.
      + intros x Hx. apply Hil. apply in_or_app. right. apply in_or_app. left. exact Hx.
      + intros x Hx. apply Hib. apply in_or_app. right. apply in_or_app. left. exact Hx.
  Qed.

  Lemma src_level kvs lvl : src_tree (Dict kvs) lvl ->
    lvl_cm kvs /\ lvl_simple kvs /\ NoDup (level_texts w_LINECOMMENT kvs) /\ NoDup (level_texts w_BLOCKCOMMENT kvs) /\
    NoDup (map fst (flat_map cstrip_entry kvs)).
  Proof.
    intros (Hs & Hw & He & Hl & Hb & Hil & Hib). split; [|split; [|split; [|split]]].
    - intros kc n x Hin Hc.
      assert (Hev : In (ECm lvl n x) (events lvl (Dict kvs))).
      { rewrite events_flat. apply in_flat_map. exists kc. split; [exact Hin|]. unfold entry_events. rewrite Hc. left. reflexivity. }
      rewrite Forall_forall in He. pose proof (He _ Hev) as Hsrc. cbn [ev_src] in Hsrc. destruct Hsrc as [[-> _]|[-> _]].
      + left. split; [reflexivity|]. apply Hil. exact (wxe_In _ _ _ _ _ Hev eq_refl).
      + right. split; [reflexivity|]. apply Hib. exact (wxe_In _ _ _ _ _ Hev eq_refl).
    - intros kc Hin Hc. rewrite cshape_forallb, forallb_forall in Hs. pose proof (Hs _ Hin) as Hse. unfold cshape_entry in Hse.
      rewrite Hc in Hse. apply andb_true_iff in Hse. exact (proj1 Hse).
    - exact (proj2 (level_texts_sub _ kvs lvl) Hl).
    - exact (proj2 (level_texts_sub _ kvs lvl) Hb).
    - rewrite cstrip_dict in Hw. apply SDictProofs.wf_Dict_iff in Hw. exact (proj1 Hw).
  Qed.

  Lemma ctabs_dict (kvs : list (key * tree)) :
    NoDup (kvals (keys_of_kind PhBlock kvs) btab) -> NoDup (kvals (keys_of_kind PhLine kvs) ltab) ->
    (forall k d, In (k, Dict d) kvs -> ctabs ltab btab (Dict d)) -> ctabs ltab btab (Dict kvs).
  Proof.
    intros H1 H2 H3. cbn [ctabs]. split; [exact H1|]. split; [exact H2|].
    clear H1 H2. induction kvs as [|[k c] kvs IH]; [exact I|]. split.
    - destruct c as [v|d|l]; try exact I. apply (H3 k d). left. reflexivity.
    - apply IH. intros k' d' Hin. apply (H3 k' d'). right. exact Hin.
  Qed.

  Theorem num_ok : forall t lvl, src_tree t lvl -> wf (numT t) = true /\ ctabs ltab btab (numT t).
  Proof.
    induction t as [v|kvs IH|ts IH] using tree_ind'; intros lvl Hsrc; try (destruct Hsrc as [Hs _]; discriminate Hs).
    destruct (src_level kvs lvl Hsrc) as (Hcm & Hsi & Hl & Hb & Ho).
    destruct (kvals_level kvs Hcm Hsi) as [Kb Kl].
    unfold numT. rewrite cmapg_dict.
    assert (Hch : forall kc, In kc kvs -> wf (snd (ce kc)) = true /\ (forall d', snd (ce kc) = Dict d' -> ctabs ltab btab (Dict d'))).
    { intros [k c] Hin. unfold cmap_entry. destruct (cm_entry (k, c)) as [[n x]|] eqn:Ec.
      - cbn [gkv snd]. split; [reflexivity|intros d' H; discriminate H].
      - cbn [fst snd]. destruct c as [v|d|l].
        + split; [reflexivity|intros d' H; discriminate H].
        + rewrite Forall_forall in IH. destruct (IH (k, Dict d) Hin (S lvl) (src_child kvs lvl k d Hsrc Hin Ec)) as [W C].
          unfold numT in W, C. split; [exact W|]. intros d' Ed. rewrite <- Ed. exact C.
        + split; [|intros d' H; rewrite TokProofs.map_leaves_lst in H; discriminate H]. rewrite wf_map_leaves.
          destruct Hsrc as (_ & Hw & _). rewrite cstrip_dict in Hw. apply SDictProofs.wf_Dict_iff in Hw. destruct Hw as [_ Hw].
          rewrite Forall_forall in Hw. apply (Hw (k, Lst l)). apply in_flat_map. exists (k, Lst l). split; [exact Hin|].
          unfold cstrip_entry. rewrite Ec. left. reflexivity. }
    split.
    - apply SDictProofs.wf_Dict_iff. split; [exact (rkey_nodup kvs Hcm Hsi Hl Hb Ho)|].
      apply Forall_forall. intros e He. apply in_map_iff in He. destruct He as (kc & <- & Hin). exact (proj1 (Hch kc Hin)).
    - apply ctabs_dict; [rewrite Kb; exact Hb|rewrite Kl; exact Hl|].
      intros k d Hin. apply in_map_iff in Hin. destruct Hin as (kc & Ekc & Hin). apply (proj2 (Hch kc Hin) d). rewrite Ekc. reflexivity.
  Qed.
End NumDoc.
