(* C09, JSON == native beyond plain data: include entries (front end), reads over mixed include graphs, and
   $-references / expressions (front end).
   Part 1: a JSON unit whose include keys come first and the native text with the corresponding #include lines in front
           of the same ordinary content are parsed to the same include table (names, anchored paths, order, and -- for
           names without a backslash -- directive texts), the same ordinary data (up to the classifier on string leaves,
           as in FoamProofs.json_native_up_to_classifier) and placeholder entries in the same positions. *)
From Coq Require Import String.
From Coq Require Import NArith ZArith List Bool Lia ZifyBool ZifyN ZifyNat.
From DictIO Require Import Chars Str Value Scalar KeyPath SDict Layout Lexer TokParser Reader TreeSpec NativeSpec LayoutSpec E2ESpec.
From DictIO Require ScalarProofs SDictProofs TokProofs LayoutProofs SemProofs QuoteProofs KeyPathProofs RereadNum CounterBase CounterParse PathsProofs.
From DictIO Require Import E2EProofs E2EHoles E2EInsert E2EKeyTok E2EFullProofs AnyLayoutLex AnyLayoutProofs AnyLayoutComments.
Import ListNotations.
Import LayoutProofs.
Open Scope N_scope.

(* ================================================================================================ *)
(* 0. vocabulary                                                                                    *)
(* ================================================================================================ *)

Definition PHI (i : N) : str := placeholder w_INCLUDE i.
(* the placeholder entries of the includes numbered ks *)
Definition inc_phs (ks : list N) : list (key * tree) := map (fun i => (KS (PHI i), Leaf (SStr (PHI i)))) ks.
(* the native directive for a file name *)
Definition inc_directive (n : str) : str := of_string "#include '" ++ n ++ [c_sq].
Definition inc_line (n : str) : str := inc_directive n ++ [c_lf].
Definition inc_text (names : list str) : str := flat_map inc_line names.
(* the table entries *)
Definition nat_entry (dir n : str) : include_entry := (inc_directive n, n, path_join dir n).
Definition json_entry (dir n : str) : include_entry := (of_string "#include '" ++ double_bsl n ++ [c_sq], n, path_join dir n).
(* the JSON include entries: key text, file name *)
Definition json_inc_kvs (ins : list (str * str)) : list (key * tree) :=
  map (fun kn => (KS (fst kn), Leaf (SStr (snd kn)))) ins.

(* name and path of every entry of an include table, in table order *)
Definition inc_names (tab : list (N * include_entry)) : list (str * str) :=
  map (fun e => (snd (fst (snd e)), snd (snd e))) tab.

(* ---- the include placeholder ------------------------------------------------------------------- *)
Lemma pad6_six i : i < 1000000 -> exists a b c d e f, pad6 i = [a; b; c; d; e; f] /\
  is_digit a = true /\ is_digit b = true /\ is_digit c = true /\ is_digit d = true /\ is_digit e = true /\ is_digit f = true.
Proof.
  intros Hi. pose proof (proj2 (SemProofs.pad6_props i Hi)) as Hl. pose proof (pad6_digits i) as Hd.
  destruct (pad6 i) as [|a [|b [|c [|d [|e [|f [|g r]]]]]]]; try discriminate Hl.
  exists a, b, c, d, e, f. split; [reflexivity|]. cbn [forallb] in Hd.
  repeat (apply andb_true_iff in Hd; destruct Hd as [? Hd]). repeat split; assumption.
Qed.

Lemma PHI_id i : i < 1000000 -> first_6digits (PHI i) = Some i.
Proof.
  intros Hi. pose proof (dec_to_N_pad6 i) as Hv. destruct (pad6_six i Hi) as (a & b & c & d & e & f & E & Ha & Hb & Hc & Hd & He & Hf).
  unfold PHI, placeholder. rewrite (CounterParse.first6_skip w_INCLUDE (pad6 i) eq_refl). rewrite E in *.
  rewrite CounterParse.first6_unfold. cbn [all_digits_n]. rewrite Ha, Hb, Hc, Hd, He, Hf. cbn [andb take_n]. rewrite Hv. reflexivity.
Qed.

Lemma PHI_chars i c : In c (PHI i) -> In c w_INCLUDE \/ is_digit c = true.
Proof.
  unfold PHI, placeholder. intros H. apply in_app_or in H. destruct H as [H|H]; [left; exact H|right].
  exact (forallb_In _ _ _ (pad6_digits i) H).
Qed.

Lemma PHI_kind i : i < 1000000 -> ph_kind_of (KS (PHI i)) = Some PhInclude.
Proof.
  intros Hi. cbn [ph_kind_of].
  destruct (has_placeholder w_BLOCKCOMMENT (PHI i)) eqn:E1.
  { exfalso. apply has_placeholder_contains in E1. apply contains_head_In in E1.
    destruct (PHI_chars i _ E1) as [H|H]; [cbn in H; intuition discriminate|discriminate H]. }
  assert (E2 : has_placeholder w_INCLUDE (PHI i) = true).
  { destruct (pad6_six i Hi) as (a & b & c & d & e & f & E & Ha & Hb & Hc & Hd & He & Hf).
    unfold PHI, placeholder. rewrite FlatDataProofs.has_placeholder_unfold.
    rewrite CounterBase.starts_with_app, CounterBase.drop_n_app, E. cbn [all_digits_n]. rewrite Ha, Hb, Hc, Hd, He, Hf. reflexivity. }
  rewrite E2. reflexivity.
Qed.

Lemma PHI_key_id i : i < 1000000 -> key_id (KS (PHI i)) = Some i.
Proof. intros Hi. cbn [key_id]. exact (PHI_id i Hi). Qed.

Lemma PHI_inj i j : PHI i = PHI j -> i = j.
Proof. unfold PHI, placeholder. intros H. apply app_inv_head in H. exact (FlatDataProofs.pad6_inj i j H). Qed.

Lemma PHI_nodollar i : has_char c_dollar (PHI i) = false.
Proof.
  destruct (has_char c_dollar (PHI i)) eqn:E; [|reflexivity]. exfalso. unfold has_char in E. apply existsb_exists in E.
  destruct E as (x & Hx & Ex). apply N.eqb_eq in Ex. subst x.
  destruct (PHI_chars i _ Hx) as [H|H]; [cbn in H; intuition discriminate|discriminate H].
Qed.

Lemma inc_phs_keys ks : map fst (inc_phs ks) = map (fun i => KS (PHI i)) ks.
Proof. unfold inc_phs. rewrite map_map. reflexivity. Qed.

Lemma inc_phs_nodup ks : NoDup ks -> NoDup (map fst (inc_phs ks)).
Proof.
  intros H. rewrite inc_phs_keys. apply NoDup_map_on; [|exact H].
  intros x y _ _ E. apply PHI_inj. congruence.
Qed.

(* ================================================================================================ *)
(* 1. the clean-up keeps a document whose include placeholders name pairwise different entries      *)
(* ================================================================================================ *)

Lemma inc_eqb_eq a b : inc_eqb a b = true -> a = b.
Proof.
  destruct a as [[a1 a2] a3], b as [[b1 b2] b3]. cbn [inc_eqb]. intros H.
  apply andb_true_iff in H. destruct H as [H H3]. apply andb_true_iff in H. destruct H as [H1 H2].
  apply SDictProofs.str_eqb_eq in H1, H2, H3. subst. reflexivity.
Qed.

Lemma simple_key_of_phs d k : skeys (Dict d) = true -> In k (map fst d) -> ph_kind_of k = None.
Proof.
  intros Hs Hin. apply in_map_iff in Hin. destruct Hin as ([k' v] & <- & Hin). cbn [fst].
  apply simple_key_nokind. exact (proj1 (skeys_In k' v d Hs Hin)).
Qed.

Lemma keys_of_kind_app kd a b : keys_of_kind kd (a ++ b) = keys_of_kind kd a ++ keys_of_kind kd b.
Proof. unfold keys_of_kind. rewrite map_app, filter_app. reflexivity. Qed.

Lemma keys_of_kind_phs kd ks : small ks ->
  keys_of_kind kd (inc_phs ks) = match kd with PhInclude => map (fun i => KS (PHI i)) ks | _ => [] end.
Proof.
  intros Hs. unfold keys_of_kind. rewrite inc_phs_keys. induction ks as [|i ks IH]; [destruct kd; reflexivity|].
  inversion Hs as [|? ? Hi Hs']; subst. cbn [map filter]. rewrite (PHI_kind i Hi). specialize (IH Hs').
  destruct kd; cbn [map] in *; rewrite IH; reflexivity.
Qed.

Lemma In_tlookup' {V} i (v : V) tab : NoDup (map fst tab) -> In (i, v) tab -> tlookup i tab = Some v.
Proof.
  induction tab as [|[j x] tab IH]; intros Hnd Hin; [destruct Hin|]. cbn [map fst] in Hnd. inversion Hnd as [|y ys Hy Hnd']; subst.
  cbn [tlookup]. destruct Hin as [Heq|Hin].
  - inversion Heq; subst. rewrite N.eqb_refl. reflexivity.
  - destruct (i =? j) eqn:E; [|exact (IH Hnd' Hin)]. apply N.eqb_eq in E. subst j. exfalso. apply Hy.
    apply in_map_iff. exists (i, v). split; [reflexivity|exact Hin].
Qed.

Lemma NoDup_app_intro {A} (a b : list A) : NoDup a -> NoDup b -> (forall x, In x a -> In x b -> False) -> NoDup (a ++ b).
Proof.
  induction a as [|x a IH]; intros Ha Hb Hd; [exact Hb|]. inversion Ha as [|? ? Hx Ha']; subst. cbn [app]. constructor.
  - intros Hin. apply in_app_or in Hin. destruct Hin as [Hin|Hin]; [exact (Hx Hin)|exact (Hd x (or_introl eq_refl) Hin)].
  - apply IH; [exact Ha'|exact Hb|]. intros y H1 H2. exact (Hd y (or_intror H1) H2).
Qed.

(* the table of the includes numbered ks with the entries es *)
Lemma tlookup_combine {V} (ks : list N) (es : list V) : NoDup ks -> length ks = length es ->
  forall i e, In (i, e) (combine ks es) -> tlookup i (combine ks es) = Some e.
Proof.
  intros Hnd Hl i e Hin. apply In_tlookup'; [rewrite (combine_fst ks es Hl); exact Hnd|exact Hin].
Qed.

Lemma kvals_phs {V} (ks : list N) (es : list V) : NoDup ks -> small ks -> length ks = length es ->
  RereadNum.kvals (map (fun i => KS (PHI i)) ks) (combine ks es) = es.
Proof.
  intros Hnd Hs Hl.
  assert (G : forall ks' (es' : list V) (tab : list (N * V)), length ks' = length es' -> small ks' ->
              (forall i e, In (i, e) (combine ks' es') -> tlookup i tab = Some e) ->
              RereadNum.kvals (map (fun i => KS (PHI i)) ks') tab = es').
  { induction ks' as [|i ks' IH]; intros es' tab Hl' Hs' Hlk; destruct es' as [|e es']; try discriminate Hl'; [reflexivity|].
    inversion Hs' as [|? ? Hi Hs'']; subst. unfold RereadNum.kvals. cbn [map flat_map]. rewrite (PHI_key_id i Hi).
    rewrite (Hlk i e (or_introl eq_refl)). cbn [app]. f_equal. apply IH; [cbn [length] in Hl'; lia|exact Hs''|].
    intros j e' Hin. apply Hlk. right. exact Hin. }
  apply G; [exact Hl|exact Hs|]. apply tlookup_combine; assumption.
Qed.

Lemma sd_clean_inc ks es d lc bc ex :
  NoDup ks -> small ks -> length ks = length es -> NoDup es ->
  skeys (Dict d) = true -> wf (Dict d) = true -> lc = [] -> bc = [] ->
  sd_clean (mkSD (inc_phs ks ++ d) lc bc (combine ks es) ex) = mkSD (inc_phs ks ++ d) lc bc (combine ks es) ex.
Proof.
  intros Hnd Hs Hl Hes Hk Hw -> ->.
  assert (Hkd : forall kd, keys_of_kind kd d = []).
  { intros kd. apply keys_of_kind_simple. intros [k v] Hin. exact (proj1 (skeys_In k v d Hk Hin)). }
  set (s := mkSD (inc_phs ks ++ d) [] [] (combine ks es) ex).
  assert (Hlev : clean_level (inc_phs ks ++ d) s = (inc_phs ks ++ d, s)).
  { unfold clean_level. rewrite !keys_of_kind_app, !Hkd, !app_nil_r, !(keys_of_kind_phs _ ks Hs).
    cbn [clean_kind sd_bc sd_lc sd_inc s].
    rewrite (RereadNum.clean_kind_keep inc_eqb inc_eqb_eq _ (inc_phs ks ++ d) (combine ks es) []).
    - reflexivity.
    - cbn [app]. rewrite (kvals_phs ks es Hnd Hs Hl). exact Hes. }
  unfold sd_clean. cbn [sd_data s]. fold s.
  set (fuel := depth (Dict (inc_phs ks ++ d))). clearbody fuel.
  rewrite SDictProofs.clean_tree_S, Hlev. cbn [fst].
  assert (Hstep : forall kv, In kv (inc_phs ks ++ d) ->
            SDictProofs.cstep fuel (inc_phs ks ++ d, s) kv = (inc_phs ks ++ d, s)).
  { intros [k v] Hin. unfold SDictProofs.cstep. cbn [fst snd]. destruct v as [x|sub|ts]; try reflexivity.
    apply in_app_or in Hin. destruct Hin as [Hin|Hin].
    - unfold inc_phs in Hin. apply in_map_iff in Hin. destruct Hin as (i & E & _). discriminate E.
    - apply SDictProofs.wf_Dict_iff in Hw. destruct Hw as [Hndd Hwd]. rewrite Forall_forall in Hwd.
      pose proof (Hwd _ Hin) as Hws. unfold SDictProofs.wfkv in Hws. cbn [snd] in Hws.
      rewrite (clean_tree_keys fuel sub s (proj2 (skeys_In k _ d Hk Hin)) Hws).
      rewrite SDictProofs.aset_same; [reflexivity|]. apply SDictProofs.alookup_In_nodup.
      + rewrite map_app. apply NoDup_app_intro; [apply inc_phs_nodup; exact Hnd|exact Hndd|].
        intros k0 H1 H2. rewrite inc_phs_keys in H1. apply in_map_iff in H1. destruct H1 as (i & <- & Hi).
        pose proof (simple_key_of_phs d _ Hk H2) as Hn. unfold small in Hs. rewrite Forall_forall in Hs.
        rewrite (PHI_kind i (Hs i Hi)) in Hn. discriminate Hn.
      + apply in_or_app. right. exact Hin. }
  assert (Hfold : forall l, (forall kv, In kv l -> In kv (inc_phs ks ++ d)) ->
            fold_left (SDictProofs.cstep fuel) l (inc_phs ks ++ d, s) = (inc_phs ks ++ d, s)).
  { induction l as [|kv l IHl]; intros Hsub; [reflexivity|]. cbn [fold_left]. rewrite (Hstep kv (Hsub kv (or_introl eq_refl))).
    apply IHl. intros kv' H'. apply Hsub. right. exact H'. }
  rewrite (Hfold _ (fun kv H => H)). reflexivity.
Qed.

(* ================================================================================================ *)
(* 2. the JSON front end on a unit whose include entries come first                                 *)
(* ================================================================================================ *)

Fixpoint jtab (dir : str) (c : Z) (names : list str) : list (N * include_entry) :=
  match names with
  | [] => []
  | n :: ns => tupdate [(Z.to_N (counter_next c), json_entry dir n)] (jtab dir (counter_next c) ns)
  end.

Definition json_inc_ok (kn : str * str) : bool := is_include_key_json (KS (fst kn)).
(* the file names: the JSON parser strips one quote character at either end of the value *)
Definition inames (ins : list (str * str)) : list str := map (fun kn => remove_quotes (snd kn)) ins.
Lemma inames_length ins : length (inames ins) = length ins.
Proof. apply map_length. Qed.

Lemma ids_S c n : ids c (S n) = Z.to_N (counter_next c) :: ids (counter_next c) n.
Proof. reflexivity. Qed.

Lemma json_includes_spec dir : forall ins c kvs,
  forallb json_inc_ok ins = true -> no_include_keys kvs = true ->
  json_includes dir c (json_inc_kvs ins ++ kvs) =
    (inc_phs (ids c (length ins)), kvs, cafter c (length ins), jtab dir c (inames ins)).
Proof.
  induction ins as [|[k n] ins IH]; intros c kvs Hok Hn.
  - cbn [json_inc_kvs inames map app length ids idsZ inc_phs cafter jtab]. apply SemProofs.json_includes_none. exact Hn.
  - cbn [forallb] in Hok. apply andb_true_iff in Hok. destruct Hok as [H1 Hok]. unfold json_inc_ok in H1. cbn [fst snd] in H1.
    rename H1 into Hk.
    cbn [json_inc_kvs inames map app fst snd]. fold (json_inc_kvs ins). fold (inames ins). cbn [json_includes]. rewrite Hk.
    rewrite (IH (counter_next c) kvs Hok Hn). cbn [py_str]. cbn [length]. rewrite ids_S. reflexivity.
Qed.

Lemma jtab_combine dir : forall names c, NoDup (ids c (length names)) ->
  jtab dir c names = combine (ids c (length names)) (map (json_entry dir) names).
Proof.
  induction names as [|n ns IH]; intros c Hnd; [reflexivity|]. cbn [length] in Hnd. rewrite ids_S in Hnd.
  inversion Hnd as [|? ? Hx Hnd']; subst. cbn [jtab length map]. rewrite ids_S. cbn [combine].
  rewrite (IH (counter_next c) Hnd'). rewrite (tupdate_fresh _ [(Z.to_N (counter_next c), json_entry dir n)]); [reflexivity|].
  cbn [app map fst]. rewrite combine_fst; [constructor; assumption|]. rewrite ids_length, map_length. reflexivity.
Qed.

(* json_expressions leaves the placeholder entries and dollar-free content alone *)
Lemma je_kvs_app a b c tab :
  SemProofs.je_kvs (a ++ b) c tab =
    let '(a', c1, t1) := SemProofs.je_kvs a c tab in
    let '(b', c2, t2) := SemProofs.je_kvs b c1 t1 in (a' ++ b', c2, t2).
Proof.
  revert c tab. induction a as [|[k v] a IH]; intros c tab.
  - cbn [app SemProofs.je_kvs]. destruct (SemProofs.je_kvs b c tab) as [[b' c2] t2]. reflexivity.
  - cbn [app SemProofs.je_kvs]. destruct (json_expressions v c tab) as [[v' c1] tb1]. fold SemProofs.je_kvs. rewrite IH.
    destruct (SemProofs.je_kvs a c1 tb1) as [[a' c2] t2]. destruct (SemProofs.je_kvs b c2 t2) as [[b' c3] t3]. reflexivity.
Qed.

Lemma je_kvs_phs ks c tab : SemProofs.je_kvs (inc_phs ks) c tab = (inc_phs ks, c, tab).
Proof.
  induction ks as [|i ks IH]; [reflexivity|]. cbn [inc_phs map SemProofs.je_kvs]. fold (inc_phs ks).
  rewrite (SemProofs.json_leaf_untouched (PHI i) c tab (PHI_nodollar i)). fold SemProofs.je_kvs. rewrite IH. reflexivity.
Qed.

Lemma je_kvs_ordinary kvs c tab : ordinary (Dict kvs) = true -> SemProofs.je_kvs kvs c tab = (kvs, c, tab).
Proof.
  intros Ho. pose proof (SemProofs.json_expressions_id (Dict kvs) Ho c tab) as H.
  rewrite SemProofs.json_expressions_dict in H. destruct (SemProofs.je_kvs kvs c tab) as [[k' c'] t']. inversion H. reflexivity.
Qed.

Lemma tset_same {V} i (v : V) l : tlookup i l = Some v -> tset i v l = l.
Proof.
  induction l as [|[j x] l IH]; intros H; [discriminate H|]. cbn [tlookup tset] in *.
  destruct (i =? j) eqn:E; [apply N.eqb_eq in E; subst j; inversion H; reflexivity|]. rewrite (IH H). reflexivity.
Qed.

Lemma tupdate_sub {V} (m l : list (N * V)) : NoDup (map fst l) -> incl m l -> tupdate l m = l.
Proof.
  unfold tupdate. induction m as [|[k v] m IH]; intros Hnd Hin; [reflexivity|]. cbn [fold_left fst snd].
  rewrite (tset_same k v l); [apply IH; [exact Hnd|intros x Hx; apply Hin; right; exact Hx]|].
  apply In_tlookup'; [exact Hnd|apply Hin; left; reflexivity].
Qed.

Lemma wf_app_inv a b : wf (Dict (a ++ b)) = true ->
  NoDup (map fst (a ++ b)) /\ wf (Dict a) = true /\ wf (Dict b) = true.
Proof.
  intros H. apply SDictProofs.wf_Dict_iff in H. destruct H as [Hnd Hw]. split; [exact Hnd|].
  apply Forall_app in Hw. destruct Hw as [Ha Hb]. rewrite map_app in Hnd.
  split; apply SDictProofs.wf_Dict_iff; split; try assumption;
    [exact (RereadStr.NoDup_app_l _ _ Hnd)|exact (RereadStr.NoDup_app_r _ _ Hnd)].
Qed.

Lemma wf_phs_app ks d : NoDup ks -> small ks -> skeys (Dict d) = true -> wf (Dict d) = true ->
  wf (Dict (inc_phs ks ++ d)) = true.
Proof.
  intros Hnd Hs Hk Hw. apply SDictProofs.wf_Dict_iff in Hw. destruct Hw as [Hndd Hwd]. apply SDictProofs.wf_Dict_iff. split.
  - rewrite map_app. apply NoDup_app_intro; [apply inc_phs_nodup; exact Hnd|exact Hndd|].
    intros k0 H1 H2. rewrite inc_phs_keys in H1. apply in_map_iff in H1. destruct H1 as (i & <- & Hi).
    pose proof (simple_key_of_phs d _ Hk H2) as Hn. unfold small in Hs. rewrite Forall_forall in Hs.
    rewrite (PHI_kind i (Hs i Hi)) in Hn. discriminate Hn.
  - apply Forall_app. split; [|exact Hwd]. apply Forall_forall. intros kv Hin. unfold inc_phs in Hin.
    apply in_map_iff in Hin. destruct Hin as (i & <- & _). reflexivity.
Qed.

(* the whole JSON front end *)
Theorem json_parse_includes dir c ins kvs :
  wf (Dict (json_inc_kvs ins ++ kvs)) = true -> forallb json_inc_ok ins = true -> no_include_keys kvs = true ->
  ordinary_kvs kvs = true -> skeys (Dict kvs) = true ->
  NoDup (ids c (length ins)) -> NoDup (inames ins) ->
  json_parse dir c (json_inc_kvs ins ++ kvs) =
    mkParsed (mkSD (inc_phs (ids c (length ins)) ++ kvs) [] []
                   (combine (ids c (length ins)) (map (json_entry dir) (inames ins))) [])
             (cafter c (length ins)).
Proof.
  intros Hwf Hok Hn Ho Hk Hnd Hnames.
  destruct (wf_app_inv _ _ Hwf) as (HndJ & _ & Hw).
  set (ks := ids c (length ins)) in *. set (es := map (json_entry dir) (inames ins)).
  assert (Hsm : small ks) by apply ids_small.
  assert (Hl : length ks = length es) by (unfold ks, es; rewrite ids_length, map_length, inames_length; reflexivity).
  assert (Hes : NoDup es).
  { unfold es. apply NoDup_map_on; [|exact Hnames]. intros x y _ _ E. unfold json_entry in E. congruence. }
  assert (Hcl : forall d, skeys (Dict d) = true -> wf (Dict d) = true ->
            sd_clean (mkSD (inc_phs ks ++ d) [] [] (combine ks es) []) = mkSD (inc_phs ks ++ d) [] [] (combine ks es) []).
  { intros d H1 H2. apply sd_clean_inc; try assumption; reflexivity. }
  assert (HndI : NoDup (map fst (combine ks es))) by (rewrite (combine_fst ks es Hl); exact Hnd).
  unfold json_parse.
  assert (H0 : sd_update sd_empty (json_inc_kvs ins ++ kvs) None = mkSD (json_inc_kvs ins ++ kvs) [] [] [] []).
  { unfold sd_update, sd_empty. cbn [sd_data sd_lc sd_bc sd_inc sd_expr post_update].
    rewrite (KeyPathProofs.aupdate_app _ []) by exact HndJ. cbn [app]. apply sd_clean_bare. exact Hwf. }
  rewrite H0. cbn [sd_data sd_lc sd_bc sd_inc sd_expr].
  rewrite (json_includes_spec dir ins c kvs Hok Hn), (jtab_combine dir (inames ins) c).
  2:{ rewrite inames_length. exact Hnd. }
  rewrite inames_length. fold ks es.
  assert (H1 : sd_update (mkSD [] [] [] (combine ks es) []) (inc_phs ks) None = mkSD (inc_phs ks) [] [] (combine ks es) []).
  { unfold sd_update. cbn [sd_data sd_lc sd_bc sd_inc sd_expr post_update].
    rewrite (KeyPathProofs.aupdate_app _ []) by (cbn [app]; apply inc_phs_nodup; exact Hnd). cbn [app].
    pose proof (Hcl [] eq_refl eq_refl) as H. rewrite app_nil_r in H. exact H. }
  rewrite H1.
  assert (H2 : sd_update (mkSD (inc_phs ks) [] [] (combine ks es) []) kvs (Some (mkSD kvs [] [] (combine ks es) [])) =
               mkSD (inc_phs ks ++ kvs) [] [] (combine ks es) []).
  { unfold sd_update. cbn [sd_data sd_lc sd_bc sd_inc sd_expr post_update].
    rewrite (tupdate_sub (combine ks es) (combine ks es) HndI (incl_refl _)).
    change (tupdate (@nil (N * str)) []) with (@nil (N * str)). change (tupdate (@nil (N * expr_entry)) []) with (@nil (N * expr_entry)).
    rewrite KeyPathProofs.aupdate_app.
    - exact (Hcl kvs Hk Hw).
    - pose proof (wf_phs_app ks kvs Hnd Hsm Hk Hw) as H. apply SDictProofs.wf_Dict_iff in H. exact (proj1 H). }
  rewrite H2. cbn [sd_data sd_lc sd_bc sd_inc sd_expr].
  rewrite SemProofs.json_expressions_dict, je_kvs_app, je_kvs_phs, (je_kvs_ordinary kvs _ _ Ho). cbn [kvs_of_tree].
  rewrite (Hcl kvs Hk Hw). reflexivity.
Qed.

(* ================================================================================================ *)
(* 3. the native lexer on include lines followed by a written document                              *)
(* ================================================================================================ *)

(* a file name that can stand in a single-quoted native directive: one line, and the line comment stage finds
   nothing in the directive (two slashes not preceded by a colon would be taken for a comment) *)
Definition native_name_ok (n : str) : bool :=
  forallb (fun c => negb (is_linebreak c)) n &&
  match find_comment false [] (inc_directive n) with None => true | Some _ => false end.

Definition PHline (i : N) : str := PHI i ++ [c_lf].
Definition PHtext (ks : list N) : str := flat_map PHline ks.

Fixpoint ntab (dir : str) (c : Z) (names : list str) : list (N * include_entry) :=
  match names with
  | [] => []
  | n :: ns => tupdate [(Z.to_N (counter_next c), nat_entry dir n)] (ntab dir (counter_next c) ns)
  end.

Lemma ntab_combine dir : forall names c, NoDup (ids c (length names)) ->
  ntab dir c names = combine (ids c (length names)) (map (nat_entry dir) names).
Proof.
  induction names as [|n ns IH]; intros c Hnd; [reflexivity|]. cbn [length] in Hnd. rewrite ids_S in Hnd.
  inversion Hnd as [|? ? Hx Hnd']; subst. cbn [ntab length map]. rewrite ids_S. cbn [combine].
  rewrite (IH (counter_next c) Hnd'). rewrite (tupdate_fresh _ [(Z.to_N (counter_next c), nat_entry dir n)]); [reflexivity|].
  cbn [app map fst]. rewrite combine_fst; [constructor; assumption|]. rewrite ids_length, map_length. reflexivity.
Qed.

Lemma inc_directive_nolb n : forallb (fun c => negb (is_linebreak c)) n = true ->
  forallb (fun c => negb (is_linebreak c)) (inc_directive n) = true.
Proof.
  intros H. unfold inc_directive. rewrite !forallb_app. apply andb_true_iff. split; [reflexivity|].
  apply andb_true_iff. split; [exact H|reflexivity].
Qed.

Lemma splitlines_inc : forall names rest, forallb native_name_ok names = true ->
  splitlines (inc_text names ++ rest) = map inc_line names ++ splitlines rest.
Proof.
  unfold splitlines. induction names as [|n ns IH]; intros rest H; [reflexivity|].
  cbn [forallb] in H. apply andb_true_iff in H. destruct H as [Hn Hns]. unfold native_name_ok in Hn.
  apply andb_true_iff in Hn. destruct Hn as [Hlb _].
  cbn [inc_text flat_map map app]. fold (inc_text ns). unfold inc_line at 1. rewrite <- !app_assoc.
  rewrite (splitlines_go_nolb _ (inc_directive_nolb n Hlb)). cbn [app splitlines_go].
  change (c_lf =? c_cr) with false. change (is_linebreak c_lf) with true. cbv iota.
  rewrite app_nil_r. cbn [rev]. rewrite rev_involutive. fold (inc_line n). rewrite (IH rest Hns). reflexivity.
Qed.

Lemma chomp_inc_line n : chomp_lf (inc_line n) = (inc_directive n, [c_lf]).
Proof. unfold chomp_lf, inc_line. rewrite rev_unit. change (c_lf =? c_lf) with true. cbv iota. rewrite rev_involutive. reflexivity. Qed.

Lemma elc_inc com : forall names c ls, forallb native_name_ok names = true ->
  extract_line_comments com c (map inc_line names ++ ls) =
    let '(r, c', t) := extract_line_comments com c ls in (map inc_line names ++ r, c', t).
Proof.
  induction names as [|n ns IH]; intros c ls H.
  - cbn [map app]. destruct (extract_line_comments com c ls) as [[r c'] t]. reflexivity.
  - cbn [forallb] in H. apply andb_true_iff in H. destruct H as [Hn Hns]. unfold native_name_ok in Hn.
    apply andb_true_iff in Hn. destruct Hn as [_ Hc].
    cbn [map app extract_line_comments]. unfold extract_line_comment. rewrite chomp_inc_line.
    destruct (find_comment false [] (inc_directive n)) as [p|]; [discriminate Hc|].
    rewrite (IH c ls Hns). destruct (extract_line_comments com c ls) as [[r c'] t]. reflexivity.
Qed.

Lemma include_line_inc n : include_line_rest (inc_line n) = Some (c_sp :: c_sq :: n ++ [c_sq; c_lf]).
Proof.
  unfold inc_line, inc_directive. rewrite <- !app_assoc.
  change (of_string "#include '" ++ n ++ [c_sq] ++ [c_lf]) with (of_string "#include " ++ (c_sq :: n ++ [c_sq; c_lf])).
  apply PathsProofs.include_line_rest_directive.
Qed.

Lemma include_name_inc n : include_name_of (c_sp :: c_sq :: n ++ [c_sq; c_lf]) = n.
Proof.
  unfold include_name_of. cbn [lstrip]. change (is_space c_sp) with true. change (is_space c_sq) with false. cbv iota.
  assert (E : rstrip (c_sq :: n ++ [c_sq; c_lf]) = c_sq :: n ++ [c_sq]).
  { unfold rstrip. replace (rev (c_sq :: n ++ [c_sq; c_lf])) with (c_lf :: c_sq :: rev n ++ [c_sq]).
    - cbn [lstrip]. change (is_space c_lf) with true. change (is_space c_sq) with false. cbv iota.
      cbn [rev]. rewrite rev_app_distr, rev_involutive. reflexivity.
    - cbn [rev]. rewrite rev_app_distr. reflexivity. }
  rewrite E. unfold remove_quotes. cbn [strip_lead_quote]. change (is_quote c_sq) with true. cbv iota.
  unfold strip_trail_quote. rewrite rev_unit. change (is_quote c_sq) with true. cbv iota. apply rev_involutive.
Qed.

Lemma ei_inc dir : forall names c ls, Forall (fun l => include_line_rest l = None) ls ->
  extract_includes dir c (map inc_line names ++ ls) =
    (map PHline (ids c (length names)) ++ ls, cafter c (length names), ntab dir c names).
Proof.
  induction names as [|n ns IH]; intros c ls Hls.
  - cbn [map app length ids idsZ cafter ntab]. apply extract_includes_none'. exact Hls.
  - cbn [map app extract_includes]. rewrite include_line_inc, include_name_inc, chomp_inc_line. cbn [fst].
    rewrite (IH (counter_next c) ls Hls). cbn [length cafter ntab]. rewrite ids_S. reflexivity.
Qed.

Lemma concat_PHlines ks : concat (map PHline ks) = PHtext ks.
Proof. unfold PHtext. rewrite flat_map_concat_map. reflexivity. Qed.

Lemma lex_inc_early com dir c names (W : str) :
  forallb native_name_ok names = true ->
  Forall (fun l => nopair c_slash c_slash l = true) (splitlines W) ->
  Forall (fun l => include_line_rest l = None) (splitlines W) ->
  nopair c_slash c_star (PHtext (ids c (length names)) ++ W) = true ->
  lex com dir c (inc_text names ++ W) =
    lex_tail (cafter c (length names)) [] [] (ntab dir c names) (PHtext (ids c (length names)) ++ W).
Proof.
  intros Hn Hl1 Hl2 Hb. unfold lex, lex_tail. cbv zeta.
  rewrite (splitlines_inc names W Hn), (elc_inc com names c _ Hn), (extract_line_comments_nopair com _ Hl1 c).
  rewrite (ei_inc dir names c _ Hl2). rewrite concat_app, concat_PHlines. unfold splitlines. rewrite concat_splitlines_all.
  cbn [rev app]. rewrite (extract_block_comments_nopair com _ Hb). reflexivity.
Qed.

(* ---- the placeholder lines are plain text ------------------------------------------------------- *)
Lemma PHI_simple i : forallb simple_char (PHI i) = true.
Proof.
  unfold PHI, placeholder. rewrite forallb_app. apply andb_true_iff. split; [reflexivity|].
  apply forallb_forall. intros c Hc. pose proof (forallb_In _ _ _ (pad6_digits i) Hc) as Hd.
  unfold simple_char, is_word. rewrite Hd. reflexivity.
Qed.

Lemma PHI_tchars i : forallb tchar (PHI i) = true.
Proof. apply forallb_forall. intros c Hc. apply simple_tchar. exact (forallb_In _ _ _ (PHI_simple i) Hc). Qed.

Lemma PHtext_tchars ks : forallb tchar (PHtext ks) = true.
Proof.
  induction ks as [|i ks IH]; [reflexivity|]. unfold PHtext. cbn [flat_map]. fold (PHtext ks). unfold PHline.
  rewrite !forallb_app, (PHI_tchars i), IH. reflexivity.
Qed.

Lemma tchars_achars (X : list N) : forallb tchar X = true -> forallb achar X = true.
Proof. intros H. apply forallb_forall. intros c Hc. unfold achar. rewrite (forallb_In _ _ _ H Hc). reflexivity. Qed.

Lemma achars_gachars (X : list N) : forallb achar X = true -> forallb gachar X = true.
Proof.
  intros H. apply forallb_forall. intros c Hc. pose proof (forallb_In _ _ _ H Hc) as Ha. unfold achar in Ha. unfold gachar.
  apply orb_true_iff in Ha. destruct Ha as [Ha|Ha]; [rewrite (tchar_gchar c Ha); reflexivity|rewrite Ha; apply orb_true_r].
Qed.

Lemma qlits_qflav ls : Forall qlit ls -> Forall2 qflav (map format_string ls) ls.
Proof.
  induction 1 as [|s ls Hs _ IH]; [constructor|]. cbn [map]. constructor; [|exact IH].
  split; [exact (proj1 Hs)|]. exact (proj2 (qlit_form s Hs)).
Qed.

Theorem lex_inc_written kvs com dir c names :
  ktree writable_leaf (Dict kvs) = true -> forallb native_name_ok names = true ->
  let ks := ids c (length names) in let c' := cafter c (length names) in let qs := ids c' (nq (Dict kvs)) in
  lex com dir c (inc_text names ++ to_string_plain kvs) =
    mkLexed (tokenize (separate_delimiters
               (expandL (map PH qs) (remove_line_endings (PHtext ks ++ remove_trailing_spaces (abody kvs))))))
            (cafter c' (nq (Dict kvs))) [] [] (ntab dir c names) [] (tupdate [] (combine qs (qstrs (Dict kvs)))).
Proof.
  intros Hs Hn ks c' qs. rewrite (written_filled kvs Hs). unfold wfill.
  destruct (Qa_all (Dict kvs) Hs 0%nat false) as [Ha0 Hn0]. rewrite gfmt_dict in Ha0, Hn0. fold (abody kvs) in Ha0, Hn0.
  set (A := remove_trailing_spaces (abody kvs)). set (ls := qstrs (Dict kvs)) in *. set (fs := map format_string ls).
  assert (HA : forallb achar A = true) by (apply forallb_rts; exact Ha0).
  assert (HnA : nh A = length ls) by (unfold A; rewrite nh_rts; exact Hn0).
  assert (Hls : Forall qlit ls) by (apply qstrs_qlit; exact Hs).
  assert (Hlf : Forall litform fs).
  { unfold fs. apply Forall_map_iff. revert Hls. apply Forall_impl. exact qlit_litform. }
  set (W := expandL fs A).
  assert (Hl1 : Forall (fun l => nopair c_slash c_slash l = true) (splitlines W)).
  { apply nopair_lines. unfold splitlines. rewrite concat_splitlines_all. cbn [rev app].
    unfold W. apply nopair_expand; [left; reflexivity|exact HA|exact Hlf]. }
  assert (Hl2 : Forall (fun l => include_line_rest l = None) (splitlines W)).
  { unfold splitlines, W. apply includes_expand; [exact HA|exact Hlf|left; constructor]. }
  assert (HP : forallb tchar (PHtext ks) = true) by apply PHtext_tchars.
  assert (HA' : forallb achar (PHtext ks ++ A) = true) by (rewrite forallb_app, (tchars_achars _ HP), HA; reflexivity).
  assert (EW : PHtext ks ++ W = expandL fs (PHtext ks ++ A)) by (unfold W; symmetry; apply exp_plain; exact HP).
  assert (Hb : nopair c_slash c_star (PHtext ks ++ W) = true).
  { rewrite EW. apply nopair_expand; [right; reflexivity|exact HA'|exact Hlf]. }
  rewrite (lex_inc_early com dir c names W Hn Hl1 Hl2 Hb). fold ks c'. rewrite EW.
  rewrite (lex_tail_filled c' [] [] (ntab dir c names) (PHtext ks ++ A) fs ls).
  - reflexivity.
  - apply achars_gachars. exact HA'.
  - apply qlits_qflav. exact Hls.
  - rewrite nh_app, (nh_plain _ (tchars_no HOLE _ HP eq_refl)). exact HnA.
Qed.

(* ---- the token list ------------------------------------------------------------------------------ *)
Lemma PHI_cons i : exists r, PHI i = 73 :: r.
Proof. unfold PHI, placeholder. eexists. reflexivity. Qed.

Lemma PHI_word i : word_lexeme (PHI i).
Proof.
  destruct (PHI_cons i) as [r E]. split; [rewrite E; discriminate|].
  apply Forall_forall. intros c Hc. apply simple_char_word. exact (forallb_In _ _ _ (PHI_simple i) Hc).
Qed.

Lemma tg_PHtext ks (rest : list N) : toks_go [] (PHtext ks ++ rest) = map PHI ks ++ toks_go [] rest.
Proof.
  induction ks as [|i ks IH]; [reflexivity|]. unfold PHtext. cbn [flat_map map]. fold (PHtext ks). unfold PHline.
  rewrite <- !app_assoc. cbn [app]. rewrite (word_then_brk (PHI i) _ (PHI_word i) (brk_lf _)), tg_lf, IH. reflexivity.
Qed.


Lemma PHI_nolf i : has_char c_lf (PHI i) = false.
Proof.
  apply forallb_nochar. apply forallb_forall. intros c Hc. pose proof (forallb_In _ _ _ (PHI_simple i) Hc) as H. cbn beta.
  destruct (c =? c_lf) eqn:E; [|reflexivity]. apply N.eqb_eq in E. subst c. discriminate H.
Qed.

Lemma rstrip_nosp (x : list N) c : is_space c = false -> rstrip (x ++ [c]) = x ++ [c].
Proof. intros H. unfold rstrip. rewrite rev_unit. cbn [lstrip]. rewrite H. cbn [rev]. rewrite rev_involutive. reflexivity. Qed.


Lemma PHI_last i : exists (x : list N) (c : N), PHI i = x ++ [c] /\ is_space c = false.
Proof.
  pose proof (PHI_word i) as [Hne Hall]. destruct (exists_last Hne) as (x & c & E). exists x, c. split; [exact E|].
  rewrite Forall_forall in Hall. apply (Hall c). rewrite E. apply in_or_app. right. left. reflexivity.
Qed.

Lemma rts_PHtext ks (X : list N) : remove_trailing_spaces (PHtext ks ++ X) = PHtext ks ++ remove_trailing_spaces X.
Proof.
  induction ks as [|i ks IH]; [reflexivity|]. unfold PHtext. cbn [flat_map]. fold (PHtext ks). unfold PHline.
  rewrite <- !app_assoc. cbn [app]. rewrite (rts_line (PHI i) _ (PHI_nolf i)), IH.
  destruct (PHI_last i) as (x & c & E & Hc). replace (rstrip (PHI i)) with (PHI i); [reflexivity|].
  rewrite E. symmetry. apply rstrip_nosp. exact Hc.
Qed.

(* a text that starts with a word character: the unfiltered token list *)
Lemma tokens_start (c : N) (u : list N) : is_space c = false -> is_delim c = false ->
  tokenize (separate_delimiters (c :: u)) = toks_go [] (c :: u) ++ (if trail false (pad_delims u) then [[]] else []).
Proof.
  intros Hs Hd. unfold tokenize, separate_delimiters, split_ws.
  change (c :: u) with ([c] ++ u). rewrite pad_delims_app.
  unfold pad_delims at 1. cbn [flat_map]. rewrite Hd. cbn [app collapse_ws]. rewrite Hs.
  cbn [split_ws_go]. rewrite Hs.
  rewrite (proj1 (unfiltered (pad_delims u)) [c]) by discriminate.
  rewrite pad_words. cbn [toks_go]. rewrite Hs, Hd. reflexivity.
Qed.


Lemma tokens_inc_filled kvs ks qs : ktree writable_leaf (Dict kvs) = true -> (nq (Dict kvs) <= length qs)%nat -> small qs ->
  kvs <> [] ->
  tokenize (separate_delimiters
    (expandL (map PH qs) (remove_line_endings (PHtext ks ++ remove_trailing_spaces (abody kvs))))) =
  map PHI ks ++ toks_doc ltL ktS (labelD qs kvs).
Proof.
  intros Hs Hn Hks Hne. rewrite <- rts_PHtext. set (T := PHtext ks ++ abody kvs).
  rewrite toks_doc_entries', app_assoc.
  assert (Htok : toks_go [] (expandL (map PH qs) (remove_line_endings (remove_trailing_spaces T))) =
                 map PHI ks ++ entriesL (labelD qs kvs)).
  { rewrite <- (surgery_expand _ _ (PHs_solid qs)). rewrite remove_line_endings_eq, tg_strip, tg_map, tg_rts.
    unfold T. rewrite (exp_plain _ _ _ (PHtext_tchars ks)), tg_PHtext. f_equal.
    pose proof (Mt_all (Dict kvs) Hs 0%nat false qs [] Hn Hks) as H. cbn beta iota in H.
    rewrite gfmt_dict, app_nil_r in H. unfold abody. rewrite H. cbn [expandL toks_go emit]. apply app_nil_r. }
  destruct kvs as [|[k c] kvs']; [congruence|].
  rewrite ktree_dict_cons in Hs. apply andb_true_iff in Hs. destruct Hs as [Hs _].
  apply andb_true_iff in Hs. destruct Hs as [Hk _].
  destruct (gentries_head lfa llw k c kvs' Hk) as (h0 & r0 & Eh0 & Hh0).
  destruct (gentries_end lfa llw 0 ((k, c) :: kvs') ltac:(discriminate)) as (F0 & d & Hd & Ed).
  assert (Hhead : exists h r, T = h :: r /\ simple_char h = true).
  { unfold T, abody. destruct ks as [|i ks'].
    - cbn [PHtext flat_map app]. exists h0, r0. split; assumption.
    - unfold PHtext. cbn [flat_map]. unfold PHline at 1. destruct (PHI_cons i) as [r E]. rewrite E.
      rewrite <- !app_assoc. cbn [app]. eexists _, _. split; reflexivity. }
  destruct Hhead as (h & r & Eh & Hh).
  assert (Ed' : filter nsp T = (filter nsp (PHtext ks) ++ F0) ++ [d]).
  { unfold T, abody. rewrite filter_app, Ed, app_assoc. reflexivity. }
  destruct (simple_char_word h Hh) as [Hhs Hhd].
  destruct (rle_rts_shape T h r _ d Eh Hhs Hhd Hd Ed') as (m & Em).
  rewrite <- Htok, Em.
  assert (Hh' : (h =? HOLE) = false).
  { destruct (h =? HOLE) eqn:E; [|reflexivity]. apply N.eqb_eq in E. subst h. discriminate Hh. }
  rewrite (expandL_char _ h _ Hh'), expandL_app, (expandL_char _ d [] (delim_nothole d Hd)).
  cbn [expandL]. apply tokens_full; assumption.
Qed.

(* ================================================================================================ *)
(* 4. the token parser on include tokens followed by the token list of a document                   *)
(* ================================================================================================ *)
Module TRI.
Import TokProofs.
Local Open Scope Z_scope.

(* include tokens *)
Definition itok (x : str) : Prop :=
  is_open x = false /\ is_close x = false /\ str_eqb x t_semi = false /\ is_include_tok x = true.

Lemma itok_PHI i : itok (PHI i).
Proof.
  destruct (PHI_cons i) as [r E]. unfold itok. split; [rewrite E; reflexivity|]. split; [rewrite E; reflexivity|].
  split; [rewrite E; reflexivity|]. unfold is_include_tok, PHI, placeholder. apply contains_refl_app. discriminate.
Qed.

Lemma lev_itok L x r : itok x -> levels_go L (x :: r) = (L, x) :: levels_go L r.
Proof. intros (A & B & _). cbn [levels_go]. rewrite A, B. reflexivity. Qed.

Lemma lev_PHIs L ks r : levels_go L (map PHI ks ++ r) = map (fun i => (L, PHI i)) ks ++ levels_go L r.
Proof. induction ks as [|i ks IH]; [reflexivity|]. cbn [map app]. rewrite (lev_itok L _ _ (itok_PHI i)), IH. reflexivity. Qed.

Lemma pd_include f (ts : list ztok) ti acc lv txt :
  py_nth ts ti = Some (lv, txt) -> 0 <= ti -> itok txt ->
  parse_dict_go (S f) ts ti acc = parse_dict_go f ts (ti + 1) (aset (KS txt) (Leaf (SStr txt)) acc).
Proof.
  intros H H0 (A & _ & C & D). rewrite parse_dict_go_S, H.
  destruct (ti <? 0) eqn:E; [lia|]. rewrite A, C, D, orb_true_r. reflexivity.
Qed.

(* the token before a statement ends a statement or is an include token *)
Definition sep_tok (t : str) : Prop := t = t_semi \/ t = t_rbrace \/ is_include_tok t = true.
Definition pre_okI (pre : list ztok) : Prop :=
  pre = [] \/ exists pre' lv t, pre = pre' ++ [(lv, t)] /\ sep_tok t.
Definition stop3I (ts : list ztok) (ti : Z) : Prop :=
  ti - 3 < 0 \/ exists lv t, py_nth ts (ti - 3) = Some (lv, t) /\ sep_tok t.

Lemma stop3_of_preI (pre rest ts : list ztok) ti :
  pre_okI pre -> ts = pre ++ rest -> ti = Z.of_nat (length pre) + 2 -> stop3I ts ti.
Proof.
  intros [->|(pre' & lv & t & -> & Ht)] Hts Hti.
  - left. cbn [length] in Hti. lia.
  - right. exists lv, t. split; [|exact Ht].
    apply py_nth_split with (a := pre') (b := rest); [list_eq|len_eq].
Qed.

Lemma kv_back_okI f (ts : list ztok) ti L k v acc :
  py_nth ts (ti - 1) = Some (L, v) -> py_nth ts (ti - 2) = Some (L, k) ->
  plain k -> plain v -> 0 <= ti - 2 -> stop3I ts ti ->
  kv_back (S (S (S f))) ts ti 1 L acc = (L, k) :: (L, v) :: acc.
Proof.
  intros Hv Hk Pk Pv Hge Hstop.
  destruct (plain_inv k Pk) as (_ & Kc & Ks & Kcm & Kin).
  destruct (plain_inv v Pv) as (_ & Vc & Vs & Vcm & Vin).
  apply not_close_inv in Kc. destruct Kc as (Kb & _ & _).
  apply not_close_inv in Vc. destruct Vc as (Vb & _ & _).
  cbn [kv_back].
  destruct (ti - 1 <? 0) eqn:E1; [lia|]. rewrite Hv.
  rewrite Z.eqb_refl, Vs, Vb, Vcm, Vin. cbn [negb andb].
  change (1 + 1) with 2.
  destruct (ti - 2 <? 0) eqn:E2; [lia|]. rewrite Hk.
  rewrite Z.eqb_refl, Ks, Kb, Kcm, Kin. cbn [negb andb].
  change (2 + 1) with 3.
  destruct Hstop as [Hs|(lv & t & Hn & Ht)].
  - destruct (ti - 3 <? 0) eqn:E3; [reflexivity|lia].
  - destruct (ti - 3 <? 0) eqn:E3; [reflexivity|]. rewrite Hn.
    destruct Ht as [-> |[-> |Hc]].
    + change (str_eqb t_semi t_semi) with true. rewrite andb_false_r. reflexivity.
    + change (str_eqb t_rbrace t_rbrace) with true. change (str_eqb t_rbrace t_semi) with false.
      cbn [negb]. rewrite andb_true_r, andb_false_r. reflexivity.
    + rewrite Hc. cbn [negb]. rewrite !andb_false_r. reflexivity.
Qed.

Lemma pd_kvI f (ts : list ztok) ti acc L k v kk vv :
  py_nth ts ti = Some (L, t_semi) ->
  py_nth ts (ti - 1) = Some (L, v) -> py_nth ts (ti - 2) = Some (L, k) ->
  plain k -> plain v -> 0 <= ti - 2 -> stop3I ts ti ->
  parse_key k = Ok kk -> parse_value v = Ok vv ->
  parse_dict_go (S (S (S (S f)))) ts ti acc = parse_dict_go (S (S (S f))) ts (ti + 1) (aset kk (Leaf vv) acc).
Proof.
  intros H Hv Hk Pk Pv Hge Hstop Hpk Hpv. rewrite parse_dict_go_S, H.
  destruct (ti <? 0) eqn:E; [lia|]. rewrite Hv.
  destruct semi_facts as (A1 & A2 & A3 & A4). rewrite A1, A2.
  destruct (plain_inv v Pv) as (_ & Vc & _).
  apply not_close_inv in Vc. destruct Vc as (_ & _ & Vc). rewrite Vc.
  cbn [negb andb].
  rewrite (kv_back_okI f ts ti L k v _ Hv Hk Pk Pv Hge Hstop).
  cbv beta iota zeta. rewrite Hpk, Hpv. reflexivity.
Qed.

Section Main.
  Variable lt : scalar -> str.
  Variable kt : key -> str.
  Variable nv : scalar -> scalar.
  Hypothesis Hlt : forall v, plain_token (lt v) = true /\ parse_value (lt v) = Ok (nv v).
  Hypothesis Hktp : forall k, plain_token (kt k) = true.
  Hypothesis Hkpk : forall k, simple_key k = true -> parse_key (kt k) = Ok k.

  Local Notation entry_toks := (TokProofs.entry_toks lt kt).
  Local Notation entries := (TokProofs.entries lt kt).
  Local Notation items := (TokProofs.items lt kt).
  Local Notation mkv := (TokProofs.mkv nv).
  Local Notation plain_kt := (TRK.plain_kt kt Hktp).
  Local Notation plain_lt := (TRK.plain_lt lt nv Hlt).
  Local Notation lev_entry_leaf := (TRK.lev_entry_leaf lt kt nv Hlt Hktp).
  Local Notation lev_entry_dict := (TRK.lev_entry_dict lt kt nv Hlt Hktp).
  Local Notation lev_entry_lst := (TRK.lev_entry_lst lt kt nv Hlt Hktp).
  Local Notation good_entries := (TRK.good_entries lt kt nv Hlt Hktp).
  Local Notation good_items := (TRK.good_items lt kt nv Hlt Hktp).

  Ltac norm_in H := repeat (first [rewrite <- app_assoc in H | progress cbn [app] in H]).
  Ltac fuel f Hf := destruct f as [|f]; [exfalso; cbn [length] in Hf; lia|].

  (* TRK.dict_spec with the weaker condition on what stands in front of the entries *)
  Lemma dict_after kvs :
    forall L (pre tail : list ztok) acc f (ts : list ztok) ti,
    ts = pre ++ levels_go L (entries kvs) ++ tail -> ti = Z.of_nat (length pre) ->
    pre_okI pre -> tail_ok tail ->
    (length (entries kvs) + length tail + 4 <= f)%nat ->
    keys_nodup (map fst acc ++ map fst kvs) = true ->
    forallb (fun kc => wf (snd kc)) kvs = true ->
    skeys (Dict kvs) = true ->
    parse_dict_go f ts ti acc = Ok (acc ++ map mkv kvs).
  Proof.
    destruct kvs as [|[k c] kvs]; intros L pre tail acc f ts ti Hts Hti Hpre Htail Hf Hnd Hwf Hsim.
    - cbn [TokProofs.entries flat_map levels_go app] in Hts. cbn [map]. rewrite app_nil_r.
      destruct Htail as [->|[l ->]].
      + fuel f Hf. apply pd_end. apply py_nth_end. len_eq.
      + fuel f Hf. fuel f Hf.
        rewrite (pd_skip (S f) ts ti acc l []); [| |lia|reflexivity..].
        * apply pd_end. apply py_nth_end. len_eq.
        * apply py_nth_split with (a := pre) (b := []); [exact Hts|exact Hti].
    - pose proof (TRK.P_all lt kt nv Hlt Hktp Hkpk (Dict kvs)) as IH. cbn [TRK.P] in IH.
      pose proof (TRK.P_all lt kt nv Hlt Hktp Hkpk c) as Hc.
      assert (Hlen : length (entries ((k, c) :: kvs)) = (length (entry_toks (k, c)) + length (entries kvs))%nat).
      { unfold TokProofs.entries. cbn [flat_map]. apply app_length. }
      change (entries ((k, c) :: kvs)) with (entry_toks (k, c) ++ entries kvs) in Hts.
      cbn [map fst] in Hnd. cbn [forallb snd] in Hwf. apply andb_true_iff in Hwf. destruct Hwf as [Hwc Hwf].
      cbn [map]. unfold TokProofs.mkv at 1. cbn [fst snd].
      rewrite skeys_dict_cons in Hsim. apply andb_true_iff in Hsim. destruct Hsim as [Hsim Hs3].
      apply andb_true_iff in Hsim. destruct Hsim as [Hs1 Hs2].
      pose proof (Hkpk k Hs1) as Hpk.
      destruct c as [v|d|l].
      + (* k v ; *)
        rewrite lev_entry_leaf in Hts. norm_in Hts.
        assert (Hel : length (entry_toks (k, Leaf v)) = 3%nat) by reflexivity.
        rewrite Hlen, Hel in Hf. clear Hlen Hel.
        do 6 (fuel f Hf).
        rewrite (pd_plain _ ts ti acc L (kt k)); [| |lia|apply plain_kt].
        2:{ rewrite Hts. apply (py_nth_off pre []). len_eq. }
        rewrite (pd_plain _ ts (ti + 1) acc L (lt v)); [| |lia|apply plain_lt].
        2:{ rewrite Hts. apply (py_nth_off pre [(L, kt k)]). len_eq. }
        rewrite (pd_kvI f ts (ti + 1 + 1) acc L (kt k) (lt v) k (nv v)).
        * destruct (aset_step k (Leaf (nv v)) acc (map fst kvs) Hnd) as [Has Hnd'].
          rewrite Has.
          rewrite (IH L (pre ++ [(L, kt k); (L, lt v); (L, t_semi)]) tail (acc ++ [(k, Leaf (nv v))]) _ ts (ti + 1 + 1 + 1)).
          -- cbn [map_leaves]. rewrite <- app_assoc. reflexivity.
          -- list_eq.
          -- len_eq.
          -- right. exists (pre ++ [(L, kt k); (L, lt v)]), L, t_semi. split; [list_eq|left; reflexivity].
          -- exact Htail.
          -- lia.
          -- exact Hnd'.
          -- exact Hwf.
          -- exact Hs3.
        * rewrite Hts. apply (py_nth_off pre [(L, kt k); (L, lt v)]). len_eq.
        * rewrite Hts. apply (py_nth_off pre [(L, kt k)]). len_eq.
        * rewrite Hts. apply (py_nth_off pre []). len_eq.
        * apply plain_kt.
        * apply plain_lt.
        * lia.
        * eapply stop3_of_preI; [exact Hpre|exact Hts|lia].
        * exact Hpk.
        * exact (proj2 (Hlt v)).
      + (* k { ... } *)
        rewrite lev_entry_dict in Hts. norm_in Hts.
        assert (Hel : length (entry_toks (k, Dict d)) = (length (entries d) + 3)%nat).
        { unfold TokProofs.entry_toks. cbn [fst snd]. rewrite toks_dict. cbn [app]. rewrite app_nil_r. len_eq. }
        rewrite Hlen, Hel in Hf. clear Hlen Hel.
        destruct (good_ge_nc (entries d) (L + 1) (good_entries d)) as [Hge Hncc].
        rewrite wf_dict in Hwc. apply andb_true_iff in Hwc. destruct Hwc as [Hnd_d Hwf_d].
        do 3 (fuel f Hf).
        rewrite (pd_plain _ ts ti acc L (kt k)); [| |lia|apply plain_kt].
        2:{ rewrite Hts. apply (py_nth_off pre []). len_eq. }
        assert (Hd : parse_dict_go (S f) (levels_go (L + 1) (entries d)) 0 [] = Ok (map mkv d)).
        { apply (Hc (L + 1) [] [] [] (S f)).
          - rewrite app_nil_r. reflexivity.
          - reflexivity.
          - left. reflexivity.
          - left. reflexivity.
          - cbn [length]. lia.
          - exact Hnd_d.
          - exact Hwf_d.
          - exact Hs2. }
        rewrite (pd_open_dict f ts pre (levels_go (L + 1) (entries d)) (levels_go L (entries kvs) ++ tail)
                   (ti + 1) acc L (kt k) k (map mkv d));
          [|exact Hts|lia|apply (TRK.nc_kt kt Hktp)|exact Hpk|exact Hge|exact Hncc|len_eq|exact Hd].
        destruct (aset_step k (Dict (map mkv d)) acc (map fst kvs) Hnd) as [Has Hnd'].
        rewrite Has. rewrite map_leaves_dict.
        rewrite (IH L (pre ++ (L, kt k) :: (L, t_lbrace) :: levels_go (L + 1) (entries d) ++ [(L, t_rbrace)])
                   tail (acc ++ [(k, Dict (map mkv d))]) _ ts
                   (ti + 1 + Z.of_nat (length (levels_go (L + 1) (entries d))) + 2)).
        * rewrite <- app_assoc. reflexivity.
        * list_eq.
        * len_eq.
        * right. exists (pre ++ (L, kt k) :: (L, t_lbrace) :: levels_go (L + 1) (entries d)), L, t_rbrace.
          split; [list_eq|right; reflexivity].
        * exact Htail.
        * lia.
        * exact Hnd'.
        * exact Hwf.
        * exact Hs3.
      + (* k ( ... ) ; *)
        rewrite lev_entry_lst in Hts. norm_in Hts.
        assert (Hel : length (entry_toks (k, Lst l)) = (length (items l) + 4)%nat).
        { unfold TokProofs.entry_toks. cbn [fst snd]. rewrite toks_lst. len_eq. }
        rewrite Hlen, Hel in Hf. clear Hlen Hel.
        destruct (good_ge_nc (items l) (L + 1) (good_items l)) as [Hge Hncc].
        rewrite wf_lst in Hwc.
        do 4 (fuel f Hf).
        rewrite (pd_plain _ ts ti acc L (kt k)); [| |lia|apply plain_kt].
        2:{ rewrite Hts. apply (py_nth_off pre []). len_eq. }
        rewrite (pd_open_list (S f) ts pre (levels_go (L + 1) (items l)) (levels_go L (entries kvs) ++ tail)
                   (ti + 1) acc L (kt k) k (map (map_leaves nv) l));
          [|exact Hts|lia|apply (TRK.nc_kt kt Hktp)|exact Hpk|exact Hge|len_eq| |].
        2:{ intros He. apply (f_equal (@length _)) in He. rewrite levels_go_length in He. cbn [length] in He.
            apply length_zero_iff_nil in He. apply TRK.items_nil in He. subst l. reflexivity. }
        2:{ intros _. apply (Hc L (S (S f))); [reflexivity|lia|exact Hwc|exact Hs2]. }
        rewrite (pd_semi_rpar (S f) ts (ti + 1 + Z.of_nat (length (levels_go (L + 1) (items l))) + 2) _ L L).
        * destruct (aset_step k (Lst (map (map_leaves nv) l)) acc (map fst kvs) Hnd) as [Has Hnd'].
          rewrite Has. rewrite map_leaves_lst.
          rewrite (IH L (pre ++ (L, kt k) :: (L, t_lpar) :: levels_go (L + 1) (items l) ++ [(L, t_rpar); (L, t_semi)])
                     tail (acc ++ [(k, Lst (map (map_leaves nv) l))]) _ ts
                     (ti + 1 + Z.of_nat (length (levels_go (L + 1) (items l))) + 2 + 1)).
          -- rewrite <- app_assoc. reflexivity.
          -- list_eq.
          -- len_eq.
          -- right. exists (pre ++ (L, kt k) :: (L, t_lpar) :: levels_go (L + 1) (items l) ++ [(L, t_rpar)]), L, t_semi.
             split; [list_eq|left; reflexivity].
          -- exact Htail.
          -- lia.
          -- exact Hnd'.
          -- exact Hwf.
          -- exact Hs3.
        * apply py_nth_split with (a := pre ++ (L, kt k) :: (L, t_lpar) :: levels_go (L + 1) (items l) ++ [(L, t_rpar)])
                                  (b := levels_go L (entries kvs) ++ tail); [list_eq|len_eq].
        * lia.
        * apply py_nth_split with (a := pre ++ (L, kt k) :: (L, t_lpar) :: levels_go (L + 1) (items l))
                                  (b := (L, t_semi) :: levels_go L (entries kvs) ++ tail); [list_eq|len_eq].
  Qed.

  Lemma pd_includes : forall iks (pre rest : list ztok) acc f L (ts : list ztok) others,
    ts = pre ++ map (fun i => (L, PHI i)) iks ++ rest ->
    keys_nodup (map fst acc ++ map fst (inc_phs iks) ++ others) = true ->
    parse_dict_go (length iks + f) ts (Z.of_nat (length pre)) acc =
      parse_dict_go f ts (Z.of_nat (length pre + length iks)) (acc ++ inc_phs iks) /\
    keys_nodup (map fst (acc ++ inc_phs iks) ++ others) = true.
  Proof.
    induction iks as [|i iks IH]; intros pre rest acc f L ts others Hts Hnd.
    - cbn [length inc_phs map Nat.add]. rewrite Nat.add_0_r, app_nil_r. split; [reflexivity|exact Hnd].
    - cbn [inc_phs map fst app] in Hnd. fold (inc_phs iks) in Hnd.
      destruct (aset_step (KS (PHI i)) (Leaf (SStr (PHI i))) acc _ Hnd) as [Has Hnd'].
      cbn [length Nat.add].
      rewrite (pd_include _ ts (Z.of_nat (length pre)) acc L (PHI i)); [| |lia|apply itok_PHI].
      2:{ rewrite Hts. cbn [map app]. apply (py_nth_off pre []). len_eq. }
      rewrite Has.
      destruct (IH (pre ++ [(L, PHI i)]) rest (acc ++ [(KS (PHI i), Leaf (SStr (PHI i)))]) f L ts others) as [E1 E2].
      + rewrite Hts. cbn [map app]. rewrite <- app_assoc. reflexivity.
      + exact Hnd'.
      + replace (Z.of_nat (length pre) + 1) with (Z.of_nat (length (pre ++ [(L, PHI i)]))) by len_eq.
        rewrite E1. cbn [inc_phs map]. fold (inc_phs iks). rewrite <- !app_assoc. cbn [app]. split.
        * f_equal. len_eq.
        * rewrite <- app_assoc in E2. exact E2.
  Qed.

  (* the token parser on include tokens followed by the token list of a document *)
  Theorem tok_roundtrip_inc iks kvs tl : (tl = [] \/ tl = [[]]) -> NoDup iks -> small iks ->
    wf (Dict kvs) = true -> skeys (Dict kvs) = true ->
    parse_tokens (map PHI iks ++ entries kvs ++ tl) = Ok (inc_phs iks ++ kvs_of (map_leaves nv (Dict kvs))).
  Proof.
    intros Htl Hnd Hsm Hwf Hsim.
    pose proof (wf_phs_app iks kvs Hnd Hsm Hsim Hwf) as Hall. rewrite wf_dict in Hall.
    apply andb_true_iff in Hall. destruct Hall as [Hkn _]. rewrite map_app in Hkn.
    rewrite wf_dict in Hwf. apply andb_true_iff in Hwf. destruct Hwf as [_ Hwf].
    rewrite map_leaves_dict. cbn [kvs_of].
    unfold parse_tokens, levels.
    rewrite lev_PHIs, levels_go_app, (g_net _ (good_entries kvs)).
    set (tail := levels_go (0 + 0) tl).
    assert (Htail : tail_ok tail).
    { unfold tail. destruct Htl as [-> | ->]; [left; reflexivity|right; exists 0; reflexivity]. }
    assert (Hlt1 : (length tail <= 1)%nat) by (destruct Htail as [->|[l ->]]; cbn [length]; lia).
    clearbody tail.
    set (ts := map (fun i => (0, PHI i)) iks ++ levels_go 0 (entries kvs) ++ tail).
    set (F := (4 * length ts + 8)%nat).
    destruct (pd_includes iks [] (levels_go 0 (entries kvs) ++ tail) [] (F - length iks) 0 ts (map fst kvs)) as [E1 E2].
    - reflexivity.
    - exact Hkn.
    - match goal with |- parse_dict_go ?n _ _ _ = _ => replace n with (length iks + (F - length iks))%nat end.
      2:{ unfold F, ts. rewrite !app_length, map_length. lia. }
      cbn [length Nat.add app] in E1. change (Z.of_nat 0) with 0 in E1. rewrite E1.
      apply (dict_after kvs 0 (map (fun i => (0, PHI i)) iks) tail (inc_phs iks) _ ts).
      + reflexivity.
      + rewrite map_length. reflexivity.
      + destruct iks as [|i iks'] using rev_ind; [left; reflexivity|]. right.
        exists (map (fun i => (0, PHI i)) iks'), 0, (PHI i). split; [rewrite map_app; reflexivity|].
        right. right. exact (proj2 (proj2 (proj2 (itok_PHI i)))).
      + exact Htail.
      + unfold F, ts. rewrite !app_length, map_length, levels_go_length. unfold ztok in *. lia.
      + exact E2.
      + exact Hwf.
      + exact Hsim.
  Qed.
End Main.
End TRI.

(* ================================================================================================ *)
(* 5. everything behind the lexer                                                                   *)
(* ================================================================================================ *)

Lemma PHI_noW i : PWs (SStr (PHI i)) = false.
Proof.
  unfold PWs. cbn [py_str]. destruct (contains w_STRINGLITERAL (PHI i)) eqn:E; [|reflexivity]. exfalso.
  apply contains_head_In in E. destruct (PHI_chars i _ E) as [H|H]; [cbn in H; intuition discriminate|discriminate H].
Qed.

Lemma map_mkv_phs g iks : (forall i, g (SStr (PHI i)) = SStr (PHI i)) -> map (TokProofs.mkv g) (inc_phs iks) = inc_phs iks.
Proof.
  intros Hg. induction iks as [|i iks IH]; [reflexivity|]. cbn [inc_phs map]. fold (inc_phs iks).
  unfold TokProofs.mkv at 1. cbn [fst snd map_leaves]. rewrite (Hg i), IH. reflexivity.
Qed.

Lemma parser_clean_inc f iks kvs : (forall kc, In kc kvs -> simple_key (fst kc) = true) ->
  parser_clean (inc_phs iks ++ map (TokProofs.mkv f) kvs) = inc_phs iks ++ map (TokProofs.mkv f) kvs.
Proof.
  intros Hs. unfold parser_clean.
  assert (G : forall k0, (k0 = KS (of_string "_variables") \/ k0 = KS (of_string "_includes")) ->
              adel k0 (inc_phs iks ++ map (TokProofs.mkv f) kvs) = inc_phs iks ++ map (TokProofs.mkv f) kvs).
  { intros k0 Hk0. apply adel_absent. intros kc Hin. apply in_app_or in Hin. destruct Hin as [Hin|Hin].
    - unfold inc_phs in Hin. apply in_map_iff in Hin. destruct Hin as (i & <- & _). cbn [fst].
      destruct (PHI_cons i) as [r E]. rewrite E. destruct Hk0 as [-> | ->]; reflexivity.
    - apply in_map_iff in Hin. destruct Hin as (kc0 & <- & Hin0).
      cbn [TokProofs.mkv fst]. pose proof (Hs kc0 Hin0) as Hk.
      destruct (simple_key_inv _ Hk) as (_ & _ & _ & N1 & N2).
      apply SDictProofs.key_eqb_neq. destruct Hk0 as [-> | ->]; intros Heq; [apply N1|apply N2]; symmetry; exact Heq. }
  rewrite (G _ (or_introl eq_refl)). apply G. right. reflexivity.
Qed.

Lemma parse_of_lexed_inc : forall kvs iks es ks tl cm dirc count c' (txt : list N),
  wf (Dict kvs) = true -> ktree writable_leaf (Dict kvs) = true ->
  NoDup ks -> small ks -> length ks = nq (Dict kvs) -> quoted_within 11 (Dict kvs) = true ->
  NoDup iks -> small iks -> length iks = length es -> NoDup es ->
  (tl = [] \/ tl = [[]]) ->
  lex cm dirc count txt = mkLexed (map PHI iks ++ entriesL (labelD ks kvs) ++ tl) c' [] [] (combine iks es) []
                                  (tupdate [] (combine ks (qstrs (Dict kvs)))) ->
  parse_string cm dirc count txt =
    Ok (mkParsed (mkSD (inc_phs iks ++ kvs_of (map_leaves written_value (Dict kvs))) [] [] (combine iks es) []) c').
Proof.
  intros kvs iks es ks tl cm dirc count c' txt Hw Hwr Hnd Hsm Hlen0 Hdeep Hndi Hsmi Hleni Hes Htl Hlex.
  set (ls := qstrs (Dict kvs)) in *.
  assert (Hlen : length ks = length ls) by exact Hlen0.
  destruct (label_facts (Dict kvs) ks) as (L1 & L2 & L3). rewrite label_dict in L1, L2, L3.
  assert (HwL : wf (Dict (labelD ks kvs)) = true) by (rewrite L1; exact Hw).
  assert (HkL : skeys (Dict (labelD ks kvs)) = true) by (rewrite L2; exact (ktree_skeys _ _ Hwr)).
  set (d0 := map (TokProofs.mkv nvL) (labelD ks kvs)).
  assert (Hd0 : Dict d0 = map_leaves nvL (Dict (labelD ks kvs))) by (rewrite TokProofs.map_leaves_dict; reflexivity).
  assert (Hw0 : wf (Dict d0) = true) by (rewrite Hd0, wf_map_leaves; exact HwL).
  assert (Hk0 : skeys (Dict d0) = true) by (rewrite Hd0, skeys_map_leaves; exact HkL).
  assert (Hlits : Forall qlit ls) by (apply qstrs_qlit; exact Hwr).
  assert (Hok : Forall (fun s => PWs (pv s) = false) ls).
  { revert Hlits. apply Forall_impl. intros s Hs. destruct (qlit_content s Hs) as [A B]. apply PWs_pv; assumption. }
  assert (Htab : tupdate [] (combine ks ls) = combine ks ls).
  { apply (tupdate_fresh (combine ks ls) []). cbn [app]. rewrite (combine_fst ks ls Hlen). exact Hnd. }
  assert (Hfin : map (TokProofs.mkv (Gfun (combine ks ls))) d0 = map (TokProofs.mkv written_value) kvs).
  { assert (H : map_leaves (Gfun (combine ks ls)) (Dict d0) = map_leaves written_value (Dict kvs)).
    { rewrite Hd0, map_leaves_compose, <- label_dict.
      apply (Vt_all (combine ks ls) (Dict kvs) ks []); [|exact Hwr].
      rewrite app_nil_r. apply rel_top; assumption. }
    rewrite !TokProofs.map_leaves_dict in H. inversion H. reflexivity. }
  assert (Hw' : wf (Dict (map (TokProofs.mkv written_value) kvs)) = true).
  { rewrite <- TokProofs.map_leaves_dict, wf_map_leaves. exact Hw. }
  assert (Hk' : skeys (Dict (map (TokProofs.mkv written_value) kvs)) = true).
  { rewrite <- TokProofs.map_leaves_dict, skeys_map_leaves. exact (ktree_skeys _ _ Hwr). }
  assert (Hcl : forall d, skeys (Dict d) = true -> wf (Dict d) = true ->
            sd_clean (mkSD (inc_phs iks ++ d) [] [] (combine iks es) []) = mkSD (inc_phs iks ++ d) [] [] (combine iks es) []).
  { intros d H1 H2. apply sd_clean_inc; try assumption; reflexivity. }
  unfold parse_string. cbv zeta. rewrite Hlex.
  cbn [lxd_tokens lxd_count lxd_lc lxd_bc lxd_inc lxd_expr lxd_lit].
  rewrite (TRI.tok_roundtrip_inc ltL ktS nvL HltL HktpS HkpkS iks (labelD ks kvs) tl Htl Hndi Hsmi HwL HkL).
  rewrite TokProofs.map_leaves_dict. cbn [kvs_of bind]. fold d0.
  rewrite (Hcl d0 Hk0 Hw0). cbn [sd_data sd_lc sd_bc sd_inc sd_expr].
  rewrite Htab, (insert_all (combine ks ls) (inc_phs iks ++ d0)).
  - rewrite TokProofs.map_leaves_dict. cbn [kvs_of bind]. rewrite map_app, Hfin.
    rewrite (map_mkv_phs _ iks (fun i => Gfun_noW _ _ (PHI_noW i))).
    rewrite (parser_clean_inc written_value iks kvs (ktree_dict_keys _ kvs Hwr)), (Hcl _ Hk' Hw').
    rewrite TokProofs.map_leaves_dict. reflexivity.
  - apply wf_phs_app; assumption.
  - rewrite lw_dict, forallb_app. apply andb_true_iff. split.
    + apply forallb_forall. intros kc Hin. unfold inc_phs in Hin. apply in_map_iff in Hin. destruct Hin as (i & <- & _).
      cbn [snd Nat.pred lw]. apply orb_true_r.
    + rewrite <- lw_dict. rewrite Hd0. apply L3; assumption.
  - apply Forall_forall. intros [k s] Hin. cbn [snd]. rewrite Forall_forall in Hok. apply Hok.
    exact (in_combine_r _ _ _ _ Hin).
Qed.

(* ---- the token list when the document is empty --------------------------------------------------- *)
Definition wordsp (c : N) : bool := simple_char c || is_space c.

Lemma PHtext_wordsp ks : forallb wordsp (PHtext ks) = true.
Proof.
  induction ks as [|i ks IH]; [reflexivity|]. unfold PHtext. cbn [flat_map]. fold (PHtext ks). unfold PHline.
  assert (H1 : forallb wordsp (PHI i) = true).
  { apply forallb_forall. intros c Hc. unfold wordsp. rewrite (forallb_In _ _ _ (PHI_simple i) Hc). reflexivity. }
  rewrite !forallb_app, IH, H1. reflexivity.
Qed.

Lemma wordsp_nonspace c : wordsp c = true -> is_space c = false -> is_space c = false /\ is_delim c = false.
Proof.
  unfold wordsp. intros H Hs. rewrite Hs, orb_false_r in H. exact (simple_char_word c H).
Qed.

Lemma tokens_inc_empty ks : ks <> [] ->
  tokenize (separate_delimiters (expandL [] (remove_line_endings (PHtext ks ++ remove_trailing_spaces (abody []))))) =
  map PHI ks.
Proof.
  intros Hne. change (remove_trailing_spaces (abody [])) with (@nil N). rewrite app_nil_r.
  set (X := remove_line_endings (PHtext ks)).
  assert (HX : forallb wordsp X = true).
  { unfold X. rewrite remove_line_endings_eq. unfold strip. apply forallb_rstrip, forallb_lstrip, forallb_lf2sp; [reflexivity|].
    apply PHtext_wordsp. }
  assert (Ht : forallb tchar X = true).
  { apply forallb_forall. intros c Hc. pose proof (forallb_In _ _ _ HX Hc) as H. unfold wordsp in H.
    apply orb_true_iff in H. destruct H as [H|H]; [apply simple_tchar; exact H|].
    unfold X in Hc. rewrite remove_line_endings_eq in Hc.
    assert (Hin : In c (map lf2sp (PHtext ks))).
    { unfold strip in Hc. destruct (rstrip_split (lstrip (map lf2sp (PHtext ks)))) as (q & Eq & _).
      destruct (lstrip_split (map lf2sp (PHtext ks))) as (p & Ep & _). rewrite Ep, Eq.
      apply in_or_app. right. apply in_or_app. left. exact Hc. }
    apply in_map_iff in Hin. destruct Hin as (c0 & E0 & Hin0).
    pose proof (forallb_In _ _ _ (PHtext_tchars ks) Hin0) as Hc0. unfold lf2sp in E0.
    destruct (c0 =? c_lf); [subst c; reflexivity|subst c0; exact Hc0]. }
  assert (Etg : toks_go [] X = map PHI ks).
  { unfold X. rewrite remove_line_endings_eq, tg_strip, tg_map. rewrite <- (app_nil_r (PHtext ks)), tg_PHtext.
    cbn [toks_go emit]. apply app_nil_r. }
  rewrite <- (app_nil_r X), (exp_plain [] X [] Ht). cbn [expandL]. rewrite app_nil_r.
  destruct (strip_shape (map lf2sp (PHtext ks))) as [E|(c0 & m & e & Hc0 & He & [[E _]|E])];
    rewrite <- remove_line_endings_eq in E; fold X in E.
  - exfalso. rewrite E in Etg. destruct ks; [congruence|discriminate Etg].
  - rewrite E in *. cbn [forallb] in HX. apply andb_true_iff in HX. destruct HX as [Hc _].
    destruct (wordsp_nonspace c0 Hc Hc0) as [_ Hd]. refine (eq_trans (tokens_start c0 [] Hc0 Hd) _).
    cbn [pad_delims flat_map trail]. rewrite app_nil_r. exact Etg.
  - rewrite E in *. cbn [forallb] in HX. apply andb_true_iff in HX. destruct HX as [Hc HX].
    rewrite forallb_app in HX. apply andb_true_iff in HX. destruct HX as [_ HX]. cbn [forallb] in HX. rewrite andb_true_r in HX.
    destruct (wordsp_nonspace c0 Hc Hc0) as [_ Hd]. destruct (wordsp_nonspace e HX He) as [_ Hde].
    refine (eq_trans (tokens_start c0 (m ++ [e]) Hc0 Hd) _).
    rewrite pad_delims_app. unfold pad_delims at 2. cbn [flat_map]. rewrite Hde.
    cbn [app]. rewrite trail_snoc, He, app_nil_r. exact Etg.
Qed.

Lemma tokens_inc_all kvs ks qs : ktree writable_leaf (Dict kvs) = true -> (nq (Dict kvs) <= length qs)%nat -> small qs ->
  exists tl, (tl = [] \/ tl = [[]]) /\
  tokenize (separate_delimiters
    (expandL (map PH qs) (remove_line_endings (PHtext ks ++ remove_trailing_spaces (abody kvs))))) =
  map PHI ks ++ entriesL (labelD qs kvs) ++ tl.
Proof.
  intros Hs Hn Hks. destruct kvs as [|kc kvs'].
  - destruct ks as [|i ks'].
    + exists [[]]. split; [right; reflexivity|]. reflexivity.
    + exists []. split; [left; reflexivity|].
      assert (E : forall fs, expandL fs (remove_line_endings (PHtext (i :: ks') ++ remove_trailing_spaces (abody []))) =
                            expandL [] (remove_line_endings (PHtext (i :: ks') ++ remove_trailing_spaces (abody [])))).
      { intros fs. change (remove_trailing_spaces (abody [])) with (@nil N). rewrite app_nil_r.
        set (X := remove_line_endings (PHtext (i :: ks'))).
        assert (Ht : forallb tchar X = true).
        { unfold X. rewrite remove_line_endings_eq. unfold strip. apply tc_rstrip, tc_lstrip, tc_map, PHtext_tchars. }
        rewrite <- (app_nil_r X), !(exp_plain _ X [] Ht). reflexivity. }
      rewrite E, (tokens_inc_empty (i :: ks') ltac:(discriminate)). cbn [labelD TokProofs.entries flat_map app].
      rewrite app_nil_r. reflexivity.
  - exists [[]]. split; [right; reflexivity|]. rewrite (tokens_inc_filled _ ks qs Hs Hn Hks ltac:(discriminate)).
    rewrite toks_doc_entries'. reflexivity.
Qed.

(* ================================================================================================ *)
(* 6. the native front end on include lines followed by a written document                          *)
(* ================================================================================================ *)

Lemma cafter_ge c n : (-1 <= c)%Z -> (-1 <= cafter c n)%Z.
Proof.
  revert c. induction n as [|n IH]; intros c H; [exact H|]. cbn [cafter]. apply IH.
  pose proof (counter_next_nonneg c H). lia.
Qed.

Theorem native_parse_includes com dir c names kvs :
  wf (Dict kvs) = true -> writable_tree (Dict kvs) = true ->
  forallb native_name_ok names = true -> NoDup names ->
  (-1 <= c)%Z -> (Z.of_nat (length names) <= 1000000)%Z -> (Z.of_nat (nq (Dict kvs)) <= 1000000)%Z ->
  quoted_within 11 (Dict kvs) = true ->
  parse_string com dir c (inc_text names ++ to_string_plain kvs) =
    Ok (mkParsed (mkSD (inc_phs (ids c (length names)) ++ kvs_of (map_leaves written_value (Dict kvs))) [] []
                       (combine (ids c (length names)) (map (nat_entry dir) names)) [])
                 (cafter (cafter c (length names)) (nq (Dict kvs)))).
Proof.
  intros Hw Hwr Hn Hnames Hc Hni Hnq Hdeep. rewrite writable_ktree in Hwr.
  set (iks := ids c (length names)). set (c' := cafter c (length names)). set (qs := ids c' (nq (Dict kvs))).
  assert (Hc' : (-1 <= c')%Z) by (apply cafter_ge; exact Hc).
  assert (Hndi : NoDup iks) by (apply ids_nodup; assumption).
  assert (Hndq : NoDup qs) by (apply ids_nodup; assumption).
  destruct (tokens_inc_all kvs iks qs Hwr) as (tl & Htl & Htok).
  { unfold qs. rewrite ids_length. apply Nat.le_refl. }
  { apply ids_small. }
  apply (parse_of_lexed_inc kvs iks (map (nat_entry dir) names) qs tl); try assumption.
  - apply ids_small.
  - apply ids_length.
  - apply ids_small.
  - unfold iks. rewrite ids_length, map_length. reflexivity.
  - apply NoDup_map_on; [|exact Hnames]. intros x y _ _ E. unfold nat_entry in E. congruence.
  - rewrite (lex_inc_written kvs com dir c names Hwr Hn). cbv zeta. fold iks c' qs.
    rewrite Htok, (ntab_combine dir names c Hndi). reflexivity.
Qed.
Print Assumptions native_parse_includes.
Print Assumptions json_parse_includes.

(* ================================================================================================ *)
(* 7. JSON == native for units with include entries (front end)                                     *)
(* ================================================================================================ *)

Lemma double_bsl_id n : has_char c_bsl n = false -> double_bsl n = n.
Proof.
  unfold double_bsl. induction n as [|c n IH]; intros H; [reflexivity|].
  rewrite has_char_cons in H. apply orb_false_iff in H. destruct H as [Hc Hn]. cbn [flat_map].
  rewrite N.eqb_sym in Hc. rewrite Hc, (IH Hn). reflexivity.
Qed.

Lemma json_entry_nat dir n : has_char c_bsl n = false -> json_entry dir n = nat_entry dir n.
Proof. intros H. unfold json_entry, nat_entry, inc_directive. rewrite (double_bsl_id n H). reflexivity. Qed.

Lemma inc_names_combine ks (es : list include_entry) : length ks = length es ->
  inc_names (combine ks es) = map (fun e => (snd (fst e), snd e)) es.
Proof.
  revert es. induction ks as [|k ks IH]; intros [|e es] Hl; try discriminate Hl; [reflexivity|].
  cbn [combine inc_names map fst snd]. f_equal. apply IH. cbn [length] in Hl. lia.
Qed.

Lemma combine_snd' {A B} (ks : list A) (ls : list B) : length ks = length ls -> map snd (combine ks ls) = ls.
Proof.
  revert ls. induction ks as [|k ks IH]; intros [|s ls] H; try discriminate H; [reflexivity|].
  cbn [combine map snd]. f_equal. apply IH. cbn [length] in H. lia.
Qed.

(* the side conditions on the include entries (key text, file name):
   json_inc_ok     the key is an include key for the JSON parser (# include ...); the file name is the value without one
                   quote character at either end (inames);
   native_name_ok  the name is a single line and the line comment stage finds nothing in the directive;
   names pairwise different (the clean-up drops an include placeholder whose table entry repeats an earlier one --
   in both formats, see the examples in Properties/C09). *)
Definition inc_ok (kn : str * str) : bool := json_inc_ok kn && native_name_ok (remove_quotes (snd kn)).

Theorem json_native_includes : forall dir c1 c2 ins kvs,
  wf (Dict (json_inc_kvs ins ++ kvs)) = true -> forallb inc_ok ins = true -> NoDup (inames ins) ->
  writable_tree (Dict kvs) = true -> ordinary_kvs kvs = true -> no_include_keys kvs = true ->
  (-1 <= c1)%Z -> (-1 <= c2)%Z -> (Z.of_nat (length ins) <= 1000000)%Z ->
  (Z.of_nat (nq (Dict kvs)) <= 1000000)%Z -> quoted_within 11 (Dict kvs) = true ->
  let n := length ins in let names := inames ins in
  json_parse dir c1 (json_inc_kvs ins ++ kvs) =
    mkParsed (mkSD (inc_phs (ids c1 n) ++ kvs) [] [] (combine (ids c1 n) (map (json_entry dir) names)) []) (cafter c1 n) /\
  parse_string true dir c2 (inc_text names ++ to_string_plain kvs) =
    Ok (mkParsed (mkSD (inc_phs (ids c2 n) ++ kvs_of (map_leaves written_value (Dict kvs))) [] []
                       (combine (ids c2 n) (map (nat_entry dir) names)) [])
                 (cafter (cafter c2 n) (nq (Dict kvs)))).
Proof.
  intros dir c1 c2 ins kvs Hwf Hok Hnames Hwr Ho Hni Hc1 Hc2 Hn Hnq Hdeep n names.
  assert (Hj : forallb json_inc_ok ins = true /\ forallb native_name_ok names = true).
  { unfold names, inames. clear -Hok. induction ins as [|kn ins IH]; [split; reflexivity|]. cbn [forallb map] in *.
    apply andb_true_iff in Hok. destruct Hok as [H1 H2]. unfold inc_ok in H1. apply andb_true_iff in H1. destruct H1 as [Ha Hb].
    destruct (IH H2) as [I1 I2]. rewrite Ha, Hb, I1, I2. split; reflexivity. }
  destruct Hj as [Hj Hnn]. destruct (wf_app_inv _ _ Hwf) as (_ & _ & Hw). split.
  - apply json_parse_includes; try assumption.
    + rewrite writable_ktree in Hwr. exact (ktree_skeys _ _ Hwr).
    + apply ids_nodup; assumption.
  - unfold n. rewrite <- (inames_length ins). fold names. apply native_parse_includes; try assumption.
    unfold names. rewrite inames_length. exact Hn.
Qed.

(* the same in the vocabulary of the property: same names, same anchored paths, same order (and the same directive
   texts when no name contains a backslash); placeholder entries first, in table order, in both results; behind them the
   ordinary data, equal up to the classifier on string leaves *)
Theorem json_native_includes_tables : forall dir c1 c2 ins kvs,
  wf (Dict (json_inc_kvs ins ++ kvs)) = true -> forallb inc_ok ins = true -> NoDup (inames ins) ->
  writable_tree (Dict kvs) = true -> ordinary_kvs kvs = true -> no_include_keys kvs = true ->
  (-1 <= c1)%Z -> (-1 <= c2)%Z -> (Z.of_nat (length ins) <= 1000000)%Z ->
  (Z.of_nat (nq (Dict kvs)) <= 1000000)%Z -> quoted_within 11 (Dict kvs) = true ->
  let pj := json_parse dir c1 (json_inc_kvs ins ++ kvs) in
  exists pn, parse_string true dir c2 (inc_text (inames ins) ++ to_string_plain kvs) = Ok pn /\
    inc_names (sd_inc (pr_sd pj)) = map (fun n => (n, path_join dir n)) (inames ins) /\
    inc_names (sd_inc (pr_sd pn)) = inc_names (sd_inc (pr_sd pj)) /\
    (forallb (fun n => negb (has_char c_bsl n)) (inames ins) = true ->
     map snd (sd_inc (pr_sd pn)) = map snd (sd_inc (pr_sd pj))) /\
    sd_data (pr_sd pj) = inc_phs (map fst (sd_inc (pr_sd pj))) ++ kvs /\
    sd_data (pr_sd pn) = inc_phs (map fst (sd_inc (pr_sd pn))) ++
                         kvs_of (map_leaves written_value (Dict (skipn (length ins) (sd_data (pr_sd pj))))) /\
    sd_expr (pr_sd pj) = [] /\ sd_expr (pr_sd pn) = [].
Proof.
  intros dir c1 c2 ins kvs Hwf Hok Hnames Hwr Ho Hni Hc1 Hc2 Hn Hnq Hdeep pj.
  destruct (json_native_includes dir c1 c2 ins kvs Hwf Hok Hnames Hwr Ho Hni Hc1 Hc2 Hn Hnq Hdeep) as [Ej En].
  cbv zeta in Ej, En. unfold pj. rewrite Ej. eexists. split; [exact En|].
  cbn [pr_sd sd_inc sd_data sd_expr].
  set (names := inames ins) in *.
  assert (L1 : length (ids c1 (length ins)) = length (map (json_entry dir) names)).
  { unfold names. rewrite ids_length, map_length, inames_length. reflexivity. }
  assert (L2 : length (ids c2 (length ins)) = length (map (nat_entry dir) names)).
  { unfold names. rewrite ids_length, map_length, inames_length. reflexivity. }
  rewrite (inc_names_combine _ _ L1), (inc_names_combine _ _ L2), !map_map. cbn [json_entry nat_entry fst snd].
  rewrite !(combine_fst _ _ L1), !(combine_fst _ _ L2).
  split; [reflexivity|]. split; [reflexivity|]. split.
  - intros Hb. rewrite (combine_snd' _ _ L1), (combine_snd' _ _ L2).
    apply map_ext_in. intros x Hx. symmetry. apply json_entry_nat.
    rewrite forallb_forall in Hb. pose proof (Hb x Hx) as H. apply negb_true_iff in H. exact H.
  - split; [reflexivity|]. split; [|split; reflexivity]. f_equal. f_equal. f_equal.
    assert (Hl : length (inc_phs (ids c1 (length ins))) = length ins) by (unfold inc_phs; rewrite map_length, ids_length; reflexivity).
    rewrite skipn_app, Hl, Nat.sub_diag. rewrite skipn_all2 by (rewrite Hl; apply Nat.le_refl). reflexivity.
Qed.
Print Assumptions json_native_includes.
Print Assumptions json_native_includes_tables.

(* the side condition "names pairwise different" as a boolean *)
Fixpoint strs_nodup (l : list str) : bool :=
  match l with [] => true | x :: l' => negb (existsb (str_eqb x) l') && strs_nodup l' end.
Lemma strs_nodup_NoDup l : strs_nodup l = true -> NoDup l.
Proof.
  induction l as [|x l IH]; intros H; [constructor|]. cbn [strs_nodup] in H. apply andb_true_iff in H. destruct H as [H1 H2].
  constructor; [|exact (IH H2)]. intros Hin. apply negb_true_iff in H1.
  assert (E : existsb (str_eqb x) l = true) by (apply existsb_exists; exists x; split; [exact Hin|apply ScalarProofs.str_eqb_refl]).
  rewrite E in H1. discriminate H1.
Qed.

(* the statements with computable side conditions only *)
Theorem json_native_includes_b : forall dir c1 c2 ins kvs,
  wf (Dict (json_inc_kvs ins ++ kvs)) = true -> forallb inc_ok ins = true -> strs_nodup (inames ins) = true ->
  writable_tree (Dict kvs) = true -> ordinary_kvs kvs = true -> no_include_keys kvs = true ->
  (-1 <= c1)%Z -> (-1 <= c2)%Z -> (Z.of_nat (length ins) <= 1000000)%Z ->
  (Z.of_nat (nq (Dict kvs)) <= 1000000)%Z -> quoted_within 11 (Dict kvs) = true ->
  let n := length ins in let names := inames ins in
  json_parse dir c1 (json_inc_kvs ins ++ kvs) =
    mkParsed (mkSD (inc_phs (ids c1 n) ++ kvs) [] [] (combine (ids c1 n) (map (json_entry dir) names)) []) (cafter c1 n) /\
  parse_string true dir c2 (inc_text names ++ to_string_plain kvs) =
    Ok (mkParsed (mkSD (inc_phs (ids c2 n) ++ kvs_of (map_leaves written_value (Dict kvs))) [] []
                       (combine (ids c2 n) (map (nat_entry dir) names)) [])
                 (cafter (cafter c2 n) (nq (Dict kvs)))).
Proof. intros dir c1 c2 ins kvs Hwf Hok Hnd. apply json_native_includes; try assumption. apply strs_nodup_NoDup. exact Hnd. Qed.

Theorem json_native_includes_tables_b : forall dir c1 c2 ins kvs,
  wf (Dict (json_inc_kvs ins ++ kvs)) = true -> forallb inc_ok ins = true -> strs_nodup (inames ins) = true ->
  writable_tree (Dict kvs) = true -> ordinary_kvs kvs = true -> no_include_keys kvs = true ->
  (-1 <= c1)%Z -> (-1 <= c2)%Z -> (Z.of_nat (length ins) <= 1000000)%Z ->
  (Z.of_nat (nq (Dict kvs)) <= 1000000)%Z -> quoted_within 11 (Dict kvs) = true ->
  let pj := json_parse dir c1 (json_inc_kvs ins ++ kvs) in
  exists pn, parse_string true dir c2 (inc_text (inames ins) ++ to_string_plain kvs) = Ok pn /\
    inc_names (sd_inc (pr_sd pj)) = map (fun n => (n, path_join dir n)) (inames ins) /\
    inc_names (sd_inc (pr_sd pn)) = inc_names (sd_inc (pr_sd pj)) /\
    (forallb (fun n => negb (has_char c_bsl n)) (inames ins) = true ->
     map snd (sd_inc (pr_sd pn)) = map snd (sd_inc (pr_sd pj))) /\
    sd_data (pr_sd pj) = inc_phs (map fst (sd_inc (pr_sd pj))) ++ kvs /\
    sd_data (pr_sd pn) = inc_phs (map fst (sd_inc (pr_sd pn))) ++
                         kvs_of (map_leaves written_value (Dict (skipn (length ins) (sd_data (pr_sd pj))))) /\
    sd_expr (pr_sd pj) = [] /\ sd_expr (pr_sd pn) = [].
Proof. intros dir c1 c2 ins kvs Hwf Hok Hnd. apply json_native_includes_tables; try assumption. apply strs_nodup_NoDup. exact Hnd. Qed.
