(* C03 at the level of DictReader.read: read (root + one included file), write, read again.
   The existing include theorems (RereadInc*.v) are about NativeParser.parse_string on ONE text: the included files are
   never merged.  Here the reader is  read_plain fs root true true c  (parse the root, merge the included files, final
   self-merge), the writer is  to_string_sd , and the second read finds the included file still in place: its keys are
   merged a second time into a state that holds them already.

   1. clean-up: merging a plain dict keeps the clean-up invariant (clean_data)
   2. the model's merge order on (root state, plain included state), exactly (merged_two)
   3. the class rereadable_inc is closed under the merge of a plain dict of the writer domain
   4. a state that holds a plain dict already absorbs it
   5. the first read, the second read, the fixed point *)
From Coq Require Import String.
From Coq Require Import NArith ZArith List Bool Lia Permutation.
From DictIO Require Import Chars Str Value Scalar KeyPath SDict Layout Lexer TokParser Reader Paths TreeSpec NativeSpec LayoutSpec E2ESpec MiscSpec.
From DictIO Require ScalarProofs TokProofs KeyPathProofs.
From DictIO Require Import SDictProofs WriteProofs.
From DictIO Require Import E2EProofs E2EHoles E2EInsert E2EKeyTok E2EFullProofs.
From DictIO Require Import RereadPlain RereadStr RereadTree RereadWrite RereadLex RereadNum RereadProofs RereadFix RereadOff.
From DictIO Require Import AppendSeq RereadCtabs AppendCommented.
From DictIO Require Import RereadIncStage RereadIncLex RereadIncParse RereadIncRead RereadIncWrite RereadIncProofs RereadIncFix.
From DictIO Require Import IncludeProofs CleanInvariant AuditFix.
Import ListNotations.
Open Scope N_scope.

(* ================================================================================================ *)
(* 0. putting a unit into the file system                                                           *)
(* ================================================================================================ *)
Fixpoint fs_put (p : str) (u : funit) (fs : fsys) : fsys :=
  match fs with
  | [] => [(p, u)]
  | (q, u0) :: fs' => if str_eqb p q then (q, u) :: fs' else (q, u0) :: fs_put p u fs'
  end.

Lemma fs_lookup_put_same p u fs : fs_lookup p (fs_put p u fs) = Some u.
Proof.
  induction fs as [|[q u0] fs IH]; cbn [fs_put fs_lookup].
  - rewrite ScalarProofs.str_eqb_refl. reflexivity.
  - destruct (str_eqb p q) eqn:E; cbn [fs_lookup]; rewrite E; [reflexivity|exact IH].
Qed.

Lemma fs_lookup_put_other p q u fs : str_eqb q p = false -> fs_lookup q (fs_put p u fs) = fs_lookup q fs.
Proof.
  intros Hne. induction fs as [|[r u0] fs IH]; cbn [fs_put fs_lookup].
  - rewrite Hne. reflexivity.
  - destruct (str_eqb p r) eqn:E; cbn [fs_lookup].
    + apply SDictProofs.str_eqb_eq in E. subst r. rewrite Hne. reflexivity.
    + destruct (str_eqb q r); [reflexivity|exact IH].
Qed.

(* ================================================================================================ *)
(* 1. the clean-up invariant and the merge of a plain dict                                          *)
(* ================================================================================================ *)
Lemma level_ok_aset lc bc inc k v X : simple_key k = true -> level_ok lc bc inc (aset k v X) = level_ok lc bc inc X.
Proof. intros Hk. unfold level_ok. rewrite !(keys_of_kind_aset _ k v X Hk). reflexivity. Qed.

Lemma clean_data_plain lc bc inc : forall t, ktree (fun _ => true) t = true -> clean_data lc bc inc t = true.
Proof.
  induction t as [v|kvs IH|ts IH] using tree_ind'; intros Hk; try reflexivity.
  apply clean_data_dict. split.
  - assert (Hkeys : forall kd, keys_of_kind kd kvs = []).
    { intros kd. unfold keys_of_kind. apply filter_none. intros k Hin. apply in_map_iff in Hin. destruct Hin as (kc & <- & Hin).
      rewrite (simple_kind _ (ktree_dict_keys _ kvs Hk kc Hin)). reflexivity. }
    unfold level_ok. rewrite !Hkeys. reflexivity.
  - apply Forall_forall. intros [k c] Hin sub E. cbn [snd] in E. subst c. rewrite Forall_forall in IH. apply (IH (k, Dict sub) Hin).
    clear -Hk Hin. induction kvs as [|[k' c'] kvs IHk]; [destruct Hin|]. destruct (plain_cons _ _ _ _ Hk) as (_ & H2 & H3).
    destruct Hin as [Heq|Hin]; [inversion Heq; subst; exact H2|exact (IHk H3 Hin)].
Qed.

Lemma clean_data_merge_tree lc bc inc : forall ov tv, ktree (fun _ => true) ov = true -> clean_data lc bc inc tv = true ->
  clean_data lc bc inc (merge_spec_tree tv ov) = true.
Proof.
  induction ov as [v0|osub IH|ts _] using tree_ind'; intros tv Ho Ht.
  - rewrite merge_spec_tree_nondict_r; [exact Ht|intros a; discriminate].
  - destruct tv as [v1|tsub|ts1]; try (rewrite merge_spec_tree_nondict_l; [exact Ht|intros a; discriminate]).
    rewrite merge_spec_tree_dict.
    revert tsub Ho Ht. induction IH as [|[k c] o Hc _ IHo]; intros tsub Ho Ht; [exact Ht|].
    destruct (plain_cons _ _ _ _ Ho) as (Hk & Hcp & Hop). cbn [fold_left]. apply (IHo _ Hop).
    unfold mstep. cbn [fst snd]. cbn [snd] in Hc. pose proof Ht as Ht'. apply clean_data_dict in Ht'. destruct Ht' as [T1 T2].
    apply clean_data_dict. split; [rewrite (level_ok_aset lc bc inc k _ tsub Hk); exact T1|].
    apply Forall_forall. intros [k' c'] Hin sub E. cbn [snd] in E. subst c'. apply In_aset in Hin.
    destruct Hin as [Heq|Hin]; [|exact (clean_data_child _ _ _ _ _ _ Ht Hin)].
    inversion Heq as [[E1 E2]]. rewrite E2.
    destruct (alookup k tsub) as [tv'|] eqn:E; cbn [mval]; [|exact (clean_data_plain lc bc inc c Hcp)].
    apply (Hc tv' Hcp). destruct tv' as [v1|d1|l1]; try reflexivity.
    exact (clean_data_child _ _ _ _ _ _ Ht (alookup_Some_In _ _ _ E)).
  - rewrite merge_spec_tree_nondict_r; [exact Ht|intros a; discriminate].
Qed.

Lemma clean_data_merge lc bc inc X m : ktree (fun _ => true) (Dict m) = true -> clean_data lc bc inc (Dict X) = true ->
  clean_data lc bc inc (Dict (merge_spec X m)) = true.
Proof.
  intros Hm Hx. pose proof (clean_data_merge_tree lc bc inc (Dict m) (Dict X) Hm Hx) as H. rewrite merge_spec_tree_dict in H.
  rewrite merge_spec_fold. exact H.
Qed.

(* ================================================================================================ *)
(* 2. the model's merge order on a root state and a plain included state                            *)
(* ================================================================================================ *)
Definition st_plain_of (m : list (key * tree)) : sdict := mkSD m [] [] [] [].

(* the state the reader returns for a root state A and ONE included plain dict m *)
Definition merged_state_inc (A : sdict) (m : list (key * tree)) : sdict :=
  mkSD (merge_spec (sd_data A) m) (sd_lc A) (sd_bc A) (sd_inc A) [].

Lemma depth_children (m : list (key * tree)) : Forall (fun kv => (depth (snd kv) <= depth (Dict m))%nat) m.
Proof. apply Forall_forall. intros kv Hin. pose proof (depth_child _ _ Hin) as H. cbn [depth]. apply le_S. exact H. Qed.

(* step a: the plain dict merged into the empty SDict *)
Lemma merge_into_empty m : wf (Dict m) = true -> ktree (fun _ => true) (Dict m) = true ->
  sd_merge sd_empty m (Some (st_plain_of m)) = st_plain_of m.
Proof.
  intros Hw Hk. assert (Hnd : NoDup (map fst m)) by (apply wf_Dict_iff in Hw; tauto).
  unfold sd_merge, sd_empty, st_plain_of. cbn [sd_data sd_lc sd_bc sd_inc sd_expr].
  rewrite merge_kvs_top_nocirc; [|exact Hnd|intros k tv _ E; discriminate E|exact (depth_children m)].
  rewrite fold_mstep_fresh; [|exact Hnd|intros k _; reflexivity]. cbn [app tmerge fold_left].
  exact (sd_clean_keep m [] [] [] (ctabs_plain [] [] (Dict m) Hk) Hw).
Qed.

(* steps b and c *)
Lemma merged_two_exact A m : clean_state A = true -> sd_expr A = [] ->
  wf (Dict m) = true -> ktree (fun _ => true) (Dict m) = true -> merge_safe (sd_data A) m = true ->
  merged_two A (st_plain_of m) = merged_state_inc A m.
Proof.
  intros Hcs He Hw Hk Hsafe. assert (Hnd : NoDup (map fst m)) by (apply wf_Dict_iff in Hw; tauto).
  unfold clean_state in Hcs. apply andb_true_iff in Hcs. destruct Hcs as [HwA HcA].
  unfold merged_two. cbv zeta. change (sd_data (st_plain_of m)) with m. rewrite (merge_into_empty m Hw Hk). change (sd_data (st_plain_of m)) with m.
  destruct A as [D lc bc inc ex]. cbn [sd_data sd_lc sd_bc sd_inc sd_expr] in *. subst ex.
  assert (HwM : wf (Dict (merge_spec D m)) = true) by exact (merge_spec_wf D m HwA Hw).
  assert (HcM : clean_state (mkSD (merge_spec D m) lc bc inc []) = true).
  { unfold clean_state. cbn [sd_data sd_lc sd_bc sd_inc]. rewrite HwM. exact (clean_data_merge lc bc inc D m Hk HcA). }
  assert (EP : sd_merge (mkSD D lc bc inc []) m (Some (st_plain_of m)) = mkSD (merge_spec D m) lc bc inc []).
  { unfold sd_merge, st_plain_of. cbn [sd_data sd_lc sd_bc sd_inc sd_expr].
    rewrite merge_kvs_top_nocirc; [|exact Hnd| |exact (depth_children m)].
    - rewrite <- merge_spec_fold. cbn [tmerge fold_left]. exact (clean_state_fix _ HcM).
    - intros k tv Hin E. rewrite WriteProofs.insert_expression_nil. unfold merge_safe in Hsafe. rewrite forallb_forall in Hsafe.
      apply in_map_iff in Hin. destruct Hin as ([k1 c1] & E1 & Hin). cbn [fst] in E1. subst k1.
      specialize (Hsafe _ Hin). cbn [fst] in Hsafe. rewrite E in Hsafe. apply negb_true_iff. exact Hsafe. }
  rewrite EP. unfold merged_state_inc. cbn [sd_data sd_lc sd_bc sd_inc].
  unfold sd_merge. cbn [sd_data sd_lc sd_bc sd_inc sd_expr]. rewrite (merge_kvs_self _ _ _ HwM), !tmerge_self.
  exact (clean_state_fix _ HcM).
Qed.

(* ---- the read of a root with ONE include entry whose unit has none: the whole state ------------------ *)
Lemma read_single_include_state : forall fs root com c u0 pr0 i d n path u pr,
  fs_lookup (norm_path root) fs = Some u0 -> parse_unit com root c u0 = Ok pr0 ->
  sd_inc (pr_sd pr0) = [(i, (d, n, path))] ->
  fs_lookup (norm_path path) fs = Some u -> parse_unit com path (pr_count pr0) u = Ok pr ->
  sd_inc (pr_sd pr) = [] ->
  exists M, M = merged_two (pr_sd pr0) (pr_sd pr) /\
  read_plain fs root true com c = Ok (mkSD (sd_data M) (sd_lc M) (sd_bc M) (sd_inc M) [], pr_count pr).
Proof.
  intros fs root com c u0 pr0 i d n path u pr Hl0 Hp0 Hinc Hl Hp Hni.
  unfold read_plain. rewrite Hl0, Hp0. cbn [bind]. unfold merge_includes. rewrite merge_includes_rec_S, Hinc.
  cbn [fold_left].
  assert (Hc : in_chain (norm_path path) [] = false) by reflexivity.
  rewrite (inc_step_valid _ fs com [] sd_empty (pr_count pr0) i d n path u Hc Hl).
  rewrite Hp. cbn [bind]. unfold sub_result. rewrite Hni. cbn [bind fst snd].
  set (T := sd_merge sd_empty (sd_data (pr_sd pr)) (Some (pr_sd pr))).
  set (P := sd_merge (pr_sd pr0) (sd_data T) (Some T)).
  exists (sd_merge P (sd_data P) (Some P)). split; [|reflexivity].
  unfold merged_two. cbv zeta. fold T. fold P. reflexivity.
Qed.

(* ================================================================================================ *)
(* 3. the class rereadable_inc is closed under the merge of a plain dict of the writer domain       *)
(* ================================================================================================ *)
Lemma inc_entry_simple k (v : tree) : simple_key k = true -> is_inc_entry (k, v) = false.
Proof. intros Hk. unfold is_inc_entry. cbn [fst]. exact (proj2 (simple_key_unsorted k Hk)). Qed.

Lemma inc_ids_filter (l : list (key * tree)) : flat_map inc_id_of l = flat_map inc_id_of (filter is_inc_entry l).
Proof.
  induction l as [|kc l IH]; [reflexivity|]. cbn [flat_map filter]. destruct (is_inc_entry kc) eqn:E.
  - cbn [flat_map]. rewrite IH. reflexivity.
  - rewrite IH. unfold inc_id_of. rewrite E. reflexivity.
Qed.

Lemma merge_safe_strip D m : ktree (fun _ => true) (Dict m) = true -> merge_safe D m = true ->
  merge_safe (filter (fun kc => negb (is_inc_entry kc)) D) m = true.
Proof.
  intros Hm H. unfold merge_safe in *. apply forallb_forall. intros [k c] Hin. rewrite forallb_forall in H. specialize (H _ Hin). cbn [fst] in *.
  rewrite (alookup_filter_np is_inc_entry inc_entry_simple k D (ktree_dict_keys _ m Hm (k, c) Hin)). exact H.
Qed.

Theorem rereadable_inc_merge A m : rereadable_inc A = true -> wdom m = true -> merge_safe (sd_data A) m = true ->
  let s1 := merged_state_inc A m in
  rereadable_inc s1 = true /\ written_doc_inc s1 = merge_spec (written_doc_inc A) m /\
  inc_ids s1 = inc_ids A /\ inc_names s1 = inc_names A /\
  cstrip (Dict (sd_data (strip_inc s1))) = Dict (merge_spec (kvs_of (cstrip (Dict (sd_data (strip_inc A))))) m).
Proof.
  intros Hr Hm Hsafe s1. pose proof (rereadable_inc_facts A Hr) as HI.
  destruct (wdom_inv m Hm) as (M1 & M2 & M3). pose proof (ktree_skeys _ _ M2) as M2'.
  assert (Estrip : strip_inc s1 = mkSD (merge_spec (sd_data (strip_inc A)) m) (sd_lc (strip_inc A)) (sd_bc (strip_inc A)) [] []).
  { unfold strip_inc, s1, merged_state_inc. cbn [sd_data sd_lc sd_bc]. rewrite !merge_spec_fold.
    rewrite (filter_np_merge is_inc_entry inc_entry_simple m (sd_data A) M2'). reflexivity. }
  destruct (rereadable_merge_closed (strip_inc A) m (if_strip A HI) Hm (merge_safe_strip _ m M2' Hsafe)) as (_ & R2 & _ & R4 & _ & R6).
  cbv zeta in R2, R4, R6. rewrite <- Estrip in R2, R4, R6.
  assert (Eids : inc_ids s1 = inc_ids A).
  { unfold inc_ids, s1, merged_state_inc. cbn [sd_data]. rewrite inc_ids_filter, (inc_ids_filter (sd_data A)), merge_spec_fold.
    rewrite (filter_p_merge is_inc_entry inc_entry_simple m (sd_data A) M2'). reflexivity. }
  assert (Enames : inc_names s1 = inc_names A) by (unfold inc_names; rewrite Eids; reflexivity).
  split; [|split; [exact R4|split; [exact Eids|split; [exact Enames|exact R6]]]].
  unfold rereadable_inc in Hr |- *. rewrite R2, Enames.
  repeat match type of Hr with _ && _ = true => apply andb_true_iff in Hr; destruct Hr as [Hr ?] end.
  change (sd_inc s1) with (sd_inc A). change (sd_bc s1) with (sd_bc A). change (sd_expr s1) with (@nil (N * expr_entry)).
  assert (Hw : wf (Dict (sd_data s1)) = true) by exact (merge_spec_wf (sd_data A) m (if_wf A HI) M1).
  rewrite Hw.
  assert (Hen : forallb (fun kc => negb (is_inc_entry kc) || inc_entry_ok (sd_inc A) kc) (sd_data s1) = true).
  { apply forallb_forall. intros kc Hin. destruct (is_inc_entry kc) eqn:E; [|reflexivity]. cbn [negb orb].
    apply (if_entries A HI kc); [|exact E].
    assert (Hf : In kc (filter is_inc_entry (sd_data s1))) by (apply filter_In; split; assumption).
    unfold s1, merged_state_inc in Hf. cbn [sd_data] in Hf. rewrite merge_spec_fold, (filter_p_merge is_inc_entry inc_entry_simple m (sd_data A) M2') in Hf.
    apply filter_In in Hf. exact (proj1 Hf). }
  rewrite Hen.
  repeat match goal with H : ?x = true |- context [?x] => rewrite H end. reflexivity.
Qed.

(* ================================================================================================ *)
(* 4. a state that holds a plain dict already absorbs it                                            *)
(* ================================================================================================ *)
Lemma absorb_steps X : forall m, (forall k c, In (k, c) m -> exists tv, alookup k X = Some tv /\ merge_spec_tree tv c = tv) ->
  fold_left mstep m X = X.
Proof.
  induction m as [|[k c] m IH]; intros H; [reflexivity|]. cbn [fold_left].
  assert (Es : mstep X (k, c) = X).
  { destruct (H k c (or_introl eq_refl)) as (tv & E1 & E2). unfold mstep. cbn [fst snd]. rewrite E1. cbn [mval]. rewrite E2. exact (aset_same k tv X E1). }
  rewrite Es. apply IH. intros k' c' Hin. apply (H k' c'). right. exact Hin.
Qed.

Lemma absorbed_lookup d m : NoDup (map fst m) -> fold_left mstep m d = d ->
  forall k c, In (k, c) m -> exists tv, alookup k d = Some tv /\ merge_spec_tree tv c = tv.
Proof.
  intros Hnd H k c Hin. pose proof (fold_mstep_lookup_in m d k c Hnd Hin) as E. rewrite H in E.
  destruct (alookup k d) as [tv|]; [|discriminate E]. cbn [mval] in E. exists tv. split; [reflexivity|]. injection E as E. symmetry. exact E.
Qed.

Lemma alookup_splice (k : key) (a i b : list (key * tree)) : ~ In k (map fst i) -> alookup k (a ++ i ++ b) = alookup k (a ++ b).
Proof.
  intros Hn. induction a as [|[k0 v0] a IH]; cbn [app alookup].
  - exact (alookup_app_notin k i b Hn).
  - destruct (key_eqb k k0); [reflexivity|exact IH].
Qed.

(* the numbered document of a merged document (AppendCommented.number_merge without the leaf pass in front) *)
Lemma number_merge0 W m count : ktree writable_leaf (Dict m) = true ->
  number count (merge_spec W m) =
  mkSD (merge_spec (sd_data (number count W)) (reread_plain m)) (sd_lc (number count W)) (sd_bc (number count W)) [] [].
Proof.
  intros M2. pose proof (ktree_skeys _ _ M2) as M2'.
  assert (El : lc_tab count (merge_spec W m) = lc_tab count W) by (unfold lc_tab; rewrite (lc_list_merge _ m M2); reflexivity).
  assert (Eb : bc_tab (merge_spec W m) = bc_tab W) by (unfold bc_tab; rewrite (bc_list_merge _ m M2); reflexivity).
  unfold number. rewrite El, Eb. cbn [sd_data sd_lc sd_bc]. f_equal.
  unfold numT. rewrite (cmapg_merge _ _ written_value (gx_cm (lc_tab count W) (bc_tab W)) W m M2'). reflexivity.
Qed.

(* ordinary keys through the comment maps *)
Section CmapgLookup.
  Variable gn gx : str -> str -> str.
  Variable f : scalar -> scalar.
  Hypothesis Hgn : forall n x, is_cm n = true -> is_cm (gn n x) = true.
  Notation G := (gkv gn gx).

  Lemma alookup_cmapg k X : simple_key k = true ->
    alookup k (kvs_of (cmapg G f (Dict X))) = option_map (Phi' f (cmapg G f)) (alookup k X).
  Proof.
    intros Hk. rewrite cmapg_dict. cbn [kvs_of]. rewrite <- (flat_map_single (cmap_entry G f) X).
    apply (alookup_flat_phi f (cmapg G f) (fun kc => [cmap_entry G f kc])); [| |exact Hk].
    - intros k0 c Hk0. unfold cmap_entry. rewrite (cm_entry_simple k0 c Hk0). cbn [fst snd]. destruct c; reflexivity.
    - intros k0 c k' Hk0 Hin. cbn [map fst] in Hin. destruct Hin as [<-|[]]. unfold cmap_entry.
      destruct (cm_entry (k0, c)) as [[n x]|] eqn:Ec.
      + destruct (cm_entry_inv _ _ _ Ec) as [_ Hn]. unfold gkv. cbn [fst]. exact (is_cm_not_simple _ (Hgn n x Hn)).
      + exact Hk0.
  Qed.

  Lemma circular_Phi' k tv : circular k (Phi' f (cmapg G f) tv) = match tv with Leaf v => circular k (Leaf (f v)) | _ => false end.
  Proof.
    destruct tv as [v|d|l]; cbn [Phi'].
    - reflexivity.
    - rewrite cmapg_dict. destruct k; reflexivity.
    - rewrite TokProofs.map_leaves_lst. destruct k; reflexivity.
  Qed.
End CmapgLookup.

Lemma merge_safe_number W m count : ktree (fun _ => true) (Dict m) = true -> merge_safe (cwv W) m = true ->
  merge_safe (sd_data (number count W)) m = true.
Proof.
  intros Hm H. unfold merge_safe in *. apply forallb_forall. intros [k c] Hin. rewrite forallb_forall in H. specialize (H _ Hin). cbn [fst] in *.
  pose proof (ktree_dict_keys _ m Hm (k, c) Hin) as Hk. cbn [fst] in Hk.
  unfold cwv in H. rewrite (alookup_cmapg keepn keepx written_value keep_cm k W Hk) in H.
  unfold number, numT. cbn [sd_data]. rewrite (alookup_cmapg _ _ written_value (gx_cm (lc_tab count W) (bc_tab W)) k W Hk).
  destruct (alookup k W) as [tv|]; [|reflexivity]. cbn [option_map] in *. rewrite circular_Phi' in *. exact H.
Qed.

Lemma ikey_not_simple j : j < 1000000 -> simple_key (ikey j) = false.
Proof.
  intros Hj. destruct (simple_key (ikey j)) eqn:E; [|reflexivity]. pose proof (proj2 (simple_key_unsorted _ E)) as H.
  rewrite (ikey_is_include j Hj) in H. discriminate H.
Qed.

Lemma simple_not_inc_ph k ks : simple_key k = true -> small ks -> ~ In k (map fst (map inc_ph_entry ks)).
Proof.
  intros Hk Hs Hin. rewrite map_map in Hin. apply in_map_iff in Hin. destruct Hin as (j & Ej & Hj). cbn [inc_ph_entry fst] in Ej. subst k.
  unfold small in Hs. rewrite Forall_forall in Hs. rewrite (ikey_not_simple j (Hs j Hj)) in Hk. discriminate Hk.
Qed.

(* the data of the re-read state absorb a plain dict that the written document holds already *)
Lemma number_inc_absorbs dir count W names m : wdom m = true -> reread_plain m = m -> merge_spec W m = W ->
  merge_spec (sd_data (number_inc dir count W names)) m = sd_data (number_inc dir count W names).
Proof.
  intros Hm Hfix Habs. destruct (wdom_inv m Hm) as (M1 & M2 & _). pose proof (ktree_skeys _ _ M2) as M2'.
  assert (Hnd : NoDup (map fst m)) by (apply wf_Dict_iff in M1; tauto).
  set (d := sd_data (number count W)).
  assert (Ed : fold_left mstep m d = d).
  { pose proof (number_merge0 W m count M2) as H. rewrite Habs, Hfix in H. apply (f_equal sd_data) in H. cbn [sd_data] in H.
    fold d in H. rewrite merge_spec_fold in H. symmetry. exact H. }
  unfold number_inc. cbn [sd_data]. fold d. rewrite merge_spec_fold. apply absorb_steps. intros k c Hin.
  destruct (absorbed_lookup d m Hnd Ed k c Hin) as (tv & E1 & E2). exists tv. split; [|exact E2].
  pose proof (ktree_dict_keys _ m M2' (k, c) Hin) as Hk. cbn [fst] in Hk.
  rewrite (alookup_splice k _ _ _ (simple_not_inc_ph k _ Hk (ids_small _ _))), firstn_skipn. exact E1.
Qed.

Lemma merge_safe_number_inc dir count W names m : ktree (fun _ => true) (Dict m) = true -> merge_safe (cwv W) m = true ->
  merge_safe (sd_data (number_inc dir count W names)) m = true.
Proof.
  intros Hm H. pose proof (merge_safe_number W m count Hm H) as H1. unfold merge_safe in *. apply forallb_forall. intros [k c] Hin.
  rewrite forallb_forall in H1. specialize (H1 _ Hin). cbn [fst] in *.
  pose proof (ktree_dict_keys _ m Hm (k, c) Hin) as Hk. cbn [fst] in Hk.
  unfold number_inc. cbn [sd_data]. rewrite (alookup_splice k _ _ _ (simple_not_inc_ph k _ Hk (ids_small _ _))), firstn_skipn. exact H1.
Qed.

(* ================================================================================================ *)
(* 5. the second read                                                                               *)
(* ================================================================================================ *)
Lemma one_le_million0 : (Z.of_nat 1 <= 1000000)%Z.
Proof. lia. Qed.

Lemma wdom_parts d : wdom d = true -> wf (Dict d) = true /\ writable_tree (Dict d) = true /\ quoted_within 11 (Dict d) = true.
Proof.
  unfold wdom. intros H. apply andb_true_iff in H. destruct H as [H H3]. apply andb_true_iff in H. destruct H as [H1 H2]. repeat split; assumption.
Qed.

(* The state s1 (class rereadable_inc, ONE include entry, name n) is written to the root; the file the name points to is
   the writer's text of a plain dict db of the writer domain; the canonical document of s1 holds the dict m = db as it is
   read back already (merging m changes nothing), and no entry of it that m addresses is self-named after the leaf pass.
   Then DictReader.read of the root returns the parse of the root alone: the merge of the included file and the final
   self-merge change nothing. *)
Theorem second_read fs' root c' s1 n db :
  rereadable_inc s1 = true -> (Z.of_nat (length (sd_lc s1)) < 1000000)%Z -> (-1 <= c')%Z ->
  (Z.of_nat (length (lc_list (written_doc_inc s1))) <= 1000000)%Z -> (Z.of_nat (length (bc_list (written_doc_inc s1))) <= 1000000)%Z ->
  (Z.of_nat (length (lit_list (written_doc_inc s1))) <= 1000000)%Z ->
  inc_names s1 = [n] ->
  wdom db = true -> (Z.of_nat (nq (Dict db)) <= 1000000)%Z ->
  let m := reread_plain db in
  merge_spec (written_doc_inc s1) m = written_doc_inc s1 ->
  merge_safe (cwv (written_doc_inc s1)) m = true ->
  fs_lookup (norm_path root) fs' = Some (FNative (to_string_sd s1)) ->
  fs_lookup (norm_path (path_join (dir_of root) n)) fs' = Some (FNative (to_string_plain db)) ->
  exists c2, read_plain fs' root true true c' = Ok (number_inc (dir_of root) c' (written_doc_inc s1) [n], c2).
Proof.
  intros Hr Hl Hc H1 H2 H3 Hn Hdb Hnq m Habs Hsafe Hf0 Hfb.
  assert (H4 : (Z.of_nat (length (inc_names s1)) <= 1000000)%Z) by (rewrite Hn; exact one_le_million0).
  pose proof (reread_inc s1 (dir_of root) c' Hr Hl Hc H1 H2 H3 H4) as Hp. rewrite Hn in Hp.
  set (W := written_doc_inc s1) in *. set (A2 := number_inc (dir_of root) c' W [n]) in *. set (cnt := count_after_inc c' W [n]) in *.
  assert (Hcnt : (-1 <= cnt)%Z) by (unfold cnt, count_after_inc; apply cafter_ge; apply cafter_ge; apply cafter_ge; exact Hc).
  assert (Hinc : exists k0, sd_inc A2 = [(k0, (inc_directive n, n, path_join (dir_of root) n))]).
  { eexists. unfold A2, number_inc, inc_tab. cbn [sd_inc length]. rewrite ids_S. reflexivity. }
  destruct Hinc as [k0 Hinc].
  destruct (wdom_parts db Hdb) as (Dw & Dwr & Dq).
  destruct (roundtrip_native_partial db (dir_of (path_join (dir_of root) n)) cnt Dw Dwr Hcnt Hnq Dq) as [count' Hpb].
  destruct (reread_dom db Hdb) as (Mdom & Mfix & _). fold m in Mdom, Mfix.
  destruct (wdom_inv m Mdom) as (M1 & M2 & _). pose proof (ktree_skeys _ _ M2) as M2'.
  destruct (read_single_include_state fs' root true c' (FNative (to_string_sd s1)) (mkParsed A2 cnt) k0 _ n (path_join (dir_of root) n)
              (FNative (to_string_plain db)) (mkParsed (st_plain_of m) count') Hf0 Hp Hinc Hfb Hpb eq_refl) as (M & EM & Hread).
  cbn [pr_sd pr_count] in EM, Hread.
  rewrite (merged_two_exact A2 m (proj1 (parse_string_good _ _ _ _ _ Hp)) eq_refl M1 M2' (merge_safe_number_inc _ _ W [n] m M2' Hsafe)) in EM.
  unfold merged_state_inc in EM. pose proof (number_inc_absorbs (dir_of root) c' W [n] m Mdom Mfix Habs) as Eabs. fold A2 in Eabs. rewrite Eabs in EM.
  exists count'. rewrite Hread, EM. reflexivity.
Qed.

(* ================================================================================================ *)
(* 6. read, write, read                                                                             *)
(* ================================================================================================ *)
(* arithmetic, kept away from the large proof contexts *)
Lemma bound_add a b c : (a <= b + c)%nat -> (Z.of_nat (b + c) <= 1000000)%Z -> (Z.of_nat a <= 1000000)%Z.
Proof. lia. Qed.
Lemma bound_add2 a b c d : (a <= b + c)%nat -> (c <= d)%nat -> (a <= b + d)%nat.
Proof. lia. Qed.
Lemma lt_le_bound a : (Z.of_nat a < 1000000)%Z -> (Z.of_nat a <= 1000000)%Z.
Proof. lia. Qed.
Lemma bound_right a b : (Z.of_nat (a + b) <= 1000000)%Z -> (Z.of_nat b <= 1000000)%Z.
Proof. lia. Qed.
Lemma one_le_million : (Z.of_nat 1 <= 1000000)%Z.
Proof. lia. Qed.

(* The file system fs holds a native root file whose parse A (at the counter c, in the folder of the root) is in the
   class rereadable_inc and has ONE include entry, for the name n; the file the name points to is the writer's text of a
   plain dict db of the writer domain (no comments, no includes of its own).
   s1 = the state the first read returns: A with the dict m = db as it is read back merged first-wins into its data
        (the include entry and the comment entries at their places, the tables of A);
   the root is overwritten with the text written for s1;
   s2 = the state the second read returns: the parse of the written root alone -- the second merge of the included file
        and the final self-merge change nothing.
   Side conditions: no entry of A (of the written and re-read s1) that m addresses at top level is self-named
   (merge_safe: SDict.merge REPLACES such an entry); the six-digit bounds; the counter after the parse of the root is at
   least -1 (it always is for c >= -1; there is no general lemma for it). *)
Theorem read_write_read fs root c c' text A cA i d n db :
  fs_lookup (norm_path root) fs = Some (FNative text) ->
  parse_string true (dir_of root) c text = Ok (mkParsed A cA) -> (-1 <= cA)%Z -> (-1 <= c')%Z ->
  rereadable_inc A = true ->
  sd_inc A = [(i, (d, n, path_join (dir_of root) n))] -> inc_ids A = [i] ->
  let pb := norm_path (path_join (dir_of root) n) in
  str_eqb pb (norm_path root) = false ->
  fs_lookup pb fs = Some (FNative (to_string_plain db)) ->
  wdom db = true ->
  let m := reread_plain db in
  merge_safe (sd_data A) m = true ->
  let s1 := merged_state_inc A m in
  merge_safe (cwv (written_doc_inc s1)) m = true ->
  (Z.of_nat (length (sd_lc A)) < 1000000)%Z ->
  (Z.of_nat (length (lc_list (written_doc_inc A))) < 1000000)%Z -> (Z.of_nat (length (bc_list (written_doc_inc A))) <= 1000000)%Z ->
  (Z.of_nat (length (lit_list (written_doc_inc A)) + nq (Dict db)) <= 1000000)%Z ->
  let fs' := fs_put (norm_path root) (FNative (to_string_sd s1)) fs in
  let s2 := number_inc (dir_of root) c' (written_doc_inc s1) [n] in
  exists c1 c2,
    read_plain fs root true true c = Ok (s1, c1) /\ rereadable_inc s1 = true /\
    read_plain fs' root true true c' = Ok (s2, c2) /\ rereadable_inc s2 = true /\
    cstrip (Dict (sd_data (strip_inc s1))) = Dict (merge_spec (kvs_of (cstrip (Dict (sd_data (strip_inc A))))) m) /\
    cstrip (Dict (sd_data (strip_inc s2))) = map_leaves written_value (cstrip (Dict (sd_data (strip_inc s1)))) /\
    written_doc_inc s2 = cwv (written_doc_inc s1) /\
    inc_names s1 = [n] /\ inc_names s2 = [n] /\
    map (fun e => snd (snd e)) (sd_inc s2) = [path_join (dir_of root) n] /\
    (cwv (written_doc_inc A) = written_doc_inc A ->
     cstrip (Dict (sd_data (strip_inc s2))) = cstrip (Dict (sd_data (strip_inc s1))) /\
     written_doc_inc s2 = written_doc_inc s1 /\ to_string_sd s2 = to_string_sd s1).
Proof.
  intros Hf0 Hp0 HcA Hc' Hr Hinc Hids pb Hne Hfb Hdb m Hsafe s1 Hsafe2 Bl B1 B2 B3 fs' s2.
  destruct (wdom_parts db Hdb) as (Dw & Dwr & Dq).
  destruct (reread_dom db Hdb) as (Mdom & Mfix & Mnq). fold m in Mdom, Mfix, Mnq.
  destruct (wdom_inv m Mdom) as (M1 & M2 & _). pose proof (ktree_skeys _ _ M2) as M2'.
  assert (Bnq : (Z.of_nat (nq (Dict db)) <= 1000000)%Z) by exact (bound_right _ _ B3).
  (* the first read *)
  destruct (roundtrip_native_partial db (dir_of (path_join (dir_of root) n)) cA Dw Dwr HcA Bnq Dq) as [c1 Hpb].
  destruct (read_single_include_state fs root true c (FNative text) (mkParsed A cA) i d n (path_join (dir_of root) n)
              (FNative (to_string_plain db)) (mkParsed (st_plain_of m) c1) Hf0 Hp0 Hinc Hfb Hpb eq_refl) as (M & EM & Hread).
  cbn [pr_sd pr_count] in EM, Hread.
  pose proof (rereadable_inc_facts A Hr) as HI.
  rewrite (merged_two_exact A m (proj1 (parse_string_good _ _ _ _ _ Hp0)) (if_expr A HI) M1 M2' Hsafe) in EM. fold s1 in EM.
  assert (Es1 : mkSD (sd_data M) (sd_lc M) (sd_bc M) (sd_inc M) [] = s1) by (rewrite EM; reflexivity). rewrite Es1 in Hread.
  (* the class *)
  destruct (rereadable_inc_merge A m Hr Mdom Hsafe) as (Hr1 & EW & _ & En & Ecs). fold s1 in Hr1, EW, En, Ecs.
  assert (EnA : inc_names A = [n]).
  { unfold inc_names. rewrite Hids, Hinc. unfold inc_name. cbn [map tlookup]. rewrite N.eqb_refl. reflexivity. }
  rewrite EnA in En.
  set (W0 := written_doc_inc A) in *. set (W1 := written_doc_inc s1) in *.
  assert (K1 : lc_list W1 = lc_list W0) by (rewrite EW; exact (lc_list_merge W0 m M2)).
  assert (K2 : bc_list W1 = bc_list W0) by (rewrite EW; exact (bc_list_merge W0 m M2)).
  assert (K3 : (length (lit_list W1) <= length (lit_list W0) + nq (Dict db))%nat).
  { rewrite EW. exact (bound_add2 _ _ _ _ (lit_list_merge W0 m M2) Mnq). }
  assert (C1 : (Z.of_nat (length (lc_list W1)) < 1000000)%Z) by (rewrite K1; exact B1).
  assert (C2 : (Z.of_nat (length (bc_list W1)) <= 1000000)%Z) by (rewrite K2; exact B2).
  assert (C3 : (Z.of_nat (length (lit_list W1)) <= 1000000)%Z) by exact (bound_add _ _ _ K3 B3).
  assert (C4 : (Z.of_nat (length (inc_names s1)) <= 1000000)%Z) by (rewrite En; exact one_le_million).
  assert (Habs : merge_spec W1 m = W1) by (rewrite EW; exact (merge_idempotent W0 m M1)).
  (* the second read *)
  assert (Hf0' : fs_lookup (norm_path root) fs' = Some (FNative (to_string_sd s1))) by (unfold fs'; apply fs_lookup_put_same).
  assert (Hfb' : fs_lookup pb fs' = Some (FNative (to_string_plain db))) by (unfold fs'; rewrite (fs_lookup_put_other _ _ _ _ Hne); exact Hfb).
  destruct (second_read fs' root c' s1 n db Hr1 Bl Hc' (lt_le_bound _ C1) C2 C3 En Hdb Bnq Habs Hsafe2 Hf0' Hfb') as [c2 Hread2].
  fold W1 in Hread2. fold s2 in Hread2.
  (* what the second state is *)
  destruct (reread_inc_fixed_point s1 (dir_of root) c' (dir_of root) c' Hr1 Bl Hc' Hc' C1 C2 C3 C4) as (_ & Hr2 & _ & Ew2 & _ & En2 & _).
  fold W1 in Hr2, Ew2, En2. rewrite En in Hr2, Ew2, En2. fold s2 in Hr2, Ew2, En2.
  destruct (includes_survive s1 (dir_of root) c' Hr1 Bl Hc' (lt_le_bound _ C1) C2 C3 C4) as (s' & cnt' & Hp' & _ & _ & Hdata & _ & _ & Hinc2 & _).
  fold W1 in Hinc2. rewrite En in Hinc2.
  pose proof (reread_inc s1 (dir_of root) c' Hr1 Bl Hc' (lt_le_bound _ C1) C2 C3 C4) as Hp2. fold W1 in Hp2. rewrite En in Hp2. fold s2 in Hp2.
  rewrite Hp' in Hp2. injection Hp2 as Es' _. subst s'.
  assert (Einc2 : map (fun e : N * include_entry => snd (snd e)) (sd_inc s2) = [path_join (dir_of root) n]).
  { rewrite Hinc2. cbn [length]. rewrite ids_S. reflexivity. }
  exists c1, c2. split; [exact Hread|]. split; [exact Hr1|]. split; [exact Hread2|]. split; [exact Hr2|]. split; [exact Ecs|].
  split; [exact Hdata|]. split; [exact Ew2|]. split; [exact En|]. split; [exact En2|]. split; [exact Einc2|].
  (* stable leaves: the second cycle writes the bytes of the first *)
  intros Hst.
  assert (Est : cwv W1 = W1) by (rewrite EW, (cwv_merge W0 m M2'), Hst, Mfix; reflexivity).
  assert (Ew21 : written_doc_inc s2 = W1) by (rewrite Ew2; exact Est).
  pose proof (rereadable_inc_facts s1 Hr1) as HI1.
  pose proof (rereadable_doc (strip_inc s1) (if_strip s1 HI1)) as Hdoc. fold (written_doc_inc s1) in Hdoc. fold W1 in Hdoc.
  destruct (cdoc_ok_inv W1 Hdoc) as (Hs & _).
  split; [|split; [exact Ew21|]].
  - rewrite Hdata. rewrite <- (cstrip_written_doc (strip_inc s1) (wf_shape _ (rereadable_facts _ (if_strip s1 HI1)))).
    fold (written_doc_inc s1). fold W1. rewrite <- (cstrip_cmapg keepn keepx written_value keep_cm (Dict W1) Hs), <- cwv_tree, Est. reflexivity.
  - assert (Hl2 : (Z.of_nat (length (sd_lc s2)) < 1000000)%Z).
    { unfold s2, number_inc. cbn [sd_lc]. unfold lc_tab. rewrite combine_length, ids_length, Nat.min_id. exact C1. }
    rewrite (writer_canon_inc_all s2 Hr2 Hl2), (writer_canon_inc_all s1 Hr1 Bl).
    fold (written_doc_inc s2) (written_doc_inc s1). fold W1. rewrite Ew21, En, En2. reflexivity.
Qed.

(* ---- the data of the second read, from conditions on the STATE that is written (no reference to the first read) ---- *)
(* s1 : any state of the class with one include entry (for instance what a first read returned); the file its include
   name points to is the writer's text of a plain dict whose re-read form m the canonical document of s1 holds already.
   The second read returns a state of the class with the same include name whose ordinary data are those of s1, every
   leaf as the classifier reads its written form, and whose canonical document is that of s1 with the leaves read back. *)
Theorem second_read_data fs' root c' s1 n db :
  rereadable_inc s1 = true -> (Z.of_nat (length (sd_lc s1)) < 1000000)%Z -> (-1 <= c')%Z ->
  (Z.of_nat (length (lc_list (written_doc_inc s1))) < 1000000)%Z -> (Z.of_nat (length (bc_list (written_doc_inc s1))) <= 1000000)%Z ->
  (Z.of_nat (length (lit_list (written_doc_inc s1))) <= 1000000)%Z ->
  inc_names s1 = [n] ->
  wdom db = true -> (Z.of_nat (nq (Dict db)) <= 1000000)%Z ->
  let m := reread_plain db in
  merge_spec (written_doc_inc s1) m = written_doc_inc s1 ->
  merge_safe (cwv (written_doc_inc s1)) m = true ->
  fs_lookup (norm_path root) fs' = Some (FNative (to_string_sd s1)) ->
  fs_lookup (norm_path (path_join (dir_of root) n)) fs' = Some (FNative (to_string_plain db)) ->
  exists s2 c2, read_plain fs' root true true c' = Ok (s2, c2) /\ rereadable_inc s2 = true /\
    cstrip (Dict (sd_data (strip_inc s2))) = map_leaves written_value (cstrip (Dict (sd_data (strip_inc s1)))) /\
    written_doc_inc s2 = cwv (written_doc_inc s1) /\ inc_names s2 = inc_names s1 /\
    map (fun e => snd (snd e)) (sd_inc s2) = [path_join (dir_of root) n].
Proof.
  intros Hr Bl Hc' C1 C2 C3 En Hdb Bnq m Habs Hsafe2 Hf0 Hfb.
  assert (C4 : (Z.of_nat (length (inc_names s1)) <= 1000000)%Z) by (rewrite En; exact one_le_million).
  destruct (second_read fs' root c' s1 n db Hr Bl Hc' (lt_le_bound _ C1) C2 C3 En Hdb Bnq Habs Hsafe2 Hf0 Hfb) as [c2 Hread2].
  set (W1 := written_doc_inc s1) in *. set (s2 := number_inc (dir_of root) c' W1 [n]) in *.
  destruct (reread_inc_fixed_point s1 (dir_of root) c' (dir_of root) c' Hr Bl Hc' Hc' C1 C2 C3 C4) as (_ & Hr2 & _ & Ew2 & _ & En2 & _).
  fold W1 in Hr2, Ew2, En2. rewrite En in Hr2, Ew2, En2. fold s2 in Hr2, Ew2, En2.
  destruct (includes_survive s1 (dir_of root) c' Hr Bl Hc' (lt_le_bound _ C1) C2 C3 C4) as (s' & cnt' & Hp' & _ & _ & Hdata & _ & _ & Hinc2 & _).
  fold W1 in Hinc2. rewrite En in Hinc2.
  pose proof (reread_inc s1 (dir_of root) c' Hr Bl Hc' (lt_le_bound _ C1) C2 C3 C4) as Hp2. fold W1 in Hp2. rewrite En in Hp2. fold s2 in Hp2.
  rewrite Hp' in Hp2. injection Hp2 as Es' _. subst s'.
  exists s2, c2. split; [exact Hread2|]. split; [exact Hr2|]. split; [exact Hdata|]. split; [exact Ew2|]. split; [rewrite En; exact En2|].
  rewrite Hinc2. cbn [length]. rewrite ids_S. reflexivity.
Qed.

Print Assumptions second_read.
Print Assumptions second_read_data.
Print Assumptions read_write_read.
