(* Proofs lifting C07 / C16 / C13 from the specification vocabulary to the model's own functions:
   sd_clean, sd_merge (arbitrary states, placeholder keys included), write_text, writer_write / writer_run. *)
From Coq Require Import NArith ZArith List Bool Lia.
From DictIO Require Import Chars Str Value Scalar KeyPath SDict Layout Lexer TokParser Reader TreeSpec SDictProofs.
From DictIO Require TokProofs.   (* not imported: its str_eqb_eq differs from the one of SDictProofs *)
Import ListNotations.

(* ================================================================================================ *)
(* 1. unique keys along one path (all that the path lemmas need; implied by wf)                     *)
(* ================================================================================================ *)
Fixpoint nodup_path (t : tree) (p : list key) : bool :=
  match p with
  | [] => true
  | k :: p' =>
      match t with
      | Dict kvs => keys_nodup (map fst kvs) &&
                    match alookup k kvs with Some c => nodup_path c p' | None => true end
      | _ => true
      end
  end.

Lemma nodup_path_cons : forall kvs k p',
  nodup_path (Dict kvs) (k :: p') =
  keys_nodup (map fst kvs) && match alookup k kvs with Some c => nodup_path c p' | None => true end.
Proof. reflexivity. Qed.

Lemma get_dpath_cons : forall kvs k p',
  get_dpath (Dict kvs) (k :: p') = match alookup k kvs with Some c => get_dpath c p' | None => None end.
Proof. reflexivity. Qed.

Lemma wf_nodup_path : forall p t, wf t = true -> nodup_path t p = true.
Proof.
  induction p as [|k p' IH]; intros t Hw; [reflexivity|].
  destruct t as [v|kvs|ts]; try reflexivity.
  rewrite nodup_path_cons. apply wf_Dict_iff in Hw. destruct Hw as [Hnd Hall].
  apply andb_true_iff. split; [apply keys_nodup_iff; exact Hnd|].
  destruct (alookup k kvs) as [c|] eqn:Ek; [|reflexivity].
  apply IH. exact (Forall_alookup wfkv kvs k c Hall Ek).
Qed.

(* a path that ends in a leaf passes through dicts only *)
Lemma get_dpath_leaf_shape : forall c p v, get_dpath c p = Some (Leaf v) ->
  (p = [] /\ c = Leaf v) \/ (exists sub k p', c = Dict sub /\ p = k :: p').
Proof.
  intros c p v H. destruct p as [|k p'].
  - left. cbn [get_dpath] in H. injection H as H. split; [reflexivity | exact H].
  - right. destruct c as [x|sub|ts]; cbn [get_dpath] in H; try discriminate H.
    exists sub, k, p'. split; reflexivity.
Qed.

(* ================================================================================================ *)
(* 2. clean-up: everything reachable through ordinary keys is left alone, at every depth             *)
(* ================================================================================================ *)
Lemma fold_cstep_lookup_dict : forall f l dacc sacc k sub, NoDup (map fst l) ->
  alookup k l = Some (Dict sub) ->
  exists sacc', alookup k (fst (fold_left (cstep f) l (dacc, sacc))) = Some (Dict (fst (clean_tree f sub sacc'))).
Proof.
  intros f. induction l as [|[k0 v0] l IH]; intros dacc sacc k sub Hnd Hk; [discriminate Hk|].
  cbn [map fst] in Hnd. inversion Hnd as [|? ? Hn Hd]; subst.
  change (fold_left (cstep f) ((k0, v0) :: l) (dacc, sacc))
    with (fold_left (cstep f) l (cstep f (dacc, sacc) (k0, v0))).
  pose proof (cstep_fst f dacc sacc k0 v0) as Hc.
  destruct (cstep f (dacc, sacc) (k0, v0)) as [d' s'] eqn:Ec. cbn [fst] in Hc.
  cbn [alookup] in Hk. destruct (key_eqb k k0) eqn:E.
  - apply key_eqb_eq in E. subst k0. injection Hk as Hv. subst v0.
    assert (Hl : alookup k l = None) by (apply alookup_None_notin; exact Hn).
    pose proof (fold_cstep_lookup f l d' s' k Hd) as H. rewrite Hl in H.
    exists sacc. rewrite H, Hc, alookup_aset, key_eqb_refl. reflexivity.
  - exact (IH d' s' k sub Hd Hk).
Qed.

Lemma clean_tree_keeps_paths : forall fuel data s p x,
  forallb ordinary_key p = true -> nodup_path (Dict data) p = true ->
  get_dpath (Dict data) p = Some x -> (forall kvs, x <> Dict kvs) ->
  get_dpath (Dict (fst (clean_tree fuel data s))) p = Some x.
Proof.
  induction fuel as [|f IH]; intros data s p x Hord Hnd Hget Hx; [exact Hget|].
  destruct p as [|k p'].
  - cbn [get_dpath] in Hget. injection Hget as Hget. exfalso. exact (Hx data (eq_sym Hget)).
  - cbn [forallb] in Hord. apply andb_true_iff in Hord. destruct Hord as [Hk Hord].
    rewrite nodup_path_cons in Hnd. apply andb_true_iff in Hnd. destruct Hnd as [Hnd Hndc].
    apply keys_nodup_iff in Hnd.
    rewrite get_dpath_cons in Hget.
    destruct (alookup k data) as [c|] eqn:Ek; [|discriminate Hget].
    rewrite clean_tree_S.
    pose proof (clean_level_lookup data s k Hk) as Hl.
    pose proof (clean_level_nodup data s Hnd) as Hn.
    destruct (clean_level data s) as [d s1]. cbn [fst] in Hl, Hn |- *.
    rewrite Ek in Hl. rewrite get_dpath_cons.
    destruct c as [v|sub|ts].
    + pose proof (fold_cstep_lookup f d d s1 k Hn) as H. rewrite Hl in H. rewrite H. exact Hget.
    + destruct p' as [|k' p''].
      * cbn [get_dpath] in Hget. injection Hget as Hget. exfalso. exact (Hx sub (eq_sym Hget)).
      * destruct (fold_cstep_lookup_dict f d d s1 k sub Hn Hl) as [sacc' H]. rewrite H.
        exact (IH sub sacc' (k' :: p'') x Hord Hndc Hget Hx).
    + pose proof (fold_cstep_lookup f d d s1 k Hn) as H. rewrite Hl in H. rewrite H. exact Hget.
Qed.

Lemma sd_clean_keeps_nodup_paths : forall s p x,
  forallb ordinary_key p = true -> nodup_path (Dict (sd_data s)) p = true ->
  get_dpath (Dict (sd_data s)) p = Some x -> (forall kvs, x <> Dict kvs) ->
  get_dpath (Dict (sd_data (sd_clean s))) p = Some x.
Proof.
  intros s p x Hord Hnd Hget Hx. rewrite sd_clean_data_fst. apply clean_tree_keeps_paths; assumption.
Qed.

Lemma sd_clean_keeps_ordinary_paths : forall s p x,
  forallb ordinary_key p = true -> wf (Dict (sd_data s)) = true ->
  get_dpath (Dict (sd_data s)) p = Some x -> (forall kvs, x <> Dict kvs) ->
  get_dpath (Dict (sd_data (sd_clean s))) p = Some x.
Proof.
  intros s p x Hord Hw Hget Hx. apply sd_clean_keeps_nodup_paths; try assumption.
  apply wf_nodup_path. exact Hw.
Qed.

(* ================================================================================================ *)
(* 3. the model's merge on arbitrary states                                                         *)
(* ================================================================================================ *)
(* one step of the fold of merge_kvs *)
Definition kstep (f : nat) (top : option (list (N * expr_entry))) (tgt : list (key * tree)) (kv : key * tree)
  : list (key * tree) :=
  let (k, ov) := kv in
  match alookup k tgt, ov with
  | Some (Dict tsub), Dict osub => aset k (Dict (merge_kvs f None tsub osub)) tgt
  | Some tv, _ =>
      match top with
      | Some exprs => if circular k (insert_expression tv exprs) then aset k ov tgt else tgt
      | None => tgt
      end
  | None, _ => aset k ov tgt
  end.

Lemma merge_kvs_S : forall f top target other,
  merge_kvs (S f) top target other = fold_left (kstep f top) other target.
Proof. reflexivity. Qed.

Lemma kstep_shape : forall f top tgt k0 ov,
  kstep f top tgt (k0, ov) = tgt \/ exists x, kstep f top tgt (k0, ov) = aset k0 x tgt.
Proof.
  intros f top tgt k0 ov. unfold kstep.
  destruct (alookup k0 tgt) as [[v|tsub|ts]|]; destruct ov as [v'|osub|ts']; destruct top as [exprs|];
    try (left; reflexivity); try (right; eexists; reflexivity);
    match goal with |- context [if ?b then _ else _] => destruct b end;
    try (left; reflexivity); right; eexists; reflexivity.
Qed.

Lemma kstep_nodup : forall f top tgt kv, NoDup (map fst tgt) -> NoDup (map fst (kstep f top tgt kv)).
Proof.
  intros f top tgt [k0 ov] Hnd. destruct (kstep_shape f top tgt k0 ov) as [E|[x E]]; rewrite E.
  - exact Hnd.
  - apply aset_nodup. exact Hnd.
Qed.

Lemma kstep_lookup_other : forall f top tgt k k0 ov, k <> k0 ->
  alookup k (kstep f top tgt (k0, ov)) = alookup k tgt.
Proof.
  intros f top tgt k k0 ov Hne. destruct (kstep_shape f top tgt k0 ov) as [E|[x E]]; rewrite E; [reflexivity|].
  rewrite alookup_aset. destruct (key_eqb k k0) eqn:Ek; [|reflexivity].
  apply key_eqb_eq in Ek. contradiction.
Qed.

Lemma fold_kstep_nodup : forall f top other tgt, NoDup (map fst tgt) ->
  NoDup (map fst (fold_left (kstep f top) other tgt)).
Proof.
  intros f top. induction other as [|kv other IH]; intros tgt Hnd; [exact Hnd|].
  cbn [fold_left]. apply IH. apply kstep_nodup. exact Hnd.
Qed.

Lemma fold_kstep_lookup_notin : forall f top other tgt k, ~ In k (map fst other) ->
  alookup k (fold_left (kstep f top) other tgt) = alookup k tgt.
Proof.
  intros f top. induction other as [|[k0 ov] other IH]; intros tgt k Hn; [reflexivity|].
  cbn [fold_left]. cbn [map fst In] in Hn.
  rewrite IH by (intro Hin; apply Hn; right; exact Hin).
  apply kstep_lookup_other. intro E. apply Hn. left. symmetry. exact E.
Qed.

(* the circular test never fires on a dict or a list *)
Lemma circular_container : forall k c exprs, (forall v, c <> Leaf v) ->
  circular k (insert_expression c exprs) = false.
Proof.
  intros k c exprs Hc. destruct c as [v|sub|ts]; [exfalso; exact (Hc v eq_refl)| |]; destruct k; reflexivity.
Qed.

(* what the fold keeps invariant about the entry k on the way to the leaf *)
Definition path_inv (top : option (list (N * expr_entry))) (k : key) (p' : list key) (v : scalar) (c : tree) : Prop :=
  get_dpath c p' = Some (Leaf v) /\ nodup_path c p' = true /\
  match top with Some exprs => circular k (insert_expression c exprs) = false | None => True end.

Definition keeps (f : nat) : Prop := forall tsub osub p v,
  get_dpath (Dict tsub) p = Some (Leaf v) -> nodup_path (Dict tsub) p = true ->
  get_dpath (Dict (merge_kvs f None tsub osub)) p = Some (Leaf v) /\
  nodup_path (Dict (merge_kvs f None tsub osub)) p = true.

Lemma kstep_inv : forall f top k p' v, keeps f -> forall tgt kv c,
  NoDup (map fst tgt) -> alookup k tgt = Some c -> path_inv top k p' v c ->
  exists c', alookup k (kstep f top tgt kv) = Some c' /\ path_inv top k p' v c'.
Proof.
  intros f top k p' v Hkeeps tgt [k0 ov] c Hnd Hk Hinv.
  destruct (key_eqb k k0) eqn:E.
  - apply key_eqb_eq in E. subst k0. destruct Hinv as [Hget [Hndp Hsafe]].
    unfold kstep. rewrite Hk.
    destruct (get_dpath_leaf_shape c p' v Hget) as [[Hp Hc]|[sub [k1 [p1 [Hc Hp]]]]].
    + (* the entry is the leaf itself: only the circular test could replace it *)
      subst c p'. exists (Leaf v).
      destruct top as [exprs|].
      * rewrite Hsafe. split; [exact Hk|]. split; [reflexivity|]. split; [reflexivity | exact Hsafe].
      * split; [exact Hk|]. split; [reflexivity|]. split; [reflexivity | exact I].
    + subst c p'. destruct ov as [v'|osub|ts'].
      * exists (Dict sub). destruct top as [exprs|].
        -- rewrite Hsafe. split; [exact Hk|]. split; [exact Hget|]. split; [exact Hndp | exact Hsafe].
        -- split; [exact Hk|]. split; [exact Hget|]. split; [exact Hndp | exact I].
      * exists (Dict (merge_kvs f None sub osub)).
        rewrite alookup_aset, key_eqb_refl. split; [reflexivity|].
        destruct (Hkeeps sub osub (k1 :: p1) v Hget Hndp) as [Hg' Hn'].
        split; [exact Hg'|]. split; [exact Hn'|].
        destruct top as [exprs|]; [|exact I]. apply circular_container. intros v0; discriminate.
      * exists (Dict sub). destruct top as [exprs|].
        -- rewrite Hsafe. split; [exact Hk|]. split; [exact Hget|]. split; [exact Hndp | exact Hsafe].
        -- split; [exact Hk|]. split; [exact Hget|]. split; [exact Hndp | exact I].
  - apply key_eqb_neq in E. exists c. rewrite kstep_lookup_other by exact E. split; [exact Hk | exact Hinv].
Qed.

Lemma fold_kstep_inv : forall f top k p' v, keeps f -> forall other tgt c,
  NoDup (map fst tgt) -> alookup k tgt = Some c -> path_inv top k p' v c ->
  exists c', alookup k (fold_left (kstep f top) other tgt) = Some c' /\ path_inv top k p' v c'.
Proof.
  intros f top k p' v Hkeeps. induction other as [|kv other IH]; intros tgt c Hnd Hk Hinv.
  - exists c. split; [exact Hk | exact Hinv].
  - cbn [fold_left].
    destruct (kstep_inv f top k p' v Hkeeps tgt kv c Hnd Hk Hinv) as [c1 [Hk1 Hinv1]].
    exact (IH (kstep f top tgt kv) c1 (kstep_nodup f top tgt kv Hnd) Hk1 Hinv1).
Qed.

(* from the invariant on the entry back to the path statement *)
Lemma path_from_entry : forall top k p' v c tgt, NoDup (map fst tgt) -> alookup k tgt = Some c ->
  path_inv top k p' v c ->
  get_dpath (Dict tgt) (k :: p') = Some (Leaf v) /\ nodup_path (Dict tgt) (k :: p') = true.
Proof.
  intros top k p' v c tgt Hnd Hk [Hget [Hndp _]].
  rewrite get_dpath_cons, nodup_path_cons, Hk. split; [exact Hget|].
  apply andb_true_iff. split; [apply keys_nodup_iff; exact Hnd | exact Hndp].
Qed.

Lemma keeps_all : forall f, keeps f.
Proof.
  induction f as [|f IH]; intros tsub osub p v Hget Hnd; [split; assumption|].
  destruct p as [|k p']; [discriminate Hget|].
  rewrite get_dpath_cons in Hget. rewrite nodup_path_cons in Hnd.
  apply andb_true_iff in Hnd. destruct Hnd as [Hnd Hndc]. apply keys_nodup_iff in Hnd.
  destruct (alookup k tsub) as [c|] eqn:Ek; [|discriminate Hget].
  rewrite merge_kvs_S.
  destruct (fold_kstep_inv f None k p' v IH osub tsub c Hnd Ek (conj Hget (conj Hndc I))) as [c' [Hk' Hinv']].
  exact (path_from_entry None k p' v c' _ (fold_kstep_nodup f None osub tsub Hnd) Hk' Hinv').
Qed.

(* the only way the top-level merge replaces an existing leaf: the value (after the expression text has
   been put back) refers to its own key.  Only top-level entries are tested. *)
Definition top_self_ref (exprs : list (N * expr_entry)) (p : list key) (v : scalar) : bool :=
  match p with
  | [k] => circular k (insert_expression (Leaf v) exprs)
  | _ => false
  end.

Lemma merge_kvs_top_keeps : forall f exprs target other p v,
  get_dpath (Dict target) p = Some (Leaf v) -> nodup_path (Dict target) p = true ->
  top_self_ref exprs p v = false ->
  get_dpath (Dict (merge_kvs f (Some exprs) target other)) p = Some (Leaf v) /\
  nodup_path (Dict (merge_kvs f (Some exprs) target other)) p = true.
Proof.
  intros f exprs target other p v Hget Hnd Hsr. destruct f as [|f]; [split; assumption|].
  destruct p as [|k p']; [discriminate Hget|].
  rewrite get_dpath_cons in Hget. rewrite nodup_path_cons in Hnd.
  apply andb_true_iff in Hnd. destruct Hnd as [Hnd Hndc]. apply keys_nodup_iff in Hnd.
  destruct (alookup k target) as [c|] eqn:Ek; [|discriminate Hget].
  assert (Hsafe : circular k (insert_expression c exprs) = false).
  { destruct (get_dpath_leaf_shape c p' v Hget) as [[Hp Hc]|[sub [k1 [p1 [Hc Hp]]]]].
    - subst c p'. exact Hsr.
    - subst c. apply circular_container. intros v0; discriminate. }
  rewrite merge_kvs_S.
  destruct (fold_kstep_inv f (Some exprs) k p' v (keeps_all f) other target c Hnd Ek
              (conj Hget (conj Hndc Hsafe))) as [c' [Hk' Hinv']].
  exact (path_from_entry (Some exprs) k p' v c' _ (fold_kstep_nodup f (Some exprs) other target Hnd) Hk' Hinv').
Qed.

(* sd_merge = clean-up of the merged data (whatever the tables) *)
Lemma sd_merge_clean : forall s m o, exists s1,
  sd_merge s m o = sd_clean s1 /\
  sd_data s1 = merge_kvs (S (depth (Dict m))) (Some (sd_expr s)) (sd_data s) m.
Proof. intros s m [o|]; eexists; split; reflexivity. Qed.

Lemma sd_merge_keeps_nodup_paths : forall s m o p v,
  forallb ordinary_key p = true -> nodup_path (Dict (sd_data s)) p = true ->
  get_dpath (Dict (sd_data s)) p = Some (Leaf v) -> top_self_ref (sd_expr s) p v = false ->
  get_dpath (Dict (sd_data (sd_merge s m o))) p = Some (Leaf v).
Proof.
  intros s m o p v Hord Hnd Hget Hsr.
  destruct (sd_merge_clean s m o) as [s1 [E1 E2]]. rewrite E1.
  destruct (merge_kvs_top_keeps (S (depth (Dict m))) (sd_expr s) (sd_data s) m p v Hget Hnd Hsr) as [Hg Hn].
  rewrite <- E2 in Hg, Hn.
  apply sd_clean_keeps_nodup_paths; try assumption. intros kvs; discriminate.
Qed.

Lemma sd_merge_keeps_any_state : forall s m o p v,
  forallb ordinary_key p = true -> wf (Dict (sd_data s)) = true ->
  get_dpath (Dict (sd_data s)) p = Some (Leaf v) -> top_self_ref (sd_expr s) p v = false ->
  get_dpath (Dict (sd_data (sd_merge s m o))) p = Some (Leaf v).
Proof.
  intros s m o p v Hord Hw Hget Hsr. apply sd_merge_keeps_nodup_paths; try assumption.
  apply wf_nodup_path. exact Hw.
Qed.

(* a new top-level key *)
Lemma fold_kstep_adds : forall f top other tgt k x,
  NoDup (map fst other) -> alookup k tgt = None -> alookup k other = Some x ->
  alookup k (fold_left (kstep f top) other tgt) = Some x.
Proof.
  intros f top. induction other as [|[k0 ov] other IH]; intros tgt k x Hnd Hnone Hk; [discriminate Hk|].
  cbn [map fst] in Hnd. inversion Hnd as [|? ? Hn Hd]; subst.
  cbn [fold_left]. cbn [alookup] in Hk. destruct (key_eqb k k0) eqn:E.
  - apply key_eqb_eq in E. subst k0. injection Hk as Hk. subst ov.
    rewrite fold_kstep_lookup_notin by exact Hn.
    unfold kstep. rewrite Hnone.
    assert (Ha : alookup k (aset k x tgt) = Some x) by (rewrite alookup_aset, key_eqb_refl; reflexivity).
    destruct x; exact Ha.
  - apply key_eqb_neq in E. apply IH; [exact Hd | | exact Hk].
    rewrite kstep_lookup_other by exact E. exact Hnone.
Qed.

Lemma sd_merge_adds_nodup : forall s m o k x,
  ordinary_key k = true -> keys_nodup (map fst (sd_data s)) = true -> keys_nodup (map fst m) = true ->
  alookup k (sd_data s) = None -> alookup k m = Some x -> (forall kvs, x <> Dict kvs) ->
  alookup k (sd_data (sd_merge s m o)) = Some x.
Proof.
  intros s m o k x Hk Hns Hnm Hnone Hm Hx.
  apply keys_nodup_iff in Hns, Hnm.
  destruct (sd_merge_clean s m o) as [s1 [E1 E2]]. rewrite E1.
  assert (Hl : alookup k (sd_data s1) = Some x).
  { rewrite E2, merge_kvs_S. apply fold_kstep_adds; assumption. }
  assert (Hnd : NoDup (map fst (sd_data s1))).
  { rewrite E2, merge_kvs_S. apply fold_kstep_nodup. exact Hns. }
  pose proof (sd_clean_keeps_nodup_paths s1 [k] x) as H.
  cbn [forallb] in H. rewrite Hk in H. rewrite !get_dpath_cons, nodup_path_cons, Hl in H.
  cbn [get_dpath nodup_path] in H. rewrite !andb_true_r in H.
  specialize (H eq_refl (proj2 (keys_nodup_iff _) Hnd) eq_refl Hx).
  destruct (alookup k (sd_data (sd_clean s1))) as [c|]; [exact H | discriminate H].
Qed.

Lemma wf_keys_nodup : forall d, wf (Dict d) = true -> keys_nodup (map fst d) = true.
Proof. intros d H. apply wf_Dict_iff in H. apply keys_nodup_iff. tauto. Qed.

Lemma sd_merge_adds_any_state : forall s m o k x,
  ordinary_key k = true -> wf (Dict (sd_data s)) = true -> wf (Dict m) = true ->
  alookup k (sd_data s) = None -> alookup k m = Some x -> (forall kvs, x <> Dict kvs) ->
  alookup k (sd_data (sd_merge s m o)) = Some x.
Proof.
  intros s m o k x Hk Hws Hwm. apply sd_merge_adds_nodup; try assumption; apply wf_keys_nodup; assumption.
Qed.

(* ================================================================================================ *)
(* 4. what is read back from a native file has unique keys at every level                           *)
(* ================================================================================================ *)
(* ---- clean-up ---- *)
Section CleanKindForall.
  Context {V : Type} (veqb : V -> V -> bool).
  Lemma clean_kind_Forall : forall (P : key * tree -> Prop) keys data (tab : list (N * V)) seen,
    Forall P data -> Forall P (fst (clean_kind veqb keys data tab seen)).
  Proof.
    intros P. induction keys as [|k0 keys IH]; intros data tab seen H; cbn [clean_kind]; [exact H|].
    destruct (key_id k0) as [i|]; [|apply IH; exact H].
    destruct (tlookup i tab) as [v|]; [|apply IH; exact H].
    destruct (existsb (veqb v) seen); apply IH; [apply adel_Forall|]; exact H.
  Qed.
End CleanKindForall.

Lemma clean_level_wf : forall data s, wf (Dict data) = true -> wf (Dict (fst (clean_level data s))) = true.
Proof.
  intros data s H. apply wf_Dict_iff in H. destruct H as [Hnd Hall]. apply wf_Dict_iff. split.
  - apply clean_level_nodup. exact Hnd.
  - rewrite clean_level_fst. cbv zeta. repeat apply clean_kind_Forall. exact Hall.
Qed.

Lemma fold_cstep_wf : forall f,
  (forall data s, wf (Dict data) = true -> wf (Dict (fst (clean_tree f data s))) = true) ->
  forall l dacc sacc, Forall wfkv l -> wf (Dict dacc) = true ->
  wf (Dict (fst (fold_left (cstep f) l (dacc, sacc)))) = true.
Proof.
  intros f IH. induction l as [|[k v] l IHl]; intros dacc sacc Hl Hd; [exact Hd|].
  inversion Hl as [|? ? Hv Hl']; subst. unfold wfkv in Hv. cbn [snd] in Hv.
  change (fold_left (cstep f) ((k, v) :: l) (dacc, sacc))
    with (fold_left (cstep f) l (cstep f (dacc, sacc) (k, v))).
  pose proof (cstep_fst f dacc sacc k v) as Hc.
  destruct (cstep f (dacc, sacc) (k, v)) as [d' s']. cbn [fst] in Hc.
  apply IHl; [exact Hl'|]. rewrite Hc. destruct v as [x|sub|ts]; try exact Hd.
  apply aset_wf; [|exact Hd]. apply IH. exact Hv.
Qed.

Lemma clean_tree_wf : forall fuel data s, wf (Dict data) = true -> wf (Dict (fst (clean_tree fuel data s))) = true.
Proof.
  induction fuel as [|f IH]; intros data s H; [exact H|].
  rewrite clean_tree_S. pose proof (clean_level_wf data s H) as Hl.
  destruct (clean_level data s) as [d s1]. cbn [fst] in Hl |- *.
  apply fold_cstep_wf; [exact IH | | exact Hl]. apply wf_Dict_iff in Hl. tauto.
Qed.

Lemma sd_clean_wf : forall s, wf (Dict (sd_data s)) = true -> wf (Dict (sd_data (sd_clean s))) = true.
Proof. intros s H. rewrite sd_clean_data_fst. apply clean_tree_wf. exact H. Qed.

(* ---- merge ---- *)
Lemma kstep_wf : forall f top,
  (forall target other, wf (Dict target) = true -> wf (Dict other) = true ->
     wf (Dict (merge_kvs f None target other)) = true) ->
  forall tgt kv, wf (Dict tgt) = true -> wf (snd kv) = true -> wf (Dict (kstep f top tgt kv)) = true.
Proof.
  intros f top IH tgt [k ov] Ht Hov. cbn [snd] in Hov. unfold kstep.
  destruct (alookup k tgt) as [tv|] eqn:Ek; [|destruct ov; apply aset_wf; assumption].
  assert (Htv : wf tv = true).
  { apply wf_Dict_iff in Ht. destruct Ht as [_ Hall]. exact (Forall_alookup wfkv tgt k tv Hall Ek). }
  assert (Hsimple : wf (Dict match top with
                             | Some exprs => if circular k (insert_expression tv exprs) then aset k ov tgt else tgt
                             | None => tgt
                             end) = true).
  { destruct top as [exprs|]; [|exact Ht].
    destruct (circular k (insert_expression tv exprs)); [apply aset_wf; assumption | exact Ht]. }
  destruct tv as [v|tsub|ts]; try (destruct ov; exact Hsimple).
  destruct ov as [v'|osub|ts']; try exact Hsimple.
  apply aset_wf; [|exact Ht]. apply IH; assumption.
Qed.

Lemma merge_kvs_wf : forall f top target other, wf (Dict target) = true -> wf (Dict other) = true ->
  wf (Dict (merge_kvs f top target other)) = true.
Proof.
  induction f as [|f IH]; intros top target other Ht Ho; [exact Ht|].
  rewrite merge_kvs_S. apply wf_Dict_iff in Ho. destruct Ho as [_ Ho].
  revert target Ht. induction Ho as [|kv other Hkv _ IHo]; intros target Ht; [exact Ht|].
  cbn [fold_left]. apply IHo. apply kstep_wf; [intros; apply IH; assumption | exact Ht | exact Hkv].
Qed.

Lemma sd_merge_wf : forall s m o, wf (Dict (sd_data s)) = true -> wf (Dict m) = true ->
  wf (Dict (sd_data (sd_merge s m o))) = true.
Proof.
  intros s m o Hs Hm. destruct (sd_merge_clean s m o) as [s1 [E1 E2]]. rewrite E1.
  apply sd_clean_wf. rewrite E2. apply merge_kvs_wf; assumption.
Qed.

(* ---- set_global_key ---- *)
Lemma set_nth_forallb : forall (P : tree -> bool) i x l, P x = true -> forallb P l = true ->
  forallb P (set_nth i x l) = true.
Proof.
  intros P. induction i as [|i IH]; intros x [|y l] Hx Hl; try reflexivity; cbn [set_nth forallb] in *;
    apply andb_true_iff in Hl; destruct Hl as [H1 H2]; apply andb_true_iff; split; auto.
Qed.

Lemma wf_Lst_forallb : forall ts, wf (Lst ts) = forallb wf ts.
Proof. induction ts as [|t ts IH]; [reflexivity|]. cbn [forallb]. rewrite <- IH. reflexivity. Qed.

Lemma set_child_wf : forall t k v t', set_child t k v = Ok t' -> wf t = true -> wf v = true -> wf t' = true.
Proof.
  intros t k v t' H Ht Hv. destruct t as [x|kvs|ts]; cbn [set_child] in H; [discriminate H| |].
  - injection H as H. subst t'. apply aset_wf; assumption.
  - destruct k as [z|s]; [|discriminate H]. destruct (norm_index z (length ts)) as [i|]; [|discriminate H].
    injection H as H. subst t'. rewrite wf_Lst_forallb in *. apply set_nth_forallb; assumption.
Qed.

Lemma child_wf : forall t k c, child t k = Ok c -> wf t = true -> wf c = true.
Proof.
  intros t k c H Ht. destruct t as [x|kvs|ts]; cbn [child] in H; [discriminate H| |].
  - destruct (alookup k kvs) as [c'|] eqn:E; [|discriminate H]. injection H as H. subst c'.
    apply wf_Dict_iff in Ht. destruct Ht as [_ Hall]. exact (Forall_alookup wfkv kvs k c Hall E).
  - destruct k as [z|s]; [|discriminate H]. destruct (norm_index z (length ts)) as [i|]; [|discriminate H].
    destruct (nth_error ts i) as [c'|] eqn:E; [|discriminate H]. injection H as H. subst c'.
    rewrite wf_Lst_forallb in Ht. rewrite forallb_forall in Ht. apply Ht. exact (nth_error_In ts i E).
Qed.

Lemma set_at_wf : forall p t v ii t', set_at t p v ii = Ok t' -> wf t = true -> wf v = true -> wf t' = true.
Proof.
  induction p as [|k p IH]; intros t v ii t' H Ht Hv.
  - cbn [set_at] in H. injection H as H. subst t'. exact Ht.
  - destruct p as [|k2 p2].
    + cbn [set_at] in H. exact (set_child_wf t k v t' H Ht Hv).
    + change (set_at t (k :: k2 :: p2) v ii)
        with (bind (child t k) (fun c =>
                if negb (is_container c) then Raise E_Key
                else if Nat.eqb (S ii) 10 then Raise E_Recursion
                else bind (set_at c (k2 :: p2) v (S ii)) (fun c' => set_child t k c'))) in H.
      destruct (child t k) as [c|e] eqn:Ec; cbn [bind] in H; [|discriminate H].
      destruct (negb (is_container c)); [discriminate H|].
      destruct (Nat.eqb (S ii) 10); [discriminate H|].
      destruct (set_at c (k2 :: p2) v (S ii)) as [c'|e] eqn:Es; cbn [bind] in H; [|discriminate H].
      apply (set_child_wf t k c' t' H Ht). apply (IH c v (S ii) c' Es); [|exact Hv].
      exact (child_wf t k c Ec Ht).
Qed.

Lemma insert_literal_wf : forall fuel ph v d t, insert_literal fuel ph v d = Ok t ->
  wf d = true -> wf v = true -> wf t = true.
Proof.
  induction fuel as [|f IH]; intros ph v d t H Hd Hv; [discriminate H|].
  cbn [insert_literal] in H. destruct (find_global_key ph d) as [p|].
  - destruct (set_global_key d p v) as [d'|e] eqn:E; cbn [bind] in H; [|discriminate H].
    apply (IH ph v d' t H); [|exact Hv]. exact (set_at_wf p d v 0 d' E Hd Hv).
  - injection H as H. subst t. exact Hd.
Qed.

Lemma insert_string_literals_wf : forall lits d d', insert_string_literals lits d = Ok d' ->
  wf (Dict d) = true -> wf (Dict d') = true.
Proof.
  unfold insert_string_literals.
  assert (G : forall lits (acc : res (list (key * tree))) d',
            fold_left (fun (acc : res (list (key * tree))) (e : N * str) =>
               bind acc (fun d =>
               bind (parse_value (snd e)) (fun v =>
               bind (insert_literal (S (count_leaves (Dict d))) (placeholder w_STRINGLITERAL (fst e)) (Leaf v) (Dict d))
                    (fun t => match t with Dict d' => Ok d' | _ => Ok d end)))) lits acc = Ok d' ->
            (forall d, acc = Ok d -> wf (Dict d) = true) -> wf (Dict d') = true).
  { induction lits as [|e lits IH]; intros acc d' H Hacc; cbn [fold_left] in H.
    - apply Hacc. exact H.
    - apply (IH _ d' H). intros d1 H1. destruct acc as [d|er]; cbn [bind] in H1; [|discriminate H1].
      pose proof (Hacc d eq_refl) as Hd.
      destruct (parse_value (snd e)) as [v|er]; cbn [bind] in H1; [|discriminate H1].
      destruct (insert_literal (S (count_leaves (Dict d))) (placeholder w_STRINGLITERAL (fst e)) (Leaf v) (Dict d))
        as [t|er] eqn:Ei; cbn [bind] in H1; [|discriminate H1].
      pose proof (insert_literal_wf _ _ _ _ _ Ei Hd eq_refl) as Ht.
      destruct t as [x|dd|ts]; injection H1 as H1; subst d1; assumption. }
  intros lits d d' H Hd. apply (G lits (Ok d) d' H). intros d0 E. injection E as E. subst d0. exact Hd.
Qed.

Ltac dbind H x E :=
  match type of H with
  | bind ?X _ = _ => destruct X as [x|] eqn:E; cbn [bind] in H; [|discriminate H]
  end.

Lemma forallb_rev : forall (P : tree -> bool) l, forallb P l = true -> forallb P (rev l) = true.
Proof.
  intros P l H. rewrite forallb_forall in *. intros x Hx. apply H. apply in_rev. exact Hx.
Qed.

Lemma parse_go_wf : forall f,
  (forall ts ti acc d, parse_dict_go f ts ti acc = Ok d -> wf (Dict acc) = true -> wf (Dict d) = true) /\
  (forall ts ti base acc l, parse_list_go f ts ti base acc = Ok l -> forallb wf acc = true -> forallb wf l = true).
Proof.
  induction f as [|f [IHd IHl]]; [split; intros; discriminate|].
  split.
  - intros ts ti acc d H Hacc. rewrite TokProofs.parse_dict_go_S in H.
    destruct (py_nth ts ti) as [[lv txt]|]; [|injection H as H; subst d; exact Hacc].
    destruct (ti <? 0)%Z; [injection H as H; subst d; exact Hacc|].
    destruct (is_open txt).
    + dbind H kidx Ek. destruct (py_nth ts kidx) as [[lk ktxt]|]; [|discriminate H].
      dbind H k Epk. dbind H cs Ecs. destruct cs as [ds i]. dbind H u1 Eu1. dbind H u2 Eu2. dbind H acc' Eacc.
      apply (IHd _ _ _ _ H). clear H.
      destruct (str_eqb (first_text ds) t_lpar).
      * destruct (Nat.ltb (length ds) 3).
        -- injection Eacc as Eacc. subst acc'. apply aset_wf; [reflexivity | exact Hacc].
        -- dbind Eacc l El. injection Eacc as Eacc. subst acc'. apply aset_wf; [|exact Hacc].
           rewrite wf_Lst_forallb. apply (IHl _ _ _ _ _ El). reflexivity.
      * destruct (str_eqb (first_text ds) t_lbrace).
        -- dbind Eacc sub Esub. injection Eacc as Eacc. subst acc'. apply aset_wf; [|exact Hacc].
           apply (IHd _ _ _ _ Esub). reflexivity.
        -- injection Eacc as Eacc. subst acc'. exact Hacc.
    + destruct (str_eqb txt t_semi &&
                negb (match py_nth ts (ti - 1)%Z with Some (_, p) => str_eqb p t_rpar | None => false end)).
      * destruct (py_nth ts (ti - 1)%Z); [|discriminate H]. cbv zeta in H.
        destruct (kv_back f ts ti 1%Z lv [(lv, txt)]) as [|[l1 ktxt] [|[l2 vtxt] [|t3 [|t4 r]]]];
          try (apply (IHd _ _ _ _ H); exact Hacc).
        dbind H k Epk. dbind H v Epv. apply (IHd _ _ _ _ H). apply aset_wf; [reflexivity | exact Hacc].
      * destruct (is_comment_tok txt || is_include_tok txt).
        -- apply (IHd _ _ _ _ H). apply aset_wf; [reflexivity | exact Hacc].
        -- apply (IHd _ _ _ _ H). exact Hacc.
  - intros ts ti base acc l H Hacc. rewrite TokProofs.parse_list_go_S in H.
    destruct (py_nth ts ti) as [[lv txt]|]; [|injection H as H; subst l; apply forallb_rev; exact Hacc].
    destruct (ti <? 0)%Z; [injection H as H; subst l; apply forallb_rev; exact Hacc|].
    destruct (is_open txt && (base <? lv)%Z).
    + dbind H cs Ecs. destruct cs as [ds i]. dbind H u2 Eu2. dbind H acc' Eacc.
      apply (IHl _ _ _ _ _ H). clear H.
      destruct (str_eqb (first_text ds) t_lpar).
      * destruct (Nat.ltb (length ds) 3).
        -- injection Eacc as Eacc. subst acc'. cbn [forallb]. rewrite Hacc. reflexivity.
        -- dbind Eacc l' El. injection Eacc as Eacc. subst acc'. cbn [forallb]. rewrite Hacc, andb_true_r.
           rewrite wf_Lst_forallb. apply (IHl _ _ _ _ _ El). reflexivity.
      * destruct (str_eqb (first_text ds) t_lbrace).
        -- dbind Eacc sub Esub. injection Eacc as Eacc. subst acc'. cbn [forallb]. rewrite Hacc, andb_true_r.
           apply (IHd _ _ _ _ Esub). reflexivity.
        -- injection Eacc as Eacc. subst acc'. exact Hacc.
    + destruct (negb (str_eqb txt t_lpar) && negb (str_eqb txt t_rpar) && negb (str_eqb txt t_semi)).
      * dbind H v Epv. apply (IHl _ _ _ _ _ H). cbn [forallb]. rewrite Hacc. reflexivity.
      * apply (IHl _ _ _ _ _ H). exact Hacc.
Qed.

Lemma parse_tokens_wf : forall ts d, parse_tokens ts = Ok d -> wf (Dict d) = true.
Proof.
  intros ts d H. unfold parse_tokens in H. cbv zeta in H.
  exact (proj1 (parse_go_wf _) _ _ _ _ H eq_refl).
Qed.

Lemma parse_string_wf : forall com dir count text pr, parse_string com dir count text = Ok pr ->
  wf (Dict (sd_data (pr_sd pr))) = true.
Proof.
  intros com dir count text pr H. unfold parse_string in H. cbv zeta in H.
  dbind H d0 E0. dbind H d1 E1. injection H as H. subst pr. cbn [pr_sd].
  apply sd_clean_wf. cbn [sd_data]. unfold parser_clean. apply adel_wf. apply adel_wf.
  apply (insert_string_literals_wf _ _ _ E1). apply sd_clean_wf. cbn [sd_data].
  exact (parse_tokens_wf _ _ E0).
Qed.

(* a file tree of native files only (what write_text reads back) *)
Definition native_fs (fs : fsys) : bool :=
  forallb (fun pu => match snd pu with FNative _ => true | FJson _ => false end) fs.

Lemma fs_lookup_native : forall fs p u, native_fs fs = true -> fs_lookup p fs = Some u -> exists t, u = FNative t.
Proof.
  induction fs as [|[q u0] fs IH]; intros p u Hn H; [discriminate H|].
  cbn [native_fs forallb snd] in Hn. apply andb_true_iff in Hn. destruct Hn as [H0 Hn].
  cbn [fs_lookup] in H. destruct (str_eqb p q).
  - injection H as H. subst u0. destruct u as [t|j]; [exists t; reflexivity | discriminate H0].
  - exact (IH p u Hn H).
Qed.

Lemma fold_res_inv : forall {A B : Type} (P : A -> Prop) (F : res A -> B -> res A),
  (forall acc e a', F acc e = Ok a' -> (forall a, acc = Ok a -> P a) -> P a') ->
  forall l acc a', fold_left F l acc = Ok a' -> (forall a, acc = Ok a -> P a) -> P a'.
Proof.
  intros A B P F Hstep. induction l as [|e l IH]; intros acc a' H Hacc; cbn [fold_left] in H.
  - apply Hacc. exact H.
  - apply (IH _ a' H). intros a Ha. exact (Hstep acc e a Ha Hacc).
Qed.

Lemma merge_includes_rec_wf : forall fuel fs com chain parent count s c, native_fs fs = true ->
  merge_includes_rec fuel fs com chain parent count = Ok (s, c) ->
  wf (Dict (sd_data parent)) = true -> wf (Dict (sd_data s)) = true.
Proof.
  induction fuel as [|f IH]; intros fs com chain parent count s c Hn H Hp; [discriminate H|].
  cbn [merge_includes_rec] in H.
  dbind H tc Efold. destruct tc as [temp c0]. injection H as H _. subst s.
  apply sd_merge_wf; [exact Hp|].
  change (wf (Dict (sd_data (fst (temp, c0)))) = true).
  refine (fold_res_inv (fun tc : sdict * Z => wf (Dict (sd_data (fst tc))) = true) _ _ _ _ _ Efold _).
  - intros acc e a' HF Hacc. destruct acc as [[t0 c1]|er]; cbn [bind] in HF; [|discriminate HF].
    pose proof (Hacc (t0, c1) eq_refl) as Ht0. cbn [fst] in Ht0.
    destruct e as [i [[dv nm] path]].
    destruct (in_chain (norm_path path) chain); [injection HF as HF; subst a'; exact Ht0|].
    destruct (fs_lookup (norm_path path) fs) as [u|] eqn:Eu; [|injection HF as HF; subst a'; exact Ht0].
    destruct (fs_lookup_native fs _ u Hn Eu) as [text Hu]. subst u.
    dbind HF pr Epr. cbn [parse_unit] in Epr. pose proof (parse_string_wf _ _ _ _ _ Epr) as Hpr.
    dbind HF ic Eic. destruct ic as [inc' c']. injection HF as HF. subst a'. cbn [fst].
    assert (Hinc' : wf (Dict (sd_data inc')) = true).
    { destruct (sd_inc (pr_sd pr)).
      - injection Eic as Eic _. subst inc'. exact Hpr.
      - exact (IH _ _ _ _ _ _ _ Hn Eic Hpr). }
    apply sd_merge_wf; [|exact Hinc']. destruct (sd_inc (pr_sd pr)); [exact Ht0|].
    apply sd_merge_wf; assumption.
  - intros a Ha. injection Ha as Ha. subst a. reflexivity.
Qed.

Lemma read_plain_wf : forall fs root inc com count s c, native_fs fs = true ->
  read_plain fs root inc com count = Ok (s, c) -> wf (Dict (sd_data s)) = true.
Proof.
  intros fs root inc com count s c Hn H. unfold read_plain in H.
  destruct (fs_lookup (norm_path root) fs) as [u|] eqn:Eu; [|discriminate H].
  destruct (fs_lookup_native fs _ u Hn Eu) as [text Hu]. subst u.
  dbind H pr Epr. cbn [parse_unit] in Epr. pose proof (parse_string_wf _ _ _ _ _ Epr) as Hpr.
  dbind H sc Esc. destruct sc as [s0 c0]. injection H as H _. subst s.
  assert (Hs0 : wf (Dict (sd_data s0)) = true).
  { destruct inc.
    - unfold merge_includes in Esc. dbind Esc pc Erec. destruct pc as [p1 c1]. injection Esc as Esc _. subst s0.
      pose proof (merge_includes_rec_wf _ _ _ _ _ _ _ _ Hn Erec Hpr) as Hp1.
      apply sd_merge_wf; exact Hp1.
    - injection Esc as Esc _. subst s0. exact Hpr. }
  destruct inc; cbn [sd_data]; [exact Hs0|].
  unfold remove_include_keys. apply wf_Dict_iff in Hs0. destruct Hs0 as [Hnd Hall]. apply wf_Dict_iff. split.
  - clear Hall. induction (sd_data s0) as [|[k v] l IHl]; [constructor|].
    cbn [map fst] in Hnd. inversion Hnd as [|? ? Hnk Hnd']; subst. cbn [filter].
    destruct (match fst (k, v) with KS s => negb (has_include_mark s) | KI _ => true end); [|exact (IHl Hnd')].
    cbn [map fst]. constructor; [|exact (IHl Hnd')].
    intro Hin. apply Hnk. apply in_map_iff in Hin. destruct Hin as [x [Hx Hin]]. apply filter_In in Hin.
    apply in_map_iff. exists x. tauto.
  - apply Forall_forall. intros x Hx. apply filter_In in Hx. rewrite Forall_forall in Hall. apply Hall. tauto.
Qed.

(* ================================================================================================ *)
(* 5. write_text                                                                                    *)
(* ================================================================================================ *)
Definition pvt_go : list (key * tree) -> res (list (key * tree)) :=
  fix go (l : list (key * tree)) : res (list (key * tree)) :=
    match l with
    | [] => Ok []
    | (k, c) :: l' => bind (parse_values_tree c) (fun c' => bind (go l') (fun r => Ok ((k, c') :: r)))
    end.

Lemma pvt_dict_eq : forall d, parse_values_tree (Dict d) = bind (pvt_go d) (fun kvs' => Ok (Dict kvs')).
Proof. reflexivity. Qed.

Lemma pvt_go_keys : forall d d', pvt_go d = Ok d' -> map fst d' = map fst d.
Proof.
  induction d as [|[k c] d IH]; intros d' H.
  - cbn [pvt_go] in H. injection H as H. subst d'. reflexivity.
  - change (pvt_go ((k, c) :: d))
      with (bind (parse_values_tree c) (fun c' => bind (pvt_go d) (fun r => Ok ((k, c') :: r)))) in H.
    destruct (parse_values_tree c) as [c'|e]; cbn [bind] in H; [|discriminate H].
    destruct (pvt_go d) as [r|e]; cbn [bind] in H; [|discriminate H].
    injection H as H. subst d'. cbn [map fst]. rewrite (IH r eq_refl). reflexivity.
Qed.

(* parse_values on a dict returns a dict with the same keys in the same order, or raises *)
Lemma pvt_dict_cases : forall d,
  (exists d', parse_values_tree (Dict d) = Ok (Dict d') /\ map fst d' = map fst d) \/
  (exists e, parse_values_tree (Dict d) = Raise e).
Proof.
  intro d. rewrite pvt_dict_eq. destruct (pvt_go d) as [d'|e] eqn:E; cbn [bind].
  - left. exists d'. split; [reflexivity | exact (pvt_go_keys d d' E)].
  - right. exists e. reflexivity.
Qed.

Lemma pvt_dict_keys : forall d d', parse_values_tree (Dict d) = Ok (Dict d') -> map fst d' = map fst d.
Proof.
  intros d d' H. destruct (pvt_dict_cases d) as [[d1 [E1 E2]]|[e E]]; rewrite H in *; [|discriminate E].
  injection E1 as E1. subst d1. exact E2.
Qed.

Lemma write_text_unfold : forall foam path existing append d,
  write_text foam path existing append d =
  bind (parse_values_tree (Dict d)) (fun t =>
  let d' := kvs_of_tree t in
  match existing, append with
  | Some text, true =>
      bind (read_plain [(norm_path path, FNative text)] path true true (-1)%Z) (fun sc =>
      let s := sd_merge (fst sc) d' None in
      Ok (if foam then foam_to_string_sd s else to_string_sd s))
  | _, _ => Ok (if foam then foam_to_string_plain d' else to_string_plain d')
  end).
Proof. reflexivity. Qed.

(* overwrite mode, and append mode without an existing file: the text is the serialisation of the (re-typed)
   source dict; no existing content is looked at *)
Lemma write_text_overwrite : forall foam path existing d,
  (forall d', parse_values_tree (Dict d) = Ok (Dict d') ->
     write_text foam path existing false d = Ok (if foam then foam_to_string_plain d' else to_string_plain d') /\
     write_text foam path None true d = Ok (if foam then foam_to_string_plain d' else to_string_plain d')) /\
  (forall e, parse_values_tree (Dict d) = Raise e ->
     write_text foam path existing false d = Raise e /\ write_text foam path None true d = Raise e) /\
  ((exists d', parse_values_tree (Dict d) = Ok (Dict d')) \/ (exists e, parse_values_tree (Dict d) = Raise e)).
Proof.
  intros foam path existing d. split; [|split].
  - intros d' H. rewrite !write_text_unfold, H. cbn [bind kvs_of_tree].
    split; [|reflexivity]. destruct existing; reflexivity.
  - intros e H. rewrite !write_text_unfold, H. split; reflexivity.
  - destruct (pvt_dict_cases d) as [[d' [E _]]|[e E]]; [left; exists d' | right; exists e]; exact E.
Qed.

(* read_plain hands back an empty expressions table *)
Lemma read_plain_expr : forall fs root inc com c s c', read_plain fs root inc com c = Ok (s, c') -> sd_expr s = [].
Proof.
  intros fs root inc com c s c' H. unfold read_plain in H.
  destruct (fs_lookup (norm_path root) fs) as [u|]; [|discriminate H].
  destruct (parse_unit com root c u) as [pr|e]; cbn [bind] in H; [|discriminate H].
  destruct (if inc then merge_includes fs com (pr_sd pr) (pr_count pr) else Ok (pr_sd pr, pr_count pr))
    as [[s0 c0]|e]; cbn [bind] in H; [|discriminate H].
  injection H as H _. subst s. destruct inc; reflexivity.
Qed.

Lemma insert_expression_nil : forall v, insert_expression v [] = v.
Proof.
  intros [[z|l|b| |t]|d|ts]; try reflexivity. unfold insert_expression.
  destruct (has_placeholder w_EXPRESSION t); [|reflexivity]. destruct (first_6digits t); reflexivity.
Qed.

(* append onto an existing file: the text is the serialisation of (what is read back from the file) merged with
   the source dict; what is read back is well formed, and the merge keeps every existing ordinary leaf and adds every
   new top-level key *)
Lemma write_text_append : forall foam path text d txt,
  write_text foam path (Some text) true d = Ok txt ->
  exists s_old c d',
    read_plain [(norm_path path, FNative text)] path true true (-1)%Z = Ok (s_old, c) /\
    parse_values_tree (Dict d) = Ok (Dict d') /\
    map fst d' = map fst d /\
    sd_expr s_old = [] /\
    wf (Dict (sd_data s_old)) = true /\
    txt = (if foam then foam_to_string_sd (sd_merge s_old d' None) else to_string_sd (sd_merge s_old d' None)) /\
    (forall p v, forallb ordinary_key p = true ->
       get_dpath (Dict (sd_data s_old)) p = Some (Leaf v) ->
       match p with [k] => circular k (Leaf v) | _ => false end = false ->
       get_dpath (Dict (sd_data (sd_merge s_old d' None))) p = Some (Leaf v)) /\
    (forall k x, ordinary_key k = true -> wf (Dict d) = true ->
       alookup k (sd_data s_old) = None -> alookup k d' = Some x -> (forall kvs, x <> Dict kvs) ->
       alookup k (sd_data (sd_merge s_old d' None)) = Some x).
Proof.
  intros foam path text d txt H. rewrite write_text_unfold in H.
  destruct (pvt_dict_cases d) as [[d' [Ed Ek]]|[e Ed]]; rewrite Ed in H; cbn [bind] in H; [|discriminate H].
  cbn [kvs_of_tree] in H. cbv zeta in H.
  destruct (read_plain [(norm_path path, FNative text)] path true true (-1)%Z) as [[s_old c]|e] eqn:Er;
    cbn [bind fst] in H; [|discriminate H].
  injection H as H. pose proof (read_plain_expr _ _ _ _ _ _ _ Er) as Hex.
  assert (Hw : wf (Dict (sd_data s_old)) = true) by (exact (read_plain_wf [(norm_path path, FNative text)] _ _ _ _ _ _ eq_refl Er)).
  exists s_old, c, d'. split; [reflexivity|]. split; [exact Ed|]. split; [exact Ek|]. split; [exact Hex|].
  split; [exact Hw|]. split; [symmetry; exact H|]. split.
  - intros p v Hord Hget Hsr. apply sd_merge_keeps_any_state; try assumption.
    rewrite Hex. unfold top_self_ref. destruct p as [|k [|k2 p2]]; try reflexivity.
    rewrite insert_expression_nil. exact Hsr.
  - intros k x Hk Hwd Hnone Hm Hx.
    apply sd_merge_adds_nodup; try assumption; [apply wf_keys_nodup; exact Hw|].
    rewrite Ek. apply wf_keys_nodup. exact Hwd.
Qed.

(* ================================================================================================ *)
(* 6. the file-tree step of the model                                                               *)
(* ================================================================================================ *)
Lemma str_eqb_refl : forall a, str_eqb a a = true.
Proof. intro a. apply str_eqb_eq. reflexivity. Qed.

Lemma str_eqb_neq : forall a b, a <> b -> str_eqb a b = false.
Proof.
  intros a b H. destruct (str_eqb a b) eqn:E; [|reflexivity]. apply str_eqb_eq in E. contradiction.
Qed.

Lemma w_get_w_set_same : forall p t w, w_get p (w_set p t w) = Some t.
Proof.
  intros p t. induction w as [|[q t0] w IH]; cbn [w_set w_get].
  - rewrite str_eqb_refl. reflexivity.
  - destruct (str_eqb p q) eqn:E; cbn [w_get]; rewrite E; [reflexivity | exact IH].
Qed.

Lemma w_get_w_set_other : forall p q t w, p <> q -> w_get p (w_set q t w) = w_get p w.
Proof.
  intros p q t w Hne. induction w as [|[q0 t0] w IH]; cbn [w_set w_get].
  - rewrite (str_eqb_neq p q Hne). reflexivity.
  - destruct (str_eqb q q0) eqn:E; cbn [w_get].
    + apply str_eqb_eq in E. subst q0. rewrite (str_eqb_neq p q Hne). reflexivity.
    + rewrite IH. reflexivity.
Qed.

Lemma map_fst_w_set : forall p t w,
  map fst (w_set p t w) = match w_get p w with Some _ => map fst w | None => map fst w ++ [p] end.
Proof.
  intros p t. induction w as [|[q t0] w IH]; cbn [w_set w_get map fst app]; [reflexivity|].
  destruct (str_eqb p q); cbn [map fst]; [reflexivity|].
  rewrite IH. destruct (w_get p w); reflexivity.
Qed.

Lemma writer_write_cases : forall foam w target ap d,
  (exists txt, write_text foam target (w_get target w) ap d = Ok txt /\
               writer_write foam w target ap d = (w_set target txt w, Ok txt)) \/
  (exists e, write_text foam target (w_get target w) ap d = Raise e /\
             writer_write foam w target ap d = (w, Raise e)).
Proof.
  intros foam w target ap d. unfold writer_write.
  destruct (write_text foam target (w_get target w) ap d) as [txt|e]; [left; exists txt | right; exists e];
    split; reflexivity.
Qed.

Lemma model_frame_step : forall foam w target ap d p, p <> target ->
  w_get p (fst (writer_write foam w target ap d)) = w_get p w.
Proof.
  intros foam w target ap d p Hne.
  destruct (writer_write_cases foam w target ap d) as [[txt [_ E]]|[e [_ E]]]; rewrite E; cbn [fst]; [|reflexivity].
  apply w_get_w_set_other. exact Hne.
Qed.

Lemma model_frame_run : forall foam target ops w p, p <> target ->
  w_get p (writer_run foam w target ops) = w_get p w.
Proof.
  intros foam target. unfold writer_run. induction ops as [|op ops IH]; intros w p Hne; [reflexivity|].
  cbn [fold_left]. rewrite IH by exact Hne. apply model_frame_step. exact Hne.
Qed.

Lemma model_frame : forall foam w target p, p <> target ->
  (forall ap d, w_get p (fst (writer_write foam w target ap d)) = w_get p w) /\
  (forall ops, w_get p (writer_run foam w target ops) = w_get p w).
Proof.
  intros foam w target p Hne. split.
  - intros ap d. apply model_frame_step. exact Hne.
  - intros ops. apply model_frame_run. exact Hne.
Qed.

Lemma model_no_clobber : forall foam w target ap d e,
  snd (writer_write foam w target ap d) = Raise e -> fst (writer_write foam w target ap d) = w.
Proof.
  intros foam w target ap d e H.
  destruct (writer_write_cases foam w target ap d) as [[txt [_ E]]|[e' [_ E]]]; rewrite E in *; cbn [fst snd] in *;
    [discriminate H | reflexivity].
Qed.

Lemma writer_write_snd : forall foam w target ap d,
  snd (writer_write foam w target ap d) = write_text foam target (w_get target w) ap d.
Proof.
  intros foam w target ap d.
  destruct (writer_write_cases foam w target ap d) as [[txt [E0 E]]|[e [E0 E]]]; rewrite E, E0; reflexivity.
Qed.

Lemma write_text_overwrite_indep : forall foam path ex1 ex2 d,
  write_text foam path ex1 false d = write_text foam path ex2 false d.
Proof.
  intros foam path ex1 ex2 d. rewrite !write_text_unfold.
  destruct (parse_values_tree (Dict d)) as [t|e]; cbn [bind]; [|reflexivity].
  destruct ex1, ex2; reflexivity.
Qed.

Lemma model_target : forall foam w target ap d,
  (forall txt, snd (writer_write foam w target ap d) = Ok txt ->
     w_get target (fst (writer_write foam w target ap d)) = Some txt) /\
  (forall w', w_get target w' = w_get target w ->
     snd (writer_write foam w' target ap d) = snd (writer_write foam w target ap d)) /\
  (forall w', snd (writer_write foam w' target false d) = snd (writer_write foam w target false d)).
Proof.
  intros foam w target ap d. split; [|split].
  - intros txt H.
    destruct (writer_write_cases foam w target ap d) as [[txt' [_ E]]|[e [_ E]]]; rewrite E in *; cbn [fst snd] in *;
      [|discriminate H].
    injection H as H. subst txt'. apply w_get_w_set_same.
  - intros w' Hw. rewrite !writer_write_snd, Hw. reflexivity.
  - intros w'. rewrite !writer_write_snd. apply write_text_overwrite_indep.
Qed.

Lemma model_domain_step : forall foam w target ap d,
  map fst (fst (writer_write foam w target ap d)) =
  match w_get target w, snd (writer_write foam w target ap d) with
  | None, Ok _ => map fst w ++ [target]
  | _, _ => map fst w
  end.
Proof.
  intros foam w target ap d.
  destruct (writer_write_cases foam w target ap d) as [[txt [_ E]]|[e [_ E]]]; rewrite E; cbn [fst snd].
  - rewrite map_fst_w_set. destruct (w_get target w); reflexivity.
  - destruct (w_get target w); reflexivity.
Qed.

Lemma model_domain : forall foam w target ap d,
  map fst (fst (writer_write foam w target ap d)) = map fst w \/
  (w_get target w = None /\ map fst (fst (writer_write foam w target ap d)) = map fst w ++ [target]).
Proof.
  intros foam w target ap d. rewrite model_domain_step.
  destruct (w_get target w) as [t|]; [left; reflexivity|].
  destruct (snd (writer_write foam w target ap d)); [right; split; reflexivity | left; reflexivity].
Qed.

Lemma model_domain_run : forall foam target ops w,
  map fst (writer_run foam w target ops) = map fst w \/
  (w_get target w = None /\ map fst (writer_run foam w target ops) = map fst w ++ [target]).
Proof.
  intros foam target. unfold writer_run. induction ops as [|[ap d] ops IH]; intro w; [left; reflexivity|].
  cbn [fold_left fst snd].
  destruct (IH (fst (writer_write foam w target ap d))) as [E|[En E]];
    destruct (model_domain foam w target ap d) as [E1|[En1 E1]].
  - left. rewrite E, E1. reflexivity.
  - right. split; [exact En1|]. rewrite E, E1. reflexivity.
  - right. split.
    + destruct (w_get target w) as [t|] eqn:Et; [|reflexivity]. exfalso.
      destruct (writer_write_cases foam w target ap d) as [[txt [_ Ew]]|[e [_ Ew]]]; rewrite Ew in En; cbn [fst] in En.
      * rewrite w_get_w_set_same in En. discriminate En.
      * rewrite Et in En. discriminate En.
    + rewrite E, E1. reflexivity.
  - exfalso.
    destruct (writer_write_cases foam w target ap d) as [[txt [_ Ew]]|[e [_ Ew]]]; rewrite Ew in *; cbn [fst] in *.
    + rewrite w_get_w_set_same in En. discriminate En.
    + apply (f_equal (@length str)) in E1. rewrite app_length in E1. cbn [length] in E1. lia.
Qed.

Lemma model_domain_both : forall foam w target,
  (forall ap d, map fst (fst (writer_write foam w target ap d)) = map fst w \/
                (w_get target w = None /\ map fst (fst (writer_write foam w target ap d)) = map fst w ++ [target])) /\
  (forall ops, map fst (writer_run foam w target ops) = map fst w \/
               (w_get target w = None /\ map fst (writer_run foam w target ops) = map fst w ++ [target])).
Proof.
  intros foam w target. split; [intros ap d; apply model_domain | intros ops; apply model_domain_run].
Qed.
