(* Proofs for C18: relative paths, highest common root, include directive round trip. *)
From Coq Require Export String.  (* the Properties files write constants with of_string "..." *)
From Coq Require Import NArith ZArith List Bool Lia.
From DictIO Require Import Chars Str Value Scalar KeyPath SDict Layout Lexer Reader Paths TreeSpec NativeSpec MiscSpec.
From DictIO Require Import ScalarProofs QuoteProofs.
Import ListNotations.
Open Scope N_scope.

(* ---- prefixes ----------------------------------------------------------------------------------- *)

Lemma strip_prefix_app : forall (p l rest : list (list N)), strip_prefix p l = Some rest -> l = p ++ rest.
Proof.
  induction p as [|x p IH]; intros l rest H.
  - cbn in H. injection H as <-. reflexivity.
  - destruct l as [|y l]; cbn [strip_prefix] in H; [discriminate|].
    destruct (str_eqb x y) eqn:E; [|discriminate].
    apply ScalarProofs.str_eqb_eq in E. subst y.
    cbn [app]. f_equal. apply IH. exact H.
Qed.

Lemma common_prefix_split : forall (a b : list (list N)),
  exists ta tb, a = common_prefix a b ++ ta /\ b = common_prefix a b ++ tb.
Proof.
  induction a as [|x a IH]; intros b.
  - exists [], b. split; reflexivity.
  - destruct b as [|y b].
    + exists (x :: a), []. split; reflexivity.
    + cbn [common_prefix]. destruct (str_eqb x y) eqn:E.
      * apply ScalarProofs.str_eqb_eq in E. subst y.
        destruct (IH b) as (ta & tb & Ha & Hb).
        exists ta, tb. cbn [app]. split; f_equal; assumption.
      * exists (x :: a), (y :: b). split; reflexivity.
Qed.

Lemma drop_n_app_length {A} (a b : list A) : drop_n (length a) (a ++ b) = b.
Proof. induction a as [|x a IH]; [destruct b; reflexivity|]. cbn [length app drop_n]. exact IH. Qed.

(* ---- norm_join ---------------------------------------------------------------------------------- *)

Lemma norm_join_app (base r1 r2 : list (list N)) : norm_join base (r1 ++ r2) = norm_join (norm_join base r1) r2.
Proof. unfold norm_join. apply fold_left_app. Qed.

Lemma norm_join_nodots : forall (r base : list (list N)), nodots r -> norm_join base r = base ++ r.
Proof.
  induction r as [|c r IH]; intros base H.
  - cbn. rewrite app_nil_r. reflexivity.
  - inversion H as [|c' r' Hc Hr]; subst.
    unfold norm_join. cbn [fold_left]. rewrite Hc.
    change (fold_left _ r (base ++ [c])) with (norm_join (base ++ [c]) r).
    rewrite (IH _ Hr). rewrite <- app_assoc. reflexivity.
Qed.

Lemma norm_join_dotdots : forall (tf c : list (list N)), norm_join (c ++ tf) (repeat dotdot (length tf)) = c.
Proof.
  induction tf as [|x tf IH] using rev_ind; intros c.
  - cbn. rewrite app_nil_r. reflexivity.
  - rewrite app_length. cbn [length]. replace (length tf + 1)%nat with (S (length tf)) by lia.
    cbn [repeat]. unfold norm_join. cbn [fold_left].
    replace (str_eqb dotdot dotdot) with true by reflexivity.
    rewrite app_assoc. rewrite removelast_last.
    apply IH.
Qed.

Lemma nodots_app_r (a b : list (list N)) : nodots (a ++ b) -> nodots b.
Proof. unfold nodots. intros H. apply Forall_app in H. apply H. Qed.

Lemma rel_join : forall from to, nodots from -> nodots to -> norm_join from (relative_path from to) = to.
Proof.
  intros from to Hf Ht. unfold relative_path.
  destruct (strip_prefix from to) as [rest|] eqn:E.
  - apply strip_prefix_app in E. subst to.
    apply norm_join_nodots. exact (nodots_app_r _ _ Ht).
  - destruct (common_prefix_split from to) as (tf & tt & Ha & Hb).
    set (c := common_prefix from to) in *.
    assert (Hlen : (length from - length c)%nat = length tf).
    { rewrite Ha at 1. rewrite app_length. lia. }
    rewrite Hlen.
    assert (Hdrop : drop_n (length c) to = tt).
    { rewrite Hb at 1. apply drop_n_app_length. }
    rewrite Hdrop. rewrite norm_join_app.
    rewrite Ha at 1. rewrite norm_join_dotdots.
    rewrite norm_join_nodots.
    + symmetry. exact Hb.
    + rewrite Hb in Ht. exact (nodots_app_r _ _ Ht).
Qed.

(* ---- highest common root ------------------------------------------------------------------------ *)

Lemma is_prefix_refl : forall a : list (list N), is_prefix a a = true.
Proof. induction a as [|x a IH]; cbn [is_prefix]; [reflexivity|]. rewrite ScalarProofs.str_eqb_refl, IH. reflexivity. Qed.

Lemma is_prefix_trans : forall a b c : list (list N), is_prefix a b = true -> is_prefix b c = true -> is_prefix a c = true.
Proof.
  induction a as [|x a IH]; intros b c H1 H2; [reflexivity|].
  destruct b as [|y b]; cbn [is_prefix] in H1; [discriminate|].
  destruct c as [|z c]; cbn [is_prefix] in H2; [discriminate|].
  apply andb_true_iff in H1. destruct H1 as [E1 P1].
  apply andb_true_iff in H2. destruct H2 as [E2 P2].
  apply ScalarProofs.str_eqb_eq in E1. apply ScalarProofs.str_eqb_eq in E2. subst.
  cbn [is_prefix]. rewrite ScalarProofs.str_eqb_refl. cbn [andb]. exact (IH _ _ P1 P2).
Qed.

Lemma common_prefix_l : forall a b : list (list N), is_prefix (common_prefix a b) a = true.
Proof.
  induction a as [|x a IH]; intros b; [reflexivity|].
  destruct b as [|y b]; [reflexivity|]. cbn [common_prefix].
  destruct (str_eqb x y) eqn:E; [|reflexivity].
  cbn [is_prefix]. rewrite ScalarProofs.str_eqb_refl. cbn [andb]. apply IH.
Qed.

Lemma common_prefix_r : forall a b : list (list N), is_prefix (common_prefix a b) b = true.
Proof.
  induction a as [|x a IH]; intros b; [reflexivity|].
  destruct b as [|y b]; [reflexivity|]. cbn [common_prefix].
  destruct (str_eqb x y) eqn:E; [|reflexivity].
  cbn [is_prefix]. rewrite E. cbn [andb]. apply IH.
Qed.

Lemma common_prefix_glb : forall p a b : list (list N),
  is_prefix p a = true -> is_prefix p b = true -> is_prefix p (common_prefix a b) = true.
Proof.
  induction p as [|x p IH]; intros a b H1 H2; [reflexivity|].
  destruct a as [|y a]; cbn [is_prefix] in H1; [discriminate|].
  destruct b as [|z b]; cbn [is_prefix] in H2; [discriminate|].
  apply andb_true_iff in H1. destruct H1 as [E1 P1].
  apply andb_true_iff in H2. destruct H2 as [E2 P2].
  apply ScalarProofs.str_eqb_eq in E1. apply ScalarProofs.str_eqb_eq in E2. subst.
  cbn [common_prefix]. rewrite ScalarProofs.str_eqb_refl.
  cbn [is_prefix]. rewrite ScalarProofs.str_eqb_refl. cbn [andb]. exact (IH _ _ P1 P2).
Qed.

Lemma fold_cp_acc : forall (l : list (list (list N))) a, is_prefix (fold_left common_prefix l a) a = true.
Proof.
  induction l as [|y l IH]; intros a; cbn [fold_left].
  - apply is_prefix_refl.
  - apply (is_prefix_trans _ (common_prefix a y)); [apply IH|apply common_prefix_l].
Qed.

Lemma fold_cp_in : forall (l : list (list (list N))) a x, In x l -> is_prefix (fold_left common_prefix l a) x = true.
Proof.
  induction l as [|y l IH]; intros a x Hin; [contradiction|].
  cbn [fold_left]. destruct Hin as [->|Hin].
  - apply (is_prefix_trans _ (common_prefix a x)); [apply fold_cp_acc|apply common_prefix_r].
  - apply IH. exact Hin.
Qed.

Lemma fold_cp_glb : forall (l : list (list (list N))) a p, is_prefix p a = true ->
  (forall x, In x l -> is_prefix p x = true) -> is_prefix p (fold_left common_prefix l a) = true.
Proof.
  induction l as [|y l IH]; intros a p Ha Hl; cbn [fold_left]; [exact Ha|].
  apply IH.
  - apply common_prefix_glb; [exact Ha|apply Hl; left; reflexivity].
  - intros x Hx. apply Hl. right. exact Hx.
Qed.

Lemma hcr_ancestor : forall l x, In x l -> is_prefix (common_prefix_all l) x = true.
Proof.
  intros [|a l] x Hin; [contradiction|].
  unfold common_prefix_all. destruct Hin as [->|Hin].
  - apply fold_cp_acc.
  - apply fold_cp_in. exact Hin.
Qed.

Lemma hcr_deepest : forall l p, l <> [] -> (forall x, In x l -> is_prefix p x = true) ->
  is_prefix p (common_prefix_all l) = true.
Proof.
  intros [|a l] p Hne H; [congruence|].
  unfold common_prefix_all. apply fold_cp_glb.
  - apply H. left. reflexivity.
  - intros x Hx. apply H. right. exact Hx.
Qed.

(* ---- include directive round trip --------------------------------------------------------------- *)

Lemma include_line_rest_directive (x : list N) : include_line_rest (of_string "#include " ++ x) = Some (c_sp :: x).
Proof. reflexivity. Qed.

Lemma strip_edges (a : list N) : hd_not is_space a -> hd_not is_space (rev a) -> strip a = a.
Proof.
  intros H1 H2. unfold strip, rstrip. rewrite (lstrip_hd a H1). rewrite (lstrip_hd _ H2). apply rev_involutive.
Qed.

Lemma strip_wrapped (q : N) (s : list N) : is_space q = false -> strip (q :: s ++ [q]) = q :: s ++ [q].
Proof.
  intros Hq. apply strip_edges.
  - exact Hq.
  - change (q :: s ++ [q]) with ((q :: s) ++ [q]). rewrite rev_app_distr. exact Hq.
Qed.

Lemma include_name_sp (x : list N) : include_name_of (c_sp :: x) = remove_quotes (strip x).
Proof. reflexivity. Qed.

Lemma bare_nospace (s : list N) :
  forallb (fun c => negb (is_struct_char c || is_quote c)) s = true ->
  Forall (fun c => is_space c = false) s /\ noquote s.
Proof.
  intros H. rewrite forallb_forall in H. unfold noquote. split; apply Forall_forall; intros c Hc.
  - specialize (H c Hc). apply negb_true_iff in H. apply orb_false_iff in H. destruct H as [H _].
    destruct (is_space c) eqn:Es; [|reflexivity].
    unfold is_struct_char in H. rewrite Es in H. cbn [orb] in H. discriminate.
  - specialize (H c Hc). apply negb_true_iff in H. apply orb_false_iff in H. apply H.
Qed.

Lemma strip_nospace (s : list N) : Forall (fun c => is_space c = false) s -> strip s = s.
Proof.
  intros H. apply strip_edges.
  - apply (Forall_hd_not (fun c => is_space c = false)); [auto|exact H].
  - apply (Forall_hd_not (fun c => is_space c = false)); [auto|apply Forall_rev; exact H].
Qed.

Lemma directive_roundtrip : forall n, has_char c_dollar n = false -> (has_char c_sq n && has_char c_dq n) = false ->
  directive_name (of_string "#include " ++ format_string n) = Some n.
Proof.
  intros n Hd Hq. unfold directive_name. rewrite include_line_rest_directive. f_equal.
  rewrite include_name_sp.
  destruct (format_string_choice n Hd Hq) as [[E _]|[[E _]|[E [_ Hb]]]]; rewrite E.
  - unfold sq. rewrite strip_wrapped by reflexivity. apply remove_quotes_wrapped. reflexivity.
  - unfold dq. rewrite strip_wrapped by reflexivity. apply remove_quotes_wrapped. reflexivity.
  - destruct (bare_nospace n Hb) as [Hs Hnq].
    rewrite strip_nospace by exact Hs. apply remove_quotes_noquote. exact Hnq.
Qed.
