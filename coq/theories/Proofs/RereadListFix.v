(* LIST VERSION of RereadFix.v: the same development over the event stream of RereadListTree.v, which enters lists
   (comment entries inside dicts that are list items, at any nesting).  Statements and proofs are those of RereadFix.v
   with the cases of the list skeleton events (ELOpen / EIOpen / EDOpen / ELEnd) added and the tree recursions entering
   lists; see RereadList.v for the interface. *)
(* C03 / C12 on documents with comments, part 8: the fixed point.
   The SDict returned by the reader for a written text is itself re-readable; its canonical document is the one that
   was written, leaves read back; writing it reproduces the text byte for byte from the second cycle on. *)
From Coq Require Import String.
From Coq Require Import NArith ZArith List Bool Lia ZifyBool ZifyN ZifyNat Permutation.
From DictIO Require Import Chars Str Value Scalar KeyPath SDict Layout Lexer TokParser TreeSpec NativeSpec LayoutSpec E2ESpec.
From DictIO Require ScalarProofs SDictProofs TokProofs LayoutProofs SemProofs QuoteProofs KeyPathProofs RereadPlain.
From DictIO Require Import E2EProofs E2EHoles E2EInsert E2EKeyTok E2EFullProofs RereadStr RereadListTree RereadListWrite RereadListLex RereadListParse RereadListNum RereadListProofs.
Import ListNotations.
Import LayoutProofs.
Open Scope N_scope.

(* ================================================================================================ *)
(* 1. boolean checks from their specifications                                                      *)
(* ================================================================================================ *)

Lemma NoDup_nodupb l : NoDup l -> nodupb l = true.
Proof.
  induction 1 as [|x l Hx _ IH]; [reflexivity|]. cbn [nodupb]. rewrite IH, andb_true_r. apply negb_true_iff.
  destruct (existsb (str_eqb x) l) eqn:E; [|reflexivity]. exfalso. apply existsb_exists in E. destruct E as (y & Hy & Ey).
  apply SDictProofs.str_eqb_eq in Ey. subst y. exact (Hx Hy).
Qed.

Lemma NoDup_nodupN l : NoDup l -> nodupN l = true.
Proof.
  induction 1 as [|x l Hx _ IH]; [reflexivity|]. cbn [nodupN]. rewrite IH, andb_true_r. apply negb_true_iff.
  destruct (existsb (N.eqb x) l) eqn:E; [|reflexivity]. exfalso. apply existsb_exists in E. destruct E as (y & Hy & Ey).
  apply N.eqb_eq in Ey. subst y. exact (Hx Hy).
Qed.

Lemma tab_ok_of {V} (tab : list (N * V)) : NoDup (map fst tab) -> (forall i v, In (i, v) tab -> i < 1000000) -> tab_ok tab = true.
Proof.
  intros H1 H2. unfold tab_ok. rewrite (NoDup_nodupN _ H1). cbn [andb]. apply forallb_forall. intros [i v] Hin. cbn [fst]. apply N.ltb_lt. exact (H2 i v Hin).
Qed.

(* ================================================================================================ *)
(* 2. sorted documents with a header                                                                *)
(* ================================================================================================ *)

Lemma filter_filter_same {A} (p : A -> bool) l : filter p (filter p l) = filter p l.
Proof. induction l as [|x l IH]; [reflexivity|]. cbn [filter]. destruct (p x) eqn:E; cbn [filter]; rewrite ?E, IH; reflexivity. Qed.
Lemma filter_filter_neg {A} (p : A -> bool) l : filter p (filter (fun x => negb (p x)) l) = [].
Proof. induction l as [|x l IH]; [reflexivity|]. cbn [filter]. destruct (p x) eqn:E; cbn [negb filter]; rewrite ?E, IH; reflexivity. Qed.
Lemma filter_neg_filter {A} (p : A -> bool) l : filter (fun x => negb (p x)) (filter p l) = [].
Proof. induction l as [|x l IH]; [reflexivity|]. cbn [filter]. destruct (p x) eqn:E; cbn [negb filter]; rewrite ?E; cbn [negb]; exact IH. Qed.
Lemma filter_neg_neg {A} (p : A -> bool) l : filter (fun x => negb (p x)) (filter (fun x => negb (p x)) l) = filter (fun x => negb (p x)) l.
Proof. apply filter_filter_same. Qed.

Lemma csort_idem c : csort (csort c) = csort c.
Proof.
  unfold csort. rewrite !filter_app, filter_filter_same, filter_filter_neg, filter_neg_filter, filter_neg_neg, app_nil_r. reflexivity.
Qed.

Lemma hdr_entry_bc : is_bc_entry hdr_entry = true.
Proof. reflexivity. Qed.

Lemma has_header_bc c : has_header c = true -> exists kc l, c = kc :: l /\ is_bc_entry kc = true.
Proof.
  destruct c as [|kc l]; [discriminate|]. cbn [has_header]. intros H. exists kc, l. split; [reflexivity|]. unfold is_bc_entry.
  destruct (cm_entry kc) as [[n x]|]; [|discriminate H]. apply andb_true_iff in H. exact (proj1 H).
Qed.

Lemma hdr_sorted c : csort (hdr c) = hdr c /\ has_header (hdr c) = true.
Proof.
  unfold hdr. destruct (has_header (csort c)) eqn:E.
  - split; [apply csort_idem|exact E].
  - split; [|exact (proj1 (proj2 nh_good))]. unfold csort at 1. cbn [filter]. rewrite hdr_entry_bc. cbn [negb app].
    pose proof (csort_idem c) as H. unfold csort at 1 in H. rewrite H. reflexivity.
Qed.

Lemma hdr_fix c : csort c = c -> has_header c = true -> hdr c = c.
Proof. intros H1 H2. unfold hdr. rewrite H1, H2. reflexivity. Qed.

(* ================================================================================================ *)
(* 3. the document with its leaves read back                                                        *)
(* ================================================================================================ *)

Lemma cshapeT_cmapg gn gx : (forall n x, is_cm n = true -> is_cm (gn n x) = true) ->
  forall t, cshapeT t = true -> cshapeT (cmapg (gkv gn gx) written_value t) = true.
Proof.
  intros Hgn. induction t as [v|kvs IH|ts IH] using tree_ind'; intros H.
  - exact (RereadPlain.written_value_closed v H).
  - rewrite cmapg_dict. induction IH as [|[k c] kvs Hc _ IHk]; [reflexivity|].
    rewrite cshapeT_cons in H. apply andb_true_iff in H. destruct H as [H1 H2]. cbn [map]. rewrite cshapeT_cons, (IHk H2), andb_true_r.
    cbn [snd] in Hc. unfold cshape_entry, cmap_entry in *. destruct (cm_entry (k, c)) as [[n x]|] eqn:Ec.
    + destruct (cm_entry_inv _ _ _ Ec) as [_ Hn]. unfold gkv. cbn [cm_entry]. rewrite (Hgn n x Hn). reflexivity.
    + cbn [fst snd] in *. apply andb_true_iff in H1. destruct H1 as [Hs Hcs]. rewrite (cm_entry_simple k _ Hs), Hs. cbn [snd andb]. exact (Hc Hcs).
  - rewrite cmapg_lst. induction IH as [|c l Hc _ IHl]; [reflexivity|].
    rewrite cshapeT_lst_cons in H. apply andb_true_iff in H. destruct H as [H1 H2]. cbn [map]. rewrite cshapeT_lst_cons, (Hc H1), (IHl H2). reflexivity.
Qed.
Lemma cshape_cmapg gn gx : (forall n x, is_cm n = true -> is_cm (gn n x) = true) ->
  forall t, cshape t = true -> cshape (cmapg (gkv gn gx) written_value t) = true.
Proof.
  intros Hgn t H. destruct t as [v|kvs|ts]; try discriminate H. pose proof (cshapeT_cmapg gn gx Hgn (Dict kvs) H) as G.
  rewrite cmapg_dict in *. exact G.
Qed.

(* the ordinary data of a well-shaped document is in the writer domain *)
Lemma ktree_cstrip : forall t, cshapeT t = true -> ktree writable_leaf (cstrip t) = true.
Proof.
  induction t as [v|kvs IH|ts IH] using tree_ind'; intros Hs.
  - exact Hs.
  - rewrite cstrip_dict. revert Hs. induction IH as [|[k c'] kvs Hc _ IHk]; intros Hs; [reflexivity|].
    rewrite cshapeT_cons in Hs. apply andb_true_iff in Hs. destruct Hs as [Hs1 Hs2]. cbn [flat_map]. unfold cstrip_entry, cshape_entry in *.
    destruct (cm_entry (k, c')) as [[n x]|]; [exact (IHk Hs2)|]. cbn [fst snd app] in *. apply andb_true_iff in Hs1. destruct Hs1 as [Hk Hc1].
    rewrite ktree_dict_cons, Hk, (IHk Hs2), andb_true_r. cbn [andb]. exact (Hc Hc1).
  - rewrite cstrip_lst. revert Hs. induction IH as [|c l Hc _ IHl]; intros Hs; [reflexivity|].
    rewrite cshapeT_lst_cons in Hs. apply andb_true_iff in Hs. destruct Hs as [Hs1 Hs2]. cbn [map]. rewrite ktree_lst_cons, (Hc Hs1), (IHl Hs2). reflexivity.
Qed.

Lemma keep_cm n x : is_cm n = true -> is_cm (keepn n x) = true.
Proof. intros H. exact H. Qed.

Lemma cwv_tree c : Dict (cwv c) = cmapg (gkv keepn keepx) written_value (Dict c).
Proof. unfold cwv. rewrite cmapg_dict. reflexivity. Qed.

Lemma cms_of_keep f es : cms_of (map (ev_map keepn keepx f) es) = cms_of es.
Proof. induction es as [|e es IH]; [reflexivity|]. cbn [map]. destruct e; cbn [ev_map cms_of ev_cm]; rewrite IH; reflexivity. Qed.

Lemma cwv_events c lvl : cshape (Dict c) = true ->
  events lvl (Dict (cwv c)) = map (ev_map keepn keepx written_value) (events lvl (Dict c)).
Proof. intros H. rewrite cwv_tree. apply cmapg_events; [exact keep_cm|exact H]. Qed.

Lemma cwv_ok c : cdoc_ok c = true -> cdoc_ok (cwv c) = true.
Proof.
  intros H. destruct (cdoc_ok_inv c H) as (Hs & Hw & Hq & Hcm & Hl & Hb). unfold cdoc_ok.
  assert (E1 : cshape (Dict (cwv c)) = true) by (rewrite cwv_tree; apply cshape_cmapg; [exact keep_cm|exact Hs]).
  assert (E2 : cstrip (Dict (cwv c)) = map_leaves written_value (cstrip (Dict c))) by (rewrite cwv_tree; apply cstrip_cmapg; [exact keep_cm|exact Hs]).
  assert (E3 : cms (Dict (cwv c)) = cms (Dict c)) by (unfold cms; rewrite (cwv_events c 0 Hs); apply cms_of_keep).
  assert (Hk : ktree writable_leaf (cstrip (Dict c)) = true) by (apply ktree_cstrip; exact Hs).
  destruct (RereadPlain.wvt_facts (cstrip (Dict c)) Hk) as (_ & _ & _ & F4).
  rewrite E1, E2, wf_map_leaves, Hw, (F4 11%nat Hq), E3, Hcm. unfold lc_texts, bc_texts. rewrite E3. cbn [andb].
  unfold lc_list, bc_list in Hl, Hb. rewrite lcx_texts in Hl. rewrite bcx_texts in Hb.
  unfold cms. rewrite (NoDup_nodupb _ Hl), (NoDup_nodupb _ Hb). reflexivity.
Qed.

Lemma cwv_is_bc kc : cshape_entry kc = true -> is_bc_entry (cmap_entry (gkv keepn keepx) written_value kc) = is_bc_entry kc.
Proof.
  intros H. unfold cmap_entry, is_bc_entry, cshape_entry in *. destruct (cm_entry kc) as [[n x]|] eqn:Ec.
  - destruct (cm_entry_inv _ _ _ Ec) as [_ Hn]. unfold gkv, keepn, keepx. cbn [cm_entry]. rewrite Hn. reflexivity.
  - apply andb_true_iff in H. destruct H as [Hk _]. rewrite (cm_entry_simple _ _ Hk). reflexivity.
Qed.

Lemma cwv_sorted c : cshape (Dict c) = true -> csort c = c -> csort (cwv c) = cwv c.
Proof.
  intros Hs H. unfold cwv. rewrite cmapg_dict. cbn [kvs_of]. unfold csort. rewrite !filter_map_comm, <- map_app.
  rewrite cshape_forallb, forallb_forall in Hs.
  rewrite (filter_ext_in _ is_bc_entry c) by (intros kc Hin; apply cwv_is_bc; exact (Hs kc Hin)).
  rewrite (filter_ext_in (fun x => negb (is_bc_entry (cmap_entry (gkv keepn keepx) written_value x))) (fun x => negb (is_bc_entry x)) c)
    by (intros kc Hin; rewrite (cwv_is_bc kc (Hs kc Hin)); reflexivity).
  fold (csort c). rewrite H. reflexivity.
Qed.

Lemma cwv_header c : cshape (Dict c) = true -> has_header (cwv c) = has_header c.
Proof.
  intros Hs. unfold cwv. rewrite cmapg_dict. cbn [kvs_of]. destruct c as [|kc l]; [reflexivity|]. cbn [map has_header].
  rewrite cshape_cons in Hs. apply andb_true_iff in Hs. destruct Hs as [Hs1 _]. unfold cmap_entry, cshape_entry in *.
  destruct (cm_entry kc) as [[n x]|] eqn:Ec.
  - destruct (cm_entry_inv _ _ _ Ec) as [_ Hn]. unfold gkv, keepn, keepx. cbn [cm_entry]. rewrite Hn. reflexivity.
  - apply andb_true_iff in Hs1. destruct Hs1 as [Hk _]. rewrite (cm_entry_simple _ _ Hk). reflexivity.
Qed.

Lemma cwv_idem : forall t, cshapeT t = true ->
  cmapg (gkv keepn keepx) written_value (cmapg (gkv keepn keepx) written_value t) = cmapg (gkv keepn keepx) written_value t.
Proof.
  induction t as [v|kvs IH|ts IH] using tree_ind'; intros H.
  - cbn [cmapg cshapeT] in *. rewrite (RereadPlain.written_value_idem v H). reflexivity.
  - rewrite !cmapg_dict. apply (f_equal Dict).
    etransitivity; [apply List.map_map|]. revert H. induction IH as [|[k c] kvs Hc _ IHk]; intros H; [reflexivity|].
    rewrite cshapeT_cons in H. apply andb_true_iff in H. destruct H as [H1 H2]. cbn [map]. rewrite (IHk H2). f_equal. cbn [snd] in Hc.
    unfold cshape_entry in H1. unfold cmap_entry at 2 3. destruct (cm_entry (k, c)) as [[n x]|] eqn:Ec.
    + destruct (cm_entry_inv _ _ _ Ec) as [_ Hn]. unfold gkv, keepn, keepx. unfold cmap_entry. cbn [cm_entry]. rewrite Hn. reflexivity.
    + cbn [fst snd] in *. apply andb_true_iff in H1. destruct H1 as [Hk Hc1]. unfold cmap_entry. rewrite (cm_entry_simple k _ Hk). cbn [fst snd].
      f_equal. exact (Hc Hc1).
  - rewrite !cmapg_lst. apply (f_equal Lst). etransitivity; [apply List.map_map|].
    revert H. induction IH as [|c l Hc _ IHl]; intros H; [reflexivity|].
    rewrite cshapeT_lst_cons in H. apply andb_true_iff in H. destruct H as [H1 H2]. cbn [map]. rewrite (Hc H1), (IHl H2). reflexivity.
Qed.

Lemma cwv_cwv c : cshape (Dict c) = true -> cwv (cwv c) = cwv c.
Proof.
  intros H. unfold cwv at 1 3. rewrite cwv_tree, (cwv_idem (Dict c) H). reflexivity.
Qed.

(* ================================================================================================ *)
(* 4. the re-read SDict is re-readable                                                              *)
(* ================================================================================================ *)

Lemma lcx_ok es : Forall ev_src es -> forall x, In x (lcx es) -> lc_ok x = true.
Proof.
  induction 1 as [|e es He _ IH]; intros x Hx; [destruct Hx|]. destruct e as [l k v|l k|l|l n y|l k|l len idx first run|l len idx first run|l anc len idx first run]; cbn [lcx] in Hx; try exact (IH x Hx).
  cbn [ev_src] in He. destruct (str_eqb n w_LINECOMMENT) eqn:En; [|exact (IH x Hx)]. apply SDictProofs.str_eqb_eq in En. subst n.
  destruct Hx as [<-|Hx]; [|exact (IH x Hx)]. destruct He as [[_ H]|[E _]]; [exact H|discriminate E].
Qed.
Lemma bcx_ok es : Forall ev_src es -> forall x, In x (bcx es) -> bc_ok x = true.
Proof.
  induction 1 as [|e es He _ IH]; intros x Hx; [destruct Hx|]. destruct e as [l k v|l k|l|l n y|l k|l len idx first run|l len idx first run|l anc len idx first run]; cbn [bcx] in Hx; try exact (IH x Hx).
  cbn [ev_src] in He. destruct (str_eqb n w_BLOCKCOMMENT) eqn:En; [|exact (IH x Hx)]. apply SDictProofs.str_eqb_eq in En. subst n.
  destruct Hx as [<-|Hx]; [|exact (IH x Hx)]. destruct He as [[E _]|[_ H]]; [discriminate E|exact H].
Qed.

Section Closure.
  Variable ltab btab : list (N * str).
  Hypothesis HLnd : NoDup (map fst ltab).
  Hypothesis HBnd : NoDup (map fst btab).
  Hypothesis HLlt : forall i x, In (i, x) ltab -> i < 1000000.
  Hypothesis HBlt : forall i x, In (i, x) btab -> i < 1000000.
  Notation gx := (numx ltab btab).

  Lemma gx_cm n x : is_cm n = true -> is_cm (gx n x) = true.
  Proof.
    intros _. destruct (gx_cases ltab btab n x) as (w & i & Hw & ->). destruct (cw_facts w Hw) as (_ & _ & Hcc).
    unfold is_cm, placeholder. apply contains_app_l. exact Hcc.
  Qed.

  (* the names of the numbered comment events *)
  Lemma names_in f es nm : In nm (map cm_name (cms_of (map (ev_map gx gx f) es))) ->
    Forall ev_src es -> (exists y, In y (lcx es) /\ nm = lph (rlookup y ltab)) \/ (exists y, In y (bcx es) /\ nm = bph (rlookup y btab)).
  Proof.
    induction es as [|e es IH]; intros Hin Hsrc; [destruct Hin|]. inversion Hsrc as [|e' es' He Hes]; subst.
    destruct e as [l k v|l k|l|l n y|l k|l len idx first run|l len idx first run|l anc len idx first run]; cbn [map ev_map cms_of ev_cm lcx bcx] in *;
      try (destruct (IH Hin Hes) as [(z & Hz & E)|(z & Hz & E)]; [left|right]; exists z; split; assumption).
    cbn [map cm_name fst snd] in Hin. cbn [ev_src] in He. destruct He as [[-> _]|[-> _]].
    - replace (str_eqb w_LINECOMMENT w_LINECOMMENT) with true by reflexivity. replace (str_eqb w_LINECOMMENT w_BLOCKCOMMENT) with false by reflexivity.
      destruct Hin as [<-|Hin]; [left; exists y; split; [left; reflexivity|reflexivity]|].
      destruct (IH Hin Hes) as [(z & Hz & E)|(z & Hz & E)]; [left; exists z; split; [right; exact Hz|exact E]|right; exists z; split; assumption].
    - replace (str_eqb w_BLOCKCOMMENT w_LINECOMMENT) with false by reflexivity. replace (str_eqb w_BLOCKCOMMENT w_BLOCKCOMMENT) with true by reflexivity.
      destruct Hin as [<-|Hin]; [right; exists y; split; [left; reflexivity|reflexivity]|].
      destruct (IH Hin Hes) as [(z & Hz & E)|(z & Hz & E)]; [left; exists z; split; assumption|right; exists z; split; [right; exact Hz|exact E]].
  Qed.

  Lemma names_nodup f es : Forall ev_src es -> NoDup (lcx es) -> NoDup (bcx es) ->
    (forall x, In x (lcx es) -> inb x ltab = true) -> (forall x, In x (bcx es) -> inb x btab = true) ->
    NoDup (map cm_name (cms_of (map (ev_map gx gx f) es))).
  Proof.
    induction es as [|e es IH]; intros Hsrc Hl Hb Hil Hib; [constructor|]. inversion Hsrc as [|e' es' He Hes]; subst.
    destruct e as [l k v|l k|l|l n y|l k|l len idx first run|l len idx first run|l anc len idx first run]; cbn [map ev_map cms_of ev_cm lcx bcx] in *; try exact (IH Hes Hl Hb Hil Hib).
    cbn [map cm_name fst snd]. cbn [ev_src] in He. destruct He as [[-> _]|[-> _]].
    - replace (str_eqb w_LINECOMMENT w_LINECOMMENT) with true in * by reflexivity. replace (str_eqb w_LINECOMMENT w_BLOCKCOMMENT) with false in * by reflexivity.
      inversion Hl as [|z zs Hy Hl']; subst. constructor; [|exact (IH Hes Hl' Hb (fun x H => Hil x (or_intror H)) Hib)].
      intros Hin. destruct (names_in f es _ Hin Hes) as [(z & Hz & E)|(z & Hz & E)].
      + unfold numx in E. replace (str_eqb w_LINECOMMENT w_LINECOMMENT) with true in E by reflexivity.
        apply (placeholder_injective _ _ _ (HLlt _ _ (rlookup_In y ltab (Hil y (or_introl eq_refl)))) (HLlt _ _ (rlookup_In z ltab (Hil z (or_intror Hz))))) in E.
        apply (rlookup_inj _ _ _ HLnd (Hil y (or_introl eq_refl)) (Hil z (or_intror Hz))) in E. subst z. exact (Hy Hz).
      + unfold numx in E. replace (str_eqb w_LINECOMMENT w_LINECOMMENT) with true in E by reflexivity. exact (bph_lph_ne _ _ (eq_sym E)).
    - replace (str_eqb w_BLOCKCOMMENT w_LINECOMMENT) with false in * by reflexivity. replace (str_eqb w_BLOCKCOMMENT w_BLOCKCOMMENT) with true in * by reflexivity.
      inversion Hb as [|z zs Hy Hb']; subst. constructor; [|exact (IH Hes Hl Hb' Hil (fun x H => Hib x (or_intror H)))].
      intros Hin. destruct (names_in f es _ Hin Hes) as [(z & Hz & E)|(z & Hz & E)].
      + unfold numx in E. replace (str_eqb w_BLOCKCOMMENT w_LINECOMMENT) with false in E by reflexivity. exact (bph_lph_ne _ _ E).
      + unfold numx in E. replace (str_eqb w_BLOCKCOMMENT w_LINECOMMENT) with false in E by reflexivity.
        apply (placeholder_injective _ _ _ (HBlt _ _ (rlookup_In y btab (Hib y (or_introl eq_refl)))) (HBlt _ _ (rlookup_In z btab (Hib z (or_intror Hz))))) in E.
        apply (rlookup_inj _ _ _ HBnd (Hib y (or_introl eq_refl)) (Hib z (or_intror Hz))) in E. subst z. exact (Hy Hz).
  Qed.

  Lemma entries_ok f es : Forall ev_src es ->
    (forall x, In x (lcx es) -> inb x ltab = true) -> (forall x, In x (bcx es) -> inb x btab = true) ->
    forallb (ph_entry_ok ltab btab) (cms_of (map (ev_map gx gx f) es)) = true.
  Proof.
    induction es as [|e es IH]; intros Hsrc Hil Hib; [reflexivity|]. inversion Hsrc as [|e' es' He Hes]; subst.
    destruct e as [l k v|l k|l|l n y|l k|l len idx first run|l len idx first run|l anc len idx first run]; cbn [map ev_map cms_of ev_cm lcx bcx] in *; try exact (IH Hes Hil Hib).
    cbn [forallb ph_entry_ok]. cbn [ev_src] in He. destruct He as [[-> _]|[-> _]].
    - replace (str_eqb w_LINECOMMENT w_LINECOMMENT) with true in * by reflexivity. replace (str_eqb w_LINECOMMENT w_BLOCKCOMMENT) with false in * by reflexivity.
      rewrite (IH Hes (fun x H => Hil x (or_intror H)) Hib), andb_true_r, ScalarProofs.str_eqb_refl. cbn [andb].
      pose proof (Hil y (or_introl eq_refl)) as Hy. unfold numx. replace (str_eqb w_LINECOMMENT w_LINECOMMENT) with true by reflexivity.
      unfold lph. rewrite (is_ph_ph w_LINECOMMENT _ (HLlt _ _ (rlookup_In y ltab Hy))), ph_id_ph, (tlookup_rlookup y ltab HLnd Hy). reflexivity.
    - replace (str_eqb w_BLOCKCOMMENT w_LINECOMMENT) with false in * by reflexivity. replace (str_eqb w_BLOCKCOMMENT w_BLOCKCOMMENT) with true in * by reflexivity.
      rewrite (IH Hes Hil (fun x H => Hib x (or_intror H))), andb_true_r, ScalarProofs.str_eqb_refl. cbn [andb].
      pose proof (Hib y (or_introl eq_refl)) as Hy. unfold numx. replace (str_eqb w_BLOCKCOMMENT w_LINECOMMENT) with false by reflexivity.
      rewrite is_ph_cross_lb. unfold bph. rewrite (is_ph_ph w_BLOCKCOMMENT _ (HBlt _ _ (rlookup_In y btab Hy))), ph_id_ph, (tlookup_rlookup y btab HBnd Hy).
      cbn [orb andb is_some]. reflexivity.
  Qed.
End Closure.

Lemma filter_head {A} (p : A -> bool) x l : p x = true -> filter p (x :: l) = x :: filter p l.
Proof. intros H. cbn [filter]. rewrite H. reflexivity. Qed.

(* the header of the re-read SDict is the marked block comment the document begins with *)
Lemma number_hdr_marked c count : cdoc_ok c = true -> has_header c = true -> (-1 <= count)%Z ->
  (Z.of_nat (length (lc_list c)) <= 1000000)%Z -> (Z.of_nat (length (bc_list c)) <= 1000000)%Z ->
  hdr_marked (number count c) = true.
Proof.
  intros Hc Hh Hcount Hnl Hnb. destruct (doc_src c count Hc Hcount Hnl Hnb) as (A1 & A2 & A3 & A4 & A5).
  destruct (cdoc_ok_inv c Hc) as (Hs & _). destruct (src_level _ _ c A5) as (Hcm & Hsi & _).
  set (ltab := lc_tab count c) in *. set (btab := bc_tab c) in *.
  destruct c as [|kc l]; [discriminate Hh|]. cbn [has_header] in Hh. destruct (cm_entry kc) as [[n x]|] eqn:Ec; [|discriminate Hh].
  apply andb_true_iff in Hh. destruct Hh as [Hbn Hmark].
  destruct (Hcm kc n x (or_introl eq_refl) Ec) as [[-> _]|[-> Hx]]; [discriminate Hbn|].
  unfold hdr_marked, hk_s, number. cbn [sd_data sd_bc]. fold ltab btab. unfold numT. rewrite cmapg_dict. cbn [kvs_of map].
  set (e1 := cmap_entry (gkv (numx ltab btab) (numx ltab btab)) written_value kc).
  set (rest := map (cmap_entry (gkv (numx ltab btab) (numx ltab btab)) written_value) l).
  assert (Ee1 : e1 = (KS (bph (rlookup x btab)), Leaf (SStr (bph (rlookup x btab))))) by (unfold e1, cmap_entry; rewrite Ec; reflexivity).
  pose proof (A4 _ _ (rlookup_In x btab Hx)) as Hi.
  assert (Hinc : forall e, In e (e1 :: rest) -> is_include_key (fst e) = false).
  { intros e He. change (e1 :: rest) with (map (cmap_entry (gkv (numx ltab btab) (numx ltab btab)) written_value) (kc :: l)) in He.
    apply in_map_iff in He. destruct He as (kc' & <- & Hin). rewrite fst_ce. destruct (cm_entry kc') as [[n' x']|] eqn:Ec'.
    - destruct (gx_cases ltab btab n' x') as (w & i & Hw & Eg). rewrite Eg.
      destruct (Hcm kc' n' x' Hin Ec') as [[-> Hx']|[-> Hx']]; unfold numx in Eg.
      + replace (str_eqb w_LINECOMMENT w_LINECOMMENT) with true in Eg by reflexivity. rewrite <- Eg. apply ph_not_include. apply lph_name. exact (A3 _ _ (rlookup_In x' ltab Hx')).
      + replace (str_eqb w_BLOCKCOMMENT w_LINECOMMENT) with false in Eg by reflexivity. rewrite <- Eg. apply ph_not_include. apply bph_name. exact (A4 _ _ (rlookup_In x' btab Hx')).
    - exact (proj2 (simple_key_unsorted _ (Hsi kc' Hin Ec'))). }
  rewrite (sort_top_eq (e1 :: rest) Hinc).
  assert (Hbk : bk e1 = true) by (rewrite Ee1; unfold bk; cbn [fst]; exact (bph_block _ Hi)).
  rewrite (filter_head bk e1 rest Hbk). cbn [app]. rewrite events_cons. unfold entry_events. rewrite Ee1.
  assert (Ecm1 : cm_entry (KS (bph (rlookup x btab)), Leaf (SStr (bph (rlookup x btab)))) = Some (bph (rlookup x btab), bph (rlookup x btab))).
  { cbn [cm_entry]. unfold is_cm, bph, placeholder. rewrite (contains_app_l w_COMMENT w_BLOCKCOMMENT _ eq_refl). reflexivity. }
  rewrite Ecm1. cbn [app hk_of]. replace (starts_with w_BLOCKCOMMENT (bph (rlookup x btab))) with true by reflexivity.
  rewrite ph_id_bph, (tlookup_rlookup x btab A2 Hx). unfold tget. rewrite (tlookup_rlookup x btab A2 Hx). exact Hmark.
Qed.

Theorem number_rereadable c count : cdoc_ok c = true -> csort c = c -> has_header c = true -> (-1 <= count)%Z ->
  (Z.of_nat (length (lc_list c)) <= 1000000)%Z -> (Z.of_nat (length (bc_list c)) <= 1000000)%Z ->
  rereadable (number count c) = true /\ written_doc (number count c) = cwv c.
Proof.
  intros Hc Hsort Hh Hcount Hnl Hnb. destruct (doc_src c count Hc Hcount Hnl Hnb) as (A1 & A2 & A3 & A4 & A5).
  destruct (cdoc_ok_inv c Hc) as (Hs & Hw & Hq & Hcm & Hlnd & Hbnd).
  destruct (num_ok _ _ A1 A2 A3 A4 written_value (Dict c) A5) as [Wnum Cnum].
  assert (Hok : Forall ev_ok (events 0 (Dict c))) by (apply cshape_events; exact Hs).
  assert (Hsrc : Forall ev_src (events 0 (Dict c))) by (apply cms_of_events_src; assumption).
  assert (Hil : forall x, In x (lcx (events 0 (Dict c))) -> inb x (lc_tab count c) = true) by (intros x Hx; apply inb_combine; [apply ids_length|exact Hx]).
  assert (Hib : forall x, In x (bcx (events 0 (Dict c))) -> inb x (bc_tab c) = true) by (intros x Hx; apply inb_number_from; exact Hx).
  assert (Ecanon : canon (number count c) = cwv c) by (apply canon_number; assumption).
  assert (Ewd : written_doc (number count c) = cwv c).
  { unfold written_doc. rewrite Ecanon. apply hdr_fix; [apply cwv_sorted; assumption|rewrite (cwv_header c Hs); exact Hh]. }
  split; [|exact Ewd].
  set (ltab := lc_tab count c) in *. set (btab := bc_tab c) in *.
  destruct (numT_dict ltab btab written_value c) as [d Ed].
  assert (Edata : Dict (sd_data (number count c)) = numT ltab btab written_value (Dict c)).
  { unfold number. cbn [sd_data]. fold ltab btab. rewrite Ed. reflexivity. }
  assert (Ecms : cms (Dict (sd_data (number count c))) = cms_of (map (ev_map (numx ltab btab) (numx ltab btab) written_value) (events 0 (Dict c)))).
  { unfold cms. rewrite Edata. unfold numT, events. rewrite (cmapg_events _ _ _ (gx_cm ltab btab) (Dict c) 0%nat false Hs). reflexivity. }
  assert (Elc : sd_lc (number count c) = ltab) by reflexivity. assert (Ebc : sd_bc (number count c) = btab) by reflexivity.
  assert (Einc : sd_inc (number count c) = []) by reflexivity. assert (Eexp : sd_expr (number count c) = []) by reflexivity.
  assert (P1 : forallb (fun e : N * str => phfree (snd e)) ltab = true).
  { apply forallb_forall. intros [i x] Hin. cbn [snd]. apply in_combine_r in Hin.
    destruct (lc_ok_inv x (lcx_ok _ Hsrc x Hin)) as (_ & _ & _ & _ & H). exact H. }
  assert (P2 : forallb (fun e : N * str => bcgood (snd e) && phfree (snd e)) btab = true).
  { apply forallb_forall. intros [i x] Hin. cbn [snd].
    assert (Hx : In x (bc_list c)) by (rewrite <- (number_from_snd (bc_list c) 0); apply in_map_iff; exists (i, x); split; [reflexivity|exact Hin]).
    destruct (bc_ok_inv x (bcx_ok _ Hsrc x Hx)) as (G & _ & _ & _ & F & _). rewrite G, F. reflexivity. }
  assert (P3 : nodupb (map snd btab) = true) by (unfold btab, bc_tab; rewrite number_from_snd; exact (NoDup_nodupb _ Hbnd)).
  assert (P4 : hdr_marked (number count c) || negb (existsb (str_eqb nh_txt) (map snd btab)) = true)
    by (rewrite (number_hdr_marked c count Hc Hh Hcount Hnl Hnb); reflexivity).
  assert (P5 : cdoc_ok (hdr (canon (number count c))) = true) by (fold (written_doc (number count c)); rewrite Ewd; exact (cwv_ok c Hc)).
  unfold rereadable. rewrite Ecms, Edata, Elc, Ebc, Einc, Eexp.
  apply andb_true_iff; split; [|exact P5]. apply andb_true_iff; split; [|reflexivity]. apply andb_true_iff; split; [|reflexivity].
  apply andb_true_iff; split; [|exact P4]. apply andb_true_iff; split; [|exact P3]. apply andb_true_iff; split; [|exact P2].
  apply andb_true_iff; split; [|exact P1]. apply andb_true_iff; split; [|exact (tab_ok_of btab A2 A4)].
  apply andb_true_iff; split; [|exact (tab_ok_of ltab A1 A3)].
  apply andb_true_iff; split; [|exact (NoDup_nodupb _ (names_nodup ltab btab A1 A2 A3 A4 written_value _ Hsrc Hlnd Hbnd Hil Hib))].
  apply andb_true_iff; split; [|exact (entries_ok ltab btab A1 A2 A3 A4 written_value _ Hsrc Hil Hib)].
  apply andb_true_iff; split; [exact Wnum|exact (cshape_cmapg _ _ (gx_cm ltab btab) (Dict c) Hs)].
Qed.

(* ================================================================================================ *)
(* 5. the fixed point                                                                               *)
(* ================================================================================================ *)

Lemma lcx_keep f es : lcx (map (ev_map keepn keepx f) es) = lcx es.
Proof. induction es as [|e es IH]; [reflexivity|]. cbn [map]. destruct e; cbn [ev_map lcx]; rewrite ?IH; reflexivity. Qed.
Lemma bcx_keep f es : bcx (map (ev_map keepn keepx f) es) = bcx es.
Proof. induction es as [|e es IH]; [reflexivity|]. cbn [map]. destruct e; cbn [ev_map bcx]; rewrite ?IH; reflexivity. Qed.

Lemma run_wv_le run : forallb writable_leaf run = true ->
  (length (flat_map qstr (map written_value run)) <= length (flat_map qstr run))%nat.
Proof.
  induction run as [|v run IH]; intros H; [cbn; lia|]. cbn [forallb] in H. apply andb_true_iff in H. destruct H as [H1 H2].
  cbn [map flat_map]. rewrite !app_length. specialize (IH H2).
  destruct (RereadPlain.qstr_wv v H1) as [E|E]; rewrite E; cbn [length]; lia.
Qed.

Lemma lits_wv_le es : Forall ev_ok es -> (length (lits (map (ev_map keepn keepx written_value) es)) <= length (lits es))%nat.
Proof.
  induction 1 as [|e es He _ IH]; [cbn; lia|]. unfold lits in *. cbn [map flat_map]. rewrite !app_length.
  assert (Hle : (length (ev_lits (ev_map keepn keepx written_value e)) <= length (ev_lits e))%nat).
  { destruct e as [l k v|l k|l|l n x|l k|l len idx first run|l len idx first run|l anc len idx first run]; cbn [ev_map ev_lits ev_ok] in *; try lia; try exact (run_wv_le run He).
    destruct (RereadPlain.qstr_wv v (proj2 He)) as [E|E]; rewrite E; cbn [length]; lia. }
  lia.
Qed.

Lemma cwv_lists c : cshape (Dict c) = true ->
  lc_list (cwv c) = lc_list c /\ bc_list (cwv c) = bc_list c /\ (length (lit_list (cwv c)) <= length (lit_list c))%nat.
Proof.
  intros Hs. unfold lc_list, bc_list, lit_list. rewrite (cwv_events c 0 Hs), lcx_keep, bcx_keep.
  split; [reflexivity|]. split; [reflexivity|]. apply lits_wv_le. apply cshape_events. exact Hs.
Qed.

(* Reading what was written for a re-readable SDict returns a re-readable SDict with the same canonical document (leaves
   read back); a second cycle returns the same canonical document again, and writes the same bytes. *)
Theorem reread_fixed_point s dir count dir' count' : rereadable s = true -> (-1 <= count)%Z -> (-1 <= count')%Z ->
  (Z.of_nat (length (lc_list (written_doc s))) <= 1000000)%Z -> (Z.of_nat (length (bc_list (written_doc s))) <= 1000000)%Z ->
  (Z.of_nat (length (lit_list (written_doc s))) <= 1000000)%Z ->
  let c := written_doc s in let s1 := number count c in let c1 := cwv c in let s2 := number count' c1 in
  parse_string true dir count (to_string_sd s) = Ok (mkParsed s1 (count_after count c)) /\
  rereadable s1 = true /\
  parse_string true dir' count' (to_string_sd s1) = Ok (mkParsed s2 (count_after count' c1)) /\
  canon s1 = c1 /\ canon s2 = c1 /\
  to_string_sd s2 = to_string_sd s1.
Proof.
  intros Hr Hc Hc' H1 H2 H3 c s1 c1 s2.
  pose proof (rereadable_doc s Hr) as Hdoc. fold c in Hdoc, H1, H2, H3.
  destruct (hdr_sorted (canon s)) as [Hsort Hhead]. fold (written_doc s) in Hsort, Hhead. fold c in Hsort, Hhead.
  destruct (cdoc_ok_inv c Hdoc) as (Hs & _).
  destruct (number_rereadable c count Hdoc Hsort Hhead Hc H1 H2) as [Hr1 Ew1]. fold s1 c1 in Hr1, Ew1.
  destruct (cwv_lists c Hs) as (L1 & L2 & L3). fold c1 in L1, L2, L3.
  pose proof (cwv_ok c Hdoc) as Hdoc1. fold c1 in Hdoc1.
  pose proof (cwv_sorted c Hs Hsort) as Hsort1. fold c1 in Hsort1.
  assert (Hhead1 : has_header c1 = true) by (unfold c1; rewrite (cwv_header c Hs); exact Hhead).
  destruct (cdoc_ok_inv c1 Hdoc1) as (Hs1 & _).
  assert (B1 : (Z.of_nat (length (lc_list c1)) <= 1000000)%Z) by (rewrite L1; exact H1).
  assert (B2 : (Z.of_nat (length (bc_list c1)) <= 1000000)%Z) by (rewrite L2; exact H2).
  assert (B3 : (Z.of_nat (length (lit_list c1)) <= 1000000)%Z) by lia.
  destruct (number_rereadable c1 count' Hdoc1 Hsort1 Hhead1 Hc' B1 B2) as [Hr2 Ew2]. fold s2 in Hr2, Ew2.
  assert (Ecc : cwv c1 = c1) by (unfold c1; apply cwv_cwv; exact Hs). rewrite Ecc in Ew2.
  split; [exact (reread_sd s dir count Hr Hc H1 H2 H3)|]. split; [exact Hr1|]. split.
  - pose proof (reread_sd s1 dir' count' Hr1 Hc') as R. rewrite Ew1 in R. exact (R B1 B2 B3).
  - split; [exact (canon_number c count Hdoc Hc H1 H2)|]. split.
    + unfold s2. rewrite (canon_number c1 count' Hdoc1 Hc' B1 B2). exact Ecc.
    + rewrite (writer_canon s2 Hr2), (writer_canon s1 Hr1). fold (written_doc s2) (written_doc s1). rewrite Ew1, Ew2. reflexivity.
Qed.

Print Assumptions number_rereadable.
Print Assumptions reread_fixed_point.
