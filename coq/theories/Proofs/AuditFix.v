(* Audit fixes: value-level versions of the C18 include chain (SDict.include + dump + read), totality of the read on two
   written files, and a weaker form of C05_text_direct_value. *)
From Coq Require Import String.   (* first, so that the list names win *)
From Coq Require Import NArith ZArith List Bool Lia.
From DictIO Require Import Chars Str Value Scalar KeyPath SDict Layout Lexer TokParser Reader Paths
     TreeSpec NativeSpec MiscSpec LayoutSpec E2ESpec.
From DictIO Require Import SDictProofs IncludeProofs IncludeNested IncludeChainProofs IncludeChainFull.
From DictIO Require TokProofs E2EProofs E2EHoles E2EFullProofs RereadTree RereadWrite RereadLex RereadProofs.
From DictIO Require RereadIncStage RereadIncLex RereadIncRead RereadIncWrite RereadIncProofs.
Import ListNotations.
Open Scope N_scope.

(* ================================================================================================ *)
(* 1. a root with ONE include entry: the parse of the included unit, and the exact merge order        *)
(* ================================================================================================ *)

(* the first include entry of the root, when its file exists, is parsed at the counter the root's parse left,
   and a successful read implies that this parse (and the sub-run below it) succeeded *)
Lemma read_first_include_parses : forall fs root com c s c' u0 pr0 i d n path suf u,
  read_plain fs root true com c = Ok (s, c') ->
  fs_lookup (norm_path root) fs = Some u0 -> parse_unit com root c u0 = Ok pr0 ->
  sd_inc (pr_sd pr0) = (i, (d, n, path)) :: suf ->
  fs_lookup (norm_path path) fs = Some u ->
  exists pr inc' c2, parse_unit com path (pr_count pr0) u = Ok pr /\
    sub_result (merge_includes_rec (List.length fs) fs com) [] path pr = Ok (inc', c2).
Proof.
  intros fs root com c s c' u0 pr0 i d n path suf u H Hl0 Hp0 Hinc Hl.
  destruct (read_plain_rec_inv _ _ _ _ _ _ _ _ H Hl0 Hp0) as [p [Hrec _]].
  apply rec_S_inv in Hrec. destruct Hrec as [temp [Hfold _]].
  rewrite Hinc in Hfold. cbn [fold_left] in Hfold.
  assert (Hc : in_chain (norm_path path) [] = false) by reflexivity.
  rewrite (inc_step_valid _ fs com [] sd_empty (pr_count pr0) i d n path u Hc Hl) in Hfold.
  destruct (parse_unit com path (pr_count pr0) u) as [pr|x] eqn:Hp.
  - cbn [bind] in Hfold.
    destruct (sub_result (merge_includes_rec (List.length fs) fs com) [] path pr) as [[inc' c2]|x] eqn:Hs.
    + exists pr, inc', c2. split; [reflexivity|exact Hs].
    + cbn [bind] in Hfold. rewrite fold_inc_raise in Hfold. discriminate Hfold.
  - cbn [bind] in Hfold. rewrite fold_inc_raise in Hfold. discriminate Hfold.
Qed.

(* the exact data of the read when the root has exactly one include entry, whose unit has no include entries of its own:
   the model's merge order, literally *)
Definition merged_two (A B : sdict) : sdict :=
  let T := sd_merge sd_empty (sd_data B) (Some B) in
  let P := sd_merge A (sd_data T) (Some T) in
  sd_merge P (sd_data P) (Some P).

Lemma read_single_include_data : forall fs root com c s c' u0 pr0 i d n path u pr,
  read_plain fs root true com c = Ok (s, c') ->
  fs_lookup (norm_path root) fs = Some u0 -> parse_unit com root c u0 = Ok pr0 ->
  sd_inc (pr_sd pr0) = [(i, (d, n, path))] ->
  fs_lookup (norm_path path) fs = Some u -> parse_unit com path (pr_count pr0) u = Ok pr ->
  sd_inc (pr_sd pr) = [] ->
  sd_data s = sd_data (merged_two (pr_sd pr0) (pr_sd pr)) /\ c' = pr_count pr.
Proof.
  intros fs root com c s c' u0 pr0 i d n path u pr H Hl0 Hp0 Hinc Hl Hp Hni.
  apply read_plain_inv in H. destruct H as [u' [pr' [m [Hl' [Hp' [Hm Hd]]]]]].
  assert (u' = u0) by congruence. subst u'. assert (pr' = pr0) by congruence. subst pr'.
  unfold merge_includes in Hm.
  destruct (merge_includes_rec (S (List.length fs)) fs com [] (pr_sd pr0) (pr_count pr0)) as [[p c1]|x] eqn:E; [|discriminate Hm].
  cbn [bind] in Hm. injection Hm as Hm1 Hm2. subst c1.
  apply rec_S_inv in E. destruct E as [temp [Hfold Ep]].
  rewrite Hinc in Hfold. cbn [fold_left] in Hfold.
  assert (Hc : in_chain (norm_path path) [] = false) by reflexivity.
  rewrite (inc_step_valid _ fs com [] sd_empty (pr_count pr0) i d n path u Hc Hl) in Hfold.
  rewrite Hp in Hfold. cbn [bind] in Hfold. unfold sub_result in Hfold. rewrite Hni in Hfold. cbn [bind fst snd] in Hfold.
  injection Hfold as Ht Hc'. rewrite Hd, <- Hm1, Ep, <- Ht. split; [reflexivity|symmetry; exact Hc'].
Qed.

(* ---- whole values under a top level key: merge and clean-up --------------------------------------- *)
Lemma merge_self_dict : forall t, wf (Dict t) = true -> merge_spec_tree (Dict t) (Dict t) = Dict t.
Proof.
  intros t Hw. pose proof (merge_tree_idempotent (Dict t) Hw (Dict [])) as H.
  assert (Hnd : NoDup (map fst t)) by (apply wf_Dict_iff in Hw; tauto).
  rewrite (merge_nil_l t Hnd) in H. exact H.
Qed.

Lemma mk_fold_other : forall f top other tgt k, ~ In k (map fst other) ->
  alookup k (fold_left (mk_step f top) other tgt) = alookup k tgt.
Proof.
  intros f top. induction other as [|[k0 ov] o IH]; intros tgt k Hn; cbn [fold_left]; [reflexivity|].
  cbn [map fst] in Hn. rewrite IH by (intro H; apply Hn; right; exact H).
  apply mk_step_other. intro E. apply Hn. left. symmetry. exact E.
Qed.

(* an absent key takes the WHOLE value the merged-in dict has for it *)
Lemma mk_fold_adds_tree : forall f top other tgt k t, NoDup (map fst other) ->
  alookup k tgt = None -> alookup k other = Some t ->
  alookup k (fold_left (mk_step f top) other tgt) = Some t.
Proof.
  intros f top. induction other as [|[k0 ov] o IH]; intros tgt k t Hnd Hn Ho; cbn [fold_left].
  - discriminate Ho.
  - cbn [map fst] in Hnd. inversion Hnd as [|? ? Hni Hnd']; subst. cbn [alookup] in Ho. destruct (key_eqb k k0) eqn:E.
    + apply key_eqb_eq in E. subst k0. injection Ho as ->. rewrite mk_fold_other by exact Hni.
      unfold mk_step. rewrite Hn. rewrite alookup_aset, key_eqb_refl. reflexivity.
    + apply key_eqb_neq in E. apply IH; [exact Hnd'| |exact Ho]. rewrite mk_step_other by exact E. exact Hn.
Qed.

(* merging a dict into itself keeps a well-formed value *)
Lemma mk_step_self : forall f exprs tgt k t, alookup k tgt = Some t -> wf t = true -> (depth t <= f)%nat ->
  alookup k (mk_step f (Some exprs) tgt (k, t)) = Some t.
Proof.
  intros f exprs tgt k t Hl Hw Hd. unfold mk_step. rewrite Hl.
  destruct t as [v|sub|ts].
  - destruct (circular k (insert_expression (Leaf v) exprs)); [|exact Hl]. rewrite alookup_aset, key_eqb_refl. reflexivity.
  - rewrite alookup_aset, key_eqb_refl. rewrite merge_kvs_none by exact Hd.
    pose proof (merge_self_dict sub Hw) as H. rewrite merge_spec_tree_dict in H. injection H as ->. reflexivity.
  - destruct (circular k (insert_expression (Lst ts) exprs)); [|exact Hl]. rewrite alookup_aset, key_eqb_refl. reflexivity.
Qed.

Lemma mk_fold_self : forall f exprs other tgt k t, NoDup (map fst other) ->
  alookup k tgt = Some t -> alookup k other = Some t -> wf t = true -> (depth t <= f)%nat ->
  alookup k (fold_left (mk_step f (Some exprs)) other tgt) = Some t.
Proof.
  intros f exprs. induction other as [|[k0 ov] o IH]; intros tgt k t Hnd Hl Ho Hw Hd; cbn [fold_left].
  - discriminate Ho.
  - cbn [map fst] in Hnd. inversion Hnd as [|? ? Hni Hnd']; subst. cbn [alookup] in Ho. destruct (key_eqb k k0) eqn:E.
    + apply key_eqb_eq in E. subst k0. injection Ho as ->. rewrite mk_fold_other by exact Hni.
      apply mk_step_self; assumption.
    + apply key_eqb_neq in E. apply IH; [exact Hnd'| |exact Ho|exact Hw|exact Hd]. rewrite mk_step_other by exact E. exact Hl.
Qed.

(* clean-up: a top level Dict value that is ordinary and well formed is left as it is *)
Lemma fold_cstep_lookup_ord : forall f l dacc sacc k sub, NoDup (map fst l) ->
  alookup k l = Some (Dict sub) -> ordinary (Dict sub) = true -> wf (Dict sub) = true ->
  alookup k (fst (fold_left (cstep f) l (dacc, sacc))) = Some (Dict sub).
Proof.
  intros f. induction l as [|[k0 v0] l IH]; intros dacc sacc k sub Hnd Hl Ho Hw; [discriminate Hl|].
  cbn [map fst] in Hnd. inversion Hnd as [|? ? Hn Hd]; subst.
  change (fold_left (cstep f) ((k0, v0) :: l) (dacc, sacc))
    with (fold_left (cstep f) l (cstep f (dacc, sacc) (k0, v0))).
  pose proof (cstep_fst f dacc sacc k0 v0) as Hc.
  destruct (cstep f (dacc, sacc) (k0, v0)) as [d' s']. cbn [fst] in Hc.
  cbn [alookup] in Hl. destruct (key_eqb k k0) eqn:E.
  - apply key_eqb_eq in E. subst k0. injection Hl as ->.
    assert (Hl' : alookup k l = None) by (apply alookup_None_notin; assumption).
    pose proof (fold_cstep_lookup f l d' s' k Hd) as H. rewrite Hl' in H. rewrite H, Hc.
    rewrite (clean_tree_id f sub sacc Ho Hw). rewrite alookup_aset, key_eqb_refl. reflexivity.
  - exact (IH d' s' k sub Hd Hl Ho Hw).
Qed.

Lemma clean_keeps_tree : forall s k t, ordinary_key k = true -> NoDup (map fst (sd_data s)) ->
  alookup k (sd_data s) = Some t -> ordinary t = true -> wf t = true ->
  alookup k (sd_data (sd_clean s)) = Some t.
Proof.
  intros s k t Hk Hnd Hl Ho Hw. destruct t as [v|sub|ts].
  - destruct (clean_keeps_ordinary_keys_nd s k Hk Hnd) as [H|[sub [sub' [H _]]]]; [rewrite H; exact Hl | congruence].
  - rewrite sd_clean_data_fst, clean_tree_S.
    pose proof (clean_level_lookup (sd_data s) s k Hk) as Hll.
    pose proof (clean_level_nodup (sd_data s) s Hnd) as Hn.
    destruct (clean_level (sd_data s) s) as [d s1]. cbn [fst] in *.
    apply fold_cstep_lookup_ord; [exact Hn| |exact Ho|exact Hw]. rewrite Hll. exact Hl.
  - destruct (clean_keeps_ordinary_keys_nd s k Hk Hnd) as [H|[sub [sub' [H _]]]]; [rewrite H; exact Hl | congruence].
Qed.

(* sd_merge: a new top level key takes the whole value; a self merge keeps it *)
Lemma sd_merge_adds_tree : forall s m o k t, ordinary_key k = true -> NoDup (map fst (sd_data s)) -> NoDup (map fst m) ->
  alookup k (sd_data s) = None -> alookup k m = Some t -> ordinary t = true -> wf t = true ->
  alookup k (sd_data (sd_merge s m o)) = Some t.
Proof.
  intros s m o k t Hk Hnd Hm Hn Hl Ho Hw. destruct (sd_merge_unfold s m o) as [s1 [E D]]. rewrite E.
  apply clean_keeps_tree; [exact Hk| | |exact Ho|exact Hw].
  - rewrite D. apply mk_fold_nodup. exact Hnd.
  - rewrite D. apply mk_fold_adds_tree; assumption.
Qed.

Lemma alookup_In' : forall (l : list (key * tree)) k t, alookup k l = Some t -> In (k, t) l.
Proof.
  induction l as [|[k0 v0] l IH]; intros k t H; [discriminate H|]. cbn [alookup] in H.
  destruct (key_eqb k k0) eqn:E; [apply key_eqb_eq in E; subst; injection H as ->; left; reflexivity|right; apply IH; exact H].
Qed.

Lemma sd_merge_self_tree : forall s o k t, ordinary_key k = true -> NoDup (map fst (sd_data s)) ->
  alookup k (sd_data s) = Some t -> ordinary t = true -> wf t = true ->
  alookup k (sd_data (sd_merge s (sd_data s) o)) = Some t.
Proof.
  intros s o k t Hk Hnd Hl Ho Hw. destruct (sd_merge_unfold s (sd_data s) o) as [s1 [E D]]. rewrite E.
  apply clean_keeps_tree; [exact Hk| | |exact Ho|exact Hw].
  - rewrite D. apply mk_fold_nodup. exact Hnd.
  - rewrite D. apply mk_fold_self; try assumption.
    pose proof (depth_child (sd_data s) (k, t) (alookup_In' _ _ _ Hl)) as Hd. cbn [snd] in Hd. cbn [depth]. lia.
Qed.

Lemma merged_two_tree : forall A B k t, ordinary_key k = true ->
  NoDup (map fst (sd_data A)) -> NoDup (map fst (sd_data B)) ->
  alookup k (sd_data A) = None -> alookup k (sd_data B) = Some t -> ordinary t = true -> wf t = true ->
  alookup k (sd_data (merged_two A B)) = Some t.
Proof.
  intros A B k t Hk HA HB Hn Hl Ho Hw. unfold merged_two. cbv zeta.
  set (T := sd_merge sd_empty (sd_data B) (Some B)).
  assert (HT : alookup k (sd_data T) = Some t).
  { apply sd_merge_adds_tree; try assumption; [constructor|reflexivity]. }
  assert (HTn : NoDup (map fst (sd_data T))) by (apply sd_merge_nodup; constructor).
  set (P := sd_merge A (sd_data T) (Some T)).
  assert (HP : alookup k (sd_data P) = Some t) by (apply sd_merge_adds_tree; assumption).
  assert (HPn : NoDup (map fst (sd_data P))) by (apply sd_merge_nodup; exact HA).
  apply sd_merge_self_tree; assumption.
Qed.

(* a key that the comment stripping of the re-read theorems leaves alone *)
Definition no_comment_word (k : key) : bool := match k with KS n => negb (RereadTree.is_cm n) | KI _ => true end.

Lemma ordinary_not_include k : ordinary_key k = true -> is_include_key k = false.
Proof.
  unfold ordinary_key, ph_kind_of, is_include_key. destruct k as [z|n]; [reflexivity|]. intros H.
  destruct (has_placeholder w_BLOCKCOMMENT n); [discriminate H|]. destruct (has_placeholder w_INCLUDE n); [discriminate H|reflexivity].
Qed.

Lemma cstrip_entry_keys kc k : In k (map fst (RereadTree.cstrip_entry kc)) -> k = fst kc.
Proof.
  unfold RereadTree.cstrip_entry. destruct (RereadTree.cm_entry kc); cbn [map fst In]; [intros []|intros [H|[]]; symmetry; exact H].
Qed.

Lemma cstrip_keys_sub l k : In k (map fst (flat_map RereadTree.cstrip_entry l)) -> In k (map fst l).
Proof.
  induction l as [|kc l IH]; [intros []|]. cbn [flat_map]. rewrite map_app, in_app_iff. cbn [map In].
  intros [H|H]; [left; symmetry; exact (cstrip_entry_keys kc k H)|right; exact (IH H)].
Qed.

Lemma cstrip_keys_keep l k c : no_comment_word k = true -> In (k, c) l -> In k (map fst (flat_map RereadTree.cstrip_entry l)).
Proof.
  intros Hk. induction l as [|kc l IH]; [intros []|]. cbn [flat_map]. rewrite map_app, in_app_iff. intros [->|H]; [left|right; exact (IH H)].
  unfold RereadTree.cstrip_entry, RereadTree.cm_entry. destruct k as [z|n].
  - left; reflexivity.
  - cbn [no_comment_word] in Hk. apply negb_true_iff in Hk. destruct c as [v| |]; try (left; reflexivity).
    destruct v; try (left; reflexivity). rewrite Hk. left. reflexivity.
Qed.

(* the top level keys of X that survive the stripping are top level keys of d, when  cstrip X = map_leaves f (cstrip d) *)
Lemma cstrip_absent f X d k : RereadTree.cstrip (Dict X) = map_leaves f (RereadTree.cstrip (Dict d)) ->
  no_comment_word k = true -> alookup k d = None -> alookup k X = None.
Proof.
  intros H Hk Hn. rewrite !RereadTree.cstrip_dict, (TokProofs.map_leaves_dict f) in H. injection H as H.
  apply alookup_None_notin. intro Hin. apply in_map_iff in Hin. destruct Hin as ([k' c] & Ek & Hin). cbn [fst] in Ek. subst k'.
  pose proof (cstrip_keys_keep X k c Hk Hin) as H1. rewrite H in H1. rewrite map_map in H1.
  assert (H2 : In k (map fst (flat_map RereadTree.cstrip_entry d))).
  { apply in_map_iff in H1. destruct H1 as (kc & E & Hkc). apply in_map_iff. exists kc. split; [exact E|exact Hkc]. }
  apply cstrip_keys_sub in H2. apply alookup_None_notin in Hn. exact (Hn H2).
Qed.

(* ================================================================================================ *)
(* 2. C18: the chain SDict.include + dump + read at the level of VALUES                               *)
(* ================================================================================================ *)
Module RW := RereadIncWrite.
Module RP := RereadIncProofs.

(* the parse of the dumped including file: it succeeds and its include table is the ONE entry of the directive *)
Lemma dumped_parse_single_include : forall pa pb da i c,
  let sa := sd_with_include da i (include_name pa pb) pb in
  plain_top da = true -> RW.rereadable_inc sa = true -> (-1 <= c)%Z ->
  (Z.of_nat (List.length (RereadProofs.lc_list (RP.written_doc_inc sa))) <= 1000000)%Z ->
  (Z.of_nat (List.length (RereadProofs.bc_list (RP.written_doc_inc sa))) <= 1000000)%Z ->
  (Z.of_nat (List.length (RereadProofs.lit_list (RP.written_doc_inc sa))) <= 1000000)%Z ->
  exists pra id,
    parse_unit true pa c (FNative (to_string_sd sa)) = Ok pra /\
    sd_inc (pr_sd pra) = [(id, (RereadIncStage.inc_directive (include_name pa pb), include_name pa pb,
                                path_join (dir_of pa) (include_name pa pb)))] /\
    RereadTree.cstrip (Dict (sd_data (RW.strip_inc (pr_sd pra)))) = map_leaves written_value (RereadTree.cstrip (Dict da)) /\
    (-1 <= pr_count pra)%Z /\
    (forall k, ordinary_key k = true -> no_comment_word k = true -> alookup k da = None ->
       alookup k (sd_data (pr_sd pra)) = None).
Proof.
  intros pa pb da i c sa Hp Hr Hc B1 B2 B3.
  assert (Hi : i < 1000000).
  { pose proof (RW.rereadable_inc_facts sa Hr) as F. apply (RW.if_lt sa F i (of_string "#include " ++ format_string (include_name pa pb), include_name pa pb, pb)).
    left. reflexivity. }
  assert (Hnames : RW.inc_names sa = [include_name pa pb]) by (exact (inc_names_with_include da i _ pb Hp Hi)).
  assert (Hlc : (Z.of_nat (List.length (sd_lc sa)) < 1000000)%Z) by (cbn; lia).
  assert (B4 : (Z.of_nat (List.length (RW.inc_names sa)) <= 1000000)%Z) by (rewrite Hnames; cbn; lia).
  destruct (RP.includes_survive sa (dir_of pa) c Hr Hlc Hc B1 B2 B3 B4) as (s' & count' & Hparse & _ & _ & Hdata & _ & _ & Hinc & _).
  cbv zeta in Hinc. rewrite Hnames in Hinc. cbn [List.length] in Hinc. rewrite RereadLex.ids_S in Hinc. cbn [map combine] in Hinc.
  exists (mkParsed s' count'). eexists. split; [exact Hparse|]. cbn [pr_sd pr_count]. split; [exact Hinc|]. split; [|split].
  - rewrite Hdata. unfold sa. rewrite (strip_inc_with_include da i _ pb Hp Hi). reflexivity.
  - pose proof (RP.reread_inc sa (dir_of pa) c Hr Hlc Hc B1 B2 B3 B4) as Hparse2. rewrite Hparse in Hparse2.
    injection Hparse2 as _ Ec. rewrite Ec. unfold RereadIncRead.count_after_inc.
    apply RereadProofs.cafter_ge. apply RereadProofs.cafter_ge. apply RereadProofs.cafter_ge. exact Hc.
  - intros k Hk Hcw Hn. apply alookup_None_notin. intro Hin. apply in_map_iff in Hin. destruct Hin as ([k' t] & Ek & Hin).
    cbn [fst] in Ek. subst k'.
    assert (Hx : alookup k (sd_data (RW.strip_inc s')) = None).
    { apply (cstrip_absent written_value _ da k); [|exact Hcw|exact Hn].
      rewrite Hdata. unfold sa. rewrite (strip_inc_with_include da i _ pb Hp Hi). reflexivity. }
    apply alookup_None_notin in Hx. apply Hx. apply in_map_iff. exists (k, t). split; [reflexivity|].
    unfold RW.strip_inc. cbn [sd_data]. apply filter_In. split; [exact Hin|].
    unfold RW.is_inc_entry. cbn [fst]. rewrite (ordinary_not_include k Hk). reflexivity.
Qed.

(* VALUES.  Same hypotheses as include_dump_read_full plus fs_wf (the JSON units of fs have unique keys at every level,
   what json.loads returns; nothing is asked of native units).  pra, prb: the parses of the dumped file and of the unit at
   pb (at the counter pra's parse left).  Every LEAF of prb at an ordinary key path p at which pra holds nothing (falls_off:
   pra holds nothing at p and no leaf or list above it; in particular every path below a top level key that pra does not
   have) is found at p in the result, with the same value.  And when the included unit has no include entries of its
   own the data of the result are LITERALLY the model's merge of the two parses in its merge order (merged_two). *)
Theorem include_dump_read_values : forall fs pa pb da i c s c' ub,
  norm_path pa = pa -> norm_path pb = pb ->
  let sa := sd_with_include da i (include_name pa pb) pb in
  plain_top da = true -> RW.rereadable_inc sa = true -> (-1 <= c)%Z ->
  (Z.of_nat (List.length (RereadProofs.lc_list (RP.written_doc_inc sa))) <= 1000000)%Z ->
  (Z.of_nat (List.length (RereadProofs.bc_list (RP.written_doc_inc sa))) <= 1000000)%Z ->
  (Z.of_nat (List.length (RereadProofs.lit_list (RP.written_doc_inc sa))) <= 1000000)%Z ->
  fs_wf fs = true ->
  fs_lookup pa fs = Some (FNative (to_string_sd sa)) -> fs_lookup pb fs = Some ub ->
  read_plain fs pa true true c = Ok (s, c') ->
  exists pra prb,
    parse_unit true pa c (FNative (to_string_sd sa)) = Ok pra /\
    parse_unit true (path_join (dir_of pa) (include_name pa pb)) (pr_count pra) ub = Ok prb /\
    (forall p v, forallb ordinary_key p = true -> leaf_ok p v = true ->
       falls_off (Dict (sd_data (pr_sd pra))) p = true ->
       get_dpath (Dict (sd_data (pr_sd prb))) p = Some (Leaf v) ->
       get_dpath (Dict (sd_data s)) p = Some (Leaf v)) /\
    (forall k v, ordinary_key k = true -> ordinary_leaf v = true ->
       alookup k (sd_data (pr_sd pra)) = None ->
       alookup k (sd_data (pr_sd prb)) = Some (Leaf v) -> alookup k (sd_data s) = Some (Leaf v)) /\
    (sd_inc (pr_sd prb) = [] -> sd_data s = sd_data (merged_two (pr_sd pra) (pr_sd prb)) /\ c' = pr_count prb) /\
    (forall k t, sd_inc (pr_sd prb) = [] -> ordinary_key k = true -> ordinary t = true ->
       alookup k (sd_data (pr_sd pra)) = None ->
       alookup k (sd_data (pr_sd prb)) = Some t -> alookup k (sd_data s) = Some t) /\
    (forall k, ordinary_key k = true -> no_comment_word k = true -> alookup k da = None ->
       alookup k (sd_data (pr_sd pra)) = None).
Proof.
  intros fs pa pb da i c s c' ub Ha Hb sa Hp Hr Hc B1 B2 B3 Hwf Hfa Hfb Hread.
  destruct (dumped_parse_single_include pa pb da i c Hp Hr Hc B1 B2 B3) as (pra & id & Hpa & Hinc & _ & _ & Hkeys).
  fold sa in Hpa. 
  assert (Hfa' : fs_lookup (norm_path pa) fs = Some (FNative (to_string_sd sa))) by (rewrite Ha; exact Hfa).
  assert (Hfb' : fs_lookup (norm_path (path_join (dir_of pa) (include_name pa pb))) fs = Some ub)
    by (rewrite (rel_join_str pa pb Ha Hb); exact Hfb).
  destruct (read_first_include_parses _ _ _ _ _ _ _ _ _ _ _ _ _ _ Hread Hfa' Hpa Hinc Hfb') as (prb & inc' & c2 & Hpb & _).
  exists pra, prb. split; [exact Hpa|]. split; [exact Hpb|].
  assert (Hdeep : forall p v, forallb ordinary_key p = true -> leaf_ok p v = true ->
       falls_off (Dict (sd_data (pr_sd pra))) p = true ->
       get_dpath (Dict (sd_data (pr_sd prb))) p = Some (Leaf v) ->
       get_dpath (Dict (sd_data s)) p = Some (Leaf v)).
  { intros p v Ho Hv Hf Hg.
    exact (first_include_wins_deep fs pa true c s c' _ pra _ _ _ _ [] ub prb p v Hwf Hread Hfa' Hpa Hinc Hfb' Hpb Ho Hv Hf Hg). }
  split; [exact Hdeep|]. split.
  - intros k v Hk Hv Hn Hg. specialize (Hdeep [k] v). cbn [get_dpath forallb leaf_ok] in Hdeep.
    rewrite Hg in Hdeep. unfold falls_off in Hdeep. cbn [clear_above get_dpath] in Hdeep. rewrite Hn in Hdeep.
    rewrite Hk in Hdeep. specialize (Hdeep eq_refl Hv eq_refl eq_refl).
    destruct (alookup k (sd_data s)) as [t|]; [exact Hdeep|discriminate Hdeep].
  - assert (Hex : sd_inc (pr_sd prb) = [] -> sd_data s = sd_data (merged_two (pr_sd pra) (pr_sd prb)) /\ c' = pr_count prb).
    { intros Hni. exact (read_single_include_data fs pa true c s c' _ pra _ _ _ _ ub prb Hread Hfa' Hpa Hinc Hfb' Hpb Hni). }
    split; [exact Hex|]. split; [|exact Hkeys].
    intros k t Hni Hk Ho Hn Hl. rewrite (proj1 (Hex Hni)).
    pose proof (parse_unit_wf _ _ _ _ _ (fs_lookup_wf _ _ _ Hwf Hfb) Hpb) as Hwb. unfold wfs in Hwb.
    apply wf_Dict_iff in Hwb. destruct Hwb as [_ Hwb].
    pose proof (Forall_alookup _ _ _ _ Hwb Hl) as Hwt. unfold wfkv in Hwt. cbn [snd] in Hwt.
    apply merged_two_tree; try assumption.
    + exact (parse_unit_nodup _ _ _ _ _ Hpa).
    + exact (parse_unit_nodup _ _ _ _ _ Hpb).
Qed.
Print Assumptions include_dump_read_values.

(* ================================================================================================ *)
(* 3. C18: TOTALITY.  Both files are outputs of the writer; the read succeeds                          *)
(* ================================================================================================ *)

(* forward form of read_single_include_data: the read SUCCEEDS *)
Lemma read_single_include_total : forall fs root com c u0 pr0 i d n path u pr,
  fs_lookup (norm_path root) fs = Some u0 -> parse_unit com root c u0 = Ok pr0 ->
  sd_inc (pr_sd pr0) = [(i, (d, n, path))] ->
  fs_lookup (norm_path path) fs = Some u -> parse_unit com path (pr_count pr0) u = Ok pr ->
  sd_inc (pr_sd pr) = [] ->
  exists s, read_plain fs root true com c = Ok (s, pr_count pr) /\
            sd_data s = sd_data (merged_two (pr_sd pr0) (pr_sd pr)).
Proof.
  intros fs root com c u0 pr0 i d n path u pr Hl0 Hp0 Hinc Hl Hp Hni.
  unfold read_plain. rewrite Hl0, Hp0. cbn [bind]. unfold merge_includes. rewrite merge_includes_rec_S, Hinc.
  cbn [fold_left].
  assert (Hc : in_chain (norm_path path) [] = false) by reflexivity.
  rewrite (inc_step_valid _ fs com [] sd_empty (pr_count pr0) i d n path u Hc Hl).
  rewrite Hp. cbn [bind]. unfold sub_result. rewrite Hni. cbn [bind fst snd].
  eexists. split; [reflexivity|]. reflexivity.
Qed.

(* the including dict is dumped (NativeFormatter, with the include), the included file is the writer's text of a plain
   dict db of the writer's round-trip class (C01: unique keys, writable, at most a million quoted literals, none more
   than ten keys deep).  Then the read of pa SUCCEEDS; its data are the model's merge (in its merge order) of the parse
   of the dumped file and of db with every leaf as written and re-read. *)
Theorem include_dump_read_total : forall fs pa pb da db i c,
  norm_path pa = pa -> norm_path pb = pb ->
  let sa := sd_with_include da i (include_name pa pb) pb in
  plain_top da = true -> RW.rereadable_inc sa = true -> (-1 <= c)%Z ->
  (Z.of_nat (List.length (RereadProofs.lc_list (RP.written_doc_inc sa))) <= 1000000)%Z ->
  (Z.of_nat (List.length (RereadProofs.bc_list (RP.written_doc_inc sa))) <= 1000000)%Z ->
  (Z.of_nat (List.length (RereadProofs.lit_list (RP.written_doc_inc sa))) <= 1000000)%Z ->
  wf (Dict db) = true -> writable_tree (Dict db) = true ->
  (Z.of_nat (E2EFullProofs.nq (Dict db)) <= 1000000)%Z -> E2EFullProofs.quoted_within 11 (Dict db) = true ->
  fs_lookup pa fs = Some (FNative (to_string_sd sa)) -> fs_lookup pb fs = Some (FNative (to_string_plain db)) ->
  exists pra s c',
    parse_unit true pa c (FNative (to_string_sd sa)) = Ok pra /\
    read_plain fs pa true true c = Ok (s, c') /\
    sd_data s = sd_data (merged_two (pr_sd pra) (mkSD (kvs_of (map_leaves written_value (Dict db))) [] [] [] [])) /\
    (forall k t, ordinary_key k = true -> ordinary t = true ->
       alookup k (sd_data (pr_sd pra)) = None ->
       alookup k (kvs_of (map_leaves written_value (Dict db))) = Some t -> alookup k (sd_data s) = Some t) /\
    (forall k, ordinary_key k = true -> no_comment_word k = true -> alookup k da = None ->
       alookup k (sd_data (pr_sd pra)) = None).
Proof.
  intros fs pa pb da db i c Ha Hb sa Hp Hr Hc B1 B2 B3 Hw Hwr Hn Hq Hfa Hfb.
  destruct (dumped_parse_single_include pa pb da i c Hp Hr Hc B1 B2 B3) as (pra & id & Hpa & Hinc & _ & Hge & Hkeys).
  fold sa in Hpa.
  assert (Hfa' : fs_lookup (norm_path pa) fs = Some (FNative (to_string_sd sa))) by (rewrite Ha; exact Hfa).
  assert (Hfb' : fs_lookup (norm_path (path_join (dir_of pa) (include_name pa pb))) fs = Some (FNative (to_string_plain db)))
    by (rewrite (rel_join_str pa pb Ha Hb); exact Hfb).
  destruct (E2EFullProofs.roundtrip_native_partial db (dir_of (path_join (dir_of pa) (include_name pa pb))) (pr_count pra)
              Hw Hwr Hge Hn Hq) as [count' Hpb].
  destruct (read_single_include_total fs pa true c _ pra _ _ _ _ _ (mkParsed (mkSD (kvs_of (map_leaves written_value (Dict db))) [] [] [] []) count')
              Hfa' Hpa Hinc Hfb' Hpb eq_refl) as [s [Hread Hdata]].
  exists pra, s, count'. split; [exact Hpa|]. split; [exact Hread|]. split; [exact Hdata|]. split; [|exact Hkeys].
  intros k t Hk Ho Hna Hl. rewrite Hdata.
  assert (Hwb : wf (Dict (kvs_of (map_leaves written_value (Dict db)))) = true).
  { rewrite TokProofs.map_leaves_dict. cbn [kvs_of]. rewrite <- TokProofs.map_leaves_dict, E2EProofs.wf_map_leaves. exact Hw. }
  apply wf_Dict_iff in Hwb. destruct Hwb as [Hnb Hwb].
  pose proof (Forall_alookup _ _ _ _ Hwb Hl) as Hwt. unfold wfkv in Hwt. cbn [snd] in Hwt.
  apply merged_two_tree; try assumption. exact (parse_unit_nodup _ _ _ _ _ Hpa).
Qed.
Print Assumptions include_dump_read_total.
