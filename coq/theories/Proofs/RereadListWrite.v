(* LIST VERSION of RereadWrite.v: the same development over the event stream of RereadListTree.v, which enters lists
   (comment entries inside dicts that are list items, at any nesting).  Statements and proofs are those of RereadWrite.v
   with the cases of the list skeleton events (ELOpen / EIOpen / EDOpen / ELEnd) added and the tree recursions entering
   lists; see RereadList.v for the interface. *)
(* C03 / C12 on documents with comments, part 3: the writer.
   to_string_sd on a re-readable SDict: the placeholder lines of the formatted body are replaced by the comment texts,
   the default header is added, trailing spaces are removed. *)
From Coq Require Import String.
From Coq Require Import NArith ZArith List Bool Lia ZifyBool ZifyN ZifyNat.
From DictIO Require Import Chars Str Value Scalar KeyPath SDict Layout Lexer TokParser TreeSpec NativeSpec LayoutSpec E2ESpec.
From DictIO Require ScalarProofs SDictProofs TokProofs LayoutProofs SemProofs QuoteProofs KeyPathProofs.
From DictIO Require RereadPlain.
From DictIO Require Import E2EProofs E2EHoles E2EInsert E2EKeyTok E2EFullProofs RereadStr RereadListTree.
Import ListNotations.
Import LayoutProofs.
Open Scope N_scope.

(* ================================================================================================ *)
(* 1. no comment placeholder starts inside the text of an ordinary statement                        *)
(* ================================================================================================ *)

Section Closed.
  Variable p : list N.          (* a comment placeholder *)
  Hypothesis Hpc : forallb phc p = true.
  Hypothesis Hpne : p <> [].
  (* texts without the word COMMENT do not contain p *)
  Hypothesis Hpw : forall Y : list N, contains w_COMMENT Y = false -> contains p Y = false.

  Lemma p_nosp : has_char c_sp p = false. Proof. apply phc_not_in; [reflexivity|exact Hpc]. Qed.
  Lemma p_nosemi : has_char c_semi p = false. Proof. apply phc_not_in; [reflexivity|exact Hpc]. Qed.
  Lemma p_nolf : has_char c_lf p = false. Proof. apply phc_not_in; [reflexivity|exact Hpc]. Qed.

  Lemma nores_nocomment (a : list N) : no_reserved_word a = true -> contains w_COMMENT a = false.
  Proof.
    unfold no_reserved_word. intros H. apply andb_true_iff in H. destruct H as [H _]. apply andb_true_iff in H. destruct H as [H _].
    apply andb_true_iff in H. destruct H as [H _]. apply negb_true_iff in H. exact H.
  Qed.

  Lemma free_tok (a : list N) : simple_tok a = true -> contains p a = false.
  Proof. intros H. apply Hpw, nores_nocomment. exact (proj2 (proj2 (simple_tok_inv a H))). Qed.

  Lemma free_leaf v : writable_leaf v = true -> contains p (FS v) = false.
  Proof.
    intros Hv. destruct (writable_leaf_cases v Hv) as [E|(E & s & -> & Hq)]; [exact (free_tok _ E)|].
    destruct (qlit_form s Hq) as (_ & Hc). destruct Hq as [Hqa _]. destruct (quotable_inv s Hqa) as (_ & Hr & _).
    pose proof (Hpw s (nores_nocomment s Hr)) as Hs. cbn [format_scalar].
    destruct Hc as [[-> _]|[-> _]]; unfold sq, dq;
      rewrite (contains_cons_sep p _ _ Hpne) by (apply phc_not_in; [reflexivity|exact Hpc]);
      rewrite (contains_snoc_sep p _ _ Hpne) by (apply phc_not_in; [reflexivity|exact Hpc]); exact Hs.
  Qed.

  (* a line: closed by its line feed *)
  Lemma Gc_line lvl (txt : list N) : contains p txt = false -> Gc p (line lvl txt true).
  Proof.
    intros H. unfold line, indent_of. rewrite app_assoc. apply (Gc_term p _ c_lf Hpc Hpne); [|reflexivity].
    rewrite (contains_spaces p _ _ Hpne p_nosp). exact H.
  Qed.

  Lemma Gg_line_open lvl (txt : list N) : contains p txt = false -> Gg p (line lvl txt false).
  Proof.
    intros H. unfold line, indent_of. rewrite app_nil_r. apply (Gg_free p _ Hpc Hpne).
    rewrite (contains_spaces p _ _ Hpne p_nosp). exact H.
  Qed.

  Lemma free_kv (a b : list N) n : contains p a = false -> contains p b = false ->
    contains p (a ++ spaces (S n) ++ b ++ [c_semi]) = false.
  Proof.
    intros Ha Hb. cbn [spaces repeat app]. fold (spaces n). rewrite (contains_sep p c_sp a _ Hpne p_nosp), Ha. cbn [orb].
    rewrite (contains_spaces p _ _ Hpne p_nosp), (contains_snoc_sep p _ _ Hpne p_nosemi). exact Hb.
  Qed.

  Lemma Gc_leaf_line lvl k v : simple_key k = true -> writable_leaf v = true -> Gc p (leaf_line lvl k v).
  Proof.
    intros Hk Hv. unfold leaf_line. apply Gc_line. destruct (simple_key_inv k Hk) as (Hkt & _).
    destruct (Nat.max 8 (30 - length (FK k) - 4 * lvl)) as [|n] eqn:En; [lia|].
    apply free_kv; [exact (free_tok _ Hkt)|exact (free_leaf v Hv)].
  Qed.

  Lemma free_one c : phc c = false -> contains p [c] = false.
  Proof.
    intros Hc. pose proof (contains_cons_sep p c [] Hpne (phc_not_in c p Hc Hpc)) as H.
    rewrite (contains_nil_r p Hpne) in H. exact H.
  Qed.

  (* the text of a list (and of the dicts and lists inside it) *)
  Definition Fr (t : tree) : Prop :=
    ktree writable_leaf t = true -> forall lvl anc, match t with Leaf _ => True | _ => Gc p (fmt_tree FS FK lvl anc t) end.

  Lemma Fr_entries kvs : Forall (fun kc => Fr (snd kc)) kvs -> ktree writable_leaf (Dict kvs) = true ->
    forall lvl, Gc p (fentries lvl kvs).
  Proof.
    induction 1 as [|[k c] kvs Hc _ IH]; intros Hs lvl; [apply Gc_nil|].
    rewrite ktree_dict_cons in Hs. apply andb_true_iff in Hs. destruct Hs as [Hs Hs3].
    apply andb_true_iff in Hs. destruct Hs as [Hs1 Hs2]. cbn [snd] in Hc. specialize (Hc Hs2).
    destruct (simple_key_inv k Hs1) as (Hkt & Hkx & _).
    cbn [fentries]. apply Gc_app; [|exact (IH Hs3 lvl)]. destruct c as [v|d|l].
    - exact (Gc_leaf_line lvl k v Hs1 Hs2).
    - rewrite Hkx. apply Gc_app; [apply Gc_line, free_tok; exact Hkt|]. apply Gc_app; [apply Gc_line, free_one; reflexivity|].
      apply Gc_app; [exact (Hc (S lvl) false)|apply Gc_line, free_one; reflexivity].
    - rewrite Hkx. apply Gc_app; [apply Gc_line, free_tok; exact Hkt|exact (Hc lvl false)].
  Qed.

  Definition hd_sp (X : list N) : Prop := match X with [] => True | c :: _ => phc c = false end.

  Lemma hd_sp_line_S lvl txt nl (X : list N) : hd_sp (line (S lvl) txt nl ++ X).
  Proof. unfold line, indent_of. replace (4 * S lvl)%nat with (S (3 + 4 * lvl)) by lia. reflexivity. Qed.

  Lemma Fr_items ts : Forall Fr ts -> ktree writable_leaf (Lst ts) = true ->
    forall lvl len idx first, Gg p (fitems lvl len ts idx first) /\ hd_sp (fitems lvl len ts idx first).
  Proof.
    induction 1 as [|c l Hc _ IH]; intros Hs lvl len idx first; [split; [apply Gc_Gg, Gc_nil|exact I]|].
    rewrite ktree_lst_cons in Hs. apply andb_true_iff in Hs. destruct Hs as [Hs1 Hs2]. specialize (Hc Hs1).
    cbn [fitems]. destruct c as [v|d|l'].
    - destruct (list_item_cases lvl first idx len v) as (lv & pad & nl & f' & E). rewrite E.
      destruct (IH Hs2 lvl len (S idx) f') as [I1 I2]. split; [|apply hd_sp_line_S].
      assert (Hfree : contains p (FS v ++ spaces pad) = false).
      { destruct pad as [|pad]; [cbn [spaces repeat]; rewrite app_nil_r; exact (free_leaf v Hs1)|].
        cbn [spaces repeat]. fold (spaces pad). rewrite (contains_sep p c_sp _ _ Hpne p_nosp), (free_leaf v Hs1). cbn [orb].
        rewrite <- (app_nil_r (spaces pad)), (contains_spaces p _ _ Hpne p_nosp). apply contains_nil_r. exact Hpne. }
      destruct nl.
      + apply Gg_app_c; [apply Gc_line; exact Hfree|exact I1].
      + apply Gg_app; [apply Gg_line_open; exact Hfree|exact I1|exact I2].
    - destruct (IH Hs2 lvl len (S idx) true) as [I1 I2]. split; [|apply hd_sp_line_S].
      apply Gg_app_c; [apply Gc_line; apply contains_nil_r; exact Hpne|].
      apply Gg_app_c; [apply Gc_line, free_one; reflexivity|].
      apply Gg_app_c; [exact (Hc (S (S lvl)) false)|]. apply Gg_app_c; [apply Gc_line, free_one; reflexivity|exact I1].
    - destruct (IH Hs2 lvl len (S idx) first) as [I1 I2]. split.
      + apply Gg_app_c; [exact (Hc (S lvl) true)|exact I1].
      + rewrite fmt_lst. rewrite <- !app_assoc. apply hd_sp_line_S.
  Qed.

  Lemma Fr_all : forall t, Fr t.
  Proof.
    induction t as [v|kvs IH|ts IH] using tree_ind'; intros Hs lvl anc; [exact I| |].
    - rewrite fmt_dict. apply Fr_entries; assumption.
    - rewrite fmt_lst. apply Gc_app; [apply Gc_line, free_one; reflexivity|].
      destruct (Fr_items ts IH Hs lvl (length ts) 0%nat true) as [I1 _].
      apply Gc_app_g; [exact I1| |].
      + apply Gc_line. destruct anc; [apply free_one; reflexivity|].
        change [c_rpar; c_semi] with ([c_rpar] ++ [c_semi]). rewrite (contains_snoc_sep p _ _ Hpne p_nosemi). apply free_one. reflexivity.
      + unfold line, indent_of. destruct (4 * lvl)%nat; destruct anc; reflexivity.
  Qed.

  (* a run of scalar items *)
  Lemma Gg_run lvl len idx first run : forallb writable_leaf run = true -> Gg p (rtext lvl len idx first run).
  Proof.
    intros H. unfold rtext. apply (Fr_items (map Leaf run)); [|exact (ktree_run run H)].
    apply Forall_forall. intros t Ht. apply in_map_iff in Ht. destruct Ht as (v & <- & _). intros _ l a. exact I.
  Qed.
  Lemma Gc_close lvl anc : Gc p (line lvl (close_txt anc) true) /\ match line lvl (close_txt anc) true with [] => False | c :: _ => phc c = false end.
  Proof.
    split.
    - apply Gc_line. destruct anc; cbn [close_txt]; [apply free_one; reflexivity|].
      change [c_rpar; c_semi] with ([c_rpar] ++ [c_semi]). rewrite (contains_snoc_sep p _ _ Hpne p_nosemi). apply free_one. reflexivity.
    - unfold line, indent_of. destruct (4 * lvl)%nat; destruct anc; reflexivity.
  Qed.
  Lemma hd_line_S lvl txt nl (X : list N) : match line (S lvl) txt nl ++ X with [] => False | c :: _ => phc c = false end.
  Proof. unfold line, indent_of. replace (4 * S lvl)%nat with (S (3 + 4 * lvl)) by lia. reflexivity. Qed.

  (* ordinary events are closed *)
  Lemma Gc_event cm e : ev_ok e -> (match e with ECm _ _ _ => False | _ => True end) -> Gc p (ev_text cm e).
  Proof.
    intros Hok Hne. destruct e as [lvl k v|lvl k|lvl|lvl n x|lvl k|lvl len idx first run|lvl len idx first run|lvl anc len idx first run];
      cbn [ev_text ev_ok] in *; [| | |contradiction| | | |].
    - destruct Hok as [Hk Hv]. exact (Gc_leaf_line lvl k v Hk Hv).
    - destruct (simple_key_inv k Hok) as (Hkt & Hkx & _). rewrite Hkx.
      apply Gc_app; [apply Gc_line, free_tok; exact Hkt|apply Gc_line, free_one; reflexivity].
    - apply Gc_line, free_one. reflexivity.
    - destruct (simple_key_inv k Hok) as (Hkt & Hkx & _). rewrite Hkx.
      apply Gc_app; [apply Gc_line, free_tok; exact Hkt|apply Gc_line, free_one; reflexivity].
    - apply Gc_app_g; [exact (Gg_run lvl len idx first run Hok)|apply Gc_line, free_one; reflexivity|].
      rewrite <- (app_nil_r (line (S lvl) [c_lpar] true)). apply hd_line_S.
    - apply Gc_app_g; [exact (Gg_run lvl len idx first run Hok)| |apply hd_line_S].
      apply Gc_app; [apply Gc_line; apply contains_nil_r; exact Hpne|apply Gc_line, free_one; reflexivity].
    - destruct (Gc_close lvl anc) as [A B]. apply Gc_app_g; [exact (Gg_run lvl len idx first run Hok)|exact A|exact B].
  Qed.
End Closed.

(* ================================================================================================ *)
(* 2. placeholder names and their lines                                                             *)
(* ================================================================================================ *)

Definition phname (n : str) : Prop := exists w i, cw w /\ i < 1000000 /\ n = placeholder w i.

Lemma phc_facts c : phc c = true -> is_space c = false /\ simple_char c = true.
Proof. unfold phc. intros H. split; tch. Qed.

Lemma cph_length w i : cw w -> i < 1000000 -> length (placeholder w i) = (length w + 6)%nat.
Proof. intros _ Hi. unfold placeholder. rewrite app_length, (pad6_length i Hi). reflexivity. Qed.

Lemma phname_facts n : phname n ->
  forallb phc n = true /\ n <> [] /\ (forall Y : list N, contains w_COMMENT Y = false -> contains n Y = false) /\
  (forall c, In c n -> is_space c = false) /\ forallb simple_char n = true.
Proof.
  intros (w & i & Hw & Hi & ->). pose proof (cph_chars w i Hw) as Hc. split; [exact Hc|]. split; [exact (cph_ne w i Hw)|]. split; [|split].
  - intros Y HY. apply phfree_contains; [apply phfree_of_nocomment; exact HY|exact Hw|exact Hi].
  - intros c Hin. exact (proj1 (phc_facts c (forallb_In _ _ _ Hc Hin))).
  - apply forallb_forall. intros c Hin. exact (proj2 (phc_facts c (forallb_In _ _ _ Hc Hin))).
Qed.

Lemma ph_contains p q : phname p -> phname q -> contains p q = true -> p = q.
Proof.
  intros (w & i & Hw & Hi & ->) (w' & j & Hw' & Hj & ->) Hc.
  assert (ELC : w_LINECOMMENT = [76; 73; 78; 69; 67; 79; 77; 77; 69; 78; 84]) by reflexivity.
  assert (EBC : w_BLOCKCOMMENT = [66; 76; 79; 67; 75; 67; 79; 77; 77; 69; 78; 84]) by reflexivity.
  destruct Hw as [-> | ->]; destruct Hw' as [-> | ->].
  - apply contains_same_length; [|exact Hc]. rewrite !cph_length by (try assumption; left; reflexivity). reflexivity.
  - exfalso. destruct (contains_start _ _ (cph_ne _ i (or_introl eq_refl)) Hc) as (k & Hk & Hs).
    rewrite !cph_length in Hk by (try assumption; first [left; reflexivity|right; reflexivity]).
    unfold placeholder in Hs. rewrite ELC, EBC in Hs, Hk. cbn [length] in Hk.
    destruct k as [|[|k]]; [| |lia]; cbn [app drop_n starts_with] in Hs.
    + replace (76 =? 66) with false in Hs by reflexivity. discriminate Hs.
    + replace (73 =? 79) with false in Hs by reflexivity. rewrite andb_false_r in Hs. discriminate Hs.
  - exfalso. apply contains_length in Hc. rewrite !cph_length in Hc by (try assumption; first [left; reflexivity|right; reflexivity]).
    cbn in Hc. lia.
  - apply contains_same_length; [|exact Hc]. rewrite !cph_length by (try assumption; right; reflexivity). reflexivity.
Qed.

Lemma ph_format n : phname n -> format_string n = n.
Proof. intros H. destruct (phname_facts n H) as (_ & Hne & _ & _ & Hs). apply RereadPlain.format_string_simple; assumption. Qed.

Lemma cm_pair_ph lvl n : phname n ->
  cm_pair lvl n n = line lvl (n ++ spaces (Nat.max 8 (30 - length n - 4 * lvl)) ++ n ++ [c_semi]) true.
Proof. intros H. unfold cm_pair, leaf_line. cbn [format_key format_scalar]. rewrite (ph_format n H). reflexivity. Qed.

Section Lines.
  Variable p : str.
  Hypothesis Hp : phname p.

  Lemma Gc_other_pair lvl q : phname q -> p <> q -> Gc p (cm_pair lvl q q).
  Proof.
    intros Hq Hne. destruct (phname_facts p Hp) as (Hpc & Hpne & Hpw & _).
    rewrite (cm_pair_ph lvl q Hq). apply (Gc_line p Hpc Hpne).
    assert (Hf : contains p q = false).
    { destruct (contains p q) eqn:E; [|reflexivity]. exfalso. exact (Hne (ph_contains p q Hp Hq E)). }
    destruct (Nat.max 8 (30 - length q - 4 * lvl)) as [|m] eqn:En; [lia|]. apply (free_kv p Hpc Hpne); exact Hf.
  Qed.

  Lemma Gc_text_line lvl (t : list N) : phfree t = true -> Gc p (line lvl t true).
  Proof.
    intros Ht. destruct (phname_facts p Hp) as (Hpc & Hpne & _). apply (Gc_line p Hpc Hpne).
    destruct Hp as (w & i & Hw & Hi & ->). apply phfree_contains; assumption.
  Qed.

  Lemma ns_spaces n (Z : list N) : ns p (spaces n) Z.
  Proof.
    destruct (phname_facts p Hp) as (Hpc & Hpne & _). intros i Hi. unfold spaces in *. rewrite repeat_length in Hi.
    rewrite drop_n_app_lt by (rewrite repeat_length; lia).
    assert (E : exists m, drop_n i (repeat c_sp n) = c_sp :: repeat c_sp m).
    { clear -Hi. revert i Hi. induction n as [|n IH]; intros i Hi; [lia|]. destruct i as [|i]; [exists n; reflexivity|].
      cbn [repeat drop_n]. apply IH. lia. }
    destruct E as [m ->]. cbn [app]. destruct p as [|x p']; [congruence|]. cbn [starts_with forallb] in *.
    apply andb_true_iff in Hpc. destruct Hpc as [Hx _]. destruct (x =? c_sp) eqn:E; [|reflexivity].
    apply N.eqb_eq in E. subst x. discriminate Hx.
  Qed.

  Lemma start_lf (Z : list N) : starts_with p (c_lf :: Z) = false.
  Proof.
    destruct (phname_facts p Hp) as (Hpc & Hpne & _). destruct p as [|x p']; [congruence|]. cbn [starts_with forallb] in *.
    apply andb_true_iff in Hpc. destruct Hpc as [Hx _]. destruct (x =? c_lf) eqn:E; [|reflexivity].
    apply N.eqb_eq in E. subst x. discriminate Hx.
  Qed.

  (* the placeholder line of p itself *)
  Lemma subst_own_line lvl repl (Z : list N) :
    subst p repl (cm_pair lvl p p ++ Z) = (line lvl repl true ++ fst (subst p repl Z), true).
  Proof.
    destruct (phname_facts p Hp) as (Hpc & Hpne & _ & Hsp & _).
    rewrite (cm_pair_ph lvl p Hp). unfold line, indent_of. rewrite <- !app_assoc.
    rewrite (subst_skip p repl _ _ (ns_spaces _ _)).
    destruct (Nat.max 8 (30 - length p - 4 * lvl)) as [|m] eqn:En; [lia|].
    cbn [app]. rewrite (subst_hit p repl _ (c_lf :: Z)).
    - rewrite subst_miss by (apply match_needs_start, start_lf). cbn [fst snd]. rewrite <- ?app_assoc. reflexivity.
    - apply match_pair_line; [exact Hpne|exact Hsp|lia].
  Qed.

  Lemma subst1_own_line lvl repl (Z : list N) :
    subst1 p repl (cm_pair lvl p p ++ Z) = (line lvl repl true ++ Z, true).
  Proof.
    destruct (phname_facts p Hp) as (Hpc & Hpne & _ & Hsp & _).
    rewrite (cm_pair_ph lvl p Hp). unfold line, indent_of. rewrite <- !app_assoc.
    rewrite (subst1_skip p repl _ _ (ns_spaces _ _)).
    destruct (Nat.max 8 (30 - length p - 4 * lvl)) as [|m] eqn:En; [lia|].
    cbn [app]. rewrite (subst1_hit p repl _ (c_lf :: Z)).
    - cbn [fst snd]. rewrite <- ?app_assoc. reflexivity.
    - apply match_pair_line; [exact Hpne|exact Hsp|lia].
  Qed.
End Lines.

(* ================================================================================================ *)
(* 3. substitution in the text of an event list                                                     *)
(* ================================================================================================ *)

Definition stt := list (str * str).
Fixpoint slook (n : str) (st : stt) : option str :=
  match st with [] => None | (m, t) :: st' => if str_eqb n m then Some t else slook n st' end.
(* comment entries already replaced show their text, the others their placeholder line *)
Definition cmS (st : stt) (lvl : nat) (n x : str) : str :=
  match slook n st with Some t => line lvl t true | None => cm_pair lvl n x end.

Definition cnames (es : list ev) : list str := map (fun c => snd (fst c)) (cms_of es).
(* comment events are placeholder entries *)
Definition ph_events (es : list ev) : Prop := forall lvl n x, In (ECm lvl n x) es -> x = n /\ phname n.
Definition st_free (st : stt) : Prop := forall n t, slook n st = Some t -> forall p lvl, phname p -> Gc p (line lvl t true).

Lemma cnames_app a b : cnames (a ++ b) = cnames a ++ cnames b.
Proof. unfold cnames. rewrite cms_of_app, map_app. reflexivity. Qed.

Lemma cnames_cm lvl n x es : cnames (ECm lvl n x :: es) = n :: cnames es.
Proof. reflexivity. Qed.

Lemma cnames_In es n : In n (cnames es) -> exists es1 lvl x es2, es = es1 ++ ECm lvl n x :: es2.
Proof.
  induction es as [|e es IH]; intros H; [destruct H|]. unfold cnames in H. cbn [cms_of] in H.
  destruct e as [lvl k v|lvl k|lvl|lvl m x|lvl k|lvl len idx first run|lvl len idx first run|lvl anc len idx first run]; cbn [ev_cm] in H;
    try (destruct (IH H) as (es1 & lvl' & x' & es2 & ->); eexists (_ :: es1), lvl', x', es2; reflexivity).
  cbn [map fst snd] in H. destruct H as [<-|H]; [exists [], lvl, x, es; reflexivity|].
  destruct (IH H) as (es1 & lvl' & x' & es2 & ->). exists (ECm lvl m x :: es1), lvl', x', es2. reflexivity.
Qed.

Lemma In_cnames lvl n x es : In (ECm lvl n x) es -> In n (cnames es).
Proof.
  intros H. apply in_split in H. destruct H as (a & b & ->). rewrite cnames_app, cnames_cm. apply in_or_app. right. left. reflexivity.
Qed.

Section SubstEvents.
  Variable p : str.
  Hypothesis Hp : phname p.

  Lemma Gc_cat st es : Forall ev_ok es -> ph_events es -> st_free st ->
    (forall lvl x, In (ECm lvl p x) es -> slook p st <> None) -> Gc p (cat (cmS st) es).
  Proof.
    intros Hok Hph Hst Habs. destruct (phname_facts p Hp) as (Hpc & Hpne & Hpw & _).
    induction es as [|e es IH]; [apply Gc_nil|]. rewrite cat_cons. inversion Hok as [|e' es' He Hes]; subst.
    apply Gc_app.
    - destruct e as [lvl k v|lvl k|lvl|lvl n x|lvl k|lvl len idx first run|lvl len idx first run|lvl anc len idx first run]; try (apply (Gc_event p Hpc Hpne Hpw); [exact He|exact I]).
      cbn [ev_text]. unfold cmS. destruct (Hph lvl n x (or_introl eq_refl)) as [-> Hn].
      destruct (slook n st) as [t|] eqn:El.
      + exact (Hst n t El p lvl Hp).
      + apply (Gc_other_pair p Hp lvl n Hn). intros <-. exact (Habs lvl p (or_introl eq_refl) El).
    - apply IH; [exact Hes| |].
      + intros lvl n x Hin. apply (Hph lvl n x). right. exact Hin.
      + intros lvl x Hin. apply (Habs lvl x). right. exact Hin.
  Qed.

  (* the name p does not occur among the events, or its line is already replaced *)
  Lemma subst_absent st es (repl : str) (Z : list N) : Forall ev_ok es -> ph_events es -> st_free st ->
    (forall lvl x, In (ECm lvl p x) es -> slook p st <> None) ->
    subst p repl (cat (cmS st) es ++ Z) = (cat (cmS st) es ++ fst (subst p repl Z), snd (subst p repl Z)).
  Proof. intros H1 H2 H3 H4. apply subst_skip. apply Gc_cat; assumption. Qed.

  Lemma subst1_absent st es (repl : str) (Z : list N) : Forall ev_ok es -> ph_events es -> st_free st ->
    (forall lvl x, In (ECm lvl p x) es -> slook p st <> None) ->
    subst1 p repl (cat (cmS st) es ++ Z) = (cat (cmS st) es ++ fst (subst1 p repl Z), snd (subst1 p repl Z)).
  Proof. intros H1 H2 H3 H4. apply subst1_skip. apply Gc_cat; assumption. Qed.

  Lemma cmS_cons_other st (q t : str) lvl n x : n <> q -> cmS ((q, t) :: st) lvl n x = cmS st lvl n x.
  Proof.
    intros Hne. unfold cmS. cbn [slook]. destruct (str_eqb n q) eqn:E; [|reflexivity].
    apply SDictProofs.str_eqb_eq in E. congruence.
  Qed.

  Lemma cat_cmS_other st (q t : str) es : ~ In q (cnames es) -> cat (cmS ((q, t) :: st)) es = cat (cmS st) es.
  Proof.
    induction es as [|e es IH]; intros Hn; [reflexivity|]. rewrite !cat_cons.
    destruct e as [lvl k v|lvl k|lvl|lvl n x|lvl k|lvl len idx first run|lvl len idx first run|lvl anc len idx first run]; try (rewrite IH; [reflexivity|exact Hn]).
    rewrite cnames_cm in Hn. cbn [ev_text]. rewrite cmS_cons_other, IH; [reflexivity| |].
    - intros Hin. apply Hn. right. exact Hin.
    - intros ->. apply Hn. left. reflexivity.
  Qed.

  (* p names exactly one event, whose line is not yet replaced *)
  Lemma subst_present st es (repl : str) (Z : list N) : Forall ev_ok es -> ph_events es -> st_free st ->
    NoDup (cnames es) -> In p (cnames es) -> slook p st = None ->
    subst p repl (cat (cmS st) es ++ Z) = (cat (cmS ((p, repl) :: st)) es ++ fst (subst p repl Z), true) /\
    subst1 p repl (cat (cmS st) es ++ Z) = (cat (cmS ((p, repl) :: st)) es ++ Z, true).
  Proof.
    intros Hok Hph Hst Hnd Hin Hl. destruct (cnames_In es p Hin) as (es1 & lvl & x & es2 & ->).
    rewrite cnames_app, cnames_cm in Hnd.
    pose proof (NoDup_remove_2 _ _ _ Hnd) as Hnot.
    assert (Hn1 : ~ In p (cnames es1)) by (intros H; apply Hnot; apply in_or_app; left; exact H).
    assert (Hn2 : ~ In p (cnames es2)) by (intros H; apply Hnot; apply in_or_app; right; exact H).
    destruct (Hph lvl p x ltac:(apply in_or_app; right; left; reflexivity)) as [-> _].
    apply Forall_app in Hok. destruct Hok as [Hok1 Hok2]. inversion Hok2 as [|e' es' _ Hok2']; subst.
    assert (Hph1 : ph_events es1) by (intros l n y H; apply (Hph l n y); apply in_or_app; left; exact H).
    assert (Hph2 : ph_events es2) by (intros l n y H; apply (Hph l n y); apply in_or_app; right; right; exact H).
    assert (Ha1 : forall l y, In (ECm l p y) es1 -> slook p st <> None) by (intros l y H; exfalso; apply Hn1; exact (In_cnames _ _ _ _ H)).
    assert (Ha2 : forall l y, In (ECm l p y) es2 -> slook p st <> None) by (intros l y H; exfalso; apply Hn2; exact (In_cnames _ _ _ _ H)).
    rewrite !cat_app, !cat_cons, (cat_cmS_other st p repl es1 Hn1), (cat_cmS_other st p repl es2 Hn2).
    assert (E1 : ev_text (cmS st) (ECm lvl p p) = cm_pair lvl p p) by (cbn [ev_text]; unfold cmS; rewrite Hl; reflexivity).
    assert (E2 : ev_text (cmS ((p, repl) :: st)) (ECm lvl p p) = line lvl repl true).
    { cbn [ev_text]. unfold cmS. cbn [slook]. rewrite ScalarProofs.str_eqb_refl. reflexivity. }
    rewrite E1, E2.
    rewrite <- !app_assoc. split.
    - rewrite (subst_absent st es1 repl _ Hok1 Hph1 Hst Ha1). rewrite (subst_own_line p Hp lvl repl).
      rewrite (subst_absent st es2 repl Z Hok2' Hph2 Hst Ha2). cbn [fst snd]. rewrite <- ?app_assoc. reflexivity.
    - rewrite (subst1_absent st es1 repl _ Hok1 Hph1 Hst Ha1). rewrite (subst1_own_line p Hp lvl repl). reflexivity.
  Qed.
  Lemma subst_absent0 st es (repl : str) : Forall ev_ok es -> ph_events es -> st_free st ->
    (forall lvl x, In (ECm lvl p x) es -> slook p st <> None) ->
    subst p repl (cat (cmS st) es) = (cat (cmS st) es, false) /\ subst1 p repl (cat (cmS st) es) = (cat (cmS st) es, false).
  Proof.
    intros H1 H2 H3 H4. pose proof (subst_absent st es repl [] H1 H2 H3 H4) as A. pose proof (subst1_absent st es repl [] H1 H2 H3 H4) as B.
    rewrite subst_nil in A. rewrite subst1_nil in B. cbn [fst snd] in A, B. rewrite !app_nil_r in A, B. split; assumption.
  Qed.

  Lemma subst_present0 st es (repl : str) : Forall ev_ok es -> ph_events es -> st_free st ->
    NoDup (cnames es) -> In p (cnames es) -> slook p st = None ->
    subst p repl (cat (cmS st) es) = (cat (cmS ((p, repl) :: st)) es, true) /\
    subst1 p repl (cat (cmS st) es) = (cat (cmS ((p, repl) :: st)) es, true).
  Proof.
    intros H1 H2 H3 H4 H5 H6. destruct (subst_present st es repl [] H1 H2 H3 H4 H5 H6) as [A B].
    rewrite subst_nil in A. cbn [fst] in A. rewrite !app_nil_r in A, B. split; assumption.
  Qed.
End SubstEvents.

(* ================================================================================================ *)
(* 4. insert_block_comments                                                                         *)
(* ================================================================================================ *)

Lemma native_header_split : native_header = nh_txt ++ [c_lf].
Proof. vm_compute. reflexivity. Qed.
Lemma nh_good : bcgood nh_txt = true /\ phfree nh_txt = true /\ has_cpp_mark nh_txt = true.
Proof. vm_compute. repeat split; reflexivity. Qed.

Lemma bph_name i : i < 1000000 -> phname (bph i).
Proof. intros H. exists w_BLOCKCOMMENT, i. split; [right; reflexivity|split; [exact H|reflexivity]]. Qed.
Lemma lph_name i : i < 1000000 -> phname (lph i).
Proof. intros H. exists w_LINECOMMENT, i. split; [left; reflexivity|split; [exact H|reflexivity]]. Qed.

Lemma insert_blocks_cons mk hk i bc bcs ins (s : str) :
  insert_blocks mk hk ((i, bc) :: bcs) ins s =
  let is_header := match hk with Some h => N.eqb h i | None => false end in
  let bc1 := if is_header then mk bc else bc in
  let bc2 := if contains bc1 ins then [] else bc1 in
  let ph := placeholder w_BLOCKCOMMENT i in
  if is_header then
    let (s1, found) := subst1 ph bc2 s in
    if found then let (s2, _) := subst ph bc s1 in insert_blocks mk hk bcs (ins ++ bc2 ++ bc) s2
    else insert_blocks mk hk bcs ins s
  else
    let (s', found) := subst ph bc2 s in
    if found then insert_blocks mk hk bcs (ins ++ bc2) s' else insert_blocks mk hk bcs ins s.
Proof. reflexivity. Qed.

Lemma closed_of_phfree (t : str) : phfree t = true -> forall p lvl, phname p -> Gc p (line lvl t true).
Proof. intros Ht p lvl Hp. exact (Gc_text_line p Hp lvl t Ht). Qed.

Lemma line_header_split lvl (bc : str) : line lvl (native_header ++ bc) true = line lvl nh_txt true ++ line 0 bc true.
Proof. rewrite native_header_split. unfold line, indent_of. cbn [Nat.mul spaces repeat app]. rewrite <- !app_assoc. reflexivity. Qed.

Section Blocks.
  Variable E : list ev.
  Hypothesis HEok : Forall ev_ok E.
  Hypothesis HEph : ph_events E.
  Hypothesis HEnd : NoDup (cnames E).
  Variable hk : option N.
  Variable B0 : list (N * str).

  Definition memb (n : str) : bool := existsb (str_eqb n) (cnames E).
  Definition is_hdr (i : N) : bool := match hk with Some h => N.eqb h i | None => false end.
  Definition btext (i : N) (bc : str) : str := if is_hdr i then make_default_block_comment bc else bc.

  Hypothesis HBnd : NoDup (map fst B0).
  Hypothesis HBi : forall i bc, In (i, bc) B0 -> i < 1000000.
  Hypothesis HBgood : forall i bc, In (i, bc) B0 -> memb (bph i) = true -> bcgood bc = true /\ phfree bc = true.
  Hypothesis HBdist : forall i bc i' bc', In (i, bc) B0 -> In (i', bc') B0 -> memb (bph i) = true -> memb (bph i') = true ->
    bc = bc' -> i = i'.
  Hypothesis HBnh : forall h bc, In (h, bc) B0 -> memb (bph h) = true -> is_hdr h = true -> has_cpp_mark bc = false ->
    forall i' bc', In (i', bc') B0 -> memb (bph i') = true -> bc' <> nh_txt.

  Lemma memb_In n : memb n = true <-> In n (cnames E).
  Proof.
    unfold memb. rewrite existsb_exists. split.
    - intros (m & Hm & Em). apply SDictProofs.str_eqb_eq in Em. subst m. exact Hm.
    - intros H. exists n. split; [exact H|apply ScalarProofs.str_eqb_refl].
  Qed.

  Definition bstep (e : N * str) : stt := if memb (bph (fst e)) then [(bph (fst e), btext (fst e) (snd e))] else [].
  Definition bfold (B : list (N * str)) (st : stt) : stt := fold_left (fun st e => bstep e ++ st) B st.

  (* the pieces inserted so far *)
  Definition Inv (L : list (list N)) (Bd : list (N * str)) : Prop :=
    Forall piece L /\
    forall q, In q L -> q = [c_lf] \/ (exists i bc, In (i, bc) Bd /\ memb (bph i) = true /\ q = bc) \/
                        (q = nh_txt /\ exists h bc, In (h, bc) Bd /\ memb (bph h) = true /\ is_hdr h = true /\ has_cpp_mark bc = false).

  Lemma Inv_mono L Bd e : Inv L Bd -> Inv L (Bd ++ [e]).
  Proof.
    intros [H1 H2]. split; [exact H1|]. intros q Hq. destruct (H2 q Hq) as [H|[(i & bc & Hin & Hm & Eq)|(Eq & h & bc & Hin & Hm & Hh & Hc)]].
    - left. exact H.
    - right. left. exists i, bc. split; [apply in_or_app; left; exact Hin|split; assumption].
    - right. right. split; [exact Eq|]. exists h, bc. split; [apply in_or_app; left; exact Hin|repeat split; assumption].
  Qed.

  Lemma bfold_cons e B st : bfold (e :: B) st = bfold B (bstep e ++ st).
  Proof. reflexivity. Qed.

  Lemma fst_inj_nodup {A} (Bd B : list (N * A)) i a b : NoDup (map fst (Bd ++ (i, a) :: B)) -> In (i, b) Bd -> False.
  Proof.
    intros Hnd Hin. rewrite map_app in Hnd. cbn [map fst] in Hnd. apply NoDup_remove_2 in Hnd. apply Hnd.
    apply in_or_app. left. apply in_map_iff. exists (i, b). split; [reflexivity|exact Hin].
  Qed.

  Lemma insert_blocks_spec : forall B Bd st L, B0 = Bd ++ B -> Inv L Bd -> st_free st ->
    (forall e, In e B -> slook (bph (fst e)) st = None) ->
    insert_blocks make_default_block_comment hk B (concat L) (cat (cmS st) E) = cat (cmS (bfold B st)) E.
  Proof.
    induction B as [|[i bc] B IH]; intros Bd st L EB HI Hst Hnone; [reflexivity|].
    assert (Hin0 : In (i, bc) B0) by (rewrite EB; apply in_or_app; right; left; reflexivity).
    pose proof (HBi i bc Hin0) as Hi. pose proof (bph_name i Hi) as Hp.
    assert (EB' : B0 = (Bd ++ [(i, bc)]) ++ B) by (rewrite <- app_assoc; exact EB).
    assert (Hnone' : forall t e, In e B -> slook (bph (fst e)) ((bph i, t) :: st) = None).
    { intros t [i' bc'] Hin'. cbn [fst slook]. destruct (str_eqb (bph i') (bph i)) eqn:Eq.
      - exfalso. apply SDictProofs.str_eqb_eq in Eq.
        assert (Hi' : i' < 1000000) by (apply (HBi i' bc'); rewrite EB; apply in_or_app; right; right; exact Hin').
        apply (placeholder_injective _ _ _ Hi' Hi) in Eq. subst i'.
        rewrite EB in HBnd. rewrite map_app in HBnd. apply NoDup_app_r in HBnd. cbn [map fst] in HBnd.
        inversion HBnd as [|x xs Hx _]; subst. apply Hx. apply in_map_iff. exists (i, bc'). split; [reflexivity|exact Hin'].
      - apply (Hnone (i', bc')). right. exact Hin'. }
    rewrite insert_blocks_cons, bfold_cons. cbv zeta. fold (is_hdr i). fold (bph i). unfold bstep. cbn [fst snd].
    destruct (memb (bph i)) eqn:Em.
    - (* the placeholder occurs *)
      destruct (HBgood i bc Hin0 Em) as [Hg Hf]. pose proof (proj1 (memb_In _) Em) as Hin.
      pose proof (Hnone (i, bc) (or_introl eq_refl)) as Hl. cbn [fst] in Hl.
      destruct HI as [HI1 HI2].
      assert (Hbc_notin : ~ In bc L).
      { intros Hq. destruct (HI2 bc Hq) as [H|[(i' & bc' & Hin' & Hm' & E')|(E' & h & bc'' & Hin' & Hm' & Hh & Hc)]].
        - subst bc. discriminate Hg.
        - assert (Hin0' : In (i', bc') B0) by (rewrite EB; apply in_or_app; left; exact Hin').
          pose proof (HBdist i bc i' bc' Hin0 Hin0' Em Hm' E') as Ei. subst i'.
          rewrite EB in HBnd. exact (fst_inj_nodup Bd B i bc bc' HBnd Hin').
        - assert (Hin0' : In (h, bc'') B0) by (rewrite EB; apply in_or_app; left; exact Hin').
          exact (HBnh h bc'' Hin0' Hm' Hh Hc i bc Hin0 Em E'). }
      destruct (is_hdr i) eqn:Eh.
      + (* the header *)
        unfold btext. rewrite Eh. unfold make_default_block_comment. destruct (has_cpp_mark bc) eqn:Ec.
        * rewrite (not_in_concat bc L Hg HI1 Hbc_notin).
          destruct (subst_present0 (bph i) Hp st E bc HEok HEph Hst HEnd Hin Hl) as [_ S1]. rewrite S1. cbv beta iota.
          assert (Hst' : st_free ((bph i, bc) :: st)).
          { intros n t Hn. cbn [slook] in Hn. destruct (str_eqb n (bph i)); [inversion Hn; subst; exact (closed_of_phfree t Hf)|exact (Hst n t Hn)]. }
          assert (S2 : subst (bph i) bc (cat (cmS ((bph i, bc) :: st)) E) = (cat (cmS ((bph i, bc) :: st)) E, false)).
          { apply (subst_absent0 (bph i) Hp ((bph i, bc) :: st) E bc HEok HEph Hst').
            intros lvl x _. cbn [slook]. rewrite ScalarProofs.str_eqb_refl. discriminate. }
          rewrite S2. cbv beta iota. replace (concat L ++ bc ++ bc) with (concat (L ++ [bc; bc])) by (rewrite concat_app; cbn [concat]; rewrite app_nil_r; reflexivity).
          apply (IH (Bd ++ [(i, bc)]) _ _ EB'); [|exact Hst'|exact (Hnone' bc)].
          split.
          -- apply Forall_app. split; [exact HI1|]. constructor; [right; exact Hg|]. constructor; [right; exact Hg|constructor].
          -- intros q Hq. apply in_app_or in Hq. destruct Hq as [Hq|Hq].
             ++ destruct (Inv_mono L Bd (i, bc) (conj HI1 HI2)) as [_ M]. exact (M q Hq).
             ++ right. left. exists i, bc. split; [apply in_or_app; right; left; reflexivity|]. split; [exact Em|].
                destruct Hq as [<-|[<-|[]]]; reflexivity.
        * (* default header in front *)
          assert (Hnh_notin : ~ In nh_txt L).
          { intros Hq. destruct (HI2 nh_txt Hq) as [H|[(i' & bc' & Hin' & Hm' & E')|(_ & h & bc'' & Hin' & Hm' & Hh & Hc)]].
            - discriminate H.
            - assert (Hin0' : In (i', bc') B0) by (rewrite EB; apply in_or_app; left; exact Hin').
              exact (HBnh i bc Hin0 Em Eh Ec i' bc' Hin0' Hm' (eq_sym E')).
            - unfold is_hdr in Eh, Hh. destruct hk as [h0|]; [|discriminate Eh]. apply N.eqb_eq in Eh, Hh. subst h0. subst h.
              rewrite EB in HBnd. exact (fst_inj_nodup Bd B i bc bc'' HBnd Hin'). }
          assert (Ect : contains (native_header ++ bc) (concat L) = false).
          { destruct (contains (native_header ++ bc) (concat L)) eqn:Ect; [|reflexivity]. exfalso.
            rewrite native_header_split, <- app_assoc in Ect. apply contains_prefix in Ect.
            rewrite (not_in_concat nh_txt L (proj1 nh_good) HI1 Hnh_notin) in Ect. discriminate Ect. }
          rewrite Ect.
          destruct (subst_present0 (bph i) Hp st E (native_header ++ bc) HEok HEph Hst HEnd Hin Hl) as [_ S1].
          rewrite S1. cbv beta iota.
          assert (Hst' : st_free ((bph i, (native_header ++ bc : str)) :: st)).
          { intros n t Hn. cbn [slook] in Hn. destruct (str_eqb n (bph i)); [|exact (Hst n t Hn)].
            assert (Et : native_header ++ bc = t) by exact (f_equal (fun o => match o with Some y => y | None => t end) Hn).
            rewrite <- Et. intros p lvl Hpp. rewrite line_header_split. apply Gc_app; [exact (closed_of_phfree nh_txt (proj1 (proj2 nh_good)) p lvl Hpp)|].
            exact (closed_of_phfree bc Hf p 0%nat Hpp). }
          assert (S2 : subst (bph i) bc (cat (cmS ((bph i, (native_header ++ bc : str)) :: st)) E) =
                       (cat (cmS ((bph i, (native_header ++ bc : str)) :: st)) E, false)).
          { apply (subst_absent0 (bph i) Hp ((bph i, (native_header ++ bc : str)) :: st) E bc HEok HEph Hst').
            intros lvl x _. cbn [slook]. rewrite ScalarProofs.str_eqb_refl. discriminate. }
          rewrite S2. cbv beta iota.
          replace (concat L ++ (native_header ++ bc) ++ bc) with (concat (L ++ [nh_txt; [c_lf]; bc; bc])).
          2:{ rewrite concat_app, native_header_split. cbn [concat]. rewrite app_nil_r, <- !app_assoc. reflexivity. }
          apply (IH (Bd ++ [(i, bc)]) _ _ EB'); [|exact Hst'|exact (Hnone' _)].
          split.
          -- apply Forall_app. split; [exact HI1|].
             constructor; [right; exact (proj1 nh_good)|]. constructor; [left; reflexivity|].
             constructor; [right; exact Hg|]. constructor; [right; exact Hg|constructor].
          -- intros q Hq. apply in_app_or in Hq. destruct Hq as [Hq|Hq].
             ++ destruct (Inv_mono L Bd (i, bc) (conj HI1 HI2)) as [_ M]. exact (M q Hq).
             ++ destruct Hq as [<-|[<-|Hq]].
                ** right. right. split; [reflexivity|]. exists i, bc. split; [apply in_or_app; right; left; reflexivity|]. repeat split; assumption.
                ** left. reflexivity.
                ** right. left. exists i, bc. split; [apply in_or_app; right; left; reflexivity|]. split; [exact Em|].
                   destruct Hq as [<-|[<-|[]]]; reflexivity.
      + (* an ordinary block comment *)
        unfold btext. rewrite Eh. rewrite (not_in_concat bc L Hg HI1 Hbc_notin).
        destruct (subst_present0 (bph i) Hp st E bc HEok HEph Hst HEnd Hin Hl) as [S1 _].
        rewrite S1. cbv beta iota.
        assert (Hst' : st_free ((bph i, bc) :: st)).
        { intros n t Hn. cbn [slook] in Hn. destruct (str_eqb n (bph i)); [inversion Hn; subst; exact (closed_of_phfree t Hf)|exact (Hst n t Hn)]. }
        replace (concat L ++ bc) with (concat (L ++ [bc])) by (rewrite concat_app; cbn [concat]; rewrite app_nil_r; reflexivity).
        apply (IH (Bd ++ [(i, bc)]) _ _ EB'); [|exact Hst'|exact (Hnone' bc)].
        split.
        * apply Forall_app. split; [exact HI1|]. constructor; [right; exact Hg|constructor].
        * intros q Hq. apply in_app_or in Hq. destruct Hq as [Hq|Hq].
          -- destruct (Inv_mono L Bd (i, bc) (conj HI1 HI2)) as [_ M]. exact (M q Hq).
          -- right. left. exists i, bc. split; [apply in_or_app; right; left; reflexivity|]. split; [exact Em|].
             destruct Hq as [<-|[]]; reflexivity.
    - (* the placeholder does not occur: nothing happens *)
      assert (Habs : forall lvl x, In (ECm lvl (bph i) x) E -> slook (bph i) st <> None).
      { intros lvl x Hin. exfalso. apply In_cnames in Hin. apply memb_In in Hin. rewrite Hin in Em. discriminate Em. }
      cbn [app].
      assert (S1 : forall repl : str, subst1 (bph i) repl (cat (cmS st) E) = (cat (cmS st) E, false)).
      { intros repl. exact (proj2 (subst_absent0 (bph i) Hp st E repl HEok HEph Hst Habs)). }
      assert (S2 : forall repl : str, subst (bph i) repl (cat (cmS st) E) = (cat (cmS st) E, false)).
      { intros repl. exact (proj1 (subst_absent0 (bph i) Hp st E repl HEok HEph Hst Habs)). }
      destruct (is_hdr i); [rewrite S1|rewrite S2]; cbv beta iota;
        (apply (IH (Bd ++ [(i, bc)]) _ _ EB'); [apply Inv_mono; exact HI|exact Hst|intros e He; apply Hnone; right; exact He]).
  Qed.
End Blocks.

(* ================================================================================================ *)
(* 5. the header key and insert_line_comments                                                       *)
(* ================================================================================================ *)

Lemma cmS_nil lvl n x : cmS [] lvl n x = cm_pair lvl n x.
Proof. reflexivity. Qed.

Lemma cat_cmS_nil es : cat (cmS []) es = cat cm_pair es.
Proof. induction es as [|e es IH]; [reflexivity|]. rewrite !cat_cons, IH. destruct e; reflexivity. Qed.

Definition ev_lvl (e : ev) : nat :=
  match e with
  | ELeaf l _ _ | EOpen l _ | EClose l | ECm l _ _ | ELOpen l _ => l
  | EIOpen l _ _ _ _ | EDOpen l _ _ _ _ | ELEnd l _ _ _ _ _ => S l     (* never the first event of a dict *)
  end.

Lemma take_n_app {A} (a b : list A) : take_n (length a) (a ++ b) = a.
Proof. induction a as [|x a IH]; [destruct b; reflexivity|]. cbn [length app take_n]. rewrite IH. reflexivity. Qed.

Lemma all_digits_app (d r : list N) : forallb is_digit d = true -> all_digits_n (length d) (d ++ r) = true.
Proof.
  induction d as [|x d IH]; intros H; [reflexivity|]. cbn [forallb] in H. apply andb_true_iff in H. destruct H as [H1 H2].
  cbn [length app all_digits_n]. rewrite H1, (IH H2). reflexivity.
Qed.

(* a key token in front of a separator does not begin like a block comment placeholder *)
Lemma key_not_block (a : list N) (c : N) (r : list N) : simple_tok a = true -> has_char c w_BLOCKCOMMENT = false ->
  starts_with w_BLOCKCOMMENT (a ++ c :: r) = false.
Proof.
  intros Ha Hc. rewrite (starts_with_sep w_BLOCKCOMMENT c Hc a r).
  destruct (starts_with w_BLOCKCOMMENT a) eqn:E; [|reflexivity]. exfalso.
  assert (Hcb : contains w_BLOCKCOMMENT a = true) by (destruct a; [discriminate E|cbn [contains]; rewrite E; reflexivity]).
  apply block_contains_comment in Hcb. destruct (simple_tok_inv a Ha) as (_ & _ & Hr).
  rewrite (nores_nocomment a Hr) in Hcb. discriminate Hcb.
Qed.

Lemma line0 (txt : str) : line 0 txt true = txt ++ [c_lf].
Proof. reflexivity. Qed.

Lemma ph_id_bph i : ph_id w_BLOCKCOMMENT (bph i) = i.
Proof. unfold ph_id, bph, placeholder. rewrite drop_n_app. apply dec_to_N_pad6. Qed.
Lemma ph_id_lph i : ph_id w_LINECOMMENT (lph i) = i.
Proof. unfold ph_id, lph, placeholder. rewrite drop_n_app. apply dec_to_N_pad6. Qed.

Lemma header_key_events (E : list ev) (B : list (N * str)) : Forall ev_ok E -> ph_events E ->
  (match E with e :: _ => ev_lvl e = 0%nat | [] => True end) ->
  header_key B (cat cm_pair E) = hk_of E B.
Proof.
  intros Hok Hph Hl. destruct E as [|e E]; [reflexivity|]. rewrite cat_cons. inversion Hok as [|e' E' He _]; subst.
  assert (Hsp : has_char c_sp w_BLOCKCOMMENT = false) by reflexivity.
  assert (Hlf : has_char c_lf w_BLOCKCOMMENT = false) by reflexivity.
  destruct e as [lvl k v|lvl k|lvl|lvl n x|lvl k|lvl len idx first run|lvl len idx first run|lvl anc len idx first run]; cbn [ev_lvl] in Hl; try discriminate Hl; subst lvl; cbn [ev_text hk_of ev_ok] in *.
  - destruct He as [Hk _]. destruct (simple_key_inv k Hk) as (Hkt & _). unfold leaf_line. rewrite line0.
    destruct (Nat.max 8 (30 - length (FK k) - 4 * 0)) as [|m] eqn:Em; [lia|].
    cbn [spaces repeat]. rewrite <- !app_assoc. cbn [app]. unfold header_key. rewrite (key_not_block (FK k) c_sp _ Hkt Hsp). reflexivity.
  - destruct (simple_key_inv k He) as (Hkt & Hkx & _). rewrite Hkx, line0.
    rewrite <- !app_assoc. cbn [app]. unfold header_key. rewrite (key_not_block (FK k) c_lf _ Hkt Hlf). reflexivity.
  - reflexivity.
  - destruct (Hph 0%nat n x (or_introl eq_refl)) as [-> (w & i & Hw & Hi & ->)].
    rewrite (cm_pair_ph 0 _ (ex_intro _ w (ex_intro _ i (conj Hw (conj Hi eq_refl))))). rewrite line0.
    rewrite <- !app_assoc.
    destruct Hw as [-> | ->].
    + (* a line comment comes first *)
      unfold header_key. assert (E1 : forall r : list N, starts_with w_BLOCKCOMMENT (placeholder w_LINECOMMENT i ++ r) = false) by (intros r; reflexivity).
      rewrite E1. assert (E2 : starts_with w_BLOCKCOMMENT (placeholder w_LINECOMMENT i) = false) by reflexivity. rewrite E2. reflexivity.
    + fold (bph i). assert (E2 : starts_with w_BLOCKCOMMENT (bph i) = true) by reflexivity. rewrite E2, ph_id_bph.
      unfold header_key. set (rest := spaces _ ++ _).
      assert (E1 : starts_with w_BLOCKCOMMENT (bph i ++ rest) = true) by reflexivity. rewrite E1.
      assert (E3 : drop_n (length w_BLOCKCOMMENT) (bph i ++ rest) = pad6 i ++ rest).
      { unfold bph, placeholder. rewrite <- app_assoc. apply drop_n_app. }
      rewrite E3. pose proof (all_digits_app (pad6 i) rest (pad6_digits i)) as E4. rewrite (pad6_length i Hi) in E4. rewrite E4.
      cbn [andb]. pose proof (take_n_app (pad6 i) rest) as E5. rewrite (pad6_length i Hi) in E5. rewrite E5, dec_to_N_pad6.
      fold (bph i). unfold rest. destruct (Nat.max 8 (30 - length (bph i) - 4 * 0)) as [|m] eqn:Em; [lia|].
      destruct (phname_facts (bph i) (bph_name i Hi)) as (_ & Hne & _ & Hns & _).
      cbn [app]. rewrite (match_pair_line (bph i) (S m) _ Hne Hns ltac:(lia)). reflexivity.
  - destruct (simple_key_inv k He) as (Hkt & Hkx & _). rewrite Hkx, line0.
    rewrite <- !app_assoc. cbn [app]. unfold header_key. rewrite (key_not_block (FK k) c_lf _ Hkt Hlf). reflexivity.
Qed.

(* ---- insert_line_comments ------------------------------------------------------------------------- *)
Section LineComments.
  Variable E : list ev.
  Hypothesis HEok : Forall ev_ok E.
  Hypothesis HEph : ph_events E.
  Hypothesis HEnd : NoDup (cnames E).
  Variable Pre : str.         (* the default header, or nothing *)
  Hypothesis HPre : forall p, phname p -> Gc p Pre.
  Variable C0 : list (N * str).
  Hypothesis HCnd : NoDup (map fst C0).
  Hypothesis HCi : forall i t, In (i, t) C0 -> i < 1000000.
  Hypothesis HCfree : forall i t, In (i, t) C0 -> memb E (lph i) = true -> phfree t = true.

  Definition lstep (e : N * str) : stt := if memb E (lph (fst e)) then [(lph (fst e), snd e)] else [].
  Definition lfold (C : list (N * str)) (st : stt) : stt := fold_left (fun st e => lstep e ++ st) C st.

  Lemma subst_pre p (repl X : str) : phname p -> subst p repl (Pre ++ X) = (Pre ++ fst (subst p repl X), snd (subst p repl X)).
  Proof. intros Hp. apply subst_skip. apply HPre. exact Hp. Qed.

  Lemma insert_lines_spec : forall C Cd st, C0 = Cd ++ C -> st_free st ->
    (forall e, In e C -> slook (lph (fst e)) st = None) ->
    insert_line_comments C (Pre ++ cat (cmS st) E) = Pre ++ cat (cmS (lfold C st)) E.
  Proof.
    induction C as [|[i t] C IH]; intros Cd st EC Hst Hnone; [reflexivity|].
    assert (Hin0 : In (i, t) C0) by (rewrite EC; apply in_or_app; right; left; reflexivity).
    pose proof (HCi i t Hin0) as Hi. pose proof (lph_name i Hi) as Hp.
    assert (EC' : C0 = (Cd ++ [(i, t)]) ++ C) by (rewrite <- app_assoc; exact EC).
    unfold insert_line_comments. cbn [fold_left fst snd]. fold (insert_line_comments C). fold (lph i).
    change (sub_ph_pair (S (length (Pre ++ cat (cmS st) E))) (lph i) t (Pre ++ cat (cmS st) E)) with (subst (lph i) t (Pre ++ cat (cmS st) E)).
    rewrite (subst_pre (lph i) t _ Hp). cbn [fst].
    change (lfold ((i, t) :: C) st) with (lfold C (lstep (i, t) ++ st)). unfold lstep. cbn [fst snd].
    destruct (memb E (lph i)) eqn:Em.
    - pose proof (proj1 (memb_In E _) Em) as Hin. pose proof (Hnone (i, t) (or_introl eq_refl)) as Hl. cbn [fst] in Hl.
      rewrite (proj1 (subst_present0 (lph i) Hp st E t HEok HEph Hst HEnd Hin Hl)). cbn [fst app].
      apply (IH (Cd ++ [(i, t)]) _ EC').
      + intros n t' Hn. cbn [slook] in Hn. destruct (str_eqb n (lph i)); [|exact (Hst n t' Hn)].
        assert (Et : t = t') by exact (f_equal (fun o => match o with Some y => y | None => t' end) Hn). rewrite <- Et.
        exact (closed_of_phfree t (HCfree i t Hin0 Em)).
      + intros [i' t'] Hin'. cbn [fst slook]. destruct (str_eqb (lph i') (lph i)) eqn:Eq.
        * exfalso. apply SDictProofs.str_eqb_eq in Eq.
          assert (Hi' : i' < 1000000) by (apply (HCi i' t'); rewrite EC; apply in_or_app; right; right; exact Hin').
          apply (placeholder_injective _ _ _ Hi' Hi) in Eq. subst i'.
          rewrite EC in HCnd. rewrite map_app in HCnd. apply NoDup_app_r in HCnd. cbn [map fst] in HCnd.
          inversion HCnd as [|y ys Hy _]; subst. apply Hy. apply in_map_iff. exists (i, t'). split; [reflexivity|exact Hin'].
        * apply (Hnone (i', t')). right. exact Hin'.
    - assert (Habs : forall lvl x, In (ECm lvl (lph i) x) E -> slook (lph i) st <> None).
      { intros lvl x Hin. exfalso. apply In_cnames in Hin. apply (memb_In E) in Hin. rewrite Hin in Em. discriminate Em. }
      rewrite (proj1 (subst_absent0 (lph i) Hp st E t HEok HEph Hst Habs)). cbn [fst app].
      apply (IH (Cd ++ [(i, t)]) _ EC'); [exact Hst|]. intros e He. apply Hnone. right. exact He.
  Qed.
End LineComments.

(* ================================================================================================ *)
(* 6. placeholder keys and sort_top                                                                 *)
(* ================================================================================================ *)
From Coq Require Import Permutation.

Lemma is_ph_inv w n : is_ph w n = true -> n = placeholder w (ph_id w n) /\ ph_id w n < 1000000.
Proof.
  unfold is_ph. intros H. apply andb_true_iff in H. destruct H as [H1 H2]. apply SDictProofs.str_eqb_eq in H1.
  apply N.ltb_lt in H2. split; assumption.
Qed.

Lemma ph_id_ph w i : ph_id w (placeholder w i) = i.
Proof. unfold ph_id, placeholder. rewrite drop_n_app. apply dec_to_N_pad6. Qed.

Lemma is_ph_ph w i : i < 1000000 -> is_ph w (placeholder w i) = true.
Proof.
  intros Hi. unfold is_ph. rewrite ph_id_ph, ScalarProofs.str_eqb_refl. cbn [andb]. apply N.ltb_lt. exact Hi.
Qed.

Lemma is_ph_cross_lb i : is_ph w_LINECOMMENT (bph i) = false.
Proof. unfold is_ph. replace (str_eqb (bph i) (placeholder w_LINECOMMENT (ph_id w_LINECOMMENT (bph i)))) with false by reflexivity. reflexivity. Qed.
Lemma is_ph_cross_bl i : is_ph w_BLOCKCOMMENT (lph i) = false.
Proof. unfold is_ph. replace (str_eqb (lph i) (placeholder w_BLOCKCOMMENT (ph_id w_BLOCKCOMMENT (lph i)))) with false by reflexivity. reflexivity. Qed.

Lemma contains_In (w s : list N) : w <> [] -> contains w s = true -> forall c, In c w -> In c s.
Proof.
  intros Hw H c Hc. destruct (contains_start w s Hw H) as (j & _ & Hj). destruct (starts_with_split _ _ Hj) as [t Et].
  assert (Hd : forall (l : list N) k x, In x (drop_n k l) -> In x l).
  { induction l as [|y l IHl]; intros k x Hx; [rewrite drop_n_nil in Hx; exact Hx|]. destruct k as [|k]; [exact Hx|]. right. exact (IHl k x Hx). }
  apply (Hd s j). rewrite Et. apply in_or_app. left. exact Hc.
Qed.

Lemma cph_In w i c : cw w -> In c (placeholder w i) -> In c w \/ is_digit c = true.
Proof.
  intros _ H. unfold placeholder in H. apply in_app_or in H. destruct H as [H|H]; [left; exact H|right].
  exact (forallb_In _ _ _ (pad6_digits i) H).
Qed.

Lemma ph_not_include n : phname n -> is_include_key (KS n) = false.
Proof.
  intros (w & i & Hw & Hi & ->). cbn [is_include_key]. destruct (has_placeholder w_INCLUDE (placeholder w i)) eqn:E; [|reflexivity]. exfalso.
  apply has_placeholder_contains in E. pose proof (contains_In w_INCLUDE _ ltac:(discriminate) E 85) as H.
  assert (Hu : In 85 w_INCLUDE) by (cbn; tauto). specialize (H Hu). destruct (cph_In w i 85 Hw H) as [H1|H1]; [|discriminate H1].
  destruct Hw as [-> | ->]; cbn in H1; repeat (destruct H1 as [H1|H1]; [discriminate H1|]); exact H1.
Qed.

Lemma bph_block i : i < 1000000 -> is_block_key (KS (bph i)) = true.
Proof.
  intros Hi. cbn [is_block_key]. unfold bph, placeholder.
  assert (E : forall d : list N, all_digits_n 6 d = true -> has_placeholder w_BLOCKCOMMENT (w_BLOCKCOMMENT ++ d) = true).
  { intros d Hd. change (w_BLOCKCOMMENT ++ d) with (66 :: (skipn 1 w_BLOCKCOMMENT ++ d)). cbn [has_placeholder].
    change (66 :: skipn 1 w_BLOCKCOMMENT ++ d) with (w_BLOCKCOMMENT ++ d). rewrite starts_with_app, drop_n_app, Hd. reflexivity. }
  apply E. pose proof (all_digits_app (pad6 i) [] (pad6_digits i)) as H. rewrite (pad6_length i Hi), app_nil_r in H. exact H.
Qed.

Lemma lph_not_block i : is_block_key (KS (lph i)) = false.
Proof.
  cbn [is_block_key]. destruct (has_placeholder w_BLOCKCOMMENT (lph i)) eqn:E; [|reflexivity]. exfalso.
  apply has_placeholder_contains in E. apply contains_head_In in E. destruct (cph_In w_LINECOMMENT i 66 (or_introl eq_refl) E) as [H|H]; [|discriminate H].
  cbn in H. repeat (destruct H as [H|H]; [discriminate H|]). exact H.
Qed.

Lemma amem_In {V} k (l : list (key * V)) : amem k l = true <-> exists v, In (k, v) l.
Proof.
  unfold amem. induction l as [|[k' v'] l IH]; cbn [alookup].
  - split; [discriminate|intros [v []]].
  - destruct (key_eqb k k') eqn:E.
    + apply SDictProofs.key_eqb_eq in E. subst k'. split; [intros _; exists v'; left; reflexivity|reflexivity].
    + split.
      * intros H. destruct (proj1 IH H) as [v Hv]. exists v. right. exact Hv.
      * intros [v [Hv|Hv]]; [inversion Hv; subst; rewrite SDictProofs.key_eqb_refl in E; discriminate E|]. apply IH. exists v. exact Hv.
Qed.

Definition bk (kc : key * tree) : bool := is_block_key (fst kc).

Lemma sort_top_eq data : (forall kc, In kc data -> is_include_key (fst kc) = false) ->
  sort_top data = filter bk data ++ filter (fun kc => negb (bk kc)) data.
Proof.
  intros Hinc. unfold sort_top. rewrite (filter_none (fun kv => is_include_key (fst kv)) data Hinc).
  cbn [aupdate fold_left]. fold bk. f_equal. apply filter_ext_in. intros kv Hin. f_equal.
  destruct (bk kv) eqn:Eb.
  - apply amem_In. exists (snd kv). apply filter_In. split; [destruct kv; exact Hin|exact Eb].
  - destruct (amem (fst kv) (filter bk data)) eqn:Ea; [|reflexivity]. exfalso. apply amem_In in Ea. destruct Ea as [v Hv].
    apply filter_In in Hv. destruct Hv as [_ Hv]. unfold bk in *. cbn [fst] in Hv. rewrite Hv in Eb. discriminate Eb.
Qed.

Lemma perm_partition {A} (f : A -> bool) (l : list A) : Permutation (filter f l ++ filter (fun x => negb (f x)) l) l.
Proof.
  induction l as [|x l IH]; [constructor|]. cbn [filter]. destruct (f x); cbn [negb app].
  - constructor. exact IH.
  - apply Permutation_sym. apply Permutation_cons_app. apply Permutation_sym. exact IH.
Qed.

Lemma events_flat lvl l : events lvl (Dict l) = flat_map (entry_events lvl) l.
Proof. induction l as [|kc l IH]; [reflexivity|]. rewrite events_cons. cbn [flat_map]. rewrite IH. reflexivity. Qed.

Lemma cms_of_flat es : cms_of es = flat_map (fun e => match ev_cm e with Some c => [c] | None => [] end) es.
Proof. induction es as [|e es IH]; [reflexivity|]. cbn [cms_of flat_map]. rewrite IH. destruct (ev_cm e); reflexivity. Qed.

Lemma cms_perm a b : Permutation a b -> Permutation (cms (Dict a)) (cms (Dict b)).
Proof.
  intros H. unfold cms. rewrite !cms_of_flat, !events_flat. apply Permutation_flat_map. apply Permutation_flat_map. exact H.
Qed.

Lemma cshape_forallb l : cshape (Dict l) = forallb cshape_entry l.
Proof. induction l as [|kc l IH]; [reflexivity|]. rewrite cshape_cons. cbn [forallb]. rewrite IH. reflexivity. Qed.

Lemma cshape_perm a b : Permutation a b -> cshape (Dict a) = true -> cshape (Dict b) = true.
Proof.
  intros H. rewrite !cshape_forallb, !forallb_forall. intros Ha x Hx. apply Ha. apply (Permutation_in _ (Permutation_sym H)). exact Hx.
Qed.

(* ================================================================================================ *)
(* 7. the state after both insertion passes                                                         *)
(* ================================================================================================ *)

Section Folds.
  Variable nm : N -> str.
  Hypothesis nm_inj : forall i j, i < 1000000 -> j < 1000000 -> nm i = nm j -> i = j.
  Variable keep : N -> bool.
  Variable tx : N -> str -> str.
  Definition gstep (e : N * str) : stt := if keep (fst e) then [(nm (fst e), tx (fst e) (snd e))] else [].
  Definition gfold (C : list (N * str)) (st : stt) : stt := fold_left (fun st e => gstep e ++ st) C st.

  Lemma slook_gfold_other n : forall C st, (forall e, In e C -> nm (fst e) <> n) -> slook n (gfold C st) = slook n st.
  Proof.
    induction C as [|e C IH]; intros st H; [reflexivity|]. change (gfold (e :: C) st) with (gfold C (gstep e ++ st)).
    rewrite IH by (intros e' He'; apply H; right; exact He'). unfold gstep. destruct (keep (fst e)); [|reflexivity].
    cbn [app slook]. destruct (str_eqb n (nm (fst e))) eqn:Eq; [|reflexivity]. apply SDictProofs.str_eqb_eq in Eq.
    exfalso. apply (H e (or_introl eq_refl)). symmetry. exact Eq.
  Qed.

  Lemma slook_gfold_hit i t : forall C st, NoDup (map fst C) -> (forall e, In e C -> fst e < 1000000) -> In (i, t) C -> keep i = true ->
    slook (nm i) (gfold C st) = Some (tx i t).
  Proof.
    induction C as [|e C IH]; intros st Hnd Hlt Hin Hk; [destruct Hin|]. change (gfold (e :: C) st) with (gfold C (gstep e ++ st)).
    cbn [map] in Hnd. inversion Hnd as [|x xs Hx Hnd']; subst.
    destruct Hin as [-> |Hin].
    - rewrite slook_gfold_other.
      + unfold gstep. cbn [fst snd]. rewrite Hk. cbn [app slook]. rewrite ScalarProofs.str_eqb_refl. reflexivity.
      + intros e' He' Heq. apply nm_inj in Heq; [|apply Hlt; right; exact He'|apply (Hlt (i, t)); left; reflexivity].
        cbn [fst] in Hx. apply Hx. rewrite <- Heq. apply in_map. exact He'.
    - apply IH; [exact Hnd'|intros e' He'; apply Hlt; right; exact He'|exact Hin|exact Hk].
  Qed.
End Folds.

Lemma bph_lph_ne i j : bph i <> lph j.
Proof. unfold bph, lph, placeholder. discriminate. Qed.

Lemma tlookup_In {V} i (v : V) tab : tlookup i tab = Some v -> In (i, v) tab.
Proof.
  induction tab as [|[j x] tab IH]; [discriminate|]. cbn [tlookup]. destruct (i =? j) eqn:E.
  - apply N.eqb_eq in E. subst j. intros H. inversion H; subst. left. reflexivity.
  - intros H. right. exact (IH H).
Qed.

Lemma In_tlookup {V} i (v : V) tab : NoDup (map fst tab) -> In (i, v) tab -> tlookup i tab = Some v.
Proof.
  induction tab as [|[j x] tab IH]; intros Hnd Hin; [destruct Hin|]. cbn [map fst] in Hnd. inversion Hnd as [|y ys Hy Hnd']; subst.
  cbn [tlookup]. destruct Hin as [Heq|Hin].
  - inversion Heq; subst. rewrite N.eqb_refl. reflexivity.
  - destruct (i =? j) eqn:E; [|exact (IH Hnd' Hin)]. apply N.eqb_eq in E. subst j. exfalso. apply Hy.
    apply in_map_iff. exists (i, v). split; [reflexivity|exact Hin].
Qed.

Lemma nodupN_NoDup l : nodupN l = true -> NoDup l.
Proof.
  induction l as [|x l IH]; intros H; [constructor|]. cbn [nodupN] in H. apply andb_true_iff in H. destruct H as [H1 H2].
  constructor; [|exact (IH H2)]. intros Hin. apply negb_true_iff in H1.
  assert (E : existsb (N.eqb x) l = true) by (apply existsb_exists; exists x; split; [exact Hin|apply N.eqb_refl]).
  rewrite E in H1. discriminate H1.
Qed.

Lemma nodupb_NoDup l : nodupb l = true -> NoDup l.
Proof.
  induction l as [|x l IH]; intros H; [constructor|]. cbn [nodupb] in H. apply andb_true_iff in H. destruct H as [H1 H2].
  constructor; [|exact (IH H2)]. intros Hin. apply negb_true_iff in H1.
  assert (E : existsb (str_eqb x) l = true) by (apply existsb_exists; exists x; split; [exact Hin|apply ScalarProofs.str_eqb_refl]).
  rewrite E in H1. discriminate H1.
Qed.

Lemma tab_ok_inv {V} (tab : list (N * V)) : tab_ok tab = true -> NoDup (map fst tab) /\ forall i v, In (i, v) tab -> i < 1000000.
Proof.
  unfold tab_ok. intros H. apply andb_true_iff in H. destruct H as [H1 H2]. split; [exact (nodupN_NoDup _ H1)|].
  intros i v Hin. rewrite forallb_forall in H2. specialize (H2 _ Hin). cbn [fst] in H2. apply N.ltb_lt. exact H2.
Qed.

Lemma map_leaves_idf_list (l : list tree) : map (map_leaves idf) l = l.
Proof. induction l as [|c l IHl]; [reflexivity|]. cbn [map]. rewrite IHl. f_equal. exact (map_leaves_id c). Qed.

Lemma map_idf (run : list scalar) : map idf run = run.
Proof. induction run as [|v run IH]; [reflexivity|]. cbn [map]. rewrite IH. reflexivity. Qed.

(* comment texts as the events show them once every placeholder line is replaced *)
Lemma cat_cmS_final (gn gx : str -> str -> str) st es :
  (forall lvl n x, In (ECm lvl n x) es -> slook n st = Some (gx n x)) ->
  cat (cmS st) es = cat cm_line (map (ev_map gn gx idf) es).
Proof.
  induction es as [|e es IH]; intros H; [reflexivity|]. cbn [map]. rewrite !cat_cons, IH by (intros l n x Hin; apply (H l n x); right; exact Hin).
  f_equal. destruct e as [lvl k v|lvl k|lvl|lvl n x|lvl k|lvl len idx first run|lvl len idx first run|lvl anc len idx first run]; cbn [ev_map ev_text]; try reflexivity; try (rewrite map_idf; reflexivity).
  unfold cmS, cm_line. rewrite (H lvl n x (or_introl eq_refl)). reflexivity.
Qed.

(* ================================================================================================ *)
(* 8. what the class gives                                                                          *)
(* ================================================================================================ *)

Lemma NoDup_map_inj_on {A B} (f : A -> B) (l : list A) : NoDup (map f l) -> forall a b, In a l -> In b l -> f a = f b -> a = b.
Proof.
  induction l as [|x l IH]; intros Hnd a b Ha Hb E; [destruct Ha|]. cbn [map] in Hnd. inversion Hnd as [|y ys Hy Hnd']; subst.
  destruct Ha as [<-|Ha]; destruct Hb as [<-|Hb]; [reflexivity| | |exact (IH Hnd' a b Ha Hb E)].
  - exfalso. apply Hy. rewrite E. apply in_map. exact Hb.
  - exfalso. apply Hy. rewrite <- E. apply in_map. exact Ha.
Qed.

Lemma In_cms lvl n x es : In (ECm lvl n x) es <-> In (lvl, n, x) (cms_of es).
Proof.
  induction es as [|e es IH]; [split; intros []|]. cbn [cms_of]. destruct e as [l k v|l k|l|l m y|l k|l len idx first run|l len idx first run|l anc len idx first run]; cbn [ev_cm].
  all: try (split; [intros [H|H]; [discriminate H|apply IH; exact H]|intros H; right; apply IH; exact H]).
  split.
  - intros [H|H]; [inversion H; subst; left; reflexivity|right; apply IH; exact H].
  - intros [H|H]; [inversion H; subst; left; reflexivity|right; apply IH; exact H].
Qed.

Lemma cnames_cms es : cnames es = map cm_name (cms_of es).
Proof. reflexivity. Qed.

Lemma events_hd_lvl lvl t : match t with Dict _ => match events lvl t with e :: _ => ev_lvl e = lvl | [] => True end | _ => True end.
Proof.
  destruct t as [v|kvs|ts]; try exact I. destruct kvs as [|[k c] kvs]; [exact I|]. rewrite events_cons. unfold entry_events.
  destruct (cm_entry (k, c)) as [[n x]|]; [reflexivity|]. cbn [snd fst]. destruct c; reflexivity.
Qed.

Lemma st_free_gfold nm keep tx : forall C st,
  (forall e, In e C -> keep (fst e) = true -> forall p lvl, phname p -> Gc p (line lvl (tx (fst e) (snd e)) true)) ->
  st_free st -> st_free (gfold nm keep tx C st).
Proof.
  induction C as [|e C IH]; intros st H Hst; [exact Hst|]. change (gfold nm keep tx (e :: C) st) with (gfold nm keep tx C (gstep nm keep tx e ++ st)).
  apply IH; [intros e' He'; apply H; right; exact He'|]. unfold gstep. destruct (keep (fst e)) eqn:Ek; [|exact Hst].
  intros n t Hn. cbn [app slook] in Hn. destruct (str_eqb n (nm (fst e))); [|exact (Hst n t Hn)].
  assert (Et : tx (fst e) (snd e) = t) by exact (f_equal (fun o => match o with Some y => y | None => t end) Hn).
  rewrite <- Et. apply (H e (or_introl eq_refl) Ek).
Qed.

Record wfacts (s : sdict) : Prop := mkWF {
  wf_data : wf (Dict (sd_data s)) = true;
  wf_shape : cshape (Dict (sd_data s)) = true;
  wf_entries : forall c, In c (cms (Dict (sd_data s))) -> ph_entry_ok (sd_lc s) (sd_bc s) c = true;
  wf_names : NoDup (map cm_name (cms (Dict (sd_data s))));
  wf_lc_nd : NoDup (map fst (sd_lc s));
  wf_lc_lt : forall i t, In (i, t) (sd_lc s) -> i < 1000000;
  wf_bc_nd : NoDup (map fst (sd_bc s));
  wf_bc_lt : forall i t, In (i, t) (sd_bc s) -> i < 1000000;
  wf_lc_free : forall i t, In (i, t) (sd_lc s) -> phfree t = true;
  wf_bc_good : forall i b, In (i, b) (sd_bc s) -> bcgood b = true /\ phfree b = true;
  wf_bc_dist : NoDup (map snd (sd_bc s));
  wf_nh : hdr_marked s = true \/ ~ In nh_txt (map snd (sd_bc s));
  wf_inc : sd_inc s = [];
  wf_expr : sd_expr s = [];
  wf_canon : cdoc_ok (hdr (canon s)) = true }.

Lemma rereadable_facts s : rereadable s = true -> wfacts s.
Proof.
  unfold rereadable. intros H.
  repeat match goal with H : _ && _ = true |- _ => apply andb_true_iff in H; destruct H as [H ?] end.
  match goal with H : tab_ok (sd_lc s) = true |- _ => destruct (tab_ok_inv _ H) as [L1 L2] end.
  match goal with H : tab_ok (sd_bc s) = true |- _ => destruct (tab_ok_inv _ H) as [B1 B2] end.
  constructor; try assumption.
  - match goal with H : forallb (ph_entry_ok _ _) _ = true |- _ => rewrite forallb_forall in H; exact H end.
  - apply nodupb_NoDup. assumption.
  - intros i t Hin. match goal with H : forallb (fun e => phfree (snd e)) _ = true |- _ => rewrite forallb_forall in H; exact (H _ Hin) end.
  - intros i b Hin. match goal with H : forallb (fun e => bcgood (snd e) && phfree (snd e)) _ = true |- _ =>
      rewrite forallb_forall in H; specialize (H _ Hin); cbn [snd] in H; apply andb_true_iff in H; exact H end.
  - apply nodupb_NoDup. assumption.
  - match goal with Hh : hdr_marked s || _ = true |- _ => apply orb_true_iff in Hh; destruct Hh as [Hh|Hh]; [left; exact Hh|right] ;
      try (intros Hin; apply negb_true_iff in Hh;
           assert (E : existsb (str_eqb nh_txt) (map snd (sd_bc s)) = true)
             by (apply existsb_exists; exists nh_txt; split; [exact Hin|apply ScalarProofs.str_eqb_refl]);
           rewrite E in Hh; discriminate Hh) end.
  - destruct (sd_inc s); [reflexivity|discriminate].
  - destruct (sd_expr s); [reflexivity|discriminate].
Qed.

(* ---- the events of the sorted data ----------------------------------------------------------------- *)
Lemma ph_entry_inv lc bc lvl n x : ph_entry_ok lc bc (lvl, n, x) = true ->
  x = n /\ phname n /\
  ((is_ph w_LINECOMMENT n = true /\ exists t, tlookup (ph_id w_LINECOMMENT n) lc = Some t) \/
   (is_ph w_BLOCKCOMMENT n = true /\ exists t, tlookup (ph_id w_BLOCKCOMMENT n) bc = Some t)).
Proof.
  cbn [ph_entry_ok]. intros H. apply andb_true_iff in H. destruct H as [H1 H2]. apply SDictProofs.str_eqb_eq in H1.
  split; [exact H1|]. apply orb_true_iff in H2. destruct H2 as [H2|H2]; apply andb_true_iff in H2; destruct H2 as [Hp Hl].
  - destruct (is_ph_inv _ _ Hp) as [En Hi]. split; [exists w_LINECOMMENT, (ph_id w_LINECOMMENT n); split; [left; reflexivity|split; assumption]|].
    left. split; [exact Hp|]. destruct (tlookup _ lc) as [t|]; [exists t; reflexivity|discriminate Hl].
  - destruct (is_ph_inv _ _ Hp) as [En Hi]. split; [exists w_BLOCKCOMMENT, (ph_id w_BLOCKCOMMENT n); split; [right; reflexivity|split; assumption]|].
    right. split; [exact Hp|]. destruct (tlookup _ bc) as [t|]; [exists t; reflexivity|discriminate Hl].
Qed.

Section Sorted.
  Variable s : sdict.
  Hypothesis HW : wfacts s.
  Let data := sd_data s.
  Let D := sort_top data.
  Let E0 := events 0 (Dict D).

  Lemma top_entry_cms kc n x : In kc data -> cm_entry kc = Some (n, x) -> In (0%nat, n, x) (cms (Dict data)).
  Proof.
    intros Hin Hc. unfold cms. apply In_cms. rewrite events_flat. apply in_flat_map. exists kc. split; [exact Hin|].
    unfold entry_events. rewrite Hc. left. reflexivity.
  Qed.

  Lemma data_no_include kc : In kc data -> is_include_key (fst kc) = false.
  Proof.
    intros Hin. destruct (cm_entry kc) as [[n x]|] eqn:Ec.
    - destruct (cm_entry_inv _ _ _ Ec) as [-> _]. cbn [fst].
      destruct (ph_entry_inv _ _ _ _ _ (wf_entries s HW _ (top_entry_cms _ n x Hin Ec))) as (_ & Hn & _). exact (ph_not_include n Hn).
    - pose proof (wf_shape s HW) as Hs. fold data in Hs. rewrite cshape_forallb, forallb_forall in Hs. specialize (Hs kc Hin).
      unfold cshape_entry in Hs. rewrite Ec in Hs. apply andb_true_iff in Hs. exact (proj2 (simple_key_unsorted _ (proj1 Hs))).
  Qed.

  Lemma D_eq : D = filter bk data ++ filter (fun kc => negb (bk kc)) data.
  Proof. apply sort_top_eq. exact data_no_include. Qed.

  Lemma D_perm : Permutation D data.
  Proof. rewrite D_eq. apply perm_partition. Qed.

  Lemma D_shape : cshape (Dict D) = true.
  Proof. apply (cshape_perm data D (Permutation_sym D_perm)). exact (wf_shape s HW). Qed.

  Lemma E0_ok : Forall ev_ok E0.
  Proof. apply cshape_events. exact D_shape. Qed.

  Lemma E0_entry lvl n x : In (ECm lvl n x) E0 -> ph_entry_ok (sd_lc s) (sd_bc s) (lvl, n, x) = true.
  Proof.
    intros Hin. apply (wf_entries s HW). apply (Permutation_in _ (cms_perm D data D_perm)). unfold cms. apply In_cms. exact Hin.
  Qed.

  Lemma E0_ph : ph_events E0.
  Proof. intros lvl n x Hin. destruct (ph_entry_inv _ _ _ _ _ (E0_entry lvl n x Hin)) as (A & B & _). split; assumption. Qed.

  Lemma E0_nd : NoDup (cnames E0).
  Proof.
    rewrite cnames_cms. apply (Permutation_NoDup (l := map cm_name (cms (Dict data)))); [|exact (wf_names s HW)].
    apply Permutation_map. apply Permutation_sym. exact (cms_perm D data D_perm).
  Qed.

  Lemma E0_hd : match E0 with e :: _ => ev_lvl e = 0%nat | [] => True end.
  Proof. exact (events_hd_lvl 0 (Dict D)). Qed.
End Sorted.

(* ================================================================================================ *)
(* 9. the written text                                                                              *)
(* ================================================================================================ *)

Lemma native_header_closed p : phname p -> Gc p native_header.
Proof.
  intros Hp. change native_header with (line 0 nh_txt true). exact (closed_of_phfree nh_txt (proj1 (proj2 nh_good)) p 0%nat Hp).
Qed.

Section WriterText.
  Variable s : sdict.
  Hypothesis HW : wfacts s.
  Let data := sd_data s.
  Let lc := sd_lc s.
  Let bc := sd_bc s.
  Let E0 := events 0 (Dict (sort_top data)).
  Let hk := hk_s s.

  Definition keepB (i : N) : bool := memb E0 (bph i).
  Definition keepL (i : N) : bool := memb E0 (lph i).
  Definition stB : stt := gfold bph keepB (btext hk) bc [].
  Definition stL : stt := gfold lph keepL (fun _ t => t) lc stB.
  Definition pre : str := match hk with None => native_header | Some _ => [] end.

  Lemma hk_is_hdr h : hk = Some h -> forall i, is_hdr hk i = (h =? i).
  Proof. intros -> i. reflexivity. Qed.

  Lemma blocks_done : insert_blocks make_default_block_comment hk bc [] (cat cm_pair E0) = cat (cmS stB) E0.
  Proof.
    rewrite <- cat_cmS_nil. change (@nil N) with (@concat N []).
    unfold stB. change (gfold bph keepB (btext hk) bc []) with (bfold E0 hk bc []).
    apply (insert_blocks_spec E0 (E0_ok s HW) (E0_ph s HW) (E0_nd s HW) hk bc (wf_bc_nd s HW) (wf_bc_lt s HW)) with (Bd := []).
    - intros i b Hin _. exact (wf_bc_good s HW i b Hin).
    - intros i b i' b' H1 H2 _ _ Eb. subst b'.
      pose proof (NoDup_map_inj_on snd bc (wf_bc_dist s HW) (i, b) (i', b) H1 H2 eq_refl) as E. inversion E. reflexivity.
    - intros h b0 Hin0 _ Hh Hc i' b' Hin' _ Eb. destruct (wf_nh s HW) as [Hm|Hn].
      + unfold hdr_marked in Hm. fold hk in Hm. unfold is_hdr in Hh. destruct hk as [h0|]; [|discriminate Hh].
        apply N.eqb_eq in Hh. subst h0. unfold tget in Hm. fold bc in Hm. rewrite (In_tlookup h b0 bc (wf_bc_nd s HW) Hin0) in Hm.
        rewrite Hm in Hc. discriminate Hc.
      + apply Hn. subst b'. apply in_map_iff. exists (i', nh_txt). split; [reflexivity|exact Hin'].
    - reflexivity.
    - split; [constructor|intros q []].
    - intros n t Hn. discriminate Hn.
    - intros e _. reflexivity.
  Qed.

  Lemma stB_free : st_free stB.
  Proof.
    unfold stB. apply st_free_gfold; [|intros n t Hn; discriminate Hn].
    intros [i b] Hin _ p lvl Hp. cbn [fst snd]. destruct (wf_bc_good s HW i b Hin) as [_ Hf]. unfold btext.
    destruct (is_hdr hk i); [|exact (closed_of_phfree b Hf p lvl Hp)]. unfold make_default_block_comment.
    destruct (has_cpp_mark b); [exact (closed_of_phfree b Hf p lvl Hp)|]. rewrite line_header_split.
    apply Gc_app; [exact (closed_of_phfree nh_txt (proj1 (proj2 nh_good)) p lvl Hp)|exact (closed_of_phfree b Hf p 0%nat Hp)].
  Qed.

  Lemma pre_closed p : phname p -> Gc p pre.
  Proof. intros Hp. unfold pre. destruct hk; [apply Gc_nil|exact (native_header_closed p Hp)]. Qed.

  Theorem writer_text : to_string_sd s = remove_trailing_spaces (pre ++ cat (cmS stL) E0).
  Proof.
    unfold to_string_sd. rewrite (wf_inc s HW). unfold insert_includes. cbn [fold_left]. f_equal.
    assert (Ebody : native_body (sd_data s) = cat cm_pair E0) by (unfold native_body; apply fmt_events_dict).
    rewrite Ebody. unfold insert_block_comments.
    rewrite (header_key_events E0 (sd_bc s) (E0_ok s HW) (E0_ph s HW) (E0_hd s)).
    change (hk_of E0 (sd_bc s)) with hk. cbv zeta. fold bc. rewrite blocks_done.
    assert (E1 : match hk with None => make_default_block_comment [] ++ cat (cmS stB) E0 | Some _ => cat (cmS stB) E0 end = pre ++ cat (cmS stB) E0).
    { unfold pre. destruct hk; reflexivity. }
    rewrite E1. unfold stL. change (gfold lph keepL (fun _ t => t) lc stB) with (lfold E0 lc stB).
    apply (insert_lines_spec E0 (E0_ok s HW) (E0_ph s HW) (E0_nd s HW) pre pre_closed lc (wf_lc_nd s HW) (wf_lc_lt s HW)) with (Cd := []).
    - intros i t Hin _. exact (wf_lc_free s HW i t Hin).
    - reflexivity.
    - exact stB_free.
    - intros e _. unfold stB. rewrite slook_gfold_other; [reflexivity|]. intros e' _. apply bph_lph_ne.
  Qed.
End WriterText.

(* ================================================================================================ *)
(* 10. the written text in terms of the canonical form                                              *)
(* ================================================================================================ *)

Lemma filter_map_comm {A B} (p : B -> bool) (f : A -> B) (l : list A) : filter p (map f l) = map f (filter (fun x => p (f x)) l).
Proof. induction l as [|x l IH]; [reflexivity|]. cbn [map filter]. destruct (p (f x)); cbn [map]; rewrite IH; reflexivity. Qed.

Section Canon.
  Variable s : sdict.
  Hypothesis HW : wfacts s.
  Let data := sd_data s.
  Let lc := sd_lc s.
  Let bc := sd_bc s.
  Let D := sort_top data.
  Let E0 := events 0 (Dict D).
  Let hk := hk_s s.
  Let GN : str -> str -> str := fun n _ => res_name n.
  Let G : str -> str -> str := res_text lc bc.
  Let ce : key * tree -> key * tree := cmap_entry (gkv GN G) idf.

  Lemma GN_cm n x : is_cm n = true -> is_cm (GN n x) = true.
  Proof.
    intros Hn. unfold GN, res_name. destruct (is_ph w_LINECOMMENT n); [reflexivity|]. destruct (is_ph w_BLOCKCOMMENT n); [reflexivity|exact Hn].
  Qed.

  Lemma canon_eq : canon s = map ce data.
  Proof. unfold canon, canon_tree. rewrite cmapg_dict. reflexivity. Qed.

  Lemma ce_bk kc : In kc data -> is_bc_entry (ce kc) = bk kc.
  Proof.
    intros Hin. unfold ce, cmap_entry. destruct (cm_entry kc) as [[n x]|] eqn:Ec.
    - destruct (cm_entry_inv _ _ _ Ec) as [-> _]. unfold bk. cbn [fst].
      destruct (ph_entry_inv _ _ _ _ _ (wf_entries s HW _ (top_entry_cms s _ n x Hin Ec))) as (_ & _ & [[Hp _]|[Hp _]]).
      + destruct (is_ph_inv _ _ Hp) as [En _]. unfold gkv, GN, res_name. rewrite Hp. rewrite En. fold (lph (ph_id w_LINECOMMENT n)).
        rewrite lph_not_block. reflexivity.
      + destruct (is_ph_inv _ _ Hp) as [En Hi]. unfold gkv, GN, res_name. rewrite Hp. rewrite En at 1 3. fold (bph (ph_id w_BLOCKCOMMENT n)).
        rewrite is_ph_cross_lb, (bph_block _ Hi). reflexivity.
    - pose proof (wf_shape s HW) as Hs. fold data in Hs. rewrite cshape_forallb, forallb_forall in Hs. specialize (Hs kc Hin).
      unfold cshape_entry in Hs. rewrite Ec in Hs. apply andb_true_iff in Hs. destruct Hs as [Hk _].
      unfold is_bc_entry, bk. rewrite (cm_entry_simple _ _ Hk). exact (eq_sym (proj1 (simple_key_unsorted _ Hk))).
  Qed.

  Lemma csort_canon : csort (canon s) = map ce D.
  Proof.
    rewrite canon_eq. unfold csort. rewrite !filter_map_comm, <- map_app. f_equal. unfold D, data. rewrite (D_eq s HW).
    f_equal; apply filter_ext_in; intros kc Hin; rewrite (ce_bk kc Hin); reflexivity.
  Qed.

  Lemma canon_events : events 0 (Dict (csort (canon s))) = map (ev_map GN G idf) E0.
  Proof.
    rewrite csort_canon. unfold ce. rewrite <- cmapg_dict. apply cmapg_events; [exact GN_cm|exact (D_shape s HW)].
  Qed.

  (* the texts in the final state *)
  Lemma lph_inj i j : i < 1000000 -> j < 1000000 -> lph i = lph j -> i = j.
  Proof. apply placeholder_injective. Qed.
  Lemma bph_inj i j : i < 1000000 -> j < 1000000 -> bph i = bph j -> i = j.
  Proof. apply placeholder_injective. Qed.

  Lemma final_text lvl n x : In (ECm lvl n x) E0 ->
    (exists i t, n = lph i /\ tlookup i lc = Some t /\ G n x = t /\ slook n (stL s) = Some t) \/
    (exists i b, n = bph i /\ i < 1000000 /\ tlookup i bc = Some b /\ G n x = b /\ slook n (stL s) = Some (btext hk i b)).
  Proof.
    intros Hin. pose proof (In_cnames _ _ _ _ Hin) as Hnm.
    destruct (ph_entry_inv _ _ _ _ _ (E0_entry s HW lvl n x Hin)) as (_ & _ & [[Hp (t & Ht)]|[Hp (b & Hb)]]).
    - left. destruct (is_ph_inv _ _ Hp) as [En Hi]. exists (ph_id w_LINECOMMENT n), t. fold (lph (ph_id w_LINECOMMENT n)) in En.
      split; [exact En|]. split; [exact Ht|]. split.
      + unfold G, res_text. rewrite Hp. unfold tget. fold lc in Ht. rewrite Ht. reflexivity.
      + rewrite En. unfold stL. apply (slook_gfold_hit lph lph_inj (keepL s) (fun _ t => t) _ t (sd_lc s) (stB s)
                                         (wf_lc_nd s HW) (fun e He => wf_lc_lt s HW (fst e) (snd e) ltac:(destruct e; exact He)) (tlookup_In _ _ _ Ht)).
        unfold keepL. apply memb_In. rewrite <- En. exact Hnm.
    - right. destruct (is_ph_inv _ _ Hp) as [En Hi]. fold (bph (ph_id w_BLOCKCOMMENT n)) in En. set (i := ph_id w_BLOCKCOMMENT n) in *. exists i, b.
      split; [exact En|]. split; [exact Hi|]. split; [exact Hb|]. split.
      + assert (E1 : is_ph w_LINECOMMENT n = false) by (rewrite En; apply is_ph_cross_lb).
        unfold G, res_text. rewrite E1, Hp. unfold tget, bc. fold i. rewrite Hb. reflexivity.
      + rewrite En. unfold stL. rewrite slook_gfold_other by (intros e _ Heq; exact (bph_lph_ne _ _ (eq_sym Heq))).
        unfold stB. apply (slook_gfold_hit bph bph_inj (keepB s) (btext (hk_s s)) _ b (sd_bc s) []
                             (wf_bc_nd s HW) (fun e He => wf_bc_lt s HW (fst e) (snd e) ltac:(destruct e; exact He)) (tlookup_In _ _ _ Hb)).
        unfold keepB. apply memb_In. rewrite <- En. exact Hnm.
  Qed.
End Canon.

Lemma hdr_entry_events lvl l : events lvl (Dict (hdr_entry :: l)) = ECm lvl w_BLOCKCOMMENT nh_txt :: events lvl (Dict l).
Proof. rewrite events_cons. reflexivity. Qed.

Lemma cm_line_header (R : str) : native_header ++ R = cm_line 0 w_BLOCKCOMMENT nh_txt ++ R.
Proof. reflexivity. Qed.

Lemma first_event_entry (D : list (key * tree)) kc D' lvl n x E' : D = kc :: D' -> events 0 (Dict D) = ECm lvl n x :: E' ->
  cm_entry kc = Some (n, x) /\ lvl = 0%nat.
Proof.
  intros ED EE. rewrite ED, events_cons in EE. unfold entry_events in EE.
  destruct (cm_entry kc) as [[n' x']|]; [inversion EE; subst; split; reflexivity|].
  destruct (snd kc); discriminate EE.
Qed.

Section Canon2.
  Variable s : sdict.
  Hypothesis HW : wfacts s.

  Lemma hk_some h : hk_s s = Some h ->
    exists E' b, events 0 (Dict (sort_top (sd_data s))) = ECm 0 (bph h) (bph h) :: E' /\ h < 1000000 /\ tlookup h (sd_bc s) = Some b /\
                 has_header (csort (canon s)) = has_cpp_mark b /\ res_text (sd_lc s) (sd_bc s) (bph h) (bph h) = b.
  Proof.
    intros Hk. unfold hk_s in Hk. pose proof (csort_canon s HW) as Hcs. pose proof (final_text s HW) as Hft. pose proof (E0_entry s HW) as Hent.
    remember (sort_top (sd_data s)) as D eqn:ED0. remember (events 0 (Dict D)) as E0 eqn:EE0.
    destruct E0 as [|e E']; [discriminate Hk|].
    destruct e as [l k v|l k|l|lvl n x|l k|l len idx first run|l len idx first run|l anc len idx first run]; try discriminate Hk. cbn [hk_of] in Hk.
    destruct (starts_with w_BLOCKCOMMENT n) eqn:Es; [|discriminate Hk].
    assert (Hin : In (ECm lvl n x) (ECm lvl n x :: E')) by (left; reflexivity).
    destruct (Hft lvl n x Hin) as [(i & t & En & _)|(i & b & En & Hi & Hb & HG & _)].
    - rewrite En in Es. discriminate Es.
    - rewrite En, ph_id_bph, Hb in Hk. inversion Hk; subst h.
      destruct (ph_entry_inv _ _ _ _ _ (Hent lvl n x Hin)) as (Ex & _). subst x.
      destruct D as [|kc D']; [discriminate EE0|].
      destruct (first_event_entry (kc :: D') kc D' lvl n n E' eq_refl (eq_sym EE0)) as [Hc ->].
      exists E', b. rewrite En in *. split; [reflexivity|]. split; [exact Hi|]. split; [exact Hb|]. split; [|exact HG].
      rewrite Hcs. cbn [map has_header]. unfold cmap_entry. rewrite Hc.
      unfold gkv. rewrite HG. unfold res_name. rewrite is_ph_cross_lb. unfold bph. rewrite (is_ph_ph w_BLOCKCOMMENT i Hi). reflexivity.
  Qed.

  Lemma hk_none : hk_s s = None -> has_header (csort (canon s)) = false.
  Proof.
    intros Hk. unfold hk_s in Hk. pose proof (csort_canon s HW) as Hcs. pose proof (final_text s HW) as Hft. pose proof (E0_entry s HW) as Hent.
    pose proof (D_shape s HW) as Hs.
    remember (sort_top (sd_data s)) as D eqn:ED0. rewrite Hcs. destruct D as [|kc D']; [reflexivity|].
    cbn [map has_header]. unfold cmap_entry. destruct (cm_entry kc) as [[n x]|] eqn:Ec.
    - assert (EE : events 0 (Dict (kc :: D')) = ECm 0 n x :: events 0 (Dict D')) by (rewrite events_cons; unfold entry_events; rewrite Ec; reflexivity).
      rewrite EE in Hk, Hft, Hent.
      assert (Hin : In (ECm 0 n x) (ECm 0 n x :: events 0 (Dict D'))) by (left; reflexivity).
      destruct (Hft 0%nat n x Hin) as [(i & t & En & _)|(i & b & En & Hi & Hb & _)].
      + unfold gkv, res_name. rewrite En. fold (lph i).
        assert (Ei : is_ph w_LINECOMMENT (lph i) = true).
        { destruct (ph_entry_inv _ _ _ _ _ (Hent 0%nat n x Hin)) as (_ & _ & [[Hp _]|[Hp _]]).
          - rewrite En in Hp. exact Hp.
          - rewrite En, is_ph_cross_bl in Hp. discriminate Hp. }
        rewrite Ei. reflexivity.
      + exfalso. cbn [hk_of] in Hk. rewrite En in Hk.
        replace (starts_with w_BLOCKCOMMENT (bph i)) with true in Hk by reflexivity. rewrite ph_id_bph, Hb in Hk. discriminate Hk.
    - cbn [fst]. rewrite cshape_cons in Hs. apply andb_true_iff in Hs.
      destruct Hs as [Hs _]. unfold cshape_entry in Hs. rewrite Ec in Hs. apply andb_true_iff in Hs. destruct Hs as [Hkey _].
      rewrite (cm_entry_simple _ _ Hkey). reflexivity.
  Qed.
End Canon2.

(* NativeFormatter.to_string on a re-readable SDict: the canonical form, block comments first and the header in front,
   every comment on a line of its own, trailing white space removed *)
Theorem writer_canon s : rereadable s = true ->
  to_string_sd s = remove_trailing_spaces (cat cm_line (events 0 (Dict (hdr (canon s))))).
Proof.
  intros Hr. pose proof (rereadable_facts s Hr) as HW. rewrite (writer_text s HW). f_equal.
  set (E0 := events 0 (Dict (sort_top (sd_data s)))).
  set (GN := fun (n : str) (_ : str) => res_name n). set (G := res_text (sd_lc s) (sd_bc s)).
  pose proof (canon_events s HW) as Hce. fold E0 GN G in Hce.
  unfold hdr, pre. destruct (hk_s s) as [h|] eqn:Ehk.
  - destruct (hk_some s HW h Ehk) as (E' & b & EE & Hh & Hb & Hhd & HGb). fold E0 G in EE, HGb. rewrite Hhd.
    assert (Hnd : NoDup (cnames E0)) by exact (E0_nd s HW). rewrite EE, cnames_cm in Hnd. apply NoDup_cons_iff in Hnd. destruct Hnd as [Hnot _].
    assert (Hrest : forall lvl n x, In (ECm lvl n x) E' -> slook n (stL s) = Some (G n x)).
    { intros lvl n x Hin. assert (Hin0 : In (ECm lvl n x) E0) by (rewrite EE; right; exact Hin).
      destruct (final_text s HW lvl n x Hin0) as [(i & t & En & _ & HG & Hs)|(i & b' & En & Hi & Hb' & HG & Hs)].
      - fold G in HG. rewrite HG. exact Hs.
      - fold G in HG. rewrite HG, Hs. f_equal. unfold btext, is_hdr. rewrite Ehk.
        destruct (h =? i) eqn:Ehi; [|reflexivity]. apply N.eqb_eq in Ehi. subst i. exfalso. apply Hnot. rewrite <- En. exact (In_cnames _ _ _ _ Hin). }
    assert (Hfirst : slook (bph h) (stL s) = Some (make_default_block_comment b)).
    { assert (Hin0 : In (ECm 0 (bph h) (bph h)) E0) by (rewrite EE; left; reflexivity).
      destruct (final_text s HW _ _ _ Hin0) as [(i & t & En & _)|(i & b' & En & Hi & Hb' & _ & Hs)]; [exfalso; exact (bph_lph_ne _ _ En)|].
      apply (placeholder_injective _ _ _ Hh Hi) in En. subst i. rewrite Hb in Hb'. inversion Hb'; subst b'.
      rewrite Hs. unfold btext, is_hdr. rewrite Ehk, N.eqb_refl. reflexivity. }
    cbn [app]. rewrite EE, cat_cons. cbn [ev_text]. unfold cmS at 1. rewrite Hfirst.
    rewrite (cat_cmS_final GN G (stL s) E' Hrest).
    unfold make_default_block_comment. destruct (has_cpp_mark b) eqn:Ec.
    + rewrite Hce, EE. cbn [map]. rewrite cat_cons. cbn [ev_map ev_text]. unfold cm_line. fold G. rewrite HGb. reflexivity.
    + rewrite hdr_entry_events, cat_cons, Hce, EE. cbn [map]. rewrite cat_cons. cbn [ev_map ev_text]. unfold cm_line. fold G. rewrite HGb.
      rewrite line_header_split, <- app_assoc. reflexivity.
  - rewrite (hk_none s HW Ehk), hdr_entry_events, cat_cons, Hce. cbn [ev_text]. change (cm_line 0 w_BLOCKCOMMENT nh_txt) with native_header. f_equal.
    apply cat_cmS_final. intros lvl n x Hin.
    destruct (final_text s HW lvl n x Hin) as [(i & t & En & _ & HG & Hs)|(i & b' & En & Hi & Hb' & HG & Hs)].
    + fold G in HG. rewrite HG. exact Hs.
    + fold G in HG. rewrite HG, Hs. unfold btext, is_hdr. rewrite Ehk. reflexivity.
Qed.

Print Assumptions writer_canon.
