(* Proofs for C15: order_tree sorts keys at every dict level and changes nothing else. *)
From Coq Require Import NArith ZArith List Bool Sorted Permutation.
From Coq Require Import Lia ZifyBool ZifyNat ZifyN.
From DictIO Require Import Chars Str Value Scalar KeyPath SDict TreeSpec.
Import ListNotations.

(* ---- key equality ------------------------------------------------------------------------------ *)
Lemma str_eqb_refl : forall s : list N, str_eqb s s = true.
Proof.
  induction s as [|x s IH]; simpl; [reflexivity|].
  rewrite N.eqb_refl, IH. reflexivity.
Qed.

Lemma str_eqb_eq : forall a b : list N, str_eqb a b = true -> a = b.
Proof.
  induction a as [|x a IH]; intros [|y b] H; simpl in H; try discriminate; [reflexivity|].
  apply andb_true_iff in H. destruct H as [H1 H2].
  apply N.eqb_eq in H1. apply IH in H2. subst. reflexivity.
Qed.

Lemma key_eqb_refl : forall k, key_eqb k k = true.
Proof.
  intros [z|s]; simpl; [apply Z.eqb_refl | apply str_eqb_refl].
Qed.

Lemma key_eqb_eq : forall a b, key_eqb a b = true -> a = b.
Proof.
  intros [x|x] [y|y] H; simpl in H; try discriminate.
  - apply Z.eqb_eq in H. subst. reflexivity.
  - apply str_eqb_eq in H. subst. reflexivity.
Qed.

Lemma key_eqb_neq : forall a b, a <> b -> key_eqb a b = false.
Proof.
  intros a b H. destruct (key_eqb a b) eqn:E; [|reflexivity].
  apply key_eqb_eq in E. contradiction.
Qed.

Lemma key_eqb_sym : forall a b, key_eqb a b = key_eqb b a.
Proof.
  intros a b. destruct (key_eqb a b) eqn:E.
  - apply key_eqb_eq in E. subst. symmetry. apply key_eqb_refl.
  - destruct (key_eqb b a) eqn:E'; [|reflexivity].
    apply key_eqb_eq in E'. subst. rewrite key_eqb_refl in E. discriminate.
Qed.

(* ---- key order --------------------------------------------------------------------------------- *)
Lemma str_ltb_irrefl : forall s : list N, str_ltb s s = false.
Proof.
  induction s as [|x s IH]; simpl; [reflexivity|].
  rewrite N.ltb_irrefl. exact IH.
Qed.

Lemma str_ltb_asym : forall a b : list N, str_ltb a b = true -> str_ltb b a = false.
Proof.
  induction a as [|x a IH]; intros [|y b] H; simpl in *; try discriminate; try reflexivity.
  destruct (N.ltb x y) eqn:E1.
  - assert (E2 : N.ltb y x = false) by lia. rewrite E2. reflexivity.
  - destruct (N.ltb y x) eqn:E2; [discriminate|]. apply IH. exact H.
Qed.

Lemma key_ltb_irrefl : forall k, key_ltb k k = false.
Proof.
  intros [z|s]; simpl; [apply Z.ltb_irrefl | apply str_ltb_irrefl].
Qed.

Lemma key_ltb_asym : forall a b, key_ltb a b = true -> key_ltb b a = false.
Proof.
  intros [x|x] [y|y] H; simpl in *; try discriminate; try reflexivity.
  - lia.
  - apply str_ltb_asym. exact H.
Qed.

Lemma key_leb_refl : forall k, key_leb k k = true.
Proof. intros k. unfold key_leb. rewrite key_ltb_irrefl. reflexivity. Qed.

(* totality: not (a <= b) gives b <= a *)
Lemma key_leb_total : forall a b, key_leb a b = false -> key_leb b a = true.
Proof.
  intros a b H. unfold key_leb in *. apply negb_false_iff in H.
  apply key_ltb_asym in H. rewrite H. reflexivity.
Qed.

(* ---- insertion sort ---------------------------------------------------------------------------- *)
Section SortFacts.
  Context {V : Type}.
  Implicit Types (l : list (key * V)) (kv : key * V).

  Lemma insert_kv_perm : forall kv l, Permutation (insert_kv kv l) (kv :: l).
  Proof.
    intros kv l. induction l as [|h l IH]; simpl; [apply Permutation_refl|].
    destruct (key_leb (fst kv) (fst h)); [apply Permutation_refl|].
    eapply perm_trans; [apply perm_skip; exact IH | apply perm_swap].
  Qed.

  Lemma sort_kvs_perm : forall l, Permutation (sort_kvs l) l.
  Proof.
    induction l as [|h l IH]; simpl; [apply perm_nil|].
    eapply perm_trans; [apply insert_kv_perm | apply perm_skip; exact IH].
  Qed.

  Lemma keys_sorted_cons : forall k ks, keys_sorted (k :: ks) = true -> keys_sorted ks = true.
  Proof.
    intros k ks H. simpl in H. apply andb_true_iff in H. destruct H as [_ H]. exact H.
  Qed.

  Lemma insert_kv_sorted : forall kv l,
    keys_sorted (map fst l) = true -> keys_sorted (map fst (insert_kv kv l)) = true.
  Proof.
    intros kv l. induction l as [|h l IH]; intros Hs; [reflexivity|].
    simpl. destruct (key_leb (fst kv) (fst h)) eqn:E.
    - change (keys_sorted (fst kv :: map fst (h :: l)) = true).
      simpl. simpl in Hs. rewrite E. simpl. exact Hs.
    - pose proof (keys_sorted_cons _ _ Hs) as Hs'. specialize (IH Hs').
      change (keys_sorted (fst h :: map fst (insert_kv kv l)) = true).
      simpl. rewrite IH. rewrite andb_true_r.
      destruct l as [|h2 l2].
      + simpl. apply key_leb_total. exact E.
      + simpl. destruct (key_leb (fst kv) (fst h2)); simpl.
        * apply key_leb_total. exact E.
        * simpl in Hs. apply andb_true_iff in Hs. destruct Hs as [Hs _]. exact Hs.
  Qed.

  Lemma sort_kvs_sorted : forall l, keys_sorted (map fst (sort_kvs l)) = true.
  Proof.
    induction l as [|h l IH]; simpl; [reflexivity|].
    apply insert_kv_sorted. exact IH.
  Qed.

  Lemma sort_kvs_id : forall l, keys_sorted (map fst l) = true -> sort_kvs l = l.
  Proof.
    induction l as [|h l IH]; intros Hs; simpl; [reflexivity|].
    rewrite (IH (keys_sorted_cons _ _ Hs)).
    destruct l as [|h2 l2]; simpl; [reflexivity|].
    simpl in Hs. apply andb_true_iff in Hs. destruct Hs as [Hs _]. rewrite Hs. reflexivity.
  Qed.

  (* stability: the first binding of every key stays the first *)
  Lemma alookup_insert_kv : forall k kv l,
    alookup k (insert_kv kv l) = alookup k (kv :: l).
  Proof.
    intros k kv l. induction l as [|h l IH]; [reflexivity|].
    simpl. destruct (key_leb (fst kv) (fst h)) eqn:E; [reflexivity|].
    destruct kv as [k1 v1]. destruct h as [k2 v2]. simpl in *.
    rewrite IH.
    destruct (key_eqb k k2) eqn:E2.
    - apply key_eqb_eq in E2. subst k2.
      destruct (key_eqb k k1) eqn:E1; [|reflexivity].
      apply key_eqb_eq in E1. subst k1. rewrite key_leb_refl in E. discriminate.
    - reflexivity.
  Qed.

  Lemma alookup_sort_kvs : forall k l, alookup k (sort_kvs l) = alookup k l.
  Proof.
    intros k l. induction l as [|h l IH]; [reflexivity|].
    simpl sort_kvs. rewrite alookup_insert_kv. destruct h as [k1 v1]. simpl.
    rewrite IH. reflexivity.
  Qed.
End SortFacts.

Section SortMap.
  Context {V W : Type} (f : V -> W).
  Definition map_snd (l : list (key * V)) : list (key * W) := map (fun kv => (fst kv, f (snd kv))) l.

  Lemma map_snd_fst : forall l, map fst (map_snd l) = map fst l.
  Proof.
    intros l. unfold map_snd. rewrite map_map. simpl. reflexivity.
  Qed.

  Lemma insert_kv_map_snd : forall kv l,
    insert_kv (fst kv, f (snd kv)) (map_snd l) = map_snd (insert_kv kv l).
  Proof.
    intros kv l. induction l as [|h l IH]; [reflexivity|].
    simpl. destruct (key_leb (fst kv) (fst h)); simpl; [reflexivity|].
    rewrite IH. reflexivity.
  Qed.

  Lemma sort_kvs_map_snd : forall l, sort_kvs (map_snd l) = map_snd (sort_kvs l).
  Proof.
    induction l as [|h l IH]; [reflexivity|].
    simpl. rewrite IH. apply insert_kv_map_snd.
  Qed.

  Lemma alookup_map_snd : forall k l, alookup k (map_snd l) = option_map f (alookup k l).
  Proof.
    intros k l. induction l as [|[k1 v1] l IH]; [reflexivity|].
    simpl. destruct (key_eqb k k1); [reflexivity | exact IH].
  Qed.
End SortMap.

(* ---- order_tree -------------------------------------------------------------------------------- *)
Lemma order_child_eq : forall c, order_child c = order_tree c.
Proof. intros [v|kvs|ts]; reflexivity. Qed.

Lemma order_tree_dict : forall kvs,
  order_tree (Dict kvs) = Dict (sort_kvs (map_snd order_tree kvs)).
Proof.
  intros kvs. simpl. f_equal. f_equal.
  induction kvs as [|[k c] l IH]; [reflexivity|].
  rewrite IH. unfold map_snd. simpl. f_equal. f_equal.
  destruct c; reflexivity.
Qed.

Lemma sorted_deep_dict : forall kvs,
  sorted_deep (Dict kvs) =
  keys_sorted (map fst kvs) && forallb (fun kv => sorted_deep (snd kv)) kvs.
Proof.
  intros kvs. simpl. f_equal.
  induction kvs as [|[k c] l IH]; [reflexivity|].
  rewrite IH. simpl. f_equal. destruct c; reflexivity.
Qed.

Lemma order_sorted_deep : forall t, sorted_deep (order_tree t) = true.
Proof.
  induction t as [v|kvs IH|ts IH] using tree_ind'; try reflexivity.
  rewrite order_tree_dict, sorted_deep_dict.
  rewrite sort_kvs_sorted. simpl.
  apply forallb_forall. intros kv Hin.
  apply (Permutation_in _ (sort_kvs_perm _)) in Hin.
  unfold map_snd in Hin. apply in_map_iff in Hin. destruct Hin as [kv0 [Heq Hin0]].
  subst kv. simpl.
  rewrite Forall_forall in IH. apply IH. exact Hin0.
Qed.

Lemma order_keys_perm : forall kvs,
  Permutation (map fst (kvs_of (order_tree (Dict kvs)))) (map fst kvs).
Proof.
  intros kvs. rewrite order_tree_dict. simpl kvs_of.
  eapply perm_trans; [apply Permutation_map; apply sort_kvs_perm|].
  rewrite map_snd_fst. apply Permutation_refl.
Qed.

Lemma order_assoc_deep : forall t p,
  get_dpath (order_tree t) p = option_map order_child (get_dpath t p).
Proof.
  induction t as [v|kvs IH|ts IH] using tree_ind'; intros p.
  - destruct p; reflexivity.
  - destruct p as [|k p]; [reflexivity|].
    rewrite order_tree_dict. simpl.
    rewrite alookup_sort_kvs, alookup_map_snd.
    destruct (alookup k kvs) as [c|] eqn:E; simpl; [|reflexivity].
    assert (Hin : exists k', In (k', c) kvs).
    { clear -E. induction kvs as [|[k1 c1] l IHl]; simpl in E; [discriminate|].
      destruct (key_eqb k k1).
      - inversion E; subst. exists k1. left. reflexivity.
      - destruct (IHl E) as [k' Hk']. exists k'. right. exact Hk'. }
    destruct Hin as [k' Hin]. rewrite Forall_forall in IH.
    apply (IH (k', c) Hin).
  - destruct p; reflexivity.
Qed.

Lemma order_lists_untouched :
  (forall ts, order_child (Lst ts) = Lst ts) /\ (forall v, order_child (Leaf v) = Leaf v).
Proof. split; intros; reflexivity. Qed.

Lemma order_idem : forall t, order_tree (order_tree t) = order_tree t.
Proof.
  induction t as [v|kvs IH|ts IH] using tree_ind'; try reflexivity.
  rewrite order_tree_dict. rewrite order_tree_dict.
  rewrite <- sort_kvs_map_snd.
  assert (Hmm : map_snd order_tree (map_snd order_tree kvs) = map_snd order_tree kvs).
  { unfold map_snd. rewrite map_map. simpl. apply map_ext_in.
    intros kv Hin. rewrite Forall_forall in IH. rewrite (IH kv Hin). reflexivity. }
  rewrite Hmm. f_equal. apply sort_kvs_id. apply sort_kvs_sorted.
Qed.
